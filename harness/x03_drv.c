/* X03 - DNS resolver conformance driver (growth task): the real src/proto/dns_resolv.c on the real thread
 * pool (one worker thread) against scripted fake DNS servers on UDP loopback in the same process.
 *
 * Unity build: the library sources are #included (nothing in them is changed) so that the private structs are
 * visible (socket of the resolver, slot number of a timer).  Link with -Wl,--wrap=sendto,--wrap=recvfrom,--wrap=time
 *   sendto   on the resolver's socket: logs "tx" (server index, message id, question name), injects armed failures
 *   recvfrom on the resolver's socket: logs "rx" with an independent parse of the datagram (id, question, rcode, RRs)
 *   time     logical clock of the scenario (the cache works in whole seconds; "tick k" advances it on the pool thread)
 * liblcb_verif_point() (guarded hook of the thread pool): "loop.cb" for a timer that lives in rslvr->tasks_tmr[]
 * logs "timer" with the slot number = message id.
 * Everything that touches the resolver (API calls, tick, dump, destroy) runs on the pool thread (thread message +
 * semaphore), so the log order of tx/rx/timer/cb/api lines IS the execution order of the resolver.
 * The main thread interprets the scenario and plays the servers (plain sockets, no library code).
 * Wall-clock values never reach the log; waits are bounded.
 *
 * usage: x03_drv <scenario-file> <trace-out.ndjson>
 */
#include <semaphore.h>
#include <stdarg.h>
#include <poll.h>
#include <arpa/inet.h>
#include "threadpool/threadpool.c"
#include "threadpool/threadpool_msg_sys.c"
#include "threadpool/threadpool_task.c"
#include "net/socket.c"
#include "net/socket_address.c"
#include "net/socket_options.c"
#include "utils/sys.c"
#include "proto/dns_resolv.c"

ssize_t __real_sendto(int, const void *, size_t, int, const struct sockaddr *, socklen_t);
ssize_t __real_recvfrom(int, void *, size_t, int, struct sockaddr *, socklen_t *);
time_t __real_time(time_t *);

/* ------------------------------------------------------------------ log */
static pthread_mutex_t g_log_mu = PTHREAD_MUTEX_INITIALIZER;
static pthread_cond_t g_log_cv = PTHREAD_COND_INITIALIZER;
static char *g_log; static size_t g_log_len, g_log_cap;
static long g_seq;
static const char *g_out_path;
static volatile int g_flushed;

static void flush_log(void) {
	if (!g_out_path) return;
	FILE *f = fopen(g_out_path, "w");
	if (!f) return;
	fwrite(g_log, 1, g_log_len, f);
	fclose(f);
}
static void logf_locked(const char *fmt, ...) {
	if (g_log_len + 8192 > g_log_cap) {
		g_log_cap = g_log_cap ? g_log_cap * 2 : (1u << 20);
		g_log = realloc(g_log, g_log_cap);
		if (!g_log) abort();
	}
	int n = snprintf(g_log + g_log_len, 64, "{\"n\":%ld,", ++g_seq);
	g_log_len += (size_t)n;
	va_list ap; va_start(ap, fmt);
	n = vsnprintf(g_log + g_log_len, 7000, fmt, ap);
	va_end(ap);
	g_log_len += (size_t)n;
	g_log[g_log_len++] = '}'; g_log[g_log_len++] = '\n';
}
#define LOGEV(...) do { pthread_mutex_lock(&g_log_mu); logf_locked(__VA_ARGS__); pthread_cond_broadcast(&g_log_cv); pthread_mutex_unlock(&g_log_mu); } while (0)

void __sanitizer_set_death_callback(void (*)(void)) __attribute__((weak));
static void on_death(void) {
	if (g_flushed) return;
	g_flushed = 1;
	int locked = (0 == pthread_mutex_trylock(&g_log_mu));
	logf_locked("\"e\":\"crash\"");
	flush_log();
	if (locked) pthread_mutex_unlock(&g_log_mu);
}
static void on_signal(int sig) {
	if (!g_flushed) {
		g_flushed = 1;
		int locked = (0 == pthread_mutex_trylock(&g_log_mu));
		logf_locked("\"e\":\"%s\",\"sig\":%d", (sig == SIGALRM) ? "hang" : "crash", sig);
		flush_log();
		if (locked) pthread_mutex_unlock(&g_log_mu);
	}
	fprintf(stderr, "FAULT sig=%d\n", sig);
	_exit((sig == SIGALRM) ? 98 : 99);
}

/* ------------------------------------------------------------------ world */
#define MAXSRV 4
#define MAXQ 128
#define MAXLK 16
#define NAMES "abcdefgh"
typedef struct { uint8_t msg[1024]; int len; struct sockaddr_in from; } fq_t;
typedef struct { int fd; int port; int nq; fq_t q[MAXQ]; } fsrv_t;
typedef struct { int l; dns_rslvr_task_p task; int ncb; } flk_t;

static fsrv_t g_srv[MAXSRV + 1]; /* index nsrv = a stranger: socket that is not one of the configured servers */
static int g_nsrv;
static flk_t g_lk[MAXLK];
static tp_p g_tp; static tpt_p g_tpt0;
static dns_rslvr_p g_rslvr; static volatile int g_rslvr_alive; static volatile int g_rskt = -1;
static volatile time_t g_now = 1000000;
static volatile int g_sendfail_n, g_sendfail_errno;
/* progress counters (under g_log_mu) */
static long g_n_timer, g_n_rx, g_rx_idle_at, g_n_cb, g_sent_to_resolver;

time_t __wrap_time(time_t *t) { time_t v = g_now; if (t) *t = v; return v; }

static int on_pool(void) { return (g_tp != NULL && tpt_get_current() != NULL) ? 1 : 0; }

/* wire name <letter>.test ; returns letter or '?' */
static int put_name(uint8_t *p, char c) { p[0] = 1; p[1] = (uint8_t)c; p[2] = 4; memcpy(p + 3, "test", 4); p[7] = 0; return 8; }
/* independent parse of an (uncompressed or compressed) name at off; returns new offset or -1; *c = letter or '?' ; root = '.' */
static int get_name(const uint8_t *m, int len, int off, char *c) {
	int o = off, jumped = 0, end = -1, hops = 0, nlab = 0; char first = '.'; int ok = 1; char lab2[8] = "";
	for (;;) {
		if (o >= len) return -1;
		uint8_t b = m[o];
		if ((b & 0xC0) == 0xC0) {
			if (o + 1 >= len) return -1;
			if (!jumped) end = o + 2;
			o = ((b & 0x3F) << 8) | m[o + 1]; jumped = 1;
			if (++hops > 16) return -1;
			continue;
		}
		if (b & 0xC0) return -1;
		if (b == 0) { if (!jumped) end = o + 1; break; }
		if (o + 1 + b > len) return -1;
		if (nlab == 0) { if (b == 1) first = (char)m[o + 1]; else ok = 0; }
		else if (nlab == 1) { if (b == 4) memcpy(lab2, m + o + 1, 4); else ok = 0; }
		else ok = 0;
		nlab++; o += 1 + b;
	}
	if (nlab == 0) *c = '.';
	else if (ok && nlab == 2 && 0 == strncasecmp(lab2, "test", 4) && strchr(NAMES, first | 32)) *c = (char)(first | 32);
	else *c = '?';
	return end;
}
static int srv_by_port(int port) { for (int i = 0; i <= g_nsrv; i++) if (g_srv[i].port == port) return (i == g_nsrv) ? -1 : i; return -1; }

/* render a datagram as the abstract record the specification consumes; returns length written */
static int describe(const uint8_t *m, int len, char *out, size_t cap) {
	int n = 0, bad = 0; char q = '?';
	unsigned id = 0, rcode = 0, qd = 0, an = 0, ns = 0, ar = 0;
	char rrs[4096]; int rn = 0; rrs[0] = 0;
	long soa_ttl = -1, soa_min = -1;
	if (len < 12) bad = 1;
	else {
		id = (unsigned)m[0] | ((unsigned)m[1] << 8); /* the library keeps the id in host order */
		rcode = m[3] & 0x0F;
		qd = (m[4] << 8) | m[5]; an = (m[6] << 8) | m[7]; ns = (m[8] << 8) | m[9]; ar = (m[10] << 8) | m[11];
		int o = 12;
		for (unsigned i = 0; i < qd && !bad; i++) {
			char c; int e = get_name(m, len, o, &c);
			if (e < 0 || e + 4 > len) { bad = 1; break; }
			if (i == 0) q = c;
			o = e + 4;
		}
		if (qd != 1) q = '?';
		unsigned tot = an + ns + ar;
		for (unsigned i = 0; i < tot && !bad; i++) {
			char c; int e = get_name(m, len, o, &c);
			if (e < 0 || e + 10 > len) { bad = 1; break; }
			unsigned type = (m[e] << 8) | m[e + 1];
			unsigned long ttl = ((unsigned long)m[e + 4] << 24) | (m[e + 5] << 16) | (m[e + 6] << 8) | m[e + 7];
			unsigned rdl = (m[e + 8] << 8) | m[e + 9];
			int rd = e + 10;
			if (rd + (int)rdl > len) { bad = 1; break; }
			if (type == 1 && rdl == 4) {
				int v = (m[rd] == 10 && m[rd + 1] == 0 && m[rd + 2] == 0) ? m[rd + 3] : -1;
				rn += snprintf(rrs + rn, sizeof(rrs) - rn, "%s[\"%c\",\"A\",%d,%lu]", rn ? "," : "", c, v, ttl > 999999 ? 999999 : ttl);
			} else if (type == 5) {
				char t; int te = get_name(m, len, rd, &t);
				if (te < 0) t = '?';
				rn += snprintf(rrs + rn, sizeof(rrs) - rn, "%s[\"%c\",\"C\",\"%c\",%lu]", rn ? "," : "", c, t, ttl > 999999 ? 999999 : ttl);
			} else if (type == 6) { /* SOA: mname rname serial refresh retry expire minimum */
				char t; int e1 = get_name(m, len, rd, &t); int e2 = (e1 < 0) ? -1 : get_name(m, len, e1, &t);
				if (e2 >= 0 && e2 + 20 <= rd + (int)rdl && soa_ttl < 0) {
					soa_ttl = (long)(ttl > 999999 ? 999999 : ttl);
					unsigned long mn = ((unsigned long)m[e2 + 16] << 24) | (m[e2 + 17] << 16) | (m[e2 + 18] << 8) | m[e2 + 19];
					soa_min = (long)(mn > 999999 ? 999999 : mn);
				}
				rn += snprintf(rrs + rn, sizeof(rrs) - rn, "%s[\"%c\",\"S\",0,0]", rn ? "," : "", c);
			} else {
				rn += snprintf(rrs + rn, sizeof(rrs) - rn, "%s[\"%c\",\"O\",0,0]", rn ? "," : "", c);
			}
			o = rd + (int)rdl;
			if (rn > 3500) break;
		}
	}
	n = snprintf(out, cap, "\"id\":%u,\"q\":\"%c\",\"rcode\":%u,\"bad\":%d,\"rrs\":[%s],\"soa\":[%ld,%ld]",
	    id, q, rcode, bad, bad ? "" : rrs, soa_ttl, soa_min);
	return n;
}

/* ------------------------------------------------------------------ wrappers */
ssize_t __wrap_sendto(int fd, const void *buf, size_t len, int flags, const struct sockaddr *to, socklen_t tolen) {
	if (fd < 0 || fd != g_rskt || !on_pool())
		return __real_sendto(fd, buf, len, flags, to, tolen);
	const uint8_t *m = buf; char q = '?'; unsigned id = 0; int srv = -1;
	if (len >= 12) { id = (unsigned)m[0] | ((unsigned)m[1] << 8); (void)get_name(m, (int)len, 12, &q); }
	if (to && to->sa_family == AF_INET) srv = srv_by_port(ntohs(((const struct sockaddr_in *)to)->sin_port));
	if (g_sendfail_n > 0) {
		g_sendfail_n--;
		LOGEV("\"e\":\"tx\",\"srv\":%d,\"id\":%u,\"q\":\"%c\",\"fail\":1", srv, id, q);
		errno = g_sendfail_errno;
		return -1;
	}
	LOGEV("\"e\":\"tx\",\"srv\":%d,\"id\":%u,\"q\":\"%c\",\"fail\":0", srv, id, q);
	return __real_sendto(fd, buf, len, flags, to, tolen);
}
ssize_t __wrap_recvfrom(int fd, void *buf, size_t len, int flags, struct sockaddr *from, socklen_t *fromlen) {
	ssize_t r = __real_recvfrom(fd, buf, len, flags, from, fromlen);
	if (fd < 0 || fd != g_rskt || !on_pool()) return r;
	int e = errno;
	if (r >= 0) {
		char d[6000]; int srv = -1;
		if (from && from->sa_family == AF_INET) srv = srv_by_port(ntohs(((struct sockaddr_in *)from)->sin_port));
		describe(buf, (int)r, d, sizeof(d));
		pthread_mutex_lock(&g_log_mu);
		g_n_rx++;
		logf_locked("\"e\":\"rx\",\"srv\":%d,%s", srv, d);
		pthread_cond_broadcast(&g_log_cv);
		pthread_mutex_unlock(&g_log_mu);
	} else {
		pthread_mutex_lock(&g_log_mu);
		g_rx_idle_at = g_n_rx;
		pthread_cond_broadcast(&g_log_cv);
		pthread_mutex_unlock(&g_log_mu);
	}
	errno = e;
	return r;
}
void liblcb_verif_point(const char *label, const void *a, const void *b, uintptr_t val) {
	(void)a;
	if (label[0] != 'l' || 0 != strcmp(label, "loop.cb")) return;
	if ((val & 0xffff) != TP_EV_TIMER || !g_rslvr_alive) return;
	const tp_udata_t *u = b;
	if (u < &g_rslvr->tasks_tmr[0] || u >= &g_rslvr->tasks_tmr[DNS_RESOLVER_MAX_TASKS]) return;
	int e = errno;
	pthread_mutex_lock(&g_log_mu);
	g_n_timer++;
	logf_locked("\"e\":\"timer\",\"id\":%ld", (long)(u - &g_rslvr->tasks_tmr[0]));
	pthread_cond_broadcast(&g_log_cv);
	pthread_mutex_unlock(&g_log_mu);
	errno = e;
}

static const char *ename(int e) {
	switch (e) {
	case 0: return "0";
	case ETIMEDOUT: return "ETIMEDOUT";
	case EFAULT: return "EFAULT";
	case EINVAL: return "EINVAL";
	case ELOOP: return "ELOOP";
	case EAGAIN: return "EAGAIN";
	case ENOMEM: return "ENOMEM";
	case ENETUNREACH: return "ENETUNREACH";
	case EPERM: return "EPERM";
	case EBADF: return "EBADF";
	case -1: return "ERESTART";
	}
	static __thread char b[24]; snprintf(b, sizeof(b), "E%d", e); return b;
}

static int user_cb(dns_rslvr_task_p task, int error, struct sockaddr_storage *addrs, size_t n, void *arg) {
	flk_t *lk = arg; char a[1024]; int an = 0; a[0] = 0;
	(void)task;
	for (size_t i = 0; i < n && i < 64 && addrs != NULL; i++) {
		int v = -1;
		if (addrs[i].ss_family == AF_INET) {
			const uint8_t *p = (const uint8_t *)&((struct sockaddr_in *)&addrs[i])->sin_addr;
			if (p[0] == 10 && p[1] == 0 && p[2] == 0) v = p[3];
		}
		an += snprintf(a + an, sizeof(a) - an, "%s%d", an ? "," : "", v);
	}
	pthread_mutex_lock(&g_log_mu);
	lk->ncb++; g_n_cb++;
	logf_locked("\"e\":\"cb\",\"l\":%d,\"err\":\"%s\",\"addrs\":[%s],\"thr\":%d", lk->l, ename(error), a, on_pool() ? 0 : 1);
	pthread_cond_broadcast(&g_log_cv);
	pthread_mutex_unlock(&g_log_mu);
	return 0;
}

/* ------------------------------------------------------------------ run something on the pool thread */
typedef struct { void (*fn)(void *); void *arg; sem_t done; } preq_t;
static void pool_tramp(tpt_p tpt, void *u) { (void)tpt; preq_t *r = u; r->fn(r->arg); sem_post(&r->done); }
static int run_on_pool(void (*fn)(void *), void *arg) {
	preq_t r; r.fn = fn; r.arg = arg; sem_init(&r.done, 0, 0);
	int e = tpt_msg_send(g_tpt0, NULL, 0, pool_tramp, &r);
	if (e != 0) { fprintf(stderr, "tpt_msg_send: %d\n", e); exit(3); }
	struct timespec ts; clock_gettime(CLOCK_REALTIME, &ts); ts.tv_sec += 20;
	while (sem_timedwait(&r.done, &ts) != 0) { if (errno == EINTR) continue; on_signal(SIGALRM); }
	return 0;
}

typedef struct { int l; char name; } a_resolve_t;
static void p_resolve(void *v) {
	a_resolve_t *a = v; flk_t *lk = &g_lk[a->l]; uint8_t nm[16]; int rc;
	snprintf((char *)nm, sizeof(nm), "%c.test", a->name);
	lk->l = a->l; lk->task = NULL;
	LOGEV("\"e\":\"resolve\",\"l\":%d,\"name\":\"%c\"", a->l, a->name);
	rc = dns_resolv_hostaddr(g_rslvr, nm, 6, DNS_R_F_IP_ALL, user_cb, lk, &lk->task);
	LOGEV("\"e\":\"resolve.ret\",\"l\":%d,\"rc\":\"%s\",\"task\":%d", a->l, ename(rc), lk->task != NULL);
}
static void p_cancel(void *v) {
	int l = *(int *)v, alive = 0;
	/* dns_resolv_cancel() on a task that is gone would be a use-after-free made by the scenario, not by the
	 * library: cancel only a task that is still registered in the resolver's slot table (ground truth) */
	if (g_rslvr_alive && g_lk[l].task != NULL)
		for (int k = 1; k < DNS_RESOLVER_MAX_TASKS && !alive; k++)
			if (g_rslvr->tasks_tmr[k].ident == (uintptr_t)g_lk[l].task) alive = 1;
	if (!alive || g_lk[l].ncb > 0) { LOGEV("\"e\":\"script.miss\",\"what\":\"cancel-of-finished-lookup\",\"l\":%d", l); return; }
	LOGEV("\"e\":\"cancel\",\"l\":%d", l);
	dns_resolv_cancel(g_lk[l].task);
}
static void p_tick(void *v) { int k = *(int *)v; g_now += k; LOGEV("\"e\":\"tick\",\"k\":%d", k); }
static void p_sendfail(void *v) { int *a = v; g_sendfail_n = a[0]; g_sendfail_errno = a[1]; LOGEV("\"e\":\"sendfail\",\"k\":%d,\"err\":\"%s\"", a[0], ename(a[1])); }
static void p_dump(void *v) {
	char buf[16384]; size_t sz = 0; long ent = -1, tasks = -1; (void)v;
	int rc = dns_resolver_cache_text_dump(g_rslvr, buf, sizeof(buf) - 1, &sz);
	if (rc == 0) {
		buf[sz] = 0;
		char *p = strstr(buf, "entries count: "); if (p) ent = atol(p + 15);
		p = strstr(buf, "tasks queued count: "); if (p) tasks = atol(p + 20);
	}
	LOGEV("\"e\":\"dump\",\"rc\":%d,\"entries\":%ld,\"tasks\":%ld", rc, ent, tasks);
}
static void p_destroy(void *v) {
	(void)v;
	LOGEV("\"e\":\"destroy\"");
	g_rslvr_alive = 0; g_rskt = -1;
	dns_resolver_destroy(g_rslvr);
	LOGEV("\"e\":\"destroy.ret\"");
}

/* ------------------------------------------------------------------ bounded waits on the progress counters */
static int wait_until(long *ctr, long target, int ms) {
	struct timespec ts; clock_gettime(CLOCK_REALTIME, &ts);
	ts.tv_sec += ms / 1000; ts.tv_nsec += (long)(ms % 1000) * 1000000L;
	if (ts.tv_nsec >= 1000000000L) { ts.tv_sec++; ts.tv_nsec -= 1000000000L; }
	int ok = 1;
	pthread_mutex_lock(&g_log_mu);
	while (*ctr < target) {
		if (pthread_cond_timedwait(&g_log_cv, &g_log_mu, &ts) == ETIMEDOUT) { ok = (*ctr >= target); break; }
	}
	pthread_mutex_unlock(&g_log_mu);
	return ok;
}

/* ------------------------------------------------------------------ fake server side */
static int srv_open(fsrv_t *s) {
	struct sockaddr_in sa; socklen_t sl = sizeof(sa);
	s->fd = socket(AF_INET, SOCK_DGRAM, 0);
	if (s->fd < 0) return -1;
	memset(&sa, 0, sizeof(sa)); sa.sin_family = AF_INET; sa.sin_addr.s_addr = htonl(INADDR_LOOPBACK); sa.sin_port = 0;
	if (bind(s->fd, (struct sockaddr *)&sa, sizeof(sa)) != 0) return -1;
	if (getsockname(s->fd, (struct sockaddr *)&sa, &sl) != 0) return -1;
	s->port = ntohs(sa.sin_port); s->nq = 0;
	return 0;
}
static int srv_expect(int si, int ms) {
	fsrv_t *s = &g_srv[si]; struct pollfd pf = { s->fd, POLLIN, 0 };
	int r = poll(&pf, 1, ms);
	if (r <= 0 || s->nq >= MAXQ) return 0;
	fq_t *q = &s->q[s->nq]; socklen_t fl = sizeof(q->from);
	ssize_t n = __real_recvfrom(s->fd, q->msg, sizeof(q->msg), MSG_DONTWAIT, (struct sockaddr *)&q->from, &fl);
	if (n < 0) return 0;
	q->len = (int)n; s->nq++;
	return 1;
}
/* reply S [q=K] [id=N] [rcode=N] [rr=name:A:v:ttl,name:C:target:ttl,...] [soa=ttl:min] [trunc=LEN] [from=S2] [noq] [nowait] */
static void srv_reply(int si, char *args) {
	fsrv_t *s = &g_srv[si]; int qi = s->nq - 1, idov = -1, rcode = 0, trunc = -1, from = si, noq = 0, nowait = 0;
	char *rr = NULL; long soa_ttl = -1, soa_min = -1; char qname = 0;
	for (char *t = strtok(args, " \t\n"); t; t = strtok(NULL, " \t\n")) {
		if (!strncmp(t, "q=", 2)) qi = atoi(t + 2);
		else if (!strncmp(t, "id=", 3)) idov = atoi(t + 3);
		else if (!strncmp(t, "rcode=", 6)) rcode = atoi(t + 6);
		else if (!strncmp(t, "rr=", 3)) rr = t + 3;
		else if (!strncmp(t, "soa=", 4)) sscanf(t + 4, "%ld:%ld", &soa_ttl, &soa_min);
		else if (!strncmp(t, "trunc=", 6)) trunc = atoi(t + 6);
		else if (!strncmp(t, "from=", 5)) from = atoi(t + 5);
		else if (!strncmp(t, "qname=", 6)) qname = t[6];
		else if (!strcmp(t, "noq")) noq = 1;
		else if (!strcmp(t, "nowait")) nowait = 1;
	}
	if (qi < 0 || qi >= s->nq) { LOGEV("\"e\":\"script.miss\",\"what\":\"reply-without-query\",\"srv\":%d", si); return; }
	fq_t *q = &s->q[qi]; uint8_t m[2048]; int o = 12, an = 0, ns = 0;
	memset(m, 0, sizeof(m));
	m[0] = q->msg[0]; m[1] = q->msg[1];
	if (idov >= 0) { m[0] = (uint8_t)(idov & 0xff); m[1] = (uint8_t)(idov >> 8); }
	m[2] = 0x81; m[3] = (uint8_t)(0x80 | (rcode & 0x0F));
	if (!noq) { /* copy (or rewrite) the question */
		if (qname) { o += put_name(m + o, qname); m[o++] = 0; m[o++] = 1; m[o++] = 0; m[o++] = 1; }
		else {
			int e = 12; while (e < q->len && q->msg[e] != 0) e += 1 + q->msg[e];
			e += 5; if (e > q->len) e = q->len;
			memcpy(m + 12, q->msg + 12, (size_t)(e - 12)); o = e;
		}
		m[5] = 1;
	}
	if (rr) {
		char *save = NULL;
		for (char *it = strtok_r(rr, ",", &save); it; it = strtok_r(NULL, ",", &save)) {
			char nm = it[0], ty = it[2]; char tg = 0; int v = 0; long ttl = 0;
			if (ty == 'A') sscanf(it + 4, "%d:%ld", &v, &ttl); else sscanf(it + 4, "%c:%ld", &tg, &ttl);
			/* placeholders of the random scenarios: Q = the name asked in the chosen query, O = another name */
			char qn = '?'; (void)get_name(q->msg, q->len, 12, &qn);
			char on = (qn == 'a') ? 'b' : 'a';
			if (nm == 'Q') nm = qn; else if (nm == 'O') nm = on;
			if (tg == 'Q') tg = qn; else if (tg == 'O') tg = on;
			o += put_name(m + o, nm);
			m[o++] = 0; m[o++] = (ty == 'A') ? 1 : 5; m[o++] = 0; m[o++] = 1;
			m[o++] = (uint8_t)(ttl >> 24); m[o++] = (uint8_t)(ttl >> 16); m[o++] = (uint8_t)(ttl >> 8); m[o++] = (uint8_t)ttl;
			if (ty == 'A') { m[o++] = 0; m[o++] = 4; m[o++] = 10; m[o++] = 0; m[o++] = 0; m[o++] = (uint8_t)v; }
			else { m[o++] = 0; m[o++] = 8; o += put_name(m + o, tg); }
			an++;
		}
	}
	if (soa_ttl >= 0) { /* authority: test. SOA ns.test. hm.test. 1 2 3 4 minimum */
		m[o++] = 4; memcpy(m + o, "test", 4); o += 4; m[o++] = 0;
		m[o++] = 0; m[o++] = 6; m[o++] = 0; m[o++] = 1;
		m[o++] = (uint8_t)(soa_ttl >> 24); m[o++] = (uint8_t)(soa_ttl >> 16); m[o++] = (uint8_t)(soa_ttl >> 8); m[o++] = (uint8_t)soa_ttl;
		int rdl_at = o; o += 2; int rd0 = o;
		o += put_name(m + o, 'n'); o += put_name(m + o, 'h');
		for (int k = 1; k <= 4; k++) { m[o++] = 0; m[o++] = 0; m[o++] = 0; m[o++] = (uint8_t)k; }
		m[o++] = (uint8_t)(soa_min >> 24); m[o++] = (uint8_t)(soa_min >> 16); m[o++] = (uint8_t)(soa_min >> 8); m[o++] = (uint8_t)soa_min;
		m[rdl_at] = (uint8_t)((o - rd0) >> 8); m[rdl_at + 1] = (uint8_t)(o - rd0);
		ns++;
	}
	m[7] = (uint8_t)an; m[9] = (uint8_t)ns;
	if (trunc >= 0 && trunc < o) o = trunc;
	pthread_mutex_lock(&g_log_mu);
	g_sent_to_resolver++; long target = g_sent_to_resolver;
	pthread_mutex_unlock(&g_log_mu);
	__real_sendto(g_srv[from].fd, m, (size_t)o, 0, (struct sockaddr *)&q->from, sizeof(q->from));
	if (!nowait && g_rslvr_alive) {
		if (!wait_until(&g_rx_idle_at, target, 3000)) LOGEV("\"e\":\"script.miss\",\"what\":\"datagram-not-consumed\",\"srv\":%d", si);
	}
}

/* ------------------------------------------------------------------ scenario interpreter */
static void die(const char *m) { fprintf(stderr, "x03_drv: %s\n", m); exit(3); }

int main(int argc, char **argv) {
	if (argc < 3) die("usage: x03_drv <scenario> <trace.ndjson>");
	g_out_path = argv[2];
	signal(SIGSEGV, on_signal); signal(SIGBUS, on_signal); signal(SIGALRM, on_signal); signal(SIGABRT, on_signal);
	signal(SIGPIPE, SIG_IGN);
	if (__sanitizer_set_death_callback) __sanitizer_set_death_callback(on_death);
	alarm(120);
	FILE *sc = fopen(argv[1], "r");
	if (!sc) die("cannot open scenario");
	char line[1024];
	while (fgets(line, sizeof(line), sc)) {
		char cmd[64] = ""; int n = 0;
		if (line[0] == '#' || sscanf(line, "%63s%n", cmd, &n) < 1) continue;
		char *rest = line + n;
		if (!strcmp(cmd, "cfg")) {
			int nsrv = 1, retry = 1, timeout = 200, neg = 4;
			for (char *t = strtok(rest, " \t\n"); t; t = strtok(NULL, " \t\n")) {
				if (!strncmp(t, "nsrv=", 5)) nsrv = atoi(t + 5);
				else if (!strncmp(t, "retry=", 6)) retry = atoi(t + 6);
				else if (!strncmp(t, "timeout=", 8)) timeout = atoi(t + 8);
				else if (!strncmp(t, "neg=", 4)) neg = atoi(t + 4);
			}
			if (nsrv < 1 || nsrv > MAXSRV) die("nsrv");
			g_nsrv = nsrv;
			struct sockaddr_storage sa[MAXSRV];
			memset(sa, 0, sizeof(sa));
			for (int i = 0; i <= nsrv; i++) {
				if (srv_open(&g_srv[i]) != 0) die("server socket");
				if (i < nsrv) {
					struct sockaddr_in *s4 = (struct sockaddr_in *)&sa[i];
					s4->sin_family = AF_INET; s4->sin_addr.s_addr = htonl(INADDR_LOOPBACK); s4->sin_port = htons((uint16_t)g_srv[i].port);
				}
			}
			tp_settings_t s; tp_settings_def(&s); s.threads_max = 1; s.flags = 0;
			if (tp_create(&s, &g_tp) != 0) die("tp_create");
			if (tp_threads_create(g_tp, 0) != 0) die("tp_threads_create");
			g_tpt0 = tp_thread_get(g_tp, 0);
			for (int k = 0; k < 2000 && !tpt_is_running(g_tpt0); k++) usleep(1000);
			for (int k = 0; k < 2000 && TP_THREAD_STATE_RUNNING != g_tpt0->state; k++) usleep(1000);
			int rc = dns_resolver_create(g_tp, sa, (uint16_t)nsrv, (uintptr_t)timeout, (uint16_t)retry, (uint32_t)neg, &g_rslvr);
			if (rc != 0) die("dns_resolver_create");
			g_rskt = (int)g_rslvr->sktv4; g_rslvr_alive = 1;
			LOGEV("\"e\":\"create\",\"nsrv\":%d,\"retry\":%d,\"neg\":%d", nsrv, retry, neg);
		} else if (!strcmp(cmd, "resolve")) {
			a_resolve_t a; char nm[8] = "a"; a.l = 0;
			sscanf(rest, "%d %7s", &a.l, nm); a.name = nm[0];
			if (a.l < 0 || a.l >= MAXLK) die("lookup index");
			if (!g_rslvr_alive || g_lk[a.l].l != 0) { LOGEV("\"e\":\"script.miss\",\"what\":\"resolve-skipped\",\"l\":%d", a.l); continue; }
			run_on_pool(p_resolve, &a);
		} else if (!strcmp(cmd, "cancel")) {
			int l = atoi(rest); if (g_rslvr_alive && l > 0 && l < MAXLK) run_on_pool(p_cancel, &l);
		} else if (!strcmp(cmd, "tick")) {
			int k = atoi(rest); if (g_tp) run_on_pool(p_tick, &k);
		} else if (!strcmp(cmd, "sendfail")) {
			int a[2] = { 1, ENETUNREACH }; sscanf(rest, "%d", &a[0]); if (g_rslvr_alive) run_on_pool(p_sendfail, a);
		} else if (!strcmp(cmd, "dump")) {
			if (g_rslvr_alive) run_on_pool(p_dump, NULL);
		} else if (!strcmp(cmd, "destroy")) {
			if (g_rslvr_alive) run_on_pool(p_destroy, NULL);
		} else if (!strcmp(cmd, "expect_q")) {
			int si = 0, ms = 3000; sscanf(rest, "%d %d", &si, &ms);
			if (!srv_expect(si, ms)) LOGEV("\"e\":\"script.miss\",\"what\":\"expect_q\",\"srv\":%d", si);
		} else if (!strcmp(cmd, "drain")) { /* take whatever queries are queued on a server without waiting */
			int si = atoi(rest); while (srv_expect(si, 0)) { }
		} else if (!strcmp(cmd, "reply")) {
			int si = 0, n2 = 0; sscanf(rest, "%d%n", &si, &n2);
			srv_reply(si, rest + n2);
		} else if (!strcmp(cmd, "wait_cb")) {
			int l = 0, ms = 5000; sscanf(rest, "%d %d", &l, &ms);
			long t = 1;
			/* per lookup counter lives in g_lk[l].ncb (int): poll through the global callback counter */
			struct timespec t0; clock_gettime(CLOCK_MONOTONIC, &t0);
			for (;;) {
				pthread_mutex_lock(&g_log_mu); int have = g_lk[l].ncb; long seen = g_n_cb; pthread_mutex_unlock(&g_log_mu);
				if (have >= t) break;
				struct timespec t1; clock_gettime(CLOCK_MONOTONIC, &t1);
				long el = (t1.tv_sec - t0.tv_sec) * 1000 + (t1.tv_nsec - t0.tv_nsec) / 1000000;
				if (el >= ms) { LOGEV("\"e\":\"script.miss\",\"what\":\"wait_cb\",\"l\":%d", l); break; }
				wait_until(&g_n_cb, seen + 1, (int)(ms - el));
			}
		} else if (!strcmp(cmd, "wait_timer")) {
			int k = 1, ms = 5000; sscanf(rest, "%d %d", &k, &ms);
			/* absolute: total number of timer expiries since the start of the scenario */
			if (!wait_until(&g_n_timer, (long)k, ms)) LOGEV("\"e\":\"script.miss\",\"what\":\"wait_timer\"");
		} else if (!strcmp(cmd, "wait_timer_more")) { /* relative: k more expiries than now (random scenarios) */
			int k = 1, ms = 1000; sscanf(rest, "%d %d", &k, &ms);
			pthread_mutex_lock(&g_log_mu); long target = g_n_timer + k; pthread_mutex_unlock(&g_log_mu);
			(void)wait_until(&g_n_timer, target, ms);
		} else if (!strcmp(cmd, "sleep")) {
			usleep((useconds_t)atoi(rest) * 1000);
		} else if (!strcmp(cmd, "end")) {
			break;
		} else die("unknown scenario command");
	}
	fclose(sc);
	/* let the pool thread finish what it is doing (one empty round trip), then stop the pool */
	if (g_tp) {
		int z = 0; (void)z;
		tp_shutdown(g_tp);
		tp_shutdown_wait(g_tp);
	}
	LOGEV("\"e\":\"end\"");
	g_flushed = 1;
	flush_log();
	_exit(0);
}
