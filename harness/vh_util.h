/* Helpers shared by the conformance drivers (mode B/C): hex I/O, exact-size buffers.
 * Buffers come in two flavours so that out-of-bounds accesses are observed, not inferred:
 *   - vh_buf(n): malloc(n) exactly (ASan red zones on both sides; n==0 -> 1-byte block handed out as size 0)
 *   - vh_gbuf(n): the block ENDS flush against a PROT_NONE page (mmap), so a read or write at buf[n]
 *     faults (SIGSEGV) even without ASan; vh_gbuf_lo(n) puts the guard page directly BEFORE buf[0].
 * A SIGSEGV/SIGBUS handler prints "FAULT <tag>" so the rig can key the finding on the current case. */
#ifndef VH_UTIL_H
#define VH_UTIL_H
#include <stdio.h>
#include <stdlib.h>
#include <string.h>
#include <stdint.h>
#include <signal.h>
#include <unistd.h>
#include <sys/mman.h>
#include <sys/time.h>

static char vh_case_tag[256] = "startup";
static inline void vh_set_tag(const char *t) { strncpy(vh_case_tag, t, sizeof(vh_case_tag) - 1); }

static void vh_fault_handler(int sig) {
	char msg[400];
	if (sig == SIGPROF) sig = SIGALRM; /* vh_watchdog(): CPU-time budget and wall-clock backstop are one verdict, "FAULT sig=14" = non-termination */
	int n = snprintf(msg, sizeof(msg), "\nFAULT sig=%d case=%s\n", sig, vh_case_tag);
	if (n > 0) (void)!write(1, msg, (size_t)n);
	_exit(99);
}
static inline void vh_install_fault_handler(void) {
	signal(SIGSEGV, vh_fault_handler);
	signal(SIGBUS, vh_fault_handler);
	signal(SIGFPE, vh_fault_handler);
	signal(SIGALRM, vh_fault_handler); /* alarm() watchdog = non-termination */
	signal(SIGPROF, vh_fault_handler); /* vh_watchdog() CPU-time budget = non-termination */
	setvbuf(stdout, NULL, _IOLBF, 0);
}
/* Non-termination watchdog for one call (or one case) of the code under test: cpu_s seconds of CPU time of this process
 * (user + system; does not expire early on a loaded machine, so it can be sized close to the real cost of a case) and
 * wall_s seconds of wall clock as a backstop for a call that blocks instead of spinning.  vh_watchdog(0, 0) disarms.
 * Expiry of either ends the process with "FAULT sig=14 case=<tag>" (needs vh_install_fault_handler()). */
static inline void vh_watchdog(unsigned cpu_s, unsigned wall_s) {
	struct itimerval it;
	memset(&it, 0, sizeof(it));
	it.it_value.tv_sec = (time_t)cpu_s;
	setitimer(ITIMER_PROF, &it, NULL);
	alarm(wall_s);
}

static inline uint8_t *vh_buf(size_t n) {
	uint8_t *p = malloc(n ? n : 1);
	if (!p) abort();
	memset(p, 0xA5, n ? n : 1);
	return p;
}
static inline void vh_buf_free(uint8_t *p) { free(p); }

/* guard-page buffer: [.. data(n) ..][PROT_NONE page]; returns pointer to data, *base for unmapping */
typedef struct { uint8_t *p; void *base; size_t maplen; } vh_g_t;
static inline vh_g_t vh_gbuf(size_t n) {
	size_t pg = (size_t)sysconf(_SC_PAGESIZE);
	size_t data_pages = (n + pg - 1) / pg + 1;
	vh_g_t g;
	g.maplen = (data_pages + 1) * pg;
	g.base = mmap(NULL, g.maplen, PROT_READ | PROT_WRITE, MAP_PRIVATE | MAP_ANONYMOUS, -1, 0);
	if (g.base == MAP_FAILED) abort();
	memset(g.base, 0xA5, data_pages * pg);
	mprotect((uint8_t*)g.base + data_pages * pg, pg, PROT_NONE);
	g.p = (uint8_t*)g.base + data_pages * pg - n;
	return g;
}
static inline vh_g_t vh_gbuf_lo(size_t n) { /* guard page directly before p[0] */
	size_t pg = (size_t)sysconf(_SC_PAGESIZE);
	size_t data_pages = (n + pg - 1) / pg + 1;
	vh_g_t g;
	g.maplen = (data_pages + 1) * pg;
	g.base = mmap(NULL, g.maplen, PROT_READ | PROT_WRITE, MAP_PRIVATE | MAP_ANONYMOUS, -1, 0);
	if (g.base == MAP_FAILED) abort();
	memset(g.base, 0xA5, g.maplen);
	mprotect(g.base, pg, PROT_NONE);
	g.p = (uint8_t*)g.base + pg;
	return g;
}
static inline void vh_gfree(vh_g_t g) { munmap(g.base, g.maplen); }

static inline int vh_hexval(int c) {
	if (c >= '0' && c <= '9') return c - '0';
	if (c >= 'a' && c <= 'f') return c - 'a' + 10;
	if (c >= 'A' && c <= 'F') return c - 'A' + 10;
	return -1;
}
/* parse hex token ("-" = empty) into freshly malloc'ed exact-size block */
static inline uint8_t *vh_unhex(const char *s, size_t *n_ret) {
	size_t n = (s[0] == '-' && s[1] == 0) ? 0 : strlen(s) / 2;
	uint8_t *p = vh_buf(n);
	for (size_t i = 0; i < n; i++) p[i] = (uint8_t)(vh_hexval(s[2*i]) * 16 + vh_hexval(s[2*i+1]));
	*n_ret = n;
	return p;
}
static inline void vh_puthex(const uint8_t *p, size_t n) {
	if (n == 0) { fputs("-", stdout); return; }
	for (size_t i = 0; i < n; i++) printf("%02x", p[i]);
}
#endif
