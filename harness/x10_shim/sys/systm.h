/* FreeBSD kernel header named by reass_helper.h; nothing from it is used */
