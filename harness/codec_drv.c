/* Conformance driver for the text codecs (C14/C12).  Protocol: one case per stdin line,
 *   <op> <hex-input|-> <capacity> [extra]      ->   "<op> rc=<rc> n=<reported> out=<hex|->"
 * Input and output live in exact-size heap blocks (ASan build) so overruns are observed. */
#include <sys/param.h>
#include <sys/types.h>
#include <inttypes.h>
#include <errno.h>
#include "vh_util.h"
#include "utils/base64.h"

int main(void) {
	char line[1 << 16], op[64], hex[1 << 15];
	long cap;
	vh_install_fault_handler();
	while (fgets(line, sizeof(line), stdin)) {
		if (sscanf(line, "%63s %32767s %ld", op, hex, &cap) != 3) continue;
		vh_set_tag(line);
		size_t n, rep = (size_t)-1;
		uint8_t *in = vh_unhex(hex, &n);
		uint8_t *out = vh_buf((size_t)cap);
		int rc = -1;
		if (!strcmp(op, "b64enc")) rc = base64_encode(in, n, out, (size_t)cap, &rep);
		else if (!strcmp(op, "b64dec")) rc = base64_decode(in, n, out, (size_t)cap, &rep);
		else if (!strcmp(op, "b64decfmt")) rc = base64_decode_fmt(in, n, out, (size_t)cap, &rep);
		printf("%s rc=%d n=%zd out=", op, rc, (ssize_t)rep);
		vh_puthex(out, (rc == 0 && rep != (size_t)-1 && rep <= (size_t)cap) ? rep : 0);
		printf("\n");
		vh_buf_free(in); vh_buf_free(out);
	}
	return 0;
}
