/* Conformance driver for the text codecs (C14/C12).  Protocol: one case per stdin line,
 *   <op> <hex-input|-> <capacity> [x1 [x2]]     ->   "<op> rc=<rc> n=<reported> out=<hex|-> guard=<ok|lo|hi> touched=<k> [v=<hex64>]"
 * Input and output live in exact-size heap blocks (ASan build) so overruns are observed.
 * The driver computes nothing about the expected result; it only calls the library and prints what came back.
 *
 *   b64enc b64dec b64decfmt b64encopy        base64_encode / _decode / _decode_fmt / _en_copy
 *   bin2hex hex2bin                          cvt_bin2hex(auto=1) / cvt_hex2bin(auto=0)
 *   xmlenc xmldec                            xml_encode / xml_decode
 *   urldec                                   http_url_decode
 *   numfmt   <hex64 value> cap t f           <t>2str (f=0) / <t>2ustr (f=1), t = 0..9 (u8 u16 u32 u64 usize s8 ..)
 *   numparse <text> 0 t f                    str2<t> / ustr2<t>          -> v = value, sign-extended to 64 bit
 *   numparseh <text> 0 t f                   strh2<t> / ustrh2<t>
 *   crcraw  <data> 0 tbl variant init        crc32_{normal,reflect}{4,8,auto} with table tbl, start value init
 *   crcname <data> 0 model split             the named macro on the whole input and, chained with the
 *                                            matching *_update macro, on data[0..split) + data[split..)
 */
#include <sys/param.h>
#include <sys/types.h>
#include <inttypes.h>
#include <errno.h>
#include "vh_util.h"
#include "utils/base64.h"
#include "utils/num2str.h"
#include "utils/str2num.h"
#include "utils/strh2num.h"
#include "utils/buf_str.h"
#include "utils/xml.h"
#include "proto/http.h"
#include "math/crc32.h"

/* Output block.  ASan builds: an exact-size malloc block (red zones on both sides, ASan reports the access).
 * Other builds: the block sits between two 64-byte margins filled with 0xA5 that are inspected after the
 * call, so a stray store is attributed to the case that made it instead of corrupting the allocator. */
#if defined(__SANITIZE_ADDRESS__)
#  define VH_ASAN 1
#elif defined(__has_feature)
#  if __has_feature(address_sanitizer)
#    define VH_ASAN 1
#  endif
#endif
#define MARGIN 64
static uint8_t *out_base;
static uint8_t *out_alloc(size_t cap) {
#ifdef VH_ASAN
	out_base = vh_buf(cap);
	return out_base;
#else
	out_base = vh_buf(cap + 2 * MARGIN);
	return out_base + MARGIN;
#endif
}
static const char *out_guard(size_t cap) {
#ifndef VH_ASAN
	for (size_t i = 0; i < MARGIN; i++) if (out_base[i] != 0xA5) return "lo";
	for (size_t i = 0; i < MARGIN; i++) if (out_base[MARGIN + cap + i] != 0xA5) return "hi";
#endif
	(void)cap;
	return "ok";
}

static int num_fmt(int t, int f, uint64_t v, uint8_t *out, size_t cap, size_t *rep) {
	char *c = (char *)out;
	switch (t * 2 + f) {
	case 0: return u82str((uint8_t)v, c, cap, rep);
	case 1: return u82ustr((uint8_t)v, out, cap, rep);
	case 2: return u162str((uint16_t)v, c, cap, rep);
	case 3: return u162ustr((uint16_t)v, out, cap, rep);
	case 4: return u322str((uint32_t)v, c, cap, rep);
	case 5: return u322ustr((uint32_t)v, out, cap, rep);
	case 6: return u642str((uint64_t)v, c, cap, rep);
	case 7: return u642ustr((uint64_t)v, out, cap, rep);
	case 8: return usize2str((size_t)v, c, cap, rep);
	case 9: return usize2ustr((size_t)v, out, cap, rep);
	case 10: return s82str((int8_t)(int64_t)v, c, cap, rep);
	case 11: return s82ustr((int8_t)(int64_t)v, out, cap, rep);
	case 12: return s162str((int16_t)(int64_t)v, c, cap, rep);
	case 13: return s162ustr((int16_t)(int64_t)v, out, cap, rep);
	case 14: return s322str((int32_t)(int64_t)v, c, cap, rep);
	case 15: return s322ustr((int32_t)(int64_t)v, out, cap, rep);
	case 16: return s642str((int64_t)v, c, cap, rep);
	case 17: return s642ustr((int64_t)v, out, cap, rep);
	case 18: return ssize2str((ssize_t)v, c, cap, rep);
	case 19: return ssize2ustr((ssize_t)v, out, cap, rep);
	}
	return -2;
}
static uint64_t num_parse(int t, int f, const uint8_t *s, size_t n) {
	const char *c = (const char *)s;
	switch (t * 2 + f) {
	case 0: return str2u8(c, n);
	case 1: return ustr2u8(s, n);
	case 2: return str2u16(c, n);
	case 3: return ustr2u16(s, n);
	case 4: return str2u32(c, n);
	case 5: return ustr2u32(s, n);
	case 6: return str2u64(c, n);
	case 7: return ustr2u64(s, n);
	case 8: return str2usize(c, n);
	case 9: return ustr2usize(s, n);
	case 10: return (uint64_t)(int64_t)str2s8(c, n);
	case 11: return (uint64_t)(int64_t)ustr2s8(s, n);
	case 12: return (uint64_t)(int64_t)str2s16(c, n);
	case 13: return (uint64_t)(int64_t)ustr2s16(s, n);
	case 14: return (uint64_t)(int64_t)str2s32(c, n);
	case 15: return (uint64_t)(int64_t)ustr2s32(s, n);
	case 16: return (uint64_t)str2s64(c, n);
	case 17: return (uint64_t)ustr2s64(s, n);
	case 18: return (uint64_t)(int64_t)str2ssize(c, n);
	case 19: return (uint64_t)(int64_t)ustr2ssize(s, n);
	}
	return 0xdeadbeefdeadbeefull;
}
static uint64_t num_parseh(int t, int f, const uint8_t *s, size_t n) {
	const char *c = (const char *)s;
	switch (t * 2 + f) {
	case 0: return strh2u8(c, n);
	case 1: return ustrh2u8(s, n);
	case 2: return strh2u16(c, n);
	case 3: return ustrh2u16(s, n);
	case 4: return strh2u32(c, n);
	case 5: return ustrh2u32(s, n);
	case 6: return strh2u64(c, n);
	case 7: return ustrh2u64(s, n);
	case 8: return strh2usize(c, n);
	case 9: return ustrh2usize(s, n);
	case 10: return (uint64_t)(int64_t)strh2s8(c, n);
	case 11: return (uint64_t)(int64_t)ustrh2s8(s, n);
	case 12: return (uint64_t)(int64_t)strh2s16(c, n);
	case 13: return (uint64_t)(int64_t)ustrh2s16(s, n);
	case 14: return (uint64_t)(int64_t)strh2s32(c, n);
	case 15: return (uint64_t)(int64_t)ustrh2s32(s, n);
	case 16: return (uint64_t)strh2s64(c, n);
	case 17: return (uint64_t)ustrh2s64(s, n);
	case 18: return (uint64_t)(int64_t)strh2ssize(c, n);
	case 19: return (uint64_t)(int64_t)ustrh2ssize(s, n);
	}
	return 0xdeadbeefdeadbeefull;
}

static const uint32_t *crc_t256[5] = { crc32_tbl256_04c11db7, crc32_tbl256_edb88320, crc32_tbl256_1edc6f41,
	crc32_tbl256_a833982b, crc32_tbl256_814141ab };
/* normal tables: "no additional 16 table required, first 16 items used" (crc32.h) */
static const uint32_t *crc_t16[5] = { crc32_tbl256_04c11db7, crc32_tbl16_edb88320, crc32_tbl16_1edc6f41,
	crc32_tbl16_a833982b, crc32_tbl256_814141ab };
static const int crc_refl[5] = { 0, 1, 1, 1, 0 };

static uint32_t crc_raw(int tbl, int variant, uint32_t init, const uint8_t *d, size_t n) {
	if (crc_refl[tbl]) {
		if (variant == 4) return crc32_reflect4(crc_t16[tbl], init, d, n);
		if (variant == 8) return crc32_reflect8(crc_t256[tbl], init, d, n);
		return crc32_reflect(crc_t256[tbl], crc_t16[tbl], init, d, n);
	}
	if (variant == 4) return crc32_normal4(crc_t256[tbl], init, d, n);
	if (variant == 8) return crc32_normal8(crc_t256[tbl], init, d, n);
	return crc32_normal(crc_t256[tbl], init, d, n);
}
static void crc_named(int m, const uint8_t *d, size_t n, size_t k, uint32_t *whole, uint32_t *chained) {
	uint32_t c;
	switch (m) {
	case 0: *whole = crc32a(d, n); c = crc32a(d, k); *chained = crc32a_update(c, d + k, n - k); break;
	case 1: *whole = crc32cksum(d, n); c = crc32cksum(d, k); *chained = crc32cksum_update(c, d + k, n - k); break;
	case 2: *whole = crc32mpeg2(d, n); c = crc32mpeg2(d, k); *chained = crc32mpeg2_update(c, d + k, n - k); break;
	case 3: *whole = crc32b(d, n); c = crc32b(d, k); *chained = crc32b_update(c, d + k, n - k); break;
	case 4: *whole = crc32jamcrc(d, n); c = crc32jamcrc(d, k); *chained = crc32jamcrc_update(c, d + k, n - k); break;
	case 5: *whole = crc32c(d, n); c = crc32c(d, k); *chained = crc32c_update(c, d + k, n - k); break;
	case 6: *whole = crc32d(d, n); c = crc32d(d, k); *chained = crc32d_update(c, d + k, n - k); break;
	case 7: *whole = crc32q(d, n); c = crc32q(d, k); *chained = crc32q_update(c, d + k, n - k); break;
	default: *whole = *chained = 0xdeadbeef;
	}
}

int main(void) {
	static char line[1 << 17], op[64], hex[1 << 16], x3s[64];
	long cap, x1, x2;
	vh_install_fault_handler();
	while (fgets(line, sizeof(line), stdin)) {
		x1 = x2 = 0; x3s[0] = 0;
		if (sscanf(line, "%63s %65535s %ld %ld %ld %63s", op, hex, &cap, &x1, &x2, x3s) < 3) continue;
		vh_set_tag(line);
		alarm(20);
		size_t n, rep = (size_t)-1;
		uint8_t *in = vh_unhex(hex, &n);
		uint8_t *out = out_alloc((size_t)cap);
		int rc = -1, have_v = 0;
		uint64_t v = 0, v2 = 0;
		if (!strcmp(op, "b64enc")) rc = base64_encode(in, n, out, (size_t)cap, &rep);
		else if (!strcmp(op, "b64dec")) rc = base64_decode(in, n, out, (size_t)cap, &rep);
		else if (!strcmp(op, "b64decfmt")) rc = base64_decode_fmt(in, n, out, (size_t)cap, &rep);
		else if (!strcmp(op, "b64dec2") || !strcmp(op, "b64decfmt2") || !strcmp(op, "b64enc2")) {
			/* the two-step use: ask for the size with no room at all, then work in a block of exactly that size */
			size_t need = (size_t)-1;
			int rq = !strcmp(op, "b64dec2") ? base64_decode(in, n, out, 0, &need) :
			    (!strcmp(op, "b64decfmt2") ? base64_decode_fmt(in, n, out, 0, &need) : base64_encode(in, n, out, 0, &need));
			if (need == (size_t)-1 || need > (1u << 20)) { rc = 1000 + rq; rep = need; }
			else {
				cap = (long)need; out = out_alloc((size_t)cap);
				rc = !strcmp(op, "b64dec2") ? base64_decode(in, n, out, need, &rep) :
				    (!strcmp(op, "b64decfmt2") ? base64_decode_fmt(in, n, out, need, &rep) : base64_encode(in, n, out, need, &rep));
			}
		}
		else if (!strcmp(op, "b64encopy")) rc = base64_en_copy(in, out, n, &rep);
		else if (!strcmp(op, "bin2hex")) rc = cvt_bin2hex(in, n, 1, out, (size_t)cap, &rep);
		else if (!strcmp(op, "hex2bin")) rc = cvt_hex2bin(in, n, 0, out, (size_t)cap, &rep);
		else if (!strcmp(op, "xmlenc")) rc = xml_encode(in, n, out, (size_t)cap, &rep);
		else if (!strcmp(op, "xmldec")) rc = xml_decode(in, n, out, (size_t)cap, &rep);
		else if (!strcmp(op, "urldec")) { rep = http_url_decode(in, n, out, (size_t)cap); rc = 0; }
		else if (!strcmp(op, "numfmt")) {
			uint64_t val = 0;
			for (size_t i = 0; i < n; i++) val = (val << 8) | in[i];
			rc = num_fmt((int)x1, (int)x2, val, out, (size_t)cap, &rep);
		}
		else if (!strcmp(op, "numparse")) { v = num_parse((int)x1, (int)x2, in, n); have_v = 1; rc = 0; rep = 0; }
		else if (!strcmp(op, "numparseh")) { v = num_parseh((int)x1, (int)x2, in, n); have_v = 1; rc = 0; rep = 0; }
		else if (!strcmp(op, "crcraw")) {
			v = crc_raw((int)x1, (int)x2, (uint32_t)strtoul(x3s, NULL, 16), in, n); have_v = 1; rc = 0; rep = 0;
		}
		else if (!strcmp(op, "crcname")) {
			uint32_t w, c;
			crc_named((int)x1, in, n, (size_t)x2, &w, &c); v = w; v2 = c; have_v = 2; rc = 0; rep = 0;
		}
		alarm(0);
		printf("%s rc=%d n=%zd out=", op, rc, (ssize_t)rep);
		vh_puthex(out, (rc == 0 && rep != (size_t)-1 && rep <= (size_t)cap) ? rep : 0);
		printf(" guard=%s", out_guard((size_t)cap));
		{	/* 1 + index of the last byte of the output block that no longer holds the 0xA5 fill */
			size_t touched = (size_t)cap;
			while (touched > 0 && out[touched - 1] == 0xA5) touched--;
			printf(" touched=%zu", touched);
		}
		if (have_v) printf(" v=%016" PRIx64, v);
		if (have_v == 2) printf(" v2=%016" PRIx64, v2);
		printf("\n");
		vh_buf_free(in); vh_buf_free(out_base);
	}
	return 0;
}
