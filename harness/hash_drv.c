/* Conformance driver for the hash / HMAC headers (C04, C07).
 * Built once per variant by rig/hashrig.py:   -DHD_NOSIMD  => "#undef __SSE2__" exactly as tests/hash/main.c does;
 * otherwise the -m flags select what the headers compile in (SSE2 / SSSE3 / SSE4.1 / SHA-NI / AVX / AVX2) and the
 * run-time CPUID test in *_init picks the transform; -DGOST3411_2012_USE_SMALL_TABLES selects the small-table code.
 *
 * Protocol: one scenario per stdin line, one JSON answer line per scenario.
 *   hash <alg> <align> <msg-hex|-> <chunk-lengths "a,b,c"|->
 *   hmac <alg> <align> <key-hex|-> <msg-hex|-> <chunk-lengths|->
 *   resume <alg> <align> <H-hex> <cnt-hex> <sigma-hex|-> <buf-hex|-> <data-hex|->
 *       a position in the middle of a (possibly astronomically long) stream: after *_init the context is PRIMED with
 *       the chaining value H (all words, written like a digest: MD5 little-endian words, SHA big-endian words,
 *       Streebog the 64 octets of h), the byte counter cnt (hex number: md5/sha1 64 bit -> ctx->count, sha2 128 bit
 *       -> count_hi:count; Streebog: the 64 octets of N = ctx->counter, and sigma = ctx->sigma) and the buffered
 *       bytes buf (Streebog: buffer_usage = their number); then update(data) and final run.  Answer: digest, "zero".
 * The message is placed at (64-byte aligned base + align) so every chunk pointer has a known alignment; the chunk
 * lengths must sum to the message length.  After every update call the public context is read:
 *   count = bytes absorbed so far (ctx->count; GOST: counter/8 + buffer_usage), buf = the bytes waiting in ctx->buffer.
 * After final: the digest, whether EVERY byte of the context struct is zero ("zero"), and for HMAC whether every byte
 * of k_opad is zero ("padzero").  The same message then goes through the one-shot and the hex-string entry points.
 * Nothing here knows what the right digest is: the answers are validated by TLC (specs/crypto/TraceHash.tla). */
#include <sys/param.h>
#include <sys/types.h>
#include <inttypes.h>
#include <stdio.h>
#include <errno.h>

#ifdef HD_NOSIMD
#undef __SSE2__
#endif

#include "vh_util.h"
#include "crypto/hash/md5.h"
#include "crypto/hash/sha1.h"
#include "crypto/hash/sha2.h"
#include "crypto/hash/gost3411-2012.h"

typedef union { md5_ctx_t md5; sha1_ctx_t sha1; sha2_ctx_t sha2; gost3411_2012_ctx_t gost; } any_ctx_t;
typedef union { hmac_md5_ctx_t md5; hmac_sha1_ctx_t sha1; hmac_sha2_ctx_t sha2; hmac_gost3411_2012_ctx_t gost; } any_hctx_t;

typedef struct alg_s {
	const char *name;
	int fam;		/* 0 md5, 1 sha1, 2 sha2, 3 gost */
	size_t bits, block, hsize, ctx_size, hctx_size;
} alg_t;

static const alg_t algs[] = {
	{ "md5",     0, 0,   64,  16, sizeof(md5_ctx_t),  sizeof(hmac_md5_ctx_t) },
	{ "sha1",    1, 0,   64,  20, sizeof(sha1_ctx_t), sizeof(hmac_sha1_ctx_t) },
	{ "sha224",  2, 224, 64,  28, sizeof(sha2_ctx_t), sizeof(hmac_sha2_ctx_t) },
	{ "sha256",  2, 256, 64,  32, sizeof(sha2_ctx_t), sizeof(hmac_sha2_ctx_t) },
	{ "sha384",  2, 384, 128, 48, sizeof(sha2_ctx_t), sizeof(hmac_sha2_ctx_t) },
	{ "sha512",  2, 512, 128, 64, sizeof(sha2_ctx_t), sizeof(hmac_sha2_ctx_t) },
	{ "gost256", 3, 256, 64,  32, sizeof(gost3411_2012_ctx_t), sizeof(hmac_gost3411_2012_ctx_t) },
	{ "gost512", 3, 512, 64,  64, sizeof(gost3411_2012_ctx_t), sizeof(hmac_gost3411_2012_ctx_t) },
};

static void a_init(const alg_t *a, void *c) {
	switch (a->fam) {
	case 0: md5_init(c); break;
	case 1: sha1_init(c); break;
	case 2: sha2_init(a->bits, c); break;
	default: gost3411_2012_init(a->bits, c); break;
	}
}
static void a_update(const alg_t *a, void *c, const uint8_t *p, size_t n) {
	switch (a->fam) {
	case 0: md5_update(c, p, n); break;
	case 1: sha1_update(c, p, n); break;
	case 2: sha2_update(c, p, n); break;
	default: gost3411_2012_update(c, p, n); break;
	}
}
static void a_final(const alg_t *a, void *c, uint8_t *dg) {
	switch (a->fam) {
	case 0: md5_final(c, dg); break;
	case 1: sha1_final(c, dg); break;
	case 2: sha2_final(c, dg); break;
	default: gost3411_2012_final(c, dg); break;
	}
}
static uint64_t a_count(const alg_t *a, const void *c) {
	switch (a->fam) {
	case 0: return ((const md5_ctx_t*)c)->count;
	case 1: return ((const sha1_ctx_t*)c)->count;
	case 2: return ((const sha2_ctx_t*)c)->count;
	default: return (((const gost3411_2012_ctx_t*)c)->counter[0] / 8 + ((const gost3411_2012_ctx_t*)c)->buffer_usage);
	}
}
static const uint8_t *a_buf(const alg_t *a, const void *c, size_t *fill) {
	switch (a->fam) {
	case 0: *fill = (size_t)(((const md5_ctx_t*)c)->count & 63); return (const uint8_t*)((const md5_ctx_t*)c)->buffer;
	case 1: *fill = (size_t)(((const sha1_ctx_t*)c)->count & 63); return (const uint8_t*)((const sha1_ctx_t*)c)->buffer;
	case 2: *fill = (size_t)(((const sha2_ctx_t*)c)->count & (((const sha2_ctx_t*)c)->block_size - 1));
		return (const uint8_t*)((const sha2_ctx_t*)c)->buffer;
	default: *fill = ((const gost3411_2012_ctx_t*)c)->buffer_usage; return (const uint8_t*)((const gost3411_2012_ctx_t*)c)->buffer;
	}
}
/* which transform the run-time dispatch will use (for the coverage record only) */
static const char *a_path(const alg_t *a, const void *c) {
	(void)c;
	switch (a->fam) {
	case 0: return "generic";
	case 1:
#ifdef SHA1_ENABLE_SIMD
		if (((const sha1_ctx_t*)c)->use_simd) return "sha-ni";
#endif
#ifdef __SSE2__
		if (((const sha1_ctx_t*)c)->use_sse) return "sse";
#endif
		return "generic";
	case 2:
#ifdef SHA2_ENABLE_SIMD
		if (((const sha2_ctx_t*)c)->use_simd && 64 == a->block) return "sha-ni";
#endif
		return "generic";
	default:
#ifdef __AVX__
		if (((const gost3411_2012_ctx_t*)c)->use_avx) return "avx";
#endif
#ifdef __SSE2__
		if (((const gost3411_2012_ctx_t*)c)->use_sse) return "sse";
#endif
#ifdef GOST3411_2012_USE_SMALL_TABLES
		return "generic-small-tables";
#else
		return "generic";
#endif
	}
}
static void a_one(const alg_t *a, const uint8_t *p, size_t n, uint8_t *dg) {
	size_t sz = 0;
	switch (a->fam) {
	case 0: md5_get_digest(p, n, dg); break;
	case 1: sha1_get_digest(p, n, dg); break;
	case 2: sha2_get_digest(a->bits, p, n, dg, &sz); break;
	default: gost3411_2012_get_digest(a->bits, p, n, dg, &sz); break;
	}
}
static void a_hex(const alg_t *a, const uint8_t *p, size_t n, char *out) {
	size_t sz = 0;
	switch (a->fam) {
	case 0: md5_get_digest_str((const char*)p, n, out); break;
	case 1: sha1_get_digest_str((const char*)p, n, out); break;
	case 2: sha2_get_digest_str(a->bits, (const char*)p, n, out, &sz); break;
	default: gost3411_2012_get_digest_str(a->bits, (const char*)p, n, out, &sz); break;
	}
}
static void h_init(const alg_t *a, const uint8_t *k, size_t kn, void *h) {
	switch (a->fam) {
	case 0: hmac_md5_init(k, kn, h); break;
	case 1: hmac_sha1_init(k, kn, h); break;
	case 2: hmac_sha2_init(a->bits, k, kn, h); break;
	default: hmac_gost3411_2012_init(a->bits, k, kn, h); break;
	}
}
static void h_update(const alg_t *a, void *h, const uint8_t *p, size_t n) {
	switch (a->fam) {
	case 0: hmac_md5_update(h, p, n); break;
	case 1: hmac_sha1_update(h, p, n); break;
	case 2: hmac_sha2_update(h, p, n); break;
	default: hmac_gost3411_2012_update(h, p, n); break;
	}
}
static void h_final(const alg_t *a, void *h, uint8_t *dg) {
	size_t sz = 0;
	switch (a->fam) {
	case 0: hmac_md5_final(h, dg); break;
	case 1: hmac_sha1_final(h, dg); break;
	case 2: hmac_sha2_final(h, dg, &sz); break;
	default: hmac_gost3411_2012_final(h, dg, &sz); break;
	}
}
static void h_one(const alg_t *a, const uint8_t *k, size_t kn, const uint8_t *p, size_t n, uint8_t *dg) {
	size_t sz = 0;
	switch (a->fam) {
	case 0: md5_hmac_get_digest(k, kn, p, n, dg); break;
	case 1: sha1_hmac_get_digest(k, kn, p, n, dg); break;
	case 2: sha2_hmac_get_digest(a->bits, k, kn, p, n, dg, &sz); break;
	default: gost3411_2012_hmac_get_digest(a->bits, k, kn, p, n, dg, &sz); break;
	}
}
static void h_hex(const alg_t *a, const uint8_t *k, size_t kn, const uint8_t *p, size_t n, char *out) {
	size_t sz = 0;
	switch (a->fam) {
	case 0: md5_hmac_get_digest_str((const char*)k, kn, (const char*)p, n, out); break;
	case 1: sha1_hmac_get_digest_str((const char*)k, kn, (const char*)p, n, out); break;
	case 2: sha2_hmac_get_digest_str(a->bits, (const char*)k, kn, (const char*)p, n, out, &sz); break;
	default: gost3411_2012_hmac_get_digest_str(a->bits, (const char*)k, kn, (const char*)p, n, out, &sz); break;
	}
}
static const uint8_t *h_kopad(const alg_t *a, const void *h, size_t *full) {
	switch (a->fam) {
	case 0: *full = sizeof(((const hmac_md5_ctx_t*)h)->k_opad); return (const uint8_t*)((const hmac_md5_ctx_t*)h)->k_opad;
	case 1: *full = sizeof(((const hmac_sha1_ctx_t*)h)->k_opad); return (const uint8_t*)((const hmac_sha1_ctx_t*)h)->k_opad;
	case 2: *full = sizeof(((const hmac_sha2_ctx_t*)h)->k_opad); return (const uint8_t*)((const hmac_sha2_ctx_t*)h)->k_opad;
	default: *full = sizeof(((const hmac_gost3411_2012_ctx_t*)h)->k_opad); return (const uint8_t*)((const hmac_gost3411_2012_ctx_t*)h)->k_opad;
	}
}
/* the hash context is the first member of every hmac context */
static const void *h_inner(const void *h) { return h; }

static int all_zero(const void *p, size_t n) {
	const uint8_t *b = p;
	for (size_t i = 0; i < n; i++) if (b[i]) return 0;
	return 1;
}
static void jhex(const char *k, const uint8_t *p, size_t n) {
	printf("\"%s\":\"", k);
	for (size_t i = 0; i < n; i++) printf("%02x", p[i]);
	printf("\"");
}
static uint8_t *aligned_copy(const uint8_t *src, size_t n, size_t align, void **base) {
	void *b = NULL;
	if (posix_memalign(&b, 64, n + 64 + 64)) abort();
	memset(b, 0xA5, n + 128);
	memcpy((uint8_t*)b + align, src, n);
	*base = b;
	return (uint8_t*)b + align;
}

/* big-endian helpers for the priming only (the library is never asked to convert anything here) */
static uint64_t be_num(const uint8_t *p, size_t n) {
	uint64_t v = 0;
	for (size_t i = 0; i < n; i++) v = (v << 8) | p[i];
	return v;
}
static void do_resume(const alg_t *a, size_t align, const char *hh, const char *ch, const char *sh, const char *bh, const char *dh) {
	size_t hn = 0, cn = 0, sn = 0, bn = 0, dn = 0;
	uint8_t *H = vh_unhex(hh, &hn), *cnt = vh_unhex(ch, &cn), *sig = vh_unhex(sh, &sn), *buf = vh_unhex(bh, &bn);
	uint8_t *data0 = vh_unhex(dh, &dn);
	void *dbase = NULL, *cbase = NULL;
	uint8_t *data = aligned_copy(data0, dn, align, &dbase);
	if (posix_memalign(&cbase, 64, a->ctx_size)) abort();
	memset(cbase, 0xEE, a->ctx_size);
	any_ctx_t *ctx = cbase;
	uint8_t *dg = vh_buf(a->hsize);
	int ok = (bn < a->block);
	a_init(a, ctx);
	switch (a->fam) {
	case 0:
		ok = ok && hn == 16 && cn == 8;
		if (ok) {
			for (size_t i = 0; i < 4; i++) ctx->md5.hash[i] = (uint32_t)H[4*i] | ((uint32_t)H[4*i+1] << 8) | ((uint32_t)H[4*i+2] << 16) | ((uint32_t)H[4*i+3] << 24);
			ctx->md5.count = be_num(cnt, 8);
			memcpy(ctx->md5.buffer, buf, bn);
		}
		break;
	case 1:
		ok = ok && hn == 20 && cn == 8;
		if (ok) {
			for (size_t i = 0; i < 5; i++) ctx->sha1.hash[i] = (uint32_t)be_num(H + 4*i, 4);
			ctx->sha1.count = be_num(cnt, 8);
			memcpy(ctx->sha1.buffer, buf, bn);
		}
		break;
	case 2:
		ok = ok && hn == (64 == a->block ? 32u : 64u) && cn == 16;		/* 8 words of 4 (block 64) or 8 (block 128) octets */
		if (ok) {
			if (64 == a->block) for (size_t i = 0; i < 8; i++) ((uint32_t*)ctx->sha2.hash)[i] = (uint32_t)be_num(H + 4*i, 4);
			else for (size_t i = 0; i < 8; i++) ctx->sha2.hash[i] = be_num(H + 8*i, 8);
			ctx->sha2.count_hi = be_num(cnt, 8);
			ctx->sha2.count = be_num(cnt + 8, 8);
			memcpy(ctx->sha2.buffer, buf, bn);
		}
		break;
	default:
		ok = ok && hn == 64 && cn == 64 && sn == 64;
		if (ok) {
			memcpy(ctx->gost.hash, H, 64);
			memcpy(ctx->gost.counter, cnt, 64);
			memcpy(ctx->gost.sigma, sig, 64);
			memcpy(ctx->gost.buffer, buf, bn);
			ctx->gost.buffer_usage = bn;
		}
		break;
	}
	if (!ok) {
		printf("{\"error\":\"resume-args\"}\n");
	} else {
		printf("{\"path\":\"%s\",", a_path(a, ctx));
		a_update(a, ctx, data, dn);
		printf("\"count\":%" PRIu64 ",", a_count(a, ctx));
		a_final(a, ctx, dg);
		jhex("dg", dg, a->hsize);
		printf(",\"zero\":%d,\"consumed\":%zu}\n", all_zero(ctx, a->ctx_size), dn);
	}
	vh_buf_free(dg); free(cbase); free(dbase);
	free(H); free(cnt); free(sig); free(buf); free(data0);
}

int main(void) {
	char *line = NULL; size_t cap = 0;
	vh_install_fault_handler();
	while (getline(&line, &cap, stdin) > 0) {
		char op[16], an[16], *tok[8]; int nt = 0;
		char *save = NULL;
		char *copy = strdup(line);
		for (char *t = strtok_r(copy, " \n", &save); t && nt < 8; t = strtok_r(NULL, " \n", &save)) tok[nt++] = t;
		if (nt < 5) { free(copy); continue; }
		strncpy(op, tok[0], 15); op[15] = 0; strncpy(an, tok[1], 15); an[15] = 0;
		int is_hmac = !strcmp(op, "hmac");
		if (is_hmac && nt < 6) { free(copy); continue; }
		const alg_t *a = NULL;
		for (size_t i = 0; i < nitems(algs); i++) if (!strcmp(algs[i].name, an)) a = &algs[i];
		if (!a) { printf("{\"error\":\"alg\"}\n"); free(copy); continue; }
		snprintf(vh_case_tag, sizeof(vh_case_tag), "%.200s", line);
		vh_watchdog(3, 30); /* a case costs milliseconds of CPU time (messages <= 8 KiB): 3 s of CPU time (30 s of wall clock) without an answer = the code under test does not terminate */
		if (!strcmp(op, "resume")) {
			if (nt < 8) { printf("{\"error\":\"args\"}\n"); free(copy); continue; }
			do_resume(a, (size_t)atoi(tok[2]) & 63, tok[3], tok[4], tok[5], tok[6], tok[7]);
			vh_watchdog(0, 0);
			free(copy);
			continue;
		}
		size_t align = (size_t)atoi(tok[2]) & 63, kn = 0, mn = 0;
		uint8_t *key = NULL, *msg0;
		void *kbase = NULL, *mbase = NULL;
		uint8_t *kal = NULL;
		if (is_hmac) { key = vh_unhex(tok[3], &kn); kal = aligned_copy(key, kn, (align * 7 + 3) & 63, &kbase); }
		msg0 = vh_unhex(tok[is_hmac ? 4 : 3], &mn);
		uint8_t *msg = aligned_copy(msg0, mn, align, &mbase);
		const char *chunks = tok[is_hmac ? 5 : 4];

		any_ctx_t *ctx = NULL; any_hctx_t *hctx = NULL; void *cbase = NULL;
		/* contexts on their own exact-size heap blocks (32-byte aligned as the structs demand) */
		if (posix_memalign(&cbase, 64, is_hmac ? a->hctx_size : a->ctx_size)) abort();
		memset(cbase, 0xEE, is_hmac ? a->hctx_size : a->ctx_size);
		ctx = cbase; hctx = cbase;
		uint8_t *dg = vh_buf(a->hsize), *one = vh_buf(a->hsize);
		char *hex = (char*)vh_buf(a->hsize * 2 + 1);
		size_t fill, full;
		const uint8_t *bp;

		printf("{");
		if (is_hmac) {
			h_init(a, kal, kn, hctx);
			printf("\"path\":\"%s\",", a_path(a, h_inner(hctx)));
			bp = h_kopad(a, hctx, &full);
			jhex("kopad", bp, a->block);
			printf(",\"count0\":%" PRIu64 ",", a_count(a, h_inner(hctx)));
		} else {
			a_init(a, ctx);
			printf("\"path\":\"%s\",", a_path(a, ctx));
		}
		printf("\"ups\":[");
		size_t off = 0; int first = 1;
		if (strcmp(chunks, "-")) {
			char *cs = strdup(chunks), *sv2 = NULL;
			for (char *t = strtok_r(cs, ",", &sv2); t; t = strtok_r(NULL, ",", &sv2)) {
				size_t n = (size_t)strtoull(t, NULL, 10);
				if (off + n > mn) n = mn - off;
				if (is_hmac) h_update(a, hctx, msg + off, n); else a_update(a, ctx, msg + off, n);
				off += n;
				const void *c = is_hmac ? h_inner(hctx) : (const void*)ctx;
				bp = a_buf(a, c, &fill);
				printf("%s{\"count\":%" PRIu64 ",", first ? "" : ",", a_count(a, c));
				jhex("buf", bp, fill <= a->block ? fill : a->block);
				printf("}");
				first = 0;
			}
			free(cs);
		}
		printf("],");
		if (is_hmac) {
			h_final(a, hctx, dg);
			jhex("mac", dg, a->hsize);
			bp = h_kopad(a, hctx, &full);
			printf(",\"padzero\":%d,\"zero\":%d,", all_zero(bp, full), all_zero(h_inner(hctx), a->ctx_size));
			h_one(a, kal, kn, msg, mn, one);
			jhex("one", one, a->hsize);
			memset(hex, 'Z', a->hsize * 2 + 1);
			h_hex(a, kal, kn, msg, mn, hex);
		} else {
			a_final(a, ctx, dg);
			jhex("dg", dg, a->hsize);
			printf(",\"zero\":%d,", all_zero(ctx, a->ctx_size));
			a_one(a, msg, mn, one);
			jhex("one", one, a->hsize);
			memset(hex, 'Z', a->hsize * 2 + 1);
			a_hex(a, msg, mn, hex);
		}
		/* the hex entry point must write exactly 2*hsize characters and a terminating NUL */
		printf(",\"hexnul\":%d,", hex[a->hsize * 2] == 0);
		jhex("hex", (const uint8_t*)hex, a->hsize * 2);
		printf(",\"consumed\":%zu}\n", off);
		vh_watchdog(0, 0);
		vh_buf_free(dg); vh_buf_free(one); vh_buf_free((uint8_t*)hex);
		free(cbase); free(mbase); free(msg0);
		if (is_hmac) { free(kbase); free(key); }
		free(copy);
	}
	free(line);
	return 0;
}
