/* Conformance driver for the HMAC entry points (C07) - a superset of harness/hash_drv.c, which is included whole
 * (its main() renamed) so the HMAC scenarios of C07 and the hash scenarios of C04 bind the library through the same
 * helper functions.  Built per variant by rig/checks/c07.py exactly like hash_drv.c (HD_NOSIMD, -m flags, small tables).
 *
 * Protocol: one case per stdin line, one JSON answer line per case.
 *   hmac <alg> <align> <key-hex|-> <msg-hex|-> <chunk-lengths|-> <variant-arg|->
 *       the scenario of hash_drv.c ("hmac ..."), with the value handed to the library as the VARIANT ARGUMENT of
 *       hmac_sha2_init / sha2_hmac_get_digest / sha2_hmac_get_digest_str (and the gost3411_2012 counterparts) given
 *       explicitly: the interface accepts the digest size in bits or in bytes (specs/crypto/HmacPads.tla, HpArgs);
 *       "-" for md5/sha1, which have no such argument.  Same answer record as hash_drv.c.
 *   probe <alg> <variant-arg|-> <key-hex|-> <msg-hex|-> <ipad-hex> <opad-hex>
 *       "the keyed pads are wiped when the computation finishes": ipad/opad are the byte strings K0 xor 0x36..,
 *       K0 xor 0x5c.. computed by TLC (HmacPads!HpPads).  For each of the modes
 *           init     hmac_*_init only                 (K xor ipad is a local of init: nothing can wipe it later)
 *           stream   hmac_*_init, two _update, _final (context on the heap)
 *           oneshot  *_hmac_get_digest                (context is a local of the library)
 *           hex      *_hmac_get_digest_str
 *       a region of the stack is first filled with a constant, then the library is called from a frame far BELOW
 *       the probing frame, and when it has returned the dead region is read back (volatile) and searched for the
 *       two complete pads; after "stream" the heap context is searched too.  Answer:
 *           {"probe":[{"mode":M,"ipad_stack":hits,"opad_stack":hits,"ipad_ctx":hits,"opad_ctx":hits,"depth":bytes of the
 *             deepest byte the call changed,"first":offset of the first hit below the probing frame},...]}
 *   selftest <pattern-hex>
 *       the probe's own vacuity test: a callee that copies the pattern into a local and returns WITHOUT wiping must be
 *       found ("left":hits > 0), one that wipes through a volatile pointer must not ("wiped":0).
 * The probe is meaningless under a sanitizer (ASan moves locals to a fake stack and poisons it): the rig sends
 * probe lines only to builds without one.  Nothing here knows a right answer; zero hits is what the property says. */
#define main hash_drv_main
#include "hash_drv.c"
#undef main

#ifdef __clang__
#define PB_NOINLINE __attribute__((noinline))
#else
#define PB_NOINLINE __attribute__((noinline, noclone))
#endif
#define PB_DEAD   (256 * 1024)		/* bytes of stack below the probing frame that are prepared and searched */
#define PB_SPACER (16 * 1024)		/* distance between the probing frame and the library's frames */
#define PB_FILL   0xA7

static volatile uint8_t *pb_lo;		/* lowest address of the prepared region */
static volatile size_t pb_n;
static volatile unsigned pb_sink;

/* the compiler must believe the block is looked at from outside (clang otherwise shrinks a volatile array to the
 * elements that are named) */
#define PB_ESCAPE(p) __asm__ __volatile__("" : : "r"(p) : "memory")
/* prepare: every byte of the region gets the filler (this also erases what the previous case left there) */
PB_NOINLINE static void pb_fill(void) {
	volatile uint8_t a[PB_DEAD];
	PB_ESCAPE(a);
	for (size_t i = 0; i < PB_DEAD; i++) a[i] = PB_FILL;
	PB_ESCAPE(a);
	pb_lo = a; pb_n = PB_DEAD;
}
/* call fn(arg) PB_SPACER bytes further down, so that what the scanner and printf put on the stack afterwards can not
 * overwrite what the library left.  The "spacer" answer field is the distance that was really put in between. */
static volatile size_t pb_spacer_now = PB_SPACER;
static volatile size_t pb_spacer_seen;
PB_NOINLINE static void pb_far_call(void (*fn)(void *), void *arg) {
	size_t n = pb_spacer_now;
	volatile uint8_t *pad = __builtin_alloca(n);
	PB_ESCAPE(pad);
	pad[0] = 1; pad[n - 1] = 2;
	pb_spacer_seen = (size_t)((const volatile uint8_t*)__builtin_frame_address(0) - pad);
	fn(arg);
	PB_ESCAPE(pad);
	pb_sink += (unsigned)pad[0] + pad[n - 1];
}
/* number of positions of region [lo, lo+n) where pat[0..pn) stands; volatile byte reads only */
PB_NOINLINE static size_t pb_count(const volatile uint8_t *lo, size_t n, const uint8_t *pat, size_t pn, size_t *first) {
	size_t hits = 0;
	if (0 == pn || n < pn) return 0;
	for (size_t i = 0; i + pn <= n; i++) {
		size_t j = 0;
		while (j < pn && lo[i + j] == pat[j]) j++;
		if (j == pn) { if (0 == hits && first) *first = n - i; hits++; }
	}
	return hits;
}
/* how far down the call changed the prepared region */
PB_NOINLINE static size_t pb_depth(void) {
	for (size_t i = 0; i < pb_n; i++) if (pb_lo[i] != PB_FILL) return (size_t)pb_n - i;
	return 0;
}

typedef struct {
	const alg_t *a; int mode;
	const uint8_t *key; size_t kn; const uint8_t *msg; size_t mn;
	void *hctx; uint8_t *dg; char *hex;
} pb_job_t;
PB_NOINLINE static void pb_victim(void *p) {
	pb_job_t *j = p;
	switch (j->mode) {
	case 0: h_init(j->a, j->key, j->kn, j->hctx); break;
	case 1: h_init(j->a, j->key, j->kn, j->hctx);
		h_update(j->a, j->hctx, j->msg, j->mn / 2);
		h_update(j->a, j->hctx, j->msg + j->mn / 2, j->mn - j->mn / 2);
		h_final(j->a, j->hctx, j->dg); break;
	case 2: h_one(j->a, j->key, j->kn, j->msg, j->mn, j->dg); break;
	default: h_hex(j->a, j->key, j->kn, j->msg, j->mn, j->hex); break;
	}
}
static void do_probe(const alg_t *a0, const char *arg, const char *kh, const char *mh, const char *ih, const char *oh) {
	static const char *mname[] = { "init", "stream", "oneshot", "hex" };
	alg_t al = *a0;
	size_t kn = 0, mn = 0, in = 0, on = 0;
	uint8_t *key = vh_unhex(kh, &kn), *msg = vh_unhex(mh, &mn), *ip = vh_unhex(ih, &in), *op = vh_unhex(oh, &on);
	void *cbase = NULL;
	size_t res[4][6];
	if (strcmp(arg, "-")) al.bits = (size_t)strtoull(arg, NULL, 10);
	if (posix_memalign(&cbase, 64, al.hctx_size)) abort();
	pb_job_t j = { &al, 0, key, kn, msg, mn, cbase, vh_buf(al.hsize), (char*)vh_buf(al.hsize * 2 + 1) };
	for (int m = 0; m < 4; m++) {
		size_t first = 0, f2 = 0;
		memset(cbase, 0xEE, al.hctx_size);
		j.mode = m;
		pb_fill();
		pb_far_call(pb_victim, &j);
		/* search first, print later: printf needs stack of its own */
		res[m][0] = pb_count(pb_lo, pb_n, ip, in, &first);
		res[m][1] = pb_count(pb_lo, pb_n, op, on, &f2);
		res[m][2] = (1 == m) ? pb_count(cbase, al.hctx_size, ip, in, NULL) : 0;
		res[m][3] = (1 == m) ? pb_count(cbase, al.hctx_size, op, on, NULL) : 0;
		res[m][4] = pb_depth();
		res[m][5] = first ? first : f2;
		if (0 == m) {	/* an open context is finished so that nothing keyed stays behind in this process */
			h_final(&al, cbase, j.dg);
		}
	}
	printf("{\"probe\":[");
	for (int m = 0; m < 4; m++)
		printf("%s{\"mode\":\"%s\",\"ipad_stack\":%zu,\"opad_stack\":%zu,\"ipad_ctx\":%zu,\"opad_ctx\":%zu,\"depth\":%zu,\"first\":%zu}",
		    m ? "," : "", mname[m], res[m][0], res[m][1], res[m][2], res[m][3], res[m][4], res[m][5]);
	printf("],\"region\":%d,\"spacer\":%zu}\n", PB_DEAD, (size_t)pb_spacer_seen);
	vh_buf_free(j.dg); vh_buf_free((uint8_t*)j.hex); free(cbase);
	free(key); free(msg); free(ip); free(op);
}

/* ---- the probe's self test */
typedef struct { const uint8_t *pat; size_t n; int wipe; } pb_st_t;
PB_NOINLINE static void pb_st_victim(void *p) {
	pb_st_t *s = p;
	volatile uint8_t loc[256];
	size_t n = s->n < sizeof(loc) ? s->n : sizeof(loc);
	for (size_t i = 0; i < n; i++) loc[i] = s->pat[i];
	for (size_t i = 0; i < n; i++) pb_sink += loc[i];
	if (s->wipe) for (size_t i = 0; i < n; i++) loc[i] = 0;
}
static void do_selftest(const char *ph) {
	size_t n = 0, left, wiped;
	uint8_t *pat = vh_unhex(ph, &n);
	pb_st_t s = { pat, n, 0 };
	pb_fill(); pb_far_call(pb_st_victim, &s);
	left = pb_count(pb_lo, pb_n, pat, n, NULL);
	s.wipe = 1;
	pb_fill(); pb_far_call(pb_st_victim, &s);
	wiped = pb_count(pb_lo, pb_n, pat, n, NULL);
	printf("{\"selftest\":1,\"left\":%zu,\"wiped\":%zu}\n", left, wiped);
	free(pat);
}

/* ---- the hmac scenario of hash_drv.c with an explicit variant argument */
static void do_hmac(const alg_t *a0, size_t align, const char *kh, const char *mh, const char *chunks, const char *arg) {
	alg_t al = *a0; const alg_t *a = &al;
	size_t kn = 0, mn = 0, fill, full, off = 0;
	void *kbase = NULL, *mbase = NULL, *cbase = NULL;
	const uint8_t *bp;
	int first = 1;
	if (strcmp(arg, "-")) al.bits = (size_t)strtoull(arg, NULL, 10);
	uint8_t *key = vh_unhex(kh, &kn), *kal = aligned_copy(key, kn, (align * 7 + 3) & 63, &kbase);
	uint8_t *msg0 = vh_unhex(mh, &mn), *msg = aligned_copy(msg0, mn, align, &mbase);
	if (posix_memalign(&cbase, 64, a->hctx_size)) abort();
	memset(cbase, 0xEE, a->hctx_size);
	any_hctx_t *hctx = cbase;
	uint8_t *dg = vh_buf(a->hsize), *one = vh_buf(a->hsize);
	char *hex = (char*)vh_buf(a->hsize * 2 + 1);

	printf("{");
	h_init(a, kal, kn, hctx);
	printf("\"path\":\"%s\",", a_path(a, h_inner(hctx)));
	bp = h_kopad(a, hctx, &full);
	jhex("kopad", bp, a->block);
	printf(",\"count0\":%" PRIu64 ",\"ups\":[", a_count(a, h_inner(hctx)));
	if (strcmp(chunks, "-")) {
		char *cs = strdup(chunks), *sv2 = NULL;
		for (char *t = strtok_r(cs, ",", &sv2); t; t = strtok_r(NULL, ",", &sv2)) {
			size_t n = (size_t)strtoull(t, NULL, 10);
			if (off + n > mn) n = mn - off;
			h_update(a, hctx, msg + off, n);
			off += n;
			bp = a_buf(a, h_inner(hctx), &fill);
			printf("%s{\"count\":%" PRIu64 ",", first ? "" : ",", a_count(a, h_inner(hctx)));
			jhex("buf", bp, fill <= a->block ? fill : a->block);
			printf("}");
			first = 0;
		}
		free(cs);
	}
	printf("],");
	h_final(a, hctx, dg);
	jhex("mac", dg, a->hsize);
	bp = h_kopad(a, hctx, &full);
	printf(",\"padzero\":%d,\"zero\":%d,", all_zero(bp, full), all_zero(h_inner(hctx), a->ctx_size));
	h_one(a, kal, kn, msg, mn, one);
	jhex("one", one, a->hsize);
	memset(hex, 'Z', a->hsize * 2 + 1);
	h_hex(a, kal, kn, msg, mn, hex);
	printf(",\"hexnul\":%d,", hex[a->hsize * 2] == 0);
	jhex("hex", (const uint8_t*)hex, a->hsize * 2);
	printf(",\"consumed\":%zu}\n", off);
	vh_buf_free(dg); vh_buf_free(one); vh_buf_free((uint8_t*)hex);
	free(cbase); free(mbase); free(msg0); free(kbase); free(key);
}

int main(void) {
	char *line = NULL; size_t cap = 0;
	vh_install_fault_handler();
	while (getline(&line, &cap, stdin) > 0) {
		char *tok[8], *save = NULL; int nt = 0;
		char *copy = strdup(line);
		for (char *t = strtok_r(copy, " \n", &save); t && nt < 8; t = strtok_r(NULL, " \n", &save)) tok[nt++] = t;
		if (nt < 2) { free(copy); continue; }
		snprintf(vh_case_tag, sizeof(vh_case_tag), "%.200s", line);
		vh_watchdog(3, 30); /* a case costs milliseconds of CPU time (messages <= 8 KiB): 3 s of CPU time (30 s of wall clock) without an answer = the code under test does not terminate */
		if (!strcmp(tok[0], "selftest")) {
			do_selftest(tok[1]);
		} else {
			const alg_t *a = NULL;
			for (size_t i = 0; i < nitems(algs); i++) if (!strcmp(algs[i].name, tok[1])) a = &algs[i];
			if (!a) printf("{\"error\":\"alg\"}\n");
			else if (!strcmp(tok[0], "hmac") && 7 == nt) do_hmac(a, (size_t)atoi(tok[2]) & 63, tok[3], tok[4], tok[5], tok[6]);
			else if (!strcmp(tok[0], "probe") && 7 == nt) do_probe(a, tok[2], tok[3], tok[4], tok[5], tok[6]);
			else printf("{\"error\":\"args\"}\n");
		}
		vh_watchdog(0, 0);
		free(copy);
	}
	free(line);
	return 0;
}
