/* Retrying-connector conformance driver (growth task X04): tp_task_connect_ex_create / _handler / _start.
 *
 * Unity build of the thread pool + threadpool_task.c (nothing is changed; the private struct tp_task_s is visible and is
 * only READ, to log addrs_cur next to the registration of an attempt).  src/net/socket*.c, src/utils/sys.c are linked as
 * separate objects.  Link with
 *   -Wl,--wrap=socket,--wrap=connect,--wrap=close,--wrap=getsockopt,--wrap=epoll_ctl,--wrap=timerfd_create,
 *       --wrap=timerfd_settime,--wrap=clock_gettime
 * The wrappers make every attempt's outcome a scenario input and log what the library does:
 *   socket()   K<errno>: fails                                      -> {"e":"sys.socket","sid":k,"rc":..,"err":..}
 *   connect()  the library's address 127.0.0.1:(20000+index) is decoded (which address is tried) and replaced by
 *              S  a listener, connect() returns 0        P  a listener, returns EINPROGRESS
 *              R<errno>  a closed port, EINPROGRESS, SO_ERROR reports <errno>     I<errno>  fails at once with <errno>
 *              T  a listener that never answers, the task timer (shortened) fires   H  the same, nothing ever fires
 *              A<errno>  like P, but the epoll registration of the socket fails with <errno>
 *              suffix +L / +X: the (virtual) clock jumps during the attempt so that the time limit runs low / out
 *   timerfd_settime()  logs the programmed ms; a pause is shortened to 2 ms (or held: dplan 'h'), a connect timeout to
 *              3 ms for a T attempt (otherwise it never fires)
 *   close(), getsockopt(SO_ERROR), epoll_ctl() on a connector socket, timerfd_create()/close() of the task timer are logged.
 * liblcb_verif_point() (the guarded hook of the pool) logs loop.turn / loop.cb for the task's two objects.
 * All API calls are made on the pool thread (message callback).  Waits are bounded and never compared with the log.
 *
 * usage: x04_drv <scenario-file> <trace-out.ndjson>
 */
#include <semaphore.h>
#include <stdarg.h>
#include <stddef.h>
#include <poll.h>
#include <sys/socket.h>
#include <netinet/in.h>
#include <arpa/inet.h>
#include "threadpool/threadpool.c"
#include "threadpool/threadpool_msg_sys.c"
#include "threadpool/threadpool_task.c"

int __real_socket(int, int, int);
int __real_connect(int, const struct sockaddr *, socklen_t);
int __real_close(int);
int __real_getsockopt(int, int, int, void *, socklen_t *);
int __real_epoll_ctl(int, int, int, struct epoll_event *);
int __real_timerfd_create(int, int);
int __real_timerfd_settime(int, int, const struct itimerspec *, struct itimerspec *);
int __real_clock_gettime(clockid_t, struct timespec *);

/* ------------------------------------------------------------------ log */
static pthread_mutex_t g_log_mu = PTHREAD_MUTEX_INITIALIZER;
static char *g_log; static size_t g_log_len, g_log_cap;
static long g_seq;
static const char *g_out_path;
static __thread int vh_tid = -999;
static tp_p g_tp;

static void flush_log(void) {
	if (!g_out_path) return;
	FILE *f = fopen(g_out_path, "w");
	if (!f) return;
	fwrite(g_log, 1, g_log_len, f);
	fclose(f);
}
void __sanitizer_set_death_callback(void (*)(void)) __attribute__((weak));
static void logf_locked(const char *fmt, ...) {
	if (g_log_len + 8192 > g_log_cap) { g_log_cap *= 2; g_log = realloc(g_log, g_log_cap); if (!g_log) abort(); }
	int n = snprintf(g_log + g_log_len, 128, "{\"seq\":%ld,\"t\":%d,", ++g_seq, vh_tid);
	g_log_len += (size_t)n;
	va_list ap; va_start(ap, fmt);
	n = vsnprintf(g_log + g_log_len, 4000, fmt, ap);
	va_end(ap);
	g_log_len += (size_t)n;
	g_log[g_log_len++] = '}'; g_log[g_log_len++] = '\n';
}
#define LOGEV(...) do { int e_ = errno; pthread_mutex_lock(&g_log_mu); logf_locked(__VA_ARGS__); pthread_mutex_unlock(&g_log_mu); errno = e_; } while (0)

/* ------------------------------------------------------------------ scenario state */
#define MAXPLAN 32
typedef struct { char kind; int err; char jump; } plan_t;   /* jump: 0, 'L', 'X' */
typedef struct {
	int n, mt, rr, idelay, every, cod; unsigned long rd, tmo, tl;
	plan_t plan[MAXPLAN]; int nplan;
	char dplan[MAXPLAN]; int ndplan;
	char fpol[MAXPLAN][4]; int nfpol;
	char finpol[4];
	char owner[12]; int release;
} scn_t;
static scn_t g_sc;
static volatile int g_active;           /* a scenario is running: the wrappers look at pool-thread calls */
static tp_task_p volatile g_task;       /* the connector (learned from the ev.post hook / the create call) */
static const char *g_dead_task;         /* its address after tp_task_destroy (compared, never dereferenced) */
static tp_task_conn_prms_t g_prms;
static struct sockaddr_storage g_addrs[8];
#define MAXSOCK 64
static int g_sfd[MAXSOCK];              /* sid -> fd (-1 closed / never opened) */
static int g_natt;                      /* socket() calls of the connector so far = sid of the newest attempt */
static int g_npause, g_ncb, g_nfrep;
static int g_tfd = -1; static volatile int g_armed;   /* the task's timer descriptor, programmed (and not yet fired) */
static int g_fault_sid, g_fault_err;    /* the epoll ADD of this socket fails */
static long long g_clock_off_ms;
static volatile int g_rest;             /* the scenario reached a rest point */
static volatile int g_hold;             /* ... which is a held pause (1) / a held attempt (2) */
static volatile int g_in_lib;           /* the pool thread is inside the connector (handler or create) */
static int g_port_listen, g_port_closed, g_port_silent, g_lfd = -1, g_silent_fd = -1, g_filler_fd = -1, g_closed_fd = -1;

static int on_pool(void) { return g_active && vh_tid == 0; }
static int sid_of_fd(int fd) { if (fd < 0) return 0; for (int i = 1; i <= g_natt && i < MAXSOCK; i++) if (g_sfd[i] == fd) return i; return 0; }
static plan_t plan_of(int sid) { plan_t h = { 'H', 0, 0 }; return (sid >= 1 && sid <= g_sc.nplan) ? g_sc.plan[sid - 1] : h; }
static int open_socks(void) { int c = 0; for (int i = 1; i <= g_natt && i < MAXSOCK; i++) if (g_sfd[i] >= 0) c++; return c; }

/* ------------------------------------------------------------------ the hook of the pool */
void liblcb_verif_point(const char *label, const void *a, const void *b, uintptr_t val) {
	int saved_errno = errno;
	if (0 == strcmp(label, "proc.enter")) vh_tid = (int)((const tp_thread_t *)a)->thread_num;
	else if (0 == strcmp(label, "create.pvt_running")) g_tp = (tp_p)(uintptr_t)a;
	else if (!g_active) { }
	else if (0 == strcmp(label, "loop.turn")) { g_in_lib = 0; LOGEV("\"e\":\"loop.turn\""); }
	else if (0 == strcmp(label, "ev.post")) {
		const tp_udata_t *u = b;
		if (u->cb_func == tp_task_connect_ex_handler && g_task == NULL) {
			const char *tmr_owner = (const char *)b - offsetof(tp_task_t, tp_timer);
			g_task = (u->ident == (uintptr_t)tmr_owner) ? (tp_task_p)(uintptr_t)tmr_owner : (tp_task_p)(uintptr_t)b;
		}
	} else if (0 == strcmp(label, "loop.cb")) {
		tp_task_p t = g_task;
		const char *o = (t != NULL && b == (const void *)&t->tp_data) ? "io" : (t != NULL && b == (const void *)&t->tp_timer) ? "tmr" : NULL;
		if (o != NULL) {
			if (o[0] == 't') g_armed = 0;      /* a one-shot timer that fired is not programmed any more */
			g_in_lib = 1;
			LOGEV("\"e\":\"loop.cb\",\"o\":\"%s\",\"ev\":%u,\"eof\":%d,\"err\":%d", o, (unsigned)(val & 0xffff), (int)((val >> 24) & 1), (int)((val >> 25) & 1));
		} else if (g_dead_task != NULL && ((const char *)b == g_dead_task + offsetof(tp_task_t, tp_data) || (const char *)b == g_dead_task + offsetof(tp_task_t, tp_timer))) {
			LOGEV("\"e\":\"loop.cb\",\"o\":\"stale\",\"ev\":%u,\"eof\":0,\"err\":0", (unsigned)(val & 0xffff));
		}
	}
	errno = saved_errno;
}

/* ------------------------------------------------------------------ wrappers */
int __wrap_clock_gettime(clockid_t clk, struct timespec *ts) {
	int rc = __real_clock_gettime(clk, ts);
	if (rc == 0 && on_pool() && clk == CLOCK_MONOTONIC_FAST && g_clock_off_ms != 0) {
		ts->tv_sec += (time_t)(g_clock_off_ms / 1000);
		ts->tv_nsec += (long)(g_clock_off_ms % 1000) * 1000000l;
		if (ts->tv_nsec >= 1000000000l) { ts->tv_nsec -= 1000000000l; ts->tv_sec++; }
	}
	return rc;
}
int __wrap_socket(int domain, int type, int proto) {
	if (!on_pool() || domain != AF_INET || (type & 0xf) != SOCK_STREAM) return __real_socket(domain, type, proto);
	int sid = ++g_natt;
	if (sid >= MAXSOCK) { LOGEV("\"e\":\"stuck\",\"where\":\"runaway-attempts\""); flush_log(); _exit(5); }
	plan_t p = plan_of(sid);
	if (p.kind == 'K') {
		g_sfd[sid] = -1;
		LOGEV("\"e\":\"sys.socket\",\"sid\":%d,\"rc\":-1,\"err\":%d,\"nonblock\":%d,\"proto\":%d", sid, p.err, (type & SOCK_NONBLOCK) ? 1 : 0, proto);
		errno = p.err; return -1;
	}
	int fd = __real_socket(domain, type, proto);
	int err = errno;
	g_sfd[sid] = fd;
	LOGEV("\"e\":\"sys.socket\",\"sid\":%d,\"rc\":%d,\"err\":%d,\"nonblock\":%d,\"proto\":%d", sid, fd >= 0 ? 0 : -1, fd >= 0 ? 0 : err, (type & SOCK_NONBLOCK) ? 1 : 0, proto);
	errno = err;
	return fd;
}
static void real_target(struct sockaddr_in *sin, int port) {
	memset(sin, 0, sizeof(*sin)); sin->sin_family = AF_INET; sin->sin_addr.s_addr = htonl(INADDR_LOOPBACK); sin->sin_port = htons((uint16_t)port);
}
int __wrap_connect(int fd, const struct sockaddr *sa, socklen_t len) {
	int sid = on_pool() ? sid_of_fd(fd) : 0;
	if (!sid) return __real_connect(fd, sa, len);
	plan_t p = plan_of(sid);
	const struct sockaddr_in *req = (const struct sockaddr_in *)sa;
	int ai = (sa != NULL && sa->sa_family == AF_INET && req->sin_addr.s_addr == htonl(INADDR_LOOPBACK)) ? (int)ntohs(req->sin_port) - 20000 : -1;
	struct sockaddr_in tgt; int rc, err;
	switch (p.kind) {
	case 'S': case 'P': case 'A':
		real_target(&tgt, g_port_listen);
		rc = __real_connect(fd, (struct sockaddr *)&tgt, sizeof(tgt));
		if (rc != 0 && errno == EINPROGRESS) { struct pollfd pf = { fd, POLLOUT, 0 }; poll(&pf, 1, 2000); }
		if (p.kind == 'S') { rc = 0; err = 0; } else { rc = -1; err = EINPROGRESS; }
		if (p.kind == 'A') { g_fault_sid = sid; g_fault_err = p.err; }
		break;
	case 'R':
		real_target(&tgt, g_port_closed);
		(void)__real_connect(fd, (struct sockaddr *)&tgt, sizeof(tgt));
		rc = -1; err = EINPROGRESS;
		break;
	case 'I':
		rc = -1; err = p.err;
		break;
	default: /* T, H */
		real_target(&tgt, g_port_silent);
		(void)__real_connect(fd, (struct sockaddr *)&tgt, sizeof(tgt));
		rc = -1; err = EINPROGRESS;
		break;
	}
	LOGEV("\"e\":\"sys.connect\",\"sid\":%d,\"ai\":%d,\"alen\":%d,\"rc\":%d,\"err\":%d,\"plan\":\"%c\"", sid, ai, (int)len, rc, rc ? err : 0, p.kind);
	if (p.jump) {      /* time passes during this attempt */
		long long want = (p.jump == 'X') ? (long long)g_sc.tl + 1000 : (long long)g_sc.tl - (long long)g_sc.rd / 2;
		if (want > g_clock_off_ms) g_clock_off_ms = want;
		LOGEV("\"e\":\"clock.jump\",\"to\":\"%s\"", (p.jump == 'X') ? "expired" : "low");
	}
	errno = err;
	return rc;
}
int __wrap_getsockopt(int fd, int level, int name, void *val, socklen_t *len) {
	int rc = __real_getsockopt(fd, level, name, val, len);
	int sid = (on_pool() && level == SOL_SOCKET && name == SO_ERROR) ? sid_of_fd(fd) : 0;
	if (sid) {
		int err = errno;
		plan_t p = plan_of(sid);
		if (rc == 0 && p.kind == 'R' && p.err > 0 && val != NULL) *(int *)val = p.err;
		LOGEV("\"e\":\"sys.sockerr\",\"sid\":%d,\"rc\":%d,\"err\":%d", sid, rc, (rc == 0 && val != NULL) ? *(int *)val : 0);
		errno = err;
	}
	return rc;
}
int __wrap_close(int fd) {
	if (g_active && fd >= 0) {
		int sid = sid_of_fd(fd);
		if (sid) { g_sfd[sid] = -1; LOGEV("\"e\":\"sys.close\",\"sid\":%d", sid); }
		else if (fd == g_tfd) { g_tfd = -1; g_armed = 0; LOGEV("\"e\":\"tmr.close\""); }
	}
	return __real_close(fd);
}
int __wrap_epoll_ctl(int epfd, int op, int fd, struct epoll_event *ev) {
	int sid = on_pool() ? sid_of_fd(fd) : 0;
	if (!sid) return __real_epoll_ctl(epfd, op, fd, ev);
	int rc, err;
	if (op == EPOLL_CTL_ADD && g_fault_sid == sid) { g_fault_sid = 0; rc = -1; err = g_fault_err; }
	else { rc = __real_epoll_ctl(epfd, op, fd, ev); err = errno; }
	if (rc != 0 && err == EEXIST && op == EPOLL_CTL_ADD) { errno = err; return rc; }   /* the add-or-modify guess of epoll_ctl_ex */
	tp_task_p t = g_task;
	LOGEV("\"e\":\"io.ctl\",\"op\":\"%s\",\"sid\":%d,\"rc\":%d,\"err\":%d,\"out\":%d,\"oneshot\":%d,\"cur\":%ld,\"off\":%ld",
	    op == EPOLL_CTL_ADD ? "add" : op == EPOLL_CTL_MOD ? "mod" : "del", sid, rc, rc ? err : 0,
	    (ev != NULL && (ev->events & EPOLLOUT)) ? 1 : 0, (ev != NULL && (ev->events & EPOLLONESHOT)) ? 1 : 0,
	    t ? (long)t->tot_transfered_size : -1L, t ? (long)t->offset : -1L);
	if (rc == 0 && op != EPOLL_CTL_DEL && plan_of(sid).kind == 'H') { g_hold = 2; g_rest = 1; }
	if (rc == 0 && op != EPOLL_CTL_DEL && plan_of(sid).kind == 'T' && g_sc.tmo == 0) { g_hold = 2; g_rest = 1; }
	errno = err;
	return rc;
}
int __wrap_timerfd_create(int clk, int flags) {
	int fd = __real_timerfd_create(clk, flags);
	if (on_pool() && fd >= 0) {
		int err = errno;
		if (g_tfd >= 0) LOGEV("\"e\":\"tmr.second\"");
		g_tfd = fd; g_armed = 0;
		LOGEV("\"e\":\"tmr.create\"");
		errno = err;
	}
	return fd;
}
int __wrap_timerfd_settime(int fd, int flags, const struct itimerspec *nv, struct itimerspec *ov) {
	if (!g_active || fd != g_tfd) return __real_timerfd_settime(fd, flags, nv, ov);
	unsigned long long ms = (unsigned long long)nv->it_value.tv_sec * 1000ull + (unsigned long long)nv->it_value.tv_nsec / 1000000ull;
	unsigned long long ims = (unsigned long long)nv->it_interval.tv_sec * 1000ull + (unsigned long long)nv->it_interval.tv_nsec / 1000000ull;
	int exact = (nv->it_value.tv_nsec % 1000000l) == 0;
	if (ms > 100000000ull) ms = 100000000ull;
	struct itimerspec real; memset(&real, 0, sizeof(real));
	const char *kind = "off";
	if (ms != 0 || nv->it_value.tv_nsec != 0) {
		int pending = (g_natt >= 1 && g_natt < MAXSOCK && g_sfd[g_natt] >= 0);     /* a socket is open: this is the connect timeout */
		if (pending) {
			kind = "timeout";
			if (plan_of(g_natt).kind == 'T') real.it_value.tv_nsec = 3000000l; else real.it_value.tv_sec = 600;
		} else {
			kind = "pause";
			char d = (g_npause < g_sc.ndplan) ? g_sc.dplan[g_npause] : 'x';
			g_npause++;
			if (d == 'h') { real.it_value.tv_sec = 600; g_hold = 1; g_rest = 1; } else real.it_value.tv_nsec = 2000000l;
		}
	}
	int rc = __real_timerfd_settime(fd, 0, &real, ov);
	int err = errno;
	g_armed = (ms != 0);
	LOGEV("\"e\":\"tmr.set\",\"ms\":%llu,\"ims\":%llu,\"exact\":%d,\"abs\":%d,\"rc\":%d,\"kind\":\"%s\"", ms, ims, exact, (flags & TFD_TIMER_ABSTIME) ? 1 : 0, rc, kind);
	errno = err;
	return rc;
}

/* ------------------------------------------------------------------ API calls (pool thread) and the callback */
static void api_stop(void) {
	LOGEV("\"e\":\"call.stop\"");
	tp_task_stop(g_task);
	LOGEV("\"e\":\"ret.stop\",\"tmr_armed\":%d,\"tmr_open\":%d", g_armed ? 1 : 0, g_tfd >= 0 ? 1 : 0);
}
static void api_destroy(void) {
	tp_task_p t = g_task;
	if (t == NULL) return;
	uintptr_t id = tp_task_ident_get(t);
	int sid = ((uintptr_t)-1 != id) ? sid_of_fd((int)id) : 0;
	LOGEV("\"e\":\"call.destroy\",\"sock\":%d", sid);
	tp_task_destroy(t);
	g_task = NULL; g_dead_task = (const char *)t;
	int topen = g_tfd >= 0, tarmed = g_armed;
	LOGEV("\"e\":\"ret.destroy\",\"tmr_armed\":%d,\"tmr_open\":%d", tarmed ? 1 : 0, topen ? 1 : 0);
	if (topen) {   /* the task is freed: a timer that is still registered would be delivered to freed memory - the rig takes it away */
		struct itimerspec z; memset(&z, 0, sizeof(z));
		__real_timerfd_settime(g_tfd, 0, &z, NULL);
		__real_close(g_tfd); g_tfd = -1; g_armed = 0;
	}
	if (sid && g_sfd[sid] >= 0) {   /* without TP_TASK_F_CLOSE_ON_DESTROY the socket is the caller's */
		__real_close(g_sfd[sid]); g_sfd[sid] = -1;
		LOGEV("\"e\":\"drv.close\",\"sid\":%d", sid);
	}
}
static int run_policy(const char *it) {
	int ret = TP_TASK_CB_NONE;
	for (const char *p = it; *p; p++) {
		switch (*p) {
		case 's': api_stop(); break;
		case 'D': api_destroy(); break;
		case 'C': ret = TP_TASK_CB_CONTINUE; break;
		case 'N': ret = TP_TASK_CB_NONE; break;
		case 'E': ret = TP_TASK_CB_EOF; break;
		case 'X': ret = TP_TASK_CB_ERROR; break;
		}
	}
	return ret;
}
static int conn_cb(tp_task_p tptask, int error, tp_task_conn_prms_p prms, size_t addr_index, void *udata) {
	uintptr_t id = tp_task_ident_get(tptask);
	tpt_p cur = tpt_get_current();
	if (g_task == NULL) g_task = tptask;
	LOGEV("\"e\":\"cb.begin\",\"err\":%d,\"ai\":%ld,\"sock\":%d,\"same\":%d,\"cur\":%ld", error, (addr_index > 1000000) ? -1L : (long)addr_index,
	    ((uintptr_t)-1 != id) ? sid_of_fd((int)id) : 0, (tptask == g_task && prms == &g_prms && udata == (void *)&g_sc) ? 1 : 0,
	    cur ? (long)cur->thread_num : -1L);
	int fin = (error == 0 || error == -1);
	const char *it;
	if (g_ncb >= 40) it = "N";                         /* a callback may always decline: bounds the log */
	else if (fin) it = g_sc.finpol;
	else { int i = g_nfrep++; if (g_sc.nfpol == 0) it = "C"; else it = g_sc.fpol[i < g_sc.nfpol ? i : g_sc.nfpol - 1]; }
	g_ncb++;
	int ret = run_policy(it);
	LOGEV("\"e\":\"cb.end\",\"ret\":%d", ret);
	if (fin || ret != TP_TASK_CB_CONTINUE) g_rest = 1;
	return ret;
}
static void api_create(void) {
	memset(&g_prms, 0, sizeof(g_prms));
	for (int i = 0; i < 8; i++) {    /* all eight are valid: an index beyond addrs_count shows up as such in the log, the same way in every run */
		struct sockaddr_in *sin = (struct sockaddr_in *)&g_addrs[i];
		memset(&g_addrs[i], 0, sizeof(g_addrs[i]));
		sin->sin_family = AF_INET; sin->sin_addr.s_addr = htonl(INADDR_LOOPBACK); sin->sin_port = htons((uint16_t)(20000 + i));
	}
	g_prms.time_limit = g_sc.tl; g_prms.retry_delay = g_sc.rd; g_prms.max_tries = (uint64_t)g_sc.mt;
	g_prms.flags = (g_sc.idelay ? TP_TASK_CONNECT_F_INITIAL_DELAY : 0) | (g_sc.rr ? TP_TASK_CONNECT_F_ROUND_ROBIN : 0);
	g_prms.protocol = 0; g_prms.addrs_count = (size_t)g_sc.n; g_prms.addrs = g_addrs;
	uint32_t tflags = (g_sc.every ? TP_TASK_F_CB_AFTER_EVERY_READ : 0) | (g_sc.cod ? TP_TASK_F_CLOSE_ON_DESTROY : 0);
	LOGEV("\"e\":\"call.create\",\"n\":%d,\"mt\":%d,\"rr\":%d,\"idelay\":%d,\"rd\":%lu,\"tmo\":%lu,\"tl\":%lu,\"every\":%d,\"cod\":%d",
	    g_sc.n, g_sc.mt, g_sc.rr, g_sc.idelay, g_sc.rd, g_sc.tmo, g_sc.tl, g_sc.every, g_sc.cod);
	tp_task_p t = NULL;
	g_in_lib = 1;
	int rc = tp_task_connect_ex_create(&g_tp->threads[0], tflags, (uint64_t)g_sc.tmo, &g_prms, conn_cb, &g_sc, &t);
	g_in_lib = 0;
	if (rc == 0 && g_task != NULL && g_task != t) LOGEV("\"e\":\"BadOp\",\"op\":\"task-pointer-recovery\"");
	g_task = t;
	LOGEV("\"e\":\"ret.create\",\"rc\":%d,\"task\":%d", rc, t != NULL);
	if (rc != 0) g_rest = 1;
}

/* ------------------------------------------------------------------ running things on the pool thread */
typedef struct { sem_t sem; void (*fn)(void); } job_t;
static void job_cb(tpt_p tpt __unused, void *udata) { job_t *j = udata; if (j->fn) j->fn(); sem_post(&j->sem); }
static int on_w0(void (*fn)(void)) {
	job_t j; sem_init(&j.sem, 0, 0); j.fn = fn;
	int rc = EAGAIN;
	for (int tries = 0; tries < 20000 && rc == EAGAIN; tries++) { rc = tpt_msg_send(&g_tp->threads[0], NULL, 0, job_cb, &j); if (rc == EAGAIN) usleep(100); }
	if (rc != 0) { LOGEV("\"e\":\"Hang\",\"where\":\"msg-send\""); return -1; }
	struct timespec ts; __real_clock_gettime(CLOCK_REALTIME, &ts); ts.tv_sec += 6;
	if (sem_timedwait(&j.sem, &ts) != 0) {
		/* the pool thread does not come back: from inside the connector = an observation about the library, otherwise the rig hangs */
		if (g_in_lib) { LOGEV("\"e\":\"stuck\",\"where\":\"connector-does-not-return-to-the-loop\""); flush_log(); _exit(5); }
		ts.tv_sec += 14;
		if (sem_timedwait(&j.sem, &ts) != 0) { LOGEV("\"e\":\"Hang\",\"where\":\"job\""); flush_log(); _exit(3); }
	}
	sem_destroy(&j.sem);
	return 0;
}
static void quiesce(void) { on_w0(NULL); on_w0(NULL); }
static int wait_rest(int ms) {
	for (long i = 0; i < (long)ms * 5 && !g_rest; i++) usleep(200);
	int ok = g_rest;
	quiesce();
	return ok;
}
static void release_timer(void) {     /* the pause that was held ends now */
	if (g_tfd >= 0 && g_armed) {
		struct itimerspec r; memset(&r, 0, sizeof(r)); r.it_value.tv_nsec = 2000000l;
		LOGEV("\"e\":\"drv.release\"");
		__real_timerfd_settime(g_tfd, 0, &r, NULL);
	}
}
static void drain_listener(void) {
	for (;;) { int c = accept4(g_lfd, NULL, NULL, SOCK_NONBLOCK); if (c < 0) break; __real_close(c); }
}

static int parse_plan(const char *v) {
	g_sc.nplan = 0;
	while (*v && g_sc.nplan < MAXPLAN) {
		plan_t p = { *v++, 0, 0 };
		p.err = (int)strtol(v, (char **)&v, 10);
		if (*v == '+') { p.jump = v[1]; v += 2; }
		g_sc.plan[g_sc.nplan++] = p;
		if (*v == ',') v++;
	}
	return 0;
}
static void parse_scn(char *line) {
	memset(&g_sc, 0, sizeof(g_sc));
	g_sc.n = 1; g_sc.mt = 1; strcpy(g_sc.finpol, "N"); strcpy(g_sc.owner, "none");
	char *save = NULL;
	for (char *tok = strtok_r(line, " \t\r\n", &save); tok; tok = strtok_r(NULL, " \t\r\n", &save)) {
		char *eq = strchr(tok, '='); if (!eq) continue;
		*eq = 0; const char *k = tok, *v = eq + 1;
		if (!strcmp(k, "n")) g_sc.n = atoi(v); else if (!strcmp(k, "mt")) g_sc.mt = atoi(v);
		else if (!strcmp(k, "rr")) g_sc.rr = atoi(v); else if (!strcmp(k, "idelay")) g_sc.idelay = atoi(v);
		else if (!strcmp(k, "every")) g_sc.every = atoi(v); else if (!strcmp(k, "cod")) g_sc.cod = atoi(v);
		else if (!strcmp(k, "rd")) g_sc.rd = strtoul(v, NULL, 10); else if (!strcmp(k, "tmo")) g_sc.tmo = strtoul(v, NULL, 10);
		else if (!strcmp(k, "tl")) g_sc.tl = strtoul(v, NULL, 10);
		else if (!strcmp(k, "plan")) parse_plan(v);
		else if (!strcmp(k, "dplan")) { g_sc.ndplan = 0; for (; *v && g_sc.ndplan < MAXPLAN; v++) if (*v != ',') g_sc.dplan[g_sc.ndplan++] = *v; }
		else if (!strcmp(k, "fpol")) {
			g_sc.nfpol = 0; char tmp[256]; strncpy(tmp, v, 255); tmp[255] = 0; char *s2 = NULL;
			for (char *it = strtok_r(tmp, ",", &s2); it && g_sc.nfpol < MAXPLAN; it = strtok_r(NULL, ",", &s2)) { strncpy(g_sc.fpol[g_sc.nfpol], it, 3); g_sc.nfpol++; }
		}
		else if (!strcmp(k, "finpol")) { strncpy(g_sc.finpol, v, 3); g_sc.finpol[3] = 0; }
		else if (!strcmp(k, "owner")) { strncpy(g_sc.owner, v, 11); }
		else if (!strcmp(k, "release")) g_sc.release = atoi(v);
	}
}
static int g_stalls;
static void run_scn(char *line) {
	parse_scn(line);
	for (int i = 0; i < MAXSOCK; i++) g_sfd[i] = -1;
	g_natt = g_npause = g_ncb = g_nfrep = 0; g_tfd = -1; g_armed = 0; g_fault_sid = 0; g_clock_off_ms = 0; g_rest = 0; g_hold = 0; g_task = NULL; g_dead_task = NULL;
	alarm(60);
	g_active = 1;
	on_w0(api_create);
	int ok = wait_rest(3000);
	if (!ok) { LOGEV("\"e\":\"stalled\",\"where\":\"after-create\""); g_stalls++; }
	if (ok && g_hold && g_task != NULL && strcmp(g_sc.owner, "none") != 0) {
		int was_hold = g_hold;
		g_rest = 0; g_hold = 0;
		if (!strcmp(g_sc.owner, "stop")) {
			on_w0(api_stop);
			if (g_sc.release && was_hold == 1 && g_armed) {
				release_timer();
				if (!wait_rest(3000)) { LOGEV("\"e\":\"stalled\",\"where\":\"after-release\""); g_stalls++; }
			} else { quiesce(); usleep(15000); quiesce(); }
		} else {
			on_w0(api_destroy);
			quiesce(); usleep(15000); quiesce();
		}
	}
	on_w0(api_destroy);       /* (no-op if the task is gone) */
	quiesce();
	for (int i = 1; i <= g_natt && i < MAXSOCK; i++) if (g_sfd[i] >= 0) { LOGEV("\"e\":\"drv.leaked\",\"sid\":%d", i); __real_close(g_sfd[i]); g_sfd[i] = -1; }
	LOGEV("\"e\":\"end\",\"open\":%d,\"tfd\":%d,\"cbs\":%d,\"atts\":%d", open_socks(), g_tfd >= 0 ? 1 : 0, g_ncb, g_natt);
	if (g_tfd >= 0) { __real_close(g_tfd); g_tfd = -1; }
	g_active = 0;
	drain_listener();
	LOGEV("\"e\":\"Reset\"");
	alarm(0);
}

static void on_crash(int sig) {
	g_log_len += (size_t)snprintf(g_log + g_log_len, 128, "{\"seq\":%ld,\"t\":%d,\"e\":\"Crash\",\"sig\":%d}\n", ++g_seq, vh_tid, sig);
	flush_log(); _exit(4);
}
static void on_alarm(int sig) {
	(void)sig;
	g_log_len += (size_t)snprintf(g_log + g_log_len, 128, "{\"seq\":%ld,\"t\":-5,\"e\":\"Hang\",\"where\":\"watchdog\"}\n", ++g_seq);
	flush_log(); _exit(3);
}
static int bound_port(int fd) { struct sockaddr_in sin; socklen_t sl = sizeof(sin); getsockname(fd, (struct sockaddr *)&sin, &sl); return ntohs(sin.sin_port); }
static int listener(int backlog) {
	struct sockaddr_in sin; real_target(&sin, 0);
	int fd = __real_socket(AF_INET, SOCK_STREAM, 0);
	if (fd < 0 || bind(fd, (struct sockaddr *)&sin, sizeof(sin)) != 0 || listen(fd, backlog) != 0) { perror("listener"); exit(2); }
	return fd;
}
static void setup_targets(void) {
	struct sockaddr_in sin;
	g_lfd = listener(512); g_port_listen = bound_port(g_lfd); fcntl(g_lfd, F_SETFL, O_NONBLOCK);
	{	/* the "closed" port: bound (nobody else can take it) but not listening -> the kernel refuses */
		real_target(&sin, 0);
		g_closed_fd = __real_socket(AF_INET, SOCK_STREAM, 0);
		if (g_closed_fd < 0 || bind(g_closed_fd, (struct sockaddr *)&sin, sizeof(sin)) != 0) { perror("closed port"); exit(2); }
		g_port_closed = bound_port(g_closed_fd);
	}
	g_silent_fd = listener(0); g_port_silent = bound_port(g_silent_fd);
	g_filler_fd = __real_socket(AF_INET, SOCK_STREAM, 0);
	real_target(&sin, g_port_silent);
	if (__real_connect(g_filler_fd, (struct sockaddr *)&sin, sizeof(sin)) != 0) { perror("filler"); exit(2); }
	/* self test of the environment: a further connection to the full listener must stay pending, the closed port must refuse */
	int t = __real_socket(AF_INET, SOCK_STREAM | SOCK_NONBLOCK, 0);
	(void)__real_connect(t, (struct sockaddr *)&sin, sizeof(sin));
	struct pollfd pf = { t, POLLOUT, 0 };
	if (poll(&pf, 1, 100) != 0) { fprintf(stderr, "x04_drv: the silent listener answers (revents %x)\n", pf.revents); exit(2); }
	__real_close(t);
	t = __real_socket(AF_INET, SOCK_STREAM | SOCK_NONBLOCK, 0);
	real_target(&sin, g_port_closed);
	(void)__real_connect(t, (struct sockaddr *)&sin, sizeof(sin));
	pf.fd = t; pf.revents = 0;
	if (poll(&pf, 1, 1000) != 1 || !(pf.revents & POLLERR)) { fprintf(stderr, "x04_drv: the closed port does not refuse (revents %x)\n", pf.revents); exit(2); }
	__real_close(t);
}

int main(int argc, char **argv) {
	if (argc < 3) { fprintf(stderr, "usage: x04_drv scenario trace\n"); return 2; }
	g_out_path = argv[2];
	vh_tid = 100;
	if (__sanitizer_set_death_callback) __sanitizer_set_death_callback(flush_log);
	signal(SIGALRM, on_alarm); signal(SIGPIPE, SIG_IGN); signal(SIGSEGV, on_crash); signal(SIGBUS, on_crash);
	g_log_cap = 1u << 22; g_log = malloc(g_log_cap);
	setup_targets();
	tp_settings_t s; tp_settings_def(&s);
	s.flags = 0; s.threads_max = 1;
	tp_p tp = NULL;
	if (tp_create(&s, &tp) != 0) { fprintf(stderr, "tp_create failed\n"); return 2; }
	g_tp = tp;
	tp_threads_create(g_tp, 0);
	for (int t = 0; t < 50000 && g_tp->threads[0].state != TP_THREAD_STATE_RUNNING; t++) usleep(100);
	FILE *f = fopen(argv[1], "r");
	if (!f) { perror("scenario"); return 2; }
	char line[2048];
	while (fgets(line, sizeof(line), f)) {
		if (line[0] == '#' || line[0] == '\n') continue;
		if (g_stalls >= 3) { LOGEV("\"e\":\"aborted\",\"why\":\"three scenarios stalled\""); break; }
		run_scn(line);
	}
	fclose(f);
	tp_shutdown(g_tp); tp_shutdown_wait(g_tp); tp_destroy(g_tp);
	flush_log();
	return 0;
}
