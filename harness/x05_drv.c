/* X05 - HTTP server connection state machine, conformance driver (growth task).
 *
 * The real src/proto/http_server.c on the real thread pool (one worker thread) and the real I/O tasks, listening on
 * TCP loopback, against scripted clients that live on the main thread of the same process.
 *
 * Unity build: the library sources are #included unchanged (private structs visible: cli->tptask, bnd->tptasks).
 * Link with -Wl,--wrap=accept4,--wrap=recv,--wrap=send,--wrap=sendmsg,--wrap=close,--wrap=timerfd_settime
 *   accept4          on a listening socket of the server: logs "acc" (which scripted client was accepted)
 *   recv             on an accepted socket: logs "rx" (wanted, returned); optional short reads armed by the scenario
 *   sendmsg / send   on an accepted socket: logs "tx" (wanted, returned); short writes / EAGAIN / error armed by the
 *                    scenario (deterministic partial writes without filling kernel buffers)
 *   close            on an accepted / listening socket: logs "cls" (descriptor ledger)
 *   timerfd_settime  LOGICAL TIME: an I/O timeout armed by the library never expires by itself (it is armed for one
 *                    hour); the scenario command "timeout c" makes the timer of connection c expire now.
 * liblcb_verif_point("loop.cb") = the pool thread is about to call the handler of a registration: logs "ev".
 * The user callbacks (on_conn, on_req_rcv, on_rep_snd, on_destroy) log what they see and answer as the scripted
 * request tells them (the plan travels in the request URI).
 * Everything of the server runs on the pool thread, API calls of the scenario are shipped there by a thread message,
 * so the order of the log lines IS the execution order.  The main thread plays the clients with plain sockets and
 * after every stimulus makes two empty round trips through the pool thread (the epoll ready list is FIFO).
 * Wall-clock values never reach the log.
 *
 * usage: x05_drv <scenario-file> <trace-out.ndjson>
 */
#include <semaphore.h>
#include <stdarg.h>
#include <poll.h>
#include <arpa/inet.h>
#include <sys/timerfd.h>
#include <sys/time.h>
#include <sys/ioctl.h>
#include "threadpool/threadpool.c"
#include "threadpool/threadpool_msg_sys.c"
#include "threadpool/threadpool_task.c"
#include "net/socket.c"
#include "net/socket_address.c"
#include "net/socket_options.c"
#include "net/utils.c"
#include "utils/sys.c"
#include "utils/info.c"
#include "proto/http.c"
#include "proto/http_server.c"

int __real_accept4(int, struct sockaddr *, socklen_t *, int);
ssize_t __real_recv(int, void *, size_t, int);
ssize_t __real_send(int, const void *, size_t, int);
ssize_t __real_sendmsg(int, const struct msghdr *, int);
int __real_close(int);
int __real_timerfd_settime(int, int, const struct itimerspec *, struct itimerspec *);
int __lsan_do_recoverable_leak_check(void) __attribute__((weak));

/* ------------------------------------------------------------------ log */
static pthread_mutex_t g_log_mu = PTHREAD_MUTEX_INITIALIZER;
static char *g_log; static size_t g_log_len, g_log_cap;
static long g_seq;
static const char *g_out_path;
static volatile int g_flushed;

static void flush_log(void) {
	if (!g_out_path) return;
	FILE *f = fopen(g_out_path, "w");
	if (!f) return;
	fwrite(g_log, 1, g_log_len, f);
	fclose(f);
}
static void logf_locked(const char *fmt, ...) {
	if (g_log_len + 16384 > g_log_cap) {
		g_log_cap = g_log_cap ? g_log_cap * 2 : (1u << 20);
		g_log = realloc(g_log, g_log_cap);
		if (!g_log) abort();
	}
	int n = snprintf(g_log + g_log_len, 64, "{\"n\":%ld,", ++g_seq);
	g_log_len += (size_t)n;
	va_list ap; va_start(ap, fmt);
	n = vsnprintf(g_log + g_log_len, 15000, fmt, ap);
	va_end(ap);
	g_log_len += (size_t)n;
	g_log[g_log_len++] = '}'; g_log[g_log_len++] = '\n';
}
#define LOGEV(...) do { int e__ = errno; pthread_mutex_lock(&g_log_mu); logf_locked(__VA_ARGS__); pthread_mutex_unlock(&g_log_mu); errno = e__; } while (0)

void __sanitizer_set_death_callback(void (*)(void)) __attribute__((weak));
static void on_death(void) {
	if (g_flushed) return;
	g_flushed = 1;
	int locked = (0 == pthread_mutex_trylock(&g_log_mu));
	logf_locked("\"e\":\"crash\"");
	flush_log();
	if (locked) pthread_mutex_unlock(&g_log_mu);
}
static void on_signal(int sig) {
	if (!g_flushed) {
		g_flushed = 1;
		int locked = (0 == pthread_mutex_trylock(&g_log_mu));
		logf_locked("\"e\":\"%s\",\"sig\":%d", (sig == SIGALRM) ? "hang" : "crash", sig);
		flush_log();
		if (locked) pthread_mutex_unlock(&g_log_mu);
	}
	fprintf(stderr, "FAULT sig=%d\n", sig);
	_exit((sig == SIGALRM) ? 98 : 99);
}
static void on_prof(int sig) { (void)sig; on_signal(SIGALRM); }       /* CPU-time budget used up = hang, like the wall clock alarm */
static void die(const char *m) { fprintf(stderr, "x05_drv: %s\n", m); exit(3); }

/* ------------------------------------------------------------------ world */
#define MAXC 8
#define MAXB 4
#define MAXRQ 8
#define MAXLIM 16
#define LIM_EAGAIN (-11)
#define LIM_ERR (-32)
typedef struct {
	char kind[12]; int pad, cl, bl, ver; char conn[12];
	char act; int blen; int rclose; char snd; int status;
	char *text; int hl, tlen;
} rq_t;
typedef struct conn_s {
	unsigned magic; int c, b;
	int cfd, cport, cclosed;        /* client side */
	int sfd, sfd_open;              /* server side descriptor (ledger) */
	volatile long srv_rx, cli_tx, srv_tx; volatile int cli_fin; int closed_unread;
	int nreq; rq_t rq[MAXRQ + 1];   /* 1-based */
	char *stream; int slen, spos;
	http_srv_cli_p cli; int alive; int ndestroy; int curk;
	char onconn; char wait;   /* 'R' = on_req_rcv answered NONE, 'N' = on_rep_snd answered NONE */
	int ntxl, itxl; long txl[MAXLIM];
	int nrxl, irxl; long rxl[MAXLIM];
	uint8_t *rx; size_t rxlen, rxcap; int rxeof, rxerr;
	char xhdr[48];
} conn_t;
#define CMAGIC 0x58303563u
typedef struct { int used; http_srv_bind_p bnd; int port; int nfd; int fd[4]; int fd_open[4]; int alive; } bind_t;

static conn_t g_conn[MAXC + 1];
static bind_t g_bind[MAXB + 1];
static tp_p g_tp; static tpt_p g_tpt0;
static http_srv_p g_srv; static volatile int g_srv_alive;
static int g_tmr_armed[4096];
static struct { int threads, init, max, snd, hdrs, reqconn, reqhost, respclose, respgen, rcvtmo, sndtmo, accfilter, reqcb, sndcb, dstcb, conncb, server; } g_cfg =
	{ 1, 1, 4, 4, 1, 1, 0, 0, 0, 30, 30, 0, 1, 1, 1, 1, 1 };

static int on_pool(void) { return (g_tp != NULL && tpt_get_current() != NULL) ? 1 : 0; }
static conn_t *conn_by_sfd(int fd) { for (int i = 1; i <= MAXC; i++) if (g_conn[i].magic == CMAGIC && g_conn[i].sfd_open && g_conn[i].sfd == fd) return &g_conn[i]; return NULL; }
static conn_t *conn_by_port(int port) { for (int i = 1; i <= MAXC; i++) if (g_conn[i].magic == CMAGIC && g_conn[i].cport == port && !g_conn[i].sfd_open && g_conn[i].sfd < 0) return &g_conn[i]; return NULL; }
static int bind_by_fd(int fd, int *slot) { for (int b = 1; b <= MAXB; b++) for (int k = 0; k < g_bind[b].nfd; k++) if (g_bind[b].fd_open[k] && g_bind[b].fd[k] == fd) { if (slot) *slot = k; return b; } return 0; }
static conn_t *conn_of_cli(http_srv_cli_p cli) {
	if (cli == NULL) return NULL;
	conn_t *cn = (conn_t *)cli->udata;
	if (cn == NULL && cli->tptask != NULL) cn = conn_by_sfd((int)tp_task_ident_get(cli->tptask));   /* no on_conn callback: by descriptor */
	if (cn < &g_conn[1] || cn > &g_conn[MAXC] || cn->magic != CMAGIC) return NULL;
	return cn;
}
static const char *ename(int e) {
	switch (e) {
	case 0: return "0";
	case EAGAIN: return "EAGAIN";
	case ECONNRESET: return "ECONNRESET";
	case EPIPE: return "EPIPE";
	case ETIMEDOUT: return "ETIMEDOUT";
	case EINVAL: return "EINVAL";
	case ENOMEM: return "ENOMEM";
	case EBADF: return "EBADF";
	case EADDRINUSE: return "EADDRINUSE";
	case EINTR: return "EINTR";
	}
	static __thread char b[24]; snprintf(b, sizeof(b), "E%d", e); return b;
}

/* ------------------------------------------------------------------ wrappers */
int __wrap_accept4(int fd, struct sockaddr *addr, socklen_t *len, int flags) {
	int r = __real_accept4(fd, addr, len, flags);
	int e = errno, b = bind_by_fd(fd, NULL);
	if (b == 0) { errno = e; return r; }
	if (r >= 0) {
		int port = (addr && addr->sa_family == AF_INET) ? ntohs(((struct sockaddr_in *)addr)->sin_port) : 0;
		conn_t *cn = conn_by_port(port);
		if (cn) { cn->sfd = r; cn->sfd_open = 1; cn->b = b; }
		LOGEV("\"e\":\"acc\",\"b\":%d,\"c\":%d,\"err\":\"0\",\"nb\":%d", b, cn ? cn->c : 0, (flags & SOCK_NONBLOCK) ? 1 : 0);
	} else {
		LOGEV("\"e\":\"acc\",\"b\":%d,\"c\":0,\"err\":\"%s\",\"nb\":0", b, ename(e));
	}
	errno = e;
	return r;
}
ssize_t __wrap_recv(int fd, void *buf, size_t len, int flags) {
	conn_t *cn = on_pool() ? conn_by_sfd(fd) : NULL;
	if (!cn) return __real_recv(fd, buf, len, flags);
	size_t want = len;
	if (cn->irxl < cn->nrxl) { long l = cn->rxl[cn->irxl++]; if (l > 0 && (size_t)l < len) len = (size_t)l; }
	ssize_t r = __real_recv(fd, buf, len, flags);
	int e = errno;
	if (r > 0) cn->srv_rx += r;
	LOGEV("\"e\":\"rx\",\"c\":%d,\"want\":%zu,\"ret\":%zd,\"err\":\"%s\",\"dw\":%d", cn->c, want, r, r < 0 ? ename(e) : "0", (flags & MSG_DONTWAIT) ? 1 : 0);
	errno = e;
	return r;
}
static ssize_t tx_common(conn_t *cn, const char *fn, const uint8_t *flat, size_t total, int flags) {
	ssize_t r; int e;
	long l = (cn->itxl < cn->ntxl) ? cn->txl[cn->itxl++] : 0;
	if (l == LIM_EAGAIN) { r = -1; e = EAGAIN; }
	else if (l == LIM_ERR) { r = -1; e = EPIPE; }
	else {
		size_t n = total;
		if (l > 0 && (size_t)l < n) n = (size_t)l;
		r = __real_send(cn->sfd, flat, n, flags);
		e = errno;
		if (r > 0) cn->srv_tx += r;
	}
	LOGEV("\"e\":\"tx\",\"c\":%d,\"fn\":\"%s\",\"want\":%zu,\"ret\":%zd,\"err\":\"%s\"", cn->c, fn, total, r, r < 0 ? ename(e) : "0");
	errno = e;
	return r;
}
ssize_t __wrap_send(int fd, const void *buf, size_t len, int flags) {
	conn_t *cn = on_pool() ? conn_by_sfd(fd) : NULL;
	if (!cn) return __real_send(fd, buf, len, flags);
	return tx_common(cn, "send", buf, len, flags);
}
ssize_t __wrap_sendmsg(int fd, const struct msghdr *m, int flags) {
	conn_t *cn = on_pool() ? conn_by_sfd(fd) : NULL;
	if (!cn) return __real_sendmsg(fd, m, flags);
	size_t total = 0, o = 0;
	for (size_t i = 0; i < (size_t)m->msg_iovlen; i++) total += m->msg_iov[i].iov_len;
	uint8_t *flat = malloc(total + 1);
	if (!flat) abort();
	for (size_t i = 0; i < (size_t)m->msg_iovlen; i++) { memcpy(flat + o, m->msg_iov[i].iov_base, m->msg_iov[i].iov_len); o += m->msg_iov[i].iov_len; }
	ssize_t r = tx_common(cn, "sendmsg", flat, total, flags);
	int e = errno;
	free(flat);
	errno = e;
	return r;
}
int __wrap_close(int fd) {
	conn_t *cn = conn_by_sfd(fd);
	int slot = 0, b = cn ? 0 : bind_by_fd(fd, &slot);
	if (cn) { int inq = 0; if (0 == ioctl(fd, FIONREAD, &inq) && inq > 0) cn->closed_unread = 1;   /* the kernel answers with a reset: the peer may lose what it has not read */
		cn->sfd_open = 0; cn->alive = 0; cn->cli = NULL; LOGEV("\"e\":\"cls\",\"c\":%d,\"thr\":%d", cn->c, on_pool() ? 0 : 1); }
	else if (b) { g_bind[b].fd_open[slot] = 0; LOGEV("\"e\":\"cls.l\",\"b\":%d,\"thr\":%d", b, on_pool() ? 0 : 1); }
	if (fd >= 0 && fd < 4096) g_tmr_armed[fd] = 0;
	return __real_close(fd);
}
int __wrap_timerfd_settime(int fd, int flags, const struct itimerspec *nv, struct itimerspec *ov) {
	struct itimerspec v = *nv;
	if (fd >= 0 && fd < 4096) {
		if (v.it_value.tv_sec != 0 || v.it_value.tv_nsec != 0) {
			g_tmr_armed[fd] = 1;
			v.it_value.tv_sec = 3600; v.it_value.tv_nsec = 0;   /* logical time: expires only on "timeout c" */
			if (v.it_interval.tv_sec != 0 || v.it_interval.tv_nsec != 0) { v.it_interval.tv_sec = 3600; v.it_interval.tv_nsec = 0; }
		} else g_tmr_armed[fd] = 0;
	}
	return __real_timerfd_settime(fd, flags, &v, ov);
}
void liblcb_verif_point(const char *label, const void *a, const void *b, uintptr_t val) {
	(void)a;
	if (getenv("X05_DEBUG") && (0 == strcmp(label, "ev.post") || 0 == strcmp(label, "loop.gate"))) {
		const tp_udata_t *u9 = b;
		LOGEV("\"e\":\"dbg\",\"l\":\"%s\",\"u\":\"%p\",\"id\":%ld,\"val\":\"%lx\",\"tpdata\":\"%lx\"", label, b, (long)u9->ident, (unsigned long)val, (unsigned long)u9->tpdata);
	}
	if (label[0] == 'e' && 0 == strcmp(label, "ev.post")) {   /* learn the client object as soon as its task is scheduled */
		const tp_udata_t *u0 = b; unsigned ev0 = (unsigned)((val >> 8) & 0xff);
		if (u0->cb_func == tp_task_sr_handler) {
			tp_task_p t0 = (ev0 == TP_EV_TIMER) ? (tp_task_p)u0->ident : (tp_task_p)(uintptr_t)u0;
			conn_t *c0 = conn_of_cli((http_srv_cli_p)t0->udata);
			if (c0 && c0->sfd_open) { c0->cli = (http_srv_cli_p)t0->udata; c0->alive = 1; }
		}
		return;
	}
	if (label[0] != 'l' || 0 != strcmp(label, "loop.cb")) return;
	const tp_udata_t *u = b; unsigned ev = (unsigned)(val & 0xffff), fl = (unsigned)(val >> 16);
	if (u->cb_func == tp_task_sr_handler) {
		tp_task_p t = (ev == TP_EV_TIMER) ? (tp_task_p)u->ident : (tp_task_p)(uintptr_t)u;
		conn_t *cn = conn_of_cli((http_srv_cli_p)t->udata);
		LOGEV("\"e\":\"ev\",\"c\":%d,\"k\":\"%s\",\"eof\":%d,\"err\":%d", cn ? cn->c : 0,
		    ev == TP_EV_READ ? "R" : ev == TP_EV_WRITE ? "W" : "T", (fl & TP_F_EOF) ? 1 : 0, (fl & TP_F_ERROR) ? 1 : 0);
	} else if (u->cb_func == tp_task_accept_handler) {
		int b2 = bind_by_fd((int)u->ident, NULL);
		LOGEV("\"e\":\"ev.l\",\"b\":%d,\"eof\":%d,\"err\":%d", b2, (fl & TP_F_EOF) ? 1 : 0, (fl & TP_F_ERROR) ? 1 : 0);
	}
}

/* ------------------------------------------------------------------ request texts */
static uint8_t body_byte(int k, int j) { return (uint8_t)('a' + ((k * 7 + j) % 26)); }
static uint8_t resp_byte(int k, int j) { return (uint8_t)('A' + ((k * 5 + j) % 26)); }
static void rq_render(conn_t *cn, int k) {
	rq_t *q = &cn->rq[k]; char h[8192]; int n = 0;
	const char *m = "GET"; int wantcl = 0;
	if (!strcmp(q->kind, "POST")) { m = "POST"; wantcl = 1; }
	else if (!strcmp(q->kind, "POSTNOCL")) { m = "POST"; }
	else if (!strcmp(q->kind, "UNK")) { m = "FROB"; }
	else if (!strcmp(q->kind, "UNKCL")) { m = "FROB"; wantcl = 1; }
	else if (!strcmp(q->kind, "INSEC")) { m = "GET"; wantcl = 1; }           /* GET with Content-Length: http_req_sec_chk = 5 */
	else if (!strcmp(q->kind, "BADLINE")) { m = "get"; }                       /* http_parse_req_line = EBADMSG */
	if (!strcmp(q->kind, "NOHDR")) {                                           /* bytes without an end of headers */
		n = snprintf(h, sizeof(h), "GET /%d/C/0/0/C HTTP/1.1\r\nX-Junk: ", k);
		for (int i = 0; i < q->pad && n < (int)sizeof(h) - 8; i++) h[n++] = 'j';
		q->hl = n; q->bl = 0;
	} else {
		n = snprintf(h, sizeof(h), "%s /%d/%c/%d/%d/%c/%d HTTP/1.%d\r\n", m, k, q->act, q->blen, q->rclose, q->snd, q->status, q->ver == 10 ? 0 : 1);
		if (wantcl) n += snprintf(h + n, sizeof(h) - n, "Content-Length: %d\r\n", q->cl);
		if (!strcmp(q->conn, "close")) n += snprintf(h + n, sizeof(h) - n, "Connection: close\r\n");
		else if (!strcmp(q->conn, "ka")) n += snprintf(h + n, sizeof(h) - n, "Connection: keep-alive\r\n");
		if (q->pad > 0) {
			n += snprintf(h + n, sizeof(h) - n, "X-Pad: ");
			for (int i = 0; i < q->pad && n < (int)sizeof(h) - 8; i++) h[n++] = 'p';
			h[n++] = '\r'; h[n++] = '\n';
		}
		h[n++] = '\r'; h[n++] = '\n';
		q->hl = n;
	}
	q->tlen = q->hl + q->bl;
	q->text = malloc((size_t)q->tlen + 1);
	memcpy(q->text, h, (size_t)q->hl);
	for (int j = 0; j < q->bl; j++) q->text[q->hl + j] = (char)body_byte(k, j);
}
static void conn_build_stream(conn_t *cn) {
	int tot = 0;
	for (int k = 1; k <= cn->nreq; k++) { rq_render(cn, k); tot += cn->rq[k].tlen; }
	cn->stream = malloc((size_t)tot + 1); cn->slen = tot; cn->spos = 0;
	int o = 0;
	for (int k = 1; k <= cn->nreq; k++) { memcpy(cn->stream + o, cn->rq[k].text, (size_t)cn->rq[k].tlen); o += cn->rq[k].tlen; }
}

/* ------------------------------------------------------------------ user callbacks */
static void fill_response(conn_t *cn, int k, http_srv_cli_p cli, http_srv_resp_p resp) {
	rq_t *q = &cn->rq[k];
	resp->status_code = (uint32_t)q->status;
	if (q->rclose) resp->p_flags |= HTTP_SRV_RESP_P_F_CONN_CLOSE;
	if (0 != http_srv_cli_buf_realloc(cli, 0, (size_t)q->blen + 8)) return;
	io_buf_p b = http_srv_cli_get_buf(cli);
	resp->buf = b;
	for (int j = 0; j < q->blen && b->used < b->size; j++) b->data[b->used++] = resp_byte(k, j);
	snprintf(cn->xhdr, sizeof(cn->xhdr), "X-Req: %d", k);
	resp->hdrs[0].iov_base = cn->xhdr; resp->hdrs[0].iov_len = strlen(cn->xhdr);
	resp->hdrs_count = 1;
}
static int cb_on_conn(http_srv_bind_p bnd, void *srv_udata, uintptr_t skt, struct sockaddr_storage *addr, tpt_p *tpt,
    http_srv_cli_ccb_p ccb, void **udata) {
	(void)bnd; (void)srv_udata; (void)addr; (void)tpt; (void)ccb;
	conn_t *cn = conn_by_sfd((int)skt);
	int rc = HTTP_SRV_CB_CONTINUE;
	if (cn) {
		(*udata) = cn;
		if (cn->onconn == 'D') rc = HTTP_SRV_CB_DESTROY;
		else if (cn->onconn == 'N') rc = HTTP_SRV_CB_NONE;
	}
	LOGEV("\"e\":\"conn\",\"c\":%d,\"rc\":\"%c\",\"thr\":%d", cn ? cn->c : 0, rc == HTTP_SRV_CB_DESTROY ? 'D' : rc == HTTP_SRV_CB_NONE ? 'N' : 'C', on_pool() ? 0 : 1);
	return rc;
}
static int parse_plan(const uint8_t *p, size_t n, int *k, char *act, int *blen, int *rclose, char *snd, int *status) {
	char tmp[128]; if (n >= sizeof(tmp)) n = sizeof(tmp) - 1;
	memcpy(tmp, p, n); tmp[n] = 0;
	return (6 == sscanf(tmp, "/%d/%c/%d/%d/%c/%d", k, act, blen, rclose, snd, status)) ? 0 : -1;
}
static int cb_on_req(http_srv_cli_p cli, void *udata, http_srv_req_p req, http_srv_resp_p resp) {
	conn_t *cn = udata ? udata : conn_of_cli(cli); int k = 0, blen = 0, rclose = 0, status = 0; char act = 'C', snd = 'C';
	int hdrok = 0, bodyok = 0, sizeok = 0, nulok = 1;
	if (!cn || cn->magic != CMAGIC) { LOGEV("\"e\":\"req\",\"c\":0"); return HTTP_SRV_CB_DESTROY; }
	cn->cli = cli; cn->alive = 1;
	if (0 != parse_plan(req->line.abs_path, req->line.abs_path_size, &k, &act, &blen, &rclose, &snd, &status) || k < 1 || k > cn->nreq) k = 0;
	if (k) {
		rq_t *q = &cn->rq[k];
		hdrok = (req->hdr_size + 4 == (size_t)q->hl && 0 == memcmp(req->hdr, q->text, req->hdr_size)
		    && req->data == req->hdr + req->hdr_size + 4) ? 1 : 0;
		bodyok = 1;
		for (size_t j = 0; j < req->data_size; j++) if (req->data[j] != body_byte(k, (int)j)) { bodyok = 0; break; }
		sizeok = (req->size == req->hdr_size + 4 + req->data_size) ? 1 : 0;
		if ((size_t)(req->hdr - cli->rcv_buf->data) + req->size < cli->rcv_buf->size) nulok = (req->hdr[req->size] == 0) ? 1 : 0;
		cn->curk = k;
	}
	int pclose = (resp->p_flags & HTTP_SRV_RESP_P_F_CONN_CLOSE) ? 1 : 0;
	int rc = (act == 'D') ? HTTP_SRV_CB_DESTROY : (act == 'N') ? HTTP_SRV_CB_NONE : HTTP_SRV_CB_CONTINUE;
	if (rc == HTTP_SRV_CB_CONTINUE && k) fill_response(cn, k, cli, resp);
	cn->wait = (rc == HTTP_SRV_CB_NONE) ? 'R' : 0;
	LOGEV("\"e\":\"req\",\"c\":%d,\"k\":%d,\"hs\":%zu,\"ds\":%zu,\"cc\":%d,\"pc\":%d,\"half\":%d,\"hdrok\":%d,\"bodyok\":%d,\"sizeok\":%d,\"nulok\":%d,"
	    "\"rc\":\"%c\",\"status\":%d,\"blen\":%d,\"rclose\":%d,\"thr\":%d",
	    cn->c, k, req->hdr_size + 4, req->data_size, (req->flags & HTTP_SRV_RD_F_CONN_CLOSE) ? 1 : 0, pclose,
	    (http_srv_cli_get_flags(cli) & HTTP_SRV_CLI_F_HALF_CLOSED) ? 1 : 0, hdrok, bodyok, sizeok, nulok,
	    act == 'D' ? 'D' : act == 'N' ? 'N' : 'C', rc == HTTP_SRV_CB_CONTINUE ? status : 0, rc == HTTP_SRV_CB_CONTINUE ? blen : 0,
	    rc == HTTP_SRV_CB_CONTINUE ? rclose : 0, on_pool() ? 0 : 1);
	return rc;
}
static int cb_on_snd(http_srv_cli_p cli, void *udata, http_srv_resp_p resp) {
	conn_t *cn = udata ? udata : conn_of_cli(cli); (void)resp;
	if (!cn || cn->magic != CMAGIC) { LOGEV("\"e\":\"snt\",\"c\":0"); return HTTP_SRV_CB_DESTROY; }
	char snd = cn->curk ? cn->rq[cn->curk].snd : 'C';
	int rc = (snd == 'D') ? HTTP_SRV_CB_DESTROY : (snd == 'N') ? HTTP_SRV_CB_NONE : HTTP_SRV_CB_CONTINUE;
	cn->wait = 0;     /* (whether the answer NONE takes effect - the connection may be closed anyway - is known when resume_next is asked for) */
	if (rc == HTTP_SRV_CB_NONE) cn->wait = 'N';
	LOGEV("\"e\":\"snt\",\"c\":%d,\"k\":%d,\"rc\":\"%c\",\"thr\":%d", cn->c, cn->curk, snd == 'D' ? 'D' : snd == 'N' ? 'N' : 'C', on_pool() ? 0 : 1);
	return rc;
}
static void cb_on_destroy(http_srv_cli_p cli, void *udata, http_srv_resp_p resp) {
	conn_t *cn = udata ? udata : conn_of_cli(cli); (void)resp;
	if (!cn || cn < &g_conn[1] || cn > &g_conn[MAXC] || cn->magic != CMAGIC) { LOGEV("\"e\":\"dst\",\"c\":0,\"cli\":%d", cli != NULL); return; }
	cn->ndestroy++; cn->alive = 0; cn->cli = NULL;
	LOGEV("\"e\":\"dst\",\"c\":%d,\"cli\":%d,\"thr\":%d", cn->c, cli != NULL, on_pool() ? 0 : 1);
}

/* ------------------------------------------------------------------ run something on the pool thread */
typedef struct { void (*fn)(void *); void *arg; sem_t done; } preq_t;
static void pool_tramp(tpt_p tpt, void *u) { (void)tpt; preq_t *r = u; r->fn(r->arg); sem_post(&r->done); }
static int run_on_pool(void (*fn)(void *), void *arg) {
	preq_t r; r.fn = fn; r.arg = arg; sem_init(&r.done, 0, 0);
	int e = tpt_msg_send(g_tpt0, NULL, 0, pool_tramp, &r);
	if (e != 0) { fprintf(stderr, "tpt_msg_send: %d\n", e); exit(3); }
	struct timespec ts; clock_gettime(CLOCK_REALTIME, &ts); ts.tv_sec += 20;
	while (sem_timedwait(&r.done, &ts) != 0) { if (errno == EINTR) continue; on_signal(SIGALRM); }
	return 0;
}
static void p_noop(void *v) { (void)v; }
static sem_t g_hold_sem; static preq_t g_hold_req; static int g_held;
static void p_hold(void *v) { (void)v; while (sem_wait(&g_hold_sem) != 0 && errno == EINTR) { } }
static void hold_pool(void) {       /* the pool thread sits in a message callback until "release": stimuli pile up unseen */
	if (g_held) return;
	sem_init(&g_hold_sem, 0, 0); g_hold_req.fn = p_hold; g_hold_req.arg = NULL; sem_init(&g_hold_req.done, 0, 0);
	if (0 != tpt_msg_send(g_tpt0, NULL, 0, pool_tramp, &g_hold_req)) exit(3);
	g_held = 1;
}
static void release_pool(void) {
	if (!g_held) return;
	sem_post(&g_hold_sem);
	struct timespec ts; clock_gettime(CLOCK_REALTIME, &ts); ts.tv_sec += 20;
	while (sem_timedwait(&g_hold_req.done, &ts) != 0) { if (errno == EINTR) continue; on_signal(SIGALRM); }
	g_held = 0;
}
/* the registrations of every live connection, as the pool sees them right now */
static void p_state(void *v) {
	(void)v;
	char pth[64], bf[16384]; size_t bn = 0;
	snprintf(pth, sizeof(pth), "/proc/self/fdinfo/%d", (int)g_tpt0->io_fd);
	FILE *f = fopen(pth, "r"); if (f) { bn = fread(bf, 1, sizeof(bf) - 1, f); fclose(f); } bf[bn] = 0;
	for (int i = 1; i <= MAXC; i++) {
		conn_t *cn = &g_conn[i];
		if (cn->magic != CMAGIC || !cn->alive || !cn->cli || !cn->cli->tptask) continue;
		tp_task_p t = cn->cli->tptask;
		uint64_t tm = t->tp_timer.tpdata;
		const char *io = "-";                       /* ground truth: the kernel's registration list of the pool's epoll descriptor */
		for (char *ln = bf; ln && *ln; ln = strchr(ln, '\n'), ln = ln ? ln + 1 : NULL) {
			int tfd0 = -1; unsigned evs = 0;
			if (2 == sscanf(ln, "tfd: %d events: %x", &tfd0, &evs) && tfd0 == cn->sfd) io = (evs & EPOLLOUT) ? "W" : (evs & EPOLLIN) ? "R" : "-";
		}
		int tfd = TPDATA_TFD_GET(tm), tarmed = (tm != 0 && tfd > 0 && tfd < 4096 && 0 == (tm & TPDATA_F_DISABLED)) ? g_tmr_armed[tfd] : 0;
		LOGEV("\"e\":\"state\",\"c\":%d,\"io\":\"%s\",\"tmr\":%d,\"used\":%zu,\"size\":%zu", cn->c, io, tarmed, cn->cli->rcv_buf->used, cn->cli->rcv_buf->size);
	}
}
#include <sys/ioctl.h>
/* loopback delivery is not synchronous with the client's send()/shutdown(): wait (bounded) until the bytes / the FIN are
 * visible on the accepted socket, then the two round trips order the server's reaction before the next stimulus */
static void wait_delivered(conn_t *cn) {
	for (int i = 0; i < 400; i++) {
		if (!cn->sfd_open) return;
		int inq = 0, fin = 1;
		if (0 != ioctl(cn->sfd, FIONREAD, &inq)) return;
		if (cn->cli_fin) { struct pollfd pf = { cn->sfd, POLLRDHUP | POLLHUP | POLLERR, 0 }; fin = (poll(&pf, 1, 0) > 0) ? 1 : 0; }
		if (cn->srv_rx + inq >= cn->cli_tx && fin) return;
		usleep(500);
	}
	LOGEV("\"e\":\"script.miss\",\"what\":\"delivery-not-seen\",\"c\":%d", cn->c);
}
static void sync_pool(int with_state) {
	if (!g_tp || g_held) return;
	run_on_pool(p_noop, NULL);
	run_on_pool(with_state ? p_state : p_noop, NULL);
}

static void p_resume(void *v) {
	conn_t *cn = v;
	if (!cn->alive || !cn->cli || cn->wait != 'R') { LOGEV("\"e\":\"script.miss\",\"what\":\"resume-of-client-that-does-not-wait\",\"c\":%d", cn->c); return; }
	cn->wait = 0;
	int k = cn->curk; rq_t *q = &cn->rq[k];
	LOGEV("\"e\":\"api\",\"f\":\"resume\",\"c\":%d,\"k\":%d,\"status\":%d,\"blen\":%d,\"rclose\":%d", cn->c, k, q->status, q->blen, q->rclose);
	fill_response(cn, k, cn->cli, http_srv_cli_get_resp(cn->cli));
	int rc = http_srv_resume_responce(cn->cli);
	LOGEV("\"e\":\"api.ret\",\"f\":\"resume\",\"c\":%d,\"rc\":%d", cn->c, rc);
}
static void p_resume_next(void *v) {
	conn_t *cn = v;
	if (!cn->alive || !cn->cli || cn->wait != 'N') { LOGEV("\"e\":\"script.miss\",\"what\":\"resume_next-of-client-that-does-not-wait\",\"c\":%d", cn->c); return; }
	cn->wait = 0;
	LOGEV("\"e\":\"api\",\"f\":\"resume_next\",\"c\":%d", cn->c);
	int rc = http_srv_resume_next_request(cn->cli);
	LOGEV("\"e\":\"api.ret\",\"f\":\"resume_next\",\"c\":%d,\"rc\":%d", cn->c, rc);
}
static void p_cli_free(void *v) {
	conn_t *cn = v;
	if (!cn->alive || !cn->cli) { LOGEV("\"e\":\"script.miss\",\"what\":\"cli_free-of-dead-client\",\"c\":%d", cn->c); return; }
	LOGEV("\"e\":\"api\",\"f\":\"cli_free\",\"c\":%d", cn->c);
	http_srv_cli_free(cn->cli);
	LOGEV("\"e\":\"api.ret\",\"f\":\"cli_free\",\"c\":%d,\"rc\":0", cn->c);
}
static void p_timeout(void *v) {
	conn_t *cn = v;
	if (!cn->alive || !cn->cli || !cn->cli->tptask) { LOGEV("\"e\":\"script.miss\",\"what\":\"timeout-of-dead-client\",\"c\":%d", cn->c); return; }
	uint64_t tm = cn->cli->tptask->tp_timer.tpdata; int tfd = TPDATA_TFD_GET(tm);
	if (tm == 0 || tfd <= 0 || tfd >= 4096 || (tm & TPDATA_F_DISABLED) || !g_tmr_armed[tfd]) { LOGEV("\"e\":\"script.miss\",\"what\":\"timeout-timer-not-armed\",\"c\":%d", cn->c); return; }
	struct itimerspec v1; memset(&v1, 0, sizeof(v1)); v1.it_value.tv_nsec = 1;
	__real_timerfd_settime(tfd, 0, &v1, NULL);
}
static void p_bind_add(void *v) {
	int b = *(int *)v; http_srv_bind_settings_t bs; struct sockaddr_in *s4;
	skt_opts_t so; memcpy(&so, &g_srv->s.skt_opts, sizeof(so));
	/* the server keeps its options converted (msec / bytes); bind_add converts again: give the unconverted values */
	so.rcv_timeout = (uint64_t)g_cfg.rcvtmo; so.snd_timeout = (uint64_t)g_cfg.sndtmo; so.rcv_buf /= 1024; so.snd_buf /= 1024; so.rcv_lowat /= 1024; so.snd_lowat /= 1024;
	http_srv_bind_def_settings(&so, &bs);
	s4 = (struct sockaddr_in *)&bs.addr; s4->sin_family = AF_INET; s4->sin_addr.s_addr = htonl(INADDR_LOOPBACK);
	s4->sin_port = htons((uint16_t)g_bind[b].port);
	LOGEV("\"e\":\"api\",\"f\":\"bind_add\",\"b\":%d", b);
	http_srv_bind_p bnd = NULL;
	int rc = http_srv_bind_add(g_srv, &bs, NULL, NULL, &bnd);
	if (rc == 0) {
		g_bind[b].used = 1; g_bind[b].bnd = bnd; g_bind[b].alive = 1; g_bind[b].nfd = (int)bnd->tptasks_cnt;
		for (int k = 0; k < g_bind[b].nfd && k < 4; k++) { g_bind[b].fd[k] = (int)tp_task_ident_get(bnd->tptasks[k]); g_bind[b].fd_open[k] = 1; }
		if (g_bind[b].port == 0) {
			struct sockaddr_in sa; socklen_t sl = sizeof(sa);
			if (0 == getsockname(g_bind[b].fd[0], (struct sockaddr *)&sa, &sl)) g_bind[b].port = ntohs(sa.sin_port);
		}
	}
	LOGEV("\"e\":\"api.ret\",\"f\":\"bind_add\",\"b\":%d,\"rc\":\"%s\",\"nl\":%d,\"count\":%zu", b, ename(rc), rc == 0 ? g_bind[b].nfd : 0, http_srv_get_bind_count(g_srv));
}
static void p_bind_shutdown(void *v) {
	int b = *(int *)v;
	LOGEV("\"e\":\"api\",\"f\":\"bind_shutdown\",\"b\":%d", b);
	http_srv_bind_shutdown(g_bind[b].bnd);
	LOGEV("\"e\":\"api.ret\",\"f\":\"bind_shutdown\",\"b\":%d,\"rc\":\"0\",\"nl\":0,\"count\":%zu", b, http_srv_get_bind_count(g_srv));
}
static void p_bind_remove(void *v) {
	int b = *(int *)v;
	LOGEV("\"e\":\"api\",\"f\":\"bind_remove\",\"b\":%d", b);
	g_bind[b].alive = 0;
	http_srv_bind_remove(g_bind[b].bnd);
	g_bind[b].bnd = NULL;
	LOGEV("\"e\":\"api.ret\",\"f\":\"bind_remove\",\"b\":%d,\"rc\":\"0\",\"nl\":0,\"count\":%zu", b, http_srv_get_bind_count(g_srv));
}
static void p_srv_shutdown(void *v) {
	(void)v;
	LOGEV("\"e\":\"api\",\"f\":\"srv_shutdown\"");
	http_srv_shutdown(g_srv);
	LOGEV("\"e\":\"api.ret\",\"f\":\"srv_shutdown\",\"rc\":0");
}
static void p_srv_destroy(void *v) {
	(void)v;
	LOGEV("\"e\":\"api\",\"f\":\"srv_destroy\"");
	g_srv_alive = 0;
	for (int b = 1; b <= MAXB; b++) { g_bind[b].alive = 0; g_bind[b].bnd = NULL; }
	http_srv_destroy(g_srv);
	g_srv = NULL;
	LOGEV("\"e\":\"api.ret\",\"f\":\"srv_destroy\",\"rc\":0");
}
static void p_stat(void *v) {
	(void)v; http_srv_stat_t st;
	if (!g_srv_alive || 0 != http_srv_stat_get(g_srv, &st)) return;
	LOGEV("\"e\":\"stat\",\"connections\":%llu,\"requests\":%llu,\"timeouts\":%llu,\"errors\":%llu,\"http_errors\":%llu,\"binds\":%zu",
	    (unsigned long long)st.connections, (unsigned long long)st.requests_total, (unsigned long long)st.timeouts,
	    (unsigned long long)st.errors, (unsigned long long)st.http_errors, http_srv_get_bind_count(g_srv));
}

/* ------------------------------------------------------------------ client side */
static void client_read(conn_t *cn) {
	if (cn->cfd < 0 || cn->cclosed) return;
	for (;;) {
		if (cn->rxlen + 65536 > cn->rxcap) { cn->rxcap = cn->rxcap ? cn->rxcap * 2 : 131072; cn->rx = realloc(cn->rx, cn->rxcap); if (!cn->rx) abort(); }
		ssize_t r = __real_recv(cn->cfd, cn->rx + cn->rxlen, 65536, MSG_DONTWAIT);
		if (r > 0) { cn->rxlen += (size_t)r; continue; }
		if (r == 0) { cn->rxeof = 1; break; }
		if (errno == EINTR) continue;
		if (errno != EAGAIN) cn->rxerr = errno;
		break;
	}
}
/* final read: loopback delivery lags behind the server's send()/close(): wait (bounded) for what the ledger says was sent */
static void client_read_final(conn_t *cn) {
	if (cn->cfd < 0 || cn->cclosed) return;
	for (int i = 0; i < 600; i++) {
		client_read(cn);
		if (cn->rxerr) break;
		if ((long)cn->rxlen >= cn->srv_tx && (cn->sfd_open || cn->sfd < 0 || cn->rxeof)) break;
		struct pollfd pf = { cn->cfd, POLLIN, 0 };
		poll(&pf, 1, 2);
	}
}
/* independent parse of what the client received:
 * [status, "close"|"ka"|"none", request number from X-Req (0 = none), Content-Length, body ok, version, well-formed] */
static void client_report(conn_t *cn) {
	char out[8192]; int on = 0; size_t o = 0; int nresp = 0;
	out[0] = 0;
	while (o < cn->rxlen) {
		uint8_t *p = cn->rx + o; size_t left = cn->rxlen - o;
		int vmaj = 0, vmin = 0, status = 0; long clen = -1; int k = 0, ok = 1, wf = 1; const char *conn = "none";
		char st[64]; size_t sn = left < sizeof(st) - 1 ? left : sizeof(st) - 1;
		memcpy(st, p, sn); st[sn] = 0;
		if (3 != sscanf(st, "HTTP/%d.%d %d", &vmaj, &vmin, &status)) break;
		uint8_t *he = memmem(p, left, "\r\n\r\n", 4);
		uint8_t *hp = memmem(p, left, "<html>", 6);
		size_t hl, total;
		if (hp != NULL && (he == NULL || hp < he)) {          /* the page starts inside the header block: no blank line */
			uint8_t *pe = memmem(hp, left - (size_t)(hp - p), "</html>\r\n", 9);
			if (!pe && !cn->rxeof && !cn->rxerr) break;
			wf = 0; hl = (size_t)(hp - p); total = pe ? (size_t)(pe - p) + 9 : left;   /* (a cut page at the end of the stream) */
		} else if (!he) {                                     /* neither a blank line nor a page: garbage up to the end of the stream */
			if ((!cn->rxeof && !cn->rxerr) || status < 400 || !memmem(p, left, "Pragma: no-cache\r\n", 18)) break;   /* (a cut response) */
			wf = 0; hl = left; total = left;
		} else {
			hl = (size_t)(he - p) + 4; total = 0;
		}
		char hdr[4096]; size_t hn = hl < sizeof(hdr) - 1 ? hl : sizeof(hdr) - 1;
		memcpy(hdr, p, hn); hdr[hn] = 0;
		char *q = strcasestr(hdr, "\r\nContent-Length: "); if (q) clen = atol(q + 18);
		q = strcasestr(hdr, "\r\nX-Req: "); if (q) k = atoi(q + 9);
		if (strcasestr(hdr, "\r\nConnection: close\r\n")) conn = "close";
		else if (strcasestr(hdr, "\r\nConnection: keep-alive\r\n")) conn = "ka";
		if (wf) {
			if (clen < 0) break;
			if (left < hl + (size_t)clen) break;
			total = hl + (size_t)clen;
			uint8_t *b = p + hl;
			if (k > 0) { for (long j = 0; j < clen; j++) if (b[j] != resp_byte(k, (int)j)) { ok = 0; break; } }
			else if (clen > 0) ok = (clen > 20 && 0 == memcmp(b, "<html>", 6) && 0 == memcmp(b + clen - 9, "</html>\r\n", 9)) ? 1 : 0;
		}
		on += snprintf(out + on, sizeof(out) - (size_t)on, "%s[%d,\"%s\",%d,%ld,%d,%d,%d]", nresp ? "," : "", status, conn, k, clen, ok, vmaj * 10 + vmin, wf);
		nresp++; o += total;
		if (on > 7000) break;
	}
	LOGEV("\"e\":\"c.eos\",\"c\":%d,\"resps\":[%s],\"partial\":%zu,\"eof\":%d,\"rst\":%d,\"cclosed\":%d,\"unread\":%d", cn->c, out, cn->rxlen - o, cn->rxeof, cn->rxerr ? 1 : 0, cn->cclosed, cn->closed_unread);
}
static long parse_pos(conn_t *cn, const char *t) {
	/* N | all | K.h[+-N] | K.e[+-N] */
	if (!strcmp(t, "all")) return cn->slen;
	const char *dot = strchr(t, '.');
	if (!dot) return cn->spos + atol(t);
	int k = atoi(t); if (k < 1 || k > cn->nreq) die("send: request index");
	long base = 0; for (int i = 1; i < k; i++) base += cn->rq[i].tlen;
	long pos = base + ((dot[1] == 'h') ? cn->rq[k].hl : cn->rq[k].tlen);
	if (dot[2]) pos += atol(dot + 2);
	return pos;
}
static void parse_lims(char *t, long *arr, int *n) {
	*n = 0; char *save = NULL;
	for (char *it = strtok_r(t, ",", &save); it && *n < MAXLIM; it = strtok_r(NULL, ",", &save)) {
		if (!strcmp(it, "EAGAIN")) arr[(*n)++] = LIM_EAGAIN;
		else if (!strcmp(it, "ERR")) arr[(*n)++] = LIM_ERR;
		else arr[(*n)++] = atol(it);
	}
}

/* ------------------------------------------------------------------ scenario interpreter */
int main(int argc, char **argv) {
	if (argc < 3) die("usage: x05_drv <scenario> <trace.ndjson>");
	g_out_path = argv[2];
	signal(SIGSEGV, on_signal); signal(SIGBUS, on_signal); signal(SIGALRM, on_signal); signal(SIGABRT, on_signal);
	signal(SIGPROF, on_prof);
	signal(SIGPIPE, SIG_IGN);
	if (__sanitizer_set_death_callback) __sanitizer_set_death_callback(on_death);
	{	/* watchdog of the whole scenario: a scenario needs < 0.1 s; 5 s of CPU time of the process (a pool thread spinning inside the
		 * server; robust on a loaded machine) or 60 s of wall clock (a wait that never ends; the driver's own bounded waits give up after 20 s) -> event "hang" ends the trace */
		struct itimerval it; memset(&it, 0, sizeof(it)); it.it_value.tv_sec = 5;
		setitimer(ITIMER_PROF, &it, NULL);
		alarm(60);
	}
	FILE *sc = fopen(argv[1], "r");
	if (!sc) die("cannot open scenario");
	char line[4096];
	while (fgets(line, sizeof(line), sc)) {
		char cmd[64] = ""; int n = 0;
		if (line[0] == '#' || sscanf(line, "%63s%n", cmd, &n) < 1) continue;
		char *rest = line + n;
		if (!strcmp(cmd, "cfg")) {
			for (char *t = strtok(rest, " \t\n"); t; t = strtok(NULL, " \t\n")) {
				char *eq = strchr(t, '='); if (!eq) continue; *eq = 0; int v = atoi(eq + 1);
				if (!strcmp(t, "threads")) g_cfg.threads = v; else if (!strcmp(t, "init")) g_cfg.init = v;
				else if (!strcmp(t, "max")) g_cfg.max = v; else if (!strcmp(t, "snd")) g_cfg.snd = v;
				else if (!strcmp(t, "hdrs")) g_cfg.hdrs = v; else if (!strcmp(t, "reqconn")) g_cfg.reqconn = v;
				else if (!strcmp(t, "reqhost")) g_cfg.reqhost = v;
				else if (!strcmp(t, "respclose")) g_cfg.respclose = v; else if (!strcmp(t, "rcvtmo")) g_cfg.rcvtmo = v;
				else if (!strcmp(t, "sndtmo")) g_cfg.sndtmo = v; else if (!strcmp(t, "accfilter")) g_cfg.accfilter = v;
				else if (!strcmp(t, "reqcb")) g_cfg.reqcb = v; else if (!strcmp(t, "sndcb")) g_cfg.sndcb = v;
				else if (!strcmp(t, "dstcb")) g_cfg.dstcb = v; else if (!strcmp(t, "conncb")) g_cfg.conncb = v;
				else if (!strcmp(t, "server")) g_cfg.server = v;
				else die("cfg: unknown key");
			}
			tp_settings_t s; tp_settings_def(&s); s.threads_max = (size_t)g_cfg.threads; s.flags = 0;
			if (tp_create(&s, &g_tp) != 0) die("tp_create");
			if (tp_threads_create(g_tp, 0) != 0) die("tp_threads_create");
			g_tpt0 = tp_thread_get(g_tp, 0);
			for (int k = 0; k < 2000 && !tpt_is_running(g_tpt0); k++) usleep(1000);
			for (int k = 0; k < 2000 && TP_THREAD_STATE_RUNNING != g_tpt0->state; k++) usleep(1000);
			http_srv_settings_t hs;
			http_srv_def_settings(0, "x05/1.0", 0, &hs);
			if (!g_cfg.server) { hs.http_server_size = 0; hs.http_server[0] = 0; }
			hs.skt_opts.mask &= ~(uint32_t)SO_F_REUSEPORT; hs.skt_opts.bit_vals &= ~(uint32_t)SO_F_REUSEPORT;   /* one listening socket per bind */
			if (!g_cfg.accfilter) { hs.skt_opts.mask &= ~(uint32_t)SO_F_ACC_FILTER; hs.skt_opts.bit_vals &= ~(uint32_t)SO_F_ACC_FILTER; }
			hs.skt_opts.rcv_timeout = (uint64_t)g_cfg.rcvtmo; hs.skt_opts.snd_timeout = (uint64_t)g_cfg.sndtmo;
			hs.rcv_io_buf_init_size = (size_t)g_cfg.init; hs.rcv_io_buf_max_size = (size_t)g_cfg.max;
			hs.snd_io_buf_init_size = (size_t)g_cfg.snd; hs.hdrs_reserve_size = (size_t)g_cfg.hdrs;
			hs.req_p_flags = (g_cfg.reqconn ? HTTP_SRV_REQ_P_F_CONNECTION : 0) | (g_cfg.reqhost ? HTTP_SRV_REQ_P_F_HOST : 0);
			hs.resp_p_flags = HTTP_SRV_RESP_P_F_CONTENT_LEN | (g_cfg.server ? HTTP_SRV_RESP_P_F_SERVER : 0) | (g_cfg.respclose ? HTTP_SRV_RESP_P_F_CONN_CLOSE : 0);
			http_srv_cli_ccb_t ccb; memset(&ccb, 0, sizeof(ccb));
			if (g_cfg.reqcb) ccb.on_req_rcv = cb_on_req;
			if (g_cfg.sndcb) ccb.on_rep_snd = cb_on_snd;
			if (g_cfg.dstcb) ccb.on_destroy = cb_on_destroy;
			int rc = http_srv_create(g_tp, g_cfg.conncb ? cb_on_conn : NULL, &ccb, NULL, &hs, NULL, &g_srv);
			if (rc != 0) die("http_srv_create");
			g_srv_alive = 1;
			for (int i = 1; i <= MAXC; i++) { g_conn[i].c = i; g_conn[i].cfd = -1; g_conn[i].sfd = -1; g_conn[i].onconn = 'C'; }
			LOGEV("\"e\":\"create\",\"init\":%zu,\"max\":%zu,\"snd\":%zu,\"hdrs\":%zu,\"reqconn\":%d,\"respclose\":%d,\"rcvtmo\":%d,\"sndtmo\":%d,"
			    "\"accfilter\":%d,\"reqcb\":%d,\"sndcb\":%d,\"dstcb\":%d,\"conncb\":%d",
			    g_srv->s.rcv_io_buf_init_size, g_srv->s.rcv_io_buf_max_size, g_srv->s.snd_io_buf_init_size, g_srv->s.hdrs_reserve_size,
			    g_cfg.reqconn, g_cfg.respclose, g_cfg.rcvtmo ? 1 : 0, g_cfg.sndtmo ? 1 : 0, g_cfg.accfilter, g_cfg.reqcb, g_cfg.sndcb, g_cfg.dstcb, g_cfg.conncb);
		} else if (!g_tp) {
			die("cfg must come first");
		} else if (!strcmp(cmd, "bind")) {
			int b = 1; char opt[32] = ""; sscanf(rest, "%d %31s", &b, opt);
			if (b < 1 || b > MAXB) die("bind index");
			if (!strncmp(opt, "sameport=", 9)) g_bind[b].port = g_bind[atoi(opt + 9)].port;
			if (g_srv_alive) run_on_pool(p_bind_add, &b);
		} else if (!strcmp(cmd, "req")) {   /* req C K kind=.. pad=.. cl=.. bl=.. ver=.. conn=.. act=.. blen=.. rclose=.. snd=.. status=.. */
			int c = 0, k = 0, n2 = 0; sscanf(rest, "%d %d%n", &c, &k, &n2);
			if (c < 1 || c > MAXC || k < 1 || k > MAXRQ) die("req index");
			conn_t *cn = &g_conn[c]; rq_t *q = &cn->rq[k];
			memset(q, 0, sizeof(*q)); strcpy(q->kind, "GET"); q->ver = 11; strcpy(q->conn, "none"); q->act = 'C'; q->snd = 'C'; q->status = 200; q->bl = -1;
			for (char *t = strtok(rest + n2, " \t\n"); t; t = strtok(NULL, " \t\n")) {
				char *eq = strchr(t, '='); if (!eq) continue; *eq = 0; const char *v = eq + 1;
				if (!strcmp(t, "kind")) snprintf(q->kind, sizeof(q->kind), "%s", v); else if (!strcmp(t, "pad")) q->pad = atoi(v);
				else if (!strcmp(t, "cl")) q->cl = atoi(v); else if (!strcmp(t, "bl")) q->bl = atoi(v);
				else if (!strcmp(t, "ver")) q->ver = atoi(v); else if (!strcmp(t, "conn")) snprintf(q->conn, sizeof(q->conn), "%s", v);
				else if (!strcmp(t, "act")) q->act = v[0]; else if (!strcmp(t, "blen")) q->blen = atoi(v);
				else if (!strcmp(t, "rclose")) q->rclose = atoi(v); else if (!strcmp(t, "snd")) q->snd = v[0];
				else if (!strcmp(t, "status")) q->status = atoi(v);
				else die("req: unknown key");
			}
			if (q->bl < 0) q->bl = (!strcmp(q->kind, "POST") || !strcmp(q->kind, "UNKCL")) ? q->cl : 0;
			if (k > cn->nreq) cn->nreq = k;
		} else if (!strcmp(cmd, "onconn")) {
			int c = 0; char a[4] = "C"; sscanf(rest, "%d %3s", &c, a); if (c < 1 || c > MAXC) die("conn index");
			g_conn[c].onconn = a[0];
		} else if (!strcmp(cmd, "connect")) {
			int c = 0, b = 1; sscanf(rest, "%d %d", &c, &b);
			if (c < 1 || c > MAXC || b < 1 || b > MAXB) die("connect index");
			conn_t *cn = &g_conn[c];
			if (cn->magic == CMAGIC) die("connect twice");
			if (g_bind[b].port == 0) { LOGEV("\"e\":\"script.miss\",\"what\":\"connect-without-bind\",\"c\":%d", c); continue; }
			conn_build_stream(cn);
			cn->cfd = socket(AF_INET, SOCK_STREAM, 0);
			{ int one = 1; setsockopt(cn->cfd, IPPROTO_TCP, TCP_NODELAY, &one, sizeof(one)); }
			struct sockaddr_in sa; memset(&sa, 0, sizeof(sa)); sa.sin_family = AF_INET; sa.sin_addr.s_addr = htonl(INADDR_LOOPBACK);
			/* fix the local port first so that accept4 can tell which scripted client arrived */
			sa.sin_port = 0;
			if (bind(cn->cfd, (struct sockaddr *)&sa, sizeof(sa)) != 0) die("client bind");
			socklen_t sl = sizeof(sa); getsockname(cn->cfd, (struct sockaddr *)&sa, &sl); cn->cport = ntohs(sa.sin_port);
			char desc[4096]; int dn = 0; desc[0] = 0;
			for (int k = 1; k <= cn->nreq; k++) {
				rq_t *q = &cn->rq[k];
				dn += snprintf(desc + dn, sizeof(desc) - (size_t)dn, "%s{\"kind\":\"%s\",\"hl\":%d,\"cl\":%d,\"bl\":%d,\"ver\":%d,\"conn\":\"%s\"}", k > 1 ? "," : "",
				    q->kind, q->hl, q->cl, q->bl, q->ver, q->conn);
			}
			cn->magic = CMAGIC;
			LOGEV("\"e\":\"c.open\",\"c\":%d,\"b\":%d,\"reqs\":[%s]", c, b, desc);
			sa.sin_port = htons((uint16_t)g_bind[b].port);
			if (connect(cn->cfd, (struct sockaddr *)&sa, sizeof(sa)) != 0) { LOGEV("\"e\":\"c.connfail\",\"c\":%d,\"err\":\"%s\"", c, ename(errno)); cn->cclosed = 1; __real_close(cn->cfd); }
			sync_pool(0);
		} else if (!strcmp(cmd, "send")) {
			int c = 0; char pos[64] = "all"; sscanf(rest, "%d %63s", &c, pos);
			if (c < 1 || c > MAXC) die("conn index");
			conn_t *cn = &g_conn[c];
			if (cn->magic != CMAGIC || cn->cclosed) { LOGEV("\"e\":\"script.miss\",\"what\":\"send-on-closed-client\",\"c\":%d", c); continue; }
			long to = parse_pos(cn, pos); if (to > cn->slen) to = cn->slen;
			if (to > cn->spos) {
				ssize_t r = __real_send(cn->cfd, cn->stream + cn->spos, (size_t)(to - cn->spos), MSG_NOSIGNAL);
				LOGEV("\"e\":\"c.send\",\"c\":%d,\"len\":%zd", c, r);
				if (r > 0) { cn->spos += (int)r; cn->cli_tx += r; }
			}
			wait_delivered(cn);
			sync_pool(0);
		} else if (!strcmp(cmd, "shut")) {
			int c = atoi(rest); if (c < 1 || c > MAXC) die("conn index");
			if (g_conn[c].magic == CMAGIC && !g_conn[c].cclosed) { shutdown(g_conn[c].cfd, SHUT_WR); g_conn[c].cli_fin = 1; LOGEV("\"e\":\"c.shut\",\"c\":%d", c); wait_delivered(&g_conn[c]); }
			sync_pool(0);
		} else if (!strcmp(cmd, "shut_nosync")) {
			int c = atoi(rest); if (c < 1 || c > MAXC) die("conn index");
			if (g_conn[c].magic == CMAGIC && !g_conn[c].cclosed) { shutdown(g_conn[c].cfd, SHUT_WR); g_conn[c].cli_fin = 1; LOGEV("\"e\":\"c.shut\",\"c\":%d", c); wait_delivered(&g_conn[c]); }
		} else if (!strcmp(cmd, "send_nosync")) {
			int c = 0; char pos[64] = "all"; sscanf(rest, "%d %63s", &c, pos);
			if (c < 1 || c > MAXC) die("conn index");
			conn_t *cn = &g_conn[c];
			if (cn->magic != CMAGIC || cn->cclosed) continue;
			long to = parse_pos(cn, pos); if (to > cn->slen) to = cn->slen;
			if (to > cn->spos) {
				ssize_t r = __real_send(cn->cfd, cn->stream + cn->spos, (size_t)(to - cn->spos), MSG_NOSIGNAL);
				LOGEV("\"e\":\"c.send\",\"c\":%d,\"len\":%zd", c, r);
				if (r > 0) { cn->spos += (int)r; cn->cli_tx += r; }
			}
			wait_delivered(cn);
		} else if (!strcmp(cmd, "cclose") || !strcmp(cmd, "rst")) {
			int c = atoi(rest); if (c < 1 || c > MAXC) die("conn index");
			conn_t *cn = &g_conn[c];
			if (cn->magic == CMAGIC && !cn->cclosed) {
				client_read(cn);
				if (cmd[0] == 'r') { struct linger lg = { 1, 0 }; setsockopt(cn->cfd, SOL_SOCKET, SO_LINGER, &lg, sizeof(lg)); }
				__real_close(cn->cfd); cn->cclosed = 1; cn->cli_fin = 1;
				LOGEV("\"e\":\"c.%s\",\"c\":%d", cmd[0] == 'r' ? "rst" : "close", c);
				wait_delivered(cn);
			}
			sync_pool(0);
		} else if (!strcmp(cmd, "cread")) {
			int c = atoi(rest); if (c < 1 || c > MAXC) die("conn index");
			client_read(&g_conn[c]);
			sync_pool(0);
		} else if (!strcmp(cmd, "txlim") || !strcmp(cmd, "rxlim")) {
			int c = 0, n2 = 0; char lims[256] = ""; sscanf(rest, "%d %255s%n", &c, lims, &n2);
			if (c < 1 || c > MAXC) die("conn index");
			conn_t *cn = &g_conn[c];
			sync_pool(0);                                     /* the limits change between two handler runs, never inside one */
			if (cmd[0] == 't') { parse_lims(lims, cn->txl, &cn->ntxl); cn->itxl = 0; } else { parse_lims(lims, cn->rxl, &cn->nrxl); cn->irxl = 0; }
		} else if (!strcmp(cmd, "timeout")) {
			int c = atoi(rest); if (c < 1 || c > MAXC) die("conn index");
			run_on_pool(p_timeout, &g_conn[c]); sync_pool(0);
		} else if (!strcmp(cmd, "resume")) {
			int c = atoi(rest); if (c < 1 || c > MAXC) die("conn index");
			run_on_pool(p_resume, &g_conn[c]); sync_pool(0);
		} else if (!strcmp(cmd, "resume_next")) {
			int c = atoi(rest); if (c < 1 || c > MAXC) die("conn index");
			run_on_pool(p_resume_next, &g_conn[c]); sync_pool(0);
		} else if (!strcmp(cmd, "cli_free")) {
			int c = atoi(rest); if (c < 1 || c > MAXC) die("conn index");
			run_on_pool(p_cli_free, &g_conn[c]); sync_pool(0);
		} else if (!strcmp(cmd, "bind_shutdown")) {
			int b = atoi(rest); if (b < 1 || b > MAXB) die("bind index");
			if (g_srv_alive && g_bind[b].alive) run_on_pool(p_bind_shutdown, &b); else LOGEV("\"e\":\"script.miss\",\"what\":\"bind_shutdown\"");
		} else if (!strcmp(cmd, "bind_remove")) {
			int b = atoi(rest); if (b < 1 || b > MAXB) die("bind index");
			if (g_srv_alive && g_bind[b].alive) run_on_pool(p_bind_remove, &b); else LOGEV("\"e\":\"script.miss\",\"what\":\"bind_remove\"");
		} else if (!strcmp(cmd, "srv_shutdown")) {
			if (g_srv_alive) run_on_pool(p_srv_shutdown, NULL);
		} else if (!strcmp(cmd, "srv_destroy")) {
			if (g_srv_alive) run_on_pool(p_srv_destroy, NULL);
		} else if (!strcmp(cmd, "stat")) {
			if (g_srv_alive) run_on_pool(p_stat, NULL);
		} else if (!strcmp(cmd, "hold")) {
			hold_pool();
		} else if (!strcmp(cmd, "release")) {
			release_pool(); sync_pool(0);
		} else if (!strcmp(cmd, "sync")) {
			sync_pool(1);
		} else if (!strcmp(cmd, "epinfo")) {
			char pth[64], bf[4096]; snprintf(pth, sizeof(pth), "/proc/self/fdinfo/%d", (int)g_tpt0->io_fd);
			FILE *f = fopen(pth, "r"); if (f) { size_t k = fread(bf, 1, sizeof(bf) - 1, f); bf[k] = 0; fclose(f); fprintf(stderr, "%s\n", bf); }
		} else if (!strcmp(cmd, "sleep")) {
			usleep((useconds_t)atoi(rest) * 1000);
		} else if (!strcmp(cmd, "end")) {
			break;
		} else die("unknown scenario command");
	}
	fclose(sc);
	/* epilogue: quiesce, report what every client received, stop the pool, ledger */
	release_pool();
	sync_pool(1);
	for (int i = 1; i <= MAXC; i++) if (g_conn[i].magic == CMAGIC) { client_read_final(&g_conn[i]); client_report(&g_conn[i]); }
	if (g_srv_alive) run_on_pool(p_stat, NULL);
	int live = 0, openfd = 0, openl = 0;
	for (int i = 1; i <= MAXC; i++) if (g_conn[i].magic == CMAGIC) { live += g_conn[i].alive ? 1 : 0; openfd += g_conn[i].sfd_open ? 1 : 0; }
	for (int b = 1; b <= MAXB; b++) for (int k = 0; k < g_bind[b].nfd; k++) openl += g_bind[b].fd_open[k] ? 1 : 0;
	tp_shutdown(g_tp);
	tp_shutdown_wait(g_tp);
	tp_destroy(g_tp);
	g_tp = NULL;
	for (int i = 1; i <= MAXC; i++) {
		conn_t *cn = &g_conn[i];
		if (cn->magic == CMAGIC && !cn->cclosed) __real_close(cn->cfd);
		free(cn->rx); cn->rx = NULL; free(cn->stream); cn->stream = NULL; cn->cli = NULL;
		for (int k = 1; k <= cn->nreq; k++) { free(cn->rq[k].text); cn->rq[k].text = NULL; }
	}
	for (int b = 1; b <= MAXB; b++) g_bind[b].bnd = NULL;
	g_srv = NULL;    /* what the scenario did not destroy is unreachable now: the leak check counts it */
	int leaks = -1;
	if (__lsan_do_recoverable_leak_check) leaks = __lsan_do_recoverable_leak_check() ? 1 : 0;
	LOGEV("\"e\":\"fin\",\"live\":%d,\"openfd\":%d,\"openl\":%d,\"srv\":%d,\"leaks\":%d", live, openfd, openl, g_srv_alive ? 1 : 0, leaks);
	g_flushed = 1;
	flush_log();
	fflush(stderr);
	_exit(0);
}
