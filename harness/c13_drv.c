/* Conformance driver for C13 (network parsers on hostile packets).
 *
 *   c13_drv <heap|ghi|glo> [max-crashes]   < cases   > answers
 *
 * One case per stdin line:  "<op> <hex-input|-> [int args...]".  For every case the driver places
 * the input (and every output buffer) in an exact-size block, calls the real parser(s) of /repo
 * and checks EVERY returned pointer/length against the input span itself ("span=<fn>/<field>").
 * Buffer placement (argv[1]):
 *   heap  malloc(n) exactly - for the clang ASan+UBSan build (red zones on both sides)
 *   ghi   the block ENDS flush against a PROT_NONE page (reading buf[n] faults), no sanitizer
 *   glo   the block STARTS directly after a PROT_NONE page (reading buf[-1] faults)
 * Crash isolation: the parent forks a worker that runs cases in order and publishes the index
 * and the library function it is inside in shared memory.  When the worker dies (sanitizer
 * abort, wild SIGSEGV) the parent prints
 *   "X <idx> fn=<function> st=<sig|exit code>"  after the worker's report and forks a new
 * worker for the remaining cases.  "T <idx>": case not run, the crash budget of its op (argv[2] worker
 * deaths per op name) is used up.
 * Watchdog: 1 s of CPU time per case (ITIMER_VIRTUAL; 10 s wall clock as a backstop).  A case that runs into it is
 * reported as "FAULT sig=26 ..." / "X <idx> ... st=fault" and the worker carries on (the parsers hold no locks).
 * A line may end in "@<class>": after 3 watchdog hits in one class the remaining cases of that class are
 * answered "T <idx>" (not run) so that a non-terminating parser costs seconds, not the whole run.
 * Answers are "R <idx> <op> k=v ...".  Ops with several library calls take a phase argument so that one
 * faulting call does not hide the calls after it.
 */
#include <sys/param.h>
#include <sys/types.h>
#include <sys/wait.h>
#include <sys/mman.h>
#include <inttypes.h>
#include <errno.h>
#include <stdio.h>
#include <stdlib.h>
#include <string.h>
#include <signal.h>
#include <unistd.h>
#include <ucontext.h>
#include <setjmp.h>
#include <sys/time.h>

#include "utils/macro.h"
#include "utils/mem_utils.h"
#include "proto/dns.h"
#include "proto/radius.h"
#include "proto/dhcpv4.h"
#include "proto/http.h"
#include "proto/sdp.h"
#include "proto/sap.h"
#include "proto/rtp.h"
#include "proto/mpeg2ts.h"

#if defined(__has_feature)
#  if __has_feature(address_sanitizer)
#    include <sanitizer/asan_interface.h>
#    define HAVE_ASAN 1
#  endif
#endif

/* ------------------------------------------------------------------ shared progress record */
#define NOPS 24
#define NCLS 512
#define TMO_PER_CLASS 3
typedef struct { volatile long idx; char fn[96]; char op[32]; char ops[NOPS][32]; long crashes[NOPS];
	char cls[NCLS][48]; int tmo[NCLS]; int cur_cls; } shm_t;
static shm_t *shm;
#define FN(name) do { strncpy(shm->fn, (name), sizeof(shm->fn) - 1); } while (0)

/* ------------------------------------------------------------------ exact-size buffers */
enum { M_HEAP, M_GHI, M_GLO };
static int mode = M_HEAP;
#define NSLOT 6
#define SLOT_CAP (1u << 20)
static struct { uint8_t *base; uint8_t *guard; uint8_t *cur; size_t n; } slot[NSLOT];
static size_t pgsz;

static void slots_init(void) {
	pgsz = (size_t)sysconf(_SC_PAGESIZE);
	for (int i = 0; i < NSLOT; i++) {
		size_t len = SLOT_CAP + 2 * pgsz;
		uint8_t *b = mmap(NULL, len, PROT_READ | PROT_WRITE, MAP_PRIVATE | MAP_ANONYMOUS, -1, 0);
		if (b == MAP_FAILED) abort();
		slot[i].base = b;
		if (mode == M_GHI) { slot[i].guard = b + pgsz + SLOT_CAP; }
		else { slot[i].guard = b; }
		mprotect(slot[i].guard, pgsz, PROT_NONE);
	}
}
/* buffer of exactly n bytes in slot s, filled with 0xA5 */
static uint8_t *xbuf(int s, size_t n) {
	uint8_t *p;
	if (mode == M_HEAP) {
		free(slot[s].cur);
		p = malloc(n ? n : 1);
		if (!p) abort();
		memset(p, 0xA5, n ? n : 1);
#ifdef HAVE_ASAN
		if (n == 0) __asan_poison_memory_region(p, 1);
#endif
		slot[s].cur = p; slot[s].n = n;
		return p;
	}
	if (n > SLOT_CAP) abort();
	p = (mode == M_GHI) ? slot[s].guard - n : slot[s].guard + pgsz;
	memset(p, 0xA5, n);
	slot[s].cur = p; slot[s].n = n;
	return p;
}
static uint8_t *xdup(int s, const uint8_t *src, size_t n) {
	uint8_t *p = xbuf(s, n);
	if (n) memcpy(p, src, n);
	return p;
}

/* ------------------------------------------------------------------ fault reporting (guard builds) */
static sigjmp_buf fault_jb; static volatile int fault_jb_armed; static char fault_msg[400];
static void on_fault(int sig, siginfo_t *si, void *uc_) {
	char msg[400]; const char *where = "wild"; long off = 0; int acc = 'r', n;
#if defined(__x86_64__)
	ucontext_t *uc = uc_;
	if (uc && (uc->uc_mcontext.gregs[REG_ERR] & 2)) acc = 'w';
#else
	(void)uc_;
#endif
	if (sig == SIGSEGV || sig == SIGBUS) {
		uint8_t *a = si->si_addr;
		for (int i = 0; i < NSLOT; i++) {
			if (slot[i].guard && a >= slot[i].guard && a < slot[i].guard + pgsz && slot[i].cur) {
				if (mode == M_GHI) { where = "after"; off = (long)(a - (slot[i].cur + slot[i].n)); }
				else { where = "before"; off = (long)(slot[i].cur - a); }
			}
		}
	}
	n = snprintf(msg, sizeof(msg), "\nFAULT sig=%d acc=%c where=%s off=%ld fn=%s\n", sig, acc, where, off, shm->fn);
	/* guard builds recover in-process (no locks are held inside the parsers); anything else ends the worker */
	if (fault_jb_armed && (sig == SIGVTALRM || sig == SIGALRM || (mode != M_HEAP && strcmp(where, "wild") != 0))) {
		memcpy(fault_msg, msg, sizeof(fault_msg));
		fault_jb_armed = 0;
		siglongjmp(fault_jb, 1);
	}
	if (n > 0) (void)!write(1, msg, (size_t)n);
	_exit(99);
}
static void install_handlers(void) {
	struct sigaction sa;
	memset(&sa, 0, sizeof(sa));
	sa.sa_sigaction = on_fault; sa.sa_flags = SA_SIGINFO;
	sigaction(SIGALRM, &sa, NULL);
	sigaction(SIGVTALRM, &sa, NULL);
	sigaction(SIGFPE, &sa, NULL);
	if (mode != M_HEAP) { sigaction(SIGSEGV, &sa, NULL); sigaction(SIGBUS, &sa, NULL); }
}

/* ------------------------------------------------------------------ span checks */
static char span_msg[160];
static void span_fail(const char *fn, const char *field) {
	if (!span_msg[0]) snprintf(span_msg, sizeof(span_msg), "%s/%s", fn, field);
}
/* [p, p+len) must lie inside [b, b+n]; a NULL p with len 0 is "nothing returned" */
static void chk_span(const char *fn, const char *field, const uint8_t *b, size_t n, const void *p_, size_t len) {
	const uint8_t *p = p_;
	if (p == NULL) { if (len != 0) span_fail(fn, field); return; }
	if (p < b || p > b + n || len > n || (size_t)(p - b) + len > n) span_fail(fn, field);
}
static void chk_le(const char *fn, const char *field, size_t v, size_t lim) { if (v > lim) span_fail(fn, field); }

static int hexval(int c) { return (c >= '0' && c <= '9') ? c - '0' : (c >= 'a' && c <= 'f') ? c - 'a' + 10 : (c >= 'A' && c <= 'F') ? c - 'A' + 10 : -1; }
static uint8_t *parse_hex(const char *s, size_t *n_ret) {
	size_t n = (s[0] == '-' ) ? 0 : strlen(s) / 2;
	uint8_t *p = malloc(n + 1);
	for (size_t i = 0; i < n; i++) p[i] = (uint8_t)(hexval(s[2 * i]) * 16 + hexval(s[2 * i + 1]));
	*n_ret = n; return p;
}
static void puthex(const uint8_t *p, size_t n) { if (!n) { fputs("-", stdout); return; } for (size_t i = 0; i < n; i++) printf("%02x", p[i]); }

/* ------------------------------------------------------------------ DNS */
/* cap > 0: dns_msg_sequence_of_labels2name into a cap byte buffer; cap == 0: ..._get_name_len */
static void op_dns_name(const uint8_t *in, size_t n, long off, long cap) {
	uint8_t *m = xdup(0, in, n);
	size_t len = (size_t)-1; int rc;
	if (cap > 0) {
		uint8_t *name = xbuf(1, (size_t)cap);
		FN("dns_msg_sequence_of_labels2name");
		rc = dns_msg_sequence_of_labels2name((dns_hdr_p)m, n, (size_t)off, name, (size_t)cap, &len);
		if (rc == 0) { if (len >= (size_t)cap) span_fail("dns_msg_sequence_of_labels2name", "name_len"); else if (name[len] != 0) span_fail("dns_msg_sequence_of_labels2name", "no-NUL"); }
		printf(" rc=%d len=%zd name=", rc, (ssize_t)len);
		puthex(name, (rc == 0 && len < (size_t)cap) ? len : 0);
	} else {
		FN("dns_msg_sequence_of_labels_get_name_len");
		rc = dns_msg_sequence_of_labels_get_name_len((dns_hdr_p)m, n, (size_t)off, &len);
		printf(" rc=%d len=%zd", rc, (ssize_t)len);
	}
}
static void op_dns_lbl(const uint8_t *in, size_t n, long ph) {
	uint8_t *b = xdup(0, in, n);
	size_t sz = (size_t)-1, nl = (size_t)-1, cap = (n > 1) ? n - 1 : 1; int rc;
	if (ph == 0) {
		FN("SequenceOfLabelsGetSize");
		rc = SequenceOfLabelsGetSize(b, n, &sz);
		if (rc == 0) chk_le("SequenceOfLabelsGetSize", "name_size", sz, n);
		printf(" rc=%d size=%zd", rc, (ssize_t)sz);
	} else {
		uint8_t *name = xbuf(1, cap);
		FN("SequenceOfLabelsToDomainName");
		rc = SequenceOfLabelsToDomainName(b, n, name, cap, &nl);
		if (rc == 0) chk_le("SequenceOfLabelsToDomainName", "name_len", nl, n);
		printf(" rc=%d", rc);
	}
}
static void dns_follow_rr(uint8_t *m, size_t n, size_t off, size_t *next) {
	uint8_t *name = xbuf(1, 300); size_t nl = 300, rrs = 0; uint16_t t = 0, c = 0, ds = 0; uint32_t ttl = 0; void *data = NULL; int rc;
	FN("dns_msg_rr_get_data");
	rc = dns_msg_rr_get_data((dns_hdr_p)m, n, off, name, &nl, &t, &c, &ttl, &ds, &data, &rrs);
	if (data != NULL) chk_span("dns_msg_rr_get_data", "rdata", m, n, data, ds);
	if (rc == 0) { chk_le("dns_msg_rr_get_data", "rr_size", off + rrs, n); chk_le("dns_msg_rr_get_data", "name_len", nl, 299); }
	*next = (rrs != 0 && off + rrs <= n) ? off + rrs : 0;
}
static void dns_follow_q(uint8_t *m, size_t n, size_t off, size_t *next) {
	uint8_t *name = xbuf(1, 300); size_t nl = 300, qs = 0; uint16_t t = 0, c = 0; int rc;
	FN("dns_msg_question_get_data");
	rc = dns_msg_question_get_data((dns_hdr_p)m, n, off, name, &nl, &t, &c, &qs);
	if (rc == 0) { chk_le("dns_msg_question_get_data", "question_size", off + qs, n); chk_le("dns_msg_question_get_data", "name_len", nl, 299); }
	*next = (qs != 0 && off + qs <= n) ? off + qs : 0;
}
/* ph 0: dns_msg_info_get; 1: question at 12; 2: RR at 12; 3: everything a resolver does after a successful validation */
static void op_dns_msg(const uint8_t *in, size_t n, long ph) {
	uint8_t *m = xdup(0, in, n);
	size_t qd = 0, an = 0, ns = 0, ar = 0, cnt = 0, msz = 0, nx, off; int rc;
	if (ph == 1) { if (n >= 12) dns_follow_q(m, n, 12, &nx); printf(" ok=1"); return; }
	if (ph == 2) { if (n >= 12) dns_follow_rr(m, n, 12, &nx); printf(" ok=1"); return; }
	FN("dns_msg_info_get");
	rc = dns_msg_info_get((dns_hdr_p)m, n, &qd, &an, &ns, &ar, &cnt, &msz);
	if (rc == 0) {
		chk_le("dns_msg_info_get", "msg_size", msz, n);
		if (!(qd == 12 && qd <= an && an <= ns && ns <= ar && ar <= msz)) span_fail("dns_msg_info_get", "section-offsets");
	}
	printf(" rc=%d qd=%zu an=%zu ns=%zu ar=%zu cnt=%zu msz=%zu", rc, qd, an, ns, ar, cnt, msz);
	if (rc == 0 && ph == 3) {
		size_t i, k, sz2;
		FN("dns_msg_size_get");
		sz2 = dns_msg_size_get((dns_hdr_p)m, n);
		if (sz2 != msz) span_fail("dns_msg_size_get", "differs");
		for (off = qd, i = 0; i < 8 && off != 0 && off < an; i++) { dns_follow_q(m, n, off, &nx); off = nx; }
		for (off = an, i = 0; i < 8 && off != 0 && off < msz; i++) { dns_follow_rr(m, n, off, &nx); off = nx; }
		{ /* search by name through the counted records */
			size_t o = an, rc_cnt = (cnt > 8) ? 8 : cnt, rrs = 0; uint16_t t = 0, c = 0, ds = 0; uint32_t ttl = 0; void *data = NULL;
			FN("dns_msg_rr_find");
			k = (size_t)dns_msg_rr_find((dns_hdr_p)m, n, &o, &rc_cnt, (const uint8_t*)"a", 1, &t, &c, &ttl, &ds, &data, &rrs);
			chk_le("dns_msg_rr_find", "offset", o, n);
			if (k == 0) { chk_span("dns_msg_rr_find", "rdata", m, n, data, ds); chk_le("dns_msg_rr_find", "rr_size", o + rrs, n); }
		}
	}
}

/* ------------------------------------------------------------------ RADIUS */
/* ph 0: radius_pkt_chk only; on accepted packets: 1 attribute access at every attribute, 2 the same at the
 * end position, 3 find, 4 collect values, 5 message authenticator + verify, 6 message authenticator check aimed at
 * every attribute boundary (the offset != 0 entry), 7 collect the values of the LAST attribute's type into buffers of
 * 253 / exactly its size / one less */
static void op_rad(const uint8_t *in, size_t n, long ph) {
	uint8_t *p = xdup(0, in, n);
	int rc; size_t L = 0, off, nb = 0; static size_t bounds[2100];
	FN("radius_pkt_chk");
	rc = radius_pkt_chk((rad_pkt_hdr_p)p, n);
	printf(" rc=%d", rc);
	if (rc != 0) return;
	L = ((size_t)p[2] << 8) | p[3];
	printf(" len=%zu", L);
	if (L > n || L < 20) { span_fail("radius_pkt_chk", "accepted-length"); return; }
	/* the attribute functions take no size: their message is the first L bytes, exactly */
	p = xdup(0, in, L);
	for (off = 20; off < L && nb < 2090; ) {           /* attribute boundaries (chk passed, so they tile) */
		bounds[nb++] = off;
		if (off + 2 > L || p[off + 1] < 2) { span_fail("radius_pkt_chk", "accepted-bad-attr"); return; }
		off += p[off + 1];
	}
	if (off != L) { span_fail("radius_pkt_chk", "accepted-overrun"); return; }
	bounds[nb++] = L;                                 /* the position after the last attribute */
	if (ph == 0) return;
	for (size_t i = 0; i < nb && ph <= 3; i++) {
		rad_pkt_attr_p a = NULL; uint8_t t = 0, *d = NULL; size_t dl = 0, o2 = 0; int r;
		static const uint8_t types[] = { 1, 2, 26, 80, 200 };
		if ((ph == 1 && i == nb - 1) || (ph == 2 && i != nb - 1)) continue;
		if (ph == 3) goto find;
		FN("radius_pkt_attr_get_from_offset");
		r = radius_pkt_attr_get_from_offset((rad_pkt_hdr_p)p, bounds[i], &a);
		if (r == 0) { chk_span("radius_pkt_attr_get_from_offset", "attr-hdr", p, L, a, 2);
			if (!span_msg[0] && (uint8_t*)a + 2 <= p + L) chk_span("radius_pkt_attr_get_from_offset", "attr", p, L, a, a->len); }
		FN("radius_pkt_attr_get_data_ptr");
		r = radius_pkt_attr_get_data_ptr((rad_pkt_hdr_p)p, bounds[i], &t, &d, &dl);
		if (r == 0) chk_span("radius_pkt_attr_get_data_ptr", "data", p, L, d, dl);
		continue;
find:
		for (size_t k = 0; k < sizeof(types); k++) {
			a = NULL; o2 = 0;
			FN("radius_pkt_attr_find_raw");
			r = radius_pkt_attr_find_raw((rad_pkt_hdr_p)p, (i == 0) ? 0 : bounds[i], types[k], &a, &o2);
			if (r == 0) { chk_span("radius_pkt_attr_find_raw", "attr", p, L, a, 2); chk_le("radius_pkt_attr_find_raw", "offset", o2 + 2, L); }
		}
	}
	if (ph == 4) {
		static const uint8_t types[] = { 1, 2, 80 };
		for (size_t k = 0; k < sizeof(types); k++) {
			uint8_t *out = xbuf(1, 40); size_t got = 0;
			FN("radius_pkt_attr_get_data_to_buf");
			radius_pkt_attr_get_data_to_buf((rad_pkt_hdr_p)p, 0, 0, types[k], out, 40, &got);
			chk_le("radius_pkt_attr_get_data_to_buf", "size", got, 40);
		}
	}
	if (ph == 6) {
		uint8_t key[1] = { 'k' };
		for (size_t i = 0; i < nb; i++) {
			size_t o = 0;
			FN("radius_pkt_attr_msg_authenticator_chk");
			radius_pkt_attr_msg_authenticator_chk((rad_pkt_hdr_p)p, bounds[i], key, 1, 0, NULL, &o);
			chk_le("radius_pkt_attr_msg_authenticator_chk", "offset", o, L);
		}
	}
	if (ph == 7 && nb >= 2) {
		size_t lo = bounds[nb - 2], dl = (size_t)p[lo + 1] - 2, caps[3] = { 253, dl, dl ? dl - 1 : 0 };
		uint8_t t = p[lo];
		for (size_t k = 0; k < 3; k++) {
			uint8_t *out = xbuf(1, caps[k]); size_t got = 0;
			FN("radius_pkt_attr_get_data_to_buf");
			radius_pkt_attr_get_data_to_buf((rad_pkt_hdr_p)p, 0, 0, t, out, caps[k], &got);
			chk_le("radius_pkt_attr_get_data_to_buf", "size", got, caps[k]);
		}
	}
	if (ph == 5) {
		size_t o = 0; uint8_t key[1] = { 'k' };
		FN("radius_pkt_attr_msg_authenticator_chk");
		radius_pkt_attr_msg_authenticator_chk((rad_pkt_hdr_p)p, 0, key, 1, 0, NULL, &o);
		chk_le("radius_pkt_attr_msg_authenticator_chk", "offset", o, L);
		FN("radius_pkt_verify");
		radius_pkt_verify((rad_pkt_hdr_p)p, key, 1, NULL);
	}
}

/* radius_pkt_attr_password_decode called directly: enc = exactly n received octets; variant 0 = in place (buf = enc,
 * buf_size = n: what radius_pkt_verify does inside the received packet), else a separate exact-size buffer of cap */
static void op_rad_pw(const uint8_t *in, size_t n, long variant, long cap) {
	uint8_t a16[16], key[1] = { 'k' }, *enc, *auth, *buf; size_t out = (size_t)-1; int rc;
	memset(a16, 0x11, sizeof(a16));
	enc = xdup(0, in, n); auth = xdup(2, a16, 16);
	if (variant == 0) { buf = enc; cap = (long)n; } else buf = xbuf(1, (size_t)cap);
	FN("radius_pkt_attr_password_decode");
	rc = radius_pkt_attr_password_decode(auth, enc, n, key, 1, buf, (size_t)cap, &out);
	printf(" rc=%d out=%zd cap=%ld", rc, (ssize_t)out, cap);
}

/* ------------------------------------------------------------------ DHCPv4 */
static void op_dhcp(const uint8_t *in, size_t n) {
	uint8_t *p = xdup(0, in, n);
	FN("dhcp4_hdr_check");
	printf(" rc=%d", dhcp4_hdr_check(p, n));
}

/* ------------------------------------------------------------------ HTTP */
static void op_http_req(const uint8_t *in, size_t n) {
	uint8_t *b = xdup(0, in, n); http_req_line_data_t d; int rc;
	memset(&d, 0, sizeof(d));
	FN("http_parse_req_line");
	rc = http_parse_req_line(b, n, &d);
	if (rc == 0) {
		chk_le("http_parse_req_line", "line_size", d.line_size, n);
		chk_span("http_parse_req_line", "method", b, n, d.method, d.method_size);
		chk_span("http_parse_req_line", "uri", b, n, d.uri, d.uri_size);
		chk_span("http_parse_req_line", "scheme", b, n, d.scheme, d.scheme_size);
		chk_span("http_parse_req_line", "host", b, n, d.host, d.host_size);
		chk_span("http_parse_req_line", "abs_path", b, n, d.abs_path, d.abs_path_size);
		chk_span("http_parse_req_line", "query", b, n, d.query, d.query_size);
	}
	printf(" rc=%d line=%zu", rc, d.line_size);
}
static void op_http_resp(const uint8_t *in, size_t n) {
	uint8_t *b = xdup(0, in, n); http_resp_line_data_t d; int rc;
	memset(&d, 0, sizeof(d));
	FN("http_parse_resp_line");
	rc = http_parse_resp_line(b, n, &d);
	if (rc == 0) { chk_le("http_parse_resp_line", "line_size", d.line_size, n);
		chk_span("http_parse_resp_line", "reason_phrase", b, n, d.reason_phrase, d.reason_phrase_size); }
	printf(" rc=%d line=%zu", rc, d.line_size);
}
/* ph 0: value search loop + count; 1: http_req_sec_chk; 2: http_hdr_val_remove */
static void op_http_hdr(const uint8_t *in, size_t n, long ph) {
	uint8_t *b = xdup(0, in, n), *c1, *c2; size_t off = 0, cnt = 0, iter, newsz = n, removed; int rc = 0, sec;
	if (ph == 1) {
		FN("http_req_sec_chk");
		sec = http_req_sec_chk(b, n, HTTP_REQ_METHOD_GET);
		printf(" sec=%d", sec); return;
	}
	if (ph == 2) {
		c1 = xdup(1, in, n); c2 = xbuf(2, n);
		for (size_t i = 0; i < n; i++) c2[i] = (in[i] >= 'A' && in[i] <= 'Z') ? (uint8_t)(in[i] | 32) : in[i];
		FN("http_hdr_val_remove");
		removed = http_hdr_val_remove(c1, c2, n, &newsz, (const uint8_t*)"h", 1);
		chk_le("http_hdr_val_remove", "new_size", newsz, n);
		printf(" removed=%zu newsz=%zu", removed, newsz); return;
	}
	for (iter = 0; iter <= n + 2; iter++) {
		const uint8_t *v = NULL; size_t vs = 0, nx = 0;
		FN("http_hdr_val_get_ex");
		rc = http_hdr_val_get_ex(b, n, (const uint8_t*)"h", 1, off, &v, &vs, &nx);
		if (rc != 0) break;
		chk_span("http_hdr_val_get_ex", "value", b, n, v, vs);
		chk_le("http_hdr_val_get_ex", "offset_next", nx, n);
		if (nx <= off && iter > 0) { span_fail("http_hdr_val_get_ex", "no-progress"); break; }
		off = nx; cnt++;
	}
	if (iter > n + 2) span_fail("http_hdr_val_get_ex", "no-progress");
	FN("http_hdr_val_get_count");
	if (!span_msg[0] && http_hdr_val_get_count(b, n, (const uint8_t*)"h", 1) != cnt) span_fail("http_hdr_val_get_count", "differs");
	printf(" cnt=%zu", cnt);
}
static void op_http_qry(const uint8_t *in, size_t n, long ph) {
	uint8_t *b = xdup(0, in, n), *c; const uint8_t *nm = NULL, *v = NULL; size_t vs = 0, newsz = n, del; int rc;
	if (ph == 0) {
		FN("http_query_val_get_ex");
		rc = http_query_val_get_ex(b, n, (const uint8_t*)"a", 1, &nm, &v, &vs);
		if (rc == 0) { chk_span("http_query_val_get_ex", "name", b, n, nm, 1); chk_span("http_query_val_get_ex", "value", b, n, v, vs); }
		printf(" rc=%d", rc); return;
	}
	c = xdup(1, in, n);
	FN("http_query_val_del");
	del = http_query_val_del(c, n, (const uint8_t*)"a", 1, &newsz);
	chk_le("http_query_val_del", "new_size", newsz, n);
	printf(" del=%zu newsz=%zu", del, newsz);
}
static void op_http_chk(const uint8_t *in, size_t n) {
	uint8_t *b = xdup(0, in, n), *ret = NULL; size_t rs = 0; int rc;
	FN("http_data_decode_chunked");
	rc = http_data_decode_chunked(b, n, &ret, &rs);
	if (rc == 0 && rs != 0) chk_span("http_data_decode_chunked", "data", b, n, ret, rs);
	printf(" rc=%d size=%zu", rc, rs);
}
static void op_http_url(const uint8_t *in, size_t n, long cap) {
	uint8_t *u = xdup(0, in, n), *out = xbuf(1, (size_t)cap); size_t r;
	FN("http_url_decode");
	r = http_url_decode(u, n, out, (size_t)cap);
	if (cap > 0 && n > 0) { if (r >= (size_t)cap) span_fail("http_url_decode", "length"); else if (out[r] != 0) span_fail("http_url_decode", "no-NUL"); }
	else if (r != 0) span_fail("http_url_decode", "length");
	printf(" n=%zu", r);
}
/* ph 0: skip_spwsp; 1: skip_spwsp2 (pointer and size); 2: skip_spwsp2 (size only); 3: wsp2sp; 4: ht2sp */
static void op_wsp(const uint8_t *in, size_t n, long ph) {
	uint8_t *b = xdup(0, in, n), *c, *out; const uint8_t *r = NULL; size_t rs = 0, os = 0; int rc;
	if (ph == 0) {
		FN("skip_spwsp");
		skip_spwsp(b, n, &r, &rs);
		chk_span("skip_spwsp", "ret", b, n, r, rs);
	} else if (ph == 1) {
		FN("skip_spwsp2");
		skip_spwsp2(b, n, &r, &rs);
		chk_span("skip_spwsp2", "ret", b, n, r, rs);
	} else if (ph == 2) {
		FN("skip_spwsp2");
		skip_spwsp2(b, n, NULL, &rs);
		chk_le("skip_spwsp2", "size-only", rs, n);
	} else if (ph == 3) {
		c = xdup(1, in, n); out = xbuf(2, n);
		FN("wsp2sp");
		rc = wsp2sp(c, n, out, &os);
		if (rc == 0) chk_le("wsp2sp", "size", os, n);
	} else {
		c = xdup(1, in, n); out = xbuf(2, n);
		FN("ht2sp");
		rc = ht2sp(c, n, out, &os);
		if (rc == 0) chk_le("ht2sp", "size", os, n);
	}
	printf(" ok=1");
}

/* ------------------------------------------------------------------ SDP / SAP / RTP / MPEG-TS */
/* ph 0: sdp_msg_sec_chk; 1: sdp_msg_type_get over all lines; 2: sdp_msg_feilds_get */
static void op_sdp(const uint8_t *in, size_t n, long ph) {
	uint8_t *b = xdup(0, in, n); int sec = -1; size_t found = 0;
	static const uint8_t types[] = { 'v', 'm', 'a' };
	if (ph == 0) {
		FN("sdp_msg_sec_chk");
		sec = sdp_msg_sec_chk(b, n);
	}
	for (size_t k = 0; k < sizeof(types) && ph == 1; k++) {
		size_t line = 0, iter;
		for (iter = 0; iter <= n + 2; iter++) {
			uint8_t *v = NULL; size_t vs = 0;
			FN("sdp_msg_type_get");
			if (0 != sdp_msg_type_get(b, n, types[k], &line, &v, &vs)) break;
			chk_span("sdp_msg_type_get", "value", b, n, v, vs);
			line++; found++;
		}
		if (iter > n + 2) span_fail("sdp_msg_type_get", "no-progress");
	}
	if (ph == 2) {
		uint8_t *f[4] = { 0 }; size_t fs[4] = { 0 }, cnt;
		FN("sdp_msg_feilds_get");
		cnt = sdp_msg_feilds_get(b, n, 4, f, fs);
		for (size_t i = 0; i < cnt && i < 4; i++) chk_span("sdp_msg_feilds_get", "field", b, n, f[i], fs[i]);
	}
	printf(" sec=%d found=%zu", sec, found);
}
static void op_sap(const uint8_t *in, size_t n) {
	uint8_t *p = xdup(0, in, n); int v;
	FN("sap_packet_is_valid");
	v = sap_packet_is_valid(p, n);
	if (v) {
		FN("sap_packet_get_auth_data");
		chk_span("sap_packet_get_auth_data", "ptr", p, n, sap_packet_get_auth_data(p), 0);
		FN("sap_packet_get_payload");
		chk_span("sap_packet_get_payload", "ptr", p, n, sap_packet_get_payload(p, n), 0);
	}
	printf(" valid=%d", v);
}
static void op_rtp(const uint8_t *in, size_t n) {
	uint8_t *p = xdup(0, in, n); size_t s = 0, e = 0; int rc;
	FN("rtp_payload_get");
	rc = rtp_payload_get(p, n, &s, &e);
	if (rc == 0) { chk_le("rtp_payload_get", "start", s, n); chk_le("rtp_payload_get", "start+end", s + e, n); }
	printf(" rc=%d start=%zu end=%zu", rc, s, e);
}
/* ph 0: mpeg2_ts_pkt_is_valid (the buffer is the packet); 1: mpeg2_ts_pkt_get_next; 2: mpeg2_ts_pkt_size_detect */
static void op_ts(const uint8_t *in, size_t n, long ph) {
	uint8_t *p = xdup(0, in, n), *pk = NULL; int v = -1, g0 = -1, g1 = -1, rc = -1; size_t ps = 0;
	if (ph == 0) {
		FN("mpeg2_ts_pkt_is_valid");
		v = mpeg2_ts_pkt_is_valid((const mpeg2_ts_hdr_t*)p, n);
	} else if (ph == 1) {
		FN("mpeg2_ts_pkt_get_next");
		g0 = mpeg2_ts_pkt_get_next(p, n, 0, 188, &pk);
		if (g0) chk_span("mpeg2_ts_pkt_get_next", "pkt", p, n, pk, 188);
		if (n >= 1) { pk = NULL; g1 = mpeg2_ts_pkt_get_next(p, n, 1, 188, &pk); if (g1) chk_span("mpeg2_ts_pkt_get_next", "pkt@1", p, n, pk, 188); }
	} else {
		FN("mpeg2_ts_pkt_size_detect");
		rc = mpeg2_ts_pkt_size_detect(p, n, &ps);
		if (rc == 0 && !(ps == 188 || ps == 192 || ps == 204 || ps == 208)) span_fail("mpeg2_ts_pkt_size_detect", "size");
	}
	printf(" valid=%d next0=%d next1=%d det=%d ps=%zu", v, g0, g1, rc, ps);
}

/* ------------------------------------------------------------------ main loop */
static char **lines; static size_t nlines; static long budget;
static void watchdog(int on) {
	struct itimerval it; memset(&it, 0, sizeof(it));
	if (on) it.it_value.tv_sec = 1;
	setitimer(ITIMER_VIRTUAL, &it, NULL);           /* 1 s of CPU time in the parser */
	alarm(on ? 10 : 0);                             /* wall clock backstop */
}
static void run_case(size_t idx) {
	char op[32], *hex = malloc(strlen(lines[idx]) + 1); long a1 = 0, a2 = 0; size_t n; uint8_t *in;
	const char *at = strrchr(lines[idx], '@');
	int k = sscanf(lines[idx], "%31s %s %ld %ld", op, hex, &a1, &a2), ci = -1;
	if (k < 2) { printf("R %zu bad-line\n", idx); free(hex); return; }
	if (at) {                                       /* class of the case: watchdog budget */
		for (ci = 0; ci < NCLS - 1 && shm->cls[ci][0] && strcmp(shm->cls[ci], at + 1); ci++) ;
		if (!shm->cls[ci][0]) strncpy(shm->cls[ci], at + 1, sizeof(shm->cls[ci]) - 1);
		if (shm->tmo[ci] >= TMO_PER_CLASS) { printf("T %zu\n", idx); free(hex); return; }
	}
	shm->cur_cls = ci;
	if (budget > 0) {
		for (int i = 0; i < NOPS && shm->ops[i][0]; i++)
			if (!strcmp(shm->ops[i], op) && shm->crashes[i] >= budget) { printf("T %zu\n", idx); free(hex); return; }
	}
	in = parse_hex(hex, &n);
	span_msg[0] = 0;
	shm->idx = (long)idx; FN("driver"); strncpy(shm->op, op, sizeof(shm->op) - 1);
	printf("R %zu %s", idx, op);
	watchdog(1);
	if (sigsetjmp(fault_jb, 1) != 0) {
		watchdog(0);
		if (strstr(fault_msg, "sig=26") || strstr(fault_msg, "sig=14")) { if (shm->cur_cls >= 0) shm->tmo[shm->cur_cls]++; }
		printf("\n%sX %zu fn=%s st=fault\n", fault_msg, idx, shm->fn);
		free(in); free(hex);
		return;
	}
	fault_jb_armed = 1;
	if (!strcmp(op, "dns_name")) op_dns_name(in, n, a1, a2);
	else if (!strcmp(op, "dns_lbl")) op_dns_lbl(in, n, a1);
	else if (!strcmp(op, "dns_msg")) op_dns_msg(in, n, a1);
	else if (!strcmp(op, "rad")) op_rad(in, n, a1);
	else if (!strcmp(op, "rad_pw")) op_rad_pw(in, n, a1, a2);
	else if (!strcmp(op, "dhcp")) op_dhcp(in, n);
	else if (!strcmp(op, "http_req")) op_http_req(in, n);
	else if (!strcmp(op, "http_resp")) op_http_resp(in, n);
	else if (!strcmp(op, "http_hdr")) op_http_hdr(in, n, a1);
	else if (!strcmp(op, "http_qry")) op_http_qry(in, n, a1);
	else if (!strcmp(op, "http_chk")) op_http_chk(in, n);
	else if (!strcmp(op, "http_url")) op_http_url(in, n, a1);
	else if (!strcmp(op, "wsp")) op_wsp(in, n, a1);
	else if (!strcmp(op, "sdp")) op_sdp(in, n, a1);
	else if (!strcmp(op, "sap")) op_sap(in, n);
	else if (!strcmp(op, "rtp")) op_rtp(in, n);
	else if (!strcmp(op, "ts")) op_ts(in, n, a1);
	else printf(" unknown-op");
	fault_jb_armed = 0;
	watchdog(0);
	if (span_msg[0]) printf(" span=%s", span_msg);
	printf("\n");
	free(in); free(hex);
}

int main(int argc, char **argv) {
	char *buf = NULL; size_t cap = 0; ssize_t r; size_t start = 0;
	if (argc > 1) mode = !strcmp(argv[1], "ghi") ? M_GHI : !strcmp(argv[1], "glo") ? M_GLO : M_HEAP;
	/* all cases in ONE block (keeps the parent small: every fork copies its page tables) */
	{
		size_t len = 0, nl_cap = 0; char *p, *e;
		cap = 1 << 22; buf = malloc(cap);
		while ((r = read(0, buf + len, cap - len - 1)) > 0) {
			len += (size_t)r;
			if (cap - len < 4096) { cap *= 2; buf = realloc(buf, cap); if (!buf) return 3; }
		}
		buf[len] = 0;
		for (p = buf; p < buf + len; p = e + 1) {
			e = strchr(p, '\n'); if (!e) e = buf + len;
			*e = 0;
			if (!*p) continue;
			if (nlines == nl_cap) { nl_cap = nl_cap ? nl_cap * 2 : 1 << 16; lines = realloc(lines, nl_cap * sizeof(char*)); if (!lines) return 3; }
			lines[nlines++] = p;
		}
	}
	shm = mmap(NULL, sizeof(shm_t), PROT_READ | PROT_WRITE, MAP_SHARED | MAP_ANONYMOUS, -1, 0);
	if (shm == MAP_FAILED) return 3;
	dup2(1, 2);                                  /* sanitizer reports go to the same stream, in order */
	setvbuf(stdout, NULL, _IOLBF, 1 << 16);
	dhcp4_static_init();
	if (mode != M_HEAP) slots_init();
	if (argc > 2) budget = atol(argv[2]);
	while (start < nlines) {
		pid_t pid; int st = 0;
		fflush(stdout);
		shm->idx = (long)start - 1; shm->fn[0] = 0;
		pid = fork();
		if (pid < 0) return 3;
		if (pid == 0) {
			install_handlers();
			for (size_t i = start; i < nlines; i++) run_case(i);
			fflush(stdout);
			_exit(0);
		}
		while (waitpid(pid, &st, 0) < 0 && errno == EINTR) ;
		if (WIFEXITED(st) && WEXITSTATUS(st) == 0) break;
		/* the worker died inside case shm->idx */
		{
			long bad = shm->idx;
			if (bad < (long)start) bad = (long)start;      /* died before publishing: blame the first case */
			printf("\nX %ld fn=%s st=%s%d\n", bad, shm->fn[0] ? shm->fn : "driver",
			    WIFSIGNALED(st) ? "sig" : "exit", WIFSIGNALED(st) ? WTERMSIG(st) : WEXITSTATUS(st));
			start = (size_t)bad + 1;
			for (int i = 0; i < NOPS; i++) {             /* count the death against the op of that case */
				if (!shm->ops[i][0]) strncpy(shm->ops[i], shm->op, sizeof(shm->ops[i]) - 1);
				if (!strcmp(shm->ops[i], shm->op)) { shm->crashes[i]++; break; }
			}
		}
	}
	fflush(stdout);
	return 0;
}
