/* X01 driver: the real containers of /repo (include/utils/hash_bucket.h, src/utils/data_cache.c) executed call by
 * call, every call logged as one JSON line (operation, arguments, results, projected state).  The lines are
 *   - compared with what TLC computed for the same call (behaviours generated from specs/grow/MC_HbApi, MC_DataCache)
 *   - or validated as a behaviour of the specification (specs/grow/Trace_Hb.tla, Trace_DataCache.tla).
 * Build: unity (data_cache.c is #included: the private struct is projected), ASan+UBSan,
 *        -Wl,--wrap=pthread_mutex_lock,--wrap=pthread_mutex_unlock,--wrap=time
 * The mutex wrappers keep owner/depth of every zone mutex (the recursive pthread mutex is the real one).
 *
 * stdin commands (hash bucket; t = executing worker thread 1..4):
 *   new mt nz ne k1..kne | get t k fl | add t e fl zarg | rm t e | zlock t z | zunlock t z | elock t e | eunlock t e
 *   zenum t z stop nrm e.. | enum t stop nrm e.. | destroy t | createrc | bigcreate log2
 *   rand seed nops nthreads      threads choose calls themselves; rig lock around call + log line (order = real order)
 *   free seed nops nthreads [nshared]   (entries above nshared are private to one thread each) no rig lock: protocols under the zone locks, log lines ordered by tickets taken while
 *                                the zone mutex is held; ends with a quiesce line (full state)
 *   tight nthreads iters         add/remove of a private entry in a private zone, no log, then quiesce
 * data cache (main thread):
 *   dnew iv nb now [maxslot] | dadd k fail | dget k | dget0 | dfree i | dset i vu upd inc | dclean | dtick dt | denum stop
 *   denumrm i | ddestroy | daddnull | drand seed nops
 */
#ifndef _GNU_SOURCE
#define _GNU_SOURCE
#endif
#include <pthread.h>
#include <stdio.h>
#include <stdlib.h>
#include <string.h>
#include <stdint.h>
#include <stdarg.h>
#include <errno.h>
#include <sched.h>
#include <unistd.h>
#include <time.h>
#include "vh_util.h"
#include "utils/hash_bucket.h"
#include "utils/data_cache.c"

#define MAXE 64
#define MAXZ 64
#define MAXT 8

/* ------------------------------------------------------------------ hash bucket side */
typedef struct xent_s { hbucket_entry_t entry; int id; int key; } xent_t;
static hbucket_p HB;
static int H_MT, H_NZ, H_NE;
static int keyof[MAXE + 1];
static xent_t *ents[MAXE + 1];
static volatile int z_owner[MAXZ], z_depth[MAXZ];
static volatile long n_eperm;
static volatile long f_ticket;
static __thread long tl_ticket;      /* free mode: ticket taken when the current thread last acquired a zone mutex */
static __thread int cur_tid, tl_lk, tl_ul;     /* tl_*: zone mutex lock / unlock calls made by the current API call */

int __real_pthread_mutex_lock(pthread_mutex_t *m);
int __real_pthread_mutex_unlock(pthread_mutex_t *m);
static int zone_of_mutex(pthread_mutex_t *m) {
	hbucket_p hb = HB;
	if (hb == NULL) return -1;
	char *a = (char*)m, *lo = (char*)hb->zones, *hi = (char*)(hb->zones + hb->hashsize);
	if (a < lo || a >= hi) return -1;
	size_t i = (size_t)(a - lo) / sizeof(hbucket_zone_t);
	return (a == (char*)&hb->zones[i].mtx && i < MAXZ) ? (int)i : -1;
}
static volatile int serial_mode = 1;     /* calls are serialised and chosen so that none can block on a zone mutex */
int __wrap_pthread_mutex_lock(pthread_mutex_t *m) {
	int z = zone_of_mutex(m), rc;
	if (z >= 0 && serial_mode) {
		rc = pthread_mutex_trylock(m);
		if (rc == EBUSY) {     /* the specification says this call does not block: a mutex was leaked */
			char msg[200];
			int n = snprintf(msg, sizeof(msg), "\nFAULT sig=97 blocked-on-zone-mutex zone=%d owner=%d(depth %d) thread=%d case=%s\n",
			    z, z_owner[z], z_depth[z], cur_tid, vh_case_tag);
			if (n > 0) (void)!write(1, msg, (size_t)n);
			_exit(97);
		}
	} else {
		rc = __real_pthread_mutex_lock(m);
		if (z >= 0 && rc == 0) tl_ticket = __atomic_add_fetch(&f_ticket, 1, __ATOMIC_SEQ_CST);
	}
	if (z >= 0 && rc == 0) { z_owner[z] = cur_tid; z_depth[z]++; tl_lk++; }
	return rc;
}
int __wrap_pthread_mutex_unlock(pthread_mutex_t *m) {
	int z = zone_of_mutex(m);
	if (z >= 0) {
		tl_ul++;
		if (z_owner[z] == cur_tid && z_depth[z] > 0) { if (--z_depth[z] == 0) z_owner[z] = 0; }
		else __atomic_add_fetch(&n_eperm, 1, __ATOMIC_RELAXED);
	}
	return __real_pthread_mutex_unlock(m);
}

static uint32_t x_hash(void *udata, const uint8_t *key, size_t key_size) {
	int k; (void)udata; (void)key_size;
	memcpy(&k, key, sizeof(k));
	return (uint32_t)k + 0x10000u * (uint32_t)(k * 7 + 3);     /* == k modulo every hashsize <= 65536 */
}
static int x_cmp(void *udata, const uint8_t *key, size_t key_size, void *data) {
	int k; (void)udata; (void)key_size;
	memcpy(&k, key, sizeof(k));
	return (k == ((xent_t*)data)->key) ? 0 : 1;
}
static xent_t *ent_fresh(int id) {
	xent_t *x = calloc(1, sizeof(xent_t));
	if (!x) abort();
	x->id = id; x->key = keyof[id]; x->entry.data = x;
	return x;
}

/* growing output buffer */
typedef struct { char *p; size_t n, cap; } sb_t;
static void sb_put(sb_t *b, const char *fmt, ...) {
	va_list ap;
	if (b->p == NULL) { b->cap = 1024; b->n = 0; b->p = malloc(b->cap); if (!b->p) abort(); }
	for (;;) {
		va_start(ap, fmt);
		int k = vsnprintf(b->p + b->n, b->cap - b->n, fmt, ap);
		va_end(ap);
		if (k >= 0 && (size_t)k < b->cap - b->n) { b->n += (size_t)k; return; }
		b->cap = b->cap ? b->cap * 2 : 1024;
		while (b->cap - b->n <= (size_t)(k > 0 ? k : 0)) b->cap *= 2;
		b->p = realloc(b->p, b->cap);
		if (!b->p) abort();
	}
}

/* projected state; only called while no other thread is inside a call (rig lock held or threads joined) */
static void hb_state(sb_t *b) {
	if (HB == NULL) { sb_put(b, "\"st\":{\"dead\":1}"); return; }
	int where[MAXE + 1];
	sb_put(b, "\"st\":{\"zl\":[");
	for (int z = 0; z < H_NZ; z++) {
		hbucket_entry_p e; int first = 1, guard = 0;
		sb_put(b, "%s[", z ? "," : "");
		TAILQ_FOREACH(e, &HB->zones[z].entry_head, next) {
			sb_put(b, "%s%d", first ? "" : ",", ((xent_t*)e->data)->id); first = 0;
			if (++guard > 4 * MAXE) { sb_put(b, ",-99"); break; }        /* cyclic list */
		}
		sb_put(b, "]");
	}
	sb_put(b, "],\"zc\":[");
	for (int z = 0; z < H_NZ; z++) sb_put(b, "%s%lld", z ? "," : "", (long long)(ssize_t)hbucket_zone_get_entries_count(&HB->zones[z]));
	sb_put(b, "],\"total\":%lld,\"ez\":[", (long long)(ssize_t)hbucket_get_entries_count(HB));
	for (int e = 1; e <= H_NE; e++) {
		hbucket_zone_p zp = ents[e]->entry.zone;
		where[e] = zp ? (int)(zp - HB->zones) : -1;
		sb_put(b, "%s%d", e > 1 ? "," : "", where[e]);
	}
	sb_put(b, "],\"own\":[");
	for (int z = 0; z < H_NZ; z++) sb_put(b, "%s%d", z ? "," : "", z_owner[z]);
	sb_put(b, "],\"dep\":[");
	for (int z = 0; z < H_NZ; z++) sb_put(b, "%s%d", z ? "," : "", z_depth[z]);
	sb_put(b, "]}");
}

/* enumeration callback context */
typedef struct { int rm[MAXE + 1]; int stop; int vis[4 * MAXE]; int nvis; int znull; int released[MAXE + 1]; int free_mode; } ecb_t;
static void free_release(int id);
static int enum_cb(void *udata, hbucket_entry_p entry) {
	ecb_t *c = udata;
	xent_t *x = entry->data;
	int id = x->id;
	if (c->nvis < 4 * MAXE) c->vis[c->nvis++] = id;
	if (c->rm[id]) {
		hbucket_entry_remove(entry);
		free(x);                               /* the callback frees what it removed */
		if (c->free_mode) { ents[id] = NULL; free_release(id); }
		else ents[id] = ent_fresh(id);
	}
	return (id == c->stop) ? 1 : 0;
}
static int destroy_cb(void *udata, hbucket_entry_p entry) {
	ecb_t *c = udata;
	xent_t *x = entry->data;
	if (c->nvis < 4 * MAXE) c->vis[c->nvis++] = x->id;
	if (entry->zone != NULL) c->znull = 0;
	return 0;
}
static void put_vis(sb_t *b, ecb_t *c) {
	sb_put(b, "\"vis\":[");
	for (int i = 0; i < c->nvis; i++) sb_put(b, "%s%d", i ? "," : "", c->vis[i]);
	sb_put(b, "]");
}

static void hb_drop(void) {
	for (int e = 1; e <= MAXE; e++) { free(ents[e]); ents[e] = NULL; }
	for (int z = 0; z < MAXZ; z++) { z_owner[z] = 0; z_depth[z] = 0; }
}

/* one hash bucket call on behalf of thread cur_tid; appends the event (without state) to b. returns 0 if unknown */
static int hb_exec0(const char *line, sb_t *b) {
	char op[32]; int n = 0, t = 0;
	if (sscanf(line, "%31s%n", op, &n) != 1) return 0;
	const char *a = line + n;
	if (!strcmp(op, "new")) {
		int mt, nz, ne, k, off;
		if (HB) {          /* a table some worker still holds locked is abandoned, not destroyed */
			int held = 0;
			for (int z = 0; z < H_NZ; z++) if (z_depth[z]) held = 1;
			if (!held) hbucket_destroy(HB, NULL, NULL);
			HB = NULL;
		}
		hb_drop();
		tl_lk = tl_ul = 0;             /* mutex calls of the clean-up above are not part of this call */
		sscanf(a, "%d %d %d%n", &mt, &nz, &ne, &off); a += off;
		if (ne > MAXE || nz > MAXZ) abort();
		sb_put(b, "{\"op\":\"new\",\"mt\":%d,\"nz\":%d,\"keys\":[", mt, nz);
		for (int e = 1; e <= ne; e++) { sscanf(a, "%d%n", &k, &off); a += off; keyof[e] = k; sb_put(b, "%s%d", e > 1 ? "," : "", k); }
		H_MT = mt; H_NZ = nz; H_NE = ne;
		for (int e = 1; e <= ne; e++) ents[e] = ent_fresh(e);
		int rc = hbucket_create(mt, (uint32_t)nz, NULL, x_hash, x_cmp, &HB);
		sb_put(b, "],\"rc\":%d", rc);
		return 1;
	}
	if (HB == NULL) { sb_put(b, "{\"op\":\"skipped\""); return 1; }     /* rest of a behaviour whose process died */
	if (!strcmp(op, "get")) {
		int k, fl; hbucket_zone_p zr = NULL; hbucket_entry_p er = (hbucket_entry_p)(uintptr_t)0x1;
		sscanf(a, "%d %d %d", &t, &k, &fl);
		int rc = hbucket_entry_get(HB, (uint32_t)fl, (const uint8_t*)&k, sizeof(k), &zr, &er);
		sb_put(b, "{\"op\":\"get\",\"t\":%d,\"k\":%d,\"fl\":%d,\"rc\":%d,\"e\":%d,\"z\":%d", t, k, fl, rc,
		    er ? ((xent_t*)er->data)->id : 0, zr ? (int)(zr - HB->zones) : -1);
		return 1;
	}
	if (!strcmp(op, "add")) {
		int e, fl, zarg;
		sscanf(a, "%d %d %d %d", &t, &e, &fl, &zarg);
		int k = keyof[e];
		int rc = hbucket_entry_add(HB, (uint32_t)fl, zarg >= 0 ? &HB->zones[zarg] : NULL,
		    zarg >= 0 ? NULL : (const uint8_t*)&k, zarg >= 0 ? 0 : sizeof(k), &ents[e]->entry);
		sb_put(b, "{\"op\":\"add\",\"t\":%d,\"e\":%d,\"fl\":%d,\"zarg\":%d,\"rc\":%d", t, e, fl, zarg, rc);
		return 1;
	}
	if (!strcmp(op, "rm")) {
		int e;
		sscanf(a, "%d %d", &t, &e);
		int was = ents[e]->entry.zone != NULL;
		hbucket_entry_remove(&ents[e]->entry);
		if (was) { free(ents[e]); ents[e] = ent_fresh(e); }     /* removed entries are freed: stale pointers show in ASan */
		sb_put(b, "{\"op\":\"rm\",\"t\":%d,\"e\":%d", t, e);
		return 1;
	}
	if (!strcmp(op, "zlock") || !strcmp(op, "zunlock")) {
		int z;
		sscanf(a, "%d %d", &t, &z);
		if (op[1] == 'l') hbucket_zone_lock(&HB->zones[z]); else hbucket_zone_unlock(&HB->zones[z]);
		sb_put(b, "{\"op\":\"%s\",\"t\":%d,\"z\":%d", op, t, z);
		return 1;
	}
	if (!strcmp(op, "elock") || !strcmp(op, "eunlock")) {
		int e;
		sscanf(a, "%d %d", &t, &e);
		if (op[1] == 'l') hbucket_entry_lock(&ents[e]->entry); else hbucket_entry_unlock(&ents[e]->entry);
		sb_put(b, "{\"op\":\"%s\",\"t\":%d,\"e\":%d", op, t, e);
		return 1;
	}
	if (!strcmp(op, "zenum") || !strcmp(op, "enum")) {
		int z = -1, stop, nrm, e, off, ret;
		ecb_t c; memset(&c, 0, sizeof(c));
		if (op[0] == 'z') { sscanf(a, "%d %d %d %d%n", &t, &z, &stop, &nrm, &off); }
		else sscanf(a, "%d %d %d%n", &t, &stop, &nrm, &off);
		a += off;
		sb_put(b, "{\"op\":\"%s\",\"t\":%d,", op, t);
		if (op[0] == 'z') sb_put(b, "\"z\":%d,", z);
		sb_put(b, "\"stop\":%d,\"rm\":[", stop);
		for (int i = 0; i < nrm; i++) { sscanf(a, "%d%n", &e, &off); a += off; c.rm[e] = 1; sb_put(b, "%s%d", i ? "," : "", e); }
		c.stop = stop;
		if (op[0] == 'z') ret = hbucket_zone_entry_enum(&HB->zones[z], enum_cb, &c);
		else ret = hbucket_entry_enum(HB, enum_cb, &c);
		sb_put(b, "],\"ret\":%d,", ret);
		put_vis(b, &c);
		return 1;
	}
	if (!strcmp(op, "destroy")) {
		ecb_t c; memset(&c, 0, sizeof(c)); c.znull = 1;
		sscanf(a, "%d", &t);
		hbucket_p hb = HB;
		hbucket_destroy(hb, destroy_cb, &c);
		HB = NULL;
		sb_put(b, "{\"op\":\"destroy\",\"t\":%d,\"znull\":%d,", t, c.znull);
		put_vis(b, &c);
		hb_drop();
		return 1;
	}
	return 0;
}

static int hb_exec(const char *line, sb_t *b) {
	tl_lk = tl_ul = 0;
	int ok = hb_exec0(line, b);
	if (ok) sb_put(b, ",\"lk\":%d,\"ul\":%d", tl_lk, tl_ul);
	return ok;
}

/* ---- worker threads for commands that name their thread */
typedef struct { pthread_t th; pthread_mutex_t m; pthread_cond_t cv; int id; const char *cmd; sb_t *out; int done, started, ok; } worker_t;
static worker_t W[MAXT + 1];
static void *worker_main(void *arg) {
	worker_t *w = arg;
	cur_tid = w->id;
	__real_pthread_mutex_lock(&w->m);
	for (;;) {
		while (w->cmd == NULL) pthread_cond_wait(&w->cv, &w->m);
		w->ok = hb_exec(w->cmd, w->out);
		w->cmd = NULL; w->done = 1;
		pthread_cond_broadcast(&w->cv);
	}
	return NULL;
}
static int run_on(int t, const char *cmd, sb_t *out) {
	worker_t *w = &W[t];
	if (t < 1 || t > MAXT) abort();
	if (!w->started) {
		w->id = t; pthread_mutex_init(&w->m, NULL); pthread_cond_init(&w->cv, NULL);
		pthread_create(&w->th, NULL, worker_main, w); w->started = 1;
	}
	__real_pthread_mutex_lock(&w->m);
	w->cmd = cmd; w->out = out; w->done = 0;
	pthread_cond_broadcast(&w->cv);
	while (!w->done) pthread_cond_wait(&w->cv, &w->m);
	__real_pthread_mutex_unlock(&w->m);
	return w->ok;
}

/* ---- rand: autonomous threads, rig lock around (choice, call, log line) */
static pthread_mutex_t RIG = PTHREAD_MUTEX_INITIALIZER;
static volatile long r_done, r_target;
typedef struct { uint64_t s; } rng_t;
static uint32_t rnd(rng_t *r) { r->s = r->s * 6364136223846793005ULL + 1442695040888963407ULL; return (uint32_t)(r->s >> 33); }
static int can_lock(int t, int z) { return !H_MT || z_owner[z] == 0 || z_owner[z] == t; }
static int ent_zone(int e) { hbucket_zone_p zp = ents[e]->entry.zone; return zp ? (int)(zp - HB->zones) : -1; }

static int rand_cmd(rng_t *r, int t, char *cmd, size_t cap) {
	int holding = 0;
	for (int z = 0; z < H_NZ; z++) if (z_owner[z] == t) holding++;
	uint32_t c = rnd(r) % 100;
	if (holding && c < 25) {            /* let go of something */
		for (int z = 0; z < H_NZ; z++) if (z_owner[z] == t) { snprintf(cmd, cap, "zunlock %d %d", t, z); return 1; }
	}
	c = rnd(r) % 100;
	if (c < 28) {
		int k = (int)(rnd(r) % (uint32_t)(H_NE + 1)), fl = (int)(rnd(r) % 8), z;
		k = (k == 0) ? 1000 + (int)(rnd(r) % 8) : keyof[k];          /* sometimes a key nobody has */
		z = k % H_NZ;
		if (!(fl & 1) && (!can_lock(t, z) || z_depth[z] >= 3)) return 0;
		snprintf(cmd, cap, "get %d %d %d", t, k, fl); return 1;
	}
	if (c < 52) {
		int e = 1 + (int)(rnd(r) % (uint32_t)H_NE), fl = (int)(rnd(r) % 4);
		int zarg = (rnd(r) % 4 == 0) ? (int)(rnd(r) % (uint32_t)H_NZ) : -1;
		int z = zarg >= 0 ? zarg : keyof[e] % H_NZ;
		if (ent_zone(e) >= 0) return 0;
		if (!(fl & 1) && (!can_lock(t, z) || z_depth[z] >= 3)) return 0;
		snprintf(cmd, cap, "add %d %d %d %d", t, e, fl, zarg); return 1;
	}
	if (c < 68) {
		int e = 1 + (int)(rnd(r) % (uint32_t)H_NE), z = ent_zone(e);
		if (z >= 0 && !can_lock(t, z)) return 0;
		snprintf(cmd, cap, "rm %d %d", t, e); return 1;
	}
	if (c < 74) {
		int z = (int)(rnd(r) % (uint32_t)H_NZ);
		if (!can_lock(t, z) || z_depth[z] >= 3) return 0;
		snprintf(cmd, cap, "zlock %d %d", t, z); return 1;
	}
	if (c < 80) { snprintf(cmd, cap, "zunlock %d %d", t, (int)(rnd(r) % (uint32_t)H_NZ)); return 1; }
	if (c < 84) {
		int e = 1 + (int)(rnd(r) % (uint32_t)H_NE), z = ent_zone(e);
		if (z >= 0 && (!can_lock(t, z) || z_depth[z] >= 3)) return 0;
		snprintf(cmd, cap, "elock %d %d", t, e); return 1;
	}
	if (c < 88) { snprintf(cmd, cap, "eunlock %d %d", t, 1 + (int)(rnd(r) % (uint32_t)H_NE)); return 1; }
	{
		int whole = (c >= 95), z = (int)(rnd(r) % (uint32_t)H_NZ);
		int stop = (rnd(r) % 3 == 0) ? 1 + (int)(rnd(r) % (uint32_t)H_NE) : 0;
		char rm[256]; int nrm = 0, off = 0;
		rm[0] = 0;
		for (int e = 1; e <= H_NE; e++) if (rnd(r) % 4 == 0) { off += snprintf(rm + off, sizeof(rm) - (size_t)off, " %d", e); nrm++; }
		if (whole) {
			for (int y = 0; y < H_NZ; y++) if (!can_lock(t, y)) return 0;
			snprintf(cmd, cap, "enum %d %d %d%s", t, stop, nrm, rm);
		} else {
			if (!can_lock(t, z)) return 0;
			snprintf(cmd, cap, "zenum %d %d %d %d%s", t, z, stop, nrm, rm);
		}
		return 1;
	}
}
typedef struct { int t, nt; uint64_t seed; } rarg_t;
static void *rand_main(void *arg) {
	rarg_t *ra = arg; rng_t r = { ra->seed * 2654435761ULL + (uint64_t)ra->t * 97 };
	char cmd[512];
	cur_tid = ra->t;
	for (;;) {
		__real_pthread_mutex_lock(&RIG);
		if (r_done >= r_target) {
			/* give back what this thread still holds, then leave */
			for (int z = 0; z < H_NZ; z++) while (z_owner[z] == ra->t) {
				sb_t b = {0};
				snprintf(cmd, sizeof(cmd), "zunlock %d %d", ra->t, z);
				hb_exec(cmd, &b); sb_put(&b, ","); hb_state(&b); printf("%s}\n", b.p); free(b.p);
			}
			__real_pthread_mutex_unlock(&RIG);
			return NULL;
		}
		if (rand_cmd(&r, ra->t, cmd, sizeof(cmd))) {
			sb_t b = {0};
			hb_exec(cmd, &b); sb_put(&b, ","); hb_state(&b); printf("%s}\n", b.p); free(b.p);
			r_done++;
		}
		__real_pthread_mutex_unlock(&RIG);
		if (rnd(&r) % 4 == 0) sched_yield();
	}
}

/* ---- free: no rig lock; protocol steps are logged with a ticket taken while the zone mutex is held */
typedef struct { long ticket; char *line; } flog_t;
typedef struct { flog_t *v; size_t n, cap; } flogs_t;
static flogs_t FL[MAXT + 1];
static volatile int id_inuse[MAXE + 1];
static int f_nshared;
static void flog_put(int t, long ticket, const char *buf) {
	flogs_t *l = &FL[t];
	if (l->n == l->cap) { l->cap = l->cap ? l->cap * 2 : 1024; l->v = realloc(l->v, l->cap * sizeof(flog_t)); if (!l->v) abort(); }
	l->v[l->n].ticket = ticket;
	l->v[l->n].line = strdup(buf); l->n++;
}
static void flog(int t, const char *fmt, ...) {       /* called while the zone mutex is held */
	char buf[1024]; va_list ap;
	va_start(ap, fmt); vsnprintf(buf, sizeof(buf), fmt, ap); va_end(ap);
	flog_put(t, __atomic_add_fetch(&f_ticket, 1, __ATOMIC_SEQ_CST), buf);
}
static void flog_at(int t, long ticket, const char *fmt, ...) {   /* ticket taken inside the call, when it got the mutex */
	char buf[1024]; va_list ap;
	va_start(ap, fmt); vsnprintf(buf, sizeof(buf), fmt, ap); va_end(ap);
	flog_put(t, ticket, buf);
}
static void free_release(int id) { __atomic_store_n(&id_inuse[id], 0, __ATOMIC_RELEASE); }
static int claim_id(int key) {
	for (int e = 1; e <= f_nshared; e++) {
		int zero = 0;
		if (keyof[e] == key && __atomic_compare_exchange_n(&id_inuse[e], &zero, 1, 0, __ATOMIC_ACQ_REL, __ATOMIC_RELAXED)) return e;
	}
	return 0;
}
static volatile long f_done, f_target;
static void *free_main(void *arg) {
	rarg_t *ra = arg; rng_t r = { ra->seed * 40503ULL + (uint64_t)ra->t * 977 }; int t = ra->t;
	cur_tid = t;
	while (__atomic_add_fetch(&f_done, 1, __ATOMIC_RELAXED) <= f_target) {
		uint32_t c = rnd(&r) % 100;
		int k = keyof[1 + (int)(rnd(&r) % (uint32_t)f_nshared)];
		if (c >= 70 && c < 85) {
			/* private entry of this thread (nobody else asks for its key, no callback removes it): add(0) / remove()
			 * take the zone mutex themselves, the zone is shared with everything else */
			int np = 0, mine[MAXE], id;
			for (int e = f_nshared + 1; e <= H_NE; e++) if (1 + (e - f_nshared - 1) % ra->nt == t) mine[np++] = e;
			if (np == 0) continue;
			id = mine[rnd(&r) % (uint32_t)np];
			if (ents[id] == NULL) {
				xent_t *x = ent_fresh(id); int kk = keyof[id];
				ents[id] = x;
				if (hbucket_entry_add(HB, 0, NULL, (const uint8_t*)&kk, sizeof(kk), &x->entry) != 0) abort();
				flog_at(t, tl_ticket, "{\"op\":\"add\",\"t\":%d,\"e\":%d,\"fl\":0,\"zarg\":-1,\"rc\":0}", t, id);
			} else {
				xent_t *x = ents[id];
				hbucket_entry_remove(&x->entry);
				flog_at(t, tl_ticket, "{\"op\":\"rm\",\"t\":%d,\"e\":%d}", t, id);
				ents[id] = NULL; free(x);
			}
		} else if (c < 85) {    /* uadd / del / look all start with get(F_LOCK): the zone is locked on return */
			hbucket_zone_p zone = NULL; hbucket_entry_p en = NULL;
			int rc = hbucket_entry_get(HB, HBUCKET_GET_F_F_LOCK, (const uint8_t*)&k, sizeof(k), &zone, &en);
			int z = (int)(zone - HB->zones), e = en ? ((xent_t*)en->data)->id : 0;
			flog(t, "{\"op\":\"get\",\"t\":%d,\"k\":%d,\"fl\":4,\"rc\":%d,\"e\":%d,\"z\":%d,\"zcz\":%lld}", t, k, rc, e, z,
			    (long long)(ssize_t)hbucket_zone_get_entries_count(zone));
			if (rc == 0 && c < 40) {                       /* del */
				xent_t *x = en->data;
				if (x->key != k) abort();
				hbucket_entry_remove(en);
				flog(t, "{\"op\":\"rm\",\"t\":%d,\"e\":%d}", t, e);
				flog(t, "{\"op\":\"zunlock\",\"t\":%d,\"z\":%d}", t, z);
				hbucket_zone_unlock(zone);
				ents[e] = NULL; free(x); free_release(e);
			} else if (rc == 0) {                          /* look: touch the entry under the lock */
				volatile int kk = ((xent_t*)en->data)->key; (void)kk;
				flog(t, "{\"op\":\"zunlock\",\"t\":%d,\"z\":%d}", t, z);
				hbucket_zone_unlock(zone);
			} else {                                       /* uadd */
				int id = (c < 70) ? claim_id(k) : 0;
				if (id) {
					xent_t *x = ent_fresh(id);
					ents[id] = x;
					flog(t, "{\"op\":\"add\",\"t\":%d,\"e\":%d,\"fl\":1,\"zarg\":%d,\"rc\":0}", t, id, z);
					if (hbucket_entry_add(HB, HBUCKET_ADD_F_NO_LOCK, zone, NULL, 0, &x->entry) != 0) abort();
				} else {
					flog(t, "{\"op\":\"zunlock\",\"t\":%d,\"z\":%d}", t, z);
					hbucket_zone_unlock(zone);
				}
			}
		} else {                /* zone enumeration, the callback removes (and frees) entries of some keys */
			int z = (int)(rnd(&r) % (uint32_t)H_NZ), ret, nrm = 0;
			ecb_t c2; sb_t b = {0};
			memset(&c2, 0, sizeof(c2)); c2.free_mode = 1;
			hbucket_zone_lock(&HB->zones[z]);
			flog(t, "{\"op\":\"zlock\",\"t\":%d,\"z\":%d}", t, z);
			sb_put(&b, "{\"op\":\"zenum\",\"t\":%d,\"z\":%d,\"stop\":0,\"rm\":[", t, z);
			for (int e = 1; e <= f_nshared; e++) if (rnd(&r) % 3 == 0) { c2.rm[e] = 1; sb_put(&b, "%s%d", nrm++ ? "," : "", e); }
			ret = hbucket_zone_entry_enum(&HB->zones[z], enum_cb, &c2);
			sb_put(&b, "],\"ret\":%d,", ret); put_vis(&b, &c2);
			sb_put(&b, ",\"zcz\":%lld}", (long long)(ssize_t)hbucket_zone_get_entries_count(&HB->zones[z]));
			flog(t, "%s", b.p); free(b.p);
			flog(t, "{\"op\":\"zunlock\",\"t\":%d,\"z\":%d}", t, z);
			hbucket_zone_unlock(&HB->zones[z]);
		}
	}
	return NULL;
}
static int flog_cmp(const void *a, const void *b) {
	long x = ((const flog_t*)a)->ticket, y = ((const flog_t*)b)->ticket;
	return (x > y) - (x < y);
}
static void quiesce_line(void) {
	sb_t b = {0};
	sb_put(&b, "{\"op\":\"quiesce\",\"eperm\":%ld,", n_eperm); hb_state(&b); printf("%s}\n", b.p); free(b.p);
}
static void run_threads(void *(*fn)(void*), int nt, uint64_t seed) {
	pthread_t th[MAXT + 1]; rarg_t ra[MAXT + 1];
	for (int t = 1; t <= nt; t++) { ra[t].t = t; ra[t].nt = nt; ra[t].seed = seed; pthread_create(&th[t], NULL, fn, &ra[t]); }
	for (int t = 1; t <= nt; t++) pthread_join(th[t], NULL);
}
static void free_mode(uint64_t seed, long nops, int nt, int nshared) {
	f_nshared = (nshared >= 1 && nshared <= H_NE) ? nshared : H_NE;
	memset((void*)id_inuse, 0, sizeof(id_inuse));
	serial_mode = 0;
	for (int e = 1; e <= H_NE; e++) { free(ents[e]); ents[e] = NULL; }      /* entries are made when they are added */
	f_done = 0; f_target = nops; f_ticket = 0;
	run_threads(free_main, nt, seed);
	size_t tot = 0;
	for (int t = 1; t <= nt; t++) tot += FL[t].n;
	flog_t *all = malloc((tot + 1) * sizeof(flog_t)); size_t k = 0;
	for (int t = 1; t <= nt; t++) { for (size_t i = 0; i < FL[t].n; i++) all[k++] = FL[t].v[i]; free(FL[t].v); memset(&FL[t], 0, sizeof(FL[t])); }
	qsort(all, tot, sizeof(flog_t), flog_cmp);
	for (size_t i = 0; i < tot; i++) { puts(all[i].line); free(all[i].line); }
	free(all);
	for (int e = 1; e <= H_NE; e++) if (ents[e] == NULL) ents[e] = ent_fresh(e);   /* state dump reads entry->zone */
	serial_mode = 1;
	quiesce_line();
}
static long t_iters;
static void *tight_main(void *arg) {
	rarg_t *ra = arg; int t = ra->t, e = t, k = keyof[e];
	cur_tid = t;
	for (long i = 0; i < t_iters; i++) {
		if (hbucket_entry_add(HB, 0, NULL, (const uint8_t*)&k, sizeof(k), &ents[e]->entry) != 0) abort();
		hbucket_entry_remove(&ents[e]->entry);
	}
	return NULL;
}

/* ------------------------------------------------------------------ data cache side */
#define DMAX 64
typedef struct { int slot; int key; } ddata_t;
static data_cache_p DC;
static int D_NB;
static time_t d_now;
static ddata_t *d_live[DMAX + 1];          /* data objects handed out by alloc and not yet freed */
static int d_fail_next, d_freed[4 * DMAX], d_nfreed, d_badfree, d_maxslot = DMAX;
time_t __wrap_time(time_t *p) { if (p) *p = d_now; return d_now; }
static uint32_t d_bucket(int k) { int b = k % D_NB; return (b == D_NB - 1) ? 255u : (uint32_t)(b * (256 / D_NB)); }
static uint32_t d_hash(const uint8_t *key, size_t key_size) { int k; (void)key_size; memcpy(&k, key, sizeof(k)); return d_bucket(k); }
static void *d_alloc(const uint8_t *key, size_t key_size) {
	(void)key_size;
	if (d_fail_next) { d_fail_next = 0; return NULL; }
	for (int s = 1; s <= d_maxslot; s++) if (d_live[s] == NULL) {
		ddata_t *d = malloc(sizeof(*d));
		d->slot = s; memcpy(&d->key, key, sizeof(int)); d_live[s] = d;
		return d;
	}
	return NULL;
}
static void d_free(void *data) {
	ddata_t *d = data;
	if (d == NULL || d->slot < 1 || d->slot > DMAX || d_live[d->slot] != d) { d_badfree++; return; }
	if (d_nfreed < 4 * DMAX) d_freed[d_nfreed++] = d->slot;
	d_live[d->slot] = NULL;
	free(d);
}
static int d_cmp(const uint8_t *key, size_t key_size, void *data) {
	int k; (void)key_size; memcpy(&k, key, sizeof(k));
	return (k == ((ddata_t*)data)->key) ? 0 : 1;
}
static int d_slot(data_cache_item_p it) { return it ? ((ddata_t*)it->data)->slot : 0; }
static data_cache_item_p d_item(int slot) {
	if (DC == NULL) return NULL;
	for (int i = 0; i < DATA_CACHE_BUCKETS; i++) {
		data_cache_item_p it;
		TAILQ_FOREACH(it, &DC->buckets[i].items_head, next) if (d_slot(it) == slot) return it;
	}
	return NULL;
}
static void d_state(sb_t *b) {
	if (DC == NULL) { sb_put(b, "\"st\":{\"dead\":1,\"live\":["); }
	else {
		int stray = 0;
		sb_put(b, "\"st\":{\"bl\":[");
		for (int x = 0; x < D_NB; x++) {
			data_cache_item_p it; int first = 1;
			sb_put(b, "%s[", x ? "," : "");
			TAILQ_FOREACH(it, &DC->buckets[d_bucket(x)].items_head, next) {
				sb_put(b, "%s[%d,%d,%lld,%u,%llu]", first ? "" : ",", d_slot(it), ((ddata_t*)it->data)->key,
				    (long long)it->valid_untill, it->updating, (unsigned long long)it->returned_count);
				first = 0;
				if (it->bucket != &DC->buckets[d_bucket(x)]) stray++;
			}
			sb_put(b, "]");
		}
		for (int i = 0; i < DATA_CACHE_BUCKETS; i++) {          /* nothing may sit in a bucket no key maps to */
			int used = 0;
			for (int x = 0; x < D_NB; x++) if (d_bucket(x) == (uint32_t)i) used = 1;
			if (!used && !TAILQ_EMPTY(&DC->buckets[i].items_head)) stray++;
		}
		sb_put(b, "],\"stray\":%d,\"nclean\":%lld,\"iv\":%u,\"live\":[", stray, (long long)DC->next_clean_time, DC->clean_interval);
	}
	int first = 1;
	for (int s = 1; s <= DMAX; s++) if (d_live[s]) { sb_put(b, "%s%d", first ? "" : ",", s); first = 0; }
	sb_put(b, "],\"now\":%lld,\"badfree\":%d}", (long long)d_now, d_badfree);
}
static void put_freed(sb_t *b) {
	sb_put(b, "\"freed\":[");
	for (int i = 0; i < d_nfreed; i++) sb_put(b, "%s%d", i ? "," : "", d_freed[i]);
	sb_put(b, "]");
}
typedef struct { int stop, rmslot, vis[4 * DMAX], nvis; } decb_t;
static int d_enum_cb(void *udata, data_cache_item_p it) {
	decb_t *c = udata; int s = d_slot(it);
	if (c->nvis < 4 * DMAX) c->vis[c->nvis++] = s;
	if (s == c->rmslot) data_cache_item_free(it);
	return (s == c->stop) ? 1 : 0;
}
static int dc_exec(const char *line, sb_t *b) {
	char op[32]; int n = 0;
	if (sscanf(line, "%31s%n", op, &n) != 1) return 0;
	const char *a = line + n;
	d_nfreed = 0;
	if (!strcmp(op, "dnew")) {
		int iv, nb, maxslot = DMAX; long long now;
		sscanf(a, "%d %d %lld %d", &iv, &nb, &now, &maxslot);     /* maxslot: alloc_data_fn fails when that many are out */
		d_maxslot = (maxslot >= 1 && maxslot <= DMAX) ? maxslot : DMAX;
		if (DC) { data_cache_destroy(DC); DC = NULL; }
		for (int s = 1; s <= DMAX; s++) { free(d_live[s]); d_live[s] = NULL; }
		d_badfree = 0; d_nfreed = 0; D_NB = nb; d_now = (time_t)now;
		int rc = data_cache_create(&DC, d_alloc, d_free, d_hash, d_cmp, (uint32_t)iv);
		sb_put(b, "{\"op\":\"dnew\",\"iv\":%d,\"nb\":%d,\"now\":%lld,\"rc\":%d", iv, nb, now, rc);
		return 1;
	}
	if (DC == NULL && strcmp(op, "daddnull")) { sb_put(b, "{\"op\":\"skipped\",\"freed\":[]"); return 1; }
	if (!strcmp(op, "dadd")) {
		int k, fail; data_cache_item_p it = (data_cache_item_p)(uintptr_t)0x1;
		sscanf(a, "%d %d", &k, &fail);
		d_fail_next = fail;
		int rc = data_cache_item_add(DC, (const uint8_t*)&k, sizeof(k), &it);
		d_fail_next = 0;
		sb_put(b, "{\"op\":\"dadd\",\"k\":%d,\"fail\":%d,\"rc\":%d,\"i\":%d,", k, fail, rc,
		    (rc == 0 && it != NULL && it != (data_cache_item_p)(uintptr_t)0x1) ? d_slot(it) : 0);
		put_freed(b);
		return 1;
	}
	if (!strcmp(op, "dget") || !strcmp(op, "dget0")) {
		int k = 0; data_cache_item_p it = (data_cache_item_p)(uintptr_t)0x1;
		int zero = !strcmp(op, "dget0");
		sscanf(a, "%d", &k);
		int rc = data_cache_item_get(DC, (const uint8_t*)&k, zero ? 0 : sizeof(k), &it);
		sb_put(b, "{\"op\":\"%s\",\"k\":%d,\"rc\":%d,\"i\":%d,", op, k, rc,
		    (it != NULL && it != (data_cache_item_p)(uintptr_t)0x1) ? d_slot(it) : 0);
		put_freed(b);
		return 1;
	}
	if (!strcmp(op, "dfree")) {
		int i; sscanf(a, "%d", &i);
		data_cache_item_p it = d_item(i);
		data_cache_item_lock(it);
		data_cache_item_free(it);                 /* NULL (no such item): documented no-op */
		sb_put(b, "{\"op\":\"dfree\",\"i\":%d,", i); put_freed(b);
		return 1;
	}
	if (!strcmp(op, "dset")) {
		int i, upd, inc = 1; long long vu; sscanf(a, "%d %lld %d %d", &i, &vu, &upd, &inc);
		data_cache_item_p it = d_item(i);
		if (it) { data_cache_item_lock(it); it->valid_untill = (time_t)vu; it->updating = (uint32_t)upd; it->returned_count += (uint64_t)inc; data_cache_item_unlock(it); }
		sb_put(b, "{\"op\":\"dset\",\"i\":%d,\"vu\":%lld,\"upd\":%d,\"inc\":%d,", i, vu, upd, inc); put_freed(b);
		return 1;
	}
	if (!strcmp(op, "dclean")) { data_cache_clean(DC); sb_put(b, "{\"op\":\"dclean\","); put_freed(b); return 1; }
	if (!strcmp(op, "dtick")) { int dt; sscanf(a, "%d", &dt); d_now += dt; sb_put(b, "{\"op\":\"dtick\",\"dt\":%d,", dt); put_freed(b); return 1; }
	if (!strcmp(op, "denum") || !strcmp(op, "denumrm")) {
		decb_t c; memset(&c, 0, sizeof(c));
		int v; sscanf(a, "%d", &v);
		if (op[5] == 'r') c.rmslot = v; else c.stop = v;
		int rc = data_cache_enum(DC, d_enum_cb, &c);
		sb_put(b, "{\"op\":\"%s\",\"%s\":%d,\"rc\":%d,\"vis\":[", op, op[5] == 'r' ? "i" : "stop", v, rc);
		for (int i = 0; i < c.nvis; i++) sb_put(b, "%s%d", i ? "," : "", c.vis[i]);
		sb_put(b, "],"); put_freed(b);
		return 1;
	}
	if (!strcmp(op, "ddestroy")) {
		data_cache_destroy(DC); DC = NULL;
		sb_put(b, "{\"op\":\"ddestroy\","); put_freed(b);
		return 1;
	}
	if (!strcmp(op, "daddnull")) {               /* probe: every other entry point answers EINVAL for a NULL cache */
		int k = 1; data_cache_item_p it = NULL;
		int rc_get = data_cache_item_get(NULL, (const uint8_t*)&k, sizeof(k), &it);
		int rc_enum = data_cache_enum(NULL, d_enum_cb, NULL);
		data_cache_clean(NULL); data_cache_destroy(NULL);
		printf("{\"op\":\"daddnull-before\",\"rc_get\":%d,\"rc_enum\":%d}\n", rc_get, rc_enum); fflush(stdout);
		int rc = data_cache_item_add(NULL, (const uint8_t*)&k, sizeof(k), &it);
		sb_put(b, "{\"op\":\"daddnull\",\"rc\":%d,", rc); put_freed(b);
		return 1;
	}
	return 0;
}
static void drand(uint64_t seed, long nops, int nk) {
	rng_t r = { seed * 7919ULL + 13 }; char cmd[128];
	for (long i = 0; i < nops; i++) {
		uint32_t c = rnd(&r) % 100; int nlive = 0, pick = 0;
		for (int s = 1; s <= DMAX; s++) if (d_live[s]) nlive++;
		if (nlive) { int j = (int)(rnd(&r) % (uint32_t)nlive); for (int s = 1; s <= DMAX; s++) if (d_live[s] && j-- == 0) pick = s; }
		if (DC == NULL) { snprintf(cmd, sizeof(cmd), "dnew %d %d %lld", (int)(rnd(&r) % 4), D_NB, (long long)d_now); }
		else if (c < 25) snprintf(cmd, sizeof(cmd), "dadd %d %d", (int)(rnd(&r) % (uint32_t)nk), (rnd(&r) % 8 == 0));
		else if (c < 40) snprintf(cmd, sizeof(cmd), "dget %d", (int)(rnd(&r) % (uint32_t)nk));
		else if (c < 42) snprintf(cmd, sizeof(cmd), "dget0 %d", (int)(rnd(&r) % (uint32_t)nk));
		else if (c < 50) snprintf(cmd, sizeof(cmd), "dfree %d", (rnd(&r) % 5 == 0) ? 0 : pick);
		else if (c < 68) snprintf(cmd, sizeof(cmd), "dset %d %lld %d", pick ? pick : 1, (long long)d_now + (long long)(rnd(&r) % 7) - 3, (rnd(&r) % 4 == 0));
		else if (c < 80) snprintf(cmd, sizeof(cmd), "dclean");
		else if (c < 92) snprintf(cmd, sizeof(cmd), "dtick %d", (int)(rnd(&r) % 3));
		else if (c < 98) snprintf(cmd, sizeof(cmd), "denum %d", (rnd(&r) % 2) ? pick : 0);
		else snprintf(cmd, sizeof(cmd), "ddestroy");
		sb_t b = {0};
		dc_exec(cmd, &b); sb_put(&b, ","); d_state(&b); printf("%s}\n", b.p); free(b.p);
	}
}

/* ------------------------------------------------------------------ main loop */
int main(void) {
	char line[4096];
	unsigned wd_hist = (getenv("X01_WD_HIST_CPU") && atoi(getenv("X01_WD_HIST_CPU")) > 0) ? (unsigned)atoi(getenv("X01_WD_HIST_CPU")) : 240;
	vh_install_fault_handler();
	cur_tid = 1;
	while (fgets(line, sizeof(line), stdin)) {
		char op[32]; int n = 0;
		line[strcspn(line, "\r\n")] = 0;
		if (sscanf(line, "%31s%n", op, &n) != 1) continue;
		vh_set_tag(line);
		/* non-termination watchdog: a single call costs microseconds; a random / free-running history (threads included) of the quick
		 * tier up to 1 s of CPU time and 0.3 s of wall clock, of the thorough tier about ten times that.  Budgets in CPU time of the
		 * process (robust under load) + wall clock backstop; the history budget comes from X01_WD_HIST_CPU (default 240 s) */
		if (!strcmp(op, "rand") || !strcmp(op, "free") || !strcmp(op, "tight") || !strcmp(op, "drand")) vh_watchdog(wd_hist, wd_hist < 80 ? 3 * wd_hist : 240);
		else vh_watchdog(3, 10);
		if (!strcmp(op, "createrc")) {
			static const uint32_t sizes[] = { 0, 1, 2, 3, 4, 5, 6, 7, 8, 12, 16, 24, 256, 257, 1000, 1024, 4096 };
			printf("{\"op\":\"createrc\",\"rows\":[");
			int first = 1;
			for (size_t i = 0; i < sizeof(sizes) / sizeof(sizes[0]); i++) for (int m = 0; m < 8; m++) {
				hbucket_p hb = NULL;
				int rc = hbucket_create(1, sizes[i], NULL, (m & 1) ? NULL : x_hash, (m & 2) ? NULL : x_cmp, (m & 4) ? NULL : &hb);
				printf("%s[%u,%d,%d,%d,%d,%d]", first ? "" : ",", sizes[i], !(m & 1), !(m & 2), !(m & 4), rc, hb != NULL);
				first = 0;
				if (rc == 0 && hb) { if (hb->hashsize != sizes[i] || hbucket_get_entries_count(hb) != 0) abort(); hbucket_destroy(hb, NULL, NULL); }
			}
			printf("]}\n");
		} else if (!strcmp(op, "bigcreate")) {
			int lg; hbucket_p hb = NULL;
			sscanf(line + n, "%d", &lg);
			int rc = hbucket_create(0, (uint32_t)1 << lg, NULL, x_hash, x_cmp, &hb);
			printf("{\"op\":\"bigcreate\",\"log2\":%d,\"rc\":%d}\n", lg, rc);
			if (rc == 0) hbucket_destroy(hb, NULL, NULL);
		} else if (!strcmp(op, "rand")) {
			long long seed; long nops; int nt;
			sscanf(line + n, "%lld %ld %d", &seed, &nops, &nt);
			r_done = 0; r_target = nops;
			run_threads(rand_main, nt, (uint64_t)seed);
		} else if (!strcmp(op, "free")) {
			long long seed; long nops; int nt, nshared = 0;
			sscanf(line + n, "%lld %ld %d %d", &seed, &nops, &nt, &nshared);
			free_mode((uint64_t)seed, nops, nt, nshared);
		} else if (!strcmp(op, "tight")) {
			int nt; sscanf(line + n, "%d %ld", &nt, &t_iters);
			serial_mode = 0;
			run_threads(tight_main, nt, 0);
			serial_mode = 1;
			quiesce_line();
		} else if (!strcmp(op, "drand")) {
			long long seed; long nops; int nk;
			sscanf(line + n, "%lld %ld %d", &seed, &nops, &nk);
			drand((uint64_t)seed, nops, nk);
		} else if (op[0] == 'd' && strcmp(op, "destroy")) {
			sb_t b = {0};
			if (!dc_exec(line, &b)) { printf("{\"op\":\"?\"}\n"); free(b.p); continue; }
			sb_put(&b, ","); d_state(&b); printf("%s}\n", b.p); free(b.p);
		} else {
			sb_t b = {0}; int t = 1;
			if (strcmp(op, "new")) sscanf(line + n, "%d", &t);
			if (!run_on(t, line, &b)) { printf("{\"op\":\"?\"}\n"); free(b.p); continue; }
			sb_put(&b, ","); hb_state(&b); printf("%s}\n", b.p); free(b.p);
		}
		fflush(stdout);
	}
	vh_watchdog(0, 0);
	if (HB) { for (int z = 0; z < H_NZ; z++) if (z_depth[z]) { HB = NULL; break; } }   /* still locked by a worker: leave it */
	if (HB) hbucket_destroy(HB, NULL, NULL);
	if (DC) data_cache_destroy(DC);
	return 0;
}
