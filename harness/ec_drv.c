/* Conformance driver for include/math/elliptic_curve.h (property C02; built once per CONFIGURATION).
 * The configuration macros (BN_DIGIT_BIT_CNT, EC_USE_PROJECTIVE, EC_PROJ_ADD_MIX, EC_PROJ_REPEAT_DOUBLE,
 * EC_PF_FXP_MULT_ALGO/_WIN_BITS, EC_PF_UNKPT_MULT_ALGO/_WIN_BITS, EC_PF_TWIN_MULT_ALGO, BN_CC_MULL_DIV) come from
 * the command line of the build, exactly as a user of the header would set them before including it.
 *
 * Curves: the 32 built-in ones (ec_curve_str[]) and the synthetic ones of specs/ec/EcCurves.tla, the latter given
 * as ec_curve_str_t entries and loaded through the library's own ecdsa_curve_from_str().
 *
 * Protocol: one case per stdin line, one answer line per case.  Numbers are big-endian hex without leading zeros
 * ("0" for zero); a point is "x,y" or "inf".  <cap> says how operand/result points are initialised:
 *   D = EC_CURVE_CALC_BITS_DBL(curve)  (what ec_self_test() uses)      M = curve->m (what ecdsa_verify()/DH use)
 * Scalars are always initialised with EC_CURVE_CALC_BITS_DBL(curve) like every caller in ecdsa.h does.
 *   cfg                                   -> cfg digit=64 proj=1 mix=1 rdbl=1 fxp=4 fxpw=9 unk=3 unkw=2 twin=3 ...
 *   curves                                -> curves <name> <name> ...            (built-in table, in table order)
 *   curve <name>                          -> curve rc=0 m=.. p=.. a=.. b=.. gx=.. gy=.. n=.. h=.. flags=..    (ecdsa_curve_from_str)
 *   validate <name>                       -> ok <rc> <warnings>                 ec_curve_validate
 *   add|sub <name> <cap> <P> <Q>...       -> ok <P+Q> ...      ec_point_add / ec_point_sub on distinct objects
 *   dbl <name> <cap> <P>...               -> ok <2P> ...       ec_point_add(&a, &a)   (aliased operands)
 *   dbln <name> <cap> a|p <j> <P>...      -> ok <2^j P> ...    ec_point_affine_dbl_n / ec_point_proj_dbl_n
 *   mul <name> <cap> <P> <k>...           -> ok <kP> ...       ec_point_unknown_pt_mult
 *   mulbp <name> <cap> <k>...             -> ok <kG> ...       ec_point_mult_bp
 *   twinbp <name> <cap> <Q> <l> <k>...    -> ok <kG+lQ> ...    ec_point_twin_mult_bp
 *   twin <name> <cap> <P> <Q> <l> <k>...  -> ok <kP+lQ> ...    ec_point_twin_mult
 *   ladder <name> <cap> <P> <k>           -> ok <step> ...     left-to-right double-and-add for k*P done HERE with
 *                                            ec_point_add only; every intermediate point (after each doubling and each
 *                                            addition) is printed so that the reference can check the steps one by one
 *   chk <name> <P>...                     -> ok 0|-1 ...       ec_point_check_affine (0 = on curve)
 * Before every library call 32 KiB of stack are filled with 0xA5: locals the library forgets to initialise then hold
 * a defined non-zero pattern instead of whatever the previous call left there (results become reproducible).
 * A non-zero return code of the library is reported in place of the point as "err<rc>".  Every "ok" line ends with " ;"
 * (a line without it was cut short by a crash in the middle of the row). */
#include <sys/param.h>
#include <sys/types.h>
#include <inttypes.h>
#include <stdlib.h>
#include <stdio.h>
#include <unistd.h>
#include <string.h>
#include <errno.h>

#ifndef BN_BIT_LEN
#define BN_BIT_LEN 1408
#endif
#define BN_NO_POINTERS_CHK 1
#define BN_MOD_REDUCE_ALGO BN_MOD_REDUCE_ALGO_BASIC
#define EC_DISABLE_PUB_KEY_CHK 1

#include "vh_util.h"
#include "crypto/dsa/ecdsa.h"

#define TOY(nm, hexlen, mbits, P, A, B, GX, GY, N, H, FL) \
	{ nm, sizeof(nm) - 1, "0.0", 3, hexlen, 4, mbits, {0}, P, "00", 2, A, B, GX, GY, N, H, EC_CURVE_ALGO_ECDSA, FL }
static ec_curve_str_t toy_curves[] = {
	/* name      hex  m   p       a       b       Gx      Gy      n       h  flags */
	TOY("E8M3",   2,  8,  "fb",   "f8",   "1a",   "02",   "a7",   "df",   1, EC_CURVE_FLAG_A_M3),
	TOY("E8M3nf", 2,  8,  "fb",   "f8",   "1a",   "02",   "a7",   "df",   1, 0), /* same curve, a = p-3 without the shortcut flag */
	TOY("E8G",    2,  8,  "ef",   "05",   "3b",   "03",   "24",   "e5",   1, 0),
	TOY("E8Z",    2,  8,  "f1",   "00",   "0d",   "03",   "2f",   "d3",   1, 0),
	TOY("E8C4",   2,  8,  "fb",   "02",   "24",   "02",   "35",   "3b",   4, 0),
	TOY("E13",    4,  13, "1fff", "04d2", "0031", "000f", "0cde", "1f99", 1, 0),
	TOY("E16M3",  4,  16, "fff1", "ffee", "000a", "0006", "1c90", "fe9f", 1, EC_CURVE_FLAG_A_M3),
	/* specs/ec/EcCurvesX.tla: one curve per special-cased shape, groups that contain points with x = 0 and y = 0 */
	TOY("E8M3X",  2,  8,  "fb",   "f8",   "a9",   "27",   "75",   "71",   2, EC_CURVE_FLAG_A_M3),
	TOY("E8M3Xnf",2,  8,  "fb",   "f8",   "a9",   "27",   "75",   "71",   2, 0), /* same curve through the generic-a path */
	TOY("E8ZX",   2,  8,  "ad",   "00",   "15",   "83",   "52",   "1d",   6, 0),
};

/* ---- number I/O that does not go through the library's own import/export code ---- */
static void bn_from_hex(bn_p bn, size_t bits, const char *s) {
	size_t i, n = strlen(s), dig = 0;
	if (0 != bn_init(bn, bits)) { printf("FATAL bn_init(%zu)\n", bits); exit(3); }
	memset(bn->num, 0xA5, sizeof(bn->num));              /* whatever is above `digits` is garbage, as after bn_init() */
	for (i = 0; i < bn->count; i++) bn->num[i] = 0;
	for (i = 0; i < n; i++) {
		int v = vh_hexval(s[n - 1 - i]);
		size_t bit = i * 4;
		if (v < 0) { printf("FATAL bad hex '%s'\n", s); exit(3); }
		if (v == 0) continue;
		if (bit / BN_DIGIT_BITS >= bn->count) { printf("FATAL number does not fit\n"); exit(3); }
		bn->num[bit / BN_DIGIT_BITS] |= ((bn_digit_t)v) << (bit % BN_DIGIT_BITS);
		if (bit / BN_DIGIT_BITS + 1 > dig) dig = bit / BN_DIGIT_BITS + 1;
	}
	bn->digits = dig;
	for (i = dig; i < bn->count; i++) memset(&bn->num[i], 0xA5, sizeof(bn_digit_t));
}
static void bn_put_hex(bn_p bn) {
	int started = 0;
	for (size_t i = bn->digits; i > 0; i--) {
		bn_digit_t d = bn->num[i - 1];
		for (int sh = (int)BN_DIGIT_BITS - 4; sh >= 0; sh -= 4) {
			int v = (int)((d >> sh) & 0xf);
			if (!started && v == 0) continue;
			started = 1;
			putchar("0123456789abcdef"[v]);
		}
	}
	if (!started) putchar('0');
}
static void pt_from_str(ec_point_p pt, size_t bits, char *s) {
	if (0 != ec_point_init(pt, bits)) { printf("FATAL ec_point_init\n"); exit(3); }
	if (!strcmp(s, "inf")) {           /* coordinates of the neutral element are garbage on purpose */
		bn_from_hex(&pt->x, bits, "5a"); bn_from_hex(&pt->y, bits, "a5");
		pt->infinity = 1;
		return;
	}
	char *c = strchr(s, ',');
	if (!c) { printf("FATAL bad point '%s'\n", s); exit(3); }
	*c = 0;
	bn_from_hex(&pt->x, bits, s); bn_from_hex(&pt->y, bits, c + 1);
	*c = ',';
	pt->infinity = 0;
}
static void pt_put(int rc, ec_point_p pt) {
	putchar(' ');
	if (rc != 0) { printf("err%d", rc); return; }
	if (pt->infinity) { fputs("inf", stdout); return; }
	bn_put_hex(&pt->x); putchar(','); bn_put_hex(&pt->y);
}

/* Non-termination watchdog, re-armed before EVERY library call (dirty_stack() precedes each of them) and at the start of every
 * line: wd_cpu_s seconds of CPU time (EC_DRV_WD_CPU; robust on a loaded machine), 6 times that of wall clock.  The slowest
 * row measured (dozens of calls) costs 0.16 s of CPU time.  Expiry = "FAULT sig=14". */
static unsigned wd_cpu_s = 60;
static void __attribute__((noinline)) dirty_stack(void) {
	unsigned char junk[32768];
	vh_watchdog(wd_cpu_s, 6 * wd_cpu_s);
	memset(junk, 0xA5, sizeof(junk));
	__asm__ volatile("" : : "r"(junk) : "memory");       /* keep the store */
}

/* ---- curves ---- */
#define MAX_CURVES 48
static ec_curve_t *loaded[MAX_CURVES];
static const char *loaded_name[MAX_CURVES];
static int loaded_rc[MAX_CURVES];
static size_t nloaded;
static ec_curve_p get_curve(const char *name, int *rc_ret) {
	size_t i;
	ec_curve_str_p cs = NULL;
	for (i = 0; i < nloaded; i++)
		if (!strcmp(loaded_name[i], name)) { if (rc_ret) *rc_ret = loaded_rc[i]; return loaded[i]; }
	for (i = 0; i < nitems(toy_curves); i++)
		if (!strcmp(toy_curves[i].name, name)) cs = &toy_curves[i];
	for (i = 0; !cs && i < nitems(ec_curve_str); i++)      /* by table entry, not through the name_size column */
		if (!strcmp(ec_curve_str[i].name, name)) cs = &ec_curve_str[i];
	if (!cs || nloaded >= MAX_CURVES) { printf("FATAL unknown curve %s\n", name); exit(3); }
	loaded[nloaded] = malloc(sizeof(ec_curve_t));
	loaded_name[nloaded] = strdup(name);
	loaded_rc[nloaded] = ecdsa_curve_from_str(cs, loaded[nloaded]);
	if (rc_ret) *rc_ret = loaded_rc[nloaded];
	return loaded[nloaded++];
}

#define MAXTOK 70000
static char *tok[MAXTOK];

int main(void) {
	char *line = NULL; size_t lcap = 0; ssize_t ll;
	vh_install_fault_handler();
	if (getenv("EC_DRV_WD_CPU") && atoi(getenv("EC_DRV_WD_CPU")) > 0) wd_cpu_s = (unsigned)atoi(getenv("EC_DRV_WD_CPU"));
	while ((ll = getline(&line, &lcap, stdin)) > 0) {
		size_t nt = 0, i;
		char tag[200];
		snprintf(tag, sizeof(tag), "%.190s", line);
		for (char *p = tag; *p; p++) if (*p == '\n') *p = 0;
		vh_set_tag(tag);
		for (char *p = strtok(line, " \n"); p && nt < MAXTOK; p = strtok(NULL, " \n")) tok[nt++] = p;
		if (nt == 0) continue;
		const char *op = tok[0];
		vh_watchdog(wd_cpu_s, 6 * wd_cpu_s);
		if (!strcmp(op, "cfg")) {
			int proj = 0, mix = 0, rdbl = 0, mulldiv = 0;
#ifdef EC_USE_PROJECTIVE
			proj = 1;
#endif
#ifdef EC_PROJ_ADD_MIX
			mix = 1;
#endif
#ifdef EC_PROJ_REPEAT_DOUBLE
			rdbl = 1;
#endif
#ifdef BN_CC_MULL_DIV
			mulldiv = 1;
#endif
			printf("cfg digit=%d bitlen=%d mulldiv=%d proj=%d mix=%d rdbl=%d fxp=%d fxpw=%d unk=%d unkw=%d twin=%d ncurves=%zu\n",
			    (int)BN_DIGIT_BITS, (int)BN_BIT_LEN, mulldiv, proj, mix, rdbl, (int)EC_PF_FXP_MULT_ALGO,
			    (int)EC_PF_FXP_MULT_WIN_BITS, (int)EC_PF_UNKPT_MULT_ALGO, (int)EC_PF_UNKPT_MULT_WIN_BITS,
			    (int)EC_PF_TWIN_MULT_ALGO, (size_t)nitems(ec_curve_str));
			continue;
		}
		if (!strcmp(op, "curves")) {
			printf("curves");
			for (i = 0; i < nitems(ec_curve_str); i++) printf(" %s", ec_curve_str[i].name);
			printf("\n");
			continue;
		}
		if (nt < 2) { printf("FATAL short line\n"); exit(3); }
		int crc = 0;
		ec_curve_p cv = get_curve(tok[1], &crc);
		if (!strcmp(op, "curve")) {
			printf("curve rc=%d", crc);
			if (crc == 0) {
				printf(" m=%zu t=%zu p=", cv->m, cv->t); bn_put_hex(&cv->p);
				printf(" a="); bn_put_hex(&cv->a); printf(" b="); bn_put_hex(&cv->b);
				printf(" gx="); bn_put_hex(&cv->G.x); printf(" gy="); bn_put_hex(&cv->G.y);
				printf(" n="); bn_put_hex(&cv->n);
				printf(" h=%u flags=%u ginf=%d", cv->h, cv->flags, cv->G.infinity);
			}
			printf("\n");
			continue;
		}
		if (crc != 0) { printf("ok curve-err%d ;\n", crc); continue; }
		size_t dbl_bits = EC_CURVE_CALC_BITS_DBL(cv);
		if (!strcmp(op, "validate")) {
			int w = -1, vrc;
			dirty_stack();
			vrc = ec_curve_validate(cv, &w);
			printf("ok %d %d ;\n", vrc, w);
			continue;
		}
		if (!strcmp(op, "chk")) {
			printf("ok");
			for (i = 2; i < nt; i++) {
				ec_point_t a;
				pt_from_str(&a, dbl_bits, tok[i]);
				printf(" %d", a.infinity ? 0 : ec_point_check_affine(&a, cv));
			}
			printf(" ;\n");
			continue;
		}
		if (nt < 3) { printf("FATAL short line\n"); exit(3); }
		size_t pbits = (tok[2][0] == 'M') ? cv->m : dbl_bits;
		int rc;
		printf("ok");
		if (!strcmp(op, "add") || !strcmp(op, "sub")) {
			for (i = 4; i < nt; i++) {
				ec_point_t a, b;
				pt_from_str(&a, pbits, tok[3]); pt_from_str(&b, pbits, tok[i]);
				dirty_stack();
				rc = (op[0] == 'a') ? ec_point_add(&a, &b, cv) : ec_point_sub(&a, &b, cv);
				pt_put(rc, &a);
			}
		} else if (!strcmp(op, "dbl")) {
			for (i = 3; i < nt; i++) {
				ec_point_t a;
				pt_from_str(&a, pbits, tok[i]);
				dirty_stack();
				rc = ec_point_add(&a, &a, cv);
				pt_put(rc, &a);
			}
		} else if (!strcmp(op, "dbln")) {
			size_t j = (size_t)strtoul(tok[4], NULL, 10);
			for (i = 5; i < nt; i++) {
				ec_point_t a;
				pt_from_str(&a, pbits, tok[i]);
				dirty_stack();
				if (tok[3][0] == 'a') {
					rc = ec_point_affine_dbl_n(&a, j, cv);
				} else {
					ec_point_proj_t t;
					rc = ec_point_proj_init(&t, cv->m);
					if (rc == 0) rc = ec_point_proj_import_affine(&t, &a, cv);
					if (rc == 0) rc = ec_point_proj_dbl_n(&t, j, cv);
					if (rc == 0) rc = ec_point_proj_export_affine(&t, &a, cv);
				}
				pt_put(rc, &a);
			}
		} else if (!strcmp(op, "mul")) {
			for (i = 4; i < nt; i++) {
				ec_point_t a; bn_t k;
				pt_from_str(&a, pbits, tok[3]); bn_from_hex(&k, dbl_bits, tok[i]);
				dirty_stack();
				rc = ec_point_unknown_pt_mult(&a, &k, cv);
				pt_put(rc, &a);
			}
		} else if (!strcmp(op, "mulbp")) {
			for (i = 3; i < nt; i++) {
				ec_point_t r; bn_t k;
				pt_from_str(&r, pbits, "inf"); r.infinity = 0; /* result object: initialised, content garbage */
				bn_from_hex(&k, dbl_bits, tok[i]);
				dirty_stack();
				rc = ec_point_mult_bp(&k, cv, &r);
				pt_put(rc, &r);
			}
		} else if (!strcmp(op, "twinbp")) {
			for (i = 5; i < nt; i++) {
				ec_point_t q, r; bn_t k, l;
				pt_from_str(&q, pbits, tok[3]); bn_from_hex(&l, dbl_bits, tok[4]);
				pt_from_str(&r, pbits, "inf"); r.infinity = 0;
				bn_from_hex(&k, dbl_bits, tok[i]);
				dirty_stack();
				rc = ec_point_twin_mult_bp(&k, &q, &l, cv, &r);
				pt_put(rc, &r);
			}
		} else if (!strcmp(op, "twin")) {
			for (i = 6; i < nt; i++) {
				ec_point_t p, q, r; bn_t k, l;
				pt_from_str(&p, pbits, tok[3]); pt_from_str(&q, pbits, tok[4]);
				bn_from_hex(&l, dbl_bits, tok[5]); bn_from_hex(&k, dbl_bits, tok[i]);
				pt_from_str(&r, pbits, "inf"); r.infinity = 0;
				dirty_stack();
				rc = ec_point_twin_mult(&p, &k, &q, &l, cv, &r);
				pt_put(rc, &r);
			}
		} else if (!strcmp(op, "ladder")) {
			ec_point_t acc, p; bn_t k;
			pt_from_str(&p, pbits, tok[3]); bn_from_hex(&k, dbl_bits, tok[4]);
			pt_from_str(&acc, pbits, "inf");
			rc = 0;
			int started = 0;
			for (size_t bit = strlen(tok[4]) * 4; bit > 0 && rc == 0; bit--) {
				size_t bi = bit - 1;
				int set = (bi / BN_DIGIT_BITS < k.digits) && ((k.num[bi / BN_DIGIT_BITS] >> (bi % BN_DIGIT_BITS)) & 1);
				if (!started && !set) continue;              /* leading zero bits */
				started = 1;
				dirty_stack();
				rc = ec_point_add(&acc, &acc, cv);
				pt_put(rc, &acc);
				if (rc == 0 && set) {
					dirty_stack();
					rc = ec_point_add(&acc, &p, cv);
					pt_put(rc, &acc);
				}
			}
		} else {
			printf(" FATAL unknown op %s\n", op); exit(3);
		}
		printf(" ;\n");
	}
	return 0;
}
