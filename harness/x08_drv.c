/* X08 conformance driver: the public thread-pool API outside messages / life cycle / delivery
 * (specs/grow/TpApi*.tla).  Unity build of the two library sources (nothing in them is changed); link with
 *   -Wl,--wrap=epoll_ctl,--wrap=timerfd_create,--wrap=timerfd_settime,--wrap=setsockopt,--wrap=close,
 *       --wrap=sysconf,--wrap=pthread_setaffinity_np,--wrap=pthread_create,--wrap=pthread_join
 * and src/utils/{xml,ini,buf_str}.c, -DTHREAD_POOL_SETTINGS_XML -DTHREAD_POOL_SETTINGS_INI.
 *
 *   x08_drv ev                      stdin: one event-operation case per line -> one JSON answer line each
 *   x08_drv set                     stdin: one settings case per line        -> one JSON answer line each
 *   x08_drv life <scenario> <out>   scripted pools; ndjson observations for TpApiTrace
 *   x08_drv rr <n> <callers> <ms>   concurrent tp_thread_get_rr callers; one JSON line
 *   x08_drv pre                     facts that need a process without any pool; one JSON line
 * The driver never computes an expectation: it reports what the library returned and what reached the wrappers. */
#include <sys/time.h>
#include <semaphore.h>
#include <stdarg.h>
#include <sched.h>
#include <sys/resource.h>
#include <sys/socket.h>
#include <sys/wait.h>
#include "threadpool/threadpool.c"
#include "threadpool/threadpool_msg_sys.c"
#include "utils/ini.h"

int __real_epoll_ctl(int, int, int, struct epoll_event *);
int __real_timerfd_create(int, int);
int __real_timerfd_settime(int, int, const struct itimerspec *, struct itimerspec *);
int __real_setsockopt(int, int, int, const void *, socklen_t);
int __real_close(int);
long __real_sysconf(int);
int __real_pthread_setaffinity_np(pthread_t, size_t, const cpu_set_t *);
int __real_pthread_create(pthread_t *, const pthread_attr_t *, void *(*)(void *), void *);

/* ------------------------------------------------------------------ wrappers: record, never decide */
#define NFD 1024
static void on_case_watchdog(int sig);
static struct { int has; uint32_t ev; void *ptr; } g_int[NFD];   /* acknowledged state of the observed epoll set */
static int g_epfd = -1;
static int g_nctl, g_nset, g_ncreate, g_nlowat, g_nclose_t;
static int g_lowat_val, g_lowat_fd;
static int g_cur_tfd = -1, g_cur_tclock = -1, g_cur_tcflags = 0;
static int g_cur_pfd = -1;
static struct { int abs; long long sec, nsec, isec, insec; int fd; } g_set;
static int g_cr_clock, g_cr_flags;
static int g_known_fd[8], g_nknown;

static int is_known(int fd) { for (int i = 0; i < g_nknown; i++) if (g_known_fd[i] == fd) return 1; return 0; }
int __wrap_epoll_ctl(int epfd, int op, int fd, struct epoll_event *ev) {
	int rc = __real_epoll_ctl(epfd, op, fd, ev);
	int err = errno;
	if (epfd == g_epfd) {
		g_nctl++;
		if (rc == 0 && fd >= 0 && fd < NFD) {
			if (op == EPOLL_CTL_DEL) g_int[fd].has = 0;
			else { g_int[fd].has = 1; g_int[fd].ev = ev->events; g_int[fd].ptr = ev->data.ptr; }
			if (op == EPOLL_CTL_ADD && !is_known(fd) && fd != g_cur_tfd) {
				char path[64], lnk[128]; snprintf(path, sizeof(path), "/proc/self/fd/%d", fd);
				ssize_t n = readlink(path, lnk, sizeof(lnk) - 1);
				if (n > 0) { lnk[n] = 0; if (strstr(lnk, "pidfd") != NULL) g_cur_pfd = fd; }
			}
		}
	}
	errno = err;
	return rc;
}
int __wrap_timerfd_create(int clk, int flags) {
	int fd = __real_timerfd_create(clk, flags);
	int err = errno;
	g_ncreate++; g_cr_clock = clk; g_cr_flags = flags;
	if (fd >= 0) { g_cur_tfd = fd; g_cur_tclock = clk; g_cur_tcflags = flags; }
	errno = err;
	return fd;
}
int __wrap_timerfd_settime(int fd, int flags, const struct itimerspec *nv, struct itimerspec *ov) {
	int rc = __real_timerfd_settime(fd, flags, nv, ov);
	int err = errno;
	g_nset++;
	g_set.abs = (flags & TFD_TIMER_ABSTIME) ? 1 : 0; g_set.fd = fd;
	g_set.sec = (long long)nv->it_value.tv_sec; g_set.nsec = (long long)nv->it_value.tv_nsec;
	g_set.isec = (long long)nv->it_interval.tv_sec; g_set.insec = (long long)nv->it_interval.tv_nsec;
	errno = err;
	return rc;
}
int __wrap_setsockopt(int fd, int level, int name, const void *val, socklen_t len) {
	if (level == SOL_SOCKET && name == SO_RCVLOWAT) {
		g_nlowat++; g_lowat_fd = fd; g_lowat_val = (len >= sizeof(int)) ? *(const int *)val : -1;
	}
	return __real_setsockopt(fd, level, name, val, len);
}
int __wrap_close(int fd) {
	if (fd >= 0 && fd < NFD) g_int[fd].has = 0;
	if (fd == g_cur_tfd && fd >= 0) { g_cur_tfd = -1; g_nclose_t++; }
	if (fd == g_cur_pfd && fd >= 0) { g_cur_pfd = -1; g_nclose_t++; }
	return __real_close(fd);
}
static int g_fake_ncpu_on; static long g_fake_ncpu;
long __wrap_sysconf(int name) {
	if (name == _SC_NPROCESSORS_CONF && g_fake_ncpu_on) { if (g_fake_ncpu < 0) errno = EINVAL; return g_fake_ncpu; }
	return __real_sysconf(name);
}

/* ------------------------------------------------------------------ trace sink (life mode) */
static pthread_mutex_t g_log_mu = PTHREAD_MUTEX_INITIALIZER;
static FILE *g_tr;
static void trace(const char *fmt, ...) {
	if (g_tr == NULL) return;
	va_list ap; va_start(ap, fmt);
	pthread_mutex_lock(&g_log_mu);
	fputc('{', g_tr); vfprintf(g_tr, fmt, ap); fputs("}\n", g_tr);
	pthread_mutex_unlock(&g_log_mu);
	va_end(ap);
}
#define MAXPOOL 4
typedef struct { tp_p tp; size_t n; int alive; int hookv; sem_t started; pthread_t helper; int has_helper; } pool_t;
static pool_t g_pool[MAXPOOL];
static int g_pending = -1;
static int pool_of_tp(const void *tp) { for (int i = 0; i < MAXPOOL; i++) if (g_pool[i].tp == (tp_p)(uintptr_t)tp && tp != NULL) return i; return -1; }
static int pool_of_tpt(tpt_p tpt, long *t_ret) {
	tp_p tp = tpt_get_tp(tpt);
	int p = pool_of_tp(tp);
	if (t_ret) *t_ret = (long)tpt_get_num(tpt);
	return p;
}
static int g_life;
void liblcb_verif_point(const char *label, const void *a, const void *b, uintptr_t val) {
	int saved = errno;
	if (!g_life) return;
	if (0 == strcmp(label, "create.pvt_running")) {
		if (g_pending >= 0) g_pool[g_pending].tp = (tp_p)(uintptr_t)a;
	} else if (0 == strcmp(label, "shutdown.check") || 0 == strcmp(label, "shutdown.set")) {
		trace("\"e\":\"%s\",\"p\":%d,\"v\":%lu", label, pool_of_tp(a), (unsigned long)val);
	} else if (0 == strcmp(label, "tcreate.starting") || 0 == strcmp(label, "tcreate.failed")) {
		long t; int p = pool_of_tpt((tpt_p)(uintptr_t)b, &t);
		trace("\"e\":\"st\",\"p\":%d,\"t\":%ld,\"s\":\"%s\"", p, t, label[8] == 's' ? "starting" : "stop");
	} else if (0 == strcmp(label, "proc.running") || 0 == strcmp(label, "shutdown.cb") || 0 == strcmp(label, "proc.stop")) {
		long t; int p = pool_of_tpt((tpt_p)(uintptr_t)a, &t);
		trace("\"e\":\"st\",\"p\":%d,\"t\":%ld,\"s\":\"%s\"", p, t, label[0] == 's' ? "stoping" : (label[5] == 'r' ? "running" : "stop"));
	}
	errno = saved;
}
int __wrap_pthread_setaffinity_np(pthread_t th, size_t sz, const cpu_set_t *cs) {
	if (g_life) {
		long t = -1; int p = -1;
		tpt_p cur = tpt_get_current();
		if (cur != NULL) p = pool_of_tpt(cur, &t);
		int cnt = CPU_COUNT(cs), first = -1;
		for (int i = 0; i < CPU_SETSIZE; i++) if (CPU_ISSET(i, cs)) { first = i; break; }
		trace("\"e\":\"aff\",\"p\":%d,\"t\":%ld,\"ncpus\":%d,\"cpu\":%d,\"self\":%d,\"szok\":%d", p, t, cnt, first,
		    pthread_equal(th, pthread_self()) ? 1 : 0, sz == sizeof(cpu_set_t));
	}
	return 0; /* recorded, not applied: the scenario's cpu numbers need not exist on this machine */
}
static int g_pc_fail_at; /* k-th creation of a pool thread fails (0 = none) */
static volatile long g_live_threads[MAXPOOL + 1]; /* per pool: threads that have not yet returned from tp_thread_proc */
typedef struct { void *(*fn)(void *); void *arg; int p; } tramp_t;
static void *tramp(void *p) {
	tramp_t t = *(tramp_t *)p; free(p);
	void *r = t.fn(t.arg);
	__sync_fetch_and_sub(&g_live_threads[t.p], 1);
	return r;
}
int __wrap_pthread_create(pthread_t *t, const pthread_attr_t *a, void *(*fn)(void *), void *arg) {
	if (fn != tp_thread_proc) return __real_pthread_create(t, a, fn, arg);
	if (g_pc_fail_at > 0 && --g_pc_fail_at == 0) return ENOMEM;
	tramp_t *tr = malloc(sizeof(*tr)); tr->fn = fn; tr->arg = arg;
	tr->p = pool_of_tp(tpt_get_tp((tpt_p)arg)); if (tr->p < 0) tr->p = MAXPOOL;
	__sync_fetch_and_add(&g_live_threads[tr->p], 1);
	int rc = __real_pthread_create(t, a, tramp, tr);
	if (rc != 0) { __sync_fetch_and_sub(&g_live_threads[tr->p], 1); free(tr); }
	return rc;
}
/* the teardown races of tp_shutdown_wait / tp_destroy belong to property C11: this driver keeps out of their way
 * (a cleared thread id is answered like a checked libc would; the pool is destroyed only after its threads are gone) */
int __real_pthread_join(pthread_t, void **);
int __wrap_pthread_join(pthread_t t, void **ret) { if (t == 0) return ESRCH; return __real_pthread_join(t, ret); }
static void wait_threads_gone(int p) { for (int i = 0; i < 5000 && g_live_threads[p] > 0; i++) usleep(1000); }

/* ------------------------------------------------------------------ small parsing helpers */
static const char *kv(const char *line, const char *key, char *out, size_t outsz) {
	size_t kl = strlen(key);
	const char *p = line;
	while ((p = strstr(p, key)) != NULL) {
		if ((p == line || p[-1] == ' ') && p[kl] == '=') {
			p += kl + 1;
			size_t n = 0;
			while (p[n] && p[n] != ' ' && p[n] != '\n' && n + 1 < outsz) { out[n] = p[n]; n++; }
			out[n] = 0;
			return out;
		}
		p += kl;
	}
	out[0] = 0;
	return NULL;
}
static long long kvi(const char *line, const char *key, long long def) {
	char b[64];
	if (kv(line, key, b, sizeof(b)) == NULL) return def;
	return strtoll(b, NULL, 0);
}
static void evbits(uint32_t ev, char *out) { /* JSON array of names */
	static const struct { uint32_t b; const char *n; } T[] = {
		{ EPOLLIN, "IN" }, { EPOLLPRI, "PRI" }, { EPOLLOUT, "OUT" }, { EPOLLERR, "ERR" }, { EPOLLHUP, "HUP" },
		{ EPOLLRDHUP, "RDHUP" }, { EPOLLONESHOT, "ONESHOT" }, { EPOLLET, "ET" }, { EPOLLEXCLUSIVE, "EXCLUSIVE" } };
	char *o = out; *o++ = '['; int first = 1; uint32_t rest = ev;
	for (size_t i = 0; i < sizeof(T) / sizeof(T[0]); i++) if (ev & T[i].b) { o += sprintf(o, "%s\"%s\"", first ? "" : ",", T[i].n); first = 0; rest &= ~T[i].b; }
	if (rest) o += sprintf(o, "%s\"x%x\"", first ? "" : ",", rest);
	*o++ = ']'; *o = 0;
}

/* ------------------------------------------------------------------ mode ev */
#define FD_A 100
#define FD_FILE 101
#define FD_CLOSED 200
#define FD_EDGE 255
#define FD_LIMIT 256
static void ev_cb(tp_event_p ev, tp_udata_p ud) { (void)ev; (void)ud; }
static tp_p g_evtp[2]; static tpt_p g_evtpt[2];
static pid_t g_nopid;

static uintptr_t ident_of(const char *cls, int event) {
	if (0 == strcmp(cls, "m1")) return (uintptr_t)-1;
	if (0 == strcmp(cls, "big")) return FD_LIMIT;
	if (0 == strcmp(cls, "huge")) return (((uintptr_t)1) << 32) + FD_A;
	if (0 == strcmp(cls, "closed")) return FD_CLOSED;
	if (0 == strcmp(cls, "file")) return FD_FILE;
	if (0 == strcmp(cls, "edge")) return FD_EDGE;
	if (0 == strcmp(cls, "nopid")) return (uintptr_t)g_nopid;
	if (event == TP_EV_TIMER) return 7777;
	if (event == TP_EV_PROC) return (uintptr_t)getpid();
	return FD_A;
}
static int ptr_call(int op, tpt_p tpt, tp_event_p ev, tp_udata_p ud) {
	switch (op) {
	case TP_CTL_ADD: return tpt_ev_add(tpt, ev, ud);
	case TP_CTL_DEL: return tpt_ev_del(ev, ud);
	case TP_CTL_ENABLE: return tpt_ev_enable(1, ev, ud);
	default: return tpt_ev_enable(0, ev, ud);
	}
}
static void ev_setup(void) {
	struct rlimit rl; getrlimit(RLIMIT_NOFILE, &rl); rl.rlim_cur = FD_LIMIT; setrlimit(RLIMIT_NOFILE, &rl);
	int sp[2];
	if (0 != socketpair(AF_UNIX, SOCK_STREAM | SOCK_NONBLOCK, 0, sp)) { perror("socketpair"); exit(3); }
	dup2(sp[0], FD_A); dup2(sp[0], FD_EDGE);
	int nul = open("/dev/null", O_RDWR); dup2(nul, FD_FILE); __real_close(nul);
	__real_close(FD_CLOSED);
	g_known_fd[g_nknown++] = FD_A; g_known_fd[g_nknown++] = FD_EDGE; g_known_fd[g_nknown++] = FD_FILE; g_known_fd[g_nknown++] = FD_CLOSED;
	pid_t c = fork();
	if (c == 0) _exit(0);
	waitpid(c, NULL, 0); g_nopid = c; /* reaped: the number names no process */
	for (int cx = 0; cx < 2; cx++) {
		tp_settings_t s; tp_settings_def(&s);
		s.threads_max = 1; s.flags = cx ? TP_S_F_CLOEXEC : 0;
		if (0 != tp_create(&s, &g_evtp[cx])) { fprintf(stderr, "tp_create failed\n"); exit(3); }
		g_evtpt[cx] = tp_thread_get(g_evtp[cx], 0);
	}
}
static void ev_case(const char *line) {
	char entry[32], nul[16], idc[16], pre[256];
	kv(line, "entry", entry, sizeof(entry)); kv(line, "nul", nul, sizeof(nul)); kv(line, "identc", idc, sizeof(idc));
	kv(line, "pre", pre, sizeof(pre));
	int en = (int)kvi(line, "en", 1), event = (int)kvi(line, "event", 0), other = (int)kvi(line, "other", 0), cx = (int)kvi(line, "cx", 0);
	unsigned flags = (unsigned)kvi(line, "flags", 0); unsigned long fflags = (unsigned long)kvi(line, "fflags", 0);
	unsigned long long data = (unsigned long long)kvi(line, "data", 0);
	tpt_p tpt = g_evtpt[cx];
	g_epfd = (int)tpt->io_fd; /* plumbing only: which epoll set the wrappers watch */
	tp_udata_t ud, ud2; tp_event_t ev;
	memset(&ud, 0, sizeof(ud)); memset(&ud2, 0, sizeof(ud2));
	ud.cb_func = ev_cb; ud.ident = ident_of(idc, event);
	int prefail = 0;
	g_cur_tfd = -1; g_cur_pfd = -1; g_cur_tclock = -1;
	if (other) { /* another object owns the ident */
		ud2.cb_func = ev_cb; ud2.ident = ud.ident;
		tp_event_t e2 = { .event = (uint16_t)((event <= 3) ? event : 0), .flags = 0, .fflags = 0, .data = 0 };
		if (0 != tpt_ev_add(tpt, &e2, &ud2)) prefail = 9;
	}
	if (pre[0] && pre[0] != '-') { /* history: op:ev:fl:ff:data;... issued on the same object, all must be accepted */
		char *sv = NULL; int k = 0;
		for (char *tok = strtok_r(pre, ";", &sv); tok != NULL; tok = strtok_r(NULL, ";", &sv)) {
			int pop; unsigned pev, pfl; unsigned long pff; unsigned long long pd;
			k++;
			if (5 != sscanf(tok, "%d:%u:%u:%lu:%llu", &pop, &pev, &pfl, &pff, &pd)) { prefail = 8; break; }
			tp_event_t pe = { .event = (uint16_t)pev, .flags = (uint16_t)pfl, .fflags = (uint32_t)pff, .data = pd };
			if (pop != TP_CTL_ADD) ud.tpt = tpt;
			if (0 != ptr_call(pop, tpt, &pe, &ud) && prefail == 0) prefail = k;
		}
	}
	/* the call under test */
	int isadd = (0 == strncmp(entry, "add", 3));
	tpt_p tpt_arg = tpt; tp_udata_p udp = &ud; tp_event_p evp = &ev;
	ev.event = (uint16_t)event; ev.flags = (uint16_t)flags; ev.fflags = (uint32_t)fflags; ev.data = data;
	if (0 == strcmp(nul, "ev")) evp = NULL;
	if (0 == strcmp(nul, "ud")) udp = NULL;
	if (0 == strcmp(nul, "cb")) ud.cb_func = NULL;
	if (0 == strcmp(nul, "tpt")) { tpt_arg = NULL; ud.tpt = NULL; }
	else if (!isadd) ud.tpt = tpt; /* the owner as an earlier add (or tp_task) recorded it */
	g_nctl = g_nset = g_ncreate = g_nlowat = g_nclose_t = 0; g_lowat_val = 0; g_lowat_fd = -1;
	memset(&g_set, 0, sizeof(g_set)); g_cr_clock = -1; g_cr_flags = 0;
	int rc;
	if (0 == strcmp(entry, "add")) rc = tpt_ev_add(tpt_arg, evp, udp);
	else if (0 == strcmp(entry, "add_args")) rc = tpt_ev_add_args(tpt_arg, (uint16_t)event, (uint16_t)flags, (uint32_t)fflags, data, udp);
	else if (0 == strcmp(entry, "add_args2")) rc = tpt_ev_add_args2(tpt_arg, (uint16_t)event, (uint16_t)flags, udp);
	else if (0 == strcmp(entry, "del")) rc = tpt_ev_del(evp, udp);
	else if (0 == strcmp(entry, "del_args1")) rc = tpt_ev_del_args1((uint16_t)event, udp);
	else if (0 == strcmp(entry, "enable")) rc = tpt_ev_enable(en, evp, udp);
	else if (0 == strcmp(entry, "enable_args")) rc = tpt_ev_enable_args(en, (uint16_t)event, (uint16_t)flags, (uint32_t)fflags, data, udp);
	else if (0 == strcmp(entry, "enable_args1")) rc = tpt_ev_enable_args1(en, (uint16_t)event, udp);
	else { printf("{\"badentry\":1}\n"); return; }
	/* observations */
	int fd = (ud.ident < NFD) ? (int)ud.ident : -1;
	int inst = (fd >= 0 && g_int[fd].has);
	char evs[160], tmevs[160], pfevs[160];
	evbits(inst ? g_int[fd].ev : 0, evs);
	const char *by = !inst ? "none" : (g_int[fd].ptr == (void *)&ud ? "self" : (g_int[fd].ptr == (void *)&ud2 ? "other" : "unknown"));
	int tm = (g_cur_tfd >= 0), pf = (g_cur_pfd >= 0);
	evbits((tm && g_cur_tfd < NFD && g_int[g_cur_tfd].has) ? g_int[g_cur_tfd].ev : 0, tmevs);
	evbits((pf && g_cur_pfd < NFD && g_int[g_cur_pfd].has) ? g_int[g_cur_pfd].ev : 0, pfevs);
	int tdata_self = (tm && g_cur_tfd < NFD && g_int[g_cur_tfd].has && g_int[g_cur_tfd].ptr == (void *)&ud);
	int pdata_self = (pf && g_cur_pfd < NFD && g_int[g_cur_pfd].has && g_int[g_cur_pfd].ptr == (void *)&ud);
	printf("{\"rc\":%d,\"prefail\":%d,\"nctl\":%d,\"nset\":%d,\"ncreate\":%d,\"nlowat\":%d,\"lowat\":%d,\"lowfd_ok\":%d,"
	    "\"inst\":%s,\"evs\":%s,\"by\":\"%s\",\"tm\":%s,\"treal\":%s,\"tmemfl\":%d,\"tmevs\":%s,\"tdata_self\":%d,\"tcloexec\":%s,\"tnonblock\":%s,"
	    "\"pf\":%s,\"pfevs\":%s,\"pdata_self\":%d,"
	    "\"set\":{\"abs\":%s,\"sec\":%lld,\"nsec\":%lld,\"isec\":%lld,\"insec\":%lld,\"ontimer\":%d},\"cr_real\":%s,\"nclose\":%d}\n",
	    rc, prefail, g_nctl, g_nset, g_ncreate, g_nlowat, g_lowat_val, (g_lowat_fd == fd),
	    inst ? "true" : "false", evs, by, tm ? "true" : "false", (tm && g_cur_tclock == CLOCK_REALTIME) ? "true" : "false",
	    tm ? (int)(TPDATA_FLAGS_GET(ud.tpdata, TP_EV_TIMER) & 3) : 0, tmevs, tdata_self,
	    (tm && (g_cur_tcflags & TFD_CLOEXEC)) ? "true" : "false", (tm && (g_cur_tcflags & TFD_NONBLOCK)) ? "true" : "false",
	    pf ? "true" : "false", pfevs, pdata_self,
	    g_set.abs ? "true" : "false", g_set.sec, g_set.nsec, g_set.isec, g_set.insec, (g_nset > 0 && g_set.fd == g_cur_tfd),
	    (g_cr_clock == CLOCK_REALTIME) ? "true" : "false", g_nclose_t);
	/* back to a clean kernel state */
	if (g_cur_tfd >= 0) __wrap_close(g_cur_tfd);
	if (g_cur_pfd >= 0) __wrap_close(g_cur_pfd);
	for (int i = 0; i < g_nknown; i++) { struct epoll_event ee = { 0 }; __real_epoll_ctl(g_epfd, EPOLL_CTL_DEL, g_known_fd[i], &ee); g_int[g_known_fd[i]].has = 0; }
}

/* ------------------------------------------------------------------ mode set */
static void some_hook(tpt_p tpt) { (void)tpt; }
static int unhex(const char *h, uint8_t *out, size_t cap) {
	size_t n = 0;
	if (h[0] == '-' && h[1] == 0) return 0;
	for (; h[0] && h[1] && n < cap; h += 2) {
		unsigned v; sscanf(h, "%2x", &v); out[n++] = (uint8_t)v;
	}
	return (int)n;
}
static void set_case(const char *line) {
	char fmt[8], init[16], nulls[16], sect[64], hex[4096];
	static uint8_t text[2048];
	kv(line, "fmt", fmt, sizeof(fmt)); kv(line, "init", init, sizeof(init)); kv(line, "nulls", nulls, sizeof(nulls));
	kv(line, "sect", sect, sizeof(sect)); kv(line, "text", hex, sizeof(hex));
	int create = (int)kvi(line, "create", 0); long ncpu = (long)kvi(line, "ncpu", 3);
	int tn = unhex(hex, text, sizeof(text));
	tp_settings_t s; static int udata_obj;
	memset(&s, 0xAA, sizeof(s));
	if (0 == strcmp(fmt, "def")) { /* tp_settings_def on a dirty struct */
		tp_settings_def(NULL);
		tp_settings_def(&s);
		int tail0 = 1; for (size_t i = 3; i < sizeof(s.name); i++) if (s.name[i] != 0) tail0 = 0;
		printf("{\"rc\":0,\"bind\":%s,\"cloexec\":%s,\"oflags\":%u,\"tm\":\"%zu\",\"name\":\"%.15s\",\"nametail0\":%d,\"hooks\":%d,\"udata\":%d,\"crc\":-1}\n",
		    (s.flags & TP_S_F_BIND2CPU) ? "true" : "false", (s.flags & TP_S_F_CLOEXEC) ? "true" : "false",
		    (unsigned)(s.flags & ~(TP_S_F_BIND2CPU | TP_S_F_CLOEXEC)), s.threads_max, s.name, tail0,
		    (s.tpt_on_start != NULL) + (s.tpt_on_stop != NULL), s.udata != NULL);
		return;
	}
	tp_settings_def(&s);
	if (0 == strcmp(init, "preset")) {
		s.flags = TP_S_F_CLOEXEC | 0x10; s.threads_max = 7; strcpy(s.name, "POOLNAME");
		s.tpt_on_start = some_hook; s.tpt_on_stop = some_hook; s.udata = &udata_obj;
	} else if (0 == strcmp(init, "presetb")) {
		s.flags = TP_S_F_BIND2CPU | 0x10; s.threads_max = 7; strcpy(s.name, "POOLNAME");
		s.tpt_on_start = some_hook; s.tpt_on_stop = some_hook; s.udata = &udata_obj;
	}
	tp_settings_t before = s;
	int rc;
	if (0 == strcmp(fmt, "xml")) {
		const uint8_t *b = text; size_t bn = (size_t)tn; tp_settings_p sp = &s;
		if (0 == strcmp(nulls, "buf")) b = NULL;
		if (0 == strcmp(nulls, "size")) bn = 0;
		if (0 == strcmp(nulls, "s")) sp = NULL;
		rc = tp_settings_load_xml(b, bn, sp);
	} else {
		ini_p ini = NULL;
		if (0 != ini_create(&ini) || 0 != ini_buf_parse(ini, text, (size_t)tn)) { printf("{\"inifail\":1}\n"); return; }
		const uint8_t *sn = (const uint8_t *)sect; size_t sl = strlen(sect); tp_settings_p sp = &s; ini_p ip = ini;
		if (0 == strcmp(nulls, "buf")) ip = NULL;
		if (0 == strcmp(nulls, "size")) sl = 0;
		if (0 == strcmp(nulls, "sect")) sn = NULL;
		if (0 == strcmp(nulls, "s")) sp = NULL;
		rc = tp_settings_load_ini(ip, sn, sl, sp);
		ini_destroy(ini);
	}
	int same_other = (0 == memcmp(before.name, s.name, sizeof(s.name)) && before.tpt_on_start == s.tpt_on_start &&
	    before.tpt_on_stop == s.tpt_on_stop && before.udata == s.udata);
	printf("{\"rc\":%d,\"bind\":%s,\"cloexec\":%s,\"oflags\":%u,\"tm\":\"%zu\",\"others_kept\":%d", rc,
	    (s.flags & TP_S_F_BIND2CPU) ? "true" : "false", (s.flags & TP_S_F_CLOEXEC) ? "true" : "false",
	    (unsigned)(s.flags & ~(TP_S_F_BIND2CPU | TP_S_F_CLOEXEC)), s.threads_max, same_other);
	if (!create) { printf(",\"crc\":-1}\n"); return; }
	fflush(stdout);
	s.tpt_on_start = NULL; s.tpt_on_stop = NULL;
	g_fake_ncpu_on = 1; g_fake_ncpu = ncpu;
	tp_p tp = NULL;
	int crc = tp_create(&s, &tp);
	g_fake_ncpu_on = 0;
	printf(",\"crc\":%d", crc);
	if (crc == 0) {
		size_t n = tp_thread_count_max_get(tp);
		printf(",\"n\":%zu,\"cnt\":%zu,\"cpus\":[", n, tp_thread_count_get(tp));
		for (size_t i = 0; i < n && i < 64; i++) printf("%s%d", i ? "," : "", tpt_get_cpu_id(tp_thread_get(tp, i)));
		printf("],\"beyond_null\":%d,\"pvtcpu\":%d,\"udata_ok\":%d", tp_thread_get(tp, n) == NULL, tpt_get_cpu_id(tp_thread_get_pvt(tp)),
		    tp_udata_get(tp) == s.udata);
		tp_destroy(tp);
	}
	printf("}\n");
}

/* ------------------------------------------------------------------ mode life */
typedef struct { int bp, bt; char ops[512]; sem_t done; } job_t;
static size_t idx_of(const char *tok) { return (0 == strcmp(tok, "big")) ? (size_t)-1 : (size_t)strtoul(tok, NULL, 10); }
static long idx_log(const char *tok) { return (0 == strcmp(tok, "big")) ? -2L : strtol(tok, NULL, 10); }
static tpt_p thr_of(int p, long t) { /* t = -1: NULL, t = n: the virtual thread */
	if (t < 0 || p < 0) return NULL;
	if ((size_t)t == g_pool[p].n) return tp_thread_get_pvt(g_pool[p].tp);
	return tp_thread_get(g_pool[p].tp, (size_t)t);
}
static void do_ops(int bp, int bt, char *ops) {
	char *sv = NULL;
	for (char *op = strtok_r(ops, ";", &sv); op != NULL; op = strtok_r(NULL, ";", &sv)) {
		char *a[8]; int na = 0; char *sv2 = NULL;
		for (char *x = strtok_r(op, ":", &sv2); x != NULL && na < 8; x = strtok_r(NULL, ":", &sv2)) a[na++] = x;
		if (na == 0) continue;
		if (0 == strcmp(a[0], "cur")) {
			tpt_p cur = tpt_get_current(); long t = -1; int p = -1;
			if (cur != NULL) p = pool_of_tpt(cur, &t);
			trace("\"e\":\"cur\",\"bp\":%d,\"bt\":%d,\"null\":%d,\"p\":%d,\"num\":%ld,\"same\":%d", bp, bt, cur == NULL, p, t,
			    (cur != NULL && p >= 0 && cur == thr_of(p, t)));
		} else if (0 == strcmp(a[0], "is") && na >= 4) { /* is:p:q:t -> tp_thread_is_tp_thr(pool p, thread t of pool q | NULL) */
			int p = atoi(a[1]), q = atoi(a[2]); long t = atol(a[3]);
			tp_p tp = (p < 0) ? NULL : g_pool[p].tp;
			int r = tp_thread_is_tp_thr(tp, thr_of(q, t));
			trace("\"e\":\"is\",\"bp\":%d,\"bt\":%d,\"p\":%d,\"q\":%d,\"t\":%ld,\"r\":%d", bp, bt, p, q, t, r != 0);
		} else if (0 == strcmp(a[0], "tls.set") && na >= 5) {
			int p = atoi(a[1]); long t = atol(a[2]); long v = atol(a[4]);
			int rc = tpt_tls_set(thr_of(p, t), idx_of(a[3]), (void *)(uintptr_t)v);
			trace("\"e\":\"tls.set\",\"bp\":%d,\"bt\":%d,\"p\":%d,\"t\":%ld,\"i\":%ld,\"v\":%ld,\"rc\":%d", bp, bt, p, t, idx_log(a[3]), v, rc);
		} else if (0 == strcmp(a[0], "tls.get") && na >= 4) {
			int p = atoi(a[1]); long t = atol(a[2]);
			void *v = tpt_tls_get(thr_of(p, t), idx_of(a[3])); size_t sz = tpt_tls_get_sz(thr_of(p, t), idx_of(a[3]));
			trace("\"e\":\"tls.get\",\"bp\":%d,\"bt\":%d,\"p\":%d,\"t\":%ld,\"i\":%ld,\"v\":%ld,\"sz\":%ld", bp, bt, p, t, idx_log(a[3]),
			    (long)(uintptr_t)v, (long)sz);
		} else if (0 == strcmp(a[0], "tls.all") && na >= 2) {
			int p = atoi(a[1]);
			for (long t = 0; t <= (long)g_pool[p].n; t++) for (size_t i = 0; i < TP_TPT_TLS_COUNT; i++)
				trace("\"e\":\"tls.get\",\"bp\":%d,\"bt\":%d,\"p\":%d,\"t\":%ld,\"i\":%zu,\"v\":%ld,\"sz\":%ld", bp, bt, p, t, i,
				    (long)(uintptr_t)tpt_tls_get(thr_of(p, t), i), (long)tpt_tls_get_sz(thr_of(p, t), i));
		} else if (0 == strcmp(a[0], "rr") && na >= 3) {
			int p = atoi(a[1]); int k = atoi(a[2]);
			for (int i = 0; i < k; i++) {
				tpt_p r = tp_thread_get_rr(g_pool[p].tp);
				long idx = -1; /* by address, never dereferenced: the result may lie outside the workers */
				if (r != NULL) idx = (long)(((char *)r - (char *)tp_thread_get(g_pool[p].tp, 0)) / (long)sizeof(tp_thread_t));
				trace("\"e\":\"rr\",\"bp\":%d,\"bt\":%d,\"p\":%d,\"num\":%ld", bp, bt, p, idx);
			}
		} else if (0 == strcmp(a[0], "count") && na >= 2) {
			int p = atoi(a[1]);
			trace("\"e\":\"count\",\"bp\":%d,\"bt\":%d,\"p\":%d,\"max\":%zu,\"cnt\":%zu", bp, bt, p, tp_thread_count_max_get(g_pool[p].tp), tp_thread_count_get(g_pool[p].tp));
		} else if (0 == strcmp(a[0], "ident") && na >= 2) {
			int p = atoi(a[1]); tp_p tp = g_pool[p].tp;
			size_t ks[] = { 0, 1, 2, 3, 4, 5, 6, 7, 8, 9, (size_t)-1 };
			for (size_t j = 0; j < sizeof(ks) / sizeof(ks[0]); j++) {
				if (ks[j] != (size_t)-1 && ks[j] > g_pool[p].n + 1) continue;
				tpt_p t = tp_thread_get(tp, ks[j]);
				trace("\"e\":\"get\",\"p\":%d,\"k\":%ld,\"null\":%d,\"num\":%ld,\"cpu\":%d,\"tpok\":%d", p, (ks[j] == (size_t)-1) ? -2L : (long)ks[j],
				    t == NULL, (long)tpt_get_num(t), tpt_get_cpu_id(t), tpt_get_tp(t) == tp);
			}
			tpt_p pv = tp_thread_get_pvt(tp); int distinct = (pv != NULL);
			for (size_t k = 0; k < g_pool[p].n; k++) if (tp_thread_get(tp, k) == pv) distinct = 0;
			trace("\"e\":\"pvt\",\"p\":%d,\"null\":%d,\"cpu\":%d,\"distinct\":%d,\"tpok\":%d,\"running\":%d", p, pv == NULL, tpt_get_cpu_id(pv), distinct,
			    tpt_get_tp(pv) == tp, tpt_is_running(pv));
		} else if (0 == strcmp(a[0], "nullargs")) {
			trace("\"e\":\"nullargs\",\"get\":%d,\"rr\":%d,\"pvt\":%d,\"max\":%zu,\"cnt\":%zu,\"num_m1\":%d,\"cpu\":%d,\"tp\":%d,\"is\":%d,\"run\":%d,\"udget\":%d,\"udset\":%d,\"mq\":%d",
			    tp_thread_get(NULL, 0) == NULL, tp_thread_get_rr(NULL) == NULL, tp_thread_get_pvt(NULL) == NULL, tp_thread_count_max_get(NULL),
			    tp_thread_count_get(NULL), tpt_get_num(NULL) == (size_t)-1, tpt_get_cpu_id(NULL), tpt_get_tp(NULL) == NULL,
			    tp_thread_is_tp_thr(NULL, NULL), tpt_is_running(NULL), tp_udata_get(NULL) == NULL, tp_udata_set(NULL, NULL), tpt_get_msg_queue(NULL) == NULL);
		}
	}
}
static void job_cb(tpt_p tpt, void *udata) { (void)tpt; job_t *j = udata; do_ops(j->bp, j->bt, j->ops); sem_post(&j->done); }
static void life_on_start(tpt_p tpt) {
	long t; int p = pool_of_tpt(tpt, &t);
	if (p < 0) p = g_pending;
	char nm[64] = "";
	int worker = (p >= 0 && tpt != tp_thread_get_pvt(g_pool[p].tp));
	if (worker) pthread_getname_np(pthread_self(), nm, sizeof(nm));
	tpt_p cur = tpt_get_current();
	trace("\"e\":\"hook.start\",\"p\":%d,\"t\":%ld,\"worker\":%d,\"name\":\"%s\",\"run\":%d,\"curself\":%d,\"curnull\":%d", p, t, worker, nm,
	    tpt_is_running(tpt), cur == tpt, cur == NULL);
	if (p >= 0 && g_pool[p].hookv != 0 && worker) {
		long v = g_pool[p].hookv + t;
		int rc = tpt_tls_set(tpt, 1, (void *)(uintptr_t)v);
		trace("\"e\":\"tls.set\",\"bp\":%d,\"bt\":%ld,\"p\":%d,\"t\":%ld,\"i\":1,\"v\":%ld,\"rc\":%d", p, t, p, t, v, rc);
	}
	if (p >= 0 && worker) sem_post(&g_pool[p].started);
}
static void life_on_stop(tpt_p tpt) {
	long t; int p = pool_of_tpt(tpt, &t);
	int worker = (p >= 0 && tpt != tp_thread_get_pvt(g_pool[p].tp));
	trace("\"e\":\"hook.stop\",\"p\":%d,\"t\":%ld,\"worker\":%d,\"run\":%d,\"curself\":%d", p, t, worker, tpt_is_running(tpt), tpt_get_current() == tpt);
	if (p >= 0 && worker) {
		void *v = tpt_tls_get(tpt, 1);
		trace("\"e\":\"tls.get\",\"bp\":%d,\"bt\":%ld,\"p\":%d,\"t\":%ld,\"i\":1,\"v\":%ld,\"sz\":%ld", p, t, p, t, (long)(uintptr_t)v, (long)tpt_tls_get_sz(tpt, 1));
	}
}
static void *attach_helper(void *arg) {
	int p = (int)(intptr_t)arg;
	int rc = tp_thread_attach_first(g_pool[p].tp);
	trace("\"e\":\"attach.ret\",\"p\":%d,\"rc\":%d,\"curnull\":%d", p, rc, tpt_get_current() == NULL);
	return NULL;
}
static int life_main(const char *scn, const char *out) {
	FILE *f = fopen(scn, "r"); if (!f) { perror(scn); return 3; }
	g_tr = fopen(out, "w"); if (!g_tr) { perror(out); return 3; }
	g_life = 1;
	char line[1024];
	{	/* watchdog of the whole script: 10 s of CPU time of the process (a spinning pool thread) or 60 s of wall clock -> "FAULT sig=14" */
		struct itimerval it; memset(&it, 0, sizeof(it)); it.it_value.tv_sec = 10;
		signal(SIGALRM, on_case_watchdog); signal(SIGPROF, on_case_watchdog);
		setitimer(ITIMER_PROF, &it, NULL);
		alarm(60);
	}
	while (fgets(line, sizeof(line), f)) {
		size_t L = strlen(line); while (L && (line[L - 1] == '\n' || line[L - 1] == ' ')) line[--L] = 0;
		if (L == 0 || line[0] == '#') continue;
		char cmd[32]; int p = -1; sscanf(line, "%31s %d", cmd, &p);
		if (0 == strcmp(cmd, "create")) { /* create p n bind ncpu hookv name */
			int n, bind, hookv; long ncpu; char name[32] = "TP";
			sscanf(line, "%*s %d %d %d %ld %d %31s", &p, &n, &bind, &ncpu, &hookv, name);
			tp_settings_t s; tp_settings_def(&s);
			s.threads_max = (size_t)n; s.flags = bind ? TP_S_F_BIND2CPU : 0; strlcpy(s.name, name, sizeof(s.name));
			s.tpt_on_start = life_on_start; s.tpt_on_stop = life_on_stop; s.udata = &g_pool[p];
			g_pool[p].hookv = hookv; sem_init(&g_pool[p].started, 0, 0); g_pool[p].tp = NULL; g_pool[p].has_helper = 0;
			g_fake_ncpu_on = 1; g_fake_ncpu = ncpu; g_pending = p;
			tp_p tp = NULL;
			trace("\"e\":\"create.call\",\"p\":%d,\"n\":%d,\"bind\":%d,\"ncpu\":%ld,\"name\":\"%s\"", p, n, bind, ncpu, name);
			int rc = tp_create(&s, &tp);
			g_fake_ncpu_on = 0; g_pending = -1;
			g_pool[p].tp = tp; g_pool[p].alive = (rc == 0);
			g_pool[p].n = tp_thread_count_max_get(tp); /* plumbing: how the script addresses the virtual thread; the value itself is checked by the "create" line */
			trace("\"e\":\"create\",\"p\":%d,\"rc\":%d,\"max\":%zu,\"udata_ok\":%d", p, rc, tp_thread_count_max_get(tp), tp_udata_get(tp) == (void *)&g_pool[p]);
		} else if (0 == strcmp(cmd, "start")) { /* start p skip failk expect */
			int skip, failk, expect;
			sscanf(line, "%*s %d %d %d %d", &p, &skip, &failk, &expect);
			g_pc_fail_at = failk;
			int rc = tp_threads_create(g_pool[p].tp, skip);
			g_pc_fail_at = 0;
			/* threads that are still starting count already */
			trace("\"e\":\"count\",\"bp\":-1,\"bt\":-1,\"p\":%d,\"max\":%zu,\"cnt\":%zu", p, tp_thread_count_max_get(g_pool[p].tp), tp_thread_count_get(g_pool[p].tp));
			for (int i = 0; i < expect; i++) { struct timespec ts; clock_gettime(CLOCK_REALTIME, &ts); ts.tv_sec += 10; if (0 != sem_timedwait(&g_pool[p].started, &ts)) { trace("\"e\":\"Hang\",\"where\":\"start\""); break; } }
			trace("\"e\":\"start.ret\",\"p\":%d,\"skip\":%d,\"rc\":%d", p, skip, rc);
		} else if (0 == strcmp(cmd, "attach")) {
			pthread_create(&g_pool[p].helper, NULL, attach_helper, (void *)(intptr_t)p); g_pool[p].has_helper = 1;
			struct timespec ts; clock_gettime(CLOCK_REALTIME, &ts); ts.tv_sec += 10;
			if (0 != sem_timedwait(&g_pool[p].started, &ts)) trace("\"e\":\"Hang\",\"where\":\"attach\"");
		} else if (0 == strcmp(cmd, "joinattach")) {
			if (g_pool[p].has_helper) { pthread_join(g_pool[p].helper, NULL); g_pool[p].has_helper = 0; }
		} else if (0 == strcmp(cmd, "main")) { /* main <ops> : issued by this (foreign) thread */
			char *ops = strchr(line, ' '); if (ops) do_ops(-1, -1, ops + 1);
		} else if (0 == strcmp(cmd, "on")) { /* on p t <ops> : issued on worker t of pool p */
			int t; char ops[512] = "";
			sscanf(line, "%*s %d %d %511s", &p, &t, ops);
			job_t j; j.bp = p; j.bt = t; strcpy(j.ops, ops); sem_init(&j.done, 0, 0);
			int rc = tpt_msg_send(tp_thread_get(g_pool[p].tp, (size_t)t), NULL, 0, job_cb, &j);
			if (rc == 0) { struct timespec ts; clock_gettime(CLOCK_REALTIME, &ts); ts.tv_sec += 10; if (0 != sem_timedwait(&j.done, &ts)) { trace("\"e\":\"Hang\",\"where\":\"on\""); fflush(g_tr); _exit(4); } }
			else trace("\"e\":\"on.fail\",\"p\":%d,\"t\":%d,\"rc\":%d", p, t, rc);
		} else if (0 == strcmp(cmd, "sigadd")) {
			int rc = tp_signal_handler_add_tp(p < 0 ? NULL : g_pool[p].tp);
			trace("\"e\":\"sig.add\",\"p\":%d,\"rc\":%d", p, rc);
		} else if (0 == strcmp(cmd, "sig")) { /* sig s  (p holds the signal number) */
			trace("\"e\":\"sig.call\",\"s\":%d", p);
			tp_signal_handler(p);
			trace("\"e\":\"sig.ret\",\"s\":%d", p);
		} else if (0 == strcmp(cmd, "sigdead")) { /* the handler after the registered pool was destroyed: in a child, the parent survives */
			fflush(g_tr);
			pid_t c = fork();
			if (c == 0) { g_tr = NULL; close(1); close(2); tp_signal_handler(p); _exit(0); }
			int st = 0; waitpid(c, &st, 0);
			trace("\"e\":\"sig.dead\",\"s\":%d,\"crash\":%d", p, !(WIFEXITED(st) && WEXITSTATUS(st) == 0));
		} else if (0 == strcmp(cmd, "shutdown")) {
			trace("\"e\":\"shutdown.call\",\"p\":%d", p);
			tp_shutdown(g_pool[p].tp);
			trace("\"e\":\"shutdown.ret\",\"p\":%d", p);
		} else if (0 == strcmp(cmd, "wait")) {
			int rc = tp_shutdown_wait(g_pool[p].tp);
			wait_threads_gone(p);
			trace("\"e\":\"wait.ret\",\"p\":%d,\"rc\":%d", p, rc);
		} else if (0 == strcmp(cmd, "destroy")) {
			wait_threads_gone(p);
			int rc = tp_destroy(g_pool[p].tp);
			trace("\"e\":\"destroy\",\"p\":%d,\"rc\":%d", p, rc);
			if (rc == 0) { g_pool[p].alive = 0; g_pool[p].tp = NULL; }
		} else if (0 == strcmp(cmd, "reset")) {
			trace("\"e\":\"Reset\"");
		} else if (0 == strcmp(cmd, "sleep")) {
			usleep((useconds_t)p);
		}
	}
	fclose(f);
	fflush(g_tr); fclose(g_tr); g_tr = NULL;
	return 0;
}

/* ------------------------------------------------------------------ mode rr */
static tp_p g_rrtp; static size_t g_rrn; static volatile int g_rrstop;
static long g_rr_tot, g_rr_pvt, g_rr_oob, g_rr_hist[64];
static void *rr_hammer(void *arg) {
	(void)arg;
	long tot = 0, pv = 0, oob = 0, hist[64] = { 0 };
	char *base = (char *)tp_thread_get(g_rrtp, 0);
	while (!g_rrstop) {
		tpt_p r = tp_thread_get_rr(g_rrtp);
		size_t idx = (size_t)(((char *)r - base) / (long)sizeof(tp_thread_t));
		tot++;
		if (idx == g_rrn) pv++; else if (idx > g_rrn) oob++; else hist[idx]++;
	}
	__sync_fetch_and_add(&g_rr_tot, tot); __sync_fetch_and_add(&g_rr_pvt, pv); __sync_fetch_and_add(&g_rr_oob, oob);
	for (size_t i = 0; i < g_rrn && i < 64; i++) __sync_fetch_and_add(&g_rr_hist[i], hist[i]);
	return NULL;
}
static int rr_main(int n, int callers, int ms) {
	tp_settings_t s; tp_settings_def(&s); s.threads_max = (size_t)n; s.flags = 0;
	if (0 != tp_create(&s, &g_rrtp)) return 3;
	g_rrn = (size_t)n;
	pthread_t th[16]; if (callers > 16) callers = 16;
	for (int i = 0; i < callers; i++) __real_pthread_create(&th[i], NULL, rr_hammer, NULL);
	usleep((useconds_t)ms * 1000); g_rrstop = 1;
	for (int i = 0; i < callers; i++) pthread_join(th[i], NULL);
	printf("{\"n\":%d,\"callers\":%d,\"total\":%ld,\"pvt\":%ld,\"oob\":%ld,\"hist\":[", n, callers, g_rr_tot, g_rr_pvt, g_rr_oob);
	for (int i = 0; i < n; i++) printf("%s%ld", i ? "," : "", g_rr_hist[i]);
	printf("]}\n");
	tp_destroy(g_rrtp);
	return 0;
}

/* ------------------------------------------------------------------ mode pre */
static int pre_main(void) {
	/* some other component of the process owns thread-specific data before the pool library is initialised */
	pthread_key_t k; static int other_lib_data = 42;
	pthread_key_create(&k, NULL); pthread_setspecific(k, &other_lib_data);
	tpt_p cur = tpt_get_current();
	int qmacro = 0;
#if defined(tpt_ev_q_add) && defined(tpt_ev_q_del) && defined(tpt_ev_q_enable)
	qmacro = ((void *)tpt_ev_q_del == (void *)tpt_ev_del) && ((void *)tpt_ev_q_add == (void *)tpt_ev_add) && ((void *)tpt_ev_q_enable == (void *)tpt_ev_enable);
#endif
	printf("{\"cur_before_init_null\":%d,\"q_names_are_macros_for_direct_calls\":%d,\"tls_count\":%d}\n", cur == NULL, qmacro, (int)TP_TPT_TLS_COUNT);
	return 0;
}

/* per-case non-termination watchdog of the table modes (a case takes microseconds): 2 s of CPU time of the process (robust on a
 * loaded machine) or 20 s of wall clock without an answer = the call did not return -> "FAULT sig=14", exit 99 */
static void on_case_watchdog(int sig) {
	static const char m[] = "\nFAULT sig=14 watchdog: the call did not return\n";
	(void)sig; (void)!write(2, m, sizeof(m) - 1); _exit(99);
}
static void case_watchdog(void) {
	struct itimerval it; memset(&it, 0, sizeof(it)); it.it_value.tv_sec = 2;
	signal(SIGALRM, on_case_watchdog); signal(SIGPROF, on_case_watchdog);
	setitimer(ITIMER_PROF, &it, NULL);
	alarm(20);
}
int main(int argc, char **argv) {
	setvbuf(stdout, NULL, _IOLBF, 0);
	signal(SIGPIPE, SIG_IGN);
	if (argc < 2) { fprintf(stderr, "usage: x08_drv ev|set|life|rr|pre ...\n"); return 2; }
	if (0 == strcmp(argv[1], "pre")) return pre_main();
	if (0 == strcmp(argv[1], "rr") && argc >= 5) return rr_main(atoi(argv[2]), atoi(argv[3]), atoi(argv[4]));
	if (0 == strcmp(argv[1], "life") && argc >= 4) return life_main(argv[2], argv[3]);
	static char line[8192];
	if (0 == strcmp(argv[1], "ev")) {
		ev_setup();
		while (fgets(line, sizeof(line), stdin)) { case_watchdog(); ev_case(line); }
		return 0;
	}
	if (0 == strcmp(argv[1], "set")) {
		struct rlimit rl; getrlimit(RLIMIT_NOFILE, &rl); rl.rlim_cur = 256; setrlimit(RLIMIT_NOFILE, &rl);
		while (fgets(line, sizeof(line), stdin)) { case_watchdog(); set_case(line); }
		return 0;
	}
	return 2;
}
