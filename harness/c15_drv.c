/* Conformance driver for C15: DNS message builder/parser and RADIUS packet builder/signer.
 * One case per stdin line, one answer line per case (see rig/checks/c15.py for the renderer).
 * All library buffers are exact-size heap blocks (ASan build), so an access outside the declared
 * capacity / message size is observed, not inferred.
 *
 *   dnsmsg <cap> <op>;<op>;...          replay a builder history on a <cap>-byte buffer, then validate+parse
 *        op = h,<id:4hex>,<flags:4hex> | q,<name>,<type>,<class> | r,<an|ns|ar>,<name>,<type>,<class>,<ttl:8hex>,<rdata>
 *           | o,<udp>,<ver>,<exrc>,<exflags:4hex>,<rdata>                      (<name>,<rdata>: hex or "-")
 *   dnsname <name> <wire>               name <-> label sequence functions at exact / too small capacities
 *   dnsx <cap> <op>;<op>;...            like dnsmsg, RDATA given in parts: r,<an|ns|ar>,<name>,<type>,<class>,<ttl>,<part>+<part>...
 *        part = b:<hex> (plain octets) | n:<name> (a domain name, written with DomainNameToSequenceOfLabels); "-" = no RDATA.
 *        The message is then read back like dnsp, the RDATA shapes being those of the parts.
 *   dnsp <msg:hex> <shape>|<shape>|...  read a message back (it may use RFC 1035 4.1.4 compression pointers): one shape per
 *        resource record in message order, shape = parts joined by '+': n (a name) | b<k> (k octets) | r (all octets) | -
 *        -> val= sizeget= info= cnt= qd=<name>/<t>/<c>|.. rr=<sec>/<name>/<t>/<c>/<ttl>/<part>+..|..   (!<rc> where a call failed)
 *   radb <cap> <op>;...                 RADIUS builder history, then radius_pkt_chk + attribute listing
 *   rads / radp ...                     RADIUS sign / verify / password scenarios (see below)
 */
#include <sys/param.h>
#include <sys/types.h>
#include <inttypes.h>
#include <errno.h>
#include "vh_util.h"
#include "proto/dns.h"
#include "proto/radius.h"

#define MAXTOK 320
static int split(char *s, char sep, char **tok, int max) {
	int n = 0;
	if (!*s) return 0;
	tok[n++] = s;
	for (; *s; s++) if (*s == sep) { *s = 0; if (n < max) tok[n++] = s + 1; }
	return n;
}
static void hexcat(const uint8_t *p, size_t n) { vh_puthex(p, n); }

/* ------------------------------------------------------------------ DNS message */
static void dns_list(dns_hdr_p h, size_t size, size_t off, size_t cnt, int is_q, int *perr) {
	uint8_t name[320];
	for (size_t i = 0; i < cnt && *perr == 0; i++) {
		size_t nl = sizeof(name), isz = 0;
		uint16_t t = 0, c = 0, dsz = 0; uint32_t ttl = 0; void *data = NULL;
		int e;
		memset(name, 0xEE, sizeof(name));
		if (is_q) e = dns_msg_question_get_data(h, size, off, name, &nl, &t, &c, &isz);
		else e = dns_msg_rr_get_data(h, size, off, name, &nl, &t, &c, &ttl, &dsz, &data, &isz);
		if (e != 0) { *perr = e; break; }
		if (i) putchar('|');
		hexcat(name, nl);
		printf("/%u/%u", t, c);
		if (!is_q) {
			uint8_t tb[4];
			if (t == DNS_RR_TYPE_OPT) memcpy(tb, &ttl, 4); /* library hands the OPT "ttl" out as stored */
			else { tb[0] = (uint8_t)(ttl >> 24); tb[1] = (uint8_t)(ttl >> 16); tb[2] = (uint8_t)(ttl >> 8); tb[3] = (uint8_t)ttl; }
			putchar('/'); hexcat(tb, 4); putchar('/'); hexcat((uint8_t*)data, dsz);
		}
		off += isz;
	}
	if (cnt == 0) putchar('-');
}

static void do_dnsmsg(char *args) {
	char *sp = strchr(args, ' ');
	if (!sp) { printf("dnsmsg bad\n"); return; }
	*sp = 0;
	size_t cap = (size_t)atol(args), cur = 0;
	char *ops[MAXTOK]; int nops = split(sp + 1, ';', ops, MAXTOK);
	uint8_t *buf = vh_buf(cap);
	dns_hdr_p h = (dns_hdr_p)buf;
	int rcs[MAXTOK]; size_t needs[MAXTOK];
	for (int i = 0; i < nops; i++) {
		char *f[12]; int nf = split(ops[i], ',', f, 12);
		size_t need = (size_t)-1, n1 = 0, n2 = 0; int rc = -1;
		if (f[0][0] == 'h' && nf == 3) {
			uint8_t *id = vh_unhex(f[1], &n1), *fl = vh_unhex(f[2], &n2);
			uint16_t id16, fl16; memcpy(&id16, id, 2); memcpy(&fl16, fl, 2); /* opaque wire octets */
			rc = dns_hdr_create(id16, fl16, h, cap, &need);
			vh_buf_free(id); vh_buf_free(fl);
		} else if (f[0][0] == 'q' && nf == 4) {
			uint8_t *nm = vh_unhex(f[1], &n1);
			rc = dns_msg_question_add(h, cur, cap, 0, nm, n1, (uint16_t)atoi(f[2]), (uint16_t)atoi(f[3]), &need);
			vh_buf_free(nm);
		} else if (f[0][0] == 'r' && nf == 7) {
			uint8_t *nm = vh_unhex(f[2], &n1), *rd = vh_unhex(f[6], &n2);
			uint32_t ttl = (uint32_t)strtoul(f[5], NULL, 16);
			rc = dns_msg_rr_add(h, cur, cap, 0, nm, n1, (uint16_t)atoi(f[3]), (uint16_t)atoi(f[4]), ttl,
			    (uint16_t)n2, rd, &need);
			if (rc == 0) { /* the caller accounts for the record in the section it is building */
				if (!strcmp(f[1], "an")) dns_hdr_an_inc(h, 1);
				else if (!strcmp(f[1], "ns")) dns_hdr_ns_inc(h, 1);
				else dns_hdr_ar_inc(h, 1);
			}
			vh_buf_free(nm); vh_buf_free(rd);
		} else if (f[0][0] == 'o' && nf == 6) {
			uint8_t *fl = vh_unhex(f[4], &n1), *rd = vh_unhex(f[5], &n2);
			uint16_t fl16; memcpy(&fl16, fl, 2);
			rc = dns_msg_optrr_add(h, cur, cap, (uint16_t)atoi(f[1]), (uint8_t)atoi(f[2]), (uint8_t)atoi(f[3]),
			    fl16, (uint16_t)n2, rd, &need);
			if (rc == 0) dns_hdr_ar_inc(h, 1);
			vh_buf_free(fl); vh_buf_free(rd);
		}
		rcs[i] = rc; needs[i] = need;
		if (rc == 0) cur = need;
	}
	printf("dnsmsg rcs=");
	for (int i = 0; i < nops; i++) printf("%s%d", i ? "," : "", rcs[i]);
	printf(" needs=");
	for (int i = 0; i < nops; i++) printf("%s%zd", i ? "," : "", (ssize_t)needs[i]);
	if (cur > cap) { printf(" msg=OVERCAP:%zu\n", cur); vh_buf_free(buf); return; }
	printf(" msg="); hexcat(buf, cur);
	if (cur >= sizeof(dns_hdr_t)) {
		/* parse a copy that is exactly as large as the message */
		uint8_t *m = vh_buf(cur); memcpy(m, buf, cur);
		dns_hdr_p mh = (dns_hdr_p)m;
		size_t qd = 0, an = 0, ns = 0, ar = 0, rrc = 0, sz = 0; int perr = 0;
		int v = dns_msg_validate(mh, cur);
		size_t sg = dns_msg_size_get(mh, cur);
		int ie = dns_msg_info_get(mh, cur, &qd, &an, &ns, &ar, &rrc, &sz);
		printf(" val=%d sizeget=%zu info=%d,%zu,%zu,%zu,%zu,%zu,%zu", v, sg, ie, qd, an, ns, ar, rrc, sz);
		if (ie == 0) {
			printf(" cnt=%u,%u,%u,%u", dns_hdr_qd_get(mh), dns_hdr_an_get(mh), dns_hdr_ns_get(mh), dns_hdr_ar_get(mh));
			printf(" qd="); dns_list(mh, cur, qd, dns_hdr_qd_get(mh), 1, &perr);
			printf(" an="); dns_list(mh, cur, an, dns_hdr_an_get(mh), 0, &perr);
			printf(" ns="); dns_list(mh, cur, ns, dns_hdr_ns_get(mh), 0, &perr);
			printf(" ar="); dns_list(mh, cur, ar, dns_hdr_ar_get(mh), 0, &perr);
			printf(" perr=%d", perr);
		}
		vh_buf_free(m);
	}
	printf("\n");
	vh_buf_free(buf);
}

/* ------------------------------------------------------------------ DNS names */
static void do_dnsname(char *args) {
	char *f[4]; int nf = split(args, ' ', f, 4);
	if (nf < 2) { printf("dnsname bad\n"); return; }
	size_t nl, wl;
	uint8_t *nm = vh_unhex(f[0], &nl), *wire = vh_unhex(f[1], &wl);
	size_t need = (nl == 0) ? 1 : nl + 2;
	printf("dnsname");
	/* encoder at exact capacity and one octet short */
	for (int d = 0; d <= 1; d++) {
		size_t cap = need - (size_t)d, sz = (size_t)-1;
		uint8_t *b = vh_buf(cap);
		int e = DomainNameToSequenceOfLabels(nm, nl, b, cap, &sz);
		printf(" enc%d=%d,%zd,", d, e, (ssize_t)sz); hexcat(b, e == 0 ? sz : 0);
		vh_buf_free(b);
	}
	{ /* the same through the message-level wrapper, name placed right after a header */
		size_t cap = 12 + need, sz = (size_t)-1;
		uint8_t *b = vh_buf(cap); memset(b, 0, 12);
		int e = dns_msg_name2sequence_of_labels((dns_hdr_p)b, cap, 12, nm, nl, 0, &sz);
		printf(" menc=%d,%zd,", e, (ssize_t)sz); hexcat(b + 12, e == 0 ? sz : 0);
		vh_buf_free(b);
	}
	if (wl > 1) { /* decoders on the reference wire form (exact-size input block) */
		size_t n = (size_t)-1, tl = wl - 2; int e;
		e = SequenceOfLabelsGetSize(wire, wl, &n);
		printf(" gsz=%d,%zd", e, (ssize_t)n);
		for (int d = 0; d <= 1; d++) {
			size_t cap = wl - 1 - (size_t)d; n = (size_t)-1;
			uint8_t *o = vh_buf(cap);
			e = (cap == 0) ? -2 : SequenceOfLabelsToDomainName(wire, wl, o, cap, &n);
			printf(" dec%d=%d,%zd,", d, e, (ssize_t)n); hexcat(o, e == 0 ? tl : 0);
			vh_buf_free(o);
		}
		uint8_t *m = vh_buf(12 + wl); memset(m, 0, 12); memcpy(m + 12, wire, wl);
		n = (size_t)-1;
		e = dns_msg_sequence_of_labels_get_name_len((dns_hdr_p)m, 12 + wl, 12, &n);
		printf(" mlen=%d,%zd", e, (ssize_t)n);
		size_t caps[3] = { tl + 2, tl + 1, tl };
		for (int d = 0; d < 3; d++) {
			n = (size_t)-1;
			uint8_t *o = vh_buf(caps[d]);
			e = (caps[d] == 0) ? -2 : dns_msg_sequence_of_labels2name((dns_hdr_p)m, 12 + wl, 12, o, caps[d], &n);
			printf(" mdec%d=%d,%zd,", d, e, (ssize_t)n); hexcat(o, e == 0 ? tl : 0);
			vh_buf_free(o);
		}
		vh_buf_free(m);
	}
	printf("\n");
	vh_buf_free(nm); vh_buf_free(wire);
}


/* ------------------------------------------------------------------ DNS: names at the RFC limits, names inside RDATA, compression */
static void dns_read_back(uint8_t *m, size_t size, char **shapes, int nshapes) {
	dns_hdr_p mh = (dns_hdr_p)m;
	size_t qd = 0, an = 0, ns = 0, ar = 0, rrc = 0, sz = 0;
	uint8_t name[320];
	int v = dns_msg_validate(mh, size);
	size_t sg = dns_msg_size_get(mh, size);
	int ie = dns_msg_info_get(mh, size, &qd, &an, &ns, &ar, &rrc, &sz);
	printf(" val=%d sizeget=%zu info=%d,%zu", v, sg, ie, sz);
	if (ie != 0) return;
	printf(" cnt=%u,%u,%u,%u qd=", dns_hdr_qd_get(mh), dns_hdr_an_get(mh), dns_hdr_ns_get(mh), dns_hdr_ar_get(mh));
	size_t off = qd;
	for (size_t i = 0; i < dns_hdr_qd_get(mh); i++) {
		size_t nl = sizeof(name), isz = 0; uint16_t t = 0, c = 0;
		memset(name, 0xEE, sizeof(name));
		int e = dns_msg_question_get_data(mh, size, off, name, &nl, &t, &c, &isz);
		if (i) putchar('|');
		if (e != 0) { printf("!%d", e); break; }
		hexcat(name, nl); printf("/%u/%u", t, c);
		off += isz;
	}
	if (0 == dns_hdr_qd_get(mh)) putchar('-');
	printf(" rr=");
	const char *secn[3] = { "an", "ns", "ar" };
	size_t secoff[3] = { an, ns, ar }, seccnt[3] = { dns_hdr_an_get(mh), dns_hdr_ns_get(mh), dns_hdr_ar_get(mh) };
	int k = 0, stop = 0;
	static size_t rroffs[256];
	for (int s = 0; s < 3 && !stop; s++) {
		off = secoff[s];
		for (size_t i = 0; i < seccnt[s] && !stop; i++, k++) {
			size_t nl = sizeof(name), isz = 0; uint16_t t = 0, c = 0, dsz = 0; uint32_t ttl = 0; void *data = NULL;
			memset(name, 0xEE, sizeof(name));
			if (k < 256) rroffs[k] = off;
			int e = dns_msg_rr_get_data(mh, size, off, name, &nl, &t, &c, &ttl, &dsz, &data, &isz);
			if (k) putchar('|');
			printf("%s/", secn[s]);
			if (e != 0) { printf("!%d", e); stop = 1; break; }
			hexcat(name, nl); printf("/%u/%u/%08x/", t, c, (unsigned)ttl);
			const char *sh = (k < nshapes) ? shapes[k] : "r";
			size_t pos = 0; int first = 1;
			uint8_t *rd = (uint8_t*)data;
			while (*sh && *sh != '-') {
				if (!first) putchar('+');
				first = 0;
				if (*sh == 'n') {
					size_t roff = (size_t)(rd - m) + pos, rl = sizeof(name), nsz = 0;
					memset(name, 0xEE, sizeof(name));
					e = (pos >= dsz) ? -3 : dns_msg_sequence_of_labels2name(mh, size, roff, name, rl, &rl);
					if (e != 0) { printf("n:!%d", e); break; }
					printf("n:"); hexcat(name, rl);
					if (0 != SequenceOfLabelsGetSize(m + roff, size - roff, &nsz)) { printf("+!size"); break; }
					pos += nsz;
					sh++;
				} else if (*sh == 'b') {
					size_t cnt = (size_t)strtoul(sh + 1, (char**)&sh, 10);
					if (pos + cnt > dsz) { printf("b:!short"); break; }
					printf("b:"); hexcat(rd + pos, cnt); pos += cnt;
				} else { /* 'r' */
					printf("b:"); hexcat(rd + pos, dsz - pos); pos = dsz; sh++;
				}
				if (*sh == '+') sh++;
			}
			if (first) putchar('-');
			if (pos != dsz) printf("+!rdlength=%u,used=%zu", dsz, pos);
			off += isz;
		}
	}
	if (k == 0) putchar('-');
	/* dns_msg_rr_find: every record is looked up by its own owner name from the start of the answer section over all
	 * records; printed per record: error ':' index of the record found (by offset) ':' remaining count */
	if (!stop && k > 0 && k <= 256) {
		printf(" find=");
		for (int q = 0; q < k; q++) {
			size_t nl = sizeof(name), isz = 0, o = an, cnt = (size_t)k, fsz = 0; uint16_t t = 0, c = 0, dsz = 0; uint32_t ttl = 0; void *data = NULL;
			memset(name, 0xEE, sizeof(name));
			if (0 != dns_msg_rr_get_data(mh, size, rroffs[q], name, &nl, &t, &c, &ttl, &dsz, &data, &isz)) { printf("%s!", q ? "," : ""); continue; }
			int e = dns_msg_rr_find(mh, size, &o, &cnt, name, nl, &t, &c, &ttl, &dsz, &data, &fsz);
			int jf = -1;
			for (int j = 0; j < k; j++) if (rroffs[j] == o) { jf = j; break; }
			printf("%s%d:%d:%zu", q ? "," : "", e, jf, cnt);
		}
	}
}

static void do_dnsp(char *args) {
	char *f[2]; int nf = split(args, ' ', f, 2);
	if (nf < 1) { printf("dnsp bad\n"); return; }
	size_t n = 0; uint8_t *m = vh_unhex(f[0], &n);
	char *shapes[MAXTOK]; int ns = (nf > 1) ? split(f[1], '|', shapes, MAXTOK) : 0;
	printf("dnsp");
	dns_read_back(m, n, shapes, ns);
	printf("\n");
	vh_buf_free(m);
}

static void do_dnsx(char *args) {
	char *sp = strchr(args, ' ');
	if (!sp) { printf("dnsx bad\n"); return; }
	*sp = 0;
	size_t cap = (size_t)atol(args), cur = 0;
	char *ops[MAXTOK]; int nops = split(sp + 1, ';', ops, MAXTOK);
	uint8_t *buf = vh_buf(cap);
	dns_hdr_p h = (dns_hdr_p)buf;
	static char shapebuf[MAXTOK][64]; char *shapes[MAXTOK]; int nshapes = 0;
	int rcs[MAXTOK]; size_t needs[MAXTOK];
	for (int i = 0; i < nops; i++) {
		char *f[12]; int nf = split(ops[i], ',', f, 12);
		size_t need = (size_t)-1, n1 = 0, n2 = 0; int rc = -1;
		if (f[0][0] == 'h' && nf == 3) {
			uint8_t *id = vh_unhex(f[1], &n1), *fl = vh_unhex(f[2], &n2);
			uint16_t id16, fl16; memcpy(&id16, id, 2); memcpy(&fl16, fl, 2);
			rc = dns_hdr_create(id16, fl16, h, cap, &need);
			vh_buf_free(id); vh_buf_free(fl);
		} else if (f[0][0] == 'q' && nf == 4) {
			uint8_t *nm = vh_unhex(f[1], &n1);
			rc = dns_msg_question_add(h, cur, cap, 0, nm, n1, (uint16_t)atoi(f[2]), (uint16_t)atoi(f[3]), &need);
			vh_buf_free(nm);
		} else if (f[0][0] == 'r' && nf == 7) {
			uint8_t *nm = vh_unhex(f[2], &n1);
			uint32_t ttl = (uint32_t)strtoul(f[5], NULL, 16);
			/* RDATA: the parts one after the other in an exact-size block; names through the library's encoder */
			char *parts[16]; int np = (f[6][0] == '-') ? 0 : split(f[6], '+', parts, 16);
			size_t total = 0, pl[16]; uint8_t *pv[16];
			char *shp = shapebuf[nshapes]; shp[0] = 0;
			for (int p = 0; p < np; p++) {
				pv[p] = vh_unhex(parts[p] + 2, &pl[p]);
				if (parts[p][0] == 'n') { total += pl[p] ? pl[p] + 2 : 1; strcat(shp, p ? "+n" : "n"); }
				else { total += pl[p]; sprintf(shp + strlen(shp), "%sb%zu", p ? "+" : "", pl[p]); }
			}
			if (np == 0) strcpy(shp, "-");
			uint8_t *rd = vh_buf(total); size_t at = 0; int enc_err = 0;
			for (int p = 0; p < np; p++) {
				if (parts[p][0] == 'n') {
					size_t sz = 0, want = pl[p] ? pl[p] + 2 : 1;
					int e = DomainNameToSequenceOfLabels(pv[p], pl[p], rd + at, want, &sz);
					if (e != 0 || sz != want) enc_err = e ? e : -4;
					at += want;
				} else { memcpy(rd + at, pv[p], pl[p]); at += pl[p]; }
				vh_buf_free(pv[p]);
			}
			if (enc_err) rc = 1000 + enc_err; /* the RDATA name encoder refused a valid name */
			else rc = dns_msg_rr_add(h, cur, cap, 0, nm, n1, (uint16_t)atoi(f[3]), (uint16_t)atoi(f[4]), ttl, (uint16_t)total, rd, &need);
			if (rc == 0) {
				if (!strcmp(f[1], "an")) dns_hdr_an_inc(h, 1);
				else if (!strcmp(f[1], "ns")) dns_hdr_ns_inc(h, 1);
				else dns_hdr_ar_inc(h, 1);
				shapes[nshapes] = shp; nshapes++;
			}
			vh_buf_free(nm); vh_buf_free(rd);
		}
		rcs[i] = rc; needs[i] = need;
		if (rc == 0) cur = need;
	}
	printf("dnsx rcs=");
	for (int i = 0; i < nops; i++) printf("%s%d", i ? "," : "", rcs[i]);
	printf(" needs=");
	for (int i = 0; i < nops; i++) printf("%s%zd", i ? "," : "", (ssize_t)needs[i]);
	if (cur > cap) { printf(" msg=OVERCAP:%zu\n", cur); vh_buf_free(buf); return; }
	printf(" msg="); hexcat(buf, cur);
	if (cur >= sizeof(dns_hdr_t)) {
		uint8_t *m = vh_buf(cur); memcpy(m, buf, cur);       /* read back a copy that is exactly as large as the message */
		dns_read_back(m, cur, shapes, nshapes);
		vh_buf_free(m);
	}
	printf("\n");
	vh_buf_free(buf);
}

/* ------------------------------------------------------------------ RADIUS */
/*   op = i,<code>,<id>,<auth:32hex|->   radius_pkt_init (auth "-" = NULL)
 *      | a,<type>,<value>   radius_pkt_attr_add        | w,<type>,<value>   radius_pkt_attr_add_raw
 *      | u,<type>,<4 octets> radius_pkt_attr_add_uint32 (the argument holds these octets in memory order)
 *      | d,<type4>,<type6>,<4|6>,<address octets>  radius_pkt_attr_add_addr (sockaddr_in / sockaddr_in6)
 *      | p,<type>,<4|6>,<port>                     radius_pkt_attr_add_port
 * returns the packet size according to the header (0 when no packet was initialised) */
static size_t rad_build(uint8_t *buf, size_t cap, char *opstr, int *rcs, int *nrc) {
	char *ops[MAXTOK]; int nops = split(opstr, ';', ops, MAXTOK);
	rad_pkt_hdr_p pkt = (rad_pkt_hdr_p)buf;
	int have = 0;
	*nrc = nops;
	for (int i = 0; i < nops; i++) {
		char *f[8]; int nf = split(ops[i], ',', f, 8);
		size_t sz = (size_t)-1, off = 0, n = 0; int rc = -1;
		if (f[0][0] == 'i' && nf == 4) {
			uint8_t *au = (f[3][0] == '-') ? NULL : vh_unhex(f[3], &n);
			rc = radius_pkt_init(pkt, cap, &sz, (uint8_t)atoi(f[1]), (uint8_t)atoi(f[2]), au);
			if (rc == 0) have = 1;
			if (au) vh_buf_free(au);
		} else if (!have) {
			rc = -3; /* history without a packet: not produced by the generators */
		} else if ((f[0][0] == 'a' || f[0][0] == 'w') && nf == 3) {
			uint8_t *v = vh_unhex(f[2], &n);
			if (f[0][0] == 'a') rc = radius_pkt_attr_add(pkt, cap, &sz, (uint8_t)atoi(f[1]), (uint8_t)n, v, &off);
			else rc = radius_pkt_attr_add_raw(pkt, cap, &sz, (uint8_t)atoi(f[1]), (uint8_t)n, v, NULL, &off);
			if (n > 255) rc = -4;
			vh_buf_free(v);
		} else if (f[0][0] == 'u' && nf == 3) {
			uint8_t *v = vh_unhex(f[2], &n); uint32_t x; memcpy(&x, v, 4);
			rc = radius_pkt_attr_add_uint32(pkt, cap, &sz, (uint8_t)atoi(f[1]), x, &off);
			vh_buf_free(v);
		} else if ((f[0][0] == 'd' && nf == 5) || (f[0][0] == 'p' && nf == 4)) {
			struct sockaddr_storage ss; memset(&ss, 0, sizeof(ss));
			int fam = atoi(f[0][0] == 'd' ? f[3] : f[2]);
			uint8_t *v = NULL;
			if (f[0][0] == 'd') v = vh_unhex(f[4], &n);
			uint16_t port = (f[0][0] == 'p') ? htons((uint16_t)atoi(f[3])) : htons(1645);
			if (fam == 4) {
				struct sockaddr_in *s4 = (struct sockaddr_in*)&ss;
				s4->sin_family = AF_INET; s4->sin_port = port;
				if (v) memcpy(&s4->sin_addr, v, 4); else memset(&s4->sin_addr, 0xC6, 4);
			} else {
				struct sockaddr_in6 *s6 = (struct sockaddr_in6*)&ss;
				s6->sin6_family = AF_INET6; s6->sin6_port = port; s6->sin6_flowinfo = 0xEEEEEEEE;
				if (v) memcpy(&s6->sin6_addr, v, 16); else memset(&s6->sin6_addr, 0xC6, 16);
			}
			if (f[0][0] == 'd') rc = radius_pkt_attr_add_addr(pkt, cap, &sz, (uint8_t)atoi(f[1]), (uint8_t)atoi(f[2]), &ss, &off);
			else rc = radius_pkt_attr_add_port(pkt, cap, &sz, (uint8_t)atoi(f[1]), &ss, &off);
			if (v) vh_buf_free(v);
		}
		rcs[i] = rc;
	}
	return have ? (size_t)RADIUS_PKT_HDR_LEN_GET(pkt) : 0;
}
static void print_rcs(const int *rcs, int n) {
	printf(" rcs=");
	for (int i = 0; i < n; i++) printf("%s%d", i ? "," : "", rcs[i]);
	if (!n) putchar('-');
}
static const uint8_t rad_probe_types[6] = { 1, 2, 26, 79, 80, 200 };

static void do_radb(char *args) {
	char *sp = strchr(args, ' ');
	if (!sp) { printf("radb bad\n"); return; }
	*sp = 0;
	size_t cap = (size_t)atol(args);
	uint8_t *buf = vh_buf(cap);
	int rcs[MAXTOK], n = 0;
	size_t len = rad_build(buf, cap, sp + 1, rcs, &n);
	printf("radb"); print_rcs(rcs, n);
	if (len > cap) { printf(" pkt=OVERCAP:%zu\n", len); vh_buf_free(buf); return; }
	printf(" pkt="); hexcat(buf, len);
	if (len >= RADIUS_PKT_HDR_SIZE) {
		uint8_t *m = vh_buf(len); memcpy(m, buf, len); /* read back from a block exactly as large as the packet */
		rad_pkt_hdr_p mp = (rad_pkt_hdr_p)m;
		printf(" chk=%d attrs=", radius_pkt_chk(mp, len));
		size_t off = RADIUS_PKT_HDR_SIZE; int cnt = 0;
		while (off < len && cnt < 300) {
			uint8_t t = 0, *d = NULL; size_t l = 0;
			int e = radius_pkt_attr_get_data_ptr_raw(mp, off, &t, &d, &l);
			if (e != 0) { printf("%sE%d", cnt ? "|" : "", e); cnt++; break; }
			printf("%s%u:", cnt ? "|" : "", t); hexcat(d, l);
			off += l + 2; cnt++;
		}
		if (!cnt) putchar('-');
		printf(" find=");
		for (int k = 0; k < 6; k++) {
			size_t o = 0; int e = radius_pkt_attr_find(mp, 0, rad_probe_types[k], &o);
			if (e == 0) printf("%s%zu", k ? "," : "", o);
			else if (e == ENOATTR) printf("%s65535", k ? "," : "");
			else printf("%sE%d", k ? "," : "", e);
		}
		printf(" concat=");
		/* radius_pkt_attr_get_data_to_buf() restarts its search at the end of the last match; when that is the
		 * end of the packet radius_pkt_attr_get_from_offset() looks at the length octet of a (non-existent) next
		 * attribute, i.e. at packet[size + 1].  That read is a memory-safety matter (C13's clause, reported to its
		 * author), not part of C15's statement, so this one probe runs on a copy with two spare octets. */
		uint8_t *m2 = vh_buf(len + 2); memcpy(m2, buf, len);
		rad_pkt_hdr_p mp2 = (rad_pkt_hdr_p)m2;
		for (int k = 0; k < 6; k++) {
			uint8_t *o = vh_buf(len); size_t got = (size_t)-1;
			int e = radius_pkt_attr_get_data_to_buf(mp2, 0, 0, rad_probe_types[k], o, len, &got);
			printf("%s%d:", k ? "," : "", e == ENOATTR ? -1 : e); hexcat(o, (got <= len) ? got : 0);
			vh_buf_free(o);
		}
		vh_buf_free(m2);
		vh_buf_free(m);
	}
	printf("\n");
	vh_buf_free(buf);
}

/*   rads <cap> <secret> <addma> <request packet|-> <mask:2hex|-> <alt secrets s1,s2..|-> <op>;<op>...
 * build, radius_pkt_sign, then on exact-size copies: radius_pkt_chk + radius_pkt_verify of the signed packet,
 * of every single-octet corruption (octet XOR mask) and under every alternative secret.
 *   radp <authenticator> <password> <secret>      radius_pkt_attr_password_encode / _decode */
static int rad_receive(const uint8_t *octets, size_t len, const uint8_t *key, size_t klen, const uint8_t *req, size_t reqlen,
    int *ver, uint8_t *after) {
	uint8_t *m = vh_buf(len); memcpy(m, octets, len);
	uint8_t *k = vh_buf(klen); memcpy(k, key, klen);
	uint8_t *r = NULL;
	if (reqlen) { r = vh_buf(reqlen); memcpy(r, req, reqlen); }
	int chk = radius_pkt_chk((rad_pkt_hdr_p)m, len);
	*ver = -999;
	if (chk == 0) *ver = radius_pkt_verify((rad_pkt_hdr_p)m, k, klen, (rad_pkt_hdr_p)r);
	if (after) memcpy(after, m, len);
	vh_buf_free(m); vh_buf_free(k); if (r) vh_buf_free(r);
	return chk;
}
static void do_rads(char *args) {
	char *f[8]; 
	int nf = 0; char *s = args;
	for (; nf < 6; nf++) { char *sp = strchr(s, ' '); if (!sp) break; *sp = 0; f[nf] = s; s = sp + 1; }
	if (nf != 6) { printf("rads bad\n"); return; }
	f[6] = s;
	size_t cap = (size_t)atol(f[0]), klen, reqlen = 0, n;
	uint8_t *key = vh_unhex(f[1], &klen);
	int addma = atoi(f[2]);
	uint8_t *req = NULL;
	if (f[3][0] != '-') req = vh_unhex(f[3], &reqlen);
	uint8_t *buf = vh_buf(cap);
	int rcs[MAXTOK], nr = 0;
	size_t len = rad_build(buf, cap, f[6], rcs, &nr);
	printf("rads"); print_rcs(rcs, nr);
	if (len < RADIUS_PKT_HDR_SIZE || len > cap) { printf(" pre=-\n"); goto out; }
	printf(" pre="); hexcat(buf, len);
	size_t sz = (size_t)-1;
	int rc = radius_pkt_sign((rad_pkt_hdr_p)buf, cap, &sz, key, klen, addma);
	{ rad_pkt_hdr_p bp = (rad_pkt_hdr_p)buf; len = RADIUS_PKT_HDR_LEN_GET(bp); }
	if (len > cap) { printf(" sign=%d post=OVERCAP\n", rc); goto out; }
	printf(" sign=%d sz=%zd post=", rc, (ssize_t)sz); hexcat(buf, len);
	if (rc == 0) {
		uint8_t *after = vh_buf(len); int ver;
		int chk = rad_receive(buf, len, key, klen, req, reqlen, &ver, after);
		printf(" chk=%d ver=%d vpost=", chk, ver); hexcat(after, len);
		/* what the listing API hands out for the User-Password after verification */
		size_t po = 0;
		if (radius_pkt_attr_find((rad_pkt_hdr_p)after, 0, RADIUS_ATTR_TYPE_USER_PASSWORD, &po) == 0) {
			uint8_t *d = NULL; size_t l = 0;
			radius_pkt_attr_get_data_ptr((rad_pkt_hdr_p)after, po, NULL, &d, &l);
			printf(" pw="); hexcat(d, l);
		}
		vh_buf_free(after);
		if (f[4][0] != '-') {
			unsigned mask = (unsigned)strtoul(f[4], NULL, 16);
			printf(" cor=");
			uint8_t *c = vh_buf(len);
			for (size_t i = 0; i < len; i++) {
				memcpy(c, buf, len); c[i] ^= (uint8_t)mask;
				chk = rad_receive(c, len, key, klen, req, reqlen, &ver, NULL);
				printf("%s%zu:%d:%d", i ? "," : "", i, chk, ver);
			}
			vh_buf_free(c);
		}
		if (f[5][0] != '-') {
			char *alts[16]; int na = split(f[5], ',', alts, 16);
			printf(" ws=");
			for (int i = 0; i < na; i++) {
				uint8_t *k2 = vh_unhex(alts[i], &n);
				chk = rad_receive(buf, len, k2, n, req, reqlen, &ver, NULL);
				printf("%s%s:%d:%d", i ? "," : "", alts[i], chk, ver);
				vh_buf_free(k2);
			}
		}
	}
	printf("\n");
out:
	vh_buf_free(buf); vh_buf_free(key); if (req) vh_buf_free(req);
}
static void do_radp(char *args) {
	char *f[3]; int nf = split(args, ' ', f, 3);
	if (nf != 3) { printf("radp bad\n"); return; }
	size_t al, pl, kl;
	uint8_t *au = vh_unhex(f[0], &al), *pw = vh_unhex(f[1], &pl), *key = vh_unhex(f[2], &kl);
	size_t need = pl ? ((pl + 15) & ~(size_t)15) : 16, n = (size_t)-1, n2 = (size_t)-1, dl = (size_t)-1;
	if (pl > 128) need = pl;
	uint8_t *enc = vh_buf(need), *sh = vh_buf(need - 1), *dec = vh_buf(need);
	int rc = radius_pkt_attr_password_encode(au, pw, pl, key, kl, enc, need, &n);
	int rs = radius_pkt_attr_password_encode(au, pw, pl, key, kl, sh, need - 1, &n2);
	printf("radp rc=%d n=%zd enc=", rc, (ssize_t)n); hexcat(enc, rc == 0 ? need : 0);
	printf(" short=%d", rs);
	if (rc == 0) {
		int rd = radius_pkt_attr_password_decode(au, enc, need, key, kl, dec, need, &dl);
		printf(" drc=%d dlen=%zd dec=", rd, (ssize_t)dl); hexcat(dec, rd == 0 ? need : 0);
	}
	printf("\n");
	vh_buf_free(au); vh_buf_free(pw); vh_buf_free(key); vh_buf_free(enc); vh_buf_free(sh); vh_buf_free(dec);
}


int main(void) {
	static char line[1 << 17];
	vh_install_fault_handler();
	while (fgets(line, sizeof(line), stdin)) {
		size_t l = strlen(line);
		while (l && (line[l - 1] == '\n' || line[l - 1] == '\r')) line[--l] = 0;
		if (!l) continue;
		vh_set_tag(line);
		vh_watchdog(2, 20); /* a case costs about a millisecond of CPU time: 2 s of it (20 s of wall clock) without an answer = the code under test does not terminate */
		if (!strncmp(line, "dnsmsg ", 7)) do_dnsmsg(line + 7);
		else if (!strncmp(line, "dnsname ", 8)) do_dnsname(line + 8);
		else if (!strncmp(line, "dnsx ", 5)) do_dnsx(line + 5);
		else if (!strncmp(line, "dnsp ", 5)) do_dnsp(line + 5);
		else if (!strncmp(line, "radb ", 5)) do_radb(line + 5);
		else if (!strncmp(line, "rads ", 5)) do_rads(line + 5);
		else if (!strncmp(line, "radp ", 5)) do_radp(line + 5);
		else printf("unknown\n");
		vh_watchdog(0, 0);
	}
	return 0;
}
