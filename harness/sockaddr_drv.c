/* Conformance driver for socket-address text and prefix arithmetic (C18).
 * One case per stdin line, one answer line per case (fields are hex strings, "-" = empty):
 *   fa|fp <4|6|u> <addr-bytes|path> <port> <cap>   sa_addr_to_str | sa_addr_port_to_str into an exact-size
 *                                                  heap block of <cap> bytes (cap 0: 1-byte canary block, size 0)
 *        -> "<op> rc=<rc> n=<reported|-1> out=<bytes before the first NUL inside cap | ! if no NUL> w0=<0|1>"
 *   pa|pp <text>                                   sa_addr_from_str | sa_addr_port_from_str (text NOT terminated,
 *                                                  exact-size heap block)
 *   pn <text>                                      str_net_to_ss
 *        -> "<op> rc=<rc> fam=<4|6|u|?> port=<n> addr=<hex> len=<preflen|-1> clean=<0|1>"
 *   rt <4|6|u> <addr-bytes|path> <port>            format into a 256-byte block, parse the text back:
 *        -> "rt a=<1 iff sa_addr_to_str/sa_addr_from_str give the address back> p=<same for the port pair>"
 *   l2m4|l2m6 <len>            -> "<op> rc=<rc> mask=<hex>"          inet_len2mask / inet6_len2mask
 *   m2l4|m2l6 <mask>           -> "<op> v=<len>"                      inet_mask2len / inet6_mask2len
 *   tl <4|6> <addr> <len>      -> "tl addr=<hex>"                     net_addr_truncate_preflen
 *   tm <4|6> <addr> <mask>     -> "tm addr=<hex>"                     net_addr_truncate_mask
 *   in <4|6> <net> <mask> <addr> -> "in v=<0|1>"                      is_addr_in_net
 *   lay                        -> "lay ss=<sizeof storage> af4=<hex of the family field> fam4=<off>,<size> port4= addr4=
 *                                  size4= af6= fam6= port6= flow6= addr6= scope6= size6="   (layout of the images below)
 *   ss <tl|ps|as|si|cp> <4|6> <addr> <port> <flow:4 bytes> <scope:4 bytes> <pad> [<arg>]
 *        the WHOLE sockaddr_storage: the storage is filled with the pattern <pad> (0 = zero bytes, else non-zero
 *        bytes (pad + 31*i) | 1), then family / port / flowinfo / address / scope id are stored (AF_INET has no
 *        flowinfo / scope id: pattern bytes stay there) and the image is taken before and after the call:
 *          tl <len>   net_addr_truncate_preflen      ps <port>  sa_port_set        as <addr>  sa_addr_set
 *          si         sa_init(storage holding only the pattern, family, addr, port)
 *          cp <dpad>  sa_copy(the address, a storage holding only the pattern <dpad>)
 *        -> "ss rc=<rc|0> pre=<image before> post=<image after> src=<image of the source (cp) | ->"
 * With -DDRV_GUARD the output / text blocks end flush against a PROT_NONE page (non-ASan builds). */
#include <sys/param.h>
#include <sys/types.h>
#include <sys/socket.h>
#include <sys/un.h>
#include <netinet/in.h>
#include <arpa/inet.h>
#include <inttypes.h>
#include <stddef.h>
#include <errno.h>
#include "vh_util.h"
#include "net/socket_address.h"
#include "net/utils.h"

#define MAXF 12
static char *fld[MAXF];

static int split(char *line) {
	int n = 0;
	char *save = NULL;
	for (char *t = strtok_r(line, " \t\r\n", &save); t && n < MAXF; t = strtok_r(NULL, " \t\r\n", &save))
		fld[n++] = t;
	return n;
}

#ifdef DRV_GUARD
static vh_g_t g_cur;
static uint8_t *xbuf(size_t n) { g_cur = vh_gbuf(n ? n : 1); if (n == 0) g_cur.p[0] = 0xA5; return g_cur.p; }
static void xfree(uint8_t *p) { (void)p; vh_gfree(g_cur); }
#else
static uint8_t *xbuf(size_t n) { return vh_buf(n); }
static void xfree(uint8_t *p) { vh_buf_free(p); }
#endif

static struct sockaddr_storage *mk_ss(const char *fam, const uint8_t *a, size_t an, unsigned port) {
	struct sockaddr_storage *ss = malloc(sizeof(*ss));
	if (!ss) abort();
	memset(ss, 0, sizeof(*ss));
	if (fam[0] == '4') {
		struct sockaddr_in *s = (struct sockaddr_in *)ss;
		s->sin_family = AF_INET; s->sin_port = htons((uint16_t)port);
		memcpy(&s->sin_addr, a, an < 4 ? an : 4);
	} else if (fam[0] == '6') {
		struct sockaddr_in6 *s = (struct sockaddr_in6 *)ss;
		s->sin6_family = AF_INET6; s->sin6_port = htons((uint16_t)port);
		memcpy(&s->sin6_addr, a, an < 16 ? an : 16);
	} else if (fam[0] == 'u') {
		struct sockaddr_un *s = (struct sockaddr_un *)ss;
		s->sun_family = AF_UNIX;
		memcpy(s->sun_path, a, an < sizeof(s->sun_path) ? an : sizeof(s->sun_path));
	} else {
		ss->ss_family = (sa_family_t)atoi(fam + 1); /* "x<n>": unsupported family */
	}
	return ss;
}

static void put_ss(const char *op, int rc, const struct sockaddr_storage *ss, long plen) {
	/* clean: every byte of the family's sockaddr outside family/port/address is zero */
	int clean = 1;
	printf("%s rc=%d ", op, rc);
	if (rc != 0) { printf("fam=? port=0 addr=- len=-1 clean=1\n"); return; }
	if (ss->ss_family == AF_INET) {
		const struct sockaddr_in *s = (const struct sockaddr_in *)ss;
		for (size_t i = 0; i < sizeof(s->sin_zero); i++) if (s->sin_zero[i]) clean = 0;
		printf("fam=4 port=%u addr=", (unsigned)ntohs(s->sin_port));
		vh_puthex((const uint8_t *)&s->sin_addr, 4);
	} else if (ss->ss_family == AF_INET6) {
		const struct sockaddr_in6 *s = (const struct sockaddr_in6 *)ss;
		if (s->sin6_flowinfo || s->sin6_scope_id) clean = 0;
		printf("fam=6 port=%u addr=", (unsigned)ntohs(s->sin6_port));
		vh_puthex((const uint8_t *)&s->sin6_addr, 16);
	} else if (ss->ss_family == AF_UNIX) {
		const struct sockaddr_un *s = (const struct sockaddr_un *)ss;
		size_t n = strnlen(s->sun_path, sizeof(s->sun_path));
		if (n == sizeof(s->sun_path)) clean = 0; /* the library's own paths are always terminated */
		printf("fam=u port=0 addr=");
		vh_puthex((const uint8_t *)s->sun_path, n);
	} else {
		printf("fam=? port=0 addr=-");
	}
	printf(" len=%ld clean=%d\n", plen, clean);
}

static void fill_pat(struct sockaddr_storage *ss, unsigned pad) {
	uint8_t *b = (uint8_t *)ss;
	for (size_t i = 0; i < sizeof(*ss); i++) b[i] = pad ? (uint8_t)((pad + 31 * i) | 1) : 0;
}

/* whole-image sockaddr: pattern everywhere, then the fields */
static struct sockaddr_storage *mk_img(const char *fam, const uint8_t *a, size_t an, unsigned port,
    const uint8_t *flow, const uint8_t *scope, unsigned pad) {
	struct sockaddr_storage *ss = (struct sockaddr_storage *)vh_buf(sizeof(*ss));
	fill_pat(ss, pad);
	if (fam[0] == '4') {
		struct sockaddr_in *s = (struct sockaddr_in *)ss;
		s->sin_family = AF_INET; s->sin_port = htons((uint16_t)port);
		memcpy(&s->sin_addr, a, an < 4 ? an : 4);
	} else {
		struct sockaddr_in6 *s = (struct sockaddr_in6 *)ss;
		s->sin6_family = AF_INET6; s->sin6_port = htons((uint16_t)port);
		memcpy(&s->sin6_flowinfo, flow, 4);
		memcpy(&s->sin6_addr, a, an < 16 ? an : 16);
		memcpy(&s->sin6_scope_id, scope, 4);
	}
	return ss;
}

#define LAYF(name, type, field) printf(" " name "=%zu,%zu", offsetof(type, field), sizeof(((type *)0)->field))

int main(void) {
	static char line[1 << 14], tag[1 << 14];
	vh_install_fault_handler();
	while (fgets(line, sizeof(line), stdin)) {
		strcpy(tag, line);
		int nf = split(line);
		if (nf < 1) continue;
		vh_set_tag(tag);
		const char *op = fld[0];
		vh_watchdog(2, 20); /* a case costs microseconds: 2 s of CPU time (20 s of wall clock) without an answer = the code under test does not terminate */
		if (!strcmp(op, "lay") && nf == 1) {
			sa_family_t f4 = AF_INET, f6 = AF_INET6;
			printf("lay ss=%zu af4=", sizeof(struct sockaddr_storage));
			vh_puthex((const uint8_t *)&f4, sizeof(f4));
			LAYF("fam4", struct sockaddr_in, sin_family); LAYF("port4", struct sockaddr_in, sin_port);
			LAYF("addr4", struct sockaddr_in, sin_addr);
			printf(" size4=%zu af6=", sizeof(struct sockaddr_in));
			vh_puthex((const uint8_t *)&f6, sizeof(f6));
			LAYF("fam6", struct sockaddr_in6, sin6_family); LAYF("port6", struct sockaddr_in6, sin6_port);
			LAYF("flow6", struct sockaddr_in6, sin6_flowinfo); LAYF("addr6", struct sockaddr_in6, sin6_addr);
			LAYF("scope6", struct sockaddr_in6, sin6_scope_id);
			printf(" size6=%zu\n", sizeof(struct sockaddr_in6));
			vh_watchdog(0, 0);
			continue;
		}
		if (nf < 2) { vh_watchdog(0, 0); continue; }
		if (!strcmp(op, "ss") && nf >= 8) {
			const char *sub = fld[1], *fam = fld[2];
			size_t an, fn_, sn, xn = 0;
			uint8_t *a = vh_unhex(fld[3], &an), *fl = vh_unhex(fld[5], &fn_), *sc = vh_unhex(fld[6], &sn);
			unsigned port = (unsigned)strtoul(fld[4], NULL, 10), pad = (unsigned)strtoul(fld[7], NULL, 10);
			uint8_t *x = NULL;
			int rc = 0;
			if (fn_ != 4 || sn != 4 || (nf < 9 && strcmp(sub, "si"))) { printf("ss badcase\n"); vh_watchdog(0, 0); continue; }
			struct sockaddr_storage *ss = mk_img(fam, a, an, port, fl, sc, pad);
			struct sockaddr_storage *pre = (struct sockaddr_storage *)vh_buf(sizeof(*pre));
			struct sockaddr_storage *src = NULL;
			memcpy(pre, ss, sizeof(*pre));
			if (!strcmp(sub, "tl")) {
				net_addr_truncate_preflen(ss, (uint16_t)strtoul(fld[8], NULL, 10));
			} else if (!strcmp(sub, "ps")) {
				rc = sa_port_set(ss, (uint16_t)strtoul(fld[8], NULL, 10));
			} else if (!strcmp(sub, "as")) {
				x = vh_unhex(fld[8], &xn);      /* exact-size block: an over-read of the argument is seen by ASan */
				rc = sa_addr_set(ss, x);
			} else if (!strcmp(sub, "si")) {
				fill_pat(ss, pad); memcpy(pre, ss, sizeof(*pre));
				rc = sa_init(ss, fam[0] == '4' ? AF_INET : AF_INET6, a, (uint16_t)port);
			} else if (!strcmp(sub, "cp")) {
				src = ss;
				ss = (struct sockaddr_storage *)vh_buf(sizeof(*ss));
				fill_pat(ss, (unsigned)strtoul(fld[8], NULL, 10)); memcpy(pre, ss, sizeof(*pre));
				sa_copy(src, ss);
			} else { printf("ss badcase\n"); vh_watchdog(0, 0); continue; }
			printf("ss rc=%d pre=", rc); vh_puthex((const uint8_t *)pre, sizeof(*pre));
			printf(" post="); vh_puthex((const uint8_t *)ss, sizeof(*ss));
			printf(" src=");
			if (src) vh_puthex((const uint8_t *)src, sizeof(*src)); else printf("-");
			printf("\n");
			vh_buf_free((uint8_t *)ss); vh_buf_free((uint8_t *)pre);
			if (src) vh_buf_free((uint8_t *)src);
			if (x) vh_buf_free(x);
			vh_buf_free(a); vh_buf_free(fl); vh_buf_free(sc);
			vh_watchdog(0, 0);
			continue;
		}
		if ((!strcmp(op, "fa") || !strcmp(op, "fp")) && nf == 5) {
			size_t an, cap = (size_t)strtoul(fld[4], NULL, 10), rep = (size_t)-1;
			uint8_t *a = vh_unhex(fld[2], &an);
			struct sockaddr_storage *ss = mk_ss(fld[1], a, an, (unsigned)strtoul(fld[3], NULL, 10));
			uint8_t *out = xbuf(cap);
			int rc = (op[1] == 'a') ? sa_addr_to_str(ss, (char *)out, cap, &rep)
			                        : sa_addr_port_to_str(ss, (char *)out, cap, &rep);
			size_t l = strnlen((char *)out, cap);
			printf("%s rc=%d n=%zd out=", op, rc, (ssize_t)rep);
			if (l == cap) fputs("!", stdout); else vh_puthex(out, l);
			printf(" w0=%d\n", (cap == 0 && out[0] != 0xA5) ? 1 : 0);
			xfree(out); free(ss); vh_buf_free(a);
		} else if ((!strcmp(op, "pa") || !strcmp(op, "pp") || !strcmp(op, "pn")) && nf == 2) {
			size_t n;
			uint8_t *t0 = vh_unhex(fld[1], &n);
			uint8_t *t = xbuf(n);
			memcpy(t, t0, n);
			struct sockaddr_storage *ss = malloc(sizeof(*ss));
			if (!ss) abort();
			memset(ss, 0xA5, sizeof(*ss));
			uint16_t pl = 0xA5A5;
			int rc;
			long plen = -1;
			if (op[1] == 'a') rc = sa_addr_from_str(ss, (const char *)t, n);
			else if (op[1] == 'p') rc = sa_addr_port_from_str(ss, (const char *)t, n);
			else { rc = str_net_to_ss((const char *)t, n, ss, &pl); plen = (long)pl; }
			put_ss(op, rc, ss, plen);
			free(ss); xfree(t); vh_buf_free(t0);
		} else if (!strcmp(op, "rt") && nf == 4) {
			size_t an, rep = 0;
			uint8_t *a = vh_unhex(fld[2], &an);
			struct sockaddr_storage *ss = mk_ss(fld[1], a, an, (unsigned)strtoul(fld[3], NULL, 10));
			struct sockaddr_storage *back = malloc(sizeof(*back));
			uint8_t *out = vh_buf(256);
			int okv[2] = {0, 0};
			if (!back) abort();
			for (int m = 0; m < 2; m++) {
				memset(back, 0xA5, sizeof(*back));
				int rc = m ? sa_addr_port_to_str(ss, (char *)out, 256, &rep) : sa_addr_to_str(ss, (char *)out, 256, &rep);
				if (rc == 0 && rep < 256)
					rc = m ? sa_addr_port_from_str(back, (char *)out, rep) : sa_addr_from_str(back, (char *)out, rep);
				else if (rc == 0) rc = -1;
				okv[m] = (rc == 0 && sa_addr_is_eq(ss, back) && (m ? sa_port_get(ss) == sa_port_get(back) : 1));
			}
			printf("rt a=%d p=%d\n", okv[0], okv[1]);
			vh_buf_free(out); free(back); free(ss); vh_buf_free(a);
		} else if ((!strcmp(op, "l2m4") || !strcmp(op, "l2m6")) && nf == 2) {
			size_t len = (size_t)strtoul(fld[1], NULL, 10), sz = (op[3] == '4') ? 4 : 16;
			uint8_t *m = vh_buf(sz);
			int rc = (sz == 4) ? inet_len2mask(len, (struct in_addr *)m) : inet6_len2mask(len, (struct in6_addr *)m);
			printf("%s rc=%d mask=", op, rc);
			vh_puthex(m, sz);
			printf("\n");
			vh_buf_free(m);
		} else if ((!strcmp(op, "m2l4") || !strcmp(op, "m2l6")) && nf == 2) {
			size_t n;
			uint8_t *m = vh_unhex(fld[1], &n);
			int v = (op[3] == '4') ? inet_mask2len((const struct in_addr *)m) : inet6_mask2len((const struct in6_addr *)m);
			printf("%s v=%d\n", op, v);
			vh_buf_free(m);
		} else if (!strcmp(op, "tl") && nf == 4) {
			size_t an;
			uint8_t *a = vh_unhex(fld[2], &an);
			struct sockaddr_storage *ss = mk_ss(fld[1], a, an, 0);
			net_addr_truncate_preflen(ss, (uint16_t)strtoul(fld[3], NULL, 10));
			printf("tl addr=");
			if (fld[1][0] == '4') vh_puthex((uint8_t *)&((struct sockaddr_in *)ss)->sin_addr, 4);
			else vh_puthex((uint8_t *)&((struct sockaddr_in6 *)ss)->sin6_addr, 16);
			printf("\n");
			free(ss); vh_buf_free(a);
		} else if (!strcmp(op, "tm") && nf == 4) {
			size_t an, mn;
			uint8_t *a = vh_unhex(fld[2], &an), *m = vh_unhex(fld[3], &mn);
			net_addr_truncate_mask(fld[1][0] == '4' ? AF_INET : AF_INET6, (uint32_t *)a, (uint32_t *)m);
			printf("tm addr=");
			vh_puthex(a, an);
			printf("\n");
			vh_buf_free(a); vh_buf_free(m);
		} else if (!strcmp(op, "in") && nf == 5) {
			size_t n1, n2, n3;
			uint8_t *net = vh_unhex(fld[2], &n1), *m = vh_unhex(fld[3], &n2), *a = vh_unhex(fld[4], &n3);
			int v = is_addr_in_net(fld[1][0] == '4' ? AF_INET : AF_INET6, (const uint32_t *)net,
			    (const uint32_t *)m, (const uint32_t *)a);
			printf("in v=%d\n", v);
			vh_buf_free(net); vh_buf_free(m); vh_buf_free(a);
		} else {
			printf("%s badcase\n", op);
		}
		vh_watchdog(0, 0);
	}
	return 0;
}
