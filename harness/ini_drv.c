/* Conformance driver for the INI store (property C17; specs/seq/IniStore.tla).
 * One case per stdin line, one answer line (a JSON array of events) per case.  A case is a list of operations
 * separated by ';' executed on ONE real ini_p (created at the start of the case, destroyed at its end):
 *   Q s n s n ...     lookups made by every later O          (byte strings are hex, "-" = empty)
 *   P text            ini_buf_parse            S s n v       ini_val_set (explicit sizes)
 *   Sz s n v          ini_val_set, names passed as C strings with size 0 (documented alternative)
 *   SI s n dec | SU s n dec                    ini_val_set_int / ini_val_set_uint
 *   G s n | GI s n | Gz s n | GIz s n          ini_val_get / ini_vali_get
 *   GN s n | GU s n | GIN s n | GIU s n        ini_val_get_int/_uint, ini_vali_get_int/_uint
 *   E                 full enumeration through ini_sect_enum / ini_sect_val_enum
 *   C                 ini_buf_calc_size        N a cap | N r delta   ini_buf_gen into cap (or size+delta) bytes
 *   RT                generate the text, parse it into a SECOND real store, report text + that store's enumeration
 *   O                 the observation record of IniStore!ObsStore/ObsGen (E + every Q lookup + C + gen for EVERY
 *                     capacity 0..size+1)      X             destroy + create
 * Everything is read through the PUBLIC interface.  Inputs live in exact-size heap blocks (ASan red zones).
 * ini_buf_gen first writes into a block with a canary zone behind buf[cap] (so an overrun is MEASURED and the run
 * can go on); if nothing was overrun the call is repeated into an exact-size block under ASan. */
#include <sys/param.h>
#include <sys/types.h>
#include <inttypes.h>
#include <errno.h>
#include <ctype.h>
#include "vh_util.h"
#include "utils/ini.h"

/* every answer line is assembled in memory and written in one piece: a case that dies leaves no partial line */
static FILE *g_out;
#define printf(...) fprintf(g_out, __VA_ARGS__)

#define CANARY 0xA5
#define MAXTOK 64
#define MAXQ 256

static ini_p ini;
static int first_ev;
typedef struct { uint8_t *p; size_t n; } bytes_t;
static bytes_t qs[MAXQ], qn[MAXQ];
static size_t nq;

static void ev_begin(const char *name) { printf("%s{\"e\":\"%s\"", first_ev ? "" : ",", name); first_ev = 0; }
static void ev_end(void) { printf("}"); }
static void put_bytes(const uint8_t *p, size_t n) {
	printf("[");
	for (size_t i = 0; i < n; i++) printf(i ? ",%u" : "%u", p[i]);
	printf("]");
}
static void kv_bytes(const char *k, const uint8_t *p, size_t n) { printf(",\"%s\":", k); put_bytes(p, n); }
static bytes_t tok_bytes(const char *t) { bytes_t b; b.p = vh_unhex(t, &b.n); return b; }
/* NUL-terminated copy in an exact-size block (for the size-0 calling convention) */
static uint8_t *cstr_of(bytes_t b) { uint8_t *z = vh_buf(b.n + 1); memcpy(z, b.p, b.n); z[b.n] = 0; return z; }

static void put_limbs(int neg, uint64_t mag) {     /* base 10^9, most significant first */
	uint32_t l[3]; int k = 0;
	do { l[k++] = (uint32_t)(mag % 1000000000ull); mag /= 1000000000ull; } while (mag);
	printf(",\"neg\":%s,\"limbs\":[", neg ? "true" : "false");
	for (int i = k - 1; i >= 0; i--) printf(i == k - 1 ? "%u" : ",%u", l[i]);
	printf("]");
}

/* ---- enumeration through the public enumerators */
static void put_enum(void) {
	size_t so = 0, guard = 0;
	const uint8_t *nm, *vn, *vv; size_t nms, vns, vvs;
	int firsts = 1;
	printf("[");
	while (0 == ini_sect_enum(ini, &so, &nm, &nms)) {
		if (++guard > 1000) { printf("\"LOOP\""); break; } /* stores of these tests stay below 300 lines: an enumeration that has not ended by now never will */
		printf("%s{\"off\":%zu,\"name\":", firsts ? "" : ",", so); firsts = 0;
		put_bytes(nm, nms);
		printf(",\"vals\":[");
		size_t vo = 0; int firstv = 1;
		while (0 == ini_sect_val_enum(ini, so, &vo, &vn, &vns, &vv, &vvs)) {
			if (++guard > 1000) { printf("\"LOOP\""); break; } /* stores of these tests stay below 300 lines: an enumeration that has not ended by now never will */
			printf("%s{\"off\":%zu,\"name\":", firstv ? "" : ",", vo); firstv = 0;
			put_bytes(vn, vns);
			printf(",\"val\":"); put_bytes(vv, vvs);
			printf("}");
			vo++;
		}
		printf("]}");
		so++;
	}
	printf("]");
}

static void put_get(int ins, int z, bytes_t s, bytes_t n) {   /* {"val":[..],"found":b} (+"err" if rc is odd) */
	const uint8_t *v = NULL; size_t vs = 0; int rc;
	uint8_t *zs = z ? cstr_of(s) : NULL, *zn = z ? cstr_of(n) : NULL;
	if (ins) rc = ini_vali_get(ini, z ? zs : s.p, z ? 0 : s.n, z ? zn : n.p, z ? 0 : n.n, &v, &vs);
	else rc = ini_val_get(ini, z ? zs : s.p, z ? 0 : s.n, z ? zn : n.p, z ? 0 : n.n, &v, &vs);
	printf("\"val\":");
	if (rc == 0) put_bytes(v, vs); else printf("[]");
	printf(",\"found\":%s", rc == 0 ? "true" : "false");
	if (rc != 0 && rc != ENOENT) printf(",\"err\":%d", rc);
	if (z) { vh_buf_free(zs); vh_buf_free(zn); }
}

/* ---- ini_buf_gen into `cap` bytes.  returns rc; *n_ret reported size; *over = bytes stored beyond buf[cap-1];
 * out/out_n: the first min(n, cap) bytes (malloc'ed) when rc == 0 */
static int do_gen(size_t cap, size_t total, size_t *n_ret, size_t *over, uint8_t **out) {
	size_t slack = total + 64, n = (size_t)-1;
	uint8_t *b = malloc(cap + slack);
	if (!b) abort();
	memset(b, CANARY, cap + slack);
	int rc = ini_buf_gen(ini, b, cap, &n);
	*over = 0;
	for (size_t i = cap + slack; i > cap; i--) if (b[i - 1] != CANARY) { *over = i - cap; break; }
	if (*over == 0) {   /* same call under ASan's red zone; must give the same answer */
		uint8_t *e = vh_buf(cap);
		size_t n2 = (size_t)-1;
		int rc2 = ini_buf_gen(ini, e, cap, &n2);
		if (rc2 != rc || n2 != n || (rc == 0 && n <= cap && memcmp(e, b, n) != 0)) { rc = 7777; }
		vh_buf_free(e);
	}
	*n_ret = n;
	*out = NULL;
	if (rc == 0 && n != (size_t)-1) {
		size_t k = n < cap + slack ? n : cap + slack;
		*out = malloc(k ? k : 1); memcpy(*out, b, k);
	}
	free(b);
	return rc;
}

/* run-length printer for the per-capacity arrays */
typedef struct { long long v; size_t k; int any; int isbool; int firstrun; } rle_t;
static void rle_flush(rle_t *r) {
	if (!r->any) return;
	if (r->isbool) printf("%s{\"v\":%s,\"k\":%zu}", r->firstrun ? "" : ",", r->v ? "true" : "false", r->k);
	else printf("%s{\"v\":%lld,\"k\":%zu}", r->firstrun ? "" : ",", r->v, r->k);
	r->firstrun = 0;
}
static void rle_add(rle_t *r, long long v) {
	if (r->any && r->v == v) { r->k++; return; }
	rle_flush(r); r->v = v; r->k = 1; r->any = 1;
}

static void put_obs_gen(void) {
	size_t total = 0;
	ini_buf_calc_size(ini, &total);
	size_t ncap = total + 2;
	int *ok = calloc(ncap, sizeof(int)); long long *ov = calloc(ncap, sizeof(long long)), *nn = calloc(ncap, sizeof(long long));
	uint8_t *outs[8]; size_t outn[8]; int nouts = 0;
	for (size_t cap = 0; cap < ncap; cap++) {
		size_t n, over; uint8_t *out;
		int rc = do_gen(cap, total, &n, &over, &out);
		ok[cap] = (rc == 0); ov[cap] = (long long)over; nn[cap] = rc == 0 ? (long long)n : -1;
		if (rc == 7777) nn[cap] = -7777;
		if (rc == 0 && over == 0 && out) {
			int seen = 0;
			for (int i = 0; i < nouts; i++) if (outn[i] == n && memcmp(outs[i], out, n) == 0) seen = 1;
			if (!seen && nouts < 8) { outs[nouts] = out; outn[nouts] = n; nouts++; out = NULL; }
		}
		free(out);
	}
	rle_t r;
	printf("{\"ok\":[");
	memset(&r, 0, sizeof r); r.isbool = 1; r.firstrun = 1;
	for (size_t c = 0; c < ncap; c++) rle_add(&r, ok[c]);
	rle_flush(&r);
	printf("],\"over\":[");
	memset(&r, 0, sizeof r); r.firstrun = 1;
	for (size_t c = 0; c < ncap; c++) rle_add(&r, ov[c]);
	rle_flush(&r);
	printf("],\"n\":[");
	memset(&r, 0, sizeof r); r.firstrun = 1;
	for (size_t c = 0; c < ncap; c++) rle_add(&r, nn[c]);
	rle_flush(&r);
	printf("],\"outs\":[");
	for (int i = 0; i < nouts; i++) { if (i) printf(","); put_bytes(outs[i], outn[i]); free(outs[i]); }
	printf("]}");
	free(ok); free(ov); free(nn);
}

static void put_obs_store(void) {
	size_t total = 0;
	int rc = ini_buf_calc_size(ini, &total);
	printf("{\"sects\":"); put_enum();
	printf(",\"get\":[");
	for (size_t i = 0; i < nq; i++) { printf(i ? ",{" : "{"); put_get(0, 0, qs[i], qn[i]); printf("}"); }
	printf("],\"geti\":[");
	for (size_t i = 0; i < nq; i++) { printf(i ? ",{" : "{"); put_get(1, 0, qs[i], qn[i]); printf("}"); }
	printf("],\"size\":%lld}", rc == 0 ? (long long)total : -1ll);
}

static void run_op(char *op) {
	char *t[MAXTOK]; int nt = 0;
	for (char *p = strtok(op, " \t\r\n"); p && nt < MAXTOK; p = strtok(NULL, " \t\r\n")) t[nt++] = p;
	if (nt == 0) return;
	const char *o = t[0];
	if (!strcmp(o, "Q")) {
		for (size_t i = 0; i < nq; i++) { vh_buf_free(qs[i].p); vh_buf_free(qn[i].p); }
		nq = 0;
		for (int i = 1; i + 1 < nt && nq < MAXQ; i += 2) { qs[nq] = tok_bytes(t[i]); qn[nq] = tok_bytes(t[i + 1]); nq++; }
	} else if (!strcmp(o, "X")) {
		ini_destroy(ini); ini = NULL;
		if (ini_create(&ini) != 0) abort();
		ev_begin("Reset"); ev_end();
	} else if (!strcmp(o, "P") && nt >= 2) {
		bytes_t b = tok_bytes(t[1]);
		int rc = ini_buf_parse(ini, b.p, b.n);
		ev_begin("Parse"); kv_bytes("text", b.p, b.n); printf(",\"rc\":%d", rc); ev_end();
		vh_buf_free(b.p);
	} else if ((!strcmp(o, "S") || !strcmp(o, "Sz")) && nt >= 4) {
		bytes_t s = tok_bytes(t[1]), n = tok_bytes(t[2]), v = tok_bytes(t[3]);
		int rc;
		if (o[1] == 'z') {
			uint8_t *zs = cstr_of(s), *zn = cstr_of(n);
			rc = ini_val_set(ini, zs, 0, zn, 0, v.p, v.n);
			vh_buf_free(zs); vh_buf_free(zn);
		} else rc = ini_val_set(ini, s.p, s.n, n.p, n.n, v.p, v.n);
		ev_begin("Set"); kv_bytes("s", s.p, s.n); kv_bytes("n", n.p, n.n); kv_bytes("v", v.p, v.n);
		printf(",\"rc\":%d", rc); ev_end();
		vh_buf_free(s.p); vh_buf_free(n.p); vh_buf_free(v.p);
	} else if ((!strcmp(o, "SI") || !strcmp(o, "SU")) && nt >= 4) {
		bytes_t s = tok_bytes(t[1]), n = tok_bytes(t[2]);
		int rc, neg = 0; uint64_t mag;
		if (o[1] == 'I') {
			long long x = strtoll(t[3], NULL, 10);
			neg = x < 0; mag = neg ? (uint64_t)0 - (uint64_t)x : (uint64_t)x;
			rc = ini_val_set_int(ini, s.p, s.n, n.p, n.n, (ssize_t)x);
		} else {
			mag = strtoull(t[3], NULL, 10);
			rc = ini_val_set_uint(ini, s.p, s.n, n.p, n.n, (size_t)mag);
		}
		ev_begin(o[1] == 'I' ? "SetInt" : "SetUint"); kv_bytes("s", s.p, s.n); kv_bytes("n", n.p, n.n);
		put_limbs(neg, mag); printf(",\"rc\":%d", rc); ev_end();
		vh_buf_free(s.p); vh_buf_free(n.p);
	} else if ((!strcmp(o, "G") || !strcmp(o, "GI") || !strcmp(o, "Gz") || !strcmp(o, "GIz")) && nt >= 3) {
		bytes_t s = tok_bytes(t[1]), n = tok_bytes(t[2]);
		int ins = (o[1] == 'I'), z = (o[strlen(o) - 1] == 'z');
		ev_begin(ins ? "GetI" : "Get"); kv_bytes("s", s.p, s.n); kv_bytes("n", n.p, n.n); printf(",");
		put_get(ins, z, s, n); ev_end();
		vh_buf_free(s.p); vh_buf_free(n.p);
	} else if ((!strcmp(o, "GN") || !strcmp(o, "GU") || !strcmp(o, "GIN") || !strcmp(o, "GIU")) && nt >= 3) {
		bytes_t s = tok_bytes(t[1]), n = tok_bytes(t[2]);
		int ins = (o[1] == 'I'), uns = (o[strlen(o) - 1] == 'U'), rc, neg = 0; uint64_t mag = 0;
		/* the numeric getters are only asked for texts that are plain decimals of <= 18 digits (anything else is the
		 * business of str2num, not of the store); otherwise the op degrades to the plain getter */
		const uint8_t *pv = NULL; size_t pvs = 0; int plain = 0;
		rc = ins ? ini_vali_get(ini, s.p, s.n, n.p, n.n, &pv, &pvs) : ini_val_get(ini, s.p, s.n, n.p, n.n, &pv, &pvs);
		if (rc == 0) {
			size_t i = (pvs > 0 && pv[0] == '-') ? 1 : 0;
			if (pvs - i < 1 || pvs - i > 18 || (i && uns)) plain = 1;
			for (size_t j = i; j < pvs; j++) if (pv[j] < '0' || pv[j] > '9') plain = 1;
		}
		if (plain) {
			ev_begin(ins ? "GetI" : "Get"); kv_bytes("s", s.p, s.n); kv_bytes("n", n.p, n.n); printf(",");
			put_get(ins, 0, s, n); ev_end();
			vh_buf_free(s.p); vh_buf_free(n.p);
			return;
		}
		if (uns) {
			size_t x = 0;
			rc = ins ? ini_vali_get_uint(ini, s.p, s.n, n.p, n.n, &x) : ini_val_get_uint(ini, s.p, s.n, n.p, n.n, &x);
			mag = x;
		} else {
			ssize_t x = 0;
			rc = ins ? ini_vali_get_int(ini, s.p, s.n, n.p, n.n, &x) : ini_val_get_int(ini, s.p, s.n, n.p, n.n, &x);
			neg = x < 0; mag = neg ? (uint64_t)0 - (uint64_t)x : (uint64_t)x;
		}
		ev_begin("GetNum"); kv_bytes("s", s.p, s.n); kv_bytes("n", n.p, n.n);
		printf(",\"ins\":%s,\"uns\":%s,\"found\":%s", ins ? "true" : "false", uns ? "true" : "false", rc == 0 ? "true" : "false");
		if (rc != 0 && rc != ENOENT) printf(",\"err\":%d", rc);
		put_limbs(rc == 0 ? neg : 0, rc == 0 ? mag : 0); ev_end();
		vh_buf_free(s.p); vh_buf_free(n.p);
	} else if (!strcmp(o, "E")) {
		ev_begin("Enum"); printf(",\"sects\":"); put_enum(); ev_end();
	} else if (!strcmp(o, "C")) {
		size_t total = 0; int rc = ini_buf_calc_size(ini, &total);
		ev_begin("Calc"); printf(",\"size\":%lld", rc == 0 ? (long long)total : -1ll); ev_end();
	} else if (!strcmp(o, "N") && nt >= 3) {
		size_t total = 0, cap, n, over; uint8_t *out;
		ini_buf_calc_size(ini, &total);
		long long a = strtoll(t[2], NULL, 10);
		if (t[1][0] == 'r') { long long c = (long long)total + a; cap = c < 0 ? 0 : (size_t)c; } else cap = (size_t)a;
		int rc = do_gen(cap, total, &n, &over, &out);
		ev_begin("Gen"); printf(",\"cap\":%zu,\"ok\":%s,\"over\":%zu,\"n\":%lld", cap, rc == 0 ? "true" : "false",
		    over, rc == 0 ? (long long)n : (rc == 7777 ? -7777ll : -1ll));
		if (rc == 0 && over == 0 && out) kv_bytes("out", out, n);
		ev_end();
		free(out);
	} else if (!strcmp(o, "RT")) {
		/* text round trip ON THE REAL CODE: generate, parse the text into a second store, observe that one */
		size_t total = 0, n = 0; ini_p saved = ini, other = NULL;
		ini_buf_calc_size(ini, &total);
		uint8_t *txt = vh_buf(total);
		int rc = total ? ini_buf_gen(ini, txt, total, &n) : 0;
		if (ini_create(&other) != 0) abort();
		int rc2 = ini_buf_parse(other, txt, rc == 0 ? n : 0);
		ev_begin("RoundTrip"); printf(",\"rc\":%d,\"rc2\":%d", rc, rc2); kv_bytes("text", txt, rc == 0 ? n : 0);
		ini = other;
		printf(",\"sects\":"); put_enum();
		size_t total2 = 0; ini_buf_calc_size(other, &total2);
		uint8_t *txt2 = vh_buf(total2); size_t n2 = 0;
		int rc3 = total2 ? ini_buf_gen(other, txt2, total2, &n2) : 0;
		kv_bytes("text2", txt2, rc3 == 0 ? n2 : 0);
		ini = saved;
		ev_end();
		ini_destroy(other); vh_buf_free(txt); vh_buf_free(txt2);
	} else if (!strcmp(o, "O")) {
		ev_begin("Obs"); printf(",\"store\":"); put_obs_store(); printf(",\"gen\":"); put_obs_gen(); ev_end();
	} else {
		ev_begin("BadOp"); ev_end();
	}
}

int main(void) {
	static char line[1 << 22];
	vh_install_fault_handler();
	setvbuf(stdout, NULL, _IOFBF, 1 << 20);
	while (fgets(line, sizeof(line), stdin)) {
		vh_set_tag(line);
		alarm(10); /* a case takes milliseconds: 10 s without an answer = the code under test does not terminate */
		if (ini_create(&ini) != 0) abort();
		first_ev = 1;
		char *obuf = NULL; size_t olen = 0;
		g_out = open_memstream(&obuf, &olen);
		if (!g_out) abort();
		printf("[");
		char *save = NULL;
		/* split on ';' by hand (run_op uses strtok) */
		char *p = line;
		while (p && *p) {
			char *q = strchr(p, ';');
			if (q) *q = 0;
			run_op(p);
			p = q ? q + 1 : NULL;
		}
		(void)save;
		printf("]\n");
		fclose(g_out); g_out = NULL;
		ini_destroy(ini); ini = NULL;     /* before the answer goes out: a corrupted heap is charged to THIS case */
		fwrite(obuf, 1, olen, stdout);
		fflush(stdout);
		free(obuf);
		alarm(0);
	}
	return 0;
}
