/* I/O-task conformance driver (property C16).
 *
 * Unity build of the thread pool + threadpool_task.c (private struct tp_task_s is visible, nothing is changed);
 * src/net/socket*.c and src/utils/sys.c are linked as separate objects.  Link with
 *   -Wl,--wrap=recv,--wrap=send,--wrap=pread,--wrap=pwrite,--wrap=recvfrom,--wrap=accept4,--wrap=epoll_ctl,
 *       --wrap=timerfd_create,--wrap=timerfd_settime
 * The wrappers (a) cap every recv/send/pread/pwrite of a task descriptor at the scenario's next fragment size
 * (the kernel's fragmentation becomes a chosen input), (b) inject the errno the scenario arms, (c) log the
 * arguments that reached the call and the bytes moved, under a per-stream rig lock that also covers the peer's
 * writes/closes, so that the log order of operations on one stream is their real order.
 * liblcb_verif_point() (the guarded hook of the library) logs loop.turn / loop.cb / ev.post for task objects.
 *
 * usage: task_drv <scenario-file> <trace-out.ndjson> [seed]
 */
#include <semaphore.h>
#include <stdarg.h>
#include <sys/socket.h>
#include <sys/un.h>
#include <sys/ioctl.h>
#include <netinet/in.h>
#include <arpa/inet.h>
#include "threadpool/threadpool.c"
#include "threadpool/threadpool_msg_sys.c"
#include "threadpool/threadpool_task.c"

ssize_t __real_recv(int, void *, size_t, int);
ssize_t __real_send(int, const void *, size_t, int);
ssize_t __real_pread(int, void *, size_t, off_t);
ssize_t __real_pwrite(int, const void *, size_t, off_t);
ssize_t __real_recvfrom(int, void *, size_t, int, struct sockaddr *, socklen_t *);
int __real_epoll_ctl(int, int, int, struct epoll_event *);
int __real_timerfd_create(int, int);
int __real_timerfd_settime(int, int, const struct itimerspec *, struct itimerspec *);

/* ------------------------------------------------------------------ sink */
#define MAXMSG 4096
typedef struct hmsg_s { int id; sem_t *sem; char *prog; volatile int finished; } hmsg_t;

static pthread_mutex_t g_log_mu = PTHREAD_MUTEX_INITIALIZER;
static char *g_log; static size_t g_log_len, g_log_cap;
static long g_seq;
static const char *g_out_path;
static uint64_t g_seed = 1;
static int g_perturb = 1;
static int g_watchdog_s = 60;

static tp_p g_tp; static size_t g_n;
static hmsg_t g_msg[MAXMSG];
static int g_msg_next = 1;

static __thread int vh_tid = -999;
static __thread uint64_t vh_rng = 0;
static __thread int vh_post_k = -1, vh_post_o = -1;   /* task object of the tpt_ev_post() this thread entered last */
static int g_ext_ctr = 300;

static void flush_log(void) {
	if (!g_out_path) return;
	FILE *f = fopen(g_out_path, "w");
	if (!f) return;
	fwrite(g_log, 1, g_log_len, f);
	fclose(f);
}
void __sanitizer_set_death_callback(void (*)(void)) __attribute__((weak));
/* A pool thread that has not come back after the long bounded wait (20 s / 30 s for work that takes milliseconds) is inside the
 * library and will not come back: the "Hang" event is the last line of the trace and the run ends here, like on the watchdog.
 * Every later task life of the scenario would only wait for the same thread again (30 s each). */
static void hang_exit(void) { flush_log(); _exit(3); }

static int tid_now(void) {
	if (vh_tid != -999) return vh_tid;
	tpt_p t = (g_tp != NULL) ? tpt_get_current() : NULL;
	if (t != NULL) vh_tid = (int)t->thread_num; else vh_tid = __sync_fetch_and_add(&g_ext_ctr, 1);
	return vh_tid;
}
static void log_room(void) {
	if (g_log_len + 16384 > g_log_cap) {
		g_log_cap = g_log_cap ? g_log_cap * 2 : (1u << 22);
		g_log = realloc(g_log, g_log_cap);
		if (!g_log) abort();
	}
}
static void logf_locked(const char *fmt, ...) {
	log_room();
	int n = snprintf(g_log + g_log_len, 256, "{\"n\":%ld,\"t\":%d,", ++g_seq, tid_now());
	g_log_len += (size_t)n;
	va_list ap; va_start(ap, fmt);
	n = vsnprintf(g_log + g_log_len, 8000, fmt, ap);
	va_end(ap);
	g_log_len += (size_t)n;
	g_log[g_log_len++] = '}'; g_log[g_log_len++] = '\n';
}
#define LOGEV(...) do { pthread_mutex_lock(&g_log_mu); logf_locked(__VA_ARGS__); pthread_mutex_unlock(&g_log_mu); } while (0)
/* "[a,b,c]" of n bytes into a static per-thread buffer */
static __thread char vh_arr[2][4200];
static const char *arr(int slot, const uint8_t *p, size_t n) {
	char *o = vh_arr[slot]; size_t l = 0;
	o[l++] = '[';
	for (size_t i = 0; i < n && l < 4100; i++) l += (size_t)snprintf(o + l, 8, "%s%u", i ? "," : "", (unsigned)p[i]);
	o[l++] = ']'; o[l] = 0;
	return o;
}

static uint64_t rng_next(void) {
	if (vh_rng == 0) vh_rng = (g_seed * 0x9E3779B97F4A7C15ull) ^ ((uint64_t)(tid_now() + 1000) * 0xBF58476D1CE4E5B9ull) ^ 1;
	vh_rng ^= vh_rng << 13; vh_rng ^= vh_rng >> 7; vh_rng ^= vh_rng << 17;
	return vh_rng;
}
static void perturb(void) {
	if (!g_perturb) return;
	uint64_t r = rng_next();
	switch (r & 15) {
	case 0: case 1: sched_yield(); break;
	case 2: usleep((useconds_t)((r >> 8) % 150)); break;
	default: break;
	}
}

/* ------------------------------------------------------------------ task objects */
#define MAXTK 16
#define MAXCAP 32
#define MAXPOL 8
enum { K_STREAM = 0, K_FILE = 1, K_PIPE = 2, K_DGRAM = 3, K_LISTEN = 4, K_CONNECT = 5 };
#define MAXCONN 16
enum { CL_PART = 0, CL_FULL = 1, CL_EOF = 2, CL_TMO = 3, CL_ERR = 4, CL_N = 5 };
typedef struct tk_s {
	int used_slot, k, kind;
	int fd, pfd;                 /* descriptor given to the task, the peer's end (-1 = closed / none) */
	tp_task_p task;
	io_buf_t buf;                /* cursors; data is an exact-size heap block (sanitizer red zones around it) */
	size_t off0, tr0, used0;     /* the caller's window */
	pthread_mutex_t mu;          /* stream lock: real I/O call + log append */
	int caps[MAXCAP], ncap, capi;/* fragmentation oracle: cap of the i-th I/O call (cyclic); 0 entries = no cap */
	int inj_k, inj_err;          /* the inj_k-th I/O call from now fails with inj_err without touching the descriptor */
	char pol[CL_N][MAXPOL][8]; int npol[CL_N], ipol[CL_N];  /* callback policy per condition class */
	volatile int cbs, tmo_cbs, eof_cbs, err_cbs;
	volatile int destroyed;
	int owner, handler;
	int port, xfd, conns[MAXCONN], nconn;   /* listener port; filler connection; client ends of accepted connections */
	volatile int creating;                  /* inside tp_task_*_create(): the task pointer is not known to the rig yet */
} tk_t;
static tk_t g_tk[MAXTK];
static volatile long g_activity;   /* bumped by every task-related step of a pool thread */
static char g_tmpdir[512] = "/tmp";

static tk_t *tk_by_fd(int fd) { for (int i = 0; i < MAXTK; i++) if (g_tk[i].used_slot && g_tk[i].fd == fd && fd >= 0) return &g_tk[i]; return NULL; }
static int tk_obj(const void *p, int *o) { /* which task object is this tp_udata? */
	for (int i = 0; i < MAXTK; i++) {
		if (!g_tk[i].used_slot || g_tk[i].task == NULL || g_tk[i].destroyed) continue;
		if (p == (const void *)&g_tk[i].task->tp_data) { *o = 0; return i; }
		if (p == (const void *)&g_tk[i].task->tp_timer) { *o = 1; return i; }
	}
	return -1;
}
static int tk_obj_creating(const void *p, int *o) {
	const tp_udata_t *u = p;
	for (int i = 0; i < MAXTK; i++) {
		tk_t *tk = &g_tk[i];
		if (!tk->used_slot || !tk->creating || tk->task != NULL) continue;
		if (u->cb_func == NULL) continue;
		if (u->ident == (uintptr_t)tk->fd) { tk->task = (tp_task_p)(uintptr_t)p; *o = 0; return i; }
		tp_task_p cand = (tp_task_p)u->ident;
		if ((const void *)&cand->tp_timer == p && cand->tp_data.ident == (uintptr_t)tk->fd) { tk->task = cand; *o = 1; return i; }
	}
	return -1;
}
static const char *oname(int o) { return o == 0 ? "io" : "tmr"; }

/* ------------------------------------------------------------------ the hook */
void liblcb_verif_point(const char *label, const void *a, const void *b, uintptr_t val) {
	int saved_errno = errno;
	if (0 == strcmp(label, "proc.enter")) vh_tid = (int)((const tp_thread_t *)a)->thread_num;
	else if (0 == strcmp(label, "create.pvt_running")) g_tp = (tp_p)(uintptr_t)a;
	else if (0 == strcmp(label, "loop.turn")) {
		LOGEV("\"e\":\"loop.turn\"");
	} else if (0 == strcmp(label, "loop.cb")) {
		int o, k = tk_obj(b, &o);
		if (k >= 0) LOGEV("\"e\":\"loop.cb\",\"k\":%d,\"o\":\"%s\",\"ev\":%u,\"eof\":%d,\"err\":%d", k, oname(o),
		    (unsigned)(val & 0xffff), (int)((val >> 24) & 1), (int)((val >> 25) & 1));
	} else if (0 == strcmp(label, "ev.post")) {
		int o, k = tk_obj(b, &o);
		if (k < 0 && ((const tp_udata_t *)b)->cb_func != NULL && ((const tp_udata_t *)b)->cb_func != tpt_msg_recv_and_process) k = tk_obj_creating(b, &o);
		vh_post_k = k; vh_post_o = o;
		if (k >= 0) LOGEV("\"e\":\"ev.post\",\"k\":%d,\"o\":\"%s\",\"op\":%u,\"ev\":%u,\"fl\":%u", k, oname(o),
		    (unsigned)(val & 0xff), (unsigned)((val >> 8) & 0xff), (unsigned)((val >> 16) & 0xffff));
	}
	if (0 == strcmp(label, "loop.cb") || 0 == strcmp(label, "ev.post")) { int o2; if (tk_obj(b, &o2) >= 0) __sync_fetch_and_add(&g_activity, 1); }
	if (label[0] == 'l' || label[0] == 'e') perturb();
	errno = saved_errno;
}

/* ------------------------------------------------------------------ wrappers */
typedef struct { const char *kind; int k; int err; } fault_t;
static fault_t g_fault[8]; static int g_nfault;
static pthread_mutex_t g_f_mu = PTHREAD_MUTEX_INITIALIZER;
static int fault_hit(const char *kind) {
	int r = 0;
	pthread_mutex_lock(&g_f_mu);
	for (int i = 0; i < g_nfault; i++)
		if (g_fault[i].k > 0 && 0 == strcmp(g_fault[i].kind, kind)) { if (--g_fault[i].k == 0) r = g_fault[i].err; }
	pthread_mutex_unlock(&g_f_mu);
	return r;
}
int __wrap_epoll_ctl(int epfd, int op, int fd, struct epoll_event *ev) {
	int e = fault_hit("epoll_ctl");
	int rc, err;
	if (e) { rc = -1; err = e; } else { rc = __real_epoll_ctl(epfd, op, fd, ev); err = errno; }
	/* EEXIST / ENOENT belong to the add-or-modify guess of epoll_ctl_ex and to deletes of absent registrations */
	if (rc != 0 && vh_post_k >= 0 && err != EEXIST && err != ENOENT)
		LOGEV("\"e\":\"sys.fail\",\"k\":%d,\"what\":\"epoll_ctl\",\"err\":%d,\"inj\":%d", vh_post_k, err, e ? 1 : 0);
	errno = err;
	return rc;
}
int __wrap_timerfd_create(int clk, int flags) {
	int e = fault_hit("timerfd_create");
	if (e) {
		if (vh_post_k >= 0) LOGEV("\"e\":\"sys.fail\",\"k\":%d,\"what\":\"timerfd_create\",\"err\":%d,\"inj\":1", vh_post_k, e);
		errno = e; return -1;
	}
	return __real_timerfd_create(clk, flags);
}
int __wrap_timerfd_settime(int fd, int flags, const struct itimerspec *nv, struct itimerspec *ov) {
	int rc = __real_timerfd_settime(fd, flags, nv, ov);
	int err = errno;
	if (vh_post_k >= 0 && vh_post_o == 1) {
		unsigned long long ms = (unsigned long long)nv->it_value.tv_sec * 1000ull + (unsigned long long)nv->it_value.tv_nsec / 1000000ull;
		unsigned long long ims = (unsigned long long)nv->it_interval.tv_sec * 1000ull + (unsigned long long)nv->it_interval.tv_nsec / 1000000ull;
		int exact = (nv->it_value.tv_nsec % 1000000l) == 0 && (nv->it_interval.tv_nsec % 1000000l) == 0;
		if (ms > 100000000ull) ms = 100000000ull;
		if (ims > 100000000ull) ims = 100000000ull;
		LOGEV("\"e\":\"sys.settime\",\"k\":%d,\"ms\":%llu,\"ims\":%llu,\"exact\":%d,\"abs\":%d,\"rc\":%d", vh_post_k, ms, ims, exact,
		    (flags & TFD_TIMER_ABSTIME) ? 1 : 0, rc);
	}
	errno = err;
	return rc;
}

/* one I/O call of the library on a task descriptor: fn 0 recv, 1 send, 2 pread, 3 pwrite, 4 recvfrom */
static const char *fnname[] = { "recv", "send", "pread", "pwrite", "recvfrom" };
static ssize_t io_call(tk_t *tk, int fn, int fd, void *buf, size_t len, int flags, off_t fo, struct sockaddr *sa, socklen_t *sl) {
	perturb();
	__sync_fetch_and_add(&g_activity, 1);
	pthread_mutex_lock(&tk->mu);
	size_t cap = len;
	if (tk->ncap > 0) { int c = tk->caps[tk->capi % tk->ncap]; tk->capi++; if (c > 0 && (size_t)c < cap) cap = (size_t)c; }
	ssize_t rc; int err = 0, inj = 0;
	if (tk->inj_k > 0 && --tk->inj_k == 0) { rc = -1; err = tk->inj_err; inj = 1; }
	else {
		switch (fn) {
		case 0: rc = __real_recv(fd, buf, cap, flags); break;
		case 1: rc = __real_send(fd, buf, cap, flags); break;
		case 2: rc = __real_pread(fd, buf, cap, fo); break;
		case 3: rc = __real_pwrite(fd, buf, cap, fo); break;
		default: rc = __real_recvfrom(fd, buf, cap, flags, sa, sl); break;
		}
		err = errno;
	}
	long poff = (long)((const uint8_t *)buf - tk->buf.data);
	LOGEV("\"e\":\"sys.io\",\"k\":%d,\"fn\":\"%s\",\"poff\":%ld,\"len\":%zu,\"cap\":%zu,\"fo\":%ld,\"dontwait\":%d,\"rc\":%zd,\"err\":%d,\"inj\":%d,\"ids\":%s",
	    tk->k, fnname[fn], poff, len, cap, (long)fo, (flags & MSG_DONTWAIT) ? 1 : 0, rc, (rc < 0) ? err : 0, inj,
	    arr(0, buf, (rc > 0) ? (size_t)rc : 0));
	pthread_mutex_unlock(&tk->mu);
	errno = err;
	return rc;
}
ssize_t __wrap_recv(int fd, void *buf, size_t len, int flags) {
	tk_t *tk = tk_by_fd(fd);
	if (!tk) return __real_recv(fd, buf, len, flags);
	return io_call(tk, 0, fd, buf, len, flags, 0, NULL, NULL);
}
ssize_t __wrap_send(int fd, const void *buf, size_t len, int flags) {
	tk_t *tk = tk_by_fd(fd);
	if (!tk) return __real_send(fd, buf, len, flags);
	return io_call(tk, 1, fd, (void *)(uintptr_t)buf, len, flags, 0, NULL, NULL);
}
ssize_t __wrap_pread(int fd, void *buf, size_t len, off_t fo) {
	tk_t *tk = tk_by_fd(fd);
	if (!tk) return __real_pread(fd, buf, len, fo);
	return io_call(tk, 2, fd, buf, len, 0, fo, NULL, NULL);
}
ssize_t __wrap_pwrite(int fd, const void *buf, size_t len, off_t fo) {
	tk_t *tk = tk_by_fd(fd);
	if (!tk) return __real_pwrite(fd, buf, len, fo);
	return io_call(tk, 3, fd, (void *)(uintptr_t)buf, len, 0, fo, NULL, NULL);
}
ssize_t __wrap_recvfrom(int fd, void *buf, size_t len, int flags, struct sockaddr *sa, socklen_t *sl) {
	tk_t *tk = tk_by_fd(fd);
	if (!tk) return __real_recvfrom(fd, buf, len, flags, sa, sl);
	return io_call(tk, 4, fd, buf, len, flags, 0, sa, sl);
}

int __real_accept4(int, struct sockaddr *, socklen_t *, int);
int __wrap_accept4(int fd, struct sockaddr *sa, socklen_t *sl, int flags) {
	tk_t *tk = tk_by_fd(fd);
	if (!tk) return __real_accept4(fd, sa, sl, flags);
	perturb();
	__sync_fetch_and_add(&g_activity, 1);
	pthread_mutex_lock(&tk->mu);
	int rc, err = 0, inj = 0;
	if (tk->inj_k > 0 && --tk->inj_k == 0) { rc = -1; err = tk->inj_err; inj = 1; }
	else { rc = __real_accept4(fd, sa, sl, flags); err = errno; }
	unsigned port = (rc >= 0 && sa != NULL && sa->sa_family == AF_INET) ? ntohs(((struct sockaddr_in *)sa)->sin_port) : 0;
	char ids[32];
	if (rc >= 0) snprintf(ids, sizeof(ids), "[%u]", port); else strcpy(ids, "[]");
	LOGEV("\"e\":\"sys.io\",\"k\":%d,\"fn\":\"accept4\",\"poff\":0,\"len\":0,\"cap\":0,\"fo\":0,\"dontwait\":%d,\"rc\":%d,\"err\":%d,\"inj\":%d,\"ids\":%s",
	    tk->k, (flags & SOCK_NONBLOCK) ? 1 : 0, (rc >= 0) ? 1 : rc, (rc < 0) ? err : 0, inj, ids);
	pthread_mutex_unlock(&tk->mu);
	errno = err;
	return rc;
}

/* ------------------------------------------------------------------ callbacks of the tasks */
static void api_stop(tk_t *tk) {
	LOGEV("\"e\":\"call.stop\",\"k\":%d", tk->k); tp_task_stop(tk->task); LOGEV("\"e\":\"ret.stop\",\"k\":%d", tk->k);
}
static void api_enable(tk_t *tk, int en) {
	LOGEV("\"e\":\"call.enable\",\"k\":%d,\"en\":%d", tk->k, en);
	int rc = tp_task_enable(tk->task, en);
	LOGEV("\"e\":\"ret.enable\",\"k\":%d,\"rc\":%d", tk->k, rc);
}
static void api_destroy(tk_t *tk) {
	LOGEV("\"e\":\"call.destroy\",\"k\":%d", tk->k);
	tp_task_p t = tk->task;
	tp_task_destroy(t);
	tk->destroyed = 1; tk->task = NULL;
	LOGEV("\"e\":\"ret.destroy\",\"k\":%d", tk->k);
}
static void api_rewind(tk_t *tk) {
	tk->buf.used = tk->used0; tk->buf.offset = tk->off0; tk->buf.transfer_size = tk->tr0;
	LOGEV("\"e\":\"cb.rewind\",\"k\":%d", tk->k);
}
/* policy item: optional actions r (rewind window) s (stop) d (enable 0) D (destroy), then the return code C N E X */
static int run_policy(tk_t *tk, int cls) {
	const char *it = "sN";
	if (tk->npol[cls] > 0) { int i = tk->ipol[cls]; if (i >= tk->npol[cls]) i = tk->npol[cls] - 1; it = tk->pol[cls][i]; tk->ipol[cls]++; }
	int ret = TP_TASK_CB_NONE;
	for (const char *p = it; *p; p++) {
		switch (*p) {
		case 'g': {
			uint8_t tmp[512]; size_t n = 0;
			pthread_mutex_lock(&tk->mu);
			for (;;) {
				size_t cap = sizeof(tmp) - n;
				if (tk->ncap > 0) { int c = tk->caps[tk->capi % tk->ncap]; tk->capi++; if (c > 0 && (size_t)c < cap) cap = (size_t)c; }
				ssize_t rc = read(tk->fd, tmp + n, cap);
				if (rc <= 0) break;
				n += (size_t)rc;
				if (n >= sizeof(tmp)) break;
			}
			LOGEV("\"e\":\"cb.read\",\"k\":%d,\"ids\":%s", tk->k, arr(0, tmp, n));
			pthread_mutex_unlock(&tk->mu);
			break; }
		case 'r': api_rewind(tk); break;
		case 's': api_stop(tk); break;
		case 'd': api_enable(tk, 0); break;
		case 'D': api_destroy(tk); break;
		case 'C': ret = TP_TASK_CB_CONTINUE; break;
		case 'N': ret = TP_TASK_CB_NONE; break;
		case 'E': ret = TP_TASK_CB_EOF; break;
		case 'X': ret = TP_TASK_CB_ERROR; break;
		}
	}
	return ret;
}
static int task_cb(tp_task_p tptask, int error, io_buf_p buf, uint32_t eof, size_t n, void *udata) {
	tk_t *tk = udata;
	tpt_p cur = tpt_get_current();
	int cls = (error == ETIMEDOUT) ? CL_TMO : (error != 0) ? CL_ERR : (eof != 0) ? CL_EOF : (buf != NULL && buf->transfer_size == 0) ? CL_FULL : CL_PART;
	long nn = (n > 100000000ul) ? 100000000l : (long)n;
	LOGEV("\"e\":\"taskcb.begin\",\"k\":%d,\"same\":%d,\"err\":%d,\"eof\":%u,\"nb\":%ld,\"size\":%zu,\"used\":%zu,\"off\":%zu,\"tr\":%zu,\"foff\":%ld,\"cur\":%ld,\"mem\":%s",
	    tk->k, (tptask == tk->task && buf == &tk->buf) ? 1 : 0, error, (unsigned)eof, nn, tk->buf.size, tk->buf.used, tk->buf.offset,
	    tk->buf.transfer_size, (long)tp_task_offset_get(tptask), cur ? (long)cur->thread_num : -1L, arr(1, tk->buf.data, tk->buf.size));
	perturb();
	int ret;
	if (tk->cbs >= 40 && tk->task != NULL) { api_stop(tk); ret = TP_TASK_CB_NONE; }   /* a callback may always stop its task: bounds the log */
	else ret = run_policy(tk, cls);
	LOGEV("\"e\":\"taskcb.end\",\"k\":%d,\"ret\":%d", tk->k, ret);
	if (error == ETIMEDOUT) tk->tmo_cbs++;
	else if (error != 0) tk->err_cbs++;
	if (eof != 0) tk->eof_cbs++;
	tk->cbs++;
	return ret;
}

static int notify_cb(tp_task_p tptask, int error, uint32_t eof, size_t d2t, void *udata) {
	tk_t *tk = udata;
	tpt_p cur = tpt_get_current();
	int cls = (error == ETIMEDOUT) ? CL_TMO : (error != 0) ? CL_ERR : (eof != 0) ? CL_EOF : CL_PART;
	long nn = (d2t > 100000000ul) ? 100000000l : (long)d2t;
	LOGEV("\"e\":\"taskcb.begin\",\"k\":%d,\"same\":%d,\"err\":%d,\"eof\":%u,\"nb\":%ld,\"size\":%zu,\"used\":%zu,\"off\":%zu,\"tr\":%zu,\"foff\":%ld,\"cur\":%ld,\"mem\":%s",
	    tk->k, (tptask == tk->task) ? 1 : 0, error, (unsigned)eof, nn, tk->buf.size, tk->buf.used, tk->buf.offset,
	    tk->buf.transfer_size, (long)tp_task_offset_get(tptask), cur ? (long)cur->thread_num : -1L, arr(1, tk->buf.data, tk->buf.size));
	perturb();
	int ret;
	if (tk->cbs >= 40 && tk->task != NULL) { api_stop(tk); ret = TP_TASK_CB_NONE; }
	else ret = run_policy(tk, cls);
	LOGEV("\"e\":\"taskcb.end\",\"k\":%d,\"ret\":%d", tk->k, ret);
	if (error == ETIMEDOUT) tk->tmo_cbs++;
	else if (error != 0) tk->err_cbs++;
	if (eof != 0) tk->eof_cbs++;
	tk->cbs++;
	return ret;
}

static int cb_finish(tk_t *tk, int error, uint32_t eof, int cls) {
	perturb();
	int ret;
	if (tk->cbs >= 40 && tk->task != NULL) { api_stop(tk); ret = TP_TASK_CB_NONE; }
	else ret = run_policy(tk, cls);
	LOGEV("\"e\":\"taskcb.end\",\"k\":%d,\"ret\":%d", tk->k, ret);
	if (error == ETIMEDOUT) tk->tmo_cbs++;
	else if (error != 0) tk->err_cbs++;
	if (eof != 0) tk->eof_cbs++;
	tk->cbs++;
	return ret;
}
#define CB_LOG(tk, tptask, error, nn, extra_fmt, ...) do { tpt_p cur_ = tpt_get_current(); \
	LOGEV("\"e\":\"taskcb.begin\",\"k\":%d,\"same\":%d,\"err\":%d,\"eof\":0,\"nb\":%ld,\"size\":%zu,\"used\":%zu,\"off\":%zu,\"tr\":%zu,\"foff\":%ld,\"cur\":%ld,\"mem\":%s" extra_fmt, \
	    (tk)->k, ((tptask) == (tk)->task) ? 1 : 0, (error), (long)(nn), (tk)->buf.size, (tk)->buf.used, (tk)->buf.offset, (tk)->buf.transfer_size, \
	    (long)tp_task_offset_get(tptask), cur_ ? (long)cur_->thread_num : -1L, arr(1, (tk)->buf.data, (tk)->buf.size), __VA_ARGS__); } while (0)
static int pkt_cb(tp_task_p tptask, int error, struct sockaddr_storage *addr, io_buf_p buf, size_t n, void *udata) {
	tk_t *tk = udata;
	CB_LOG(tk, tptask, error, n, ",\"addr\":%d,\"bufok\":%d", addr != NULL, buf == &tk->buf);
	return cb_finish(tk, error, 0, (error == ETIMEDOUT) ? CL_TMO : (error != 0) ? CL_ERR : CL_PART);
}
static int acc_cb(tp_task_p tptask, int error, uintptr_t skt_new, struct sockaddr_storage *addr, void *udata) {
	tk_t *tk = udata;
	int ok = ((uintptr_t)-1 != skt_new);
	unsigned port = (ok && addr != NULL && addr->ss_family == AF_INET) ? ntohs(((struct sockaddr_in *)addr)->sin_port) : 0;
	int nb = ok ? ((fcntl((int)skt_new, F_GETFL) & O_NONBLOCK) != 0) : 0;
	CB_LOG(tk, tptask, error, ok ? 1 : 0, ",\"port\":%u,\"nonblock\":%d", port, nb);
	if (ok) close((int)skt_new);
	return cb_finish(tk, error, 0, (error == ETIMEDOUT) ? CL_TMO : (error != 0) ? CL_ERR : CL_PART);
}
static int conn_cb(tp_task_p tptask, int error, void *udata) {
	tk_t *tk = udata;
	CB_LOG(tk, tptask, error, 0, ",\"conn\":%d", 1);
	return cb_finish(tk, error, 0, (error == ETIMEDOUT) ? CL_TMO : (error != 0) ? CL_ERR : CL_FULL);
}
static void loopback(struct sockaddr_storage *ss, int port) {
	memset(ss, 0, sizeof(*ss));
	struct sockaddr_in *sin = (struct sockaddr_in *)ss;
	sin->sin_family = AF_INET; sin->sin_addr.s_addr = htonl(INADDR_LOOPBACK); sin->sin_port = htons((uint16_t)port);
}
static int bound_port(int fd) { struct sockaddr_in sin; socklen_t sl = sizeof(sin); getsockname(fd, (struct sockaddr *)&sin, &sl); return ntohs(sin.sin_port); }

/* ------------------------------------------------------------------ scenario machinery */
#define MAXGATE 8
static sem_t g_gate[MAXGATE];
static void run_prog(const char *actor, char *prog);
static tpt_p thr(int i) { return (i == (int)g_n) ? g_tp->pvt : &g_tp->threads[i]; }
static hmsg_t *msg_get(void) { hmsg_t *m = &g_msg[g_msg_next % MAXMSG]; m->id = g_msg_next++; m->finished = 0; m->sem = NULL; m->prog = NULL; return m; }
static void sent_cb(tpt_p tpt __unused, void *udata) { hmsg_t *m = udata; sem_post(m->sem); }
static void ctl_cb(tpt_p tpt, void *udata) {
	hmsg_t *m = udata; char name[16];
	snprintf(name, sizeof(name), "w%zu", tpt->thread_num);
	run_prog(name, m->prog);
	m->finished = 1;
}
static void do_quiesce(void) {
	sem_t s; sem_init(&s, 0, 0);
	for (int round = 0; round < 2; round++) {
		for (size_t i = 0; i < g_n; i++) {
			if (g_tp->threads[i].state != TP_THREAD_STATE_RUNNING) continue;
			hmsg_t *m = msg_get(); m->sem = &s;
			int rc = 0;
			for (int tries = 0; tries < 20000; tries++) { rc = tpt_msg_send(&g_tp->threads[i], NULL, 0, sent_cb, m); if (rc != EAGAIN) break; usleep(100); }
			if (rc == 0) {
				struct timespec ts; clock_gettime(CLOCK_REALTIME, &ts); ts.tv_sec += 20;
				if (sem_timedwait(&s, &ts) != 0) { LOGEV("\"e\":\"Hang\",\"where\":\"quiesce\""); hang_exit(); }
			}
		}
	}
	sem_destroy(&s);
}
static int msleep_poll(volatile int *ctr, int want, int ms) { /* bounded wait until *ctr >= want */
	for (long i = 0; i < (long)ms * 5 && *ctr < want; i++) usleep(200);
	return *ctr >= want;
}

static int tk_ops(const char *op, const char *args) {
	int k = 0, a = 0, b = 0, c = 0, d = 0, e = 0;
	if (!strcmp(op, "tknew")) { /* tknew k kind size off tr used */
		size_t size = 0, off = 0, tr = 0, used = 0; int kind = 0;
		sscanf(args, "%d %d %zu %zu %zu %zu", &k, &kind, &size, &off, &tr, &used);
		tk_t *tk = &g_tk[k]; memset(tk, 0, sizeof(*tk));
		tk->k = k; tk->kind = kind; tk->fd = tk->pfd = tk->xfd = -1; tk->used_slot = 1; pthread_mutex_init(&tk->mu, NULL);
		int fds[2];
		if (kind == K_STREAM || kind == K_DGRAM) {
			if (socketpair(AF_UNIX, (kind == K_STREAM) ? SOCK_STREAM : SOCK_DGRAM, 0, fds) != 0) abort();
			fcntl(fds[0], F_SETFL, O_NONBLOCK); fcntl(fds[1], F_SETFL, O_NONBLOCK);
			tk->fd = fds[0]; tk->pfd = fds[1];
		} else if (kind == K_PIPE) {
			if (pipe(fds) != 0) abort();
			fcntl(fds[0], F_SETFL, O_NONBLOCK); fcntl(fds[1], F_SETFL, O_NONBLOCK);
			tk->fd = fds[0]; tk->pfd = fds[1];
		} else if (kind == K_LISTEN) { /* listening TCP socket made by the library's own helpers (src/net/socket.c) */
			struct sockaddr_storage ss; uintptr_t skt = (uintptr_t)-1;
			loopback(&ss, 0);
			if (skt_bind(&ss, SOCK_STREAM, 0, SO_F_NONBLOCK | SO_F_REUSEADDR, &skt) != 0 || skt_listen(skt, 16) != 0) abort();
			tk->fd = (int)skt; tk->port = bound_port(tk->fd);
		} else if (kind == K_CONNECT) { /* `used` selects the target: 0 listener that takes the connection, 1 closed port, 2 listener whose queue is full */
			struct sockaddr_storage ss; uintptr_t skt = (uintptr_t)-1;
			int ls = socket(AF_INET, SOCK_STREAM, 0); loopback(&ss, 0);
			if (ls < 0 || bind(ls, (struct sockaddr *)&ss, sizeof(struct sockaddr_in)) != 0 || listen(ls, (used == 2) ? 0 : 8) != 0) abort();
			tk->port = bound_port(ls); tk->pfd = ls; tk->xfd = -1;
			loopback(&ss, tk->port);
			if (used == 1) { close(ls); tk->pfd = -1; }
			if (used == 2) { tk->xfd = socket(AF_INET, SOCK_STREAM, 0); if (connect(tk->xfd, (struct sockaddr *)&ss, sizeof(struct sockaddr_in)) != 0) abort(); }
			int e = skt_connect(&ss, SOCK_STREAM, 0, SO_F_NONBLOCK, &skt);
			tk->fd = (0 == e) ? (int)skt : -1;
			tk->port = (int)used * 1000 + e;   /* reported after tknew */
			used = 0;
		} else {
			tk->fd = open(g_tmpdir, O_TMPFILE | O_RDWR, 0600);
			if (tk->fd < 0) abort();
		}
		tk->buf.data = malloc(size ? size : 1); memset(tk->buf.data, 0, size ? size : 1);
		tk->buf.size = size; tk->buf.used = used; tk->buf.offset = off; tk->buf.transfer_size = tr; tk->buf.flags = 0;
		tk->off0 = off; tk->tr0 = tr; tk->used0 = used;
		LOGEV("\"e\":\"tknew\",\"k\":%d,\"kind\":%d,\"size\":%zu,\"off\":%zu,\"tr\":%zu,\"used\":%zu", k, kind, size, off, tr, used);
		if (kind == K_CONNECT) LOGEV("\"e\":\"connect\",\"k\":%d,\"mode\":%d,\"rc\":%d", k, tk->port / 1000, tk->port % 1000);
		return 1;
	}
	if (!strcmp(op, "tkfill")) { /* tkfill k pos count firstid : put payload ids into the buffer (write tasks) */
		sscanf(args, "%d %d %d %d", &k, &a, &b, &c);
		for (int i = 0; i < b; i++) g_tk[k].buf.data[a + i] = (uint8_t)(c + i);
		LOGEV("\"e\":\"tkfill\",\"k\":%d,\"mem\":%s", k, arr(1, g_tk[k].buf.data, g_tk[k].buf.size));
		return 1;
	}
	if (!strcmp(op, "filefill")) { /* filefill k count firstid : content of the regular file */
		sscanf(args, "%d %d %d", &k, &a, &b);
		uint8_t tmp[4096]; for (int i = 0; i < a; i++) tmp[i] = (uint8_t)(b + i);
		if (__real_pwrite(g_tk[k].fd, tmp, (size_t)a, 0) != a) abort();
		LOGEV("\"e\":\"peer.write\",\"k\":%d,\"ids\":%s", k, arr(0, tmp, (size_t)a));
		LOGEV("\"e\":\"peer.close\",\"k\":%d,\"how\":\"file-end\"", k);
		return 1;
	}
	if (!strcmp(op, "tkpol")) { /* tkpol k class item,item,... */
		char cls[8], items[256];
		sscanf(args, "%d %7s %255s", &k, cls, items);
		int ci = cls[0] == 'P' ? CL_PART : cls[0] == 'F' ? CL_FULL : cls[0] == 'E' ? CL_EOF : cls[0] == 'T' ? CL_TMO : CL_ERR;
		tk_t *tk = &g_tk[k]; tk->npol[ci] = 0; tk->ipol[ci] = 0;
		char *save = NULL;
		for (char *it = strtok_r(items, ",", &save); it && tk->npol[ci] < MAXPOL; it = strtok_r(NULL, ",", &save))
			strncpy(tk->pol[ci][tk->npol[ci]++], it, 7);
		return 1;
	}
	if (!strcmp(op, "tkcap")) { /* tkcap k c1,c2,... (0 = uncapped) */
		char items[256]; sscanf(args, "%d %255s", &k, items);
		tk_t *tk = &g_tk[k]; pthread_mutex_lock(&tk->mu); tk->ncap = 0; tk->capi = 0;
		char *save = NULL;
		for (char *it = strtok_r(items, ",", &save); it && tk->ncap < MAXCAP; it = strtok_r(NULL, ",", &save)) tk->caps[tk->ncap++] = atoi(it);
		pthread_mutex_unlock(&tk->mu);
		return 1;
	}
	if (!strcmp(op, "tkinj")) { /* tkinj k n errno */
		sscanf(args, "%d %d %d", &k, &a, &b);
		pthread_mutex_lock(&g_tk[k].mu); g_tk[k].inj_k = a; g_tk[k].inj_err = b; pthread_mutex_unlock(&g_tk[k].mu);
		return 1;
	}
	if (!strcmp(op, "tkcreate")) { /* tkcreate k thr handler(0 sr,1 rw,2 notify) taskflags */
		sscanf(args, "%d %d %d %d", &k, &a, &b, &c);
		tk_t *tk = &g_tk[k]; tk->owner = a; tk->handler = b;
		tp_cb h = (b == 0) ? tp_task_sr_handler : (b == 1) ? tp_task_rw_handler : tp_task_notify_handler;
		int rc = tp_task_create(thr(a), (uintptr_t)tk->fd, h, (uint32_t)c, tk, &tk->task);
		LOGEV("\"e\":\"tkcreate\",\"k\":%d,\"thr\":%d,\"h\":%d,\"tflags\":%d,\"rc\":%d", k, a, b, c, rc);
		return 1;
	}
	if (!strcmp(op, "varcreate")) { /* varcreate k thr timeout_ms : tp_task_pkt_rcvr_create / _accept_create / _connect_create by kind */
		unsigned long tmo = 0;
		sscanf(args, "%d %d %lu", &k, &a, &tmo);
		tk_t *tk = &g_tk[k]; tk->owner = a;
		int h = (tk->kind == K_DGRAM) ? 3 : (tk->kind == K_LISTEN) ? 4 : 5;
		tk->handler = h;
		LOGEV("\"e\":\"tkcreate\",\"k\":%d,\"thr\":%d,\"h\":%d,\"tflags\":0,\"rc\":0", k, a, h);
		LOGEV("\"e\":\"call.start\",\"k\":%d,\"direct\":0,\"ev\":%d,\"efl\":%d,\"tmo\":%lu,\"foff\":0,\"tflags\":%d", k, (h == 5) ? 1 : 0, (h == 5) ? 1 : 0, tmo, (h == 3) ? 2 : 0);
		int rc; tp_task_p tret = NULL;
		tk->creating = 1;
		if (h == 3) rc = tp_task_pkt_rcvr_create(thr(a), (uintptr_t)tk->fd, 0, (uint64_t)tmo, &tk->buf, pkt_cb, tk, &tret);
		else if (h == 4) rc = tp_task_accept_create(thr(a), (uintptr_t)tk->fd, 0, (uint64_t)tmo, acc_cb, tk, &tret);
		else rc = tp_task_connect_create(thr(a), (uintptr_t)tk->fd, 0, (uint64_t)tmo, conn_cb, tk, &tret);
		tk->creating = 0;
		if (tk->task != NULL && tret != NULL && tk->task != tret) LOGEV("\"e\":\"BadOp\",\"op\":\"task-pointer-recovery\"");
		tk->task = tret;
		LOGEV("\"e\":\"ret.start\",\"k\":%d,\"rc\":%d", k, rc);
		return 1;
	}
	if (!strcmp(op, "peerconn")) { /* peerconn k count : clients connect to the listener; their ports identify the connections */
		sscanf(args, "%d %d", &k, &a);
		tk_t *tk = &g_tk[k]; uint8_t dummy = 0; char ids[256]; size_t l = 0;
		struct sockaddr_storage ss; loopback(&ss, tk->port);
		perturb();
		pthread_mutex_lock(&tk->mu);
		ids[l++] = '['; (void)dummy;
		for (int i = 0; i < a && tk->nconn < MAXCONN; i++) {
			int c = socket(AF_INET, SOCK_STREAM, 0);
			if (c < 0 || connect(c, (struct sockaddr *)&ss, sizeof(struct sockaddr_in)) != 0) abort();
			tk->conns[tk->nconn++] = c;
			l += (size_t)snprintf(ids + l, 16, "%s%d", i ? "," : "", bound_port(c));
		}
		ids[l++] = ']'; ids[l] = 0;
		LOGEV("\"e\":\"peer.conn\",\"k\":%d,\"ids\":%s", k, ids);
		pthread_mutex_unlock(&tk->mu);
		return 1;
	}
	if (!strcmp(op, "tkstart")) { /* tkstart k direct ev evflags timeout_ms foffset */
		long fo = 0; unsigned long tmo = 0;
		sscanf(args, "%d %d %d %d %lu %ld", &k, &a, &b, &c, &tmo, &fo);
		tk_t *tk = &g_tk[k];
		LOGEV("\"e\":\"call.start\",\"k\":%d,\"direct\":%d,\"ev\":%d,\"efl\":%d,\"tmo\":%lu,\"foff\":%ld,\"tflags\":%u", k, a, b, c, tmo, fo,
		    (unsigned)tp_task_flags_get(tk->task));
		int rc = tp_task_start_ex(a ? 0 : 1, tk->task, (uint16_t)b, (uint16_t)c, (uint64_t)tmo, (off_t)fo, &tk->buf,
		    (tk->handler == 2) ? (tp_task_cb)notify_cb : task_cb);
		LOGEV("\"e\":\"ret.start\",\"k\":%d,\"rc\":%d", k, rc);
		return 1;
	}
	/* (a task that destroyed itself in its callback is gone: the owner has nothing to operate on) */
	if (!strcmp(op, "tkstop")) { sscanf(args, "%d", &k); if (g_tk[k].task) api_stop(&g_tk[k]); return 1; }
	if (!strcmp(op, "tkenable")) { sscanf(args, "%d %d", &k, &a); if (g_tk[k].task) api_enable(&g_tk[k], a); return 1; }
	if (!strcmp(op, "tkdestroy")) { sscanf(args, "%d", &k); if (g_tk[k].task) api_destroy(&g_tk[k]); return 1; }
	if (!strcmp(op, "tkrestart")) {
		sscanf(args, "%d", &k);
		if (!g_tk[k].task) return 1;
		LOGEV("\"e\":\"call.restart\",\"k\":%d", k);
		int rc = tp_task_restart(g_tk[k].task);
		LOGEV("\"e\":\"ret.restart\",\"k\":%d,\"rc\":%d", k, rc);
		return 1;
	}
	if (!strcmp(op, "peerw")) { /* peerw k firstid count : the peer writes bytes whose values are their stream positions */
		sscanf(args, "%d %d %d", &k, &a, &b);
		tk_t *tk = &g_tk[k]; uint8_t tmp[4096];
		for (int i = 0; i < b; i++) tmp[i] = (uint8_t)(a + i);
		perturb();
		pthread_mutex_lock(&tk->mu);
		ssize_t rc = write(tk->pfd, tmp, (size_t)b);
		LOGEV("\"e\":\"peer.write\",\"k\":%d,\"ids\":%s", k, arr(0, tmp, rc > 0 ? (size_t)rc : 0));
		pthread_mutex_unlock(&tk->mu);
		return 1;
	}
	if (!strcmp(op, "peerr")) { /* peerr k max : the peer reads what the task emitted */
		sscanf(args, "%d %d", &k, &a);
		tk_t *tk = &g_tk[k]; uint8_t tmp[4096];
		pthread_mutex_lock(&tk->mu);
		ssize_t rc = (tk->kind == K_FILE) ? __real_pread(tk->fd, tmp, (size_t)a, 0) : read(tk->pfd, tmp, (size_t)a);
		LOGEV("\"e\":\"peer.read\",\"k\":%d,\"ids\":%s", k, arr(0, tmp, rc > 0 ? (size_t)rc : 0));
		pthread_mutex_unlock(&tk->mu);
		return 1;
	}
	if (!strcmp(op, "peerclose") || !strcmp(op, "peershut") || !strcmp(op, "peerreset")) {
		sscanf(args, "%d", &k);
		tk_t *tk = &g_tk[k];
		perturb();
		pthread_mutex_lock(&tk->mu);
		if (!strcmp(op, "peerreset")) { /* unread data in the closing socket's queue makes the kernel reset the connection */
			(void)!write(tk->fd, "z", 1);
			LOGEV("\"e\":\"peer.close\",\"k\":%d,\"how\":\"reset\"", k);
			close(tk->pfd); tk->pfd = -1;
		} else if (!strcmp(op, "peershut")) {
			LOGEV("\"e\":\"peer.close\",\"k\":%d,\"how\":\"shutwr\"", k);
			shutdown(tk->pfd, SHUT_WR);
		} else {
			int unread = 0;
			if (tk->kind == K_STREAM) ioctl(tk->pfd, FIONREAD, &unread);
			LOGEV("\"e\":\"peer.close\",\"k\":%d,\"how\":\"%s\"", k, (unread > 0) ? "reset" : "close");
			close(tk->pfd); tk->pfd = -1;
		}
		pthread_mutex_unlock(&tk->mu);
		return 1;
	}
	if (!strcmp(op, "tkwait")) { /* tkwait k what(0 any,1 timeout,2 eof,3 error) count ms : bounded wait, then log whether it was reached */
		sscanf(args, "%d %d %d %d", &k, &a, &b, &c);
		tk_t *tk = &g_tk[k];
		volatile int *ctr = (a == 0) ? &tk->cbs : (a == 1) ? &tk->tmo_cbs : (a == 2) ? &tk->eof_cbs : &tk->err_cbs;
		int ok = msleep_poll(ctr, b, c);
		LOGEV("\"e\":\"waited\",\"k\":%d,\"what\":%d,\"want\":%d,\"ok\":%d", k, a, b, ok);
		return 1;
	}
	if (!strcmp(op, "tkcount")) { sscanf(args, "%d", &k); LOGEV("\"e\":\"tkcount\",\"k\":%d,\"cbs\":%d", k, g_tk[k].cbs); return 1; }
	if (!strcmp(op, "tkfree")) {
		sscanf(args, "%d", &k); tk_t *tk = &g_tk[k];
		if (tk->task) api_destroy(tk);
		if (tk->fd >= 0) close(tk->fd);
		if (tk->pfd >= 0) close(tk->pfd);
		if (tk->xfd >= 0) close(tk->xfd);
		for (int i = 0; i < tk->nconn; i++) close(tk->conns[i]);
		tk->nconn = 0; tk->fd = tk->pfd = tk->xfd = -1; free(tk->buf.data); tk->buf.data = NULL; tk->used_slot = 0;
		return 1;
	}
	(void)d; (void)e;
	return 0;
}

static void exec_line(const char *actor, char *line) {
	char op[32]; int a = 0, b = 0; char s1[64] = "";
	if (sscanf(line, "%31s", op) < 1 || op[0] == '#') return;
	const char *args = line + strlen(op);
	if (tk_ops(op, args)) return;
	if (!strcmp(op, "pool")) {
		sscanf(args, "%d", &a);
		tp_settings_t s; tp_settings_def(&s);
		s.flags = 0; s.threads_max = (size_t)a;
		g_n = (size_t)a; g_tp = NULL;
		tp_p tp = NULL;
		int rc = tp_create(&s, &tp);
		g_tp = tp;
		if (rc != 0) LOGEV("\"e\":\"Hang\",\"where\":\"tp_create\"");
	} else if (!strcmp(op, "start")) { tp_threads_create(g_tp, 0);
	} else if (!strcmp(op, "waitrun")) {
		for (int t = 0; t < 50000; t++) {
			size_t ok = 0;
			for (size_t i = 0; i < g_n; i++) if (g_tp->threads[i].state == TP_THREAD_STATE_RUNNING) ok++;
			if (ok == g_n) break;
			usleep(100);
		}
	} else if (!strcmp(op, "sleep")) { sscanf(args, "%d", &a); usleep((useconds_t)a);
	} else if (!strcmp(op, "quiesce")) { /* until two sentinel round trips pass without any task step in between (bounded) */
		for (int i = 0; i < 200; i++) { long a0 = g_activity; do_quiesce(); if (g_activity == a0) break; }
		LOGEV("\"e\":\"quiesce\"");
	} else if (!strcmp(op, "shutdown")) { tp_shutdown(g_tp);
	} else if (!strcmp(op, "shutdown_wait")) { tp_shutdown_wait(g_tp);
	} else if (!strcmp(op, "destroy")) { tp_destroy(g_tp); g_tp = NULL;
	} else if (!strcmp(op, "fault")) { /* fault kind k errno */
		sscanf(args, "%63s %d %d", s1, &a, &b);
		static char kinds[8][32];
		pthread_mutex_lock(&g_f_mu);
		if (g_nfault < 8) { strcpy(kinds[g_nfault], s1); g_fault[g_nfault].kind = kinds[g_nfault]; g_fault[g_nfault].k = a; g_fault[g_nfault].err = b; g_nfault++; }
		pthread_mutex_unlock(&g_f_mu);
	} else if (!strcmp(op, "perturb")) { sscanf(args, "%d", &a); g_perturb = a;
	} else if (!strcmp(op, "watchdog")) { sscanf(args, "%d", &a); g_watchdog_s = a; alarm((unsigned)a);
	} else if (!strcmp(op, "reset")) {
		pthread_mutex_lock(&g_f_mu); g_nfault = 0; pthread_mutex_unlock(&g_f_mu);
		LOGEV("\"e\":\"Reset\"");
	} else {
		LOGEV("\"e\":\"BadOp\",\"op\":\"%s\"", op);
	}
	(void)actor;
}
static void run_prog(const char *actor, char *prog) {
	char *save = NULL; char *copy = strdup(prog);
	for (char *ln = strtok_r(copy, "\n", &save); ln; ln = strtok_r(NULL, "\n", &save)) exec_line(actor, ln);
	free(copy);
}

#define MAXACT 16
static struct { char name[8]; char *prog; size_t len; hmsg_t *ctl; int started; } g_act[MAXACT];
static int g_nact;
static int act_find(const char *n) {
	for (int i = 0; i < g_nact; i++) if (!strcmp(g_act[i].name, n)) return i;
	strncpy(g_act[g_nact].name, n, 7); g_act[g_nact].prog = calloc(1, 1 << 16); g_act[g_nact].len = 0; g_act[g_nact].started = 0;
	return g_nact++;
}
static void on_crash(int sig) {
	g_log_len += (size_t)snprintf(g_log + g_log_len, 128, "{\"n\":%ld,\"t\":%d,\"e\":\"Crash\",\"sig\":%d}\n", ++g_seq, vh_tid, sig);
	flush_log(); _exit(4);
}
static void on_alarm(int sig) {
	(void)sig;
	g_log_len += (size_t)snprintf(g_log + g_log_len, 128, "{\"n\":%ld,\"t\":-5,\"e\":\"Hang\",\"where\":\"watchdog\"}\n", ++g_seq);
	flush_log(); _exit(3);
}

int main(int argc, char **argv) {
	if (argc < 3) { fprintf(stderr, "usage: task_drv scenario trace [seed]\n"); return 2; }
	g_out_path = argv[2];
	if (argc > 3) g_seed = strtoull(argv[3], NULL, 10);
	{ /* temporary files (O_TMPFILE, nothing is left behind) live next to the trace */
		strncpy(g_tmpdir, argv[2], sizeof(g_tmpdir) - 1);
		char *sl = strrchr(g_tmpdir, '/'); if (sl) *sl = 0; else strcpy(g_tmpdir, ".");
	}
	vh_tid = 100;
	for (int i = 0; i < MAXGATE; i++) sem_init(&g_gate[i], 0, 0);
	if (__sanitizer_set_death_callback) __sanitizer_set_death_callback(flush_log);
	signal(SIGALRM, on_alarm); signal(SIGPIPE, SIG_IGN);
	signal(SIGSEGV, on_crash); signal(SIGBUS, on_crash);
	g_log_cap = 1u << 22; g_log = malloc(g_log_cap);
	FILE *f = fopen(argv[1], "r");
	if (!f) { perror("scenario"); return 2; }
	char line[1024];
	while (fgets(line, sizeof(line), f)) {
		char actor[16], op[32];
		if (sscanf(line, "%15s %31s", actor, op) < 2 || actor[0] == '#') continue;
		char *rest = strstr(line + strlen(actor), op);
		if (strcmp(actor, "m") != 0) {
			int i = act_find(actor);
			g_act[i].len += (size_t)snprintf(g_act[i].prog + g_act[i].len, 1024, "%s", rest);
			continue;
		}
		alarm((unsigned)g_watchdog_s);
		if (!strcmp(op, "spawn")) {
			char nm[16]; sscanf(rest + 5, "%15s", nm);
			int i = act_find(nm);
			g_act[i].started = 1;
			hmsg_t *m = msg_get(); m->prog = g_act[i].prog; g_act[i].ctl = m;
			int rc = EAGAIN;
			for (int tries = 0; tries < 20000 && rc == EAGAIN; tries++) { rc = tpt_msg_send(&g_tp->threads[atoi(nm + 1)], NULL, 0, ctl_cb, m); if (rc == EAGAIN) usleep(100); }
			if (rc != 0) { m->finished = 1; LOGEV("\"e\":\"Hang\",\"where\":\"spawn\""); }
		} else if (!strcmp(op, "join")) {
			char nm[16]; sscanf(rest + 4, "%15s", nm);
			int i = act_find(nm);
			if (g_act[i].started) {
				for (long t = 0; t < 300000 && !g_act[i].ctl->finished; t++) usleep(100);
				if (!g_act[i].ctl->finished) { LOGEV("\"e\":\"Hang\",\"where\":\"join\""); hang_exit(); }
				g_act[i].started = 0; g_act[i].len = 0; g_act[i].prog[0] = 0;
			}
		} else {
			exec_line("m", rest);
		}
	}
	fclose(f);
	alarm(0);
	flush_log();
	return 0;
}
