/* Conformance driver for src/proto/http.c (property C20).
 * One case per stdin line, one JSON answer per stdout line:
 *   req  <hex>              http_parse_req_line        -> rc, spans as [offset,len] ([-1,len] = NULL pointer), codes
 *   resp <hex>              http_parse_resp_line       -> rc, version, status code, reason span
 *   hdr  <hex> <q1,q2,...>  http_parse_req_line (method code, as http_server.c does) + http_req_sec_chk +
 *                           for every query name: http_hdr_val_get_count, http_hdr_val_get and the
 *                           http_hdr_val_get_ex iteration (value spans and next offsets)
 *   seq  <hex> <hex> [<hex>] http_parse_req_line of every text IN ORDER INTO THE SAME result structure (poisoned before
 *                           the first call).  Each text lives in a mapping of its own, flush against a PROT_NONE page;
 *                           the mapping is made PROT_NONE (kept reserved, so no later text can take its address)
 *                           before the next text is parsed: a pointer left over from an earlier request lies
 *                           outside the current text and faults when read.  -> {"op":"seq","res":[<as req>...]}
 *   qry  <hex> <name>       http_query_val_get_ex / http_query_val_get -> rc, name offset, value span
 * EVERY result structure / result variable handed to a parser is first filled with a poison pattern: pointers to a
 * PROT_NONE page that belongs to no input, sizes and codes 0xA5A5...; the spans a successful call reports are also
 * READ (first and last byte): "deref" lists the components whose bytes cannot be read.
 * The input lives in an exact-size region WITHOUT a trailing NUL:
 *   placement A: its last byte is flush against a PROT_NONE page  -> any read at buf[n] faults;
 *   placement B: its first byte directly follows a PROT_NONE page -> any read at buf[-1] faults.
 * Results are taken from placement A; placement B only reports faults ("ulo").  A fault does not end the
 * process: the SIGSEGV handler jumps back and the answer says which call faulted ("F"), so a known
 * over-read does not hide the remaining cases.  The build additionally uses ASan+UBSan. */
#include <sys/param.h>
#include <sys/types.h>
#include <inttypes.h>
#include <errno.h>
#include <setjmp.h>
#include "vh_util.h"
#include "proto/http.h"

#define ARENA (1u << 20)
static uint8_t *hi_end;   /* first byte of the upper guard page */
static uint8_t *lo_start; /* first byte after the lower guard page */
static sigjmp_buf jb;
static volatile sig_atomic_t armed;

static uint8_t *poison_pg; /* a PROT_NONE page that is part of no input */
#define POISON_PTR ((const uint8_t *)(poison_pg + 64))
#define POISON_SZ ((size_t)0xA5A5A5A5A5A5A5A5ull)

static void on_fault(int sig) {
	if (armed) { armed = 0; siglongjmp(jb, 1); }
	vh_fault_handler(sig);
}
/* run `stmt` guarded; fvar = 1 when it faulted, else 0 */
#define GUARD(fvar, stmt) do { armed = 1; if (sigsetjmp(jb, 1)) { (fvar) = 1; } \
	else { stmt; armed = 0; (fvar) = 0; } } while (0)
static void arenas(void) {
	size_t pg = (size_t)sysconf(_SC_PAGESIZE);
	uint8_t *a = mmap(NULL, ARENA + pg, PROT_READ | PROT_WRITE, MAP_PRIVATE | MAP_ANONYMOUS, -1, 0);
	uint8_t *b = mmap(NULL, ARENA + pg, PROT_READ | PROT_WRITE, MAP_PRIVATE | MAP_ANONYMOUS, -1, 0);
	if (a == MAP_FAILED || b == MAP_FAILED) abort();
	memset(a, 0xA5, ARENA); memset(b + pg, 0xA5, ARENA);
	mprotect(a + ARENA, pg, PROT_NONE); hi_end = a + ARENA;
	mprotect(b, pg, PROT_NONE); lo_start = b + pg;
	poison_pg = mmap(NULL, pg, PROT_NONE, MAP_PRIVATE | MAP_ANONYMOUS, -1, 0);
	if (poison_pg == MAP_FAILED) abort();
}
static void poison_req(http_req_line_data_t *r) {
	memset(r, 0xA5, sizeof(*r));
	r->method = r->uri = r->scheme = r->host = r->abs_path = r->query = POISON_PTR;
}
static void poison_resp(http_resp_line_data_t *r) {
	memset(r, 0xA5, sizeof(*r));
	r->reason_phrase = POISON_PTR;
}
/* can the first and the last byte of the reported span be read? (0 = yes or nothing to read) */
static int deref_bad(const uint8_t *p, size_t l) {
	volatile uint8_t sink; int f;
	if (p == NULL || l == 0) return 0;
	GUARD(f, { sink = p[0]; sink = p[l - 1]; (void)sink; });
	return f;
}

static long off_of(const uint8_t *p, const uint8_t *buf) { return p ? (long)(p - buf) : -1L; }
static void span(const char *name, const uint8_t *p, size_t l, const uint8_t *buf) {
	printf(",\"%s\":[%ld,%zu]", name, off_of(p, buf), l);
}

static void put_req(const http_req_line_data_t *r, const uint8_t *buf) {
	const char *nm[6] = {"method", "target", "scheme", "auth", "path", "query"};
	const uint8_t *pp[6] = {r->method, r->uri, r->scheme, r->host, r->abs_path, r->query};
	size_t ll[6] = {r->method_size, r->uri_size, r->scheme_size, r->host_size, r->abs_path_size, r->query_size};
	int first = 1;
	printf(",\"ls\":%zu,\"mcode\":%u,\"vmaj\":%u,\"vmin\":%u", r->line_size, r->method_code,
	    (unsigned)HIWORD(r->proto_ver), (unsigned)LOWORD(r->proto_ver));
	for (int i = 0; i < 6; i++) span(nm[i], pp[i], ll[i], buf);
	printf(",\"deref\":[");
	for (int i = 0; i < 6; i++)
		if (deref_bad(pp[i], ll[i])) { printf("%s\"%s\"", first ? "" : ",", nm[i]); first = 0; }
	printf("]");
}

static void do_req(const uint8_t *src, size_t n) {
	uint8_t *buf = hi_end - n, *lb = lo_start;
	http_req_line_data_t r, r2;
	int rc = -1, rc2 = -1, ulo, f;
	memcpy(buf, src, n); memcpy(lb, src, n);
	poison_req(&r); poison_req(&r2);
	GUARD(f, rc = http_parse_req_line(buf, n, &r));
	if (f) { printf("{\"op\":\"req\",\"fault\":1}\n"); return; }
	GUARD(ulo, rc2 = http_parse_req_line(lb, n, &r2));
	printf("{\"op\":\"req\",\"fault\":0,\"ulo\":%d,\"rc\":%d", ulo, rc);
	if (rc == 0) put_req(&r, buf);
	printf("}\n");
}

/* several requests, one result structure, every text in its own mapping */
#define SEQ_MAX 4
static void do_seq(uint8_t *const *src, const size_t *n, int cnt) {
	size_t pg = (size_t)sysconf(_SC_PAGESIZE);
	uint8_t *map[SEQ_MAX]; size_t mlen[SEQ_MAX];
	http_req_line_data_t r;
	poison_req(&r);
	printf("{\"op\":\"seq\",\"res\":[");
	for (int i = 0; i < cnt; i++) {
		int rc = -1, f;
		mlen[i] = ((n[i] + pg - 1) / pg + 1) * pg;
		map[i] = mmap(NULL, mlen[i] + pg, PROT_READ | PROT_WRITE, MAP_PRIVATE | MAP_ANONYMOUS, -1, 0);
		if (map[i] == MAP_FAILED) abort();
		mprotect(map[i] + mlen[i], pg, PROT_NONE);
		uint8_t *buf = map[i] + mlen[i] - n[i];
		memset(map[i], 0xA5, mlen[i] - n[i]);
		memcpy(buf, src[i], n[i]);
		GUARD(f, rc = http_parse_req_line(buf, n[i], &r));
		printf("%s{\"fault\":%d,\"ulo\":0,\"rc\":%d", i ? "," : "", f, f ? -1 : rc);
		if (!f && rc == 0) put_req(&r, buf);
		printf("}");
		mprotect(map[i], mlen[i], PROT_NONE);   /* the request is gone; its address range stays reserved */
		if (f) { cnt = i + 1; break; }
	}
	printf("]}\n");
	for (int i = 0; i < cnt; i++) munmap(map[i], mlen[i] + pg);
}

static void do_qry(const uint8_t *src, size_t n, const char *name) {
	uint8_t *buf = hi_end - n, *lb = lo_start;
	size_t qn = strlen(name), vl = POISON_SZ, vl2 = POISON_SZ;
	const uint8_t *nm = POISON_PTR, *v = POISON_PTR, *v2 = POISON_PTR;
	int rc = -1, rc2 = -1, f, f2, ulo = 0, u;
	memcpy(buf, src, n); memcpy(lb, src, n);
	GUARD(f, rc = http_query_val_get_ex(buf, n, (const uint8_t *)name, qn, &nm, &v, &vl));
	GUARD(f2, rc2 = http_query_val_get(buf, n, (const uint8_t *)name, qn, &v2, &vl2));
	{ const uint8_t *a = POISON_PTR, *b = POISON_PTR; size_t c = POISON_SZ; int r3 = -1;
	  GUARD(u, r3 = http_query_val_get_ex(lb, n, (const uint8_t *)name, qn, &a, &b, &c)); ulo |= u; (void)r3; }
	printf("{\"op\":\"qry\",\"ulo\":%d", ulo);
	if (f) printf(",\"ex\":\"F\"");
	else if (rc != 0) printf(",\"ex\":[%d]", rc);
	else printf(",\"ex\":[0,%ld,%ld,%zu,%d]", off_of(nm, buf), off_of(v, buf), vl, deref_bad(nm, 1) | deref_bad(v, vl));
	if (f2) printf(",\"get\":\"F\"");
	else if (rc2 != 0) printf(",\"get\":[%d]", rc2);
	else printf(",\"get\":[0,%ld,%zu,%d]", off_of(v2, buf), vl2, deref_bad(v2, vl2));
	printf("}\n");
}

static void do_resp(const uint8_t *src, size_t n) {
	uint8_t *buf = hi_end - n, *lb = lo_start;
	http_resp_line_data_t r, r2;
	int rc = -1, rc2 = -1, ulo, f;
	memcpy(buf, src, n); memcpy(lb, src, n);
	poison_resp(&r); poison_resp(&r2);
	GUARD(f, rc = http_parse_resp_line(buf, n, &r));
	if (f) { printf("{\"op\":\"resp\",\"fault\":1}\n"); return; }
	GUARD(ulo, rc2 = http_parse_resp_line(lb, n, &r2));
	printf("{\"op\":\"resp\",\"fault\":0,\"ulo\":%d,\"rc\":%d", ulo, rc);
	if (rc == 0) {
		printf(",\"ls\":%zu,\"code\":%u,\"vmaj\":%u,\"vmin\":%u", r.line_size, r.status_code,
		    (unsigned)HIWORD(r.proto_ver), (unsigned)LOWORD(r.proto_ver));
		span("reason", r.reason_phrase, r.reason_phrase_size, buf);
		printf(",\"deref\":[%s]", deref_bad(r.reason_phrase, r.reason_phrase_size) ? "\"reason\"" : "");
	}
	printf("}\n");
}

static void do_hdr(const uint8_t *src, size_t n, char *queries) {
	uint8_t *buf = hi_end - n, *lb = lo_start;
	http_req_line_data_t r;
	int prc = -1, sec = -1, f, f2, ulo = 0, first = 1;
	volatile uint32_t mc = 0;
	memcpy(buf, src, n); memcpy(lb, src, n);
	poison_req(&r);
	GUARD(f, prc = http_parse_req_line(buf, n, &r));
	if (!f && prc == 0) mc = r.method_code;
	printf("{\"op\":\"hdr\",\"prc\":%d,\"mc\":%u", f ? -2 : prc, (unsigned)mc);
	GUARD(f, sec = http_req_sec_chk(buf, n, mc));
	if (f) printf(",\"sec\":\"F\""); else printf(",\"sec\":%d", sec);
	GUARD(f2, sec = http_req_sec_chk(lb, n, mc)); ulo |= f2;
	printf(",\"look\":{");
	for (char *q = strtok(queries, ","); q != NULL; q = strtok(NULL, ",")) {
		size_t qn = strlen(q), cnt = 0, vl = POISON_SZ, next = POISON_SZ, off = 0;
		const uint8_t *v = POISON_PTR;
		int rc = -1, it;
		printf("%s\"%s\":{", first ? "" : ",", q); first = 0;
		GUARD(f, cnt = http_hdr_val_get_count(buf, n, (const uint8_t*)q, qn));
		if (f) printf("\"cnt\":\"F\""); else printf("\"cnt\":%zu", cnt);
		GUARD(f2, cnt = http_hdr_val_get_count(lb, n, (const uint8_t*)q, qn)); ulo |= f2;
		v = POISON_PTR; vl = POISON_SZ;
		GUARD(f, rc = http_hdr_val_get(buf, n, (const uint8_t*)q, qn, &v, &vl));
		if (f) printf(",\"get\":\"F\""); else printf(",\"get\":[%d,%ld,%zu]", rc, rc == 0 ? off_of(v, buf) : -1L, rc == 0 ? vl : 0);
		v = POISON_PTR; vl = POISON_SZ;
		GUARD(f2, rc = http_hdr_val_get(lb, n, (const uint8_t*)q, qn, &v, &vl)); ulo |= f2;
		printf(",\"ex\":[");
		for (it = 0, off = 0; it < 16; it++) {
			v = POISON_PTR; vl = POISON_SZ; next = POISON_SZ;
			GUARD(f, rc = http_hdr_val_get_ex(buf, n, (const uint8_t*)q, qn, off, &v, &vl, &next));
			if (f) { printf("%s\"F\"", it ? "," : ""); break; }
			if (rc != 0) break;
			printf("%s[%ld,%zu,%zu]", it ? "," : "", off_of(v, buf), vl, next);
			if (next <= off && it > 0) { printf(",\"STUCK\""); break; }
			off = next;
		}
		printf("]}");
	}
	printf("},\"ulo\":%d}\n", ulo);
}

int main(void) {
	static char line[1 << 18], op[16], hex[1 << 17], qs[1 << 16], h3[1 << 16];
	struct sigaction sa;
	vh_install_fault_handler();
	memset(&sa, 0, sizeof(sa));
	sa.sa_handler = on_fault; sa.sa_flags = SA_NODEFER;
	sigaction(SIGSEGV, &sa, NULL); sigaction(SIGBUS, &sa, NULL);
	arenas();
	while (fgets(line, sizeof(line), stdin)) {
		qs[0] = 0; h3[0] = 0;
		if (sscanf(line, "%15s %131071s %65535s %65535s", op, hex, qs, h3) < 2) continue;
		vh_set_tag(line);
		size_t n;
		uint8_t *in = vh_unhex(hex, &n);
		if (n >= ARENA) abort();
		vh_watchdog(2, 20); /* a case costs microseconds: 2 s of CPU time (20 s of wall clock) without an answer = the code under test does not terminate */
		if (!strcmp(op, "req")) do_req(in, n);
		else if (!strcmp(op, "resp")) do_resp(in, n);
		else if (!strcmp(op, "hdr")) do_hdr(in, n, qs);
		else if (!strcmp(op, "qry") && qs[0]) do_qry(in, n, qs);
		else if (!strcmp(op, "seq") && qs[0]) {
			uint8_t *sv[SEQ_MAX]; size_t sn[SEQ_MAX]; int cnt = 2;
			sv[0] = in; sn[0] = n;
			sv[1] = vh_unhex(qs, &sn[1]);
			if (h3[0]) { sv[2] = vh_unhex(h3, &sn[2]); cnt = 3; }
			do_seq(sv, sn, cnt);
			for (int i = 1; i < cnt; i++) vh_buf_free(sv[i]);
		}
		else printf("{\"op\":\"?\"}\n");
		vh_watchdog(0, 0);
		vh_buf_free(in);
	}
	return 0;
}
