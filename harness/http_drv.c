/* Conformance driver for src/proto/http.c (property C20).
 * One case per stdin line, one JSON answer per stdout line:
 *   req  <hex>              http_parse_req_line        -> rc, spans as [offset,len] ([-1,len] = NULL pointer), codes
 *   resp <hex>              http_parse_resp_line       -> rc, version, status code, reason span
 *   hdr  <hex> <q1,q2,...>  http_parse_req_line (method code, as http_server.c does) + http_req_sec_chk +
 *                           for every query name: http_hdr_val_get_count, http_hdr_val_get and the
 *                           http_hdr_val_get_ex iteration (value spans and next offsets)
 * The input lives in an exact-size region WITHOUT a trailing NUL:
 *   placement A: its last byte is flush against a PROT_NONE page  -> any read at buf[n] faults;
 *   placement B: its first byte directly follows a PROT_NONE page -> any read at buf[-1] faults.
 * Results are taken from placement A; placement B only reports faults ("ulo").  A fault does not end the
 * process: the SIGSEGV handler jumps back and the answer says which call faulted ("F"), so a known
 * over-read does not hide the remaining cases.  The build additionally uses ASan+UBSan. */
#include <sys/param.h>
#include <sys/types.h>
#include <inttypes.h>
#include <errno.h>
#include <setjmp.h>
#include "vh_util.h"
#include "proto/http.h"

#define ARENA (1u << 20)
static uint8_t *hi_end;   /* first byte of the upper guard page */
static uint8_t *lo_start; /* first byte after the lower guard page */
static sigjmp_buf jb;
static volatile sig_atomic_t armed;

static void on_fault(int sig) {
	if (armed) { armed = 0; siglongjmp(jb, 1); }
	vh_fault_handler(sig);
}
static void arenas(void) {
	size_t pg = (size_t)sysconf(_SC_PAGESIZE);
	uint8_t *a = mmap(NULL, ARENA + pg, PROT_READ | PROT_WRITE, MAP_PRIVATE | MAP_ANONYMOUS, -1, 0);
	uint8_t *b = mmap(NULL, ARENA + pg, PROT_READ | PROT_WRITE, MAP_PRIVATE | MAP_ANONYMOUS, -1, 0);
	if (a == MAP_FAILED || b == MAP_FAILED) abort();
	memset(a, 0xA5, ARENA); memset(b + pg, 0xA5, ARENA);
	mprotect(a + ARENA, pg, PROT_NONE); hi_end = a + ARENA;
	mprotect(b, pg, PROT_NONE); lo_start = b + pg;
}
/* run `stmt` guarded; fvar = 1 when it faulted, else 0 */
#define GUARD(fvar, stmt) do { armed = 1; if (sigsetjmp(jb, 1)) { (fvar) = 1; } \
	else { stmt; armed = 0; (fvar) = 0; } } while (0)

static long off_of(const uint8_t *p, const uint8_t *buf) { return p ? (long)(p - buf) : -1L; }
static void span(const char *name, const uint8_t *p, size_t l, const uint8_t *buf) {
	printf(",\"%s\":[%ld,%zu]", name, off_of(p, buf), l);
}

static void do_req(const uint8_t *src, size_t n) {
	uint8_t *buf = hi_end - n, *lb = lo_start;
	http_req_line_data_t r, r2;
	int rc = -1, rc2 = -1, ulo, f;
	memcpy(buf, src, n); memcpy(lb, src, n);
	memset(&r, 0, sizeof(r));
	GUARD(f, rc = http_parse_req_line(buf, n, &r));
	if (f) { printf("{\"op\":\"req\",\"fault\":1}\n"); return; }
	GUARD(ulo, rc2 = http_parse_req_line(lb, n, &r2));
	printf("{\"op\":\"req\",\"fault\":0,\"ulo\":%d,\"rc\":%d", ulo, rc);
	if (rc == 0) {
		printf(",\"ls\":%zu,\"mcode\":%u,\"vmaj\":%u,\"vmin\":%u", r.line_size, r.method_code,
		    (unsigned)HIWORD(r.proto_ver), (unsigned)LOWORD(r.proto_ver));
		span("method", r.method, r.method_size, buf);
		span("target", r.uri, r.uri_size, buf);
		span("scheme", r.scheme, r.scheme_size, buf);
		span("auth", r.host, r.host_size, buf);
		span("path", r.abs_path, r.abs_path_size, buf);
		span("query", r.query, r.query_size, buf);
	}
	printf("}\n");
}

static void do_resp(const uint8_t *src, size_t n) {
	uint8_t *buf = hi_end - n, *lb = lo_start;
	http_resp_line_data_t r, r2;
	int rc = -1, rc2 = -1, ulo, f;
	memcpy(buf, src, n); memcpy(lb, src, n);
	memset(&r, 0, sizeof(r)); memset(&r2, 0, sizeof(r2));
	GUARD(f, rc = http_parse_resp_line(buf, n, &r));
	if (f) { printf("{\"op\":\"resp\",\"fault\":1}\n"); return; }
	GUARD(ulo, rc2 = http_parse_resp_line(lb, n, &r2));
	printf("{\"op\":\"resp\",\"fault\":0,\"ulo\":%d,\"rc\":%d", ulo, rc);
	if (rc == 0) {
		printf(",\"ls\":%zu,\"code\":%u,\"vmaj\":%u,\"vmin\":%u", r.line_size, r.status_code,
		    (unsigned)HIWORD(r.proto_ver), (unsigned)LOWORD(r.proto_ver));
		span("reason", r.reason_phrase, r.reason_phrase_size, buf);
	}
	printf("}\n");
}

static void do_hdr(const uint8_t *src, size_t n, char *queries) {
	uint8_t *buf = hi_end - n, *lb = lo_start;
	http_req_line_data_t r;
	int prc = -1, sec = -1, f, f2, ulo = 0, first = 1;
	volatile uint32_t mc = 0;
	memcpy(buf, src, n); memcpy(lb, src, n);
	memset(&r, 0, sizeof(r));
	GUARD(f, prc = http_parse_req_line(buf, n, &r));
	if (!f && prc == 0) mc = r.method_code;
	printf("{\"op\":\"hdr\",\"prc\":%d,\"mc\":%u", f ? -2 : prc, (unsigned)mc);
	GUARD(f, sec = http_req_sec_chk(buf, n, mc));
	if (f) printf(",\"sec\":\"F\""); else printf(",\"sec\":%d", sec);
	GUARD(f2, sec = http_req_sec_chk(lb, n, mc)); ulo |= f2;
	printf(",\"look\":{");
	for (char *q = strtok(queries, ","); q != NULL; q = strtok(NULL, ",")) {
		size_t qn = strlen(q), cnt = 0, vl = 0, next = 0, off = 0;
		const uint8_t *v = NULL;
		int rc = -1, it;
		printf("%s\"%s\":{", first ? "" : ",", q); first = 0;
		GUARD(f, cnt = http_hdr_val_get_count(buf, n, (const uint8_t*)q, qn));
		if (f) printf("\"cnt\":\"F\""); else printf("\"cnt\":%zu", cnt);
		GUARD(f2, cnt = http_hdr_val_get_count(lb, n, (const uint8_t*)q, qn)); ulo |= f2;
		v = NULL; vl = 0;
		GUARD(f, rc = http_hdr_val_get(buf, n, (const uint8_t*)q, qn, &v, &vl));
		if (f) printf(",\"get\":\"F\""); else printf(",\"get\":[%d,%ld,%zu]", rc, rc == 0 ? off_of(v, buf) : -1L, rc == 0 ? vl : 0);
		v = NULL; vl = 0;
		GUARD(f2, rc = http_hdr_val_get(lb, n, (const uint8_t*)q, qn, &v, &vl)); ulo |= f2;
		printf(",\"ex\":[");
		for (it = 0, off = 0; it < 16; it++) {
			v = NULL; vl = 0; next = 0;
			GUARD(f, rc = http_hdr_val_get_ex(buf, n, (const uint8_t*)q, qn, off, &v, &vl, &next));
			if (f) { printf("%s\"F\"", it ? "," : ""); break; }
			if (rc != 0) break;
			printf("%s[%ld,%zu,%zu]", it ? "," : "", off_of(v, buf), vl, next);
			if (next <= off && it > 0) { printf(",\"STUCK\""); break; }
			off = next;
		}
		printf("]}");
	}
	printf("},\"ulo\":%d}\n", ulo);
}

int main(void) {
	static char line[1 << 18], op[16], hex[1 << 17], qs[1024];
	struct sigaction sa;
	vh_install_fault_handler();
	memset(&sa, 0, sizeof(sa));
	sa.sa_handler = on_fault; sa.sa_flags = SA_NODEFER;
	sigaction(SIGSEGV, &sa, NULL); sigaction(SIGBUS, &sa, NULL);
	arenas();
	while (fgets(line, sizeof(line), stdin)) {
		qs[0] = 0;
		if (sscanf(line, "%15s %131071s %1023s", op, hex, qs) < 2) continue;
		vh_set_tag(line);
		size_t n;
		uint8_t *in = vh_unhex(hex, &n);
		if (n >= ARENA) abort();
		if (!strcmp(op, "req")) do_req(in, n);
		else if (!strcmp(op, "resp")) do_resp(in, n);
		else if (!strcmp(op, "hdr")) do_hdr(in, n, qs);
		else printf("{\"op\":\"?\"}\n");
		vh_buf_free(in);
	}
	return 0;
}
