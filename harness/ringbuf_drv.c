/* C19 conformance driver for the packet ring (src/utils/ring_buffer.c).
 * One command per stdin line, exactly one JSON line per command on stdout.
 *
 *   new <size> <min_block> <nreaders> <niov_print> <round0>   allocate a fresh ring (r_buf_alloc, anonymous mapping),
 *                                                   fill it with 0xFF, preset round_num = (size_t)round0
 *                                                   (round0 may be negative: -2 -> SIZE_MAX-1, so the REAL counter wraps)
 *   get <min>            r_buf_wbuf_get
 *   set <off> <bsz>      r_buf_wbuf_set;  on success the driver (= the writer) stamps the committed bytes
 *   set2 <gap> <bsz> <who|-1>   r_buf_wbuf_set2(buf_from_get + gap, bsz, who >= 0 ? &rpos[who] : NULL)
 *   init <r> <back>      r_buf_rpos_init
 *   avail <r>            r_buf_rpos_check_fast, r_buf_data_avail_size, and a full r_buf_data_get on a COPY of the cursor
 *   dget <r> <dsz> <cnt> r_buf_data_get into an exact-size heap array of cnt iovecs (ASan sees an overrun)
 *   inc <r> <n>          r_buf_rpos_inc (SIGTRAP from debug_break() is caught and reported as trap:1)
 *   rand <seed> <nops> <maxblk> <writer%>   self-driven random history (see do_rand) printing one event per call
 *   poke wpos idx imax rnd frag full gotb gotn wcount  n (b l)*n  size m*size  nr (idx off rnd)*nr
 *                        put the real structures into a state that an earlier, already compared call produced
 *                        (thorough tier: every edge of the TLC state graph = one poke + one call)
 *
 * Every data byte the writer commits is stamped with (global byte number % 251); scribbled gaps / never written
 * cells are 0xFF.  Regions returned to readers are reported as offsets from r_buf->buf and the bytes are READ from
 * the real memory (only when the region lies inside the ring; otherwise "oob":1), so "identical, in order" is
 * observed.  After every call the projected state is printed: wpos, iov_index, iov_index_max, round_num - round0,
 * flags, the first <niov_print> iov entries (offset, len; NULL base = -100000), ring bytes, every reader cursor. */
#include <sys/param.h>
#include <sys/types.h>
#include <inttypes.h>
#include <errno.h>
#include "vh_util.h"
#include "utils/ring_buffer.h"

#define MAXR 4
#define NULLB (-100000L)
#define GARBAGE_LIMIT (((size_t)1) << 40)

static r_buf_p rb;
static r_buf_rpos_t rpos[MAXR];
static int inited[MAXR];
static size_t nreaders, niovp, round0;
static uint64_t gcount;            /* next global byte number */
static uint8_t *gotbuf; static size_t gotn; /* space handed out by the last wbuf_get (minus set2 commits) */
static size_t lastret[MAXR];
static volatile sig_atomic_t trapped;

static void on_trap(int sig) { (void)sig; trapped = 1; }

static long long off_of(uint8_t *p) { return p == NULL ? NULLB : (long long)(p - rb->buf); }
static long long sz(size_t v) { return v >= GARBAGE_LIMIT ? -2 : (long long)v; }

static void pr_rpos(r_buf_rpos_t *p, int ok) {
	if (!ok) { printf("[-1,-1,-1]"); return; }
	printf("[%lld,%lld,%lld]", sz(p->iov_index), sz(p->iov_off), (long long)(int64_t)(p->round_num - round0));
}
static void pr_state(void) {
	size_t i;
	printf(",\"st\":{\"wpos\":%lld,\"idx\":%lld,\"imax\":%lld,\"rnd\":%lld,\"frag\":%d,\"full\":%d,\"tabok\":%d,\"iov\":[",
	    sz(rb->wpos), sz(rb->iov_index), (long long)(int64_t)rb->iov_index_max,
	    (long long)(int64_t)(rb->round_num - round0),
	    (rb->flags & RBUF_F_FRAG) ? 1 : 0, (rb->flags & RBUF_F_FULL) ? 1 : 0,
	    (rb->iov_index + 1 < rb->iov_count) ? 1 : 0);
	for (i = 0; i < niovp && i < rb->iov_count; i++)
		printf("%s[%lld,%lld]", i ? "," : "", off_of(rb->iov[i].iov_base), sz(rb->iov[i].iov_len));
	printf("],\"mem\":[");
	for (i = 0; i < rb->size; i++) printf("%s%u", i ? "," : "", rb->buf[i]);
	printf("]},\"rpos\":[");
	for (i = 0; i < nreaders; i++) { if (i) printf(","); pr_rpos(&rpos[i], inited[i]); }
	printf("]}\n");
}

static void do_new(size_t size, size_t minb, size_t nr, size_t nio, long long r0) {
	if (rb) r_buf_free(rb);
	rb = r_buf_alloc((uintptr_t)-1, size, minb);
	if (!rb) { printf("{\"op\":\"new\",\"error\":\"alloc\"}\n"); exit(3); }
	memset(rb->buf, 0xFF, size);
	round0 = (size_t)r0; rb->round_num = round0;
	nreaders = nr; niovp = nio; gcount = 0; gotbuf = NULL; gotn = 0;
	memset(inited, 0, sizeof(inited)); memset(rpos, 0, sizeof(rpos)); memset(lastret, 0, sizeof(lastret));
	printf("{\"op\":\"new\",\"size\":%zu,\"minb\":%zu,\"iovcount\":%zu", size, minb, rb->iov_count);
	pr_state();
}
static void stamp(uint8_t *p, size_t gap, size_t ds) {
	size_t i;
	for (i = 0; i < gap; i++) p[i] = 0xFF;
	for (i = 0; i < ds; i++) p[gap + i] = (uint8_t)((gcount + i) % 251);
	gcount += ds;
}
static size_t do_get(size_t m) {
	uint8_t *b = NULL;
	size_t n = r_buf_wbuf_get(rb, m, &b), i;
	if (n) { gotbuf = b; gotn = n; } else { gotbuf = NULL; gotn = 0; }
	for (i = 0; i < MAXR; i++) lastret[i] = 0;
	printf("{\"op\":\"get\",\"m\":%zu,\"ret\":%lld,\"buf\":%lld", m, sz(n), n ? off_of(b) : -1LL);
	pr_state();
	return n;
}
static int do_set(size_t off, size_t bsz) {
	size_t i;
	int rc = r_buf_wbuf_set(rb, off, bsz);
	if (rc == 0) { stamp(gotbuf, off, bsz - off); gotbuf = NULL; gotn = 0; for (i = 0; i < MAXR; i++) lastret[i] = 0; }
	printf("{\"op\":\"set\",\"off\":%zu,\"bsz\":%zu,\"rc\":%d", off, bsz, rc);
	pr_state();
	return rc;
}
static int do_set2(size_t gap, size_t bsz, long who) {
	size_t i;
	uint8_t *p = gotbuf + gap;
	long long po = off_of(p);
	int rc = r_buf_wbuf_set2(rb, p, bsz, who >= 0 ? &rpos[who] : NULL);
	if (rc == 0) {
		stamp(gotbuf, gap, bsz);
		gotn -= gap + bsz; gotbuf = gotn ? p + bsz : NULL;
		if (who >= 0) inited[who] = 1;
		for (i = 0; i < MAXR; i++) lastret[i] = 0;
	}
	printf("{\"op\":\"set2\",\"gap\":%zu,\"p\":%lld,\"bsz\":%zu,\"who\":%ld,\"rc\":%d", gap, po, bsz, who, rc);
	pr_state();
	return rc;
}
static void do_init(size_t r, size_t back) {
	int rc = r_buf_rpos_init(rb, &rpos[r], back);
	inited[r] = 1; lastret[r] = 0;
	printf("{\"op\":\"init\",\"r\":%zu,\"ds\":%zu,\"rc\":%d,\"rp\":", r, back, rc); pr_rpos(&rpos[r], 1);
	pr_state();
}
static size_t sum_regs(iovec_p v, size_t n) { size_t s = 0, i; for (i = 0; i < n; i++) s += v[i].iov_len; return s; }
static void do_avail(size_t r) {
	size_t drop = 777777, d2 = 777777, dsr = 0, ret, n, full;
	iovec_p v = malloc(sizeof(iovec_t) * 64);
	r_buf_rpos_t tmp = rpos[r];
	int cf = r_buf_rpos_check_fast(rb, &rpos[r]);
	ret = r_buf_data_avail_size(rb, &rpos[r], &drop);
	n = r_buf_data_get(rb, &tmp, 10000, v, 64, &d2, &dsr);
	full = sum_regs(v, n);
	if (drop > 0) lastret[r] = 0;
	printf("{\"op\":\"avail\",\"r\":%zu,\"ret\":%lld,\"drop\":%lld,\"full\":%lld,\"cf\":%d,\"rp\":", r, sz(ret), sz(drop), sz(full), cf);
	pr_rpos(&rpos[r], 1);
	free(v);
	pr_state();
}
static size_t do_dget(size_t r, size_t dsz, size_t cnt) {
	size_t drop = 777777, dsr = 777777, n, i, k, tot = 0;
	int oob = 0;
	iovec_p v = malloc(sizeof(iovec_t) * cnt);   /* exact size: ASan red zone right behind it */
	n = r_buf_data_get(rb, &rpos[r], dsz, v, cnt, &drop, &dsr);
	printf("{\"op\":\"dget\",\"r\":%zu,\"dsz\":%zu,\"cnt\":%zu,\"drop\":%lld,\"dsr\":%lld,\"rp\":", r, dsz, cnt, sz(drop), sz(dsr));
	pr_rpos(&rpos[r], 1);
	printf(",\"regs\":[");
	for (i = 0; i < n; i++) {
		printf("%s[%lld,%lld]", i ? "," : "", off_of(v[i].iov_base), sz(v[i].iov_len));
		if (v[i].iov_base < rb->buf || v[i].iov_len > rb->size ||
		    v[i].iov_base + v[i].iov_len > rb->buf + rb->size) oob = 1;
		tot += v[i].iov_len;
	}
	printf("],\"oob\":%d,\"bytes\":[", oob);
	if (!oob) {
		int first = 1;
		for (i = 0; i < n; i++) for (k = 0; k < v[i].iov_len; k++) {
			printf("%s%u", first ? "" : ",", v[i].iov_base[k]); first = 0;
		}
	}
	printf("]");
	lastret[r] = (oob || drop > 0) ? 0 : tot;
	free(v);
	pr_state();
	return tot;
}
static void do_inc(size_t r, size_t n) {
	trapped = 0;
	r_buf_rpos_inc(rb, &rpos[r], n);
	if (lastret[r] >= n) lastret[r] -= n; else lastret[r] = 0;
	printf("{\"op\":\"inc\",\"r\":%zu,\"n\":%zu,\"trap\":%d,\"rp\":", r, n, trapped ? 1 : 0); pr_rpos(&rpos[r], 1);
	pr_state();
}

static void do_poke(char *line) {
	long long v[512]; size_t n = 0, k = 0, i, cnt;
	char *p = line + 4, *e;
	for (;;) { long long x = strtoll(p, &e, 10); if (e == p || n >= 512) break; v[n++] = x; p = e; }
	rb->wpos = (size_t)v[k++]; rb->iov_index = (size_t)v[k++]; rb->iov_index_max = (size_t)v[k++];
	rb->round_num = round0 + (size_t)v[k++];
	rb->flags = (v[k] ? RBUF_F_FRAG : 0) | (v[k + 1] ? RBUF_F_FULL : 0); k += 2;
	gotbuf = v[k] < 0 ? NULL : rb->buf + v[k]; k++; gotn = v[k] < 0 ? 0 : (size_t)v[k]; k++;
	gcount = (uint64_t)v[k++];
	cnt = (size_t)v[k++];
	for (i = 0; i < cnt; i++) { rb->iov[i].iov_base = v[k] == NULLB ? NULL : rb->buf + v[k]; rb->iov[i].iov_len = (size_t)v[k + 1]; k += 2; }
	cnt = (size_t)v[k++];
	for (i = 0; i < cnt; i++) rb->buf[i] = (uint8_t)v[k++];
	cnt = (size_t)v[k++];
	for (i = 0; i < cnt; i++) {
		inited[i] = v[k] >= 0; rpos[i].iov_index = (size_t)v[k]; rpos[i].iov_off = (size_t)v[k + 1];
		rpos[i].round_num = round0 + (size_t)v[k + 2]; k += 3; lastret[i] = 0;
	}
	printf("{\"op\":\"poke\",\"n\":%zu,\"used\":%zu", n, k);
	pr_state();
}

/* self-driven random history: the driver plays writer and readers, choosing every argument from what the ring
 * itself returned (space from wbuf_get, bytes from data_get), i.e. only API-conforming calls. */
static uint64_t rs;
static uint32_t rnd(void) { rs ^= rs << 13; rs ^= rs >> 7; rs ^= rs << 17; return (uint32_t)(rs >> 11); }
static void do_rand(uint64_t seed, size_t nops, size_t maxblk, unsigned lag) {
	size_t i, r;
	size_t minb = rb->min_block_size;
	rs = seed * 0x9E3779B97F4A7C15ULL + 0x1234567; if (!rs) rs = 1;
	for (i = 0; i < nops; i++) {
		uint32_t c = rnd() % 100;
		/* lag: percentage of steps given to the writer; high lag = readers fall behind */
		if (c < lag) {
			if (gotbuf == NULL || rnd() % 6 == 0) {
				size_t m = (rnd() % 4 == 0) ? 1 + rnd() % rb->size : 1 + rnd() % maxblk;
				do_get(m);
			} else {
				size_t kind = rnd() % 8;
				if (kind < 5) {
					size_t off = (rnd() % 3 == 0) ? 1 : 0;
					size_t ds = minb + rnd() % (maxblk - minb + 1);
					if (rnd() % 40 == 0) ds = minb ? minb - 1 : 0;        /* provoke EINVAL */
					if (off + ds > gotn) { off = 0; ds = gotn; }
					do_set(off, off + ds);
				} else {
					size_t gap = (rnd() % 3 == 0) ? 1 : 0;
					size_t bs = minb + rnd() % (maxblk - minb + 1);
					long who = (rnd() % 10 == 0) ? (long)(rnd() % nreaders) : -1;
					if (gap + bs > gotn) { gap = 0; bs = gotn; }
					if (bs == 0) { do_get(1); continue; }
					do_set2(gap, bs, who);
				}
			}
		} else {
			r = rnd() % nreaders;
			if (!inited[r] || rnd() % 50 == 0) {
				size_t back = (rnd() % 3 == 0) ? 0 : rnd() % (2 * rb->size);
				do_init(r, back);
			} else if (lastret[r] > 0 && rnd() % 3 != 0) {
				do_inc(r, 1 + rnd() % lastret[r]);
			} else if (rnd() % 4 == 0) {
				do_avail(r);
			} else {
				size_t dsz = (rnd() % 2) ? 10000 : 1 + rnd() % (2 * maxblk + 2);
				size_t cnt = (rnd() % 2) ? 64 : 1 + rnd() % 3;
				do_dget(r, dsz, cnt);
			}
		}
	}
}

int main(void) {
	static char line[8192]; char op[32];
	long long a[6];
	vh_install_fault_handler();
	signal(SIGTRAP, on_trap);
	while (fgets(line, sizeof(line), stdin)) {
		int n = sscanf(line, "%31s %lld %lld %lld %lld %lld %lld", op, &a[0], &a[1], &a[2], &a[3], &a[4], &a[5]);
		if (n < 1) continue;
		vh_set_tag(line);
		vh_watchdog(3, 30); /* a line costs about a millisecond of CPU time (a 4000-call random history included): 3 s of it (30 s of wall clock) without an answer = the code under test does not terminate */
		if (!strcmp(op, "new") && n >= 6) do_new((size_t)a[0], (size_t)a[1], (size_t)a[2], (size_t)a[3], a[4]);
		else if (!rb) { printf("{\"error\":\"no ring\"}\n"); }
		else if (!strcmp(op, "get")) do_get((size_t)a[0]);
		else if (!strcmp(op, "set")) do_set((size_t)a[0], (size_t)a[1]);
		else if (!strcmp(op, "set2")) do_set2((size_t)a[0], (size_t)a[1], (long)a[2]);
		else if (!strcmp(op, "init")) do_init((size_t)a[0], (size_t)a[1]);
		else if (!strcmp(op, "avail")) do_avail((size_t)a[0]);
		else if (!strcmp(op, "dget")) do_dget((size_t)a[0], (size_t)a[1], (size_t)a[2]);
		else if (!strcmp(op, "inc")) do_inc((size_t)a[0], (size_t)a[1]);
		else if (!strcmp(op, "poke")) do_poke(line);
		else if (!strcmp(op, "rand")) { do_rand((uint64_t)a[0], (size_t)a[1], (size_t)a[2], (unsigned)a[3]); printf("{\"op\":\"randdone\"}\n"); }
		else printf("{\"error\":\"bad command\"}\n");
		fflush(stdout);
	}
	return 0;
}
