/* Conformance driver for ChaCha / HChaCha / XChaCha and GOST 28147-89 (property C08).
 *
 * The driver only EXECUTES the real functions of include/crypto/cipher/{chacha,gost28147}.h under every
 * source/destination alignment, in place, with src = NULL, and under every split of a stream into calls, and
 * REPORTS what they produced.  It knows nothing about expected values: identical outputs of the same input are
 * folded into one line with a repeat count ("n="), so that every distinct (input, output) pair reaches the TLA+
 * reference evaluated by TLC (mode C) and every distinct sequence of ctx fields reaches the ChaChaStream trace
 * specification (mode A).
 *
 * stdin: one job per line, stdout: result lines for the job, then "done <jobid>".
 *   selftest
 *   hch <id> <rounds> <ksz> <keyhex> <ivhex|->
 *   cc  <id> <c|x> <rounds> <ksz> <keyhex> <ctrhex|-> <ivhex|-> <srchex> <len,len,...>
 *   cs  <id> <c|x> <rounds> <ksz> <keyhex> <ctrhex|-> <ivhex|-> <srchex> <maxabs> <mid> <cstride> <coff> <astride> <mixstride> <seed>
 *   gost <id> <sbox 1..6> <ksz> <keyhex> <datahex>
 * result lines:
 *   O <id> <kind> <L> <mode S|N|I> <class> n=<count> first=<descr> out=<hex>
 *   T <id> <comp> <mode> <z> n=<count> tr=<n,x,c13c12,ks;...>
 *   M <id> <comp> <L> eff=<hex> out=<hex> tr=<...>
 *   G <id> <op> <class a|u> <mode S|I|R> n=<count> first=<descr> in=<hex> out=<hex>
 *   X <id> <what>            canary damaged / return code wrong (memory safety, API contract)
 * Buffers: [16-byte canary][al pad][data n][32-byte canary]; in ASan builds the tail canary is dropped so that
 * the data ends flush against the allocator's red zone. */
#include <sys/param.h>
#include <sys/types.h>
#include <inttypes.h>
#include <errno.h>
#include <stdio.h>
#include "vh_util.h"

#define CHACHA_SELF_TEST 1
#define GOST28147_SELF_TEST 1
#include "crypto/cipher/chacha.h"
/* both headers define these two static inline helpers: rename the second copy */
#define U8TO32_LITTLE gost_U8TO32_LITTLE
#define U32TO8_LITTLE gost_U32TO8_LITTLE
#include "crypto/cipher/gost28147.h"
#undef U8TO32_LITTLE
#undef U32TO8_LITTLE

#if defined(__SANITIZE_ADDRESS__)
#  define DRV_ASAN 1
#elif defined(__has_feature)
#  if __has_feature(address_sanitizer)
#    define DRV_ASAN 1
#  endif
#endif
#ifdef DRV_ASAN
#  define TAIL_CANARY 0
#else
#  define TAIL_CANARY 32
#endif
#define HEAD_CANARY 16

static char g_id[64];
static unsigned long g_oob;

typedef struct { uint8_t *base, *p; size_t n, al; } abuf_t;
static abuf_t ab_new(size_t n, size_t al) {
	abuf_t b;
	b.n = n; b.al = al;
	b.base = malloc(HEAD_CANARY + al + n + TAIL_CANARY);
	if (!b.base) abort();
	memset(b.base, 0xC3, HEAD_CANARY + al);
	b.p = b.base + HEAD_CANARY + al;
	memset(b.p, 0xA5, n);
	memset(b.p + n, 0x3C, TAIL_CANARY);
	return b;
}
static void ab_free(abuf_t b, const char *what) {
	size_t i; int bad = 0;
	for (i = 0; i < HEAD_CANARY + b.al; i++) if (b.base[i] != 0xC3) bad = 1;
	for (i = 0; i < TAIL_CANARY; i++) if (b.p[b.n + i] != 0x3C) bad = 2;
	if (bad) { g_oob++; if (g_oob < 20) printf("X %s oob-write-%s %s\n", g_id, bad == 1 ? "before" : "after", what); }
	free(b.base);
}
static abuf_t ab_copy(const uint8_t *src, size_t n, size_t al) {
	abuf_t b = ab_new(n, al);
	if (n) memcpy(b.p, src, n);
	return b;
}

/* ---------------------------------------------------------------- folding of identical results */
typedef struct val_s { struct val_s *next; size_t len, len2; uint8_t *v, *v2; unsigned long count; char first[48]; } val_t;
typedef struct { val_t *head; } slot_t;
static void slot_add(slot_t *s, const uint8_t *v, size_t len, const uint8_t *v2, size_t len2, const char *descr) {
	val_t *e;
	for (e = s->head; e; e = e->next)
		if (e->len == len && e->len2 == len2 && (len == 0 || !memcmp(e->v, v, len)) && (len2 == 0 || !memcmp(e->v2, v2, len2))) {
			e->count++; return;
		}
	e = calloc(1, sizeof(*e));
	e->len = len; e->v = malloc(len ? len : 1); if (len) memcpy(e->v, v, len);
	e->len2 = len2; e->v2 = malloc(len2 ? len2 : 1); if (len2) memcpy(e->v2, v2, len2);
	e->count = 1; snprintf(e->first, sizeof(e->first), "%s", descr);
	e->next = s->head; s->head = e;
}
static void slot_free(slot_t *s) {
	val_t *e = s->head, *n;
	for (; e; e = n) { n = e->next; free(e->v); free(e->v2); free(e); }
	s->head = NULL;
}

static const char *cls_of(const void *src, const void *dst) {
	size_t a = (size_t)src | (size_t)dst;
	return (a & 7) == 0 ? "a8" : ((a & 3) == 0 ? "a4" : "u");
}
static int cls_idx(const char *c) { return c[0] == 'u' ? 2 : (c[1] == '8' ? 0 : 1); }
static const char *cls_names[3] = { "a8", "a4", "u" };

/* ---------------------------------------------------------------- ChaCha jobs */
typedef struct {
	int x; size_t rounds, ksz;
	uint8_t *key, *ctr, *iv, *src; size_t keyn, ctrn, ivn, srcn;
} cjob_t;

static int parse_cjob(cjob_t *j, const char *op, const char *rounds, const char *ksz, const char *key,
    const char *ctr, const char *iv, const char *src) {
	j->x = (op[0] == 'x');
	j->rounds = (size_t)atol(rounds); j->ksz = (size_t)atol(ksz);
	j->key = vh_unhex(key, &j->keyn);
	j->ctr = NULL; j->ctrn = 0; if (strcmp(ctr, "-")) j->ctr = vh_unhex(ctr, &j->ctrn);
	j->iv = NULL; j->ivn = 0; if (strcmp(iv, "-")) j->iv = vh_unhex(iv, &j->ivn);
	j->src = vh_unhex(src, &j->srcn);
	return 0;
}
static void free_cjob(cjob_t *j) { free(j->key); free(j->ctr); free(j->iv); free(j->src); }

/* key / counter / iv copies at a varying alignment in exact-size blocks */
typedef struct { abuf_t key, ctr, iv; const uint8_t *k, *c, *i; } cparm_t;
static cparm_t cparm_new(const cjob_t *j, size_t al) {
	cparm_t p;
	p.key = ab_copy(j->key, j->keyn, al & 7); p.k = p.key.p;
	p.ctr = ab_copy(j->ctr, j->ctrn, (al * 3 + 1) & 7); p.c = j->ctr ? p.ctr.p : NULL;
	p.iv = ab_copy(j->iv, j->ivn, (al * 5 + 2) & 7); p.i = j->iv ? p.iv.p : NULL;
	return p;
}
static void cparm_free(cparm_t p) { ab_free(p.key, "key"); ab_free(p.ctr, "ctr"); ab_free(p.iv, "iv"); }

static void job_hch(char **a) { /* id rounds ksz key iv */
	size_t keyn, ivn = 0, rounds = (size_t)atol(a[1]), ksz = (size_t)atol(a[2]), al, da;
	uint8_t *key = vh_unhex(a[3], &keyn), *iv = strcmp(a[4], "-") ? vh_unhex(a[4], &ivn) : NULL;
	slot_t s = { NULL }; val_t *e; char d[48];
	for (al = 0; al < 8; al++) for (da = 0; da < 8; da++) {
		abuf_t k = ab_copy(key, keyn, al), v = ab_copy(iv, ivn, (al * 3 + da) & 7), o = ab_new(32, da);
		hchacha(k.p, ksz, iv ? v.p : NULL, rounds, o.p);
		snprintf(d, sizeof(d), "ka%zu,da%zu", al, da);
		slot_add(&s, o.p, 32, NULL, 0, d);
		ab_free(k, "hch-key"); ab_free(v, "hch-iv"); ab_free(o, "hch-dst");
	}
	for (e = s.head; e; e = e->next) {
		printf("O %s hchacha 32 N - n=%lu first=%s out=", g_id, e->count, e->first); vh_puthex(e->v, e->len); printf("\n");
	}
	slot_free(&s); free(key); free(iv);
}

static void oneshot(const cjob_t *j, const cparm_t *p, const uint8_t *src, size_t n, uint8_t *dst) {
	if (j->x) xchacha(p->k, j->ksz, p->c, p->i, j->rounds, src, n, dst);
	else chacha(p->k, j->ksz, p->c, p->i, j->rounds, src, n, dst);
}

static void job_cc(char **a) { /* id op rounds ksz key ctr iv src lens */
	cjob_t j; char *tok, *save = NULL, d[48];
	parse_cjob(&j, a[1], a[2], a[3], a[4], a[5], a[6], a[7]);
	for (tok = strtok_r(a[8], ",", &save); tok; tok = strtok_r(NULL, ",", &save)) {
		size_t L = (size_t)atol(tok), sa, da; int m, c;
		slot_t sl[3][3]; memset(sl, 0, sizeof(sl));
		if (L > j.srcn) continue;
		for (sa = 0; sa < 8; sa++) for (da = 0; da < 8; da++) {
			cparm_t p = cparm_new(&j, sa * 8 + da);
			abuf_t s = ab_copy(j.src, L, sa), o = ab_new(L, da);
			oneshot(&j, &p, s.p, L, o.p);
			snprintf(d, sizeof(d), "sa%zu,da%zu", sa, da);
			slot_add(&sl[0][cls_idx(cls_of(s.p, o.p))], o.p, L, NULL, 0, d);
			if (L && memcmp(s.p, j.src, L)) { g_oob++; printf("X %s src-modified %s\n", g_id, d); }
			ab_free(s, "cc-src"); ab_free(o, "cc-dst");
			if (sa == 0) { /* src = NULL: pure key stream */
				abuf_t o2 = ab_new(L, da);
				oneshot(&j, &p, NULL, L, o2.p);
				snprintf(d, sizeof(d), "null,da%zu", da);
				slot_add(&sl[1][cls_idx(cls_of(NULL, o2.p))], o2.p, L, NULL, 0, d);
				ab_free(o2, "cc-dst-null");
			}
			if (sa == da) { /* in place */
				abuf_t b = ab_copy(j.src, L, sa);
				oneshot(&j, &p, b.p, L, b.p);
				snprintf(d, sizeof(d), "inplace,a%zu", sa);
				slot_add(&sl[2][cls_idx(cls_of(b.p, b.p))], b.p, L, NULL, 0, d);
				ab_free(b, "cc-inplace");
			}
			cparm_free(p);
		}
		for (m = 0; m < 3; m++) for (c = 0; c < 3; c++) {
			val_t *e;
			for (e = sl[m][c].head; e; e = e->next) {
				printf("O %s %s %zu %c %s n=%lu first=%s out=", g_id, j.x ? "xchacha" : "chacha", L, "SNI"[m], cls_names[c], e->count, e->first);
				vh_puthex(e->v, e->len); printf("\n");
			}
			slot_free(&sl[m][c]);
		}
	}
	free_cjob(&j);
}

static uint64_t mix64(uint64_t x) { x ^= x >> 33; x *= 0xff51afd7ed558ccdULL; x ^= x >> 33; x *= 0xc4ceb9fe1a85ec53ULL; x ^= x >> 33; return x; }

/* streaming: abstract offsets 0..maxabs at block length 4, scaled to 64-byte blocks */
static size_t g_mid;
static size_t scale(size_t absoff) { static const size_t m[4] = { 0, 1, 0, 63 }; size_t r = absoff & 3; return (absoff >> 2) * 64 + (r == 2 ? g_mid : m[r]); }

typedef struct { char *buf; size_t len, cap; } tr_t;
static void tr_add(tr_t *t, size_t n, int x, const chacha_context_str_t *ctx) {
	if (t->len + 64 > t->cap) { t->cap = t->cap * 2 + 256; t->buf = realloc(t->buf, t->cap); }
	t->len += (size_t)sprintf(t->buf + t->len, "%zu,%d,%08x%08x,%zu;", n, x, ctx->c.state[13], ctx->c.state[12], ctx->ks_len);
}

/* one streamed execution; parts[] are real call lengths; xs[i] = 1 -> pass src, 0 -> pass NULL */
static void stream_run(const cjob_t *j, const cparm_t *p, const uint8_t *src, uint8_t *dst, const size_t *parts,
    const int *xs, size_t nparts, int z, tr_t *tr) {
	chacha_context_str_t ctx;
	size_t i, off = 0;
	memset(&ctx, 0xEE, sizeof(ctx));
	if (j->x) xchacha_str_init(&ctx, p->k, j->ksz, p->c, p->i, j->rounds);
	else chacha_str_init(&ctx, p->k, j->ksz, p->c, p->i, j->rounds);
	tr->len = 0;
	for (i = 0; i < nparts; i++) {
		if (z) { chacha_str_data_crypt(&ctx, xs[i] ? src + off : NULL, 0, dst + off); tr_add(tr, 0, xs[i], &ctx); }
		chacha_str_data_crypt(&ctx, xs[i] ? src + off : NULL, parts[i], dst + off);
		tr_add(tr, parts[i], xs[i], &ctx);
		off += parts[i];
	}
	if (z && nparts == 0) { chacha_str_data_crypt(&ctx, src, 0, dst); tr_add(tr, 0, 1, &ctx); }
	chacha_str_final(&ctx);
}

static void job_cs(char **a) { /* id op rounds ksz key ctr iv src maxabs mid cstride coff astride mixstride seed */
	cjob_t j; size_t maxabs, cstride, coff, astride, mixstride, labs, comp = 0; uint64_t seed;
	tr_t tr = { NULL, 0, 0 }; char d[48];
	parse_cjob(&j, a[1], a[2], a[3], a[4], a[5], a[6], a[7]);
	maxabs = (size_t)atol(a[8]); g_mid = (size_t)atol(a[9]); cstride = (size_t)atol(a[10]); coff = (size_t)atol(a[11]);
	astride = (size_t)atol(a[12]); mixstride = (size_t)atol(a[13]); seed = strtoull(a[14], NULL, 10);
	for (labs = 0; labs <= maxabs; labs++) {
		size_t L = scale(labs), ncomp = labs ? ((size_t)1 << (labs - 1)) : 1, m;
		slot_t outs[3]; memset(outs, 0, sizeof(outs));
		if (L > j.srcn) break;
		for (m = 0; m < ncomp; m++, comp++) {
			size_t parts[16], nparts = 0, start = 0, i, pair, sa, da; int xs[16], ones[16], zeros[16], z, mode;
			slot_t trs[3][2]; memset(trs, 0, sizeof(trs));
			if ((comp % cstride) != coff) continue;
			for (i = 1; i <= labs; i++)
				if (i == labs || ((m >> (i - 1)) & 1)) { parts[nparts++] = scale(i) - scale(start); start = i; }
			for (i = 0; i < 16; i++) { ones[i] = 1; zeros[i] = 0; }
			for (pair = 0; pair < 64; pair++) {
				cparm_t p;
				if (((pair + comp) % astride) != 0) continue;
				sa = pair >> 3; da = pair & 7; z = (int)((pair + comp / astride) & 1);
				p = cparm_new(&j, pair + comp);
				{ /* S: separate source and destination */
					abuf_t s = ab_copy(j.src, L, sa), o = ab_new(L, da);
					stream_run(&j, &p, s.p, o.p, parts, ones, nparts, z, &tr);
					snprintf(d, sizeof(d), "c%zu,sa%zu,da%zu,z%d", comp, sa, da, z);
					slot_add(&outs[0], o.p, L, NULL, 0, d);
					slot_add(&trs[0][z], (uint8_t*)tr.buf, tr.len, NULL, 0, d);
					if (L && memcmp(s.p, j.src, L)) { g_oob++; printf("X %s src-modified %s\n", g_id, d); }
					ab_free(s, "cs-src"); ab_free(o, "cs-dst");
				}
				cparm_free(p);
			}
			for (pair = 0; pair < 8; pair++) { /* N and I: one pointer, 8 alignments */
				size_t a8 = astride < 8 ? astride : 8; cparm_t p;
				if (((pair + comp) % a8) != 0) continue;
				da = sa = pair; z = (int)(((pair + comp) / a8) & 1);
				p = cparm_new(&j, pair * 9 + comp);
				{ /* N: src = NULL in every call */
					abuf_t o = ab_new(L, da);
					stream_run(&j, &p, NULL, o.p, parts, zeros, nparts, z, &tr);
					snprintf(d, sizeof(d), "c%zu,null,da%zu,z%d", comp, da, z);
					slot_add(&outs[1], o.p, L, NULL, 0, d);
					slot_add(&trs[1][z], (uint8_t*)tr.buf, tr.len, NULL, 0, d);
					ab_free(o, "cs-dst-null");
				}
				{ /* I: in place */
					abuf_t b = ab_copy(j.src, L, sa);
					stream_run(&j, &p, b.p, b.p, parts, ones, nparts, z, &tr);
					snprintf(d, sizeof(d), "c%zu,inplace,a%zu,z%d", comp, sa, z);
					slot_add(&outs[2], b.p, L, NULL, 0, d);
					slot_add(&trs[2][z], (uint8_t*)tr.buf, tr.len, NULL, 0, d);
					ab_free(b, "cs-inplace");
				}
				cparm_free(p);
			}
			if (mixstride && nparts > 1 && (comp % mixstride) == (seed % mixstride)) { /* M: src / NULL chosen per call */
				uint64_t r = mix64(seed * 1000003ULL + comp); size_t off = 0;
				abuf_t s, o; cparm_t p = cparm_new(&j, comp);
				sa = r & 7; da = (r >> 3) & 7;
				s = ab_copy(j.src, L, sa); o = ab_new(L, da);
				for (i = 0; i < nparts; i++) xs[i] = (int)((r >> (8 + i)) & 1);
				stream_run(&j, &p, s.p, o.p, parts, xs, nparts, 0, &tr);
				for (i = 0; i < nparts; i++) { if (!xs[i]) memset(s.p + off, 0, parts[i]); off += parts[i]; }
				printf("M %s %zu %zu eff=", g_id, comp, L); vh_puthex(s.p, L); printf(" out="); vh_puthex(o.p, L);
				printf(" tr=%.*s\n", (int)tr.len, tr.buf);
				ab_free(s, "cs-mix-src"); ab_free(o, "cs-mix-dst"); cparm_free(p);
			}
			for (mode = 0; mode < 3; mode++) for (z = 0; z < 2; z++) {
				val_t *e;
				for (e = trs[mode][z].head; e; e = e->next)
					printf("T %s %zu %c %d n=%lu first=%s tr=%.*s\n", g_id, comp, "SNI"[mode], z, e->count, e->first, (int)e->len, (char*)e->v);
				slot_free(&trs[mode][z]);
			}
		}
		{ int mode; for (mode = 0; mode < 3; mode++) {
			val_t *e;
			for (e = outs[mode].head; e; e = e->next) {
				printf("O %s %s %zu %c str n=%lu first=%s out=", g_id, j.x ? "xchacha-stream" : "chacha-stream", L, "SNI"[mode], e->count, e->first);
				vh_puthex(e->v, e->len); printf("\n");
			}
			slot_free(&outs[mode]);
		} }
	}
	free(tr.buf); free_cjob(&j);
}

/* ---------------------------------------------------------------- GOST 28147-89 */
static const uint8_t *gost_sbox(int i) {
	switch (i) {
	case 1: return id_gostr3411_94_testparamset_sbox;
	case 2: return id_gost28147_89_cryptopro_a_paramset_sbox;
	case 3: return id_gost28147_89_cryptopro_b_paramset_sbox;
	case 4: return id_gost28147_89_cryptopro_c_paramset_sbox;
	case 5: return id_gost28147_89_cryptopro_d_paramset_sbox;
	case 6: return id_tc26_gost_28147_param_z_sbox;
	}
	return NULL;
}
typedef void (*gost_fn)(gost28147_context_p, const uint8_t *, size_t, uint8_t *);
static const struct { const char *name; gost_fn fn; int be, inv; } gost_ops[4] = {
	{ "enc", gost28147_blocks_encrypt, 0, 1 }, { "dec", gost28147_blocks_decrypt, 0, 0 },
	{ "enc_be", gost28147_blocks_encrypt_be, 1, 3 }, { "dec_be", gost28147_blocks_decrypt_be, 1, 2 },
};
static int gost_do_init(int be, const uint8_t *key, size_t ksz, const uint8_t *sbox, gost28147_context_p ctx) {
	int rc = be ? gost28147_init_be(key, ksz, sbox, ctx) : gost28147_init(key, ksz, sbox, ctx);
	if (rc) { g_oob++; printf("X %s init-rc=%d\n", g_id, rc); }
	return rc;
}
static const char *gcls(const void *s, const void *d) { return ((((size_t)s) | ((size_t)d)) & 3) ? "u" : "a"; }

static void job_gost(char **a) { /* id sbox ksz key data */
	int sb = atoi(a[1]), op; size_t ksz = (size_t)atol(a[2]), keyn, n, sa, da, nb; char d[48];
	uint8_t *key = vh_unhex(a[3], &keyn), *data = vh_unhex(a[4], &n);
	const uint8_t *sbox = gost_sbox(sb);
	gost28147_context_t ctx;
	nb = n / 8;
	for (op = 0; op < 4; op++) {
		slot_t sl[3][2]; int m, c; memset(sl, 0, sizeof(sl));
		for (sa = 0; sa < 8; sa++) for (da = 0; da < 8; da++) {
			abuf_t k = ab_copy(key, keyn, (sa + da) & 7), s = ab_copy(data, n, sa), o = ab_new(n, da), r = ab_new(n, sa);
			if (gost_do_init(gost_ops[op].be, k.p, ksz, sbox, &ctx)) return;
			gost_ops[op].fn(&ctx, s.p, nb, o.p);
			gost28147_final(&ctx, NULL, 0);
			snprintf(d, sizeof(d), "sa%zu,da%zu", sa, da);
			slot_add(&sl[0][gcls(s.p, o.p)[0] == 'u'], o.p, n, data, n, d);
			if (n && memcmp(s.p, data, n)) { g_oob++; printf("X %s src-modified %s\n", g_id, d); }
			/* round trip with the inverse operation, same alignments mirrored: input is what the first call produced */
			gost_do_init(gost_ops[op].be, k.p, ksz, sbox, &ctx);
			gost_ops[gost_ops[op].inv].fn(&ctx, o.p, nb, r.p);
			gost28147_final(&ctx, NULL, 0);
			slot_add(&sl[2][gcls(o.p, r.p)[0] == 'u'], r.p, n, o.p, n, d);
			if (sa == da) { /* in place */
				abuf_t b = ab_copy(data, n, sa);
				gost_do_init(gost_ops[op].be, k.p, ksz, sbox, &ctx);
				gost_ops[op].fn(&ctx, b.p, nb, b.p);
				gost28147_final(&ctx, NULL, 0);
				snprintf(d, sizeof(d), "inplace,a%zu", sa);
				slot_add(&sl[1][gcls(b.p, b.p)[0] == 'u'], b.p, n, data, n, d);
				ab_free(b, "gost-inplace");
			}
			ab_free(k, "gost-key"); ab_free(s, "gost-src"); ab_free(o, "gost-dst"); ab_free(r, "gost-rt");
		}
		for (m = 0; m < 3; m++) for (c = 0; c < 2; c++) {
			val_t *e;
			for (e = sl[m][c].head; e; e = e->next) {
				printf("G %s %s %s %c n=%lu first=%s in=", g_id, gost_ops[m == 2 ? gost_ops[op].inv : op].name, c ? "u" : "a", "SIR"[m], e->count, e->first);
				vh_puthex(e->v2, e->len2); printf(" out="); vh_puthex(e->v, e->len); printf("\n");
			}
			slot_free(&sl[m][c]);
		}
	}
	{ /* MAC over the data, every source alignment, 8- and 4-byte results */
		size_t msz;
		for (msz = 8; msz >= 4; msz -= 4) {
			slot_t sl[2]; int c; memset(sl, 0, sizeof(sl));
			for (sa = 0; sa < 8; sa++) for (da = 0; da < 8; da += 3) {
				abuf_t k = ab_copy(key, keyn, (sa + 1) & 7), s = ab_copy(data, n, sa), o = ab_new(msz, da);
				if (gost_do_init(0, k.p, ksz, sbox, &ctx)) return;
				/* fed in two pieces when possible: the MAC state is carried in the context */
				gost28147_blocks_mac(&ctx, s.p, nb / 2);
				gost28147_blocks_mac(&ctx, s.p + (nb / 2) * 8, nb - nb / 2);
				gost28147_final(&ctx, o.p, msz);
				snprintf(d, sizeof(d), "sa%zu,da%zu,msz%zu", sa, da, msz);
				slot_add(&sl[gcls(s.p, NULL)[0] == 'u'], o.p, msz, data, n, d);
				ab_free(k, "mac-key"); ab_free(s, "mac-src"); ab_free(o, "mac-dst");
			}
			for (c = 0; c < 2; c++) {
				val_t *e;
				for (e = sl[c].head; e; e = e->next) {
					printf("G %s mac %s S n=%lu first=%s in=", g_id, c ? "u" : "a", e->count, e->first);
					vh_puthex(e->v2, e->len2); printf(" out="); vh_puthex(e->v, e->len); printf("\n");
				}
				slot_free(&sl[c]);
			}
		}
	}
	free(key); free(data);
}

int main(void) {
	static char line[1 << 17];
	char *a[24];
	int wd_cpu = getenv("CIPHER_DRV_WD_CPU") ? atoi(getenv("CIPHER_DRV_WD_CPU")) : 0;
	vh_install_fault_handler();
	while (fgets(line, sizeof(line), stdin)) {
		int n = 0; char *save = NULL, *t;
		char tag[200];
		snprintf(tag, sizeof(tag), "%.190s", line);
		for (t = strtok_r(line, " \t\r\n", &save); t && n < 24; t = strtok_r(NULL, " \t\r\n", &save)) a[n++] = t;
		if (n == 0) continue;
		vh_set_tag(tag);
		/* per-job non-termination watchdog: CIPHER_DRV_WD_CPU seconds of CPU time (wall clock backstop: 6 times that), sized by
		 * the check per tier (a quick-tier job costs < 0.5 s of CPU time under ASan, a thorough one up to ~30 times more);
		 * without the variable: 600 s of wall clock */
		if (wd_cpu > 0) vh_watchdog((unsigned)wd_cpu, (unsigned)(6 * wd_cpu)); else alarm(600);
		snprintf(g_id, sizeof(g_id), "%s", n > 1 ? a[1] : "-");
		if (!strcmp(a[0], "selftest")) {
			int c = chacha_self_test(), g = gost28147_self_test();
			printf("S chacha_self_test=%d gost28147_self_test=%d\n", c, g);
		} else if (!strcmp(a[0], "hch") && n == 6) job_hch(a + 1);
		else if (!strcmp(a[0], "cc") && n == 10) job_cc(a + 1);
		else if (!strcmp(a[0], "cs") && n == 16) job_cs(a + 1);
		else if (!strcmp(a[0], "gost") && n == 6) job_gost(a + 1);
		else { printf("X %s bad-job-line\n", g_id); }
		printf("done %s\n", g_id);
		fflush(stdout);
	}
	return 0;
}
