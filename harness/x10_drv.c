/* X10 driver: include/utils/reass_helper.h under histories of fragments; one ndjson line per call with the call's
 * arguments, its result and the whole struct + buffer + bitmap afterwards (the abstract state of specs/grow/ReassHelper.tla).
 * Guard zones in front of and behind buffer and bitmap show stores outside them (oob); SIGFPE is caught (crash).
 * usage: x10_drv <seed> <histories> <maxlen> <out.ndjson>   - the directed witness histories always come first. */
#include <stdio.h>
#include <stdlib.h>
#include <stdint.h>
#include <string.h>
#include <errno.h>
#include <signal.h>
#include <setjmp.h>
#include <unistd.h>
#include "utils/reass_helper.h"

#define PAD 32
static uint8_t arena[PAD + 64 + PAD], bmarena[PAD + 16 + PAD];
static reass_hlp_t rh;
static size_t bufsz; static long bmsz;
static FILE *out;
static sigjmp_buf jb;
static void on_fpe(int s) { (void)s; siglongjmp(jb, 1); }
static uint64_t rs;
static unsigned rnd(unsigned n) { rs = rs * 6364136223846793005ULL + 1442695040888963407ULL; return (unsigned)((rs >> 33) % n); }

static long long clampv(uint64_t v) { long long x = (long long)v; if (x > 999999999LL || x < -999999999LL) return 999999999LL; return x; }
static void log_state(void) {
	size_t i; int c = 0;
	fprintf(out, "\"st\":{\"buf\":[");
	for (i = 0; i < bufsz; i++) fprintf(out, "%s%u", i ? "," : "", arena[PAD + i]);
	fprintf(out, "],\"bits\":[");
	if (bmsz >= 0) for (i = 0; i < (size_t)bmsz * 8; i++) if (REASS_HLP_GET_BIT(bmarena + PAD, i)) fprintf(out, "%s%zu", c++ ? "," : "", i);
	fprintf(out, "],\"blk\":%lld,\"cnt\":%lld,\"recv\":%lld,\"seqsz\":%lld,\"dup\":%lld,\"reord\":%lld,\"first\":%lld,\"last\":%lld,\"cur\":%lld}",
	    clampv(rh.blk_size), clampv(rh.blk_cnt), clampv(rh.recv_cnt), clampv(rh.sequence_size), clampv(rh.dup_cnt),
	    clampv(rh.reorders_cnt), clampv(rh.first_seq_no), clampv(rh.last_seq_no), clampv(rh.cur_seq_no));
}
static int pads_dirty(void) {
	size_t i; int d = 0;
	for (i = 0; i < PAD; i++) {
		if (arena[i] != 0xEE || arena[PAD + bufsz + i] != 0xEE) d = 1;
		if (bmarena[i] != 0xEE || bmarena[PAD + (bmsz < 0 ? 0 : bmsz) + i] != 0xEE) d = 1;
	}
	return d;
}
static void fill_pads(void) {
	memset(arena, 0xEE, PAD); memset(arena + PAD + bufsz, 0xEE, PAD);
	memset(bmarena, 0xEE, PAD); memset(bmarena + PAD + (bmsz < 0 ? 0 : bmsz), 0xEE, PAD);
}
static void do_init(size_t bs, long bm) {
	int rc;
	bufsz = bs; bmsz = bm;
	memset(arena, 0xEE, sizeof(arena)); memset(bmarena, 0xEE, sizeof(bmarena));
	memset(arena + PAD, 0, bufsz); if (bm > 0) memset(bmarena + PAD, 0xFF, (size_t)bm); /* init must clear the bitmap itself */
	memset(&rh, 0, sizeof(rh));
	rc = reass_hlp_init(&rh, arena + PAD, bufsz, bm < 0 ? NULL : bmarena + PAD, bm < 0 ? 0 : (size_t)bm);
	fprintf(out, "{\"e\":\"Init\",\"bufsz\":%zu,\"bmsz\":%ld,\"rc\":%d,", bufsz, bmsz, rc); log_state(); fprintf(out, "}\n");
}
/* returns 1 when the history must end (crash or store outside the buffer) */
static int do_frag(long long seq, int first, int last, size_t size, unsigned tag) {
	uint8_t data[16]; volatile int rc = 0, crash = 0; int oob;
	memset(data, (int)tag, sizeof(data));
	if (sigsetjmp(jb, 1) == 0) rc = reass_hlp_handle_frag(&rh, (uint64_t)seq, first, last, size ? data : NULL, size);
	else { crash = 1; rc = 0; }
	oob = pads_dirty();
	fprintf(out, "{\"e\":\"Frag\",\"seq\":%lld,\"first\":%d,\"last\":%d,\"size\":%zu,\"tag\":%u,\"rc\":%d,\"crash\":%d,\"oob\":%d,",
	    seq, first, last, size, tag, rc, crash, oob);
	log_state(); fprintf(out, "}\n");
	if (oob) fill_pads();
	return crash || oob;
}
static void do_reset(void) {
	reass_hlp_reset(&rh);
	fprintf(out, "{\"e\":\"Reset\","); log_state(); fprintf(out, "}\n");
}
static void do_alloc(size_t bs, size_t mf) {
	reass_hlp_p p = reass_hlp_alloc(bs, mf);
	if (p == NULL) { fprintf(out, "{\"e\":\"Alloc\",\"bufsz\":%zu,\"minfrag\":%zu,\"null\":1}\n", bs, mf); return; }
	fprintf(out, "{\"e\":\"Alloc\",\"bufsz\":%zu,\"minfrag\":%zu,\"null\":0,\"rbufsz\":%lld,\"rbmsz\":%lld,\"bufoff\":%lld,\"bmoff\":%lld,\"blk\":%lld,\"cnt\":%lld,\"recv\":%lld,\"seqsz\":%lld,\"bmclear\":%d}\n",
	    bs, mf, clampv(p->buf_size), clampv(p->bitmap_size), (long long)(p->buf - (uint8_t *)p) - (long long)sizeof(reass_hlp_t),
	    (long long)(p->bitmap - p->buf), clampv(p->blk_size), clampv(p->blk_cnt), clampv(p->recv_cnt), clampv(p->sequence_size),
	    (int)(p->bitmap[0] == 0 && p->bitmap[p->bitmap_size - 1] == 0));
	reass_hlp_free(p);
}

static void witnesses(void) {
	/* wrap: first fragment at UINT64_MAX, next at 0 */
	do_init(6, 2); do_frag(-1, 1, 0, 2, 1); do_frag(0, 0, 0, 2, 2); do_frag(1, 0, 1, 1, 1);
	do_init(6, -1); do_frag(-1, 1, 0, 2, 1); do_frag(0, 0, 0, 2, 2); do_frag(1, 0, 1, 1, 1);
	/* bmunits: 1 octet of bitmap promises 8 blocks */
	do_init(6, 1); do_frag(3, 1, 0, 2, 1); do_frag(4, 0, 0, 2, 2); do_frag(5, 0, 1, 2, 1);
	/* hole: a block beyond the last stands in for a missing one */
	do_init(8, 8); do_frag(0, 1, 0, 1, 1); do_frag(2, 0, 1, 1, 2); do_frag(3, 0, 0, 1, 1); do_frag(1, 0, 0, 1, 2);
	do_init(8, 8); do_frag(5, 1, 0, 2, 1); do_frag(8, 0, 1, 1, 2); do_frag(6, 0, 1, 0, 1); do_frag(7, 0, 1, 0, 2);
	/* sumovf: blk 1, distance 2^64-1, last fragment of 2 octets, no bitmap */
	do_init(6, -1); do_frag(0, 1, 0, 1, 1); do_frag(-1, 0, 1, 2, 2);
	do_init(6, 8); do_frag(0, 1, 0, 1, 1); do_frag(-1, 0, 1, 2, 2);
	/* div0: last fragment with a huge distance before any first fragment */
	do_init(6, 1); do_frag(-2, 0, 1, 1, 1);
	do_init(6, -1); do_reset(); do_frag(-1, 0, 0, 0, 1);
	/* complete messages, duplicates, reorder, reuse after completion */
	do_init(7, 1); do_frag(5, 1, 0, 3, 1); do_frag(7, 0, 1, 1, 2); do_frag(7, 0, 1, 1, 1); do_frag(6, 0, 0, 3, 2); do_frag(6, 0, 0, 3, 1);
	do_frag(9, 1, 1, 4, 2); do_reset(); do_frag(1, 0, 0, 0, 1);
	/* a bitmap without a spare bit: 8 blocks of 1 octet, 1 octet of bitmap; an empty last fragment exactly at the end */
	do_init(8, 1); do_frag(1, 1, 0, 1, 2); do_frag(9, 0, 1, 0, 1); do_frag(8, 0, 1, 1, 1);
	do_alloc(8, 2); do_alloc(0, 0); do_alloc(100, 7);
}
static void history(unsigned maxlen) {
	static const long long bases[] = { 0, 5, -1, -2, -3, 1 };
	static const long bms[] = { -1, -1, 1, 1, 2, 8 };
	size_t bs = 4 + rnd(5), B = 1 + rnd(3), nblk, lastsz, i; long bm = bms[rnd(6)];
	long long base = bases[rnd(6)]; unsigned len = 2 + rnd(maxlen - 1), k;
	nblk = 1 + rnd((unsigned)(bs / B)); lastsz = rnd((unsigned)B + 2);
	do_init(bs, bm);
	if (rnd(12) == 0) do_reset();
	for (k = 0; k < len; k++) {
		long long seq; int first, last; size_t size; unsigned tag = 1 + rnd(2);
		if (rnd(10) < 7) { /* a fragment of the planned message */
			i = (k == 0 && rnd(5)) ? 0 : rnd((unsigned)nblk + (rnd(6) == 0));
			seq = base + (long long)i; first = (i == 0 && rnd(8)); last = (i + 1 == nblk) ? (rnd(10) != 0) : (rnd(12) == 0);
			size = (i + 1 == nblk) ? lastsz : B; if (first && size == 0 && rnd(4)) size = B;
			if (rnd(15) == 0) size = rnd(5);
		} else { /* noise */
			seq = base + (long long)rnd((unsigned)nblk + 4) - 2; if (rnd(8) == 0) seq = -(long long)(1 + rnd(3));
			first = rnd(6) == 0; last = rnd(3) == 0; size = rnd(5);
		}
		if (do_frag(seq, first, last, size, tag)) break;
		if (rnd(40) == 0) do_reset();
	}
}
int main(int argc, char **argv) {
	unsigned n, i, maxlen;
	if (argc < 5) return 2;
	rs = strtoull(argv[1], NULL, 10) * 2654435761ULL + 12345; n = (unsigned)atoi(argv[2]); maxlen = (unsigned)atoi(argv[3]);
	out = fopen(argv[4], "w"); if (!out) return 2;
	signal(SIGFPE, on_fpe);
	witnesses();
	for (i = 0; i < n; i++) history(maxlen);
	fclose(out);
	return 0;
}
