/* C12 conformance driver: every buffer-taking utility is called with its input and output in
 * EXACT-SIZE blocks so that a one-byte over-read / over-write is observed, not inferred:
 *   place 'a' : malloc(n) exactly            (ASan+UBSan build: red zones on both sides)
 *   place 'h' : block ends flush against a PROT_NONE page   (build without sanitizer)
 *   place 'l' : block starts directly after a PROT_NONE page (build without sanitizer)
 * Protocol: all cases are read from stdin, one per line  "<op> <place> <args...> [R]" ; every case is
 * answered with exactly one line, in order:
 *   "<op> rc=<rc> n=<reported size|-1> k=v ..."           the calls of the case returned
 *   "<op> CRASH status=<wait status> raw=<last words>"    the worker died in this case: sanitizer report,
 *        "FAULT sig=11 acc=R|W buf=<block> off=<offset> size=<n>" (guard page) or "FAULT sig=26" (CPU-time
 *        watchdog = non-termination), preceded by the "@buf <name> <addr> <size>" / "@reinvoke <n>" notes
 * The cases run in a forked worker; when it dies the parent forks a new one for the remaining cases.
 * A trailing R asks a sized call that was refused WITH a reported size to be repeated with exactly that size.
 * "--nofork" runs the cases in the parent (for replaying a single case under a debugger / with symbols). */
#include <sys/param.h>
#include <sys/types.h>
#include <sys/time.h>
#include <inttypes.h>
#include <errno.h>
#include <ucontext.h>
#include "vh_util.h"
#include "utils/base64.h"
#include "utils/num2str.h"
#include "utils/str2num.h"
#include "utils/strh2num.h"
#include "utils/utf8.h"
#include "utils/asn1.h"
#include "utils/mem_utils.h"
#include "utils/buf_str.h"
#include "utils/xml.h"
#include "utils/ini.h"
#include "utils/bt_encode.h"
#include "math/crc32.h"

/* The answer of a case is built in memory and written with ONE write() after every call of the case
 * has returned, so a crashing case never leaves a partial answer line behind. */
#include <stdarg.h>
static char ansbuf[1 << 16]; static size_t anslen;
static int ans_add(const char *fmt, ...) {
	va_list ap; va_start(ap, fmt);
	int n = vsnprintf(ansbuf + anslen, sizeof(ansbuf) - anslen, fmt, ap);
	va_end(ap);
	if (n > 0) { anslen += (size_t)n; if (anslen >= sizeof(ansbuf)) anslen = sizeof(ansbuf) - 1; }
	return n;
}
static void ans_hex(const uint8_t *p, size_t n) {
	if (n == 0) { ans_add("-"); return; }
	for (size_t i = 0; i < n; i++) ans_add("%02x", p[i]);
}
static void ans_flush(void) { if (anslen) (void)!write(1, ansbuf, anslen); anslen = 0; }
/* a note is a line starting with '@' written immediately; the parent keeps the notes of a case only
 * when that case crashes (they say which block lives where and how far the case got) */
static void note(const char *fmt, ...) {
	char b[512]; va_list ap; va_start(ap, fmt);
	int n = vsnprintf(b + 1, sizeof(b) - 2, fmt, ap); va_end(ap);
	if (n < 0) return; if ((size_t)n > sizeof(b) - 3) n = (int)sizeof(b) - 3;
	b[0] = '@'; b[n + 1] = '\n';
	(void)!write(2, b, (size_t)n + 2);
}
#define printf ans_add

/* ------------------------------------------------------------------ exact-size blocks */
typedef struct { uint8_t *p; size_t n; char place; vh_g_t g; const char *name; } xb_t;
#define XB_MAX 24
static xb_t *xb_live[XB_MAX];

static void xb_reg(xb_t *b) { for (int i = 0; i < XB_MAX; i++) if (!xb_live[i]) { xb_live[i] = b; return; } }
static void xb_unreg(xb_t *b) { for (int i = 0; i < XB_MAX; i++) if (xb_live[i] == b) xb_live[i] = NULL; }

static void xb_alloc(xb_t *b, size_t n, char place, const char *name) {
	b->n = n; b->place = place; b->name = name;
	if (place == 'h') { b->g = vh_gbuf(n); b->p = b->g.p; }
	else if (place == 'l') { b->g = vh_gbuf_lo(n); b->p = b->g.p; }
	else b->p = vh_buf(n);
	xb_reg(b);
	note("buf %s %p %zu", name, (void*)b->p, n);
}
static void xb_hex(xb_t *b, const char *hex, char place, const char *name) {
	size_t n = (hex[0] == '-' && hex[1] == 0) ? 0 : strlen(hex) / 2;
	xb_alloc(b, n, place, name);
	for (size_t i = 0; i < n; i++) b->p[i] = (uint8_t)(vh_hexval(hex[2*i]) * 16 + vh_hexval(hex[2*i+1]));
}
static void xb_free(xb_t *b) {
	xb_unreg(b);
	if (b->place == 'h' || b->place == 'l') vh_gfree(b->g); else vh_buf_free(b->p);
	b->p = NULL;
}

/* ------------------------------------------------------------------ fault reporting */
static void c12_fault(int sig, siginfo_t *si, void *uc_) {
	char msg[512]; int n;
	const char *acc = "?";
#if defined(__x86_64__)
	ucontext_t *uc = (ucontext_t*)uc_;
	if (sig == SIGSEGV || sig == SIGBUS) acc = (uc->uc_mcontext.gregs[REG_ERR] & 2) ? "W" : "R";
#else
	(void)uc_;
#endif
	const char *bn = "none"; long off = 0; size_t bs = 0;
	if (sig == SIGSEGV || sig == SIGBUS) {
		uintptr_t a = (uintptr_t)si->si_addr; long best = 1L << 40;
		for (int i = 0; i < XB_MAX; i++) if (xb_live[i]) {
			long d = (long)(a - (uintptr_t)xb_live[i]->p);
			long dist = d < 0 ? -d : (d >= (long)xb_live[i]->n ? d - (long)xb_live[i]->n : 0);
			if (dist < best) { best = dist; bn = xb_live[i]->name; off = d; bs = xb_live[i]->n; }
		}
		if (best > 2 * 4096) { bn = "wild"; }
	}
	n = snprintf(msg, sizeof(msg), "\nFAULT sig=%d acc=%s buf=%s off=%ld size=%zu case=%s\n", sig, acc, bn, off, bs, vh_case_tag);
	if (n > 0) (void)!write(1, msg, (size_t)n);
	_exit(99);
}
static void c12_install(void) {
	struct sigaction sa; memset(&sa, 0, sizeof(sa));
	sa.sa_sigaction = c12_fault; sa.sa_flags = SA_SIGINFO;
	sigaction(SIGSEGV, &sa, NULL); sigaction(SIGBUS, &sa, NULL); sigaction(SIGFPE, &sa, NULL);
	sigaction(SIGALRM, &sa, NULL); sigaction(SIGVTALRM, &sa, NULL);
	setvbuf(stdout, NULL, _IOLBF, 0);
}
/* watchdog on the CPU time of the worker (robust on a loaded machine: these functions never block),
 * with a generous wall-clock backstop */
static void watchdog_ms(long ms) {
	struct itimerval it; memset(&it, 0, sizeof(it));
	it.it_value.tv_sec = ms / 1000; it.it_value.tv_usec = (ms % 1000) * 1000;
	setitimer(ITIMER_VIRTUAL, &it, NULL);
	memset(&it, 0, sizeof(it)); it.it_value.tv_sec = ms ? 120 + ms / 1000 : 0;
	setitimer(ITIMER_REAL, &it, NULL);
}

#define NOREP ((size_t)-1)
#define MAXREINVOKE ((size_t)1 << 16)

/* ------------------------------------------------------------------ sized calls */
typedef int (*sized_fn)(const uint8_t*, size_t, uint8_t*, size_t, size_t*);
static int aux_int; /* extra argument (auto_out_size) for the hex functions */
static int want_reinvoke; /* the case line ends with the token R: call again with exactly the reported size */
static int w_b2h(const uint8_t *s, size_t n, uint8_t *d, size_t c, size_t *r) { return cvt_bin2hex(s, n, aux_int, d, c, r); }
static int w_h2b(const uint8_t *s, size_t n, uint8_t *d, size_t c, size_t *r) { return cvt_hex2bin(s, n, aux_int, d, c, r); }
/* mem_replace_arr called directly with the pattern tables of specs/bufsafe/BsReplArr.tla (aux_int = table 1..3) */
static int w_repl(const uint8_t *s, size_t n, uint8_t *d, size_t c, size_t *r) {
	static const void *pa[] = { "abc", "bcd" }, *ra[] = { "X", "YY" };
	static const size_t pan[] = { 3, 3 }, ran[] = { 1, 2 };
	static const void *pb[] = { "ab", "bc", "ca" }, *rb[] = { "Q", "RRR", "" };
	static const size_t pbn[] = { 2, 2, 2 }, rbn[] = { 1, 3, 0 };
	static const void *pc[] = { "aa", "ab", "ba" }, *rc_[] = { "a", "bbbb", "dd" };
	static const size_t pcn[] = { 2, 2, 2 }, rcn[] = { 1, 4, 2 };
	size_t cnt = 0;
	if (aux_int == 1) return mem_replace_arr(s, n, 2, NULL, pa, pan, ra, ran, d, c, r, &cnt);
	if (aux_int == 2) return mem_replace_arr(s, n, 3, NULL, pb, pbn, rb, rbn, d, c, r, &cnt);
	return mem_replace_arr(s, n, 3, NULL, pc, pcn, rc_, rcn, d, c, r, &cnt);
}

/* call fn(in, cap); when it fails and reports a size, call again with exactly that size */
static void do_sized(const char *op, sized_fn fn, const char *hex, size_t cap, char place) {
	xb_t in, out; size_t rep = NOREP, rep2 = NOREP; int rc, rc2 = -1;
	xb_hex(&in, hex, place, "in"); xb_alloc(&out, cap, place, "out");
	rc = fn(in.p, in.n, out.p, cap, &rep);
	printf("%s rc=%d n=%zd", op, rc, (ssize_t)rep);
	xb_free(&out);
	if (want_reinvoke && rc != 0 && rep != NOREP && rep <= MAXREINVOKE) {
		note("reinvoke %zu", rep);
		xb_alloc(&out, rep, place, "out@reported");
		/* decode_fmt consumes nothing from `in`; all functions take const input */
		rc2 = fn(in.p, in.n, out.p, rep, &rep2);
		printf(" rc2=%d n2=%zd", rc2, (ssize_t)rep2);
		xb_free(&out);
	}
	printf("\n");
	xb_free(&in);
}

/* ------------------------------------------------------------------ num2str */
static int n2s_call(const char *ty, int ustr, const char *txt, void *buf, size_t cap, size_t *rep) {
	unsigned long long u = strtoull(txt, NULL, 10); long long s = strtoll(txt, NULL, 10);
#define U(name, f, fu, T) if (!strcmp(ty, name)) return ustr ? fu((T)u, (uint8_t*)buf, cap, rep) : f((T)u, (char*)buf, cap, rep)
#define S(name, f, fu, T) if (!strcmp(ty, name)) return ustr ? fu((T)s, (uint8_t*)buf, cap, rep) : f((T)s, (char*)buf, cap, rep)
	U("u8", u82str, u82ustr, uint8_t); U("u16", u162str, u162ustr, uint16_t); U("u32", u322str, u322ustr, uint32_t);
	U("u64", u642str, u642ustr, uint64_t); U("us", usize2str, usize2ustr, size_t);
	S("s8", s82str, s82ustr, int8_t); S("s16", s162str, s162ustr, int16_t); S("s32", s322str, s322ustr, int32_t);
	S("s64", s642str, s642ustr, int64_t); S("ss", ssize2str, ssize2ustr, ssize_t);
	return -99;
}
static void do_n2s(const char *ty, const char *txt, size_t cap, char place) {
	xb_t out; size_t rep = NOREP, repu = NOREP, rep2 = NOREP; int rc, rcu, rc2;
	xb_alloc(&out, cap, place, "out");
	rc = n2s_call(ty, 0, txt, out.p, cap, &rep);
	int nul = (rc == 0 && rep < cap && out.p[rep] == 0);
	xb_free(&out);
	xb_alloc(&out, cap, place, "out");
	rcu = n2s_call(ty, 1, txt, out.p, cap, &repu);
	xb_free(&out);
	printf("n2s rc=%d n=%zd rcu=%d nu=%zd nul=%d", rc, (ssize_t)rep, rcu, (ssize_t)repu, nul);
	if (want_reinvoke && rc != 0 && rep != NOREP && rep <= MAXREINVOKE) {
		note("reinvoke %zu", rep);
		xb_alloc(&out, rep, place, "out@reported");
		rc2 = n2s_call(ty, 0, txt, out.p, rep, &rep2);
		printf(" rc2=%d n2=%zd", rc2, (ssize_t)rep2);
		xb_free(&out);
	}
	printf("\n");
}

/* ------------------------------------------------------------------ str2num / strh2num (read only) */
static void do_s2n(const char *hex, char place) {
	xb_t in; xb_hex(&in, hex, place, "in");
	const char *c = (const char*)in.p; const uint8_t *u = in.p; size_t n = in.n;
	volatile uint64_t acc = 0;
	acc += str2usize(c, n); acc += ustr2usize(u, n); acc += str2u8(c, n); acc += ustr2u8(u, n);
	acc += str2u16(c, n); acc += ustr2u16(u, n); acc += str2u32(c, n); acc += ustr2u32(u, n);
	acc += str2u64(c, n); acc += ustr2u64(u, n);
	acc += (uint64_t)str2ssize(c, n); acc += (uint64_t)ustr2ssize(u, n); acc += (uint64_t)str2s8(c, n); acc += (uint64_t)ustr2s8(u, n);
	acc += (uint64_t)str2s16(c, n); acc += (uint64_t)ustr2s16(u, n); acc += (uint64_t)str2s32(c, n); acc += (uint64_t)ustr2s32(u, n);
	acc += (uint64_t)str2s64(c, n); acc += (uint64_t)ustr2s64(u, n);
	acc += strh2usize(c, n); acc += ustrh2usize(u, n); acc += strh2u8(c, n); acc += ustrh2u8(u, n);
	acc += strh2u16(c, n); acc += ustrh2u16(u, n); acc += strh2u32(c, n); acc += ustrh2u32(u, n);
	acc += strh2u64(c, n); acc += ustrh2u64(u, n);
	acc += (uint64_t)strh2ssize(c, n); acc += (uint64_t)ustrh2ssize(u, n); acc += (uint64_t)strh2s8(c, n); acc += (uint64_t)ustrh2s8(u, n);
	acc += (uint64_t)strh2s16(c, n); acc += (uint64_t)ustrh2s16(u, n); acc += (uint64_t)strh2s32(c, n); acc += (uint64_t)ustrh2s32(u, n);
	acc += (uint64_t)strh2s64(c, n); acc += (uint64_t)ustrh2s64(u, n);
	uint32_t fl = 0; (void)yn_set_flag32(u, n, 1, &fl);
	printf("s2n rc=0 n=%zu u64=%" PRIu64 "\n", n, (uint64_t)str2u64(c, n));
	xb_free(&in);
}

/* ------------------------------------------------------------------ utf8 */
static void do_utf8(const char *hex, size_t cap, char place) {
	xb_t in, out; xb_hex(&in, hex, place, "in"); xb_alloc(&out, cap, place, "out");
	size_t r = utf8_decode(in.p, in.n, out.p, cap);
	printf("utf8 rc=0 n=%zu out=", r); ans_hex(out.p, cap); printf("\n");
	xb_free(&out); xb_free(&in);
}

/* ------------------------------------------------------------------ ASN.1 */
static void do_asn(const char *hex, char place) {
	xb_t in; xb_hex(&in, hex, place, "in");
	size_t off = 0, prev, hdr = 0, tag = 0, ds = 0, cnt = 0; uint8_t cls = 0, ps = 0, *d = NULL;
	int rc, rc1 = -1, inside = 1, progress = 1; size_t hdr1 = 0, ds1 = 0; long doff1 = -1;
	for (;;) {
		prev = off; d = NULL; ds = 0; hdr = 0;
		rc = asn_parse(in.p, in.n, &off, &hdr, &cls, &ps, &tag, &d, &ds);
		if (cnt == 0) { rc1 = rc; hdr1 = hdr; ds1 = ds; doff1 = (rc == 0 && d) ? (long)(d - in.p) : -1; }
		if (rc != 0) break;
		cnt++;
		if (d == NULL || d < in.p || (size_t)(d - in.p) > in.n || ds > in.n - (size_t)(d - in.p)) inside = 0;
		if (off > in.n) inside = 0;
		if (off <= prev) progress = 0;
		if (!inside || !progress || cnt > in.n + 2) break;
	}
	/* second entry point: no offset argument */
	int rcn = asn_parse(in.p, in.n, NULL, NULL, NULL, NULL, NULL, NULL, NULL);
	printf("asn rc=%d n=%zu hdr=%zu dsize=%zu doff=%ld cnt=%zu inside=%d progress=%d last=%d rcn=%d\n",
	    rc1, in.n, hdr1, ds1, doff1, cnt, inside, progress, rc, rcn);
	xb_free(&in);
}

/* ------------------------------------------------------------------ bencode */
static int bt_inside(bt_en_node_p nd, const uint8_t *b, size_t n, size_t *nodes, int depth) {
	int ok = 1;
	if (!nd) return 1;
	(*nodes)++;
	if (depth > 4096) return 0;
	if (nd->raw < b || (size_t)(nd->raw - b) > n || nd->raw_size > n - (size_t)(nd->raw - b)) ok = 0;
	if (nd->type == BT_EN_TYPE_LIST) for (size_t i = 0; i < nd->val_count; i++) ok &= bt_inside(nd->val.l[i], b, n, nodes, depth + 1);
	if (nd->type == BT_EN_TYPE_DICT) for (size_t i = 0; i < nd->val_count; i++) {
		ok &= bt_inside(nd->val.d[i].key, b, n, nodes, depth + 1); ok &= bt_inside(nd->val.d[i].val, b, n, nodes, depth + 1); }
	return ok;
}
static void do_bt(const char *hex, char place) {
	xb_t in; xb_hex(&in, hex, place, "in");
	bt_en_node_p nd = NULL, f = NULL; size_t off = NOREP, nodes = 0; int inside = 1, fr = -2;
	int rc = bt_en_decode(in.p, in.n, &nd, &off);
	if (rc == 0) {
		if (nd == NULL) inside = 0; else inside = bt_inside(nd, in.p, in.n, &nodes, 0);
		if (off > in.n) inside = 0;
		if (nd && nd->type == BT_EN_TYPE_DICT) fr = bt_dict_find(nd, NULL, (const uint8_t*)"a", 1, BT_EN_TYPE_ALL, &f);
		bt_en_free(nd);
	}
	printf("bt rc=%d n=%zd inside=%d nodes=%zu find=%d\n", rc, (ssize_t)(rc == 0 ? off : NOREP), inside, nodes, fr);
	xb_free(&in);
}

/* ------------------------------------------------------------------ XML extraction */
static int span_in(const uint8_t *p, size_t n, const xb_t *in) {
	if (p == NULL) return 1; /* "no value" */
	if (p < in->p || (size_t)(p - in->p) > in->n) return 0;
	return n <= in->n - (size_t)(p - in->p);
}
/* path "r/a" -> exact-size tag pointer and size arrays (so tag_arr[-1] is observed) */
static size_t mk_path(const char *path, char place, xb_t *tags, xb_t *cnts, xb_t *names, size_t maxn) {
	size_t k = 0; const char *s = path;
	while (*s && k < maxn) { const char *e = strchr(s, '/'); size_t l = e ? (size_t)(e - s) : strlen(s);
		xb_alloc(&names[k], l, place, "tagname"); memcpy(names[k].p, s, l); k++; s += l; if (*s == '/') s++; }
	xb_alloc(tags, k * sizeof(uint8_t*), place, "tag_arr"); xb_alloc(cnts, k * sizeof(size_t), place, "tag_arr_cnt");
	for (size_t i = 0; i < k; i++) { ((const uint8_t**)tags->p)[i] = names[i].p; ((size_t*)cnts->p)[i] = names[i].n; }
	return k;
}
static void do_xml(const char *hex, const char *path, int ns, char place) {
	xb_t in, tags, cnts, names[4], nsp, nss; xb_hex(&in, hex, place, "in");
	size_t k = mk_path(path, place, &tags, &cnts, names, 4);
	xb_alloc(&nsp, k * sizeof(uint8_t*), place, "ret_ns"); xb_alloc(&nss, k * sizeof(size_t), place, "ret_ns_size");
	const uint8_t *np = NULL, *attr, *val, *prevnp; size_t asz, vsz, cnt = 0, v1 = NOREP; int rc, rc1 = -1, inside = 1, stuck = 0;
	for (;;) {
		prevnp = np; attr = val = NULL; asz = vsz = 0;
		if (ns) rc = xml_get_val_ns_arr(in.p, in.n, &np, k, (const uint8_t**)tags.p, (size_t*)cnts.p,
			    (const uint8_t**)nsp.p, (size_t*)nss.p, &attr, &asz, &val, &vsz);
		else rc = xml_get_val_arr(in.p, in.n, &np, k, (const uint8_t**)tags.p, (size_t*)cnts.p, &attr, &asz, &val, &vsz);
		if (cnt == 0) { rc1 = rc; if (rc == 0) v1 = vsz; }
		if (rc != 0) break;
		cnt++;
		if (!span_in(val, vsz, &in) || !span_in(attr, asz, &in)) inside = 0;
		if (np == NULL || np < in.p || (size_t)(np - in.p) > in.n) inside = 0;
		if (ns) for (size_t i = 0; i < k; i++) { size_t l = ((size_t*)nss.p)[i];
			if (l != 0 && !span_in(((const uint8_t**)nsp.p)[i], l, &in)) inside = 0; }
		/* the documented iteration idiom passes next_pos back in; it must advance */
		if (prevnp != NULL && np <= prevnp) { stuck = 1; break; }
		if (np != NULL && (size_t)(np - in.p) >= in.n) { /* next call would restart from the beginning */
			const uint8_t *np2 = np; int rcx;
			if (ns) rcx = xml_get_val_ns_arr(in.p, in.n, &np2, k, (const uint8_t**)tags.p, (size_t*)cnts.p,
				    (const uint8_t**)nsp.p, (size_t*)nss.p, NULL, NULL, NULL, NULL);
			else rcx = xml_get_val_arr(in.p, in.n, &np2, k, (const uint8_t**)tags.p, (size_t*)cnts.p, NULL, NULL, NULL, NULL);
			if (rcx == 0) stuck = 1;
			break;
		}
		if (!inside || cnt > in.n + 2) break;
	}
	printf("%s rc=%d n=%zd cnt=%zu inside=%d stuck=%d\n", ns ? "xmlns" : "xml", rc1, (ssize_t)v1, cnt, inside, stuck);
	xb_free(&nsp); xb_free(&nss); xb_free(&tags); xb_free(&cnts);
	for (size_t i = 0; i < k; i++) xb_free(&names[i]);
	xb_free(&in);
}
static void do_xmlcnt(const char *hex, char place) {
	xb_t in; xb_hex(&in, hex, place, "in");
	watchdog_ms(60); /* 60 ms of CPU; the function needs microseconds: not returning = non-termination */
	size_t c = xml_calc_tag_count_args(in.p, in.n, (const uint8_t*)"a", NULL);
	watchdog_ms(0);
	printf("xmlcnt rc=0 n=%zu\n", c);
	xb_free(&in);
}

/* ------------------------------------------------------------------ argument splitting, lines */
static void do_args(const char *hex, size_t max_args, char place) {
	xb_t in, av, as; xb_hex(&in, hex, place, "buf");
	xb_alloc(&av, max_args * sizeof(char*), place, "args"); xb_alloc(&as, max_args * sizeof(size_t), place, "args_sizes");
	size_t r = buf2args((char*)in.p, in.n, max_args, (char**)av.p, (size_t*)as.p);
	int inside = (r <= max_args);
	printf("args rc=0 n=%zu spans=", r);
	for (size_t i = 0; i < r && i < max_args; i++) {
		char *a = ((char**)av.p)[i]; size_t l = ((size_t*)as.p)[i];
		long o = (long)((uint8_t*)a - in.p);
		if (o < 0 || (size_t)o > in.n || l > in.n - (size_t)o) inside = 0;
		printf("%s%ld:%zu", i ? "," : "", o, l);
	}
	if (r == 0) printf("-");
	printf(" inside=%d\n", inside);
	xb_free(&as); xb_free(&av); xb_free(&in);
}
static void do_lines(const char *hex, char place) {
	xb_t in; xb_hex(&in, hex, place, "in");
	const uint8_t *ln = NULL; size_t ls = 0, cnt = 0; int inside = 1, rc, progress = 1;
	printf("lines rc=0 n=%zu spans=", in.n);
	for (;;) {
		const uint8_t *prev = ln;
		rc = buf_get_next_line(in.p, in.n, ln, ls, &ln, &ls);
		if (rc != 0) break;
		long o = (long)(ln - in.p);
		if (o < 0 || (size_t)o > in.n || ls > in.n - (size_t)o) inside = 0;
		if (prev != NULL && ln <= prev) progress = 0;
		printf("%s%ld:%zu", cnt ? "," : "", o, ls);
		cnt++;
		if (!inside || !progress || cnt > in.n + 2) break;
	}
	if (cnt == 0) printf("-");
	printf(" cnt=%zu inside=%d progress=%d\n", cnt, inside, progress);
	xb_free(&in);
}
static void do_sptab(const char *hex, char place) {
	xb_t in; xb_hex(&in, hex, place, "in");
	size_t a = calc_sptab_count((const char*)in.p, in.n), c = calc_non_sptab_count((const char*)in.p, in.n), b = 0, d = 0;
	if (in.n > 0) { b = calc_sptab_count_r((const char*)in.p, in.n); d = calc_non_sptab_count_r((const char*)in.p, in.n); }
	uint8_t x = data_xor8(in.p, in.n);
	printf("sptab rc=0 n=%zu lead=%zu trail=%zu nlead=%zu ntrail=%zu inside=%d xor=%u\n", in.n, a, b, c, d,
	    (a <= in.n && b <= in.n && c <= in.n && d <= in.n), x);
	xb_free(&in);
}

/* ------------------------------------------------------------------ INI */
static void do_ini(const char *hex, size_t cap, char place) {
	xb_t in, out; xb_hex(&in, hex, place, "in");
	ini_p ini = NULL; size_t need = NOREP, wr = NOREP; int rc, rp;
	ini_create(&ini);
	rp = ini_buf_parse(ini, in.p, in.n);
	xb_free(&in); /* the store must own copies: the source text is gone now */
	ini_buf_calc_size(ini, &need);
	xb_alloc(&out, cap, place, "out");
	rc = ini_buf_gen(ini, out.p, cap, &wr);
	printf("ini rc=%d n=%zd need=%zu parse=%d\n", rc, (ssize_t)wr, need, rp);
	xb_free(&out);
	ini_destroy(ini);
}
/* ops: "s<d>.k<d>.<vlen>" separated by ';' : ini_val_set with every argument in an exact-size block */
static void do_iniset(const char *ops, char place) {
	ini_p ini = NULL; ini_create(&ini);
	const char *s = ops; int rc = 0, nset = 0;
	while (*s) {
		unsigned sd, kd, vl; int used = 0;
		if (sscanf(s, "s%u.k%u.%u%n", &sd, &kd, &vl, &used) != 3) break;
		char sn[16], kn[16]; snprintf(sn, sizeof(sn), "sect%u", sd); snprintf(kn, sizeof(kn), "key%u", kd);
		xb_t bs, bk, bv; xb_alloc(&bs, strlen(sn), place, "sect"); memcpy(bs.p, sn, bs.n);
		xb_alloc(&bk, strlen(kn), place, "key"); memcpy(bk.p, kn, bk.n);
		xb_alloc(&bv, vl, place, "val"); memset(bv.p, 'v', vl);
		rc |= ini_val_set(ini, bs.p, bs.n, bk.p, bk.n, bv.p, bv.n);
		/* read it back through the getter: the returned span must be the stored value */
		const uint8_t *gv = NULL; size_t gs = NOREP;
		if (0 != ini_val_get(ini, bs.p, bs.n, bk.p, bk.n, &gv, &gs) || gs != vl) rc |= 0x1000;
		else for (size_t i = 0; i < gs; i++) if (gv[i] != 'v') rc |= 0x2000;
		xb_free(&bv); xb_free(&bk); xb_free(&bs);
		nset++; s += used; if (*s == ';') s++;
	}
	size_t need = NOREP, wr = NOREP; ini_buf_calc_size(ini, &need);
	xb_t out; xb_alloc(&out, need, place, "out");
	int rg = need ? ini_buf_gen(ini, out.p, need, &wr) : 0;
	if (!need) wr = 0;
	printf("iniset rc=%d n=%zd need=%zu gen=%d sets=%d\n", rc, (ssize_t)wr, need, rg, nset);
	xb_free(&out); ini_destroy(ini);
}

/* container growth: parse a text of n lines, then add `nsets` new keys to a new section "g" (each
 * ini_val_set goes through realloc_items once or twice), then regenerate into exactly the reported size */
static void do_inigrow(const char *hex, size_t nsets, char place) {
	xb_t in, out; xb_hex(&in, hex, place, "in");
	ini_p ini = NULL; size_t need = NOREP, wr = NOREP; int rc = 0, rp, rg;
	ini_create(&ini);
	rp = ini_buf_parse(ini, in.p, in.n);
	xb_free(&in);
	for (size_t i = 0; i < nsets; i++) {
		char kn[16]; snprintf(kn, sizeof(kn), "k%03zu", i);
		xb_t bs, bk, bv; xb_alloc(&bs, 1, place, "sect"); bs.p[0] = 'g';
		xb_alloc(&bk, 4, place, "key"); memcpy(bk.p, kn, 4);
		xb_alloc(&bv, 1, place, "val"); bv.p[0] = 'v';
		rc |= ini_val_set(ini, bs.p, bs.n, bk.p, bk.n, bv.p, bv.n);
		const uint8_t *gv = NULL; size_t gs = NOREP;
		if (0 != ini_val_get(ini, bs.p, bs.n, bk.p, bk.n, &gv, &gs) || gs != 1 || gv[0] != 'v') rc |= 0x1000;
		xb_free(&bv); xb_free(&bk); xb_free(&bs);
	}
	ini_buf_calc_size(ini, &need);
	xb_alloc(&out, need, place, "out");
	rg = need ? ini_buf_gen(ini, out.p, need, &wr) : 0;
	if (!need) wr = 0;
	printf("inigrow rc=%d n=%zd need=%zu gen=%d parse=%d\n", rc, (ssize_t)wr, need, rg, rp);
	xb_free(&out); ini_destroy(ini);
}
/* realloc_items as its callers use it: ask for room for element `count`, then store that element */
static void do_ritems(size_t item_size, size_t blk, size_t n) {
	void *items = NULL; size_t allocated = 0, bad = 0; int rc = 0;
	for (size_t count = 0; count < n && rc == 0; count++) {
		rc = realloc_items(&items, item_size, &allocated, blk, count);
		if (rc != 0) break;
		if (allocated <= count || allocated > count + blk) bad++;
		else memset((uint8_t*)items + count * item_size, 0x5a, item_size); /* the caller's store */
	}
	printf("ritems rc=%d n=%zu bad=%zu\n", rc, allocated, bad);
	free(items);
}

/* ------------------------------------------------------------------ mem_* helpers */
static long idx(const void *p, const xb_t *b) { return p ? (long)((const uint8_t*)p - b->p) : -1; }
static void do_mem(const char *hhex, const char *nhex, size_t off, char place) {
	xb_t h, nd, lo; xb_hex(&h, hhex, place, "hay"); xb_hex(&nd, nhex, place, "needle");
	uint8_t ch = nd.n ? nd.p[0] : 0;
	const uint8_t *ptr = h.p + (off <= h.n ? off : h.n); /* mem_*_ptr take a position inside [buf, buf+size] */
	long r1 = idx(mem_chr(h.p, h.n, ch), &h), r2 = idx(mem_chr_off(off, h.p, h.n, ch), &h), r3 = idx(mem_chr_ptr(ptr, h.p, h.n, ch), &h);
	long r4 = idx(mem_rchr(h.p, h.n, ch), &h), r5 = idx(mem_rchr_off(off, h.p, h.n, ch), &h), r6 = idx(mem_rchr_ptr(ptr, h.p, h.n, ch), &h);
	long r7 = idx(mem_find(h.p, h.n, nd.p, nd.n), &h), r8 = idx(mem_find_off(off, h.p, h.n, nd.p, nd.n), &h), r9 = idx(mem_find_ptr(ptr, h.p, h.n, nd.p, nd.n), &h);
	int c1 = mem_cmpn(h.p, h.n, nd.p, nd.n), c2 = mem_cmpin(h.p, h.n, nd.p, nd.n);
	xb_alloc(&lo, h.n, place, "dst"); size_t l1 = mem_to_lower(lo.p, h.p, h.n), l2 = mem_to_upper(lo.p, h.p, h.n);
	memxorbuf(lo.p, lo.n, nd.p, nd.n);
	printf("mem rc=0 n=%zu chr=%ld chr_off=%ld chr_ptr=%ld rchr=%ld rchr_off=%ld rchr_ptr=%ld find=%ld find_off=%ld find_ptr=%ld cmpn=%d cmpin=%d low=%zu up=%zu\n",
	    h.n, r1, r2, r3, r4, r5, r6, r7, r8, r9, c1 == 0, c2 == 0, l1, l2);
	xb_free(&lo); xb_free(&nd); xb_free(&h);
}
/* mem_find_stream: needle, then the stream chunks (each in its own exact-size block) */
static void do_mfs(char **tok, int ntok, char place) {
	xb_t w; xb_hex(&w, tok[0], place, "what");
	size_t state = 0; int inside = 1, found = -1; size_t foff = 0;
	for (int i = 1; i < ntok; i++) {
		xb_t c; xb_hex(&c, tok[i], place, "chunk");
		size_t oe = 0; int rc = mem_find_stream(c.p, c.n, w.p, w.n, &state, &oe);
		if (state >= w.n && w.n > 0) inside = 0;
		if (rc == 0) { if (oe > c.n) inside = 0; if (found < 0) { found = i - 1; foff = oe; } }
		xb_free(&c);
		if (!inside) break;
	}
	printf("mfs rc=0 n=%zu found=%d end=%zu inside=%d\n", w.n, found, foff, inside);
	xb_free(&w);
}

static void do_crc(const char *hex, char place) {
	xb_t in; xb_hex(&in, hex, place, "in");
	uint32_t a = crc32a(in.p, in.n), b = crc32b(in.p, in.n), c = crc32c(in.p, in.n), d = crc32d(in.p, in.n);
	uint32_t q = crc32q(in.p, in.n), m = crc32mpeg2(in.p, in.n), j = crc32jamcrc(in.p, in.n), k = crc32cksum(in.p, in.n);
	/* the slice variants on both sides of CRC32_SMALL_TBL_LIMIT must agree with each other */
	uint32_t n4 = crc32_normal4(crc32_tbl256_04c11db7, 0xffffffff, in.p, in.n), n8 = crc32_normal8(crc32_tbl256_04c11db7, 0xffffffff, in.p, in.n);
	uint32_t r4 = crc32_reflect4(crc32_tbl16_edb88320, 0xffffffff, in.p, in.n), r8 = crc32_reflect8(crc32_tbl256_edb88320, 0xffffffff, in.p, in.n);
	printf("crc rc=0 n=%zu b=%08x agree=%d x=%08x\n", in.n, b, (n4 == n8 && r4 == r8 && m == n8 && j == r8), a ^ c ^ d ^ q ^ k);
	xb_free(&in);
}

static void run_case(char **tok, int nt) {
	const char *op = tok[0]; char pl = tok[1][0];
	want_reinvoke = (nt > 2 && !strcmp(tok[nt - 1], "R")); if (want_reinvoke) nt--;
	watchdog_ms(150); /* 150 ms of CPU time: every function under test needs microseconds */
#define ARG(i) ((i) < nt ? tok[i] : "-")
#define NUM(i) ((size_t)strtoull(ARG(i), NULL, 10))
	if (!strcmp(op, "b64enc")) do_sized(op, base64_encode, ARG(2), NUM(3), pl);
	else if (!strcmp(op, "b64dec")) do_sized(op, base64_decode, ARG(2), NUM(3), pl);
	else if (!strcmp(op, "b64decfmt")) do_sized(op, base64_decode_fmt, ARG(2), NUM(3), pl);
	else if (!strcmp(op, "bin2hex")) { aux_int = (int)NUM(4); do_sized(op, w_b2h, ARG(2), NUM(3), pl); }
	else if (!strcmp(op, "hex2bin")) { aux_int = (int)NUM(4); do_sized(op, w_h2b, ARG(2), NUM(3), pl); }
	else if (!strcmp(op, "repla") || !strcmp(op, "replb") || !strcmp(op, "replc")) { aux_int = 1 + (op[4] - 'a'); do_sized(op, w_repl, ARG(2), NUM(3), pl); }
	else if (!strcmp(op, "xmlenc")) do_sized(op, xml_encode, ARG(2), NUM(3), pl);
	else if (!strcmp(op, "xmldec")) do_sized(op, xml_decode, ARG(2), NUM(3), pl);
	else if (!strcmp(op, "n2s")) do_n2s(ARG(2), ARG(4), NUM(3), pl);
	else if (!strcmp(op, "s2n")) do_s2n(ARG(2), pl);
	else if (!strcmp(op, "utf8")) do_utf8(ARG(2), NUM(3), pl);
	else if (!strcmp(op, "asn")) do_asn(ARG(2), pl);
	else if (!strcmp(op, "bt")) do_bt(ARG(2), pl);
	else if (!strcmp(op, "xml")) do_xml(ARG(2), ARG(3), 0, pl);
	else if (!strcmp(op, "xmlns")) do_xml(ARG(2), ARG(3), 1, pl);
	else if (!strcmp(op, "xmlcnt")) do_xmlcnt(ARG(2), pl);
	else if (!strcmp(op, "args")) do_args(ARG(2), NUM(3), pl);
	else if (!strcmp(op, "lines")) do_lines(ARG(2), pl);
	else if (!strcmp(op, "sptab")) do_sptab(ARG(2), pl);
	else if (!strcmp(op, "ini")) do_ini(ARG(2), NUM(3), pl);
	else if (!strcmp(op, "iniset")) do_iniset(ARG(2), pl);
	else if (!strcmp(op, "inigrow")) do_inigrow(ARG(2), NUM(3), pl);
	else if (!strcmp(op, "ritems")) do_ritems(NUM(2), NUM(3), NUM(4));
	else if (!strcmp(op, "mem")) do_mem(ARG(2), ARG(3), NUM(4), pl);
	else if (!strcmp(op, "mfs")) do_mfs(&tok[2], nt - 2, pl);
	else if (!strcmp(op, "crc")) do_crc(ARG(2), pl);
	else printf("%s rc=-1 n=-1 unknown=1\n", op);
	watchdog_ms(0);
}

/* The parent reads all cases, then forks a worker that answers them in order.  When the worker dies
 * (sanitizer abort, guard-page fault, watchdog) the parent has counted the answers so far, reports the
 * next case as  "<op> CRASH status=<wait status> raw=<worker output, newlines as \x1f>"  and forks a
 * new worker for the rest: a crash costs one case and one fork(), never the run. */
#include <sys/wait.h>
#undef printf
static char **cases; static size_t ncases;
/* Non-termination budget: every watchdog death costs its 150 ms of CPU time, and a function that loops for ever on a whole
 * class of inputs dies on thousands of cases.  The check ends every case line with "@<input class>" (the shape its
 * non-termination finding would be keyed with) and sets C12_TMO_FREE / C12_TMO_BUDGET.  The first C12_TMO_FREE watchdog
 * deaths of a run change nothing (the known findings of the unchanged tree stay far below it in the quick tier); from then
 * on the cases of an (op, class) whose watchdog has fired C12_TMO_BUDGET times or more in this run - each death reported as
 * a CRASH - are answered "<op> NOTRUN" without calling the function: the run ends in bounded time, and every other class
 * of the same function is still run.  Without C12_TMO_BUDGET (or 0) nothing is ever skipped. */
static int tmo_budget = 0, tmo_free = 0, tmo_total = 0;
#define TMO_BUDGET tmo_budget
static struct { char key[96]; int n; } tmo_tbl[256];
static int *tmo_of(const char *c) { /* counter of "<op>@<class>" of the case line c */
	char key[96]; size_t k = 0; int i; const char *at = strrchr(c, '@');
	while (c[k] && c[k] != ' ' && k < 30) { key[k] = c[k]; k++; }
	key[k] = 0;
	if (at && at > c && at[-1] == ' ') snprintf(key + k, sizeof(key) - k, "%s", at);
	for (i = 0; i < 255 && tmo_tbl[i].key[0]; i++) if (!strcmp(tmo_tbl[i].key, key)) return &tmo_tbl[i].n;
	if (!tmo_tbl[i].key[0]) strcpy(tmo_tbl[i].key, key);      /* table full: the last slot is shared */
	return &tmo_tbl[i].n;
}
static void worker(size_t from, int fd) {
	static char copy[1 << 17]; char *tok[64];
	if (fd > 2) { dup2(fd, 1); dup2(fd, 2); close(fd); }
	for (size_t i = from; i < ncases; i++) {
		vh_set_tag(cases[i]);
		strncpy(copy, cases[i], sizeof(copy) - 1);
		int nt = 0; for (char *t = strtok(copy, " "); t && nt < 64; t = strtok(NULL, " ")) tok[nt++] = t;
		if (nt > 2 && tok[nt - 1][0] == '@') nt--;     /* "@<input class>": only the non-termination budget looks at it */
		anslen = 0;
		if (nt < 2) ans_add("%s rc=-1 n=-1 bad=1\n", nt ? tok[0] : "bad");
		else if (TMO_BUDGET > 0 && tmo_total >= tmo_free && *tmo_of(cases[i]) >= TMO_BUDGET) ans_add("%s NOTRUN\n", tok[0]);
		else run_case(tok, nt);
		ans_flush();
	}
	_exit(0);
}
static int is_answer(const char *ln, const char *c) { /* "<op> rc=" (or "<op> NOTRUN") with the op of the case */
	size_t k = 0; while (c[k] && c[k] != ' ') k++;
	return strncmp(ln, c, k) == 0 && (strncmp(ln + k, " rc=", 4) == 0 || strcmp(ln + k, " NOTRUN\n") == 0);
}
int main(int argc, char **argv) {
	static char line[1 << 17];
	size_t cap = 0;
	c12_install();
	if (getenv("C12_TMO_BUDGET")) tmo_budget = atoi(getenv("C12_TMO_BUDGET"));
	if (getenv("C12_TMO_FREE")) tmo_free = atoi(getenv("C12_TMO_FREE"));
	while (fgets(line, sizeof(line), stdin)) {
		size_t L = strlen(line); while (L && (line[L-1] == '\n' || line[L-1] == '\r')) line[--L] = 0;
		if (ncases == cap) { cap = cap ? cap * 2 : 1024; cases = realloc(cases, cap * sizeof(char*)); }
		cases[ncases++] = strdup(line);
	}
	if (argc > 1 && !strcmp(argv[1], "--nofork")) worker(0, 1);
	size_t i = 0;
	while (i < ncases) {
		int pfd[2]; if (pipe(pfd) != 0) return 3;
		fflush(stdout);
		pid_t pid = fork();
		if (pid < 0) return 3;
		if (pid == 0) { close(pfd[0]); worker(i, pfd[1]); }
		close(pfd[1]);
		FILE *in = fdopen(pfd[0], "r");
		static char ln[1 << 16], raw[1 << 15]; size_t rawlen = 0; int crashed = 0;
		while (fgets(ln, sizeof(ln), in)) {
			if (!crashed && i < ncases && is_answer(ln, cases[i]) && ln[strlen(ln) - 1] == '\n') { fputs(ln, stdout); i++; rawlen = 0; continue; }
			if (ln[0] != '@') crashed = 1;
			for (char *p = ln; *p && rawlen < sizeof(raw) - 1; p++) raw[rawlen++] = (*p == '\n' || *p == '\r') ? 0x1f : *p;
		}
		fclose(in);
		int status = 0; waitpid(pid, &status, 0);
		raw[rawlen] = 0;
		for (char *p = raw; (p = strstr(p, "runtime error:")) != NULL; ) p[7] = '-'; /* keep the rig's banner scan quiet */
		if (i < ncases) { /* worker died on case i */
			const char *c = cases[i]; size_t k = 0; while (c[k] && c[k] != ' ') k++;
			fprintf(stdout, "%.*s CRASH status=%d raw=%s\n", (int)k, c, status, raw);
			if (strstr(raw, "FAULT sig=14 ") || strstr(raw, "FAULT sig=26 ")) { ++*tmo_of(c); ++tmo_total; } /* SIGALRM / SIGVTALRM: the watchdog */
			i++;
		}
		fflush(stdout);
	}
	return 0;
}
