/* Thread-pool conformance driver (properties C05, C10, C11; base for C06/C16).
 *
 * Unity build: the two library sources are #included so that their static functions and private
 * structs are visible to the rig (to name internal callbacks and to read thread states); nothing
 * in them is changed.  Link with
 *   -Wl,--wrap=write,--wrap=read,--wrap=pipe2,--wrap=close,--wrap=epoll_create1,--wrap=calloc,
 *       --wrap=free,--wrap=pthread_create,--wrap=pthread_join,--wrap=timerfd_create,--wrap=epoll_ctl
 * The wrappers (a) log every operation on a message pipe under a per-pipe rig lock that covers
 * "real syscall + log append", so that the log order of operations on one pipe is their real order,
 * (b) keep a ledger of allocations / descriptors / threads, (c) inject the faults the scenario arms.
 * liblcb_verif_point() (the guarded hook of the library) logs and perturbs the schedule.
 *
 * usage: tp_drv <scenario-file> <trace-out.ndjson> [seed]
 */
#include <semaphore.h>
#include <stdarg.h>
#include "threadpool/threadpool.c"
#include "threadpool/threadpool_msg_sys.c"

/* ------------------------------------------------------------------ real symbols */
ssize_t __real_write(int, const void *, size_t);
ssize_t __real_read(int, void *, size_t);
int __real_pipe2(int *, int);
int __real_close(int);
int __real_epoll_create1(int);
int __real_epoll_ctl(int, int, int, struct epoll_event *);
void *__real_calloc(size_t, size_t);
void __real_free(void *);
int __real_pthread_create(pthread_t *, const pthread_attr_t *, void *(*)(void *), void *);
int __real_pthread_join(pthread_t, void **);
int __real_timerfd_create(int, int);
int __real_timerfd_settime(int, int, const struct itimerspec *, struct itimerspec *);

/* ------------------------------------------------------------------ sink */
#define MAXT 33
#define MAXMSG 65536
#define MAXOBJ 4096
typedef struct hmsg_s { int id; int kind; sem_t *sem; char *prog; volatile int finished; } hmsg_t;
enum { K_USER = 1, K_CTL = 2, K_SENT = 3, K_BCAST = 4 };

static pthread_mutex_t g_log_mu = PTHREAD_MUTEX_INITIALIZER;
static char *g_log; static size_t g_log_len, g_log_cap;
static long g_seq;
static const char *g_out_path;
static uint64_t g_seed = 1;
static int g_perturb = 1;
static int g_watchdog_s = 90;

static tp_p g_tp; static size_t g_n;      /* current pool, worker count; pvt has index g_n */
static hmsg_t g_msg[MAXMSG];
static const void *g_obj[MAXOBJ]; static int g_nobj;
static long g_next_inst = 1;

static __thread int vh_tid = -999;
static __thread long vh_cur_inst = 0;
static __thread long vh_cur_src = -1;
static __thread uint64_t vh_rng = 0;
static int g_ext_ctr = 300;

static void flush_log(void) {
	if (!g_out_path) return;
	FILE *f = fopen(g_out_path, "w");
	if (!f) return;
	fwrite(g_log, 1, g_log_len, f);
	fclose(f);
}
void __sanitizer_set_death_callback(void (*)(void)) __attribute__((weak));

static int tid_now(void) {
	if (vh_tid != -999) return vh_tid;
	tpt_p t = (g_tp != NULL) ? tpt_get_current() : NULL;
	if (t != NULL) vh_tid = (int)t->thread_num; else vh_tid = __sync_fetch_and_add(&g_ext_ctr, 1);
	return vh_tid;
}
/* object id: -1 NULL, 0..N thread (N = pvt), -2 pool, 1000+id harness message (id < 90000), 100000+k other */
static const void *g_evo_base; static size_t g_evo_bytes, g_evo_stride = 1; /* event objects (set in main) */
static long oid_locked(const void *p) {
	if (p == NULL) return -1;
	if (g_tp != NULL) {
		if (p == (const void *)g_tp) return -2;
		const tp_thread_t *t = p;
		if (t >= &g_tp->threads[0] && t <= &g_tp->threads[g_n]) return (long)(t - &g_tp->threads[0]);
	}
	if ((const hmsg_t *)p >= &g_msg[0] && (const hmsg_t *)p < &g_msg[MAXMSG]) return 1000 + ((const hmsg_t *)p)->id;
	if ((const char *)p >= (const char *)g_evo_base && (const char *)p < (const char *)g_evo_base + g_evo_bytes)
		return 200000 + (long)(((const char *)p - (const char *)g_evo_base) / (long)g_evo_stride);
	for (int i = 0; i < g_nobj; i++) if (g_obj[i] == p) return 100000 + i;
	if (g_nobj < MAXOBJ) { g_obj[g_nobj] = p; return 100000 + g_nobj++; }
	return 199999;
}
static void user_cb(tpt_p tpt, void *udata);
static void ctl_cb(tpt_p tpt, void *udata);
static void sent_cb(tpt_p tpt, void *udata);
static void bcast_cb(tpt_p tpt, void *udata);
static const char *cbname(const void *fn) {
	if (fn == (const void *)user_cb) return "user";
	if (fn == (const void *)ctl_cb) return "ctl";
	if (fn == (const void *)sent_cb) return "sent";
	if (fn == (const void *)bcast_cb) return "bcast";
	if (fn == (const void *)tpt_msg_sync_proxy_cb) return "syncproxy";
	if (fn == (const void *)tpt_msg_one_by_one_proxy_cb) return "oboproxy";
	if (fn == (const void *)tpt_msg_cb_done_proxy_cb) return "doneproxy";
	if (fn == (const void *)tpt_msg_shutdown_cb) return "shutdown";
	if (fn == (const void *)tpt_msg_async_op_cb_free_cb) return "aopfree";
	return "unknown";
}
static void logf_locked(const char *fmt, ...) {
	if (g_log_len + 4096 > g_log_cap) {
		g_log_cap = g_log_cap ? g_log_cap * 2 : (1u << 22);
		g_log = realloc(g_log, g_log_cap);
		if (!g_log) abort();
	}
	int n = snprintf(g_log + g_log_len, 256, "{\"n\":%ld,\"t\":%d,", ++g_seq, tid_now());
	g_log_len += (size_t)n;
	va_list ap; va_start(ap, fmt);
	n = vsnprintf(g_log + g_log_len, 3500, fmt, ap);
	va_end(ap);
	g_log_len += (size_t)n;
	g_log[g_log_len++] = '}'; g_log[g_log_len++] = '\n';
}
#define LOGEV(...) do { pthread_mutex_lock(&g_log_mu); logf_locked(__VA_ARGS__); pthread_mutex_unlock(&g_log_mu); } while (0)

static uint64_t rng_next(void) {
	if (vh_rng == 0) vh_rng = (g_seed * 0x9E3779B97F4A7C15ull) ^ ((uint64_t)(tid_now() + 1000) * 0xBF58476D1CE4E5B9ull) ^ 1;
	vh_rng ^= vh_rng << 13; vh_rng ^= vh_rng >> 7; vh_rng ^= vh_rng << 17;
	return vh_rng;
}
static void perturb(void) {
	if (!g_perturb) return;
	uint64_t r = rng_next();
	switch (r & 15) {
	case 0: case 1: sched_yield(); break;
	case 2: usleep((useconds_t)((r >> 8) % 120)); break;
	default: break;
	}
}

/* directed delays: at hook `label` with value v == vmatch (or vmatch < 0 = any), on thread tmatch (or -999) */
#define MAXDELAY 16
static struct { char label[32]; long vmatch; int tmatch; int us; int count; } g_delay[MAXDELAY];
static int g_ndelay;

/* ------------------------------------------------------------------ the hook */
void liblcb_verif_point(const char *label, const void *a, const void *b, uintptr_t val) {
	int saved_errno = errno;
	if (0 == strcmp(label, "proc.enter")) { /* TLS of the pool thread is not set yet */
		vh_tid = (int)((const tp_thread_t *)a)->thread_num;
	} else if (0 == strcmp(label, "create.pvt_running")) { /* tp_create has not returned yet: learn the pool */
		g_tp = (tp_p)(uintptr_t)a;
	}
	pthread_mutex_lock(&g_log_mu);
	if (0 == strcmp(label, "bsend.init") || 0 == strcmp(label, "cbsend.init")) {
		/* a new shared record: the same address (stack slot / recycled heap block) gets a fresh id */
		for (int i = 0; i < g_nobj; i++) if (g_obj[i] == a) g_obj[i] = (const void *)&g_obj[i];
	}
	if (0 == strcmp(label, "send.src")) { /* merged into the send.enter record that follows */
		vh_cur_src = oid_locked(a);
		pthread_mutex_unlock(&g_log_mu);
		errno = saved_errno;
		return;
	}
	if (0 == strcmp(label, "send.enter")) {
		vh_cur_inst = g_next_inst++;
		logf_locked("\"e\":\"send.enter\",\"i\":%ld,\"d\":%ld,\"u\":%ld,\"f\":%lu,\"s\":%ld", vh_cur_inst, oid_locked(a), oid_locked(b), (unsigned long)val, vh_cur_src);
	} else if (0 == strncmp(label, "send.", 5)) {
		logf_locked("\"e\":\"%s\",\"i\":%ld,\"d\":%ld,\"u\":%ld,\"v\":%lu", label, vh_cur_inst, oid_locked(a), oid_locked(b), (unsigned long)val);
	} else if (0 == strcmp(label, "recv.run")) {
		logf_locked("\"e\":\"recv.run\",\"q\":%ld,\"u\":%ld,\"c\":\"%s\"", oid_locked(a), oid_locked(b), cbname((const void *)val));
	} else if (0 == strcmp(label, "loop.gate")) {
		logf_locked("\"e\":\"loop.gate\",\"a\":%ld,\"b\":%ld,\"dis\":%d,\"set\":%d", oid_locked(a), oid_locked(b),
		    (int)(((uint64_t)val >> 63) & 1), (((uint64_t)val & ~(1ull << 63)) != 0));
	} else if (0 == strcmp(label, "loop.cb") || 0 == strcmp(label, "ev.post")) {
		logf_locked("\"e\":\"%s\",\"a\":%ld,\"b\":%ld,\"vlo\":%lu,\"vhi\":%lu", label, oid_locked(a), oid_locked(b),
		    (unsigned long)(val & 0xffffff), (unsigned long)((uint64_t)val >> 32));
	} else if (0 == strcmp(label, "wait.join")) {
		logf_locked("\"e\":\"wait.join\",\"a\":%ld,\"b\":%ld,\"v\":%d", oid_locked(a), oid_locked(b), (val != 0));
	} else {
		logf_locked("\"e\":\"%s\",\"a\":%ld,\"b\":%ld,\"v\":%lu", label, oid_locked(a), oid_locked(b), (unsigned long)(val & 0x7fffffff));
	}
	pthread_mutex_unlock(&g_log_mu);
	for (int i = 0; i < g_ndelay; i++) {
		if (0 == strcmp(label, g_delay[i].label) &&
		    (g_delay[i].vmatch < 0 || (uintptr_t)g_delay[i].vmatch == val) &&
		    (g_delay[i].tmatch == -999 || g_delay[i].tmatch == tid_now()) &&
		    g_delay[i].count != 0) {
			if (g_delay[i].count > 0) g_delay[i].count--;
			usleep((useconds_t)g_delay[i].us);
		}
	}
	perturb();
	errno = saved_errno;
}

/* ------------------------------------------------------------------ ledger + faults */
#define MAXLED 512
static pthread_mutex_t g_led_mu = PTHREAD_MUTEX_INITIALIZER;
static void *g_led_mem[MAXLED]; static int g_led_fd[MAXLED]; static pthread_t g_led_thr[MAXLED];
static int g_nmem, g_nfd, g_nthr;
static int g_track = 0; /* ledger active (between pool create and destroy) */

typedef struct { const char *kind; int k; int err; } fault_t;
static fault_t g_fault[8]; static int g_nfault;
static int fault_hit(const char *kind) { /* returns errno to inject or 0 */
	int r = 0;
	pthread_mutex_lock(&g_led_mu);
	for (int i = 0; i < g_nfault; i++) {
		if (g_fault[i].k > 0 && 0 == strcmp(g_fault[i].kind, kind)) {
			if (--g_fault[i].k == 0) r = g_fault[i].err;
		}
	}
	pthread_mutex_unlock(&g_led_mu);
	return r;
}
static void led_add_fd(int fd) { pthread_mutex_lock(&g_led_mu); if (g_track && g_nfd < MAXLED) g_led_fd[g_nfd++] = fd; pthread_mutex_unlock(&g_led_mu); }
static void led_del_fd(int fd) {
	pthread_mutex_lock(&g_led_mu);
	for (int i = 0; i < g_nfd; i++) if (g_led_fd[i] == fd) { g_led_fd[i] = g_led_fd[--g_nfd]; break; }
	pthread_mutex_unlock(&g_led_mu);
}

/* message pipes */
typedef struct { int rfd, wfd; int owner; pthread_mutex_t mu; int wfault_k, wfault_err; } mpipe_t;
static mpipe_t g_pipe[MAXT]; static int g_npipe; static int g_pipe_sz = 0;
static mpipe_t *pipe_by_w(int fd) { for (int i = 0; i < g_npipe; i++) if (g_pipe[i].wfd == fd) return &g_pipe[i]; return NULL; }
static mpipe_t *pipe_by_r(int fd) { for (int i = 0; i < g_npipe; i++) if (g_pipe[i].rfd == fd) return &g_pipe[i]; return NULL; }

int __wrap_pipe2(int *fds, int flags) {
	int e = fault_hit("pipe2");
	if (e) { LOGEV("\"e\":\"sys.pipe2\",\"rc\":-1,\"err\":%d,\"inj\":1", e); errno = e; return -1; }
	int rc = __real_pipe2(fds, flags);
	if (rc == 0) {
		if (g_pipe_sz > 0) fcntl(fds[1], F_SETPIPE_SZ, g_pipe_sz);
		led_add_fd(fds[0]); led_add_fd(fds[1]);
		if (g_track && g_npipe < MAXT) {
			mpipe_t *p = &g_pipe[g_npipe];
			p->rfd = fds[0]; p->wfd = fds[1]; p->wfault_k = 0;
			/* creation order inside tp_create: pvt first, then workers 0..N-1 */
			p->owner = (g_npipe == 0) ? (int)g_n : (g_npipe - 1);
			pthread_mutex_init(&p->mu, NULL);
			g_npipe++;
			LOGEV("\"e\":\"sys.pipe2\",\"rc\":0,\"owner\":%d,\"cap\":%d", p->owner, fcntl(fds[1], F_GETPIPE_SZ) / (int)sizeof(tpt_msg_pkt_t));
		}
	}
	return rc;
}
int __wrap_close(int fd) {
	mpipe_t *p = pipe_by_w(fd); if (!p) p = pipe_by_r(fd);
	if (p) {
		pthread_mutex_lock(&p->mu);
		int rc = __real_close(fd);
		LOGEV("\"e\":\"sys.close\",\"pipe\":%d,\"end\":\"%s\"", p->owner, (p->wfd == fd) ? "w" : "r");
		if (p->wfd == fd) p->wfd = -1; else p->rfd = -1;
		pthread_mutex_unlock(&p->mu);
		led_del_fd(fd);
		return rc;
	}
	{
		int known = 0;
		pthread_mutex_lock(&g_led_mu);
		for (int i = 0; i < g_nfd; i++) if (g_led_fd[i] == fd) known = 1;
		int tracking = g_track;
		pthread_mutex_unlock(&g_led_mu);
		if (!known && tracking && fd >= 0) LOGEV("\"e\":\"sys.close.foreign\",\"fd\":%d", fd); /* the library closes a descriptor it never acquired */
	}
	led_del_fd(fd);
	return __real_close(fd);
}
int __wrap_epoll_create1(int flags) {
	int e = fault_hit("epoll_create1");
	if (e) { LOGEV("\"e\":\"sys.epoll_create1\",\"rc\":-1,\"err\":%d,\"inj\":1", e); errno = e; return -1; }
	int fd = __real_epoll_create1(flags);
	if (fd >= 0) led_add_fd(fd);
	return fd;
}
int __wrap_timerfd_create(int clk, int flags) {
	int e = fault_hit("timerfd_create");
	if (e) { errno = e; return -1; }
	int fd = __real_timerfd_create(clk, flags);
	if (fd >= 0) led_add_fd(fd);
	return fd;
}
int __wrap_timerfd_settime(int fd, int flags, const struct itimerspec *nv, struct itimerspec *ov) {
	int rc = __real_timerfd_settime(fd, flags, nv, ov);
	int err = errno;
	/* seconds/nanoseconds as decimal strings: they exceed what TLC integers hold; compared outside TLC */
	LOGEV("\"e\":\"sys.settime\",\"abs\":%d,\"vs\":\"%llu\",\"vn\":\"%llu\",\"is\":\"%llu\",\"in\":\"%llu\",\"rc\":%d,\"err\":%d",
	    (flags & TFD_TIMER_ABSTIME) ? 1 : 0, (unsigned long long)nv->it_value.tv_sec, (unsigned long long)nv->it_value.tv_nsec,
	    (unsigned long long)nv->it_interval.tv_sec, (unsigned long long)nv->it_interval.tv_nsec, rc, (rc == 0) ? 0 : err);
	errno = err;
	return rc;
}
static int g_log_epctl = 0;
int __wrap_epoll_ctl(int epfd, int op, int fd, struct epoll_event *ev) {
	int e = fault_hit("epoll_ctl");
	if (e) { LOGEV("\"e\":\"sys.epoll_ctl\",\"rc\":-1,\"err\":%d,\"inj\":1", e); errno = e; return -1; }
	int rc = __real_epoll_ctl(epfd, op, fd, ev);
	if (g_log_epctl) {
		int err = errno;
		LOGEV("\"e\":\"sys.epoll_ctl\",\"op\":%d,\"fd\":%d,\"evs\":%u,\"rc\":%d,\"err\":%d", op, fd, ev ? ev->events : 0, rc, (rc == 0) ? 0 : err);
		errno = err;
	}
	return rc;
}
void *__wrap_calloc(size_t n, size_t sz) {
	int e = fault_hit("calloc");
	if (e) { LOGEV("\"e\":\"sys.calloc\",\"rc\":-1,\"err\":%d,\"inj\":1", e); errno = ENOMEM; return NULL; }
	void *p = __real_calloc(n, sz);
	pthread_mutex_lock(&g_led_mu);
	if (g_track && p && g_nmem < MAXLED) g_led_mem[g_nmem++] = p;
	pthread_mutex_unlock(&g_led_mu);
	return p;
}
void __wrap_free(void *p) {
	pthread_mutex_lock(&g_led_mu);
	for (int i = 0; i < g_nmem; i++) if (g_led_mem[i] == p) { g_led_mem[i] = g_led_mem[--g_nmem]; break; }
	pthread_mutex_unlock(&g_led_mu);
	__real_free(p);
}
int __wrap_pthread_create(pthread_t *t, const pthread_attr_t *a, void *(*fn)(void *), void *arg) {
	int e = fault_hit("pthread_create");
	if (e) { LOGEV("\"e\":\"sys.pthread_create\",\"rc\":%d,\"inj\":1", e); return e; }
	int rc = __real_pthread_create(t, a, fn, arg);
	if (rc == 0 && fn == tp_thread_proc) {
		pthread_mutex_lock(&g_led_mu);
		if (g_track && g_nthr < MAXLED) g_led_thr[g_nthr++] = *t;
		pthread_mutex_unlock(&g_led_mu);
	}
	return rc;
}
int __wrap_pthread_join(pthread_t t, void **ret) {
	if (t == 0) { /* joining a cleared id would crash glibc: record it, report ESRCH like a checked libc would */
		LOGEV("\"e\":\"sys.join0\"");
		return ESRCH;
	}
	int rc = __real_pthread_join(t, ret);
	if (rc == 0) {
		pthread_mutex_lock(&g_led_mu);
		for (int i = 0; i < g_nthr; i++) if (pthread_equal(g_led_thr[i], t)) { g_led_thr[i] = g_led_thr[--g_nthr]; break; }
		pthread_mutex_unlock(&g_led_mu);
	}
	return rc;
}

/* per-pipe shadow of packet instances (pipes are FIFO byte streams: kernel guarantee) */
#define SHADOW 8192
static long g_shadow[MAXT][SHADOW]; static int g_sh_head[MAXT], g_sh_len[MAXT];

ssize_t __wrap_write(int fd, const void *buf, size_t n) {
	mpipe_t *p = pipe_by_w(fd);
	if (p == NULL || n != sizeof(tpt_msg_pkt_t)) return __real_write(fd, buf, n);
	const tpt_msg_pkt_t *pk = buf;
	ssize_t rc; int err = 0, inj = 0;
	pthread_mutex_lock(&p->mu);
	if (p->wfault_k > 0 && --p->wfault_k == 0) { rc = -1; err = p->wfault_err; inj = 1; }
	else { rc = __real_write(fd, buf, n); err = errno; }
	int pi = (int)(p - g_pipe);
	pthread_mutex_lock(&g_log_mu);
	if (rc == (ssize_t)n) {
		g_shadow[pi][(g_sh_head[pi] + g_sh_len[pi]) % SHADOW] = vh_cur_inst; g_sh_len[pi]++;
		logf_locked("\"e\":\"wr\",\"i\":%ld,\"d\":%d,\"u\":%ld,\"c\":\"%s\",\"rc\":0", vh_cur_inst, p->owner, oid_locked(pk->udata), cbname((const void *)pk->msg_cb));
	} else {
		logf_locked("\"e\":\"wr\",\"i\":%ld,\"d\":%d,\"u\":%ld,\"c\":\"%s\",\"rc\":%d,\"inj\":%d", vh_cur_inst, p->owner, oid_locked(pk->udata), cbname((const void *)pk->msg_cb), err, inj);
	}
	pthread_mutex_unlock(&g_log_mu);
	pthread_mutex_unlock(&p->mu);
	errno = err;
	return rc;
}
ssize_t __wrap_read(int fd, void *buf, size_t n) {
	mpipe_t *p = pipe_by_r(fd);
	if (p == NULL) return __real_read(fd, buf, n);
	pthread_mutex_lock(&p->mu);
	ssize_t rc = __real_read(fd, buf, n);
	int err = errno;
	int pi = (int)(p - g_pipe);
	if (rc > 0) {
		int cnt = (int)(rc / (ssize_t)sizeof(tpt_msg_pkt_t));
		pthread_mutex_lock(&g_log_mu);
		logf_locked("\"e\":\"rd\",\"q\":%d,\"cnt\":%d,\"is\":[", p->owner, cnt);
		g_log_len -= 2; /* re-open the record: drop "}\n" */
		for (int k = 0; k < cnt; k++) {
			long inst = (g_sh_len[pi] > 0) ? g_shadow[pi][g_sh_head[pi]] : -1;
			if (g_sh_len[pi] > 0) { g_sh_head[pi] = (g_sh_head[pi] + 1) % SHADOW; g_sh_len[pi]--; }
			g_log_len += (size_t)snprintf(g_log + g_log_len, 32, "%s%ld", k ? "," : "", inst);
			if (g_log_len + 4096 > g_log_cap) { g_log_cap *= 2; g_log = realloc(g_log, g_log_cap); }
		}
		g_log_len += (size_t)snprintf(g_log + g_log_len, 8, "]}\n");
		pthread_mutex_unlock(&g_log_mu);
	}
	pthread_mutex_unlock(&p->mu);
	errno = err;
	return rc;
}

/* ------------------------------------------------------------------ scenario machinery */
#define MAXGATE 16
static void run_prog(const char *actor, char *prog);
static sem_t g_gate[16];
static volatile int g_blocked[16]; /* actors that reached `block g` */
/* thread identity by address (the struct may already be wiped on the failed-create path); while the pool
 * is still under construction only the virtual thread can be meant */
static long hook_tid(tpt_p tpt) {
	if (g_tp == NULL) return (long)g_n;
	return (long)(tpt - &g_tp->threads[0]);
}
static void hook_on_start(tpt_p tpt) { LOGEV("\"e\":\"hook.start\",\"a\":%ld", hook_tid(tpt)); perturb(); }
static int g_stop_gate = -1; static volatile int g_stop_held = 0;
static void hook_on_stop(tpt_p tpt) {
	LOGEV("\"e\":\"hook.stop\",\"a\":%ld", hook_tid(tpt));
	if (g_stop_gate >= 0 && tpt != g_tp->pvt) { /* scenario keeps the worker inside its stop hook (state STOPING) */
		struct timespec ts; clock_gettime(CLOCK_REALTIME, &ts); ts.tv_sec += 5;
		__sync_fetch_and_add(&g_stop_held, 1);
		sem_timedwait(&g_gate[g_stop_gate], &ts);
	}
	perturb();
}

static void user_cb(tpt_p tpt, void *udata) {
	hmsg_t *m = udata;
	tpt_p cur = tpt_get_current();
	LOGEV("\"e\":\"cb\",\"m\":%d,\"arg\":%ld,\"cur\":%ld", m->id, (long)tpt->thread_num, cur ? (long)cur->thread_num : -1L);
	perturb();
}
static void bcast_cb(tpt_p tpt, void *udata) {
	hmsg_t *m = udata;
	tpt_p cur = tpt_get_current();
	LOGEV("\"e\":\"bcb.begin\",\"m\":%d,\"arg\":%ld,\"cur\":%ld", m->id, (long)tpt->thread_num, cur ? (long)cur->thread_num : -1L);
	perturb(); if (g_perturb && (rng_next() & 3) == 0) usleep((useconds_t)(rng_next() % 300));
	LOGEV("\"e\":\"bcb.end\",\"m\":%d,\"arg\":%ld", m->id, (long)tpt->thread_num);
}
static void done_cb(tpt_p tpt, size_t sent, size_t err, void *udata) {
	hmsg_t *m = udata;
	tpt_p cur = tpt_get_current();
	LOGEV("\"e\":\"done\",\"m\":%d,\"arg\":%ld,\"cur\":%ld,\"sent\":%zu,\"err\":%zu", m->id, (long)tpt->thread_num, cur ? (long)cur->thread_num : -1L, sent, err);
	if (m->sem) sem_post(m->sem);
}
static void sent_cb(tpt_p tpt __unused, void *udata) {
	hmsg_t *m = udata;
	sem_post(m->sem);
}
static void ctl_cb(tpt_p tpt, void *udata) { /* runs an actor program on a pool thread */
	hmsg_t *m = udata;
	char name[16];
	snprintf(name, sizeof(name), "w%zu", tpt->thread_num);
	LOGEV("\"e\":\"ctl.begin\",\"m\":%d", m->id);
	run_prog(name, m->prog);
	LOGEV("\"e\":\"ctl.end\",\"m\":%d", m->id);
	m->finished = 1;
}

static tpt_p thr(int i) { return (i == (int)g_n) ? g_tp->pvt : &g_tp->threads[i]; }

static int g_msg_next_internal = 60000; /* ids for ctl / sentinel messages: slots 60000..65535, scenario ids stay below */
#define NEXT_INTERNAL_ID() (60000 + ((g_msg_next_internal++ - 60000) % 5000))
static hmsg_t *msg_get(int id, int kind) {
	hmsg_t *m = &g_msg[(id >= 60000) ? (id % MAXMSG) : (id % 60000)];
	m->id = id; m->kind = kind; m->finished = 0;
	return m;
}

static void do_quiesce(void) {
	sem_t s; sem_init(&s, 0, 0);
	for (int round = 0; round < 2; round++) {
		for (size_t i = 0; i < g_n; i++) {
			if (g_tp->threads[i].state != TP_THREAD_STATE_RUNNING) continue;
			hmsg_t *m = msg_get(NEXT_INTERNAL_ID(), K_SENT); m->sem = &s;
			int rc;
			for (int tries = 0; tries < 20000; tries++) {
				rc = tpt_msg_send(&g_tp->threads[i], NULL, 0, sent_cb, m);
				if (rc != EAGAIN) break;
				usleep(100);
			}
			if (rc == 0) {
				struct timespec ts; clock_gettime(CLOCK_REALTIME, &ts); ts.tv_sec += 10;
				if (sem_timedwait(&s, &ts) != 0) LOGEV("\"e\":\"Hang\",\"where\":\"quiesce\",\"thr\":%zu", i);
			}
		}
	}
	sem_destroy(&s);
}

/* ---- event registrations (C06): objects u = 0..MAXEVO-1 ---- */
#define MAXEVO 32
typedef struct { tp_udata_t ud; int id; int rfd, wfd; int kind; volatile int count; int beh; int beh_k; } evo_t;
static evo_t g_evo[MAXEVO];
enum { EB_NONE = 0, EB_DRAIN = 1, EB_DISABLE = 2, EB_DEL = 3, EB_ENABLE_AGAIN = 4, EB_DEL_BOTH = 5 /* delete self and partner beh_k */ };
static void ev_cb(tp_event_p ev, tp_udata_p ud) {
	evo_t *o = (evo_t *)ud;
	tpt_p cur = tpt_get_current();
	int cnt = ++o->count;
	LOGEV("\"e\":\"evcb\",\"u\":%d,\"ev\":%u,\"fl\":%u,\"cur\":%ld,\"cnt\":%d", o->id, (unsigned)ev->event, (unsigned)ev->flags, cur ? (long)cur->thread_num : -1L, cnt);
	if (o->beh == EB_DRAIN) { char b[256]; while (__real_read(o->rfd, b, sizeof(b)) > 0) ; LOGEV("\"e\":\"drained\",\"u\":%d", o->id); }
	if (o->beh == EB_DEL_BOTH) { /* from the owning thread: delete this registration and the partner's */
		evo_t *pair[2] = { o, &g_evo[o->beh_k] };
		for (int k = 0; k < 2; k++) {
			LOGEV("\"e\":\"call.ev\",\"u\":%d,\"op\":1,\"ev\":%u,\"fl\":0,\"ff\":0,\"thr\":%ld", pair[k]->id, (unsigned)ev->event, cur ? (long)cur->thread_num : -1L);
			int rc = tpt_ev_del_args1(ev->event, &pair[k]->ud);
			LOGEV("\"e\":\"ret.ev\",\"u\":%d,\"rc\":%d,\"tpd\":0", pair[k]->id, rc);
		}
	} else if (o->beh_k > 0 && cnt >= o->beh_k) {
		if (o->beh == EB_DISABLE) {
			LOGEV("\"e\":\"call.ev\",\"u\":%d,\"op\":3,\"ev\":%u,\"fl\":0,\"ff\":0,\"thr\":%ld", o->id, (unsigned)ev->event, cur ? (long)cur->thread_num : -1L);
			int rc = tpt_ev_enable_args1(0, ev->event, ud);
			LOGEV("\"e\":\"ret.ev\",\"u\":%d,\"rc\":%d,\"tpd\":0", o->id, rc);
		} else if (o->beh == EB_DEL) {
			LOGEV("\"e\":\"call.ev\",\"u\":%d,\"op\":1,\"ev\":%u,\"fl\":0,\"ff\":0,\"thr\":%ld", o->id, (unsigned)ev->event, cur ? (long)cur->thread_num : -1L);
			int rc = tpt_ev_del_args1(ev->event, ud);
			LOGEV("\"e\":\"ret.ev\",\"u\":%d,\"rc\":%d,\"tpd\":0", o->id, rc);
		}
	}
	perturb();
}
static int ev_ops(const char *op, const char *args) {
	int u = 0, a = 0, b = 0, c = 0; unsigned long long dd = 0; unsigned ff = 0;
	if (!strcmp(op, "evnew")) { /* evnew u kind(0 pipe-read,1 pipe-write,2 timer,3 socketpair-read) beh beh_k */
		int kind = 0, beh = 0, bk = 0, kmin = 0;
		sscanf(args, "%d %d %d %d %d", &u, &kind, &beh, &bk, &kmin);
		evo_t *o = &g_evo[u]; memset(o, 0, sizeof(*o));
		o->id = u; o->kind = kind; o->beh = beh; o->beh_k = bk; o->rfd = o->wfd = -1;
		o->ud.cb_func = ev_cb;
		if (kind == 0 || kind == 1) {
			int fds[2]; if (pipe(fds) != 0) abort();
			fcntl(fds[0], F_SETFL, O_NONBLOCK); fcntl(fds[1], F_SETFL, O_NONBLOCK);
			o->rfd = fds[0]; o->wfd = fds[1];
			o->ud.ident = (uintptr_t)((kind == 0) ? fds[0] : fds[1]);
		} else if (kind == 3) {
			int fds[2]; if (socketpair(AF_UNIX, SOCK_STREAM, 0, fds) != 0) abort();
			fcntl(fds[0], F_SETFL, O_NONBLOCK);
			o->rfd = fds[0]; o->wfd = fds[1]; o->ud.ident = (uintptr_t)fds[0];
		} else {
			o->ud.ident = (uintptr_t)(1000 + u);
		}
		LOGEV("\"e\":\"evnew\",\"u\":%d,\"kind\":%d,\"k\":%d", u, kind, kmin);
		return 1;
	}
	if (!strcmp(op, "evadd") || !strcmp(op, "even") || !strcmp(op, "evdis") || !strcmp(op, "evdel")) {
		/* ev<op> u thr event flags fflags data */
		sscanf(args, "%d %d %d %d %u %llu", &u, &a, &b, &c, &ff, &dd);
		evo_t *o = &g_evo[u];
		int opn = !strcmp(op, "evadd") ? 0 : !strcmp(op, "evdel") ? 1 : !strcmp(op, "even") ? 2 : 3;
		LOGEV("\"e\":\"call.ev\",\"u\":%d,\"op\":%d,\"ev\":%d,\"fl\":%d,\"ff\":%u,\"thr\":%d", u, opn, b, c, ff, a);
		int rc;
		if (opn == 0) rc = tpt_ev_add_args(thr(a), (uint16_t)b, (uint16_t)c, ff, dd, &o->ud);
		else if (opn == 1) rc = tpt_ev_del_args1((uint16_t)b, &o->ud);
		else rc = tpt_ev_enable_args((opn == 2), (uint16_t)b, (uint16_t)c, ff, dd, &o->ud);
		LOGEV("\"e\":\"ret.ev\",\"u\":%d,\"rc\":%d,\"tpd\":%d", u, rc, (o->ud.tpdata != 0));
		return 1;
	}
	if (!strcmp(op, "mkready")) { sscanf(args, "%d", &u); LOGEV("\"e\":\"mkready\",\"u\":%d", u); (void)!__real_write(g_evo[u].wfd, "x", 1); return 1; }
	if (!strcmp(op, "drain")) { sscanf(args, "%d", &u); char bb[256]; while (__real_read(g_evo[u].rfd, bb, sizeof(bb)) > 0) ; LOGEV("\"e\":\"drained\",\"u\":%d", u); return 1; }
	if (!strcmp(op, "peershut")) { sscanf(args, "%d", &u); LOGEV("\"e\":\"peerclose\",\"u\":%d", u); shutdown(g_evo[u].wfd, SHUT_WR); return 1; } /* half close: the peer sent FIN, the descriptor stays open */
	if (!strcmp(op, "peerclose")) { sscanf(args, "%d", &u); LOGEV("\"e\":\"peerclose\",\"u\":%d", u); __real_close(g_evo[u].wfd); g_evo[u].wfd = -1; return 1; }
	if (!strcmp(op, "evreopen")) { /* close the pipe WITHOUT deleting the registration, open a new one: the descriptor numbers are reused, tp_udata keeps its state */
		sscanf(args, "%d", &u); evo_t *o = &g_evo[u];
		/* the registered end goes first: closing it drops it from epoll before the other end can raise HUP/ERR on it */
		if (o->kind == 0) { __real_close(o->rfd); __real_close(o->wfd); } else { __real_close(o->wfd); __real_close(o->rfd); }
		int fds[2]; if (pipe(fds) != 0) abort();
		fcntl(fds[0], F_SETFL, O_NONBLOCK); fcntl(fds[1], F_SETFL, O_NONBLOCK);
		o->rfd = fds[0]; o->wfd = fds[1]; o->ud.ident = (uintptr_t)((o->kind == 0) ? fds[0] : fds[1]);
		LOGEV("\"e\":\"evreopen\",\"u\":%d", u);
		return 1;
	}
	if (!strcmp(op, "fillpipe")) { /* make the write end unwritable */
		sscanf(args, "%d", &u); char z[4096]; memset(z, 0, sizeof(z));
		while (__real_write(g_evo[u].wfd, z, sizeof(z)) > 0) ;
		while (__real_write(g_evo[u].wfd, z, 1) > 0) ;
		LOGEV("\"e\":\"mkready\",\"u\":%d", u); /* environment change, same class as mkready/drained for the specification */
		return 1;
	}
	if (!strcmp(op, "readerclose")) { sscanf(args, "%d", &u); LOGEV("\"e\":\"readerclose\",\"u\":%d", u); __real_close(g_evo[u].rfd); g_evo[u].rfd = -1; return 1; }
	if (!strcmp(op, "evfree")) { sscanf(args, "%d", &u); if (g_evo[u].rfd >= 0) __real_close(g_evo[u].rfd); if (g_evo[u].wfd >= 0) __real_close(g_evo[u].wfd); g_evo[u].rfd = g_evo[u].wfd = -1; return 1; }
	if (!strcmp(op, "evwait")) { /* evwait u k ms: wait (bounded) until k callbacks were seen - liveness is not a race */
		sscanf(args, "%d %d %d", &u, &a, &b);
		for (int i = 0; i < b * 10 && g_evo[u].count < a; i++) usleep(100);
		return 1;
	}
	if (!strcmp(op, "evmin")) { sscanf(args, "%d %d", &u, &a); LOGEV("\"e\":\"evmin\",\"u\":%d,\"k\":%d", u, a); return 1; } /* scenario: from now on at least k callbacks are owed */
	if (!strcmp(op, "evcount")) { sscanf(args, "%d", &u); LOGEV("\"e\":\"evcount\",\"u\":%d,\"cnt\":%d", u, g_evo[u].count); return 1; }
	if (!strcmp(op, "logepctl")) { sscanf(args, "%d", &g_log_epctl); return 1; }
	(void)c;
	return 0;
}

static void exec_line(const char *actor, char *line) {
	char op[32]; int a = 0, b = 0, c = 0, d = 0; char s1[64] = "";
	int nf = sscanf(line, "%31s", op);
	if (nf < 1 || op[0] == '#') return;
	const char *args = line + strlen(op);
	if (ev_ops(op, args)) return;
	if (!strcmp(op, "pool")) { /* pool N pipesz */
		sscanf(args, "%d %d", &a, &b);
		tp_settings_t s; tp_settings_def(&s);
		s.flags = 0; s.threads_max = (size_t)a; s.tpt_on_start = hook_on_start; s.tpt_on_stop = hook_on_stop;
		int req = a;
		if (a == 0) a = (int)sysconf(_SC_NPROCESSORS_CONF); /* "pool 0": the documented default, one thread per CPU; the count the scenario expects comes from here, not from the library */
		g_n = (size_t)a; g_pipe_sz = b; g_npipe = 0; g_tp = NULL;
		memset((void *)g_blocked, 0, sizeof(g_blocked));
		memset(g_sh_head, 0, sizeof(g_sh_head)); memset(g_sh_len, 0, sizeof(g_sh_len));
		pthread_mutex_lock(&g_led_mu); g_nmem = g_nfd = g_nthr = 0; g_track = 1; pthread_mutex_unlock(&g_led_mu);
		LOGEV("\"e\":\"call.create\",\"nthr\":%d,\"req\":%d", a, req);
		tp_p tp = NULL;
		/* g_tp must be known while tp_create runs (hooks map thread pointers): peek via create.* hooks is
		 * not possible before calloc returns, so thread ids inside tp_create are logged as "other". */
		int rc = tp_create(&s, &tp);
		g_tp = tp;
		pthread_mutex_lock(&g_led_mu); int nm = g_nmem, nfd = g_nfd, nt = g_nthr; pthread_mutex_unlock(&g_led_mu);
		LOGEV("\"e\":\"ret.create\",\"rc\":%d,\"mem\":%d,\"fds\":%d,\"thr\":%d,\"nmax\":%d,\"want\":%d", rc, nm, nfd, nt, (rc == 0) ? (int)tp_thread_count_max_get(tp) : -1, a);
		if (rc != 0) { g_track = 0; }
	} else if (!strcmp(op, "start")) { /* start [skip_first] */
		sscanf(args, "%d", &a);
		LOGEV("\"e\":\"call.threads_create\",\"skip\":%d", a);
		int rc = tp_threads_create(g_tp, a);
		LOGEV("\"e\":\"ret.threads_create\",\"rc\":%d", rc);
	} else if (!strcmp(op, "waitrun")) { /* wait until every created worker reports RUNNING (bounded) */
		for (int t = 0; t < 20000; t++) {
			size_t ok = 0;
			for (size_t i = 0; i < g_n; i++) if (g_tp->threads[i].state == TP_THREAD_STATE_RUNNING || g_tp->threads[i].state == TP_THREAD_STATE_STOP) ok++;
			if (ok == g_n) break;
			usleep(100);
		}
		LOGEV("\"e\":\"waitrun\"");
	} else if (!strcmp(op, "send")) { /* send dst flags id */
		sscanf(args, "%d %d %d", &a, &b, &c);
		hmsg_t *m = msg_get(c, K_USER);
		LOGEV("\"e\":\"call.send\",\"m\":%d,\"d\":%d,\"f\":%d", c, a, b);
		int rc = tpt_msg_send(thr(a), NULL, (uint32_t)b, user_cb, m);
		LOGEV("\"e\":\"ret.send\",\"m\":%d,\"rc\":%d", c, rc);
	} else if (!strcmp(op, "bsend")) { /* bsend flags id */
		sscanf(args, "%d %d", &a, &b);
		hmsg_t *m = msg_get(b, K_BCAST);
		size_t sent = 777, err = 777;
		LOGEV("\"e\":\"call.bsend\",\"m\":%d,\"f\":%d,\"nthr\":%zu", b, a, g_n);
		int rc = tpt_msg_bsend_ex(g_tp, NULL, (uint32_t)a, bcast_cb, m, &sent, &err);
		LOGEV("\"e\":\"ret.bsend\",\"m\":%d,\"rc\":%d,\"sent\":%zu,\"err\":%zu", b, rc, sent, err);
	} else if (!strcmp(op, "cbsend")) { /* cbsend flags id [gate to post when done] */
		c = -1; sscanf(args, "%d %d %d", &a, &b, &c);
		hmsg_t *m = msg_get(b, K_BCAST);
		m->sem = (c >= 0) ? &g_gate[c] : NULL;
		LOGEV("\"e\":\"call.cbsend\",\"m\":%d,\"f\":%d,\"nthr\":%zu", b, a, g_n);
		int rc = tpt_msg_cbsend(g_tp, NULL, (uint32_t)a, bcast_cb, m, done_cb);
		LOGEV("\"e\":\"ret.cbsend\",\"m\":%d,\"rc\":%d", b, rc);
		if (rc != 0 && m->sem) sem_post(m->sem);
	} else if (!strcmp(op, "block")) { sscanf(args, "%d", &a); LOGEV("\"e\":\"block\",\"g\":%d", a); __atomic_add_fetch(&g_blocked[a], 1, __ATOMIC_SEQ_CST); sem_wait(&g_gate[a]); LOGEV("\"e\":\"unblock\",\"g\":%d", a);
	} else if (!strcmp(op, "waitblocked")) { /* waitblocked g k: until k actors reached `block g` (bounded; counted since the pool was created) */
		sscanf(args, "%d %d", &a, &b);
		for (int t = 0; t < 100000 && __atomic_load_n(&g_blocked[a], __ATOMIC_SEQ_CST) < b; t++) usleep(100);
		if (__atomic_load_n(&g_blocked[a], __ATOMIC_SEQ_CST) < b) LOGEV("\"e\":\"Hang\",\"where\":\"waitblocked\",\"g\":%d", a);
	} else if (!strcmp(op, "open")) { sscanf(args, "%d", &a); sem_post(&g_gate[a]);
	} else if (!strcmp(op, "gatewait")) { /* wait on a gate with timeout (used for done callbacks) */
		sscanf(args, "%d", &a);
		struct timespec ts; clock_gettime(CLOCK_REALTIME, &ts); ts.tv_sec += 10;
		if (sem_timedwait(&g_gate[a], &ts) != 0) LOGEV("\"e\":\"Hang\",\"where\":\"gatewait\",\"g\":%d", a);
	} else if (!strcmp(op, "stophold")) { sscanf(args, "%d", &a); g_stop_gate = a; g_stop_held = 0;
	} else if (!strcmp(op, "waitheld")) { /* until k workers sit in their stop hook (bounded) */
		sscanf(args, "%d", &a);
		for (int t = 0; t < 50000 && g_stop_held < a; t++) usleep(100);
		LOGEV("\"e\":\"waitheld\",\"k\":%d", g_stop_held);
	} else if (!strcmp(op, "closefd0")) { __real_close(0); LOGEV("\"e\":\"closefd0\"");
	} else if (!strcmp(op, "openfd0")) { int fd0 = open("/dev/null", O_RDONLY); LOGEV("\"e\":\"openfd0\",\"fd\":%d", fd0);
	} else if (!strcmp(op, "sleep")) { sscanf(args, "%d", &a); usleep((useconds_t)a);
	} else if (!strcmp(op, "quiesce")) { do_quiesce(); LOGEV("\"e\":\"quiesce\"");
	} else if (!strcmp(op, "shutdown")) {
		LOGEV("\"e\":\"call.shutdown\""); tp_shutdown(g_tp); LOGEV("\"e\":\"ret.shutdown\"");
	} else if (!strcmp(op, "shutdown_wait")) {
		LOGEV("\"e\":\"call.shutdown_wait\""); int rc = tp_shutdown_wait(g_tp); LOGEV("\"e\":\"ret.shutdown_wait\",\"rc\":%d", rc);
	} else if (!strcmp(op, "destroy")) {
		LOGEV("\"e\":\"call.destroy\"");
		int rc = tp_destroy(g_tp);
		pthread_mutex_lock(&g_led_mu); int nm = g_nmem, nfd = g_nfd, nt = g_nthr; if (rc == 0) g_track = 0; pthread_mutex_unlock(&g_led_mu);
		LOGEV("\"e\":\"ret.destroy\",\"rc\":%d,\"mem\":%d,\"fds\":%d,\"thr\":%d", rc, nm, nfd, nt);
		if (rc == 0) { g_tp = NULL; g_npipe = 0; }
	} else if (!strcmp(op, "attach_first")) {
		int my_tid = tid_now();
		LOGEV("\"e\":\"call.attach_first\"");
		int rc = tp_thread_attach_first(g_tp);
		vh_tid = my_tid; /* the caller is itself again, whatever the library's TLS says */
		LOGEV("\"e\":\"ret.attach_first\",\"rc\":%d", rc);
	} else if (!strcmp(op, "fault")) { /* fault kind k errno */
		sscanf(args, "%63s %d %d", s1, &a, &b);
		static char kinds[8][32];
		pthread_mutex_lock(&g_led_mu);
		if (g_nfault < 8) { strcpy(kinds[g_nfault], s1); g_fault[g_nfault].kind = kinds[g_nfault]; g_fault[g_nfault].k = a; g_fault[g_nfault].err = b; g_nfault++; }
		pthread_mutex_unlock(&g_led_mu);
	} else if (!strcmp(op, "wfault")) { /* wfault dst k errno : k-th write to dst's pipe from now fails */
		sscanf(args, "%d %d %d", &a, &b, &c);
		for (int i = 0; i < g_npipe; i++) if (g_pipe[i].owner == a) { pthread_mutex_lock(&g_pipe[i].mu); g_pipe[i].wfault_k = b; g_pipe[i].wfault_err = c; pthread_mutex_unlock(&g_pipe[i].mu); }
	} else if (!strcmp(op, "delay")) { /* delay label vmatch tmatch us count */
		if (g_ndelay < MAXDELAY) {
			sscanf(args, "%31s %ld %d %d %d", g_delay[g_ndelay].label, &g_delay[g_ndelay].vmatch, &g_delay[g_ndelay].tmatch, &g_delay[g_ndelay].us, &g_delay[g_ndelay].count);
			g_ndelay++;
		}
	} else if (!strcmp(op, "nodelay")) { g_ndelay = 0;
	} else if (!strcmp(op, "perturb")) { sscanf(args, "%d", &a); g_perturb = a;
	} else if (!strcmp(op, "watchdog")) { sscanf(args, "%d", &a); g_watchdog_s = a; alarm((unsigned)a);
	} else if (!strcmp(op, "reset")) {
		pthread_mutex_lock(&g_led_mu); g_nfault = 0; pthread_mutex_unlock(&g_led_mu);
		g_ndelay = 0; g_next_inst = 1; g_nobj = 0; g_stop_gate = -1;
		LOGEV("\"e\":\"Reset\"");
	} else {
		LOGEV("\"e\":\"BadOp\",\"op\":\"%s\"", op);
	}
	(void)d; (void)actor;
}

static void run_prog(const char *actor, char *prog) {
	char *save = NULL;
	char *copy = strdup(prog);
	for (char *ln = strtok_r(copy, "\n", &save); ln; ln = strtok_r(NULL, "\n", &save)) exec_line(actor, ln);
	__real_free(copy);
}

/* scenario file: lines "<actor> <op> ...". The main actor "m" runs sequentially; "spawn eK" / "spawn wI"
 * starts that actor's collected program concurrently; "join eK|wI" waits for it. */
#define MAXACT 64
static struct { char name[8]; char *prog; size_t len; pthread_t thr; hmsg_t *ctl; int started; } g_act[MAXACT];
static int g_nact;
static int act_find(const char *n) {
	for (int i = 0; i < g_nact; i++) if (!strcmp(g_act[i].name, n)) return i;
	strncpy(g_act[g_nact].name, n, 7); g_act[g_nact].prog = __real_calloc(1, 1 << 16); g_act[g_nact].len = 0; g_act[g_nact].started = 0;
	return g_nact++;
}
static void *ext_main(void *arg) {
	int i = (int)(intptr_t)arg;
	vh_tid = 100 + atoi(g_act[i].name + 1);
	run_prog(g_act[i].name, g_act[i].prog);
	return NULL;
}
static void on_crash(int sig) {
	/* a crash inside the library (e.g. a pool thread touching freed pool memory) is an observation */
	g_log_len += (size_t)snprintf(g_log + g_log_len, 128, "{\"n\":%ld,\"t\":%d,\"e\":\"Crash\",\"sig\":%d}\n", ++g_seq, vh_tid, sig);
	flush_log();
	_exit(4);
}
static void on_alarm(int sig) {
	(void)sig;
	/* not async-signal-safe in general; acceptable for a watchdog that terminates the process */
	g_log_len += (size_t)snprintf(g_log + g_log_len, 128, "{\"n\":%ld,\"t\":-5,\"e\":\"Hang\",\"where\":\"watchdog\"}\n", ++g_seq);
	flush_log();
	_exit(3);
}

int main(int argc, char **argv) {
	if (argc < 3) { fprintf(stderr, "usage: tp_drv scenario trace [seed]\n"); return 2; }
	g_out_path = argv[2];
	if (argc > 3) g_seed = strtoull(argv[3], NULL, 10);
	vh_tid = 100;
	for (int i = 0; i < MAXGATE; i++) sem_init(&g_gate[i], 0, 0);
	if (__sanitizer_set_death_callback) __sanitizer_set_death_callback(flush_log);
	signal(SIGALRM, on_alarm);
	signal(SIGPIPE, SIG_IGN);
	signal(SIGSEGV, on_crash); signal(SIGBUS, on_crash);
	g_log_cap = 1u << 22; g_log = malloc(g_log_cap);
	g_evo_base = g_evo; g_evo_bytes = sizeof(g_evo); g_evo_stride = sizeof(g_evo[0]);
	FILE *f = fopen(argv[1], "r");
	if (!f) { perror("scenario"); return 2; }
	char line[512];
	while (fgets(line, sizeof(line), f)) {
		char actor[16], op[32];
		if (sscanf(line, "%15s %31s", actor, op) < 2 || actor[0] == '#') continue;
		char *rest = strstr(line, op);
		if (strcmp(actor, "m") != 0) { /* collect into the actor's program */
			int i = act_find(actor);
			g_act[i].len += (size_t)snprintf(g_act[i].prog + g_act[i].len, 512, "%s", rest);
			continue;
		}
		alarm((unsigned)g_watchdog_s);
		if (!strcmp(op, "spawn")) {
			char nm[16]; sscanf(rest + 5, "%15s", nm);
			int i = act_find(nm);
			g_act[i].started = 1;
			if (nm[0] == 'e') {
				__real_pthread_create(&g_act[i].thr, NULL, ext_main, (void *)(intptr_t)i);
			} else { /* worker actor: control message */
				hmsg_t *m = msg_get(NEXT_INTERNAL_ID(), K_CTL);
				m->prog = g_act[i].prog; g_act[i].ctl = m;
				int w = atoi(nm + 1);
				LOGEV("\"e\":\"call.ctl\",\"m\":%d,\"d\":%d", m->id, w);
				int rc = tpt_msg_send(&g_tp->threads[w], NULL, 0, ctl_cb, m);
				LOGEV("\"e\":\"ret.ctl\",\"m\":%d,\"rc\":%d", m->id, rc);
				for (int tries = 0; rc != 0 && rc != EHOSTDOWN && tries < 50; tries++) { /* an armed fault or a full pipe hit the control message */
					usleep(200);
					m = msg_get(NEXT_INTERNAL_ID(), K_CTL); m->prog = g_act[i].prog; g_act[i].ctl = m;
					LOGEV("\"e\":\"call.ctl\",\"m\":%d,\"d\":%d", m->id, w);
					rc = tpt_msg_send(&g_tp->threads[w], NULL, 0, ctl_cb, m);
					LOGEV("\"e\":\"ret.ctl\",\"m\":%d,\"rc\":%d", m->id, rc);
				}
				if (rc != 0) m->finished = 1;
			}
		} else if (!strcmp(op, "join")) {
			char nm[16]; sscanf(rest + 4, "%15s", nm);
			int i = act_find(nm);
			if (g_act[i].started) {
				if (nm[0] == 'e') __real_pthread_join(g_act[i].thr, NULL);
				else { for (int t = 0; t < 200000 && !g_act[i].ctl->finished; t++) usleep(100); if (!g_act[i].ctl->finished) LOGEV("\"e\":\"Hang\",\"where\":\"join\""); }
				g_act[i].started = 0; g_act[i].len = 0; g_act[i].prog[0] = 0;
			}
		} else {
			exec_line("m", rest);
		}
	}
	fclose(f);
	alarm(0);
	flush_log();
	return 0;
}
