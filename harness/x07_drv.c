/* X07 - UPnP SSDP announcer/responder conformance driver (growth task): the real src/proto/upnp_ssdp.c on the real
 * thread pool (one worker thread) with a FAKE network under it - nothing here depends on the network configuration of
 * the machine (the sandbox has loopback only).
 *
 * Unity build: the library sources are #included unchanged so that the private structs are visible (the timer inside
 * a device, the two receiver tasks).  Link with
 *   -Wl,--wrap=socket,--wrap=bind,--wrap=getsockname,--wrap=setsockopt,--wrap=recvmsg,--wrap=sendto,--wrap=close,
 *       --wrap=if_nametoindex,--wrap=timerfd_create,--wrap=timerfd_settime,--wrap=calloc,--wrap=malloc,
 *       --wrap=realloc,--wrap=reallocarray,--wrap=free
 *   socket         a UDP socket asked for by the object becomes one end of an AF_UNIX datagram socketpair (epoll works
 *                  on it); the other end is the "wire" the scenario injects datagrams into.  Armed failure: EMFILE.
 *   bind/getsockname/setsockopt   recorded per fake socket (port, family, IP_PKTINFO, *_MULTICAST_IF, *_MULTICAST_LOOP);
 *                  MCAST_JOIN_GROUP / MCAST_LEAVE_GROUP are logged as "opt" events, armed failure: ENODEV.
 *   recvmsg        delivers the next injected datagram with the source address and the receiving interface index
 *                  (IP_PKTINFO / IPV6_PKTINFO control message) the scenario chose; logs "rx".
 *   sendto         never transmits: decodes the datagram independently (start line, every header field) and logs "tx"
 *                  with the socket's current multicast interface and the destination; armed failure: ENETUNREACH.
 *   close          ledger of fake sockets ("close" event) and of timer descriptors ("disarm" event).
 *   if_nametoindex the fake interface table lan0=2 lan1=3 wan0=5.
 *   timerfd_*      ledger of the timers the object arms ("arm" event with the requested period); the real timer is set
 *                  far in the future and is fired by the scenario ("fire"): one-shot 1 ns expiry, delivered by epoll to
 *                  the pool thread, which calls upnp_ssdp_timer_cb through its normal path ("timer" from the loop.cb hook).
 *   calloc/...     ledger of the blocks allocated while library code of the object runs; armed failure of the k-th one.
 * Everything that touches the object runs on the pool thread (thread message + semaphore, or the pool's own event
 * dispatch), so the order of the log lines IS the execution order.  Wall-clock values never reach the log.
 *
 * usage: x07_drv <scenario-file> <trace-out.ndjson>
 */
#include <stddef.h>   /* the builtin offsetof (include/al/os.h falls back to the null-pointer idiom, which UBSan reports) */
#include <semaphore.h>
#include <stdarg.h>
#include <poll.h>
#include <arpa/inet.h>
#include <sys/timerfd.h>
#include <sys/un.h>
#include "threadpool/threadpool.c"
#include "threadpool/threadpool_msg_sys.c"
#include "threadpool/threadpool_task.c"
#include "net/socket.c"
#include "net/socket_address.c"
#include "net/socket_options.c"
#include "net/utils.c"
#include "utils/sys.c"
#include "utils/info.c"
#include "proto/http.c"
#include "proto/upnp_ssdp.c"

int __real_socket(int, int, int);
int __real_bind(int, const struct sockaddr *, socklen_t);
int __real_getsockname(int, struct sockaddr *, socklen_t *);
int __real_setsockopt(int, int, int, const void *, socklen_t);
ssize_t __real_recvmsg(int, struct msghdr *, int);
ssize_t __real_sendto(int, const void *, size_t, int, const struct sockaddr *, socklen_t);
int __real_close(int);
unsigned int __real_if_nametoindex(const char *);
int __real_timerfd_create(int, int);
int __real_timerfd_settime(int, int, const struct itimerspec *, struct itimerspec *);
void *__real_calloc(size_t, size_t);
void *__real_malloc(size_t);
void *__real_realloc(void *, size_t);
void *__real_reallocarray(void *, size_t, size_t);
void __real_free(void *);

/* ------------------------------------------------------------------ log */
static pthread_mutex_t g_log_mu = PTHREAD_MUTEX_INITIALIZER;
static pthread_cond_t g_log_cv = PTHREAD_COND_INITIALIZER;
static char *g_log; static size_t g_log_len, g_log_cap;
static long g_seq;
static const char *g_out_path;
static volatile int g_flushed;

static void flush_log(void) {
	if (!g_out_path) return;
	FILE *f = fopen(g_out_path, "w");
	if (!f) return;
	fwrite(g_log, 1, g_log_len, f);
	fclose(f);
}
static void logf_locked(const char *fmt, ...) {
	if (g_log_len + 16384 > g_log_cap) {
		g_log_cap = g_log_cap ? g_log_cap * 2 : (1u << 20);
		g_log = __real_realloc(g_log, g_log_cap);
		if (!g_log) abort();
	}
	int n = snprintf(g_log + g_log_len, 64, "{\"n\":%ld,", ++g_seq);
	g_log_len += (size_t)n;
	va_list ap; va_start(ap, fmt);
	n = vsnprintf(g_log + g_log_len, 15000, fmt, ap);
	va_end(ap);
	if (n > 14999) n = 14999;
	g_log_len += (size_t)n;
	g_log[g_log_len++] = '}'; g_log[g_log_len++] = '\n';
}
#define LOGEV(...) do { pthread_mutex_lock(&g_log_mu); logf_locked(__VA_ARGS__); pthread_cond_broadcast(&g_log_cv); pthread_mutex_unlock(&g_log_mu); } while (0)

void __sanitizer_set_death_callback(void (*)(void)) __attribute__((weak));
static void on_death(void) {
	if (g_flushed) return;
	g_flushed = 1;
	int locked = (0 == pthread_mutex_trylock(&g_log_mu));
	logf_locked("\"e\":\"crash\"");
	flush_log();
	if (locked) pthread_mutex_unlock(&g_log_mu);
}
static void on_signal(int sig) {
	if (!g_flushed) {
		g_flushed = 1;
		int locked = (0 == pthread_mutex_trylock(&g_log_mu));
		logf_locked("\"e\":\"%s\",\"sig\":%d", (sig == SIGALRM) ? "hang" : "crash", sig);
		flush_log();
		if (locked) pthread_mutex_unlock(&g_log_mu);
	}
	fprintf(stderr, "FAULT sig=%d\n", sig);
	_exit((sig == SIGALRM) ? 98 : 99);
}
static void die(const char *m) { fprintf(stderr, "x07_drv: %s\n", m); exit(3); }

/* JSON string body (printable ASCII kept, the rest as \u00XX) */
static const char *jesc(const char *s, size_t n, char *out, size_t cap) {
	size_t o = 0;
	for (size_t i = 0; i < n && o + 8 < cap; i++) {
		unsigned char c = (unsigned char)s[i];
		if (c == '"' || c == '\\') { out[o++] = '\\'; out[o++] = (char)c; }
		else if (c < 32 || c > 126) o += (size_t)snprintf(out + o, cap - o, "\\u%04x", c);
		else out[o++] = (char)c;
	}
	out[o] = 0;
	return out;
}

/* ------------------------------------------------------------------ world */
#define MAXDEV 8
#define MAXFS 8
#define MAXTF 32
#define MAXMETA 64
#define MAXLIVE 4096
typedef struct { int used, fd, peer, fam, port, any, pktinfo, mloop, mcif, closed; } fsock_t;
typedef struct { int used, fd; long ms; } ftmr_t;
typedef struct { int sk, ifx; char src[32]; char shape[24]; char st[512]; } meta_t;

static tp_p g_tp; static tpt_p g_tpt0;
static upnp_ssdp_p g_ssdp; static volatile int g_alive;
static upnp_ssdp_dev_p g_dev[MAXDEV]; static void *g_dev_tmr[MAXDEV]; static int g_dev_live[MAXDEV];
static fsock_t g_fs[MAXFS];
static ftmr_t g_tf[MAXTF];
static meta_t g_meta[2][MAXMETA]; static int g_meta_h[2], g_meta_t[2];
static void *g_livep[MAXLIVE]; static int g_nlive; static long g_alloc_base;
static volatile int g_sendfail_n, g_joinfail_n, g_allocfail_n, g_sockfail_fam;
static __thread int t_ctx;           /* library code of the object is running on this thread */
static long g_n_timer, g_n_rx, g_rx_idle_at, g_rx_sent;

static fsock_t *fs_by_fd(int fd) { if (fd < 0) return NULL; for (int i = 0; i < MAXFS; i++) if (g_fs[i].used && !g_fs[i].closed && g_fs[i].fd == fd) return &g_fs[i]; return NULL; }
static fsock_t *fs_by_fam(int fam) { for (int i = 0; i < MAXFS; i++) if (g_fs[i].used && !g_fs[i].closed && g_fs[i].fam == fam) return &g_fs[i]; return NULL; }
static int n_socks(void) { int n = 0; for (int i = 0; i < MAXFS; i++) if (g_fs[i].used && !g_fs[i].closed) n++; return n; }
static int n_tmrs(void) { int n = 0; for (int i = 0; i < MAXTF; i++) if (g_tf[i].used) n++; return n; }
static ftmr_t *tf_by_fd(int fd) { for (int i = 0; i < MAXTF; i++) if (g_tf[i].used && g_tf[i].fd == fd) return &g_tf[i]; return NULL; }

/* ------------------------------------------------------------------ allocation ledger */
static pthread_mutex_t g_al_mu = PTHREAD_MUTEX_INITIALIZER;
static void al_add(void *p) {
	if (!p) return;
	pthread_mutex_lock(&g_al_mu);
	if (g_nlive >= MAXLIVE) die("allocation ledger full");
	g_livep[g_nlive++] = p;
	pthread_mutex_unlock(&g_al_mu);
}
static int al_del(void *p) {
	int hit = 0;
	if (!p) return 0;
	pthread_mutex_lock(&g_al_mu);
	for (int i = 0; i < g_nlive; i++) if (g_livep[i] == p) { g_livep[i] = g_livep[--g_nlive]; hit = 1; break; }
	pthread_mutex_unlock(&g_al_mu);
	return hit;
}
static int al_fail(void) {        /* the k-th allocation of the object's code fails */
	if (!t_ctx || g_allocfail_n <= 0) return 0;
	if (--g_allocfail_n == 0) { errno = ENOMEM; return 1; }
	return 0;
}
void *__wrap_calloc(size_t n, size_t sz) { if (al_fail()) return NULL; void *p = __real_calloc(n, sz); if (t_ctx) al_add(p); return p; }
void *__wrap_malloc(size_t sz) { if (al_fail()) return NULL; void *p = __real_malloc(sz); if (t_ctx) al_add(p); return p; }
void *__wrap_realloc(void *old, size_t sz) {
	if (al_fail()) return NULL;
	int was = al_del(old);
	void *p = __real_realloc(old, sz);
	if (p == NULL && sz != 0) { if (was) al_add(old); return NULL; }
	if (was || t_ctx) al_add(p);
	return p;
}
void *__wrap_reallocarray(void *old, size_t n, size_t sz) {
	if (al_fail()) return NULL;
	int was = al_del(old);
	void *p = __real_reallocarray(old, n, sz);
	if (p == NULL) { if (was) al_add(old); return NULL; }
	if (was || t_ctx) al_add(p);
	return p;
}
void __wrap_free(void *p) { al_del(p); __real_free(p); }
static long n_allocs(void) { pthread_mutex_lock(&g_al_mu); long n = g_nlive; pthread_mutex_unlock(&g_al_mu); return n - g_alloc_base; }

/* ------------------------------------------------------------------ fake network: descriptors */
unsigned int __wrap_if_nametoindex(const char *name) {
	if (!strcmp(name, "lan0")) return 2;
	if (!strcmp(name, "lan1")) return 3;
	if (!strcmp(name, "wan0")) return 5;
	errno = ENODEV;
	return 0;
}
int __wrap_socket(int domain, int type, int proto) {
	if (!t_ctx || (domain != AF_INET && domain != AF_INET6) || (type & 0xf) != SOCK_DGRAM)
		return __real_socket(domain, type, proto);
	int fam = (domain == AF_INET) ? 4 : 6;
	if (g_sockfail_fam == fam) { errno = EMFILE; return -1; }
	int sv[2];
	if (socketpair(AF_UNIX, SOCK_DGRAM | SOCK_NONBLOCK | SOCK_CLOEXEC, 0, sv) != 0) die("socketpair");
	int big = 1 << 20;
	__real_setsockopt(sv[1], SOL_SOCKET, SO_SNDBUF, &big, sizeof(big));
	for (int i = 0; i < MAXFS; i++) if (!g_fs[i].used) {
		memset(&g_fs[i], 0, sizeof(g_fs[i]));
		g_fs[i].used = 1; g_fs[i].fd = sv[0]; g_fs[i].peer = sv[1]; g_fs[i].fam = fam; g_fs[i].mloop = -1; g_fs[i].mcif = -1;
		return sv[0];
	}
	die("too many fake sockets");
	return -1;
}
int __wrap_bind(int fd, const struct sockaddr *sa, socklen_t sl) {
	fsock_t *s = fs_by_fd(fd);
	if (!s) return __real_bind(fd, sa, sl);
	if (sa->sa_family == AF_INET) {
		const struct sockaddr_in *a = (const struct sockaddr_in *)sa;
		s->port = ntohs(a->sin_port); s->any = (a->sin_addr.s_addr == htonl(INADDR_ANY));
	} else if (sa->sa_family == AF_INET6) {
		const struct sockaddr_in6 *a = (const struct sockaddr_in6 *)sa;
		s->port = ntohs(a->sin6_port); s->any = IN6_IS_ADDR_UNSPECIFIED(&a->sin6_addr) ? 1 : 0;
	}
	return 0;
}
int __wrap_getsockname(int fd, struct sockaddr *sa, socklen_t *sl) {
	fsock_t *s = fs_by_fd(fd);
	if (!s) return __real_getsockname(fd, sa, sl);
	if (s->fam == 4) {
		struct sockaddr_in a; memset(&a, 0, sizeof(a)); a.sin_family = AF_INET; a.sin_port = htons((uint16_t)s->port);
		memcpy(sa, &a, (*sl < sizeof(a)) ? *sl : sizeof(a)); *sl = sizeof(a);
	} else {
		struct sockaddr_in6 a; memset(&a, 0, sizeof(a)); a.sin6_family = AF_INET6; a.sin6_port = htons((uint16_t)s->port);
		memcpy(sa, &a, (*sl < sizeof(a)) ? *sl : sizeof(a)); *sl = sizeof(a);
	}
	return 0;
}
static const char *grp_name(const struct sockaddr *g, char *buf, size_t cap) {
	if (g->sa_family == AF_INET) {
		const struct sockaddr_in *a = (const struct sockaddr_in *)g;
		if (a->sin_addr.s_addr == inet_addr("239.255.255.250")) return "mc4";
		inet_ntop(AF_INET, &a->sin_addr, buf, (socklen_t)cap); return buf;
	}
	if (g->sa_family == AF_INET6) {
		const struct sockaddr_in6 *a = (const struct sockaddr_in6 *)g; struct in6_addr l, s6;
		inet_pton(AF_INET6, "ff02::c", &l); inet_pton(AF_INET6, "ff05::c", &s6);
		if (!memcmp(&a->sin6_addr, &l, 16)) return "link";
		if (!memcmp(&a->sin6_addr, &s6, 16)) return "site";
		inet_ntop(AF_INET6, &a->sin6_addr, buf, (socklen_t)cap); return buf;
	}
	return "?";
}
int __wrap_setsockopt(int fd, int level, int name, const void *val, socklen_t len) {
	fsock_t *s = fs_by_fd(fd);
	if (!s) return __real_setsockopt(fd, level, name, val, len);
	int iv = 0; if (val && len >= sizeof(int)) memcpy(&iv, val, sizeof(int));
	if ((level == IPPROTO_IP || level == IPPROTO_IPV6) && (name == MCAST_JOIN_GROUP || name == MCAST_LEAVE_GROUP) && len >= sizeof(struct group_req)) {
		const struct group_req *gr = val; char b[64]; int fail = 0;
		if (name == MCAST_JOIN_GROUP && g_joinfail_n > 0 && --g_joinfail_n == 0) fail = 1;
		LOGEV("\"e\":\"opt\",\"sk\":%d,\"o\":\"%s\",\"ifx\":%u,\"grp\":\"%s\",\"fail\":%d", s->fam,
		    (name == MCAST_JOIN_GROUP) ? "join" : "leave", gr->gr_interface, grp_name((const struct sockaddr *)&gr->gr_group, b, sizeof(b)), fail);
		if (fail) { errno = ENODEV; return -1; }
		return 0;
	}
	if (level == IPPROTO_IP) {
		if (name == IP_PKTINFO) s->pktinfo = iv;
		else if (name == IP_MULTICAST_LOOP) s->mloop = iv;
		else if (name == IP_MULTICAST_IF && len >= sizeof(struct ip_mreqn)) s->mcif = ((const struct ip_mreqn *)val)->imr_ifindex;
	} else if (level == IPPROTO_IPV6) {
		if (name == IPV6_RECVPKTINFO) s->pktinfo = iv;
		else if (name == IPV6_MULTICAST_LOOP) s->mloop = iv;
		else if (name == IPV6_MULTICAST_IF) s->mcif = iv;
	}
	return 0;
}
int __wrap_close(int fd) {
	fsock_t *s = fs_by_fd(fd);
	if (s) {
		s->closed = 1;
		LOGEV("\"e\":\"close\",\"sk\":%d", s->fam);
		__real_close(s->peer);
		return __real_close(fd);
	}
	ftmr_t *t = tf_by_fd(fd);
	if (t) { t->used = 0; LOGEV("\"e\":\"disarm\""); }
	return __real_close(fd);
}
int __wrap_timerfd_create(int clk, int flags) {
	int fd = __real_timerfd_create(clk, flags);
	if (fd >= 0 && t_ctx) {
		for (int i = 0; i < MAXTF; i++) if (!g_tf[i].used) { g_tf[i].used = 1; g_tf[i].fd = fd; g_tf[i].ms = -1; return fd; }
		die("too many timers");
	}
	return fd;
}
int __wrap_timerfd_settime(int fd, int flags, const struct itimerspec *nv, struct itimerspec *ov) {
	ftmr_t *t = tf_by_fd(fd);
	if (!t || !t_ctx) return __real_timerfd_settime(fd, flags, nv, ov);
	long ms = (long)nv->it_value.tv_sec * 1000 + nv->it_value.tv_nsec / 1000000;
	long per = (long)nv->it_interval.tv_sec * 1000 + nv->it_interval.tv_nsec / 1000000;
	t->ms = ms;
	LOGEV("\"e\":\"arm\",\"ms\":%ld,\"per\":%ld", ms, per);
	struct itimerspec far; memset(&far, 0, sizeof(far)); far.it_value.tv_sec = 360000;   /* never by itself */
	return __real_timerfd_settime(fd, 0, &far, ov);
}

/* ------------------------------------------------------------------ fake network: datagrams */
static int src_addr(const char *lab, int ifx, struct sockaddr_storage *ss, socklen_t *sl) {
	int k = atoi(lab + 3);
	memset(ss, 0, sizeof(*ss));
	if (!strncmp(lab, "u4:", 3)) {
		struct sockaddr_in *a = (struct sockaddr_in *)ss; a->sin_family = AF_INET; a->sin_port = htons((uint16_t)(5000 + k));
		a->sin_addr.s_addr = htonl(0xC0000200u + 10u + (uint32_t)k); *sl = sizeof(*a); return 0;
	}
	struct sockaddr_in6 *a = (struct sockaddr_in6 *)ss; a->sin6_family = AF_INET6; a->sin6_port = htons((uint16_t)(5000 + k));
	*sl = sizeof(*a);
	if (!strncmp(lab, "u6:", 3)) { inet_pton(AF_INET6, "2001:db8::", &a->sin6_addr); a->sin6_addr.s6_addr[15] = (uint8_t)k; return 0; }
	if (!strncmp(lab, "l6:", 3)) { inet_pton(AF_INET6, "fe80::", &a->sin6_addr); a->sin6_addr.s6_addr[15] = (uint8_t)k; a->sin6_scope_id = (uint32_t)ifx; return 0; }
	return -1;
}
static void dst_label(const struct sockaddr *to, char *out, size_t cap) {
	char b[80];
	if (to == NULL) { snprintf(out, cap, "null"); return; }
	if (to->sa_family == AF_INET) {
		const struct sockaddr_in *a = (const struct sockaddr_in *)to; uint32_t h = ntohl(a->sin_addr.s_addr); int port = ntohs(a->sin_port);
		if (h == 0xEFFFFFFAu && port == 1900) { snprintf(out, cap, "mc4"); return; }
		if ((h & 0xFFFFFF00u) == 0xC0000200u && port == 5000 + (int)(h & 0xff) - 10) { snprintf(out, cap, "u4:%d", (int)(h & 0xff) - 10); return; }
		inet_ntop(AF_INET, &a->sin_addr, b, sizeof(b)); snprintf(out, cap, "other:%s:%d", b, port); return;
	}
	if (to->sa_family == AF_INET6) {
		const struct sockaddr_in6 *a = (const struct sockaddr_in6 *)to; int port = ntohs(a->sin6_port); struct in6_addr x;
		inet_pton(AF_INET6, "ff05::c", &x);
		if (!memcmp(&x, &a->sin6_addr, 16) && port == 1900 && a->sin6_scope_id == 0) { snprintf(out, cap, "site"); return; }
		inet_pton(AF_INET6, "ff02::c", &x);
		if (!memcmp(&x, &a->sin6_addr, 16) && port == 1900) { snprintf(out, cap, "link%%%u", a->sin6_scope_id); return; }
		inet_pton(AF_INET6, "2001:db8::", &x);
		if (!memcmp(&x, &a->sin6_addr, 15) && port == 5000 + a->sin6_addr.s6_addr[15] && a->sin6_scope_id == 0) { snprintf(out, cap, "u6:%d", a->sin6_addr.s6_addr[15]); return; }
		inet_pton(AF_INET6, "fe80::", &x);
		if (!memcmp(&x, &a->sin6_addr, 15) && port == 5000 + a->sin6_addr.s6_addr[15]) { snprintf(out, cap, "l6:%d%%%u", a->sin6_addr.s6_addr[15], a->sin6_scope_id); return; }
		inet_ntop(AF_INET6, &a->sin6_addr, b, sizeof(b)); snprintf(out, cap, "other:[%s%%%u]:%d", b, a->sin6_scope_id, port); return;
	}
	snprintf(out, cap, "other:af%d", to->sa_family);
}
/* independent decode of a datagram the object wants to send: header value by exact upper-case name */
static int hdr_get(const char *m, size_t len, const char *name, const char **v, size_t *vl) {
	size_t nl = strlen(name); const char *p = m, *end = m + len; int cnt = 0;
	while (p < end) {
		const char *e = memmem(p, (size_t)(end - p), "\r\n", 2);
		if (!e) break;
		if ((size_t)(e - p) > nl && !memcmp(p, name, nl) && p[nl] == ':') {
			const char *a = p + nl + 1; while (a < e && *a == ' ') a++;
			if (cnt == 0) { *v = a; *vl = (size_t)(e - a); }
			cnt++;
		}
		p = e + 2;
	}
	return cnt;
}
static long hdr_num(const char *m, size_t len, const char *name, const char *prefix) {
	const char *v; size_t vl, pl = strlen(prefix);
	if (hdr_get(m, len, name, &v, &vl) != 1 || vl <= pl || memcmp(v, prefix, pl)) return 0;
	long x = 0; int nd = 0;
	for (size_t i = pl; i < vl; i++) { if (v[i] < '0' || v[i] > '9') return -1; x = x * 10 + (v[i] - '0'); if (++nd > 9) return -1; }
	return x;
}
static void hdr_str(const char *m, size_t len, const char *name, char *out, size_t cap) {
	const char *v; size_t vl; int c = hdr_get(m, len, name, &v, &vl);
	if (c == 0) { out[0] = 0; return; }
	if (c > 1) { snprintf(out, cap, "DUPLICATE-FIELD"); return; }
	if (vl > 3000) { snprintf(out, cap, "HUGE"); return; }
	jesc(v, vl, out, cap);
}
static const char *server_form(const char *m, size_t len, const char *cfgsrv) {
	const char *v; size_t vl;
	if (hdr_get(m, len, "SERVER", &v, &vl) != 1) return "";
	if (cfgsrv[0] && vl == strlen(cfgsrv) && !memcmp(v, cfgsrv, vl)) return "cfg";
	/* "UPnP/1.1 product/version" or "<os part with a '/'> UPnP/1.1 product/version" */
	if (vl >= 8 && !memcmp(v, "UPnP/1.1", 8) && (vl == 8 || v[8] == ' '))
		return (vl > 9 && memchr(v + 9, '/', vl - 9)) ? "upnp-product" : "other";
	const char *u = memmem(v, vl, " UPnP/1.1 ", 10);
	if (u && u > v && memchr(v, '/', (size_t)(u - v)) && memchr(u + 10, '/', (size_t)(v + vl - (u + 10)))) return "os-upnp-product";
	return "other";
}
static char g_cfg_server[256];
ssize_t __wrap_sendto(int fd, const void *buf, size_t len, int flags, const struct sockaddr *to, socklen_t tolen) {
	fsock_t *s = fs_by_fd(fd);
	if (!s) return __real_sendto(fd, buf, len, flags, to, tolen);
	const char *m = buf; char dst[128], nt[1200], usn[1400], loc[3200], host[200];
	const char *k = "?"; int wf = 1; const char *v; size_t vl;
	dst_label(to, dst, sizeof(dst));
	const char *eol = memmem(m, len, "\r\n", 2);
	size_t l1 = eol ? (size_t)(eol - m) : 0;
	int notify = (l1 == 17 && !memcmp(m, "NOTIFY * HTTP/1.1", 17)), resp = (l1 == 15 && !memcmp(m, "HTTP/1.1 200 OK", 15));
	if (len < 4 || memcmp(m + len - 4, "\r\n\r\n", 4)) wf = 0;
	else { const char *t = memmem(m, len, "\r\n\r\n", 4); if (t != m + len - 4) wf = 0; }      /* no body, one terminator */
	for (size_t i = 0; i < len; i++) { unsigned char c = (unsigned char)m[i]; if ((c < 32 && c != '\r' && c != '\n') || c > 126) wf = 0; }
	if (hdr_num(m, len, "CONTENT-LENGTH", "") != 0) wf = 0;
	if (notify) {
		if (hdr_get(m, len, "NTS", &v, &vl) == 1) {
			if (vl == 10 && !memcmp(v, "ssdp:alive", 10)) k = "alive";
			else if (vl == 11 && !memcmp(v, "ssdp:byebye", 11)) k = "byebye";
			else if (vl == 11 && !memcmp(v, "ssdp:update", 11)) k = "update";
		}
		hdr_str(m, len, "NT", nt, sizeof(nt));
	} else if (resp) {
		k = "resp";
		hdr_str(m, len, "ST", nt, sizeof(nt));
		if (hdr_get(m, len, "EXT", &v, &vl) != 1 || vl != 0) wf = 0;
	} else { nt[0] = 0; wf = 0; }
	hdr_str(m, len, "USN", usn, sizeof(usn));
	hdr_str(m, len, "LOCATION", loc, sizeof(loc));
	hdr_str(m, len, "HOST", host, sizeof(host));
	int fail = 0;
	if (g_sendfail_n > 0) { g_sendfail_n--; fail = 1; }
	LOGEV("\"e\":\"tx\",\"sk\":%d,\"ifx\":%d,\"dst\":\"%s\",\"k\":\"%s\",\"nt\":\"%s\",\"usn\":\"%s\",\"loc\":\"%s\",\"age\":%ld,"
	    "\"boot\":%ld,\"conf\":%ld,\"host\":\"%s\",\"sp\":%ld,\"srvf\":\"%s\",\"wf\":%d,\"fail\":%d,\"len\":%zu",
	    s->fam, s->mcif, dst, k, nt, usn, loc, hdr_num(m, len, "CACHE-CONTROL", "max-age="), hdr_num(m, len, "BOOTID.UPNP.ORG", ""),
	    hdr_num(m, len, "CONFIGID.UPNP.ORG", ""), host, hdr_num(m, len, "SEARCHPORT.UPNP.ORG", ""), server_form(m, len, g_cfg_server), wf, fail, len);
	if (fail) { errno = ENETUNREACH; return -1; }
	return (ssize_t)len;
}
ssize_t __wrap_recvmsg(int fd, struct msghdr *mh, int flags) {
	fsock_t *s = fs_by_fd(fd);
	if (!s) return __real_recvmsg(fd, mh, flags);
	struct msghdr raw; memset(&raw, 0, sizeof(raw)); raw.msg_iov = mh->msg_iov; raw.msg_iovlen = mh->msg_iovlen;
	ssize_t r = __real_recvmsg(fd, &raw, flags | MSG_DONTWAIT);
	int q = (s->fam == 4) ? 0 : 1;
	if (r < 0) {
		int e = errno;
		pthread_mutex_lock(&g_log_mu); g_rx_idle_at = g_n_rx; pthread_cond_broadcast(&g_log_cv); pthread_mutex_unlock(&g_log_mu);
		errno = e;
		return r;
	}
	if (g_meta_h[q] == g_meta_t[q]) die("datagram without description");
	meta_t *mt = &g_meta[q][g_meta_h[q] % MAXMETA]; g_meta_h[q]++;
	struct sockaddr_storage ss; socklen_t sl = 0;
	if (src_addr(mt->src, mt->ifx, &ss, &sl) != 0) die("source label");
	if (mh->msg_name && mh->msg_namelen >= sl) { memcpy(mh->msg_name, &ss, sl); mh->msg_namelen = sl; }
	mh->msg_flags = 0;
	if (mh->msg_control && s->pktinfo) {
		struct cmsghdr *cm = (struct cmsghdr *)mh->msg_control;
		if (s->fam == 4 && mh->msg_controllen >= CMSG_SPACE(sizeof(struct in_pktinfo))) {
			struct in_pktinfo pi; memset(&pi, 0, sizeof(pi)); pi.ipi_ifindex = mt->ifx;
			cm->cmsg_level = IPPROTO_IP; cm->cmsg_type = IP_PKTINFO; cm->cmsg_len = CMSG_LEN(sizeof(pi));
			memcpy(CMSG_DATA(cm), &pi, sizeof(pi)); mh->msg_controllen = CMSG_SPACE(sizeof(pi));
		} else if (s->fam == 6 && mh->msg_controllen >= CMSG_SPACE(sizeof(struct in6_pktinfo))) {
			struct in6_pktinfo pi; memset(&pi, 0, sizeof(pi)); pi.ipi6_ifindex = (unsigned)mt->ifx;
			cm->cmsg_level = IPPROTO_IPV6; cm->cmsg_type = IPV6_PKTINFO; cm->cmsg_len = CMSG_LEN(sizeof(pi));
			memcpy(CMSG_DATA(cm), &pi, sizeof(pi)); mh->msg_controllen = CMSG_SPACE(sizeof(pi));
		} else mh->msg_controllen = 0;
	} else mh->msg_controllen = 0;
	char st[1200];
	pthread_mutex_lock(&g_log_mu);
	g_n_rx++;
	if (g_meta_h[q] == g_meta_t[q]) g_rx_idle_at = g_n_rx;   /* nothing else was injected: a zero-length datagram ends the loop without EAGAIN */
	logf_locked("\"e\":\"rx\",\"sk\":%d,\"ifx\":%d,\"src\":\"%s%s\",\"shape\":\"%s\",\"st\":\"%s\",\"len\":%zd", s->fam, mt->ifx, mt->src,
	    "", mt->shape, jesc(mt->st, strlen(mt->st), st, sizeof(st)), r);
	pthread_cond_broadcast(&g_log_cv);
	pthread_mutex_unlock(&g_log_mu);
	return r;
}

/* ------------------------------------------------------------------ pool hook: context + timer expiries */
static int dev_of_udata(const void *u) { for (int i = 1; i < MAXDEV; i++) if (g_dev_tmr[i] != NULL && g_dev_tmr[i] == u) return i; return 0; }
void liblcb_verif_point(const char *label, const void *a, const void *b, uintptr_t val) {
	(void)a;
	if (label[0] != 'l') return;
	if (0 == strcmp(label, "loop.gate")) { t_ctx = 0; return; }
	if (0 != strcmp(label, "loop.cb")) return;
	int e = errno;
	if ((val & 0xffff) == TP_EV_TIMER) {
		int d = dev_of_udata(b);
		if (d) {
			t_ctx = 1;
			pthread_mutex_lock(&g_log_mu);
			g_n_timer++;
			logf_locked("\"e\":\"timer\",\"d\":%d,\"live\":%d", d, g_dev_live[d]);
			pthread_cond_broadcast(&g_log_cv);
			pthread_mutex_unlock(&g_log_mu);
		}
	} else if (g_alive && g_ssdp != NULL &&
	    ((g_ssdp->mc_rcvr_v4 != NULL && b == (const void *)&g_ssdp->mc_rcvr_v4->tp_data) ||
	     (g_ssdp->mc_rcvr_v6 != NULL && b == (const void *)&g_ssdp->mc_rcvr_v6->tp_data))) {
		t_ctx = 1;
	}
	errno = e;
}

static const char *ename(int e) {
	switch (e) {
	case 0: return "0";
	case EINVAL: return "EINVAL";
	case ENOMEM: return "ENOMEM";
	case ESPIPE: return "ESPIPE";
	case ENODEV: return "ENODEV";
	case EMFILE: return "EMFILE";
	case EFAULT: return "EFAULT";
	case EAFNOSUPPORT: return "EAFNOSUPPORT";
	}
	static __thread char b[24]; snprintf(b, sizeof(b), "E%d", e); return b;
}

/* ------------------------------------------------------------------ run something on the pool thread */
typedef struct { void (*fn)(void *); void *arg; sem_t done; } preq_t;
static void pool_tramp(tpt_p tpt, void *u) { (void)tpt; preq_t *r = u; r->fn(r->arg); t_ctx = 0; sem_post(&r->done); }
static int run_on_pool(void (*fn)(void *), void *arg) {
	preq_t r; r.fn = fn; r.arg = arg; sem_init(&r.done, 0, 0);
	int e = tpt_msg_send(g_tpt0, NULL, 0, pool_tramp, &r);
	if (e != 0) { fprintf(stderr, "tpt_msg_send: %d\n", e); exit(3); }
	struct timespec ts; clock_gettime(CLOCK_REALTIME, &ts); ts.tv_sec += 20;
	while (sem_timedwait(&r.done, &ts) != 0) { if (errno == EINTR) continue; on_signal(SIGALRM); }
	return 0;
}
static int wait_until(long *ctr, long target, int ms) {
	struct timespec ts; clock_gettime(CLOCK_REALTIME, &ts);
	ts.tv_sec += ms / 1000; ts.tv_nsec += (long)(ms % 1000) * 1000000L;
	if (ts.tv_nsec >= 1000000000L) { ts.tv_sec++; ts.tv_nsec -= 1000000000L; }
	int ok = 1;
	pthread_mutex_lock(&g_log_mu);
	while (*ctr < target) {
		if (pthread_cond_timedwait(&g_log_cv, &g_log_mu, &ts) == ETIMEDOUT) { ok = (*ctr >= target); break; }
	}
	pthread_mutex_unlock(&g_log_mu);
	return ok;
}
static void p_nop(void *v) { (void)v; }

#define LEDGER "\"tmrs\":%d,\"socks\":%d,\"allocs\":%ld,\"devs\":%zu,\"ifs\":%zu"
#define LEDGER_ARGS n_tmrs(), n_socks(), n_allocs(), (g_alive ? upnp_ssdp_root_dev_count(g_ssdp) : (size_t)0), (g_alive ? upnp_ssdp_if_count(g_ssdp) : (size_t)0)

/* ------------------------------------------------------------------ API calls (on the pool thread) */
typedef struct { char kind[16]; int v4, v6, byebye, sp, sockfail; } a_cfg_t;
static void p_create(void *v) {
	a_cfg_t *c = v; upnp_ssdp_settings_t st, *ps = &st; int rc;
	LOGEV("\"e\":\"create\",\"kind\":\"%s\",\"v4\":%d,\"v6\":%d,\"byebye\":%d,\"sp\":%d,\"sockfail\":%d", c->kind, c->v4, c->v6, c->byebye, c->sp, c->sockfail);
	g_sockfail_fam = c->sockfail;
	g_cfg_server[0] = 0;
	t_ctx = 1;
	upnp_ssdp_def_settings(&st);
	if (!strcmp(c->kind, "null")) ps = NULL;
	else if (strcmp(c->kind, "asis") != 0) {
		st.flags = (c->v4 ? UPNP_SSDP_S_F_IPV4 : 0) | (c->v6 ? UPNP_SSDP_S_F_IPV6 : 0) | (c->byebye ? UPNP_SSDP_S_F_BYEBYE : 0);
		st.search_port = (uint16_t)c->sp;
		if (!strcmp(c->kind, "custom")) {
			snprintf(st.http_server, sizeof(st.http_server), "TestOS/1.0 UPnP/1.1 x07drv/1.0");
			st.http_server_size = strlen(st.http_server);
			snprintf(g_cfg_server, sizeof(g_cfg_server), "%s", st.http_server);
		}
	}
	g_ssdp = NULL;
	rc = upnp_ssdp_create(g_tp, ps, &g_ssdp);
	t_ctx = 0;
	g_sockfail_fam = 0;
	g_alive = (rc == 0 && g_ssdp != NULL);
	pthread_mutex_lock(&g_al_mu); g_alloc_base = g_alive ? g_nlive : 0; pthread_mutex_unlock(&g_al_mu);
	/* properties of the sockets the object opened: family, port, wildcard address, pktinfo, multicast loop */
	char sk[256]; int o = 0; sk[0] = 0;
	for (int f = 4; f <= 6; f += 2) { fsock_t *s = fs_by_fam(f); if (s) o += snprintf(sk + o, sizeof(sk) - (size_t)o, "%s[%d,%d,%d,%d,%d]", o ? "," : "", f, s->port, s->any, s->pktinfo, s->mloop); }
	LOGEV("\"e\":\"create.ret\",\"rc\":\"%s\",\"sks\":[%s]," LEDGER, ename(rc), sk, LEDGER_ARGS);
}
typedef struct { int d; char uuid[64], dom[300], type[600]; unsigned ver, boot, conf, age, ann; } a_dev_t;
static void p_dev(void *v) {
	a_dev_t *a = v; upnp_ssdp_dev_p dev = NULL; int rc;
	LOGEV("\"e\":\"dev_add\",\"d\":%d,\"uuid\":\"%s\",\"dom\":\"%s\",\"type\":\"%s\",\"ver\":%u,\"boot\":%u,\"conf\":%u,\"age\":%u,\"ann\":%u",
	    a->d, a->uuid, a->dom, a->type, a->ver, a->boot, a->conf, a->age, a->ann);
	t_ctx = 1;
	rc = upnp_ssdp_dev_add(g_ssdp, a->uuid, a->dom, 0, a->type, 0, a->ver, a->boot, a->conf, a->age, a->ann, &dev);
	t_ctx = 0;
	if (rc == 0 && dev != NULL) { g_dev[a->d] = dev; g_dev_tmr[a->d] = &dev->ann_tmr; g_dev_live[a->d] = 1; }
	LOGEV("\"e\":\"dev_add.ret\",\"rc\":\"%s\"," LEDGER, ename(rc), LEDGER_ARGS);
}
typedef struct { int d; char dom[300], type[600]; unsigned ver; } a_svc_t;
static void p_svc(void *v) {
	a_svc_t *a = v; int rc;
	LOGEV("\"e\":\"svc_add\",\"d\":%d,\"dom\":\"%s\",\"type\":\"%s\",\"ver\":%u", a->d, a->dom, a->type, a->ver);
	t_ctx = 1;
	rc = upnp_ssdp_svc_add(g_dev[a->d], a->dom, 0, a->type, 0, a->ver);
	t_ctx = 0;
	LOGEV("\"e\":\"svc_add.ret\",\"rc\":\"%s\"," LEDGER, ename(rc), LEDGER_ARGS);
}
typedef struct { int d; char ifn[64], u4[16], u6[16]; } a_link_t;
static char g_huge[4200];
static const char *url_of(const char *lab) { if (!strcmp(lab, "-")) return NULL; if (!strcmp(lab, "HUGE")) return g_huge; return lab; }
static void p_link(void *v) {
	a_link_t *a = v; int rc; const char *u4 = url_of(a->u4), *u6 = url_of(a->u6);
	LOGEV("\"e\":\"link\",\"d\":%d,\"ifn\":\"%s\",\"u4\":\"%s\",\"u6\":\"%s\"", a->d, a->ifn, u4 ? a->u4 : "", u6 ? a->u6 : "");
	t_ctx = 1;
	rc = upnp_ssdp_dev_if_add(g_ssdp, g_dev[a->d], a->ifn, strlen(a->ifn), u4, u4 ? strlen(u4) : 0, u6, u6 ? strlen(u6) : 0);
	t_ctx = 0;
	LOGEV("\"e\":\"link.ret\",\"rc\":\"%s\"," LEDGER, ename(rc), LEDGER_ARGS);
}
static void p_devdel(void *v) {
	int d = *(int *)v;
	LOGEV("\"e\":\"dev_del\",\"d\":%d", d);
	g_dev_live[d] = 0;
	t_ctx = 1;
	upnp_ssdp_dev_del(g_ssdp, g_dev[d]);
	t_ctx = 0;
	g_dev[d] = NULL;
	LOGEV("\"e\":\"dev_del.ret\"," LEDGER, LEDGER_ARGS);
}
static void p_ifdel(void *v) {
	uint32_t ix = (uint32_t)*(int *)v; upnp_ssdp_if_p s_if = upnp_ssdp_get_if_by_index(g_ssdp, ix);
	if (s_if == NULL) { LOGEV("\"e\":\"script.miss\",\"what\":\"if_del-of-unregistered-interface\""); return; }
	LOGEV("\"e\":\"if_del\",\"ifx\":%u", ix);
	t_ctx = 1;
	upnp_ssdp_if_del(g_ssdp, s_if);
	t_ctx = 0;
	LOGEV("\"e\":\"if_del.ret\"," LEDGER, LEDGER_ARGS);
}
static void p_notify(void *v) {
	(void)v;
	LOGEV("\"e\":\"notify\"");
	t_ctx = 1;
	upnp_ssdp_send_notify(g_ssdp);
	t_ctx = 0;
	LOGEV("\"e\":\"notify.ret\"," LEDGER, LEDGER_ARGS);
}
static void p_count(void *v) { (void)v; LOGEV("\"e\":\"count\""); LOGEV("\"e\":\"count.ret\"," LEDGER, LEDGER_ARGS); }
static void p_destroy(void *v) {
	(void)v;
	LOGEV("\"e\":\"destroy\"");
	for (int i = 0; i < MAXDEV; i++) g_dev_live[i] = 0;
	t_ctx = 1;
	upnp_ssdp_destroy(g_ssdp);
	t_ctx = 0;
	g_alive = 0; g_ssdp = NULL;
	pthread_mutex_lock(&g_al_mu); g_alloc_base = 0; pthread_mutex_unlock(&g_al_mu);
	LOGEV("\"e\":\"destroy.ret\"," LEDGER, LEDGER_ARGS);
}
typedef struct { int fd; } a_fire_t;
static void p_fire_fd(void *v) {       /* expire now, once */
	a_fire_t *a = v; struct itimerspec now; memset(&now, 0, sizeof(now)); now.it_value.tv_nsec = 1;
	__real_timerfd_settime(a->fd, 0, &now, NULL);
}
static int tfd_of_dev(int d) { return (g_dev[d] != NULL && g_dev_live[d]) ? (int)TPDATA_TFD_GET(g_dev[d]->ann_tmr.tpdata) : -1; }

/* ------------------------------------------------------------------ scenario interpreter */
static int unhex(const char *h, uint8_t *out, size_t cap) {
	size_t n = strlen(h); if (n == 1 && h[0] == '-') return 0;
	if (n % 2 || n / 2 > cap) die("hex");
	for (size_t i = 0; i < n / 2; i++) { unsigned x; if (sscanf(h + 2 * i, "%2x", &x) != 1) die("hex"); out[i] = (uint8_t)x; }
	return (int)(n / 2);
}
static char *tok_val(char *rest, const char *key, char *out, size_t cap) {   /* key=value token (value without spaces) */
	size_t kl = strlen(key); char *p = rest;
	out[0] = 0;
	while ((p = strstr(p, key)) != NULL) {
		if ((p == rest || p[-1] == ' ' || p[-1] == '\t') && p[kl] == '=') {
			char *v = p + kl + 1; size_t n = strcspn(v, " \t\r\n"); if (n >= cap) die("token too long");
			memcpy(out, v, n); out[n] = 0; return out;
		}
		p += kl;
	}
	return NULL;
}
static int tok_int(char *rest, const char *key, int dflt) { char b[64]; return tok_val(rest, key, b, sizeof(b)) ? atoi(b) : dflt; }

int main(int argc, char **argv) {
	if (argc < 3) die("usage: x07_drv <scenario> <trace.ndjson>");
	g_out_path = argv[2];
	signal(SIGSEGV, on_signal); signal(SIGBUS, on_signal); signal(SIGALRM, on_signal); signal(SIGABRT, on_signal);
	signal(SIGPIPE, SIG_IGN);
	if (__sanitizer_set_death_callback) __sanitizer_set_death_callback(on_death);
	alarm(120);
	memset(g_huge, 'h', sizeof(g_huge) - 1); memcpy(g_huge, "http://", 7);
	FILE *sc = fopen(argv[1], "r");
	if (!sc) die("cannot open scenario");
	static char line[200000];
	{
		tp_settings_t s; tp_settings_def(&s); s.threads_max = 1; s.flags = 0;
		if (tp_create(&s, &g_tp) != 0) die("tp_create");
		if (tp_threads_create(g_tp, 0) != 0) die("tp_threads_create");
		g_tpt0 = tp_thread_get(g_tp, 0);
		for (int k = 0; k < 2000 && !tpt_is_running(g_tpt0); k++) usleep(1000);
		for (int k = 0; k < 2000 && TP_THREAD_STATE_RUNNING != g_tpt0->state; k++) usleep(1000);
	}
	while (fgets(line, sizeof(line), sc)) {
		char cmd[64] = ""; int n = 0;
		if (line[0] == '#' || sscanf(line, "%63s%n", cmd, &n) < 1) continue;
		char *rest = line + n;
		if (!strcmp(cmd, "cfg")) {
			a_cfg_t c; memset(&c, 0, sizeof(c));
			if (g_alive) die("second cfg");
			tok_val(rest, "kind", c.kind, sizeof(c.kind));
			c.v4 = tok_int(rest, "v4", 1); c.v6 = tok_int(rest, "v6", 1); c.byebye = tok_int(rest, "byebye", 1);
			c.sp = tok_int(rest, "sp", 1900); c.sockfail = tok_int(rest, "sockfail", 0);
			run_on_pool(p_create, &c);
		} else if (!strcmp(cmd, "dev")) {
			a_dev_t a; memset(&a, 0, sizeof(a)); char b[64];
			a.d = atoi(rest);
			if (!g_alive || a.d < 1 || a.d >= MAXDEV || g_dev[a.d] != NULL) { LOGEV("\"e\":\"script.miss\",\"what\":\"dev\""); continue; }
			tok_val(rest, "uuid", a.uuid, sizeof(a.uuid)); tok_val(rest, "dom", a.dom, sizeof(a.dom)); tok_val(rest, "type", a.type, sizeof(a.type));
			if (strlen(a.uuid) != 36) die("uuid");
			(void)b;
			a.ver = (unsigned)tok_int(rest, "ver", 1); a.boot = (unsigned)tok_int(rest, "boot", 1); a.conf = (unsigned)tok_int(rest, "conf", 1);
			a.age = (unsigned)tok_int(rest, "age", 0); a.ann = (unsigned)tok_int(rest, "ann", 0);
			run_on_pool(p_dev, &a);
		} else if (!strcmp(cmd, "svc")) {
			a_svc_t a; memset(&a, 0, sizeof(a));
			a.d = atoi(rest);
			if (!g_alive || a.d < 1 || a.d >= MAXDEV || g_dev[a.d] == NULL) { LOGEV("\"e\":\"script.miss\",\"what\":\"svc\""); continue; }
			tok_val(rest, "dom", a.dom, sizeof(a.dom)); tok_val(rest, "type", a.type, sizeof(a.type)); a.ver = (unsigned)tok_int(rest, "ver", 1);
			run_on_pool(p_svc, &a);
		} else if (!strcmp(cmd, "link")) {
			a_link_t a; memset(&a, 0, sizeof(a));
			a.d = atoi(rest);
			if (!g_alive || a.d < 1 || a.d >= MAXDEV || g_dev[a.d] == NULL) { LOGEV("\"e\":\"script.miss\",\"what\":\"link\""); continue; }
			tok_val(rest, "if", a.ifn, sizeof(a.ifn)); tok_val(rest, "u4", a.u4, sizeof(a.u4)); tok_val(rest, "u6", a.u6, sizeof(a.u6));
			if (!a.u4[0]) strcpy(a.u4, "-");
			if (!a.u6[0]) strcpy(a.u6, "-");
			run_on_pool(p_link, &a);
		} else if (!strcmp(cmd, "devdel")) {
			int d = atoi(rest);
			if (!g_alive || d < 1 || d >= MAXDEV || g_dev[d] == NULL) { LOGEV("\"e\":\"script.miss\",\"what\":\"devdel\""); continue; }
			run_on_pool(p_devdel, &d);
		} else if (!strcmp(cmd, "ifdel")) {
			int ix = atoi(rest);
			if (!g_alive) { LOGEV("\"e\":\"script.miss\",\"what\":\"ifdel\""); continue; }
			run_on_pool(p_ifdel, &ix);
		} else if (!strcmp(cmd, "notify")) {
			if (g_alive) run_on_pool(p_notify, NULL);
		} else if (!strcmp(cmd, "count")) {
			run_on_pool(p_count, NULL);
		} else if (!strcmp(cmd, "destroy")) {
			if (g_alive) run_on_pool(p_destroy, NULL);
		} else if (!strcmp(cmd, "sendfail")) {
			int k = atoi(rest); g_sendfail_n = k; LOGEV("\"e\":\"sendfail\",\"k\":%d", k);
		} else if (!strcmp(cmd, "joinfail")) {
			int k = atoi(rest); g_joinfail_n = k; LOGEV("\"e\":\"joinfail\",\"k\":%d", k);
		} else if (!strcmp(cmd, "allocfail")) {
			int k = atoi(rest); g_allocfail_n = k; LOGEV("\"e\":\"allocfail\",\"k\":%d", k);
		} else if (!strcmp(cmd, "fire")) {        /* expiry of the announce timer of a registered device */
			int d = atoi(rest); a_fire_t a; a.fd = (d >= 1 && d < MAXDEV) ? tfd_of_dev(d) : -1;
			if (a.fd <= 0 || tf_by_fd(a.fd) == NULL) { LOGEV("\"e\":\"script.miss\",\"what\":\"fire\",\"d\":%d", d); continue; }
			pthread_mutex_lock(&g_log_mu); long target = g_n_timer + 1; pthread_mutex_unlock(&g_log_mu);
			LOGEV("\"e\":\"fire\",\"d\":%d,\"ms\":%ld", d, tf_by_fd(a.fd)->ms);
			p_fire_fd(&a);
			if (!wait_until(&g_n_timer, target, 5000)) LOGEV("\"e\":\"script.miss\",\"what\":\"timer-not-delivered\",\"d\":%d", d);
			run_on_pool(p_nop, NULL);             /* the callback has returned when this round trip completes */
		} else if (!strcmp(cmd, "firez")) {       /* expiry of every timer that outlived its device / the object */
			int z[MAXTF], nz = 0;
			for (int i = 0; i < MAXTF; i++) if (g_tf[i].used) {
				int owned = 0;
				for (int d = 1; d < MAXDEV; d++) if (g_alive && g_dev[d] != NULL && g_dev_live[d] && tfd_of_dev(d) == g_tf[i].fd) owned = 1;
				if (!owned) z[nz++] = g_tf[i].fd;
			}
			LOGEV("\"e\":\"firez\",\"n\":%d", nz);
			for (int i = 0; i < nz; i++) {
				a_fire_t a; a.fd = z[i];
				p_fire_fd(&a);
				usleep(20000);
				run_on_pool(p_nop, NULL);
			}
			if (nz) { usleep(50000); run_on_pool(p_nop, NULL); LOGEV("\"e\":\"firez.survived\""); }
		} else if (!strcmp(cmd, "rx") || !strcmp(cmd, "rxq")) {
			static char hex[140000], sthex[2048]; static uint8_t data[70000], stb[1024];
			meta_t m; memset(&m, 0, sizeof(m));
			m.sk = tok_int(rest, "sk", 4); m.ifx = tok_int(rest, "ifx", 2);
			tok_val(rest, "src", m.src, sizeof(m.src)); tok_val(rest, "shape", m.shape, sizeof(m.shape));
			tok_val(rest, "st", sthex, sizeof(sthex)); tok_val(rest, "data", hex, sizeof(hex));
			int stn = unhex(sthex, stb, sizeof(stb) - 1); if (stn >= (int)sizeof(m.st)) die("st too long"); memcpy(m.st, stb, (size_t)stn); m.st[stn] = 0;
			int dn = unhex(hex, data, sizeof(data));
			fsock_t *s = fs_by_fam(m.sk);
			if (!g_alive || s == NULL) { LOGEV("\"e\":\"script.miss\",\"what\":\"rx-without-socket\",\"sk\":%d", m.sk); continue; }
			int q = (m.sk == 4) ? 0 : 1;
			if (g_meta_t[q] - g_meta_h[q] >= MAXMETA) die("meta queue full");
			pthread_mutex_lock(&g_log_mu);
			g_meta[q][g_meta_t[q] % MAXMETA] = m; g_meta_t[q]++;
			g_rx_sent++; long target = g_rx_sent;
			pthread_mutex_unlock(&g_log_mu);
			if (send(s->peer, data, (size_t)dn, 0) != dn) die("inject");
			if (!strcmp(cmd, "rx")) {
				if (!wait_until(&g_rx_idle_at, target, 5000)) LOGEV("\"e\":\"script.miss\",\"what\":\"datagram-not-consumed\"");
				run_on_pool(p_nop, NULL);
			}
		} else if (!strcmp(cmd, "end")) {
			break;
		} else die("unknown scenario command");
	}
	fclose(sc);
	if (g_tp) { tp_shutdown(g_tp); tp_shutdown_wait(g_tp); }
	LOGEV("\"e\":\"end\"");
	g_flushed = 1;
	flush_log();
	_exit(0);
}
