/* RADIUS client conformance driver (growth task X02).
 *
 * Unity build of the real client (src/proto/radius_client.c) with the real thread pool, I/O tasks and
 * socket helpers; nothing in them is changed.  One or more scripted fake RADIUS servers live on UDP
 * loopback sockets in the same process and are operated by the scenario (main thread): every step of
 * a server (receive one datagram, answer it in some way) is an explicit scenario line.
 *
 * Link with -Wl,--wrap=sendto,--wrap=recvfrom,--wrap=socket,--wrap=close,--wrap=timerfd_create,
 *           --wrap=timerfd_settime,--wrap=clock_gettime,--wrap=calloc,--wrap=free,--wrap=setsockopt
 * The wrappers log what the client does to the outside (datagrams, timer programming, sockets), inject the
 * faults the scenario arms (unreachable server, socket() failure) and keep a ledger of the client's
 * descriptors and query blocks.  liblcb_verif_point() (hook of the thread pool) tells which message /
 * timer callback the pool is about to run.  The user callback logs what the client reports.
 * The log (ndjson) is validated line by line by TLC against specs/grow/RadiusClient.tla (X02Trace.tla).
 *
 * usage: x02_drv <scenario-file> <trace-out.ndjson>
 */
#include <semaphore.h>
#include <stdarg.h>
#include <poll.h>
#include <signal.h>
#include <sys/time.h>
#include <sys/ioctl.h>
#include "threadpool/threadpool.c"
#include "threadpool/threadpool_msg_sys.c"
#include "threadpool/threadpool_task.c"
#include "net/socket.c"
#include "net/socket_address.c"
#include "net/socket_options.c"
#include "utils/buf_str.c"
#include "utils/sys.c"
#include "proto/radius_client.c"

ssize_t __real_sendto(int, const void *, size_t, int, const struct sockaddr *, socklen_t);
ssize_t __real_recvfrom(int, void *, size_t, int, struct sockaddr *, socklen_t *);
int __real_socket(int, int, int);
int __real_close(int);
int __real_setsockopt(int, int, int, const void *, socklen_t);
int __real_timerfd_create(int, int);
int __real_timerfd_settime(int, int, const struct itimerspec *, struct itimerspec *);
int __real_clock_gettime(clockid_t, struct timespec *);
void *__real_calloc(size_t, size_t);
void __real_free(void *);

/* ------------------------------------------------------------------ log sink */
pthread_mutex_t g_log_mu = PTHREAD_MUTEX_INITIALIZER;
char *g_log; size_t g_log_len, g_log_cap;
const char *g_out_path;
__thread int vh_tid = -999;
int g_ext_ctr = 100;

tp_p x02_tp; size_t g_nthr;
radius_cli_p g_cli;           /* the client under test (NULL outside create..destroy) */
volatile int g_cli_live;      /* wrappers attribute pool-thread sockets/timers to the client while set */

static void flush_log(void) {
	if (!g_out_path) return;
	FILE *f = fopen(g_out_path, "w");
	if (!f) return;
	fwrite(g_log, 1, g_log_len, f);
	fclose(f);
}
void __sanitizer_set_death_callback(void (*)(void)) __attribute__((weak));

static int tid_now(void) {
	if (vh_tid != -999) return vh_tid;
	tpt_p t = (x02_tp != NULL) ? tpt_get_current() : NULL;
	if (t != NULL) vh_tid = (int)t->thread_num; else vh_tid = __sync_fetch_and_add(&g_ext_ctr, 1);
	return vh_tid;
}
static void logf_locked(const char *fmt, ...) {
	if (g_log_len + 4096 > g_log_cap) {
		g_log_cap = g_log_cap ? g_log_cap * 2 : (1u << 22);
		g_log = realloc(g_log, g_log_cap);
		if (!g_log) abort();
	}
	int n = snprintf(g_log + g_log_len, 64, "{\"t\":%d,", tid_now());
	g_log_len += (size_t)n;
	va_list ap; va_start(ap, fmt);
	n = vsnprintf(g_log + g_log_len, 3500, fmt, ap);
	va_end(ap);
	g_log_len += (size_t)n;
	g_log[g_log_len++] = '}'; g_log[g_log_len++] = '\n';
}
#define LOGEV(...) do { pthread_mutex_lock(&g_log_mu); logf_locked(__VA_ARGS__); pthread_mutex_unlock(&g_log_mu); } while (0)

static void death_cb(void) { /* sanitizer report: an observation, the trace ends here */
	g_log_len += (size_t)snprintf(g_log + g_log_len, 128, "{\"t\":%d,\"e\":\"Crash\",\"sig\":0,\"asan\":1}\n", vh_tid);
	flush_log();
}
static void on_crash(int sig) {
	g_log_len += (size_t)snprintf(g_log + g_log_len, 128, "{\"t\":%d,\"e\":\"Crash\",\"sig\":%d,\"asan\":0}\n", vh_tid, sig);
	flush_log();
	_exit(4);
}
static void on_alarm(int sig) {
	(void)sig;
	g_log_len += (size_t)snprintf(g_log + g_log_len, 128, "{\"t\":-5,\"e\":\"Hang\",\"where\":\"watchdog\",\"q\":0}\n");
	flush_log();
	_exit(3);
}

/* ------------------------------------------------------------------ scenario objects */
#define MAXSRV 4
#define MAXQ 400
#define MAXRX 1024
#define MAXSK 64
typedef struct {
	int fd; uint16_t port; int fam; struct sockaddr_storage addr;
	uint8_t secret[32]; size_t secret_len; int sec;
	int unreach;                    /* errno injected into the client's sendto towards this server, 0 = none */
	struct { uint8_t b[4096]; size_t len; struct sockaddr_storage from; socklen_t fromlen; long x; } rx[MAXRX];
	int nrx;
	long fifo[4096]; int fh, fl;    /* transmissions that reached the server's queue, in order */
} fsrv_t;
fsrv_t g_srv[MAXSRV + 1]; int g_nsrv;
int g_foreign4 = -1, g_foreign6 = -1; /* a socket that is NOT a configured server (spoofed source) */

typedef struct {
	radius_cli_query_p h; io_buf_t buf; uint8_t data[4096]; int thr; int nonce;
	volatile int cbdone; volatile int cancelled; int submitted; int chain; /* chain: query to submit from inside the callback */
	char chain_args[128];
} fq_t;
fq_t g_q[MAXQ + 1];

/* client sockets: descriptor -> instance number u (1, 2, ... in creation order), UDP port once bound */
struct { int fd; long u; uint16_t port; int fam; } g_sk[MAXSK]; int g_nsk; long g_u;
int g_tfd[1024]; int g_ntfd;             /* live timerfds created while the client is live */
void *g_qmem[1024]; int g_qmem_q[1024]; int g_nqmem; /* live query blocks and the scenario query they belong to */
__thread int vh_cur_q;                         /* query number of the radius_client_query() call in progress on this thread */
long g_x, g_d;                                 /* transmission / reply datagram counters */
volatile long g_rxcnt;                         /* datagrams the client has read */
int g_sockfail;                                /* errno for the client's next socket() calls */
pthread_mutex_t g_led_mu = PTHREAD_MUTEX_INITIALIZER;
struct { const radius_cli_skt_t *p; int t, fam, s; } g_sreg[MAXSK]; int g_nsreg; /* live socket blocks and their table position once seen */
void *g_tab[64][2];                            /* addresses of the per-thread socket tables, taken at create */
volatile int g_arr_freed[64][2];               /* the per-thread socket table (family 4 / 6) was released by the client */

static int sk_find(int fd) { for (int i = 0; i < g_nsk; i++) if (g_sk[i].fd == fd) return i; return -1; }
static long sk_by_port(uint16_t port, int fam) { for (int i = 0; i < g_nsk; i++) if (g_sk[i].port == port && g_sk[i].fam == fam && port) return g_sk[i].u; return 0; }

/* position of a descriptor / of a timer record inside the client's per-thread socket tables (read-only peek) */
static int cli_sock_index(int t, int fd, int *fam) {
	if (!g_cli || t < 0 || t >= (int)g_cli->thr_count) return -1;
	radius_cli_thr_p th = &g_cli->thr[t];
	for (int f = 0; f < 2; f++) {
		radius_cli_skts_p ss = f ? &th->skts6 : &th->skts4;
		if (!ss->skt || g_arr_freed[t & 63][f]) continue;
		for (size_t i = 0; i < g_cli->s.thr_sockets_max; i++)
			if (ss->skt[i] && (int)ss->skt[i]->ident == fd) { *fam = f ? 6 : 4; return (int)i; }
	}
	return -1;
}
static int cli_tmr_index(int t, const void *ud, int *fam, int *id) {
	if (!g_cli || t < 0 || t >= (int)g_cli->thr_count) return -1;
	const tp_udata_t *p = ud;
	int r = -1;
	pthread_mutex_lock(&g_led_mu);
	for (int k = 0; k < g_nsreg; k++) {
		const radius_cli_skt_t *s = g_sreg[k].p;
		if (p < &s->queries_tmr[0] || p >= &s->queries_tmr[RADIUS_PKT_HDR_ID_MAX_COUNT]) continue;
		*id = (int)(p - &s->queries_tmr[0]);
		if (g_sreg[k].s < 0) { /* first sight: look the block up in the thread's tables (it was just appended) */
			radius_cli_thr_p th = &g_cli->thr[t];
			for (int f = 0; f < 2 && g_sreg[k].s < 0; f++) {
				radius_cli_skts_p ss = f ? &th->skts6 : &th->skts4;
				if (!ss->skt || g_arr_freed[t & 63][f]) continue;
				for (size_t i = 0; i < g_cli->s.thr_sockets_max; i++)
					if (ss->skt[i] == s) { g_sreg[k].s = (int)i; g_sreg[k].fam = f ? 6 : 4; g_sreg[k].t = t; break; }
			}
		}
		*fam = g_sreg[k].fam; r = g_sreg[k].s;
		break;
	}
	pthread_mutex_unlock(&g_led_mu);
	return r;
}
static int q_by_handle(const void *h) { int q = 0; pthread_mutex_lock(&g_led_mu); for (int i = 0; i < g_nqmem; i++) if (g_qmem[i] == h) q = g_qmem_q[i]; pthread_mutex_unlock(&g_led_mu); return q; }

/* ------------------------------------------------------------------ forced clock (jitter control) */
volatile int g_force_clk; struct timespec g_forced_ts; __thread int vh_probe;
int __wrap_clock_gettime(clockid_t c, struct timespec *ts) {
	if (g_force_clk && c == CLOCK_MONOTONIC && (vh_probe || (x02_tp && tpt_get_current() != NULL))) { *ts = g_forced_ts; return 0; }
	return __real_clock_gettime(c, ts);
}

/* ------------------------------------------------------------------ the pool hook */
__thread struct { int on, s, fam, id, op; } vh_tm;
static void x02_ctl_cb(tpt_p tpt, void *udata);
void liblcb_verif_point(const char *label, const void *a, const void *b, uintptr_t val) {
	int saved = errno;
	if (0 == strcmp(label, "proc.enter")) {
		vh_tid = (int)((const tp_thread_t *)a)->thread_num;
	} else if (0 == strcmp(label, "create.pvt_running")) {
		x02_tp = (tp_p)(uintptr_t)a;
	} else if (0 == strcmp(label, "recv.run")) {
		if ((const void *)val == (const void *)radius_client_query_tpt_msg_cb) {
			LOGEV("\"e\":\"start\",\"q\":%d", q_by_handle(b));
		} else if ((const void *)val == (const void *)radius_client_query_done_tpt_msg_cb) {
			LOGEV("\"e\":\"donemsg\",\"q\":%d", q_by_handle(b));
		}
	} else if (0 == strcmp(label, "sync.proxy")) {
		if (((const tpt_msg_data_t *)b)->msg_cb == radius_client_destroy_tpt_msg_cb) LOGEV("\"e\":\"destroy.thr\"");
	} else if (0 == strcmp(label, "loop.cb")) {
		if ((val & 0xffff) == TP_EV_TIMER && g_cli_live) {
			int fam = 0, id = 0, s = cli_tmr_index(tid_now(), b, &fam, &id);
			if (s >= 0) LOGEV("\"e\":\"fire\",\"s\":%d,\"fam\":%d,\"i\":%d", s, fam, id);
		}
	} else if (0 == strcmp(label, "ev.post")) {
		int op = (int)(val & 0xff), ev = (int)((val >> 8) & 0xff);
		if (ev == TP_EV_TIMER && g_cli_live) {
			int fam = 0, id = 0, s = cli_tmr_index(tid_now(), b, &fam, &id);
			if (s >= 0) {
				int had = (TPDATA_TFD_GET(((const tp_udata_t *)b)->tpdata) != 0);
				if (op == TP_CTL_DEL) { LOGEV("\"e\":\"tmr\",\"s\":%d,\"fam\":%d,\"i\":%d,\"op\":\"del\",\"ms\":0,\"had\":%d", s, fam, id, had); }
				else if (op == TP_CTL_DISABLE && !had) { LOGEV("\"e\":\"tmr\",\"s\":%d,\"fam\":%d,\"i\":%d,\"op\":\"dis\",\"ms\":0,\"had\":0", s, fam, id); }
				else { vh_tm.on = 1; vh_tm.s = s; vh_tm.fam = fam; vh_tm.id = id; vh_tm.op = op; }
			}
		}
	}
	errno = saved;
}

/* ------------------------------------------------------------------ wrappers */
int __wrap_timerfd_create(int clk, int flags) {
	int fd = __real_timerfd_create(clk, flags);
	if (fd >= 0 && g_cli_live && x02_tp && tpt_get_current() != NULL) {
		pthread_mutex_lock(&g_led_mu); if (g_ntfd < 1024) g_tfd[g_ntfd++] = fd; pthread_mutex_unlock(&g_led_mu);
	}
	return fd;
}
int __wrap_timerfd_settime(int fd, int flags, const struct itimerspec *nv, struct itimerspec *ov) {
	int rc = __real_timerfd_settime(fd, flags, nv, ov);
	int err = errno;
	if (vh_tm.on) {
		vh_tm.on = 0;
		unsigned long long ms = (unsigned long long)nv->it_value.tv_sec * 1000ull + (unsigned long long)nv->it_value.tv_nsec / 1000000ull;
		const char *op = (vh_tm.op == TP_CTL_ADD) ? "add" : (vh_tm.op == TP_CTL_ENABLE) ? "en" : "dis";
		LOGEV("\"e\":\"tmr\",\"s\":%d,\"fam\":%d,\"i\":%d,\"op\":\"%s\",\"ms\":%llu,\"had\":1", vh_tm.s, vh_tm.fam, vh_tm.id, op, (ms > 1000000ull) ? 1000000ull : ms);
	}
	errno = err;
	return rc;
}
int __wrap_socket(int dom, int type, int proto) {
	if (g_cli_live && x02_tp && tpt_get_current() != NULL && (type & 0xf) == SOCK_DGRAM) {
		if (g_sockfail) { LOGEV("\"e\":\"skt.new\",\"u\":0,\"fam\":%d,\"rc\":%d", (dom == AF_INET6) ? 6 : 4, g_sockfail); errno = g_sockfail; return -1; }
		int fd = __real_socket(dom, type, proto);
		int err = errno;
		pthread_mutex_lock(&g_led_mu);
		long u = 0;
		if (fd >= 0 && g_nsk < MAXSK) { u = ++g_u; g_sk[g_nsk].fd = fd; g_sk[g_nsk].u = u; g_sk[g_nsk].port = 0; g_sk[g_nsk].fam = (dom == AF_INET6) ? 6 : 4; g_nsk++; }
		pthread_mutex_unlock(&g_led_mu);
		LOGEV("\"e\":\"skt.new\",\"u\":%ld,\"fam\":%d,\"rc\":%d", u, (dom == AF_INET6) ? 6 : 4, (fd >= 0) ? 0 : err);
		errno = err;
		return fd;
	}
	return __real_socket(dom, type, proto);
}
int __wrap_setsockopt(int fd, int level, int opt, const void *val, socklen_t len) {
	int rc = __real_setsockopt(fd, level, opt, val, len);
	int err = errno;
	if (level == SOL_SOCKET && (opt == SO_RCVBUF || opt == SO_SNDBUF) && len == sizeof(uint32_t)) {
		pthread_mutex_lock(&g_led_mu);
		int i = sk_find(fd);
		long u = (i >= 0) ? g_sk[i].u : 0;
		pthread_mutex_unlock(&g_led_mu);
		if (u) LOGEV("\"e\":\"skt.buf\",\"u\":%ld,\"opt\":\"%s\",\"val\":%u", u, (opt == SO_RCVBUF) ? "rcv" : "snd", *(const uint32_t *)val);
	}
	errno = err;
	return rc;
}
int __wrap_close(int fd) {
	pthread_mutex_lock(&g_led_mu);
	int i = sk_find(fd);
	long u = 0;
	if (i >= 0) { u = g_sk[i].u; g_sk[i] = g_sk[--g_nsk]; }
	for (int k = 0; k < g_ntfd; k++) if (g_tfd[k] == fd) { g_tfd[k] = g_tfd[--g_ntfd]; break; }
	pthread_mutex_unlock(&g_led_mu);
	if (u) {
		int fam = 0, s = cli_sock_index(tid_now(), fd, &fam);
		LOGEV("\"e\":\"skt.close\",\"u\":%ld,\"s\":%d,\"fam\":%d", u, s, fam);
	}
	return __real_close(fd);
}
void *__wrap_calloc(size_t n, size_t sz) {
	void *p = __real_calloc(n, sz);
	if (p && g_cli_live && n == 1 && sz == sizeof(radius_cli_skt_t)) {
		pthread_mutex_lock(&g_led_mu); if (g_nsreg < MAXSK) { g_sreg[g_nsreg].p = p; g_sreg[g_nsreg].s = -1; g_sreg[g_nsreg].fam = 0; g_sreg[g_nsreg].t = -1; g_nsreg++; } pthread_mutex_unlock(&g_led_mu);
	}
	if (p && g_cli_live && n == 1 && sz == sizeof(radius_cli_query_t)) {
		pthread_mutex_lock(&g_led_mu); if (g_nqmem < 1024) { g_qmem[g_nqmem] = p; g_qmem_q[g_nqmem] = vh_cur_q; g_nqmem++; } pthread_mutex_unlock(&g_led_mu);
	}
	return p;
}
void __wrap_free(void *p) {
	if (p && g_cli_live) {
		for (size_t t = 0; t < 64; t++) {
			if (p == g_tab[t][0]) g_arr_freed[t][0] = 1;
			if (p == g_tab[t][1]) g_arr_freed[t][1] = 1;
		}
	}
	if (p) {
		pthread_mutex_lock(&g_led_mu);
		for (int i = 0; i < g_nsreg; i++) if ((const void *)g_sreg[i].p == p) { g_sreg[i] = g_sreg[--g_nsreg]; break; }
		for (int i = 0; i < g_nqmem; i++) if (g_qmem[i] == p) { --g_nqmem; g_qmem[i] = g_qmem[g_nqmem]; g_qmem_q[i] = g_qmem_q[g_nqmem]; break; }
		pthread_mutex_unlock(&g_led_mu);
	}
	__real_free(p);
}

/* RFC 2865 / RFC 3579 observations on a request the client is sending (computed with the MD5 primitives only) */
static const uint8_t g_pwd_plain[8] = { 's', 'e', 's', 'a', 'm', 'e', '!', '1' };
static int attr_find(const uint8_t *pkt, size_t len, int type, size_t *off) {
	size_t o = 20;
	while (o + 2 <= len) {
		size_t al = pkt[o + 1];
		if (al < 2 || o + al > len) return 0;
		if (pkt[o] == type) { *off = o; return 1; }
		o += al;
	}
	return 0;
}
static int sig_of(const uint8_t *pkt, size_t len) { /* index of the server whose secret validates Message-Authenticator, 0 none, -1 no attribute */
	size_t off;
	if (!attr_find(pkt, len, 80, &off) || pkt[off + 1] != 18) return -1;
	uint8_t tmp[4096], mac[16];
	if (len > sizeof(tmp)) return 0;
	for (int k = 1; k <= g_nsrv; k++) {
		memcpy(tmp, pkt, len); memset(tmp + off + 2, 0, 16);
		hmac_md5_ctx_t h;
		hmac_md5_init(g_srv[k].secret, g_srv[k].secret_len, &h);
		hmac_md5_update(&h, tmp, len);
		hmac_md5_final(&h, mac);
		if (0 == memcmp(mac, pkt + off + 2, 16)) return g_srv[k].sec;
	}
	return 0;
}
static int pwd_of(const uint8_t *pkt, size_t len, int k) { /* 1: User-Password decodes (for server k) to the plain text, 0: it does not, -1: absent */
	size_t off;
	if (!attr_find(pkt, len, 2, &off)) return -1;
	size_t dl = (size_t)pkt[off + 1] - 2;
	if (dl != 16) return 0;
	uint8_t b[16]; md5_ctx_t c;
	md5_init(&c); md5_update(&c, g_srv[k].secret, g_srv[k].secret_len); md5_update(&c, pkt + 4, 16); md5_final(&c, b);
	uint8_t pl[16];
	for (int i = 0; i < 16; i++) pl[i] = pkt[off + 2 + i] ^ b[i];
	for (int i = 0; i < 16; i++) if (pl[i] != ((i < 8) ? g_pwd_plain[i] : 0)) return 0;
	return 1;
}
static int nonce_of(const uint8_t *pkt) { /* the driver's requests carry their nonce in every authenticator octet pair */
	return (int)pkt[4] | ((int)pkt[5] << 8);
}

ssize_t __wrap_sendto(int fd, const void *buf, size_t len, int flags, const struct sockaddr *to, socklen_t tolen) {
	pthread_mutex_lock(&g_led_mu);
	int i = sk_find(fd);
	pthread_mutex_unlock(&g_led_mu);
	if (i < 0) return __real_sendto(fd, buf, len, flags, to, tolen);
	int k = 0;
	for (int j = 1; j <= g_nsrv; j++) if (0 != sa_addr_port_is_eq((const sockaddr_storage_t *)to, &g_srv[j].addr)) k = j;
	const uint8_t *p = buf;
	int fam = 0, s = cli_sock_index(tid_now(), fd, &fam);
	size_t off;
	int nas = (len >= 20) ? attr_find(p, len, 32, &off) : 0;
	int sig = (len >= 20) ? sig_of(p, len) : -1;
	int pwd = (len >= 20 && k) ? pwd_of(p, len, k) : -1;
	ssize_t rc; int err = 0;
	pthread_mutex_lock(&g_log_mu); /* covers "real send + log append + fifo": log order = arrival order at the server */
	long x = ++g_x;
	if (k && g_srv[k].unreach) { rc = -1; err = g_srv[k].unreach; }
	else { rc = __real_sendto(fd, buf, len, flags, to, tolen); err = errno; }
	long u = 0;
	pthread_mutex_lock(&g_led_mu);
	i = sk_find(fd);
	if (i >= 0) {
		u = g_sk[i].u;
		if (rc >= 0 && g_sk[i].port == 0) {
			struct sockaddr_storage me; socklen_t ml = sizeof(me);
			if (0 == getsockname(fd, (struct sockaddr *)&me, &ml)) g_sk[i].port = sa_port_get(&me);
		}
	}
	pthread_mutex_unlock(&g_led_mu);
	if (rc >= 0 && k) { fsrv_t *sv = &g_srv[k]; sv->fifo[(sv->fh + sv->fl) % 4096] = x; sv->fl++; }
	logf_locked("\"e\":\"tx\",\"x\":%ld,\"u\":%ld,\"s\":%d,\"fam\":%d,\"k\":%d,\"i\":%d,\"code\":%d,\"nonce\":%d,\"nas\":%d,\"sig\":%d,\"pwd\":%d,\"rc\":%d",
	    x, u, s, fam, k, (len >= 2) ? p[1] : -1, (len >= 1) ? p[0] : -1, (len >= 20) ? nonce_of(p) : -1, nas, sig, pwd, (rc >= 0) ? 0 : err);
	pthread_mutex_unlock(&g_log_mu);
	errno = err;
	return rc;
}
ssize_t __wrap_recvfrom(int fd, void *buf, size_t len, int flags, struct sockaddr *from, socklen_t *fromlen) {
	ssize_t rc = __real_recvfrom(fd, buf, len, flags, from, fromlen);
	int err = errno;
	if (rc > 0) {
		pthread_mutex_lock(&g_led_mu);
		int i = sk_find(fd);
		long u = (i >= 0) ? g_sk[i].u : 0;
		pthread_mutex_unlock(&g_led_mu);
		if (u) {
			const uint8_t *p = buf;
			long d = 0;
			if (rc >= 28 && p[20] == 18 && p[21] == 8 && p[22] == 'D') d = strtol((const char[]){ (char)p[23], (char)p[24], (char)p[25], (char)p[26], (char)p[27], 0 }, NULL, 10);
			int fam = 0, s = cli_sock_index(tid_now(), fd, &fam);
			LOGEV("\"e\":\"rx\",\"u\":%ld,\"s\":%d,\"fam\":%d,\"d\":%ld", u, s, fam, d);
			__sync_fetch_and_add(&g_rxcnt, 1);
		}
	}
	errno = err;
	return rc;
}

/* ------------------------------------------------------------------ user side */
static void do_query(int q, const char *args);
static void user_cb(radius_cli_query_p query, rad_pkt_hdr_p pkt, int error, io_buf_p buf, void *arg) {
	int q = (int)(intptr_t)arg;
	fq_t *fq = &g_q[q];
	long d = 0; int code = -1;
	if (pkt != NULL) {
		const uint8_t *p = (const uint8_t *)pkt;
		code = p[0];
		size_t l = ((size_t)p[2] << 8) | p[3];
		if (l >= 28 && l <= 4096 && p[20] == 18 && p[21] == 8 && p[22] == 'D') d = strtol((const char[]){ (char)p[23], (char)p[24], (char)p[25], (char)p[26], (char)p[27], 0 }, NULL, 10);
	}
	tpt_p cur = tpt_get_current();
	LOGEV("\"e\":\"cb\",\"q\":%d,\"err\":%d,\"code\":%d,\"d\":%ld,\"cur\":%d,\"own\":%d,\"h\":%d,\"ubuf\":%d", q, error, code, d,
	    cur ? (int)cur->thread_num : -1, fq->thr, (query == fq->h) || fq->h == NULL, (buf == &fq->buf));
	fq->cbdone++;
	if (fq->chain) do_query(fq->chain, fq->chain_args);
}

/* query q thr id|auto nonce code pwd [chain=q2:<args of q2>] */
static void do_query(int q, const char *args) {
	fq_t *fq = &g_q[q];
	int thr = 0, nonce = q, code = 1, pwd = 0; char ids[16] = "auto";
	sscanf(args, "%d %15s %d %d %d", &thr, ids, &nonce, &code, &pwd);
	const char *ch = strstr(args, "chain=");
	memset(fq, 0, sizeof(*fq));
	if (ch) { fq->chain = atoi(ch + 6); const char *c2 = strchr(ch, ':'); if (c2) strncpy(fq->chain_args, c2 + 1, sizeof(fq->chain_args) - 1); }
	size_t idv = (0 == strcmp(ids, "auto")) ? RADIUS_CLIENT_QUERY_ID_AUTO : (size_t)atoi(ids);
	fq->thr = thr; fq->nonce = nonce;
	io_buf_init(&fq->buf, 0, fq->data, sizeof(fq->data));
	uint8_t *p = fq->data;
	p[0] = (uint8_t)code; p[1] = (idv == RADIUS_CLIENT_QUERY_ID_AUTO) ? 0 : (uint8_t)idv; p[2] = 0; p[3] = 20;
	for (int i = 0; i < 16; i += 2) { p[4 + i] = (uint8_t)(nonce & 0xff); p[5 + i] = (uint8_t)(nonce >> 8); }
	size_t used = 20;
	{ /* User-Name */
		p[used] = 1; p[used + 1] = 6; memcpy(p + used + 2, "user", 4); used += 6;
	}
	if (pwd) { /* User-Password: plain text padded to 16, the client encodes it when it signs */
		p[used] = 2; p[used + 1] = 18; memset(p + used + 2, 0, 16); memcpy(p + used + 2, g_pwd_plain, 8); used += 18;
	}
	p[2] = (uint8_t)(used >> 8); p[3] = (uint8_t)used;
	fq->buf.used = used;
	fq->submitted = 1;
	LOGEV("\"e\":\"call.query\",\"q\":%d,\"thr\":%d,\"idany\":%d,\"i\":%d,\"nonce\":%d,\"code\":%d,\"pwd\":%d", q, thr, (idv == RADIUS_CLIENT_QUERY_ID_AUTO), (idv == RADIUS_CLIENT_QUERY_ID_AUTO) ? 0 : (int)idv, nonce, code, pwd);
	/* the handle is stored by the library before the message can run only if we pass query_ret; the start hook looks it up by value */
	vh_cur_q = q;
	int rc = radius_client_query(g_cli, &x02_tp->threads[thr], idv, &fq->buf, user_cb, (void *)(intptr_t)q, &fq->h);
	LOGEV("\"e\":\"ret.query\",\"q\":%d,\"rc\":%d", q, rc);
	if (rc != 0) fq->submitted = 0;
}

typedef struct { sem_t sem; char line[256]; } ctl_t;
static void exec_line(char *line);
static void x02_ctl_cb(tpt_p tpt __unused, void *udata) {
	ctl_t *c = udata;
	if (c->line[0]) exec_line(c->line);
	sem_post(&c->sem);
}
static int on_thread(int thr, const char *line, int wait_ms) { /* run a scenario line on pool thread thr (or just a sentinel) */
	ctl_t *c = __real_calloc(1, sizeof(*c));
	sem_init(&c->sem, 0, 0);
	if (line) strncpy(c->line, line, sizeof(c->line) - 1);
	int rc = tpt_msg_send(&x02_tp->threads[thr], NULL, 0, x02_ctl_cb, c);
	if (rc != 0) { __real_free(c); return rc; }
	struct timespec ts; __real_clock_gettime(CLOCK_REALTIME, &ts);
	ts.tv_sec += wait_ms / 1000; ts.tv_nsec += (long)(wait_ms % 1000) * 1000000L; if (ts.tv_nsec >= 1000000000L) { ts.tv_sec++; ts.tv_nsec -= 1000000000L; }
	if (sem_timedwait(&c->sem, &ts) != 0) { LOGEV("\"e\":\"Hang\",\"where\":\"ctl\",\"q\":0"); flush_log(); _exit(3); } /* the pool thread stopped serving: the execution ends here */
	sem_destroy(&c->sem); __real_free(c);
	return 0;
}

static int fill_reply(uint8_t *o, const uint8_t *req, int k, const char *kind, long d) {
	fsrv_t *sv = &g_srv[k];
	int code = 2, id = req[1];
	const uint8_t *secret = sv->secret; size_t sl = sv->secret_len;
	if (!strcmp(kind, "wrongid")) id = (id + 1) & 0xff;
	if (!strcmp(kind, "reqcode")) code = 1;
	if (!strcmp(kind, "stcode")) code = 13;
	if (!strcmp(kind, "reject")) code = 3;
	if (!strcmp(kind, "wrongsecret")) { secret = (const uint8_t *)"not-the-secret"; sl = 14; }
	size_t len = 28;
	o[0] = (uint8_t)code; o[1] = (uint8_t)id; o[2] = 0; o[3] = (uint8_t)len;
	o[20] = 18; o[21] = 8; snprintf((char *)o + 22, 7, "D%05ld", d % 100000);
	if (code == 1 || code == 13) { for (int i = 0; i < 16; i++) o[4 + i] = (uint8_t)(0xA5 ^ i ^ d); }
	else {
		md5_ctx_t c; md5_init(&c);
		md5_update(&c, o, 4); md5_update(&c, req + 4, 16); md5_update(&c, o + 20, len - 20); md5_update(&c, secret, sl);
		md5_final(&c, o + 4);
	}
	if (!strcmp(kind, "badauth")) o[19] ^= 0x01;
	if (!strcmp(kind, "malformed")) { o[3] = (uint8_t)(len + 8); }
	if (!strcmp(kind, "short")) return 12;
	return (int)len;
}

static void rnd_set(const char *args) { /* rnd d:class ... ; class zero|pos1|neg1 - search a clock value giving exactly these jitters */
	uint64_t dv[16]; int cl[16]; int n = 0;
	const char *p = args;
	while (n < 16) {
		unsigned long long d; char c[16];
		while (*p == ' ') p++;
		if (sscanf(p, "%llu:%15s", &d, c) != 2) break;
		dv[n] = d; cl[n] = !strcmp(c, "zero") ? 0 : !strcmp(c, "pos1") ? 1 : 2; n++;
		while (*p && *p != ' ') p++;
	}
	int found = 0;
	vh_probe = 1; g_force_clk = 1;
	for (long cand = 1; cand < 30000 && !found; cand++) {
		g_forced_ts.tv_sec = 1000 + cand / 1000000; g_forced_ts.tv_nsec = (cand % 1000000) * 7;
		int ok = 1;
		for (int i = 0; i < n && ok; i++) {
			uint64_t r = radius_client_rnd_factor(NULL, dv[i]);
			uint64_t want = (cl[i] == 0) ? 0 : (cl[i] == 1) ? dv[i] : (uint64_t)0 - dv[i];
			if (r != want) ok = 0;
		}
		if (ok) found = 1;
	}
	vh_probe = 0;
	if (!found) g_force_clk = 0;
	pthread_mutex_lock(&g_log_mu);
	logf_locked("\"e\":\"rnd\",\"found\":%d,\"map\":[", found);
	g_log_len -= 2;
	for (int i = 0; i < n; i++) g_log_len += (size_t)snprintf(g_log + g_log_len, 64, "%s[%llu,\"%s\"]", i ? "," : "", (unsigned long long)dv[i], cl[i] == 0 ? "zero" : cl[i] == 1 ? "pos1" : "neg1");
	g_log_len += (size_t)snprintf(g_log + g_log_len, 8, "]}\n");
	pthread_mutex_unlock(&g_log_mu);
}

static void exec_line(char *line) {
	char op[32]; int a = 0, b = 0, c = 0, d = 0, e = 0, f = 0, g = 0;
	if (sscanf(line, "%31s", op) < 1 || op[0] == '#') return;
	const char *args = line + strlen(op);
	while (*args == ' ') args++;
	if (!strcmp(op, "pool")) { /* pool N */
		sscanf(args, "%d", &a);
		tp_settings_t s; tp_settings_def(&s);
		s.flags = 0; s.threads_max = (size_t)a;
		g_nthr = (size_t)a; x02_tp = NULL;
		tp_p tp = NULL;
		int rc = tp_create(&s, &tp);
		x02_tp = tp;
		if (rc == 0) rc = tp_threads_create(tp, 0);
		for (int t = 0; rc == 0 && t < 20000; t++) {
			size_t ok = 0;
			for (size_t i = 0; i < g_nthr; i++) if (x02_tp->threads[i].state == TP_THREAD_STATE_RUNNING) ok++;
			if (ok == g_nthr) break;
			usleep(100);
		}
		LOGEV("\"e\":\"pool\",\"nthr\":%d,\"rc\":%d", a, rc);
	} else if (!strcmp(op, "poolstop")) {
		tp_shutdown(x02_tp); tp_shutdown_wait(x02_tp); tp_destroy(x02_tp); x02_tp = NULL;
		LOGEV("\"e\":\"poolstop\"");
	} else if (!strcmp(op, "client")) { /* client smin smax [nas] */
		sscanf(args, "%d %d %d", &a, &b, &c);
		radius_cli_settings_t s; radius_client_def_settings(&s);
		s.thr_sockets_min = (size_t)a; s.thr_sockets_max = (size_t)b; s.servers_max = MAXSRV;
		if (c) { memcpy(s.NAS_Identifier, "x02-nas", 7); s.NAS_Identifier_size = 7; }
		pthread_mutex_lock(&g_led_mu); g_nsk = 0; g_ntfd = 0; g_nqmem = 0; g_u = 0; g_nsreg = 0; pthread_mutex_unlock(&g_led_mu);
		g_x = 0; g_d = 0; g_nsrv = 0; g_sockfail = 0; memset((void *)g_arr_freed, 0, sizeof(g_arr_freed));
		memset(g_q, 0, sizeof(g_q));
		int rc = radius_client_create(x02_tp, &s, &g_cli);
		memset(g_tab, 0, sizeof(g_tab));
		for (size_t t = 0; rc == 0 && t < g_cli->thr_count && t < 64; t++) { g_tab[t][0] = g_cli->thr[t].skts4.skt; g_tab[t][1] = g_cli->thr[t].skts6.skt; }
		g_cli_live = (rc == 0);
		LOGEV("\"e\":\"client\",\"smin\":%d,\"smax\":%d,\"nas\":%d,\"nthr\":%zu,\"rcvkb\":%u,\"sndkb\":%u,\"rc\":%d", a ? a : 1, (b < (a ? a : 1)) ? (a ? a : 1) : b, c, g_nthr, s.skt_rcv_buf, s.skt_snd_buf, rc);
	} else if (!strcmp(op, "server")) { /* server k fam irt mrt mrd mrc sec */
		sscanf(args, "%d %d %d %d %d %d %d", &a, &b, &c, &d, &e, &f, &g);
		fsrv_t *sv = &g_srv[a]; memset(sv, 0, sizeof(*sv));
		if (a > g_nsrv) g_nsrv = a;
		sv->fam = b; sv->sec = g;
		sv->secret_len = (size_t)snprintf((char *)sv->secret, sizeof(sv->secret), "secret-%d", g);
		sv->fd = __real_socket((b == 6) ? AF_INET6 : AF_INET, SOCK_DGRAM, 0);
		struct sockaddr_storage sa; memset(&sa, 0, sizeof(sa)); socklen_t sl;
		if (b == 6) { struct sockaddr_in6 *s6 = (void *)&sa; s6->sin6_family = AF_INET6; s6->sin6_addr = in6addr_loopback; sl = sizeof(*s6); }
		else { struct sockaddr_in *s4 = (void *)&sa; s4->sin_family = AF_INET; s4->sin_addr.s_addr = htonl(INADDR_LOOPBACK); sl = sizeof(*s4); }
		if (bind(sv->fd, (struct sockaddr *)&sa, sl) != 0) { LOGEV("\"e\":\"BadOp\",\"op\":\"bind\""); return; }
		socklen_t al = sizeof(sv->addr); getsockname(sv->fd, (struct sockaddr *)&sv->addr, &al);
		sv->port = sa_port_get(&sv->addr);
		if (g_foreign4 < 0) {
			g_foreign4 = __real_socket(AF_INET, SOCK_DGRAM, 0);
			g_foreign6 = __real_socket(AF_INET6, SOCK_DGRAM, 0);
		}
		radius_cli_srv_settings_t ss; radius_client_server_def_settings(&ss);
		memcpy(ss.shared_secret, sv->secret, sv->secret_len); ss.shared_secret_size = sv->secret_len;
		ss.retrans_time_init = (uint64_t)c; ss.retrans_time_max = (uint64_t)d; ss.retrans_duration_max = (uint64_t)e; ss.retrans_count_max = (size_t)f;
		memcpy(&ss.addr, &sv->addr, sizeof(ss.addr));
		int rc = radius_client_server_add(g_cli, &ss);
		LOGEV("\"e\":\"server\",\"k\":%d,\"fam\":%d,\"irt\":%d,\"mrt\":%d,\"mrd\":%d,\"mrc\":%d,\"sec\":%d,\"rc\":%d", a, b, c, d, e, f, g, rc);
	} else if (!strcmp(op, "rnd")) { rnd_set(args);
	} else if (!strcmp(op, "unreach")) { /* unreach k errno */
		sscanf(args, "%d %d", &a, &b);
		pthread_mutex_lock(&g_log_mu); g_srv[a].unreach = b; logf_locked("\"e\":\"unreach\",\"k\":%d,\"err\":%d", a, b); pthread_mutex_unlock(&g_log_mu);
	} else if (!strcmp(op, "sockfail")) { sscanf(args, "%d", &a); g_sockfail = a; LOGEV("\"e\":\"sockfail\",\"err\":%d", a);
	} else if (!strcmp(op, "query")) { /* query q thr id|auto nonce code pwd */
		sscanf(args, "%d", &a);
		const char *r = strchr(args, ' ');
		do_query(a, r ? r + 1 : "");
	} else if (!strcmp(op, "tquery")) { /* the same call made on pool thread thr: tquery thr q ... */
		sscanf(args, "%d", &a);
		char l2[256]; snprintf(l2, sizeof(l2), "query %s", strchr(args, ' ') ? strchr(args, ' ') + 1 : "");
		on_thread(a, l2, 10000);
	} else if (!strcmp(op, "qc")) { /* query + cancel in one go (on a pool thread: the query message is still queued) */
		sscanf(args, "%d", &a);
		const char *r = strchr(args, ' ');
		do_query(a, r ? r + 1 : "");
		char l2[64]; snprintf(l2, sizeof(l2), "cancel %d", a); exec_line(l2);
	} else if (!strcmp(op, "tqc")) { /* tqc thr q ... */
		sscanf(args, "%d", &a);
		char l2[256]; snprintf(l2, sizeof(l2), "qc %s", strchr(args, ' ') ? strchr(args, ' ') + 1 : "");
		on_thread(a, l2, 10000);
	} else if (!strcmp(op, "srvrx")) { /* srvrx k timeout_ms */
		sscanf(args, "%d %d", &a, &b);
		fsrv_t *sv = &g_srv[a];
		struct pollfd pf = { sv->fd, POLLIN, 0 };
		int pr = poll(&pf, 1, b);
		if (pr <= 0) { LOGEV("\"e\":\"srv.idle\",\"k\":%d", a); return; }
		if (sv->nrx >= MAXRX) { LOGEV("\"e\":\"BadOp\",\"op\":\"srvrx-full\""); return; }
		int n = sv->nrx;
		sv->rx[n].fromlen = sizeof(sv->rx[n].from);
		ssize_t l = __real_recvfrom(sv->fd, sv->rx[n].b, sizeof(sv->rx[n].b), 0, (struct sockaddr *)&sv->rx[n].from, &sv->rx[n].fromlen);
		if (l < 0) { LOGEV("\"e\":\"srv.idle\",\"k\":%d", a); return; }
		sv->rx[n].len = (size_t)l;
		pthread_mutex_lock(&g_log_mu);
		long x = (sv->fl > 0) ? sv->fifo[sv->fh] : 0;
		if (sv->fl > 0) { sv->fh = (sv->fh + 1) % 4096; sv->fl--; }
		sv->rx[n].x = x; sv->nrx++;
		logf_locked("\"e\":\"srv.rx\",\"k\":%d,\"x\":%ld,\"n\":%d,\"i\":%d,\"nonce\":%d", a, x, n, sv->rx[n].b[1], nonce_of(sv->rx[n].b));
		pthread_mutex_unlock(&g_log_mu);
	} else if (!strcmp(op, "reply")) { /* reply k n kind [times] */
		char kind[32] = "good"; c = 1;
		sscanf(args, "%d %d %31s %d", &a, &b, kind, &c);
		fsrv_t *sv = &g_srv[a];
		if (b >= sv->nrx) { LOGEV("\"e\":\"BadOp\",\"op\":\"reply-norx\""); return; }
		for (int rep = 0; rep < c; rep++) {
			uint8_t o[64];
			long dd = ++g_d;
			int l = fill_reply(o, sv->rx[b].b, a, kind, dd);
			pthread_mutex_lock(&g_led_mu);
			long u = sk_by_port(sa_port_get(&sv->rx[b].from), sv->fam);
			pthread_mutex_unlock(&g_led_mu);
			int fd = sv->fd;
			if (!strcmp(kind, "wrongsrc")) fd = (sv->fam == 6) ? g_foreign6 : g_foreign4;
			long before = g_rxcnt;
			pthread_mutex_lock(&g_log_mu);
			logf_locked("\"e\":\"srv.tx\",\"k\":%d,\"d\":%ld,\"x\":%ld,\"kind\":\"%s\",\"u\":%ld", a, dd, sv->rx[b].x, kind, u);
			__real_sendto(fd, o, (size_t)l, 0, (struct sockaddr *)&sv->rx[b].from, sv->rx[b].fromlen);
			pthread_mutex_unlock(&g_log_mu);
			/* pace: give the client the chance to read this datagram before the next one is sent (the kernel drops what
			 * does not fit into the receive buffer the client configured); a dup burst (times > 1) stays a burst */
			if (u && rep == c - 1) for (int w = 0; w < 1500 && g_rxcnt < before + c; w++) usleep(200);
		}
	} else if (!strcmp(op, "waitcb")) { /* waitcb q ms */
		sscanf(args, "%d %d", &a, &b);
		for (int t = 0; t < b * 5 && !g_q[a].cbdone; t++) usleep(200);
		if (!g_q[a].cbdone) { LOGEV("\"e\":\"Hang\",\"where\":\"waitcb\",\"q\":%d", a); flush_log(); _exit(3); } /* a bounded wait expired: the execution ends here */
	} else if (!strcmp(op, "cancel")) { /* cancel q : on the owning thread, only while the callback has not run */
		sscanf(args, "%d", &a);
		if (tid_now() >= 100) { char l2[64]; snprintf(l2, sizeof(l2), "cancel %d", a); on_thread(g_q[a].thr, l2, 10000); return; }
		if (g_q[a].submitted && !g_q[a].cbdone && !g_q[a].cancelled) {
			g_q[a].cancelled = 1;
			LOGEV("\"e\":\"call.cancel\",\"q\":%d", a);
			radius_client_query_cancel(g_q[a].h);
			LOGEV("\"e\":\"ret.cancel\",\"q\":%d", a);
		} else LOGEV("\"e\":\"skip.cancel\",\"q\":%d", a);
	} else if (!strcmp(op, "settle")) {
		int unread = 0;
		for (int w = 0; w < 5000; w++) { /* bounded: a client that stopped reading leaves data in its socket */
			unread = 0;
			pthread_mutex_lock(&g_led_mu);
			for (int i = 0; i < g_nsk; i++) { int n = 0; if (0 == ioctl(g_sk[i].fd, FIONREAD, &n) && n > 0) unread++; }
			pthread_mutex_unlock(&g_led_mu);
			if (!unread) break;
			usleep(1000);
		}
		for (size_t i = 0; i < g_nthr; i++) on_thread((int)i, NULL, 10000);
		pthread_mutex_lock(&g_led_mu); int nq = g_nqmem, nt = g_ntfd, ns = g_nsk; pthread_mutex_unlock(&g_led_mu);
		LOGEV("\"e\":\"settled\",\"qmem\":%d,\"tfds\":%d,\"skts\":%d,\"unread\":%d", nq, nt, ns, unread);
	} else if (!strcmp(op, "destroy")) {
		LOGEV("\"e\":\"call.destroy\"");
		radius_client_destroy(g_cli);
		g_cli = NULL;
		pthread_mutex_lock(&g_led_mu); int nq = g_nqmem, nt = g_ntfd, ns = g_nsk; pthread_mutex_unlock(&g_led_mu);
		LOGEV("\"e\":\"ret.destroy\",\"qmem\":%d,\"tfds\":%d,\"skts\":%d", nq, nt, ns);
		g_cli_live = 0;
		for (int k = 1; k <= g_nsrv; k++) if (g_srv[k].fd > 0) { __real_close(g_srv[k].fd); g_srv[k].fd = -1; }
		g_nsrv = 0;
	} else if (!strcmp(op, "sleep")) { sscanf(args, "%d", &a); usleep((useconds_t)a * 1000);
	} else if (!strcmp(op, "watchdog")) { sscanf(args, "%d", &a); alarm((unsigned)a);
	} else if (!strcmp(op, "reset")) { LOGEV("\"e\":\"Reset\"");
	} else {
		LOGEV("\"e\":\"BadOp\",\"op\":\"%s\"", op);
	}
}

int main(int argc, char **argv) {
	if (argc < 3) { fprintf(stderr, "usage: x02_drv scenario trace\n"); return 2; }
	g_out_path = argv[2];
	vh_tid = 100;
	if (__sanitizer_set_death_callback) __sanitizer_set_death_callback(death_cb);
	signal(SIGALRM, on_alarm);
	signal(SIGPROF, on_alarm);
	signal(SIGPIPE, SIG_IGN);
	signal(SIGSEGV, on_crash); signal(SIGBUS, on_crash);
	g_log_cap = 1u << 22; g_log = malloc(g_log_cap);
	FILE *f = fopen(argv[1], "r");
	if (!f) { perror("scenario"); return 2; }
	char line[512];
	{	/* watchdog of the whole scenario (a pool thread that never comes back from the client, or a wait that never ends): a
		 * scenario needs < 0.1 s of CPU time and (its timers are real) < 4 s of wall clock; 10 s of CPU time of the process
		 * (all threads; robust on a loaded machine) and X02_WD_WALL (quick tier 40, default 120) s of wall clock -> "Hang where=watchdog" ends the trace */
		struct itimerval it; memset(&it, 0, sizeof(it)); it.it_value.tv_sec = 10;
		setitimer(ITIMER_PROF, &it, NULL);
		alarm((getenv("X02_WD_WALL") && atoi(getenv("X02_WD_WALL")) > 0) ? (unsigned)atoi(getenv("X02_WD_WALL")) : 120);
	}
	while (fgets(line, sizeof(line), f)) {
		size_t l = strlen(line);
		while (l && (line[l - 1] == '\n' || line[l - 1] == '\r')) line[--l] = 0;
		exec_line(line);
	}
	fclose(f);
	alarm(0);
	flush_log();
	return 0;
}
