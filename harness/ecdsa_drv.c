/* Conformance driver for include/crypto/dsa/ecdsa.h (properties C03 and C09; built once per CONFIGURATION).
 * The arithmetic configuration macros (BN_DIGIT_BIT_CNT, BN_CC_MULL_DIV, EC_USE_PROJECTIVE, EC_PROJ_ADD_MIX,
 * EC_PROJ_REPEAT_DOUBLE, EC_PF_FXP_MULT_ALGO/_WIN_BITS, EC_PF_UNKPT_MULT_ALGO/_WIN_BITS, EC_PF_TWIN_MULT_ALGO) come
 * from the build command line exactly as a user of the header sets them; -DVH_NO_PUBKEY_CHK builds the
 * EC_DISABLE_PUB_KEY_CHK variant (public keys are not validated on import).
 *
 * Curves: the 32 built-in ones and the synthetic ones of specs/ec/EcCurves.tla (same ec_curve_str_t entries as
 * harness/ec_drv.c), loaded through ecdsa_curve_from_str().  <alg> = e | g sets curve->algo (ECDSA / GOST20XX) for
 * the call, '-' keeps the table's value.
 *
 * Every byte-string argument of the library is an exactly-sized heap block (ASan red zones on both sides; output
 * blocks are exactly as large as the header documents the result to be) -- that is how "reads and writes only within
 * the sizes the caller passed" is observed.  Before every library call 256 KiB of stack are filled with 0xA5.
 *
 * Protocol: one case per stdin line, one answer line per case.  <hex> = octets in memory order ("-" = absent/NULL),
 * <int> = big-endian hex number without leading zeros.  ord = be | le selects the *_be / *_le entry points; api = be | le | bn
 * (bn = the bn_t level functions ecdsa_sign / ecdsa_verify / ecdsa_verify_priv_key / ecdsa_key_gen / ecdsa_dh).
 *
 *  cfg                                          -> cfg digit=.. proj=.. ... pubchk=0|1
 *  curves                                       -> curves <name>:<algo> ...
 *  curve <name>                                 -> curve rc=.. m=.. bytes=.. p=.. a=.. b=.. gx=.. gy=.. n=.. h=.. algo=..
 *  --- raw byte entry points (sizes = the sizes of the given blocks) -------------------------------------------
 *  sign <c> <alg> <ord> <hash> <priv> <rnd>     -> sign rc=.. r=<hex> s=<hex> size=..
 *  verify <c> <alg> <ord> <hash> <r> <s> <x> <y|->        -> verify rc=..
 *  verifyp <c> <alg> <ord> <hash> <r> <s> <priv>          -> verifyp rc=..
 *  keygen <c> <ord> <compress> <ysep 0|1> <rnd>           -> keygen rc=.. priv=<hex> x=<hex> y=<hex|-> size=..
 *  pubkey <c> <ord> <compress> <ysep 0|1> <priv>          -> pubkey rc=.. x=<hex> y=<hex|-> size=..
 *  dh <c> <ord> <cof 0|1> <x> <y|-> <priv>                -> dh rc=.. z=<hex> size=..
 *  import <c> <ord> <x> <y|->                             -> import rc=.. pt=<x,y|inf>
 *  export <c> <ord> <compress> <ysep 0|1> <pt>            -> export rc=.. x=<hex> y=<hex|-> size=..
 *  --- loops over small domains (synthetic curves; numbers < 2^32) ---------------------------------------------
 *  signrow <c> <alg> <api> <d:int> <hash:hex|int> <rnds>  -> ok <r>:<s>|!<rc> ...      rnds = all | a-b | v,v,...
 *  vlist <c> <alg> <api> <x> <y|-> <hash> <r:s,...>       -> ok <verdict letters>      (bn: x, y are <int> or inf -)
 *  vgrid <c> <alg> <api> <x> <y|-> <hash> <max:int>       -> ok n=.. codes=.. acc=r:s,...
 *  vplist / vpgrid <c> <alg> <api> <d:int> <hash> ...     -> same with ecdsa_verify_priv_key*
 *  impscan <c> <ord> <fixed:hex> <nvar> [<y:hex>]         -> ok n=.. acc=<var-hex>=<x,y|inf> ...   all fixed||v, v of nvar octets
 *  impsep <c> <ord> <x:hex>                               -> ok n=.. acc=<y-hex>=<x,y> ...          separate form, every y block
 * verdict letters: A accept (0), B bad signature (-2), F failure (-1), I EINVAL, O any other non-zero code.   */
#include <sys/param.h>
#include <sys/types.h>
#include <inttypes.h>
#include <stdlib.h>
#include <stdio.h>
#include <unistd.h>
#include <string.h>
#include <errno.h>

#ifndef BN_BIT_LEN
#define BN_BIT_LEN 1408
#endif
#define BN_NO_POINTERS_CHK 1
#define BN_MOD_REDUCE_ALGO BN_MOD_REDUCE_ALGO_BASIC
#ifdef VH_NO_PUBKEY_CHK
#define EC_DISABLE_PUB_KEY_CHK 1
#endif

#include "vh_util.h"
#include "crypto/dsa/ecdsa.h"

#define TOY(nm, hexlen, mbits, P, A, B, GX, GY, N, H, FL) \
	{ nm, sizeof(nm) - 1, "0.0", 3, hexlen, 4, mbits, {0}, P, "00", 2, A, B, GX, GY, N, H, EC_CURVE_ALGO_ECDSA, FL }
static ec_curve_str_t toy_curves[] = {
	/* name      hex  m   p       a       b       Gx      Gy      n       h  flags        (specs/ec/EcCurves.tla) */
	TOY("E8M3",   2,  8,  "fb",   "f8",   "1a",   "02",   "a7",   "df",   1, EC_CURVE_FLAG_A_M3),
	TOY("E8G",    2,  8,  "ef",   "05",   "3b",   "03",   "24",   "e5",   1, 0),
	TOY("E8Z",    2,  8,  "f1",   "00",   "0d",   "03",   "2f",   "d3",   1, 0),
	TOY("E8C4",   2,  8,  "fb",   "02",   "24",   "02",   "35",   "3b",   4, 0),
	TOY("E13",    4,  13, "1fff", "04d2", "0031", "000f", "0cde", "1f99", 1, 0),
	TOY("E16M3",  4,  16, "fff1", "ffee", "000a", "0006", "1c90", "fe9f", 1, EC_CURVE_FLAG_A_M3),
};

/* Non-termination watchdog, re-armed before EVERY library call (dirty_stack() precedes each of them), so that a row of
 * thousands of calls on a toy curve needs no larger budget than one call: WD_CPU_S seconds of CPU time, WD_WALL_S of wall clock. */
static unsigned wd_cpu_s = 60;     /* ECDSA_DRV_WD_CPU: the slowest single call measured (521-bit curve, 8-bit digits) costs 1.4 s of CPU time */
#define WD_CPU_S wd_cpu_s
#define WD_WALL_S (6 * wd_cpu_s)
static void __attribute__((noinline)) dirty_stack(void) {
	unsigned char junk[262144];
	vh_watchdog(WD_CPU_S, WD_WALL_S);
	memset(junk, 0xA5, sizeof(junk));
	__asm__ volatile("" : : "r"(junk) : "memory");
}

/* ---- number I/O that does not go through the library's own import/export code ---- */
static void bn_from_hex(bn_p bn, size_t bits, const char *s) {
	size_t i, n = strlen(s), dig = 0;
	if (0 != bn_init(bn, bits)) { printf("FATAL bn_init(%zu)\n", bits); exit(3); }
	memset(bn->num, 0xA5, sizeof(bn->num));
	for (i = 0; i < bn->count; i++) bn->num[i] = 0;
	for (i = 0; i < n; i++) {
		int v = vh_hexval(s[n - 1 - i]);
		size_t bit = i * 4;
		if (v < 0) { printf("FATAL bad hex '%s'\n", s); exit(3); }
		if (v == 0) continue;
		if (bit / BN_DIGIT_BITS >= bn->count) { printf("FATAL number does not fit\n"); exit(3); }
		bn->num[bit / BN_DIGIT_BITS] |= ((bn_digit_t)v) << (bit % BN_DIGIT_BITS);
		if (bit / BN_DIGIT_BITS + 1 > dig) dig = bit / BN_DIGIT_BITS + 1;
	}
	bn->digits = dig;
	for (i = dig; i < bn->count; i++) memset(&bn->num[i], 0xA5, sizeof(bn_digit_t)); /* garbage above `digits`, as after bn_init() */
}
static void bn_from_u64(bn_p bn, size_t bits, uint64_t v) {
	char t[32];
	snprintf(t, sizeof(t), "%" PRIx64, v);
	bn_from_hex(bn, bits, t);
}
static void bn_put_hex(bn_p bn) {
	int started = 0;
	for (size_t i = bn->digits; i > 0; i--) {
		bn_digit_t d = bn->num[i - 1];
		for (int sh = (int)BN_DIGIT_BITS - 4; sh >= 0; sh -= 4) {
			int v = (int)((d >> sh) & 0xf);
			if (!started && v == 0) continue;
			started = 1;
			putchar("0123456789abcdef"[v]);
		}
	}
	if (!started) putchar('0');
}
static void pt_from_str(ec_point_p pt, size_t bits, const char *xs, const char *ys) {
	if (0 != ec_point_init(pt, bits)) { printf("FATAL ec_point_init\n"); exit(3); }
	if (!strcmp(xs, "inf")) {
		bn_from_hex(&pt->x, bits, "5a"); bn_from_hex(&pt->y, bits, "a5");   /* coordinates of the neutral element are garbage */
		pt->infinity = 1;
		return;
	}
	bn_from_hex(&pt->x, bits, xs); bn_from_hex(&pt->y, bits, ys);
	pt->infinity = 0;
}
static void pt_put(ec_point_p pt) {
	if (pt->infinity) { fputs("inf", stdout); return; }
	bn_put_hex(&pt->x); putchar(','); bn_put_hex(&pt->y);
}
static void put_int(uint8_t *buf, size_t len, uint64_t v, int le) {   /* v < 256^len */
	for (size_t i = 0; i < len; i++) {
		uint8_t b = (uint8_t)(v >> (8 * i));
		if (le) buf[i] = b; else buf[len - 1 - i] = b;
	}
}
static uint64_t get_int(const uint8_t *buf, size_t len, int le) {
	uint64_t v = 0;
	for (size_t i = 0; i < len; i++) v |= ((uint64_t)(le ? buf[i] : buf[len - 1 - i])) << (8 * i);
	return v;
}
static char verdict(int rc) {
	if (rc == 0) return 'A';
	if (rc == -2) return 'B';
	if (rc == -1) return 'F';
	if (rc == EINVAL) return 'I';
	return 'O';
}

/* ---- curves ---- */
#define MAX_CURVES 48
static ec_curve_t *loaded[MAX_CURVES];
static const char *loaded_name[MAX_CURVES];
static int loaded_rc[MAX_CURVES];
static uint32_t loaded_algo[MAX_CURVES];
static size_t nloaded;
static ec_curve_p get_curve(const char *name, const char *alg, int *rc_ret) {
	size_t i, k = nloaded;
	ec_curve_str_p cs = NULL;
	for (i = 0; i < nloaded; i++)
		if (!strcmp(loaded_name[i], name)) k = i;
	if (k == nloaded) {
		for (i = 0; i < nitems(toy_curves); i++)
			if (!strcmp(toy_curves[i].name, name)) cs = &toy_curves[i];
		for (i = 0; !cs && i < nitems(ec_curve_str); i++)        /* by the table's own string (one name_size field is off by one) */
			if (!strcmp(ec_curve_str[i].name, name)) cs = &ec_curve_str[i];
		if (!cs || nloaded >= MAX_CURVES) { printf("FATAL unknown curve %s\n", name); exit(3); }
		loaded[k] = malloc(sizeof(ec_curve_t));
		loaded_name[k] = strdup(name);
		dirty_stack();
		loaded_rc[k] = ecdsa_curve_from_str(cs, loaded[k]);
		loaded_algo[k] = cs->algo;
		nloaded++;
	}
	if (rc_ret) *rc_ret = loaded_rc[k];
	loaded[k]->algo = (alg && alg[0] == 'e') ? EC_CURVE_ALGO_ECDSA :
	    (alg && alg[0] == 'g') ? EC_CURVE_ALGO_GOST20XX : loaded_algo[k];
	return loaded[k];
}

/* ---- one verification through the chosen API; x/y: key octets (be/le) or numbers (bn) ---- */
typedef struct {
	ec_curve_p cv; int api;            /* 0 be, 1 le, 2 bn */
	uint8_t *hash; size_t hlen;        /* be/le */
	uint8_t *kx, *ky; size_t klen;     /* be/le: key blocks */
	bn_t hbn; ec_point_t q;            /* bn */
	bn_t dbn; uint8_t *dbuf;           /* verify with private key */
	size_t bytes;
} vctx_t;
static int do_verify(vctx_t *v, uint64_t r, uint64_t s, int priv) {
	int rc;
	if (v->api == 2) {
		bn_t rb, sb, hb; size_t bits = EC_CURVE_CALC_BITS_DBL(v->cv);
		bn_from_u64(&rb, bits, r); bn_from_u64(&sb, bits, s);
		hb = v->hbn;
		dirty_stack();
		if (priv) { bn_t d = v->dbn; rc = ecdsa_verify_priv_key(v->cv, &hb, &rb, &sb, &d); }
		else { ec_point_t q = v->q; rc = ecdsa_verify(v->cv, &hb, &rb, &sb, &q); }
		return rc;
	}
	uint8_t *rb = vh_buf(v->bytes), *sb = vh_buf(v->bytes);
	put_int(rb, v->bytes, r, v->api); put_int(sb, v->bytes, s, v->api);
	dirty_stack();
	if (priv)
		rc = (v->api ? ecdsa_verify_priv_key_le : ecdsa_verify_priv_key_be)(v->cv, v->hash, v->hlen, rb, sb, v->bytes, v->dbuf, v->bytes);
	else
		rc = (v->api ? ecdsa_verify_le : ecdsa_verify_be)(v->cv, v->hash, v->hlen, rb, sb, v->bytes, v->kx, v->ky, v->klen);
	vh_buf_free(rb); vh_buf_free(sb);
	return rc;
}
static int api_of(const char *s) { return !strcmp(s, "be") ? 0 : !strcmp(s, "le") ? 1 : !strcmp(s, "bn") ? 2 : -1; }

#define MAXTOK 64
static char *tok[MAXTOK];
static uint8_t *opt_unhex(const char *s, size_t *n) {  /* "-" = NULL */
	if (s[0] == '-' && s[1] == 0) { *n = 0; return NULL; }
	return vh_unhex(s, n);
}
static void put_hex_or_dash(const uint8_t *p, size_t n, int present) {
	if (!present) { fputs("-", stdout); return; }
	vh_puthex(p, n);
}

int main(void) {
	char *line = NULL; size_t lcap = 0; ssize_t ll;
	vh_install_fault_handler();
	if (getenv("ECDSA_DRV_WD_CPU") && atoi(getenv("ECDSA_DRV_WD_CPU")) > 0) wd_cpu_s = (unsigned)atoi(getenv("ECDSA_DRV_WD_CPU"));
	while ((ll = getline(&line, &lcap, stdin)) > 0) {
		size_t nt = 0, i;
		char tag[200];
		snprintf(tag, sizeof(tag), "%.190s", line);
		for (char *p = tag; *p; p++) if (*p == '\n') *p = 0;
		vh_set_tag(tag);
		for (char *p = strtok(line, " \n"); p && nt < MAXTOK; p = strtok(NULL, " \n")) tok[nt++] = p;
		if (nt == 0) continue;
		const char *op = tok[0];
		vh_watchdog(WD_CPU_S, WD_WALL_S);
		if (!strcmp(op, "cfg")) {
			int proj = 0, mix = 0, rdbl = 0, mulldiv = 0, pubchk = 1;
#ifdef EC_USE_PROJECTIVE
			proj = 1;
#endif
#ifdef EC_PROJ_ADD_MIX
			mix = 1;
#endif
#ifdef EC_PROJ_REPEAT_DOUBLE
			rdbl = 1;
#endif
#ifdef BN_CC_MULL_DIV
			mulldiv = 1;
#endif
#ifdef EC_DISABLE_PUB_KEY_CHK
			pubchk = 0;
#endif
			printf("cfg digit=%d bitlen=%d mulldiv=%d proj=%d mix=%d rdbl=%d fxp=%d fxpw=%d unk=%d unkw=%d twin=%d pubchk=%d ncurves=%zu\n",
			    (int)BN_DIGIT_BITS, (int)BN_BIT_LEN, mulldiv, proj, mix, rdbl, (int)EC_PF_FXP_MULT_ALGO,
			    (int)EC_PF_FXP_MULT_WIN_BITS, (int)EC_PF_UNKPT_MULT_ALGO, (int)EC_PF_UNKPT_MULT_WIN_BITS,
			    (int)EC_PF_TWIN_MULT_ALGO, pubchk, (size_t)nitems(ec_curve_str));
			continue;
		}
		if (!strcmp(op, "curves")) {
			printf("curves");
			for (i = 0; i < nitems(ec_curve_str); i++) printf(" %s:%u", ec_curve_str[i].name, ec_curve_str[i].algo);
			printf("\n");
			continue;
		}
		if (nt < 2) { printf("FATAL short line\n"); exit(3); }
		int crc = 0;
		if (!strcmp(op, "curve")) {
			ec_curve_p cv = get_curve(tok[1], NULL, &crc);
			printf("curve rc=%d", crc);
			if (crc == 0) {
				printf(" m=%zu bytes=%zu p=", cv->m, (size_t)EC_CURVE_CALC_BYTES(cv)); bn_put_hex(&cv->p);
				printf(" a="); bn_put_hex(&cv->a); printf(" b="); bn_put_hex(&cv->b);
				printf(" gx="); bn_put_hex(&cv->G.x); printf(" gy="); bn_put_hex(&cv->G.y);
				printf(" n="); bn_put_hex(&cv->n);
				printf(" h=%u algo=%u flags=%u", cv->h, cv->algo, cv->flags);
			}
			printf("\n");
			continue;
		}
		/* ------------------------------------------------------------ raw byte entry points */
		if (!strcmp(op, "sign") && nt == 7) {
			ec_curve_p cv = get_curve(tok[1], tok[2], &crc);
			int le = api_of(tok[3]); size_t bytes = EC_CURVE_CALC_BYTES(cv), hl, dl, kl, ss = 777;
			uint8_t *h = vh_unhex(tok[4], &hl), *d = vh_unhex(tok[5], &dl), *k = vh_unhex(tok[6], &kl);
			uint8_t *r = vh_buf(bytes), *s = vh_buf(bytes);
			dirty_stack();
			int rc = (le ? ecdsa_sign_le : ecdsa_sign_be)(cv, h, hl, d, dl, k, kl, r, s, &ss);
			printf("sign rc=%d r=", rc); put_hex_or_dash(r, bytes, rc == 0);
			printf(" s="); put_hex_or_dash(s, bytes, rc == 0);
			printf(" size=%zu\n", ss);
			vh_buf_free(h); vh_buf_free(d); vh_buf_free(k); vh_buf_free(r); vh_buf_free(s);
			continue;
		}
		if (!strcmp(op, "verify") && nt == 9) {
			ec_curve_p cv = get_curve(tok[1], tok[2], &crc);
			int le = api_of(tok[3]); size_t hl, rl, sl, xl, yl;
			uint8_t *h = vh_unhex(tok[4], &hl), *r = vh_unhex(tok[5], &rl), *s = vh_unhex(tok[6], &sl);
			uint8_t *x = vh_unhex(tok[7], &xl), *y = opt_unhex(tok[8], &yl);
			if (rl != sl) { printf("FATAL r/s sizes differ\n"); exit(3); }
			dirty_stack();
			int rc = (le ? ecdsa_verify_le : ecdsa_verify_be)(cv, h, hl, r, s, rl, x, y, xl);
			printf("verify rc=%d\n", rc);
			vh_buf_free(h); vh_buf_free(r); vh_buf_free(s); vh_buf_free(x); if (y) vh_buf_free(y);
			continue;
		}
		if (!strcmp(op, "verifyp") && nt == 8) {
			ec_curve_p cv = get_curve(tok[1], tok[2], &crc);
			int le = api_of(tok[3]); size_t hl, rl, sl, dl;
			uint8_t *h = vh_unhex(tok[4], &hl), *r = vh_unhex(tok[5], &rl), *s = vh_unhex(tok[6], &sl), *d = vh_unhex(tok[7], &dl);
			if (rl != sl) { printf("FATAL r/s sizes differ\n"); exit(3); }
			dirty_stack();
			int rc = (le ? ecdsa_verify_priv_key_le : ecdsa_verify_priv_key_be)(cv, h, hl, r, s, rl, d, dl);
			printf("verifyp rc=%d\n", rc);
			vh_buf_free(h); vh_buf_free(r); vh_buf_free(s); vh_buf_free(d);
			continue;
		}
		if ((!strcmp(op, "keygen") || !strcmp(op, "pubkey")) && nt == 6) {
			ec_curve_p cv = get_curve(tok[1], NULL, &crc);
			int le = api_of(tok[2]), compress = atoi(tok[3]), ysep = atoi(tok[4]), kg = (op[0] == 'k');
			size_t bytes = EC_CURVE_CALC_BYTES(cv), il, ps = 777, ks = 777;
			/* documented result sizes: compressed 1+bytes; separate bytes + bytes; packed 1+2*bytes (the neutral element: 1) */
			size_t xcap = compress ? 1 + bytes : (ysep ? bytes : 1 + 2 * bytes);
			uint8_t *in = vh_unhex(tok[5], &il), *priv = vh_buf(bytes), *x = vh_buf(xcap), *y = ysep ? vh_buf(bytes) : NULL;
			int rc;
			dirty_stack();
			if (kg) rc = (le ? ecdsa_key_gen_le : ecdsa_key_gen_be)(cv, in, il, compress, priv, &ks, x, y, &ps);
			else rc = (le ? ecdsa_recover_pub_key_from_priv_key_le : ecdsa_recover_pub_key_from_priv_key_be)(cv, in, il, compress, x, y, &ps);
			printf("%s rc=%d", op, rc);
			if (kg) { printf(" priv="); put_hex_or_dash(priv, bytes, rc == 0); printf(" psize=%zu", ks); }
			size_t xs = (rc == 0 && ps <= xcap) ? ps : 0;
			printf(" x="); put_hex_or_dash(x, xs, rc == 0);
			printf(" y="); put_hex_or_dash(y, (rc == 0 && ps == bytes) ? bytes : 0, rc == 0 && y != NULL && !compress && ps == bytes);
			printf(" size=%zu\n", ps);
			vh_buf_free(in); vh_buf_free(priv); vh_buf_free(x); if (y) vh_buf_free(y);
			continue;
		}
		if (!strcmp(op, "dh") && nt == 7) {
			ec_curve_p cv = get_curve(tok[1], NULL, &crc);
			int le = api_of(tok[2]), cof = atoi(tok[3]);
			size_t bytes = EC_CURVE_CALC_BYTES(cv), xl, yl, dl, zs = 777;
			uint8_t *x = vh_unhex(tok[4], &xl), *y = opt_unhex(tok[5], &yl), *d = vh_unhex(tok[6], &dl), *z = vh_buf(bytes);
			dirty_stack();
			int rc = (le ? ecdsa_dh_le : ecdsa_dh_be)(cv, cof, x, y, xl, d, dl, z, &zs);
			printf("dh rc=%d z=", rc); put_hex_or_dash(z, bytes, rc == 0); printf(" size=%zu\n", zs);
			vh_buf_free(x); if (y) vh_buf_free(y); vh_buf_free(d); vh_buf_free(z);
			continue;
		}
		if (!strcmp(op, "import") && nt == 5) {
			ec_curve_p cv = get_curve(tok[1], NULL, &crc);
			int le = api_of(tok[2]); size_t xl, yl; ec_point_t q;
			uint8_t *x = vh_unhex(tok[3], &xl), *y = opt_unhex(tok[4], &yl);
			pt_from_str(&q, cv->m, "5a", "a5");
			dirty_stack();
			int rc = (le ? ecdsa_pub_key_import_le : ecdsa_pub_key_import_be)(cv, x, y, xl, &q);
			printf("import rc=%d pt=", rc);
			if (rc == 0) pt_put(&q); else fputs("-", stdout);
			printf("\n");
			vh_buf_free(x); if (y) vh_buf_free(y);
			continue;
		}
		if (!strcmp(op, "export") && nt == 7) {
			ec_curve_p cv = get_curve(tok[1], NULL, &crc);
			int le = api_of(tok[2]), compress = atoi(tok[3]), ysep = atoi(tok[4]);
			size_t bytes = EC_CURVE_CALC_BYTES(cv), ps = 777; ec_point_t q;
			pt_from_str(&q, cv->m, tok[5], tok[6]);
			/* the neutral element is written as the single octet 00 whatever the form */
			size_t xcap = q.infinity ? 1 : (compress ? 1 + bytes : (ysep ? bytes : 1 + 2 * bytes));
			uint8_t *x = vh_buf(xcap), *y = ysep ? vh_buf(bytes) : NULL;
			dirty_stack();
			int rc = (le ? ecdsa_pub_key_export_le : ecdsa_pub_key_export_be)(cv, compress, &q, x, y, &ps);
			printf("export rc=%d x=", rc); put_hex_or_dash(x, (rc == 0 && ps <= xcap) ? ps : 0, rc == 0);
			printf(" y="); put_hex_or_dash(y, bytes, rc == 0 && y != NULL && !compress && !q.infinity);
			printf(" size=%zu\n", ps);
			vh_buf_free(x); if (y) vh_buf_free(y);
			continue;
		}
		/* ------------------------------------------------------------ loops (synthetic curves) */
		if (!strcmp(op, "signrow") && nt == 7) {
			ec_curve_p cv = get_curve(tok[1], tok[2], &crc);
			int api = api_of(tok[3]); size_t bytes = EC_CURVE_CALC_BYTES(cv), bits = EC_CURVE_CALC_BITS_DBL(cv);
			uint64_t d = strtoull(tok[4], NULL, 16), top = (bytes >= 8) ? ~0ULL : ((1ULL << (8 * bytes)) - 1);
			size_t hl = 0; uint8_t *h = (api == 2) ? NULL : vh_unhex(tok[5], &hl);
			if (crc != 0 || api < 0 || bytes > 4) { printf("FATAL signrow\n"); exit(3); }
			printf("ok");
			const char *spec = tok[6];
			uint64_t lo = 0, hi = 0, *vals = NULL; size_t nv = 0;
			if (!strcmp(spec, "all")) { lo = 0; hi = top; }
			else if (strchr(spec, '-')) { lo = strtoull(spec, NULL, 16); hi = strtoull(strchr(spec, '-') + 1, NULL, 16); }
			else {
				vals = malloc(sizeof(uint64_t) * (strlen(spec) / 2 + 2));
				for (const char *p = spec; *p; ) { char *e; vals[nv++] = strtoull(p, &e, 16); p = (*e == ',') ? e + 1 : e; }
			}
			if (!vals) {
				if (hi < lo || hi - lo > 70000) { printf("FATAL range\n"); exit(3); }
				nv = (size_t)(hi - lo + 1);
				vals = malloc(sizeof(uint64_t) * nv);
				for (size_t j = 0; j < nv; j++) vals[j] = lo + j;
			}
			for (size_t j = 0; j < nv; j++) {
				uint64_t v = vals[j];
				int rc; uint64_t r = 0, s = 0;
				if (api == 2) {
					bn_t hb, db, kb, rb, sb;
					bn_from_hex(&hb, bits, tok[5]); bn_from_u64(&db, bits, d); bn_from_u64(&kb, bits, v);
					bn_from_hex(&rb, bits, "a5a5"); bn_from_hex(&sb, bits, "5a5a");
					dirty_stack();
					rc = ecdsa_sign(cv, &hb, &db, &kb, &rb, &sb);
					if (rc == 0) {
						printf(" "); bn_put_hex(&rb); printf(":"); bn_put_hex(&sb);
					}
				} else {
					uint8_t *db = vh_buf(bytes), *kb = vh_buf(bytes), *rb = vh_buf(bytes), *sb = vh_buf(bytes); size_t ss = 777;
					put_int(db, bytes, d, api); put_int(kb, bytes, v, api);
					dirty_stack();
					rc = (api ? ecdsa_sign_le : ecdsa_sign_be)(cv, h, hl, db, bytes, kb, bytes, rb, sb, &ss);
					if (rc == 0) {
						r = get_int(rb, bytes, api); s = get_int(sb, bytes, api);
						if (ss != bytes) printf(" !size%zu", ss); else printf(" %" PRIx64 ":%" PRIx64, r, s);
					}
					vh_buf_free(db); vh_buf_free(kb); vh_buf_free(rb); vh_buf_free(sb);
				}
				if (rc != 0) printf(" !%d", rc);
			}
			free(vals);
			printf("\n");
			if (h) vh_buf_free(h);
			continue;
		}
		int is_v = !strcmp(op, "vlist") || !strcmp(op, "vgrid"), is_vp = !strcmp(op, "vplist") || !strcmp(op, "vpgrid");
		if ((is_v && nt == 8) || (is_vp && nt == 7)) {
			vctx_t v; memset(&v, 0, sizeof(v));
			v.cv = get_curve(tok[1], tok[2], &crc); v.api = api_of(tok[3]); v.bytes = EC_CURVE_CALC_BYTES(v.cv);
			size_t bits = EC_CURVE_CALC_BITS_DBL(v.cv), yl = 0;
			if (crc != 0 || v.api < 0 || v.bytes > 4) { printf("FATAL %s\n", op); exit(3); }
			const char *hs = tok[is_v ? 6 : 5], *arg = tok[is_v ? 7 : 6];
			if (is_v) {
				if (v.api == 2) pt_from_str(&v.q, v.cv->m, tok[4], tok[5]);
				else { v.kx = vh_unhex(tok[4], &v.klen); v.ky = opt_unhex(tok[5], &yl); }
			} else {
				uint64_t d = strtoull(tok[4], NULL, 16);
				if (v.api == 2) bn_from_u64(&v.dbn, bits, d);
				else { v.dbuf = vh_buf(v.bytes); put_int(v.dbuf, v.bytes, d, v.api); }
			}
			if (v.api == 2) bn_from_hex(&v.hbn, bits, hs); else v.hash = vh_unhex(hs, &v.hlen);
			printf("ok ");
			if (op[strlen(op) - 1] == 't') {           /* list */
				const char *p = arg;
				while (*p) {
					char *e; uint64_t r = strtoull(p, &e, 16); if (*e != ':') { printf("FATAL pair\n"); exit(3); }
					uint64_t s = strtoull(e + 1, &e, 16);
					putchar(verdict(do_verify(&v, r, s, is_vp)));
					p = (*e == ',') ? e + 1 : e;
				}
			} else {                                    /* grid */
				uint64_t max = strtoull(arg, NULL, 16); size_t n = 0, cnt[5] = {0, 0, 0, 0, 0};
				char *acc = NULL; size_t al = 0, ac = 0;
				for (uint64_t r = 0; r <= max; r++) for (uint64_t s = 0; s <= max; s++) {
					int rc = do_verify(&v, r, s, is_vp); n++;
					char c = verdict(rc);
					cnt[c == 'A' ? 0 : c == 'B' ? 1 : c == 'F' ? 2 : c == 'I' ? 3 : 4]++;
					if (rc == 0) {
						if (al + 40 > ac) { ac = ac ? 2 * ac : 4096; acc = realloc(acc, ac); }
						al += (size_t)snprintf(acc + al, 40, "%s%" PRIx64 ":%" PRIx64, al ? "," : "", r, s);
					}
				}
				printf("n=%zu codes=A%zu,B%zu,F%zu,I%zu,O%zu acc=%s", n, cnt[0], cnt[1], cnt[2], cnt[3], cnt[4], al ? acc : "-");
				free(acc);
			}
			printf("\n");
			if (v.kx) vh_buf_free(v.kx);
			if (v.ky) vh_buf_free(v.ky);
			if (v.hash) vh_buf_free(v.hash);
			if (v.dbuf) vh_buf_free(v.dbuf);
			continue;
		}
		if ((!strcmp(op, "impscan") && (nt == 5 || nt == 6)) || (!strcmp(op, "impsep") && nt == 4)) {
			ec_curve_p cv = get_curve(tok[1], NULL, &crc);
			int le = api_of(tok[2]), sep = (op[4] == 'e'); size_t fl, bytes = EC_CURVE_CALC_BYTES(cv), yfl = 0;
			uint8_t *fixed = vh_unhex(tok[3], &fl);
			uint8_t *yfix = (!sep && nt == 6) ? vh_unhex(tok[5], &yfl) : NULL;
			size_t nvar = sep ? bytes : (size_t)atoi(tok[4]);
			if (crc != 0 || nvar < 1 || nvar > 2) { printf("FATAL %s\n", op); exit(3); }
			size_t total = sep ? fl : fl + nvar, n = 0, nacc = 0;
			uint8_t *x = vh_buf(total), *y = sep ? vh_buf(bytes) : NULL;
			memcpy(x, fixed, fl);
			printf("ok acc=");
			for (uint32_t w = 0; w < (1u << (8 * nvar)); w++) {
				uint8_t *var = sep ? y : x + fl;
				for (size_t j = 0; j < nvar; j++) var[j] = (uint8_t)(w >> (8 * (nvar - 1 - j)));   /* octets in memory order */
				ec_point_t q;
				pt_from_str(&q, cv->m, "5a", "a5");
				dirty_stack();
				int rc = (le ? ecdsa_pub_key_import_le : ecdsa_pub_key_import_be)(cv, x, sep ? y : yfix, total, &q);
				n++;
				if (rc == 0) {
					printf("%s", nacc ? "," : ""); vh_puthex(var, nvar); printf("="); pt_put(&q); nacc++;
				}
			}
			printf("%s n=%zu nacc=%zu\n", nacc ? "" : "-", n, nacc);
			vh_buf_free(fixed); vh_buf_free(x); if (y) vh_buf_free(y); if (yfix) vh_buf_free(yfix);
			continue;
		}
		/* ------------------------------------------------------------ bn_t level key generation / DH */
		if (!strcmp(op, "keygenbn") && nt == 3) {               /* keygenbn <c> <rnd:int> -> d and Q */
			ec_curve_p cv = get_curve(tok[1], NULL, &crc); size_t bits = EC_CURVE_CALC_BITS_DBL(cv);
			bn_t d; ec_point_t q;
			bn_from_hex(&d, bits, tok[2]); pt_from_str(&q, bits, "5a", "a5");
			dirty_stack();
			int rc = ecdsa_key_gen(cv, &d, &q);
			printf("keygenbn rc=%d d=", rc); if (rc == 0) bn_put_hex(&d); else fputs("-", stdout);
			printf(" pt="); if (rc == 0) pt_put(&q); else fputs("-", stdout);
			printf("\n");
			continue;
		}
		if (!strcmp(op, "dhbn") && nt == 6) {                   /* dhbn <c> <cof> <x> <y> <d:int> -> z */
			ec_curve_p cv = get_curve(tok[1], NULL, &crc); size_t bits = EC_CURVE_CALC_BITS_DBL(cv);
			bn_t d, z; ec_point_t q;
			pt_from_str(&q, cv->m, tok[3], tok[4]); bn_from_hex(&d, bits, tok[5]); bn_from_hex(&z, bits, "a5a5");
			dirty_stack();
			int rc = ecdsa_dh(cv, atoi(tok[2]), &q, &d, &z);
			printf("dhbn rc=%d z=", rc); if (rc == 0) bn_put_hex(&z); else fputs("-", stdout);
			printf("\n");
			continue;
		}
		printf("FATAL unknown op or wrong argument count: %s (%zu tokens)\n", op, nt); exit(3);
	}
	return 0;
}
