/* Conformance driver for include/math/big_num.h (property C01).
 * Built once per configuration:  -DBN_DIGIT_BIT_CNT=<8|16|32|64|128> -DBN_BIT_LEN=<bits> [-DBN_CC_MULL_DIV]
 *
 * Protocol: one call per stdin line, one answer line per call. The driver computes nothing about the expected
 * result: it renders the abstract operands into bn_t objects, calls the library and prints what came back.
 *
 *   <op> <alias> <ca> <cb> <cm> <cr> <k> <k2> <poison> <A> <B> <M> <X>
 *     ca cb cm cr  declared capacities (digits) of the objects A, B, M and R (separate result/remainder)
 *     A B M        values as base-2^13 limbs, least significant first, "l0,l1,..", "-" = zero
 *     X            bytes/characters as decimal csv ("-" = empty): import source
 *     poison       byte used to fill every num[] entry at index >= digits (stale storage must not matter)
 *     alias        which arguments are the same object (see the table in rig/checks/c01.py)
 *   -> rc=<int> c=<carry/borrow 0|1|2> cnt=<count of result object> nz=<1 normalised> n=<int> n2=<int>
 *      r=<limbs> r2=<limbs> xs=<csv ints>
 * A first line "cfg" answers the build configuration.
 */
#include <sys/param.h>
#include <sys/types.h>
#include <inttypes.h>
#include <errno.h>
#include "vh_util.h"
#include "math/big_num.h"

#define LIMB_BITS 13
#define VBYTES (BN_LEN + 80)

static bn_t A, B, M, R;
static uint8_t va[VBYTES], vb[VBYTES], vm[VBYTES];
static uint8_t xin[8192];
static size_t xin_n;
static int8_t sd[4 * BN_BIT_LEN + 64];

static void die(const char *msg) { printf("ERR %s\n", msg); fflush(stdout); exit(3); }

static size_t parse_limbs(const char *s, uint8_t *val) {
	size_t i = 0, top = 0;
	memset(val, 0, VBYTES);
	if (s[0] == '-' && s[1] == 0) return 0;
	while (*s) {
		unsigned long l = strtoul(s, (char **)&s, 10);
		if (l > 8191) die("limb out of range");
		for (size_t b = 0; b < LIMB_BITS; b++) {
			if (!((l >> b) & 1)) continue;
			size_t bit = i * LIMB_BITS + b;
			if (bit / 8 >= VBYTES) die("operand wider than BN_BIT_LEN");
			val[bit / 8] |= (uint8_t)(1u << (bit % 8));
			top = bit + 1;
		}
		i++;
		if (*s == ',') s++;
	}
	return top; /* bit length */
}
static size_t parse_csv(const char *s, uint8_t *out, size_t max) {
	size_t n = 0;
	if (s[0] == '-' && s[1] == 0) return 0;
	while (*s) {
		long v = strtol(s, (char **)&s, 10);
		if (n >= max) die("byte input too long");
		out[n++] = (uint8_t)v;
		if (*s == ',') s++;
	}
	return n;
}
/* render a value into an object of declared capacity cap; everything above `digits` is poison */
static void bn_load(bn_p x, size_t cap, const uint8_t *val, size_t bits, uint8_t poison) {
	size_t digits = (bits + BN_DIGIT_BITS - 1) / BN_DIGIT_BITS;
	if (cap == 0 || cap > BN_MAX_DIGITS || 0 != bn_init(x, cap * BN_DIGIT_BITS)) die("bad capacity");
	if (digits > cap) die("operand does not fit its own object");
	memset(x->num, poison, sizeof(x->num));
	for (size_t i = 0; i < digits; i++) {
		bn_digit_t d = 0;
		for (size_t j = 0; j < BN_DIGIT_SIZE; j++)
			d |= ((bn_digit_t)val[i * BN_DIGIT_SIZE + j]) << (8 * j);
		x->num[i] = d;
	}
	x->digits = digits;
}
static bn_digit_t digit_of(const uint8_t *val) {
	bn_digit_t d = 0;
	for (size_t j = 0; j < BN_DIGIT_SIZE; j++) d |= ((bn_digit_t)val[j]) << (8 * j);
	return d;
}
static int bn_norm_flag(bn_p x) {
	if (x->digits > BN_MAX_DIGITS) return -1;
	if (x->digits > x->count) return 2;
	return (x->digits == 0 || x->num[x->digits - 1] != 0) ? 1 : 0;
}
static void print_limbs(const char *tag, bn_p x) {
	static uint8_t v[VBYTES + 32];
	size_t digits = (x != NULL && x->digits <= BN_MAX_DIGITS) ? x->digits : 0, nbits, nl;
	memset(v, 0, sizeof(v));
	for (size_t i = 0; i < digits; i++)
		for (size_t j = 0; j < BN_DIGIT_SIZE; j++)
			v[i * BN_DIGIT_SIZE + j] = (uint8_t)(x->num[i] >> (8 * j));
	nbits = digits * BN_DIGIT_BITS;
	while (nbits > 0 && !((v[(nbits - 1) / 8] >> ((nbits - 1) % 8)) & 1)) nbits--;
	nl = (nbits + LIMB_BITS - 1) / LIMB_BITS;
	printf(" %s=", tag);
	if (nl == 0) { putchar('-'); return; }
	for (size_t i = 0; i < nl; i++) {
		unsigned l = 0;
		for (size_t b = 0; b < LIMB_BITS; b++) {
			size_t bit = i * LIMB_BITS + b;
			l |= (unsigned)((v[bit / 8] >> (bit % 8)) & 1) << b;
		}
		printf(i ? ",%u" : "%u", l);
	}
}
static void __attribute__((noinline)) dirty_stack(uint8_t p) {
	volatile uint8_t junk[96 * 1024];
	memset((void *)junk, p, sizeof(junk));
	__asm__ volatile("" ::: "memory");
}
static int carry_code(bn_digit_t c) { return c == 0 ? 0 : (c == 1 ? 1 : 2); }

/* everything the call needs / produces; the library is entered from a separate non-inlined frame so that the
 * temporaries of the (static inline) bn_* functions live in stack memory that dirty_stack() has just filled */
struct call {
	const char *op, *al;
	long k, k2, n, n2;
	int rc, xs_signed;
	size_t xs_n, xs_bytes;
	uint8_t *obuf;
	bn_digit_t carry;
	bn_p res, res2, pB;
};
static void __attribute__((noinline)) do_call(struct call *c) {
	const char *op = c->op, *al = c->al;
	long k = c->k, k2 = c->k2, n = 0, n2 = 0;
	int rc = 0, xs_signed = 0;
	size_t xs_n = 0, xs_bytes = 0;
	uint8_t *obuf = NULL;
	bn_digit_t carry = 0;
	bn_p res = &A, res2 = NULL, pB = c->pB;
	if (!strcmp(op, "add")) rc = bn_add(&A, pB, &carry);
	else if (!strcmp(op, "sub")) rc = bn_sub(&A, pB, &carry);
	else if (!strcmp(op, "add_digit")) bn_add_digit(&A, digit_of(vb), &carry);
	else if (!strcmp(op, "sub_digit")) bn_sub_digit(&A, digit_of(vb), &carry);
	else if (!strcmp(op, "mult")) rc = bn_mult(&A, pB);
	else if (!strcmp(op, "square")) rc = bn_square(&A);
	else if (!strcmp(op, "mult_digit")) rc = bn_mult_digit(&A, digit_of(vb));
	else if (!strcmp(op, "digit_mult")) { /* bn_digit_mult(a, b) -> A = hi:lo */
		bn_digit_t lo = 0, hi = 0;
		bn_digit_mult(digit_of(va), digit_of(vb), &lo, &hi);
		A.num[0] = lo; A.num[1] = hi; A.digits = (hi != 0) ? 2 : ((lo != 0) ? 1 : 0);
	}
	else if (!strcmp(op, "digit_div")) { /* bn_digit_div(a_lo, a_hi, b) -> A = quotient hi:lo, R = remainder hi:lo */
		bn_digit_t qlo = 0, qhi = 0, rlo = 0, rhi = 0;
		rc = bn_digit_div(digit_of(va), digit_of(va + BN_DIGIT_SIZE), digit_of(vb), &qlo, &qhi, &rlo, &rhi);
		A.num[0] = qlo; A.num[1] = qhi; A.digits = (qhi != 0) ? 2 : ((qlo != 0) ? 1 : 0);
		R.num[0] = rlo; R.num[1] = rhi; R.digits = (rhi != 0) ? 2 : ((rlo != 0) ? 1 : 0);
		res2 = &R;
	}
	else if (!strcmp(op, "div")) {
		bn_p rem = &R;
		if (!strcmp(al, "nul") || !strcmp(al, "abn")) rem = NULL;
		else if (!strcmp(al, "ra") || !strcmp(al, "abr")) rem = &A;
		else if (!strcmp(al, "rb")) rem = &B;
		rc = bn_div(&A, pB, rem);
		res2 = (rem == &A) ? NULL : rem;
	}
	else if (!strcmp(op, "l_shift")) bn_l_shift(&A, (size_t)k);
	else if (!strcmp(op, "r_shift")) bn_r_shift(&A, (size_t)k);
	else if (!strcmp(op, "and")) rc = bn_and(&A, pB);
	else if (!strcmp(op, "or")) rc = bn_or(&A, pB);
	else if (!strcmp(op, "xor")) rc = bn_xor(&A, pB);
	else if (!strcmp(op, "bit_set")) rc = bn_bit_set(&A, (size_t)k, (int)k2);
	else if (!strcmp(op, "is_bit_set")) n = bn_is_bit_set(&A, (size_t)k);
	else if (!strcmp(op, "cmp")) n = bn_cmp(&A, pB);
	else if (!strcmp(op, "is_equal")) n = bn_is_equal(&A, pB);
	else if (!strcmp(op, "is_zero")) n = bn_is_zero(&A);
	else if (!strcmp(op, "is_one")) n = bn_is_one(&A);
	else if (!strcmp(op, "is_odd")) n = bn_is_odd(&A);
	else if (!strcmp(op, "is_even")) n = bn_is_even(&A);
	else if (!strcmp(op, "is_pow2")) n = (long)bn_is_pow2(&A);
	else if (!strcmp(op, "ctz")) n = (long)bn_ctz(&A);
	else if (!strcmp(op, "clz")) n = (A.digits == 0) ? -1 : (long)bn_clz(&A);
	else if (!strcmp(op, "calc_bits")) n = (long)bn_calc_bits(&A);
	else if (!strcmp(op, "assign")) { rc = bn_assign(&R, &A); res = &R; }
	else if (!strcmp(op, "gcd") || !strcmp(op, "gcd_bin")) {
		bn_p dst = &R;
		if (!strcmp(al, "da") || !strcmp(al, "all")) dst = &A;
		else if (!strcmp(al, "db")) dst = &B;
		rc = (op[3] == 0) ? bn_gcd(dst, &A, pB) : bn_gcd_bin(dst, &A, pB);
		res = dst;
	}
	else if (!strcmp(op, "sqrt")) rc = bn_sqrt(&A);
	else if (!strcmp(op, "mod")) rc = bn_mod(&A, &M, NULL);
	else if (!strcmp(op, "mod_add")) rc = bn_mod_add(&A, pB, &M, NULL);
	else if (!strcmp(op, "mod_sub")) rc = bn_mod_sub(&A, pB, &M, NULL);
	else if (!strcmp(op, "mod_mult")) rc = bn_mod_mult(&A, pB, &M, NULL);
	else if (!strcmp(op, "mod_square")) rc = bn_mod_square(&A, &M, NULL);
	else if (!strcmp(op, "mod_exp")) rc = bn_mod_exp(&A, &B, &M, NULL);
	else if (!strcmp(op, "mod_inv")) rc = bn_mod_inv(&A, &M, NULL);
	else if (!strcmp(op, "mod_sqrt")) rc = bn_mod_sqrt(&A, &M, NULL);
	else if (!strcmp(op, "mod_reduce")) rc = bn_mod_reduce(&A, &M, NULL);
	else if (!strcmp(op, "mod_mult_digit")) rc = bn_mod_mult_digit(&A, digit_of(vb), &M, NULL);
	else if (!strcmp(op, "mod_exp_digit")) { /* exponent = value of B, a machine word */
		size_t e = 0;
		for (size_t j = 0; j < sizeof(size_t); j++) e |= ((size_t)vb[j]) << (8 * j);
		rc = bn_mod_exp_digit(&A, e, &M, NULL);
	}
	else if (!strcmp(op, "exp_digit")) rc = bn_exp_digit(&A, digit_of(vb));
	else if (!strcmp(op, "assign_digit")) rc = bn_assign_digit(&A, digit_of(vb));
	else if (!strcmp(op, "assign_2exp")) rc = bn_assign_2exp(&A, (size_t)k);
	else if (!strcmp(op, "digit_ctz")) n = (long)bn_digit_ctz(digit_of(va));
	else if (!strcmp(op, "digit_clz")) n = (long)bn_digit_clz(digit_of(va));
	else if (!strcmp(op, "digit_gcd") || !strcmp(op, "digit_gcd_bin")) { /* A = gcd(a, b) of two digits */
		bn_digit_t g = (op[9] == 0) ? bn_digit_gcd(digit_of(va), digit_of(vb)) : bn_digit_gcd_bin(digit_of(va), digit_of(vb));
		A.num[0] = g; A.digits = (g != 0) ? 1 : 0;
	}
	else if (!strcmp(op, "naf")) {
		size_t cnt = 0;
		if ((size_t)k2 > sizeof(sd)) die("naf array too large");
		memset(sd, 0x55, sizeof(sd));
		rc = bn_calc_naf(&A, (size_t)k, (size_t)k2, sd, &cnt);
		n = (long)cnt; xs_n = (size_t)k2; xs_signed = 1;
	}
	else if (!strcmp(op, "jsf")) {
		size_t cnt = 0, off = 0;
		if ((size_t)k2 > sizeof(sd)) die("jsf array too large");
		memset(sd, 0x55, sizeof(sd));
		rc = bn_calc_jsf(&A, pB, (size_t)k2, sd, &cnt, &off);
		n = (long)cnt; n2 = (long)off; xs_signed = 2;
		if (rc == 0 && (off + cnt > (size_t)k2 || cnt > off)) { rc = 0; n = -1; }
	}
	else if (!strncmp(op, "imp_", 4)) {
		uint8_t *src = vh_buf(xin_n); /* exact-size block: reads past the end are observed */
		memcpy(src, xin, xin_n);
		if (!strcmp(op, "imp_be_bin")) rc = bn_import_be_bin(&A, src, xin_n);
		else if (!strcmp(op, "imp_le_bin")) rc = bn_import_le_bin(&A, src, xin_n);
		else if (!strcmp(op, "imp_be_hex")) rc = bn_import_be_hex(&A, src, xin_n);
		else if (!strcmp(op, "imp_le_hex")) rc = bn_import_le_hex(&A, src, xin_n);
		else die("unknown import");
		vh_buf_free(src);
	}
	else if (!strncmp(op, "exp_", 4)) {
		size_t ret = (size_t)-1;
		obuf = vh_buf((size_t)k);
		if (!strcmp(op, "exp_be_bin")) rc = bn_export_be_bin(&A, (uint32_t)k2, obuf, (size_t)k, &ret);
		else if (!strcmp(op, "exp_le_bin")) rc = bn_export_le_bin(&A, (uint32_t)k2, obuf, (size_t)k, &ret);
		else if (!strcmp(op, "exp_be_hex")) rc = bn_export_be_hex(&A, (uint32_t)k2, obuf, (size_t)k, &ret);
		else if (!strcmp(op, "exp_le_hex")) rc = bn_export_le_hex(&A, (uint32_t)k2, obuf, (size_t)k, &ret);
		else die("unknown export");
		n = (ret == (size_t)-1) ? -1 : (long)ret;
		xs_bytes = (rc == 0 && ret != (size_t)-1) ? MIN(ret, (size_t)k) : 0;
	}
	else die("unknown op");
	c->n = n; c->n2 = n2; c->rc = rc; c->xs_signed = xs_signed; c->xs_n = xs_n; c->xs_bytes = xs_bytes;
	c->obuf = obuf; c->carry = carry; c->res = res; c->res2 = res2;
}

int main(void) {
	static char line[1 << 17];
	char *tok[14];
	const char *al;
	unsigned alarm_s = getenv("BN_DRV_ALARM") ? (unsigned)atoi(getenv("BN_DRV_ALARM")) : 20;
	vh_install_fault_handler();
	while (fgets(line, sizeof(line), stdin)) {
		size_t nt = 0, ca, cb, cm, cr, abits, bbits, mbits, xs_n, xs_bytes;
		long k, k2, n, n2;
		int rc, cc, xs_signed;
		uint8_t poison, *obuf;
		bn_p res, res2, pB = &B;
		char *save = NULL, *op;
		struct call cl;
		if (!strncmp(line, "cfg", 3)) {
#ifdef BN_CC_MULL_DIV
			int ccmd = 1;
#else
			int ccmd = 0;
#endif
			printf("cfg w=%d bits=%d maxd=%d cc=%d\n", (int)BN_DIGIT_BITS, (int)BN_BIT_LEN, (int)BN_MAX_DIGITS, ccmd);
			continue;
		}
		vh_set_tag(line);
		for (char *t = strtok_r(line, " \n", &save); t && nt < 14; t = strtok_r(NULL, " \n", &save)) tok[nt++] = t;
		if (nt != 13) die("bad case line");
		op = tok[0]; al = tok[1];
		ca = strtoul(tok[2], NULL, 10); cb = strtoul(tok[3], NULL, 10);
		cm = strtoul(tok[4], NULL, 10); cr = strtoul(tok[5], NULL, 10);
		k = strtol(tok[6], NULL, 10); k2 = strtol(tok[7], NULL, 10);
		poison = (uint8_t)strtoul(tok[8], NULL, 10);
		abits = parse_limbs(tok[9], va); bbits = parse_limbs(tok[10], vb); mbits = parse_limbs(tok[11], vm);
		xin_n = parse_csv(tok[12], xin, sizeof(xin));
		bn_load(&A, ca, va, abits, poison);
		bn_load(&B, cb, vb, bbits, poison);
		bn_load(&M, cm, vm, mbits, poison);
		bn_load(&R, cr, va, 0, poison);
		if (!strcmp(op, "mod_exp_digit") && bbits > 8 * sizeof(size_t)) die("exponent wider than size_t");
		if (!strcmp(al, "ab") || !strcmp(al, "abn") || !strcmp(al, "abr") || !strcmp(al, "all")) pB = &A;
		(void)bbits; (void)mbits;
		memset(&cl, 0, sizeof(cl));
		cl.op = op; cl.al = al; cl.k = k; cl.k2 = k2; cl.pB = pB;
		alarm(alarm_s);
		dirty_stack(poison);
		do_call(&cl);
		alarm(0);
		n = cl.n; n2 = cl.n2; rc = cl.rc; xs_signed = cl.xs_signed; xs_n = cl.xs_n; xs_bytes = cl.xs_bytes;
		obuf = cl.obuf; res = cl.res; res2 = cl.res2;
		cc = carry_code(cl.carry);

		printf("rc=%d c=%d cnt=%zu nz=%d n=%ld n2=%ld", rc, cc, res->count, bn_norm_flag(res), n, n2);
		print_limbs("r", res);
		print_limbs("r2", res2);
		printf(" xs=");
		if (xs_signed == 1) {
			for (size_t i = 0; i < xs_n; i++) printf(i ? ",%d" : "%d", (int)sd[i]);
			if (xs_n == 0) putchar('-');
		} else if (xs_signed == 2) {
			if (rc != 0 || n <= 0) putchar('-');
			else {
				for (long i = 0; i < n; i++) printf(i ? ",%d" : "%d", (int)sd[i]);
				for (long i = 0; i < n; i++) printf(",%d", (int)sd[n2 + i]);
			}
		} else if (obuf != NULL && xs_bytes > 0) {
			for (size_t i = 0; i < xs_bytes; i++) printf(i ? ",%u" : "%u", (unsigned)obuf[i]);
		} else putchar('-');
		putchar('\n');
		if (obuf != NULL) vh_buf_free(obuf);
	}
	return 0;
}
