/* X09 - conformance driver (growth task) for three small stateful objects of liblcb:
 *   sap.*  the SAP (RFC 2974) announcement receiver  src/proto/sap_rcvr.c  - run IN PROCESS on the real thread pool
 *          (one worker thread); the receiver's UDP socket is real (loopback, the bind() wrapper only moves it from
 *          ANY:9875 to 127.0.0.1:<ephemeral> so that parallel runs do not see each other), datagrams are sent to it
 *          by the main thread, the pool thread calls the static receive callback;
 *   hn.*   include/net/hostname_list.h   (set of host names);
 *   ha.*   include/net/host_address.h    (name[:port] + address list, getaddrinfo scripted).
 * Unity build: the library sources are #included unchanged, so private structs are visible for the PROJECTION of the
 * state that is printed after every command (one stdin line -> one JSON stdout line; TLC validates the lines).
 * Link with -Wl,--wrap=time,recvmsg,socket,bind,setsockopt,close,malloc,calloc,realloc,reallocarray,free,
 *                   getaddrinfo,freeaddrinfo
 *   time                       logical clock ("sap.tick dt")
 *   malloc/calloc/realloc*     allocation failure injection ("fail k": the k-th allocation of the call fails) and exact
 *                              accounting of the blocks the library owns ("mem" in the projection)
 *   socket/bind/setsockopt     failure injection for sap_receiver_create, open descriptor accounting ("fds")
 *   recvmsg                    progress counter + receive failure injection
 *   getaddrinfo/freeaddrinfo   scripted resolver answers (the sandbox has no network), pairing counter ("gai")
 */
#include <sys/time.h>
#include <stddef.h>
#include <semaphore.h>
#include <stdarg.h>
#include <poll.h>
#include <arpa/inet.h>
#include <netdb.h>
#include "threadpool/threadpool.c"
#include "threadpool/threadpool_msg_sys.c"
#include "threadpool/threadpool_task.c"
#include "net/socket.c"
#include "net/socket_address.c"
#include "net/socket_options.c"
#include "utils/sys.c"
#include "utils/data_cache.c"
#include "proto/sap_rcvr.c"
#include "net/hostname_list.h"
#include "net/host_address.h"

void liblcb_verif_point(const char *label, const void *a, const void *b, uintptr_t val) { (void)label; (void)a; (void)b; (void)val; }

/* ------------------------------------------------------------------ wrapped world */
time_t __real_time(time_t *);
ssize_t __real_recvmsg(int, struct msghdr *, int);
int __real_socket(int, int, int);
int __real_bind(int, const struct sockaddr *, socklen_t);
int __real_setsockopt(int, int, int, const void *, socklen_t);
int __real_close(int);
void *__real_malloc(size_t); void *__real_calloc(size_t, size_t); void *__real_realloc(void *, size_t);
void *__real_reallocarray(void *, size_t, size_t); void __real_free(void *);

static volatile time_t g_now = 1000;
time_t __wrap_time(time_t *t) { time_t v = g_now; if (t) *t = v; return v; }

/* allocation accounting: blocks allocated while tracking is on (library calls under test) and not yet freed */
#define TRK_MAX 4096
static void *g_trk[TRK_MAX]; static int g_ntrk;
static pthread_mutex_t g_trk_mu = PTHREAD_MUTEX_INITIALIZER;
static __thread int t_track;      /* account allocations of this thread */
static __thread int t_failat;     /* countdown: the allocation that makes it reach 0 fails */
static void trk_add(void *p) {
	pthread_mutex_lock(&g_trk_mu);
	if (g_ntrk < TRK_MAX) g_trk[g_ntrk++] = p;
	pthread_mutex_unlock(&g_trk_mu);
}
static int trk_del(void *p) {
	int hit = 0;
	pthread_mutex_lock(&g_trk_mu);
	for (int i = 0; i < g_ntrk; i++) if (g_trk[i] == p) { g_trk[i] = g_trk[--g_ntrk]; hit = 1; break; }
	pthread_mutex_unlock(&g_trk_mu);
	return hit;
}
static int alloc_fails(void) { if (t_track && t_failat > 0 && --t_failat == 0) { errno = ENOMEM; return 1; } return 0; }
void *__wrap_malloc(size_t n) { if (alloc_fails()) return NULL; void *p = __real_malloc(n); if (t_track && p) trk_add(p); return p; }
void *__wrap_calloc(size_t a, size_t b) { if (alloc_fails()) return NULL; void *p = __real_calloc(a, b); if (t_track && p) trk_add(p); return p; }
void *__wrap_realloc(void *o, size_t n) {
	if (alloc_fails()) return NULL;
	int was = o ? trk_del(o) : 0;
	void *p = __real_realloc(o, n);
	if (p == NULL) { if (was) trk_add(o); return NULL; }
	if (was || (o == NULL && t_track)) trk_add(p);
	return p;
}
void *__wrap_reallocarray(void *o, size_t a, size_t b) {
	if (alloc_fails()) return NULL;
	int was = o ? trk_del(o) : 0;
	void *p = __real_reallocarray(o, a, b);
	if (p == NULL) { if (was) trk_add(o); return NULL; }
	if (was || (o == NULL && t_track)) trk_add(p);
	return p;
}
void __wrap_free(void *p) { if (p) trk_del(p); __real_free(p); }

/* sockets of the receiver */
static volatile int g_in_create;              /* wrappers act only while sap_receiver_create runs on the main thread */
static char g_fp[16] = "none";                /* fail point armed for this create */
static int g_fds[256], g_nfds;                 /* descriptors made by socket() during create and not closed */
static pthread_mutex_t g_fd_mu = PTHREAD_MUTEX_INITIALIZER;
static int g_bind_fam, g_bind_any, g_bind_port, g_bind_calls;
static volatile int g_rskt = -1;
static volatile int g_recvfail;
static pthread_mutex_t g_pr_mu = PTHREAD_MUTEX_INITIALIZER;
static pthread_cond_t g_pr_cv = PTHREAD_COND_INITIALIZER;
static long g_n_rx;

int __wrap_socket(int d, int t, int p) {
	if (!g_in_create) return __real_socket(d, t, p);
	if (!strcmp(g_fp, "socket")) { errno = EMFILE; return -1; }
	int fd = __real_socket(d, t, p);
	if (fd >= 0) { pthread_mutex_lock(&g_fd_mu); if (g_nfds < 256) g_fds[g_nfds++] = fd; pthread_mutex_unlock(&g_fd_mu); }
	return fd;
}
int __wrap_close(int fd) {
	pthread_mutex_lock(&g_fd_mu);
	for (int i = 0; i < g_nfds; i++) if (g_fds[i] == fd) { g_fds[i] = g_fds[--g_nfds]; break; }
	pthread_mutex_unlock(&g_fd_mu);
	return __real_close(fd);
}
int __wrap_bind(int fd, const struct sockaddr *sa, socklen_t sl) {
	if (!g_in_create || sa == NULL || sa->sa_family != AF_INET) return __real_bind(fd, sa, sl);
	const struct sockaddr_in *in = (const struct sockaddr_in *)sa;
	g_bind_calls++; g_bind_fam = 4; g_bind_any = (in->sin_addr.s_addr == htonl(INADDR_ANY)); g_bind_port = ntohs(in->sin_port);
	if (!strcmp(g_fp, "bind")) { errno = EADDRINUSE; return -1; }
	struct sockaddr_in lo; memset(&lo, 0, sizeof(lo));
	lo.sin_family = AF_INET; lo.sin_addr.s_addr = htonl(INADDR_LOOPBACK); lo.sin_port = 0;
	return __real_bind(fd, (struct sockaddr *)&lo, sizeof(lo));
}
int __wrap_setsockopt(int fd, int lvl, int opt, const void *v, socklen_t vl) {
	if (g_in_create) {
		if (lvl == SOL_SOCKET && opt == SO_RCVBUF && !strcmp(g_fp, "rcvbuf")) { errno = ENOBUFS; return -1; }
		if (lvl == SOL_SOCKET && opt == SO_RCVLOWAT && !strcmp(g_fp, "lowat")) { errno = ENOPROTOOPT; return -1; }
		if (lvl == IPPROTO_IP && opt == IP_PKTINFO && !strcmp(g_fp, "pktinfo")) { errno = ENOPROTOOPT; return -1; }
	}
	return __real_setsockopt(fd, lvl, opt, v, vl);
}
ssize_t __wrap_recvmsg(int fd, struct msghdr *m, int fl) {
	ssize_t r = __real_recvmsg(fd, m, fl);
	if (fd < 0 || fd != g_rskt) return r;
	int e = errno;
	if (r >= 0 && g_recvfail) { g_recvfail = 0; r = -1; e = EIO; }
	pthread_mutex_lock(&g_pr_mu); g_n_rx++; pthread_cond_broadcast(&g_pr_cv); pthread_mutex_unlock(&g_pr_mu);
	errno = e;
	return r;
}

/* scripted resolver */
typedef struct { int fam, a, port; } saddr_t;
static int g_gai_rc, g_gai_n; static saddr_t g_gai_ans[16];
static int g_gai_out;                       /* chains handed out and not yet given to freeaddrinfo */
static int g_gai_calls, g_gai_free_calls, g_gai_hfam, g_gai_hflags; static char g_gai_node[512], g_gai_serv[32];
static void mk_sa(const saddr_t *a, struct sockaddr_storage *ss) {
	memset(ss, 0, sizeof(*ss));
	if (a->fam == 4) {
		struct sockaddr_in *in = (struct sockaddr_in *)ss; in->sin_family = AF_INET; in->sin_port = htons((uint16_t)a->port);
		uint8_t b[4] = { 10, 0, 0, (uint8_t)a->a }; memcpy(&in->sin_addr, b, 4);
	} else if (a->fam == 6) {
		struct sockaddr_in6 *in = (struct sockaddr_in6 *)ss; in->sin6_family = AF_INET6; in->sin6_port = htons((uint16_t)a->port);
		uint8_t b[16]; memset(b, 0, 16); b[0] = 0xfd; b[15] = (uint8_t)a->a; memcpy(&in->sin6_addr, b, 16);
	} else { /* a family the resolver must skip */
		ss->ss_family = AF_UNIX;
	}
}
int __wrap_getaddrinfo(const char *node, const char *serv, const struct addrinfo *hints, struct addrinfo **res) {
	g_gai_calls++;
	snprintf(g_gai_node, sizeof(g_gai_node), "%s", node ? node : "(null)");
	snprintf(g_gai_serv, sizeof(g_gai_serv), "%s", serv ? serv : "(null)");
	g_gai_hfam = hints ? hints->ai_family : -1; g_gai_hflags = hints ? hints->ai_flags : -1;
	if (g_gai_rc != 0) return g_gai_rc;
	struct addrinfo *head = NULL, **tail = &head;
	for (int i = 0; i < g_gai_n; i++) {
		struct addrinfo *ai = __real_calloc(1, sizeof(*ai));
		struct sockaddr_storage ss; mk_sa(&g_gai_ans[i], &ss);
		/* exact-size sockaddr, like the libc resolver hands out (ASan sees reads past the family's size) */
		socklen_t sl = (ss.ss_family == AF_INET) ? sizeof(struct sockaddr_in) : (ss.ss_family == AF_INET6) ? sizeof(struct sockaddr_in6) : sizeof(struct sockaddr_un);
		ai->ai_addr = __real_malloc(sl); memcpy(ai->ai_addr, &ss, sl); ai->ai_addrlen = sl;
		ai->ai_family = ss.ss_family; ai->ai_socktype = SOCK_STREAM;
		*tail = ai; tail = &ai->ai_next;
	}
	*res = head; g_gai_out++;
	return 0;
}
void __wrap_freeaddrinfo(struct addrinfo *ai) {
	g_gai_free_calls++; g_gai_out--;
	while (ai) { struct addrinfo *n = ai->ai_next; __real_free(ai->ai_addr); __real_free(ai); ai = n; }
}

/* ------------------------------------------------------------------ output */
typedef struct { char *p; size_t n, cap; } sb_t;
static void sb_put(sb_t *b, const char *fmt, ...) {
	for (;;) {
		if (b->cap - b->n < 512) { b->cap = b->cap ? b->cap * 2 : 8192; b->p = __real_realloc(b->p, b->cap); if (!b->p) abort(); }
		va_list ap; va_start(ap, fmt);
		int k = vsnprintf(b->p + b->n, b->cap - b->n, fmt, ap);
		va_end(ap);
		if (k < 0) abort();
		if ((size_t)k < b->cap - b->n) { b->n += (size_t)k; return; }
		b->cap *= 2; b->p = __real_realloc(b->p, b->cap); if (!b->p) abort();
	}
}
static void sb_str(sb_t *b, const uint8_t *s, size_t n) { /* JSON string of bytes */
	sb_put(b, "\"");
	for (size_t i = 0; i < n; i++) {
		if (s[i] == '"' || s[i] == '\\') sb_put(b, "\\%c", s[i]);
		else if (s[i] < 32 || s[i] > 126) sb_put(b, "\\u%04x", s[i]);
		else sb_put(b, "%c", s[i]);
	}
	sb_put(b, "\"");
}
static void on_fault(int sig) {
	if (sig == SIGPROF) sig = SIGALRM;      /* CPU-time budget of the per-line watchdog: the same verdict as its wall clock alarm */
	char m[64]; int n = snprintf(m, sizeof(m), "\nFAULT sig=%d\n", sig);
	if (n > 0) (void)!write(1, m, (size_t)n);
	_exit(sig == SIGALRM ? 98 : 99);
}
static void die(const char *m) { printf("DRIVER-ERROR %s\n", m); fflush(stdout); _exit(3); }

/* ================================================================== hostname_list */
#define NOBJ 3
static hostname_list_p HN[NOBJ]; static int HN_kind[NOBJ]; /* 'h' hostname_list_alloc, 'e' caller owned struct + init */
static const uint8_t *tok_name(const char *t, size_t *n) {
	if (!strcmp(t, "@null")) { *n = 3; return NULL; }
	if (!strcmp(t, "@empty")) { *n = 0; return (const uint8_t *)""; }
	*n = strlen(t); return (const uint8_t *)t;
}
static void hn_state(sb_t *b) {
	sb_put(b, "\"st\":{\"o\":[");
	for (int i = 0; i < NOBJ; i++) {
		hostname_list_p h = HN[i];
		if (i) sb_put(b, ",");
		if (!h) { sb_put(b, "{\"dead\":1}"); continue; }
		sb_put(b, "{\"names\":[");
		for (size_t k = 0; k < h->count; k++) {
			if (k) sb_put(b, ",");
			if (h->names == NULL || h->names[k] == NULL) sb_put(b, "0");
			else sb_str(b, h->names[k]->name, h->names[k]->size);
		}
		int term = 1;  /* every stored name is NUL terminated */
		for (size_t k = 0; k < h->count && h->names; k++) if (h->names[k] && h->names[k]->name[h->names[k]->size] != 0) term = 0;
		sb_put(b, "],\"alloc\":%zu,\"any\":%d,\"arr\":%d,\"term\":%d}", h->allocated, h->any_name, h->names != NULL, term);
	}
	sb_put(b, "],\"mem\":%d}", g_ntrk);
}
static int hn_exec(const char *op, const char *a, sb_t *b) {
	int i = 0, j = 0, fail = 0; char nm[256] = "", kind[8] = "h";
	if (!strcmp(op, "hn.new")) {
		sscanf(a, "%d %7s %d", &i, kind, &fail);
		if (i < 0 || i >= NOBJ || HN[i]) die("hn.new slot");
		t_track = 1; t_failat = fail;
		if (kind[0] == 'h') HN[i] = hostname_list_alloc();
		else { HN[i] = __real_malloc(sizeof(hostname_list_t)); memset(HN[i], 0x5a, sizeof(hostname_list_t)); if (0 != hostname_list_init(HN[i])) die("init"); } /* caller owned */
		t_failat = 0; t_track = 0;
		HN_kind[i] = kind[0];
		sb_put(b, "{\"op\":\"hn.new\",\"i\":%d,\"kind\":\"%c\",\"fail\":%d,\"rc\":%d,", i, kind[0], fail, HN[i] ? 0 : ENOMEM);
	} else if (!strcmp(op, "hn.add") || !strcmp(op, "hn.find") || !strcmp(op, "hn.check")) {
		sscanf(a, "%d %255s %d", &i, nm, &fail);
		if (i < 0 || i >= NOBJ || !HN[i]) die("hn slot");
		size_t n; const uint8_t *p = tok_name(nm, &n);
		uint8_t *cp = NULL;
		if (p && n) { cp = __real_malloc(n); memcpy(cp, p, n); p = cp; }      /* exact size, not NUL terminated */
		int rc;
		t_track = 1; t_failat = (op[3] == 'a') ? fail : 0;
		if (op[3] == 'a') rc = hostname_list_add(HN[i], p, n);
		else if (op[3] == 'f') rc = hostname_list_find(HN[i], p, n);
		else rc = hostname_list_check(HN[i], p, n);
		t_failat = 0; t_track = 0;
		__real_free(cp);
		sb_put(b, "{\"op\":\"%s\",\"i\":%d,\"name\":\"%s\",\"fail\":%d,\"rc\":%d,", op, i, nm, fail, rc);
	} else if (!strcmp(op, "hn.any")) {
		sscanf(a, "%d", &i);
		if (i < 0 || i >= NOBJ || !HN[i]) die("hn slot");
		sb_put(b, "{\"op\":\"hn.any\",\"i\":%d,\"rc\":%d,", i, hostname_list_check_any(HN[i]));
	} else if (!strcmp(op, "hn.clone")) {
		sscanf(a, "%d %d %d", &i, &j, &fail);
		if (i < 0 || i >= NOBJ || !HN[i] || j < 0 || j >= NOBJ || HN[j]) die("hn.clone slots");
		t_track = 1; t_failat = fail;
		HN[j] = hostname_list_clone(HN[i]);
		t_failat = 0; t_track = 0;
		HN_kind[j] = 'h';
		sb_put(b, "{\"op\":\"hn.clone\",\"i\":%d,\"j\":%d,\"fail\":%d,\"rc\":%d,", i, j, fail, HN[j] ? 0 : ENOMEM);
	} else if (!strcmp(op, "hn.del")) {
		sscanf(a, "%d", &i);
		if (i < 0 || i >= NOBJ || !HN[i]) die("hn slot");
		if (HN_kind[i] == 'h') hostname_list_free(HN[i]);
		else {
			hostname_list_deinit(HN[i]);
			int clean = (HN[i]->names == NULL && HN[i]->allocated == 0);
			__real_free(HN[i]);
			if (!clean) die("deinit left names/allocated");
		}
		HN[i] = NULL;
		sb_put(b, "{\"op\":\"hn.del\",\"i\":%d,", i);
	} else if (!strcmp(op, "hn.nullcalls")) {
		uint8_t x[2] = "a";
		hostname_list_deinit(NULL); hostname_list_free(NULL);
		sb_put(b, "{\"op\":\"hn.nullcalls\",\"init\":%d,\"add\":%d,\"find\":%d,\"check\":%d,\"any\":%d,", hostname_list_init(NULL),
		    hostname_list_add(NULL, x, 1), hostname_list_find(NULL, x, 1), hostname_list_check(NULL, x, 1), hostname_list_check_any(NULL));
	} else if (!strcmp(op, "hn.clonenull")) {     /* probe: own process */
		hostname_list_p r = hostname_list_clone(NULL);
		sb_put(b, "{\"op\":\"hn.clonenull\",\"rc\":%d,", r ? 0 : ENOMEM);
		hostname_list_free(r);
	} else return 0;
	hn_state(b);
	return 1;
}

/* ================================================================== host_address */
static host_addr_p HA[NOBJ];
static int parse_sa(const char *t, saddr_t *a) { return sscanf(t, "%d:%d:%d", &a->fam, &a->a, &a->port) == 3; }
static void put_sa(sb_t *b, const struct sockaddr_storage *ss) {
	if (ss->ss_family == AF_INET) {
		const struct sockaddr_in *in = (const struct sockaddr_in *)ss; const uint8_t *p = (const uint8_t *)&in->sin_addr;
		if (p[0] == 10 && p[1] == 0 && p[2] == 0) { sb_put(b, "[4,%d,%d]", p[3], ntohs(in->sin_port)); return; }
	} else if (ss->ss_family == AF_INET6) {
		const struct sockaddr_in6 *in = (const struct sockaddr_in6 *)ss; const uint8_t *p = (const uint8_t *)&in->sin6_addr;
		int ok = (p[0] == 0xfd); for (int i = 1; i < 15; i++) if (p[i]) ok = 0;
		if (ok) { sb_put(b, "[6,%d,%d]", p[15], ntohs(in->sin6_port)); return; }
	}
	sb_put(b, "[0,%d,0]", (int)ss->ss_family);
}
static void ha_state(sb_t *b) {
	sb_put(b, "\"st\":{\"o\":[");
	for (int i = 0; i < NOBJ; i++) {
		host_addr_p h = HA[i];
		if (i) sb_put(b, ",");
		if (!h) { sb_put(b, "{\"dead\":1}"); continue; }
		sb_put(b, "{\"name\":"); sb_str(b, h->name, h->name_size);
		sb_put(b, ",\"port\":%u,\"addrs\":[", (unsigned)h->port);
		for (size_t k = 0; k < h->count; k++) { if (k) sb_put(b, ","); put_sa(b, &h->addrs[k]); }
		sb_put(b, "],\"alloc\":%zu,\"arr\":%d,\"term\":%d}", h->allocated, h->addrs != NULL, h->name[h->name_size] == 0);
	}
	sb_put(b, "],\"mem\":%d,\"gai\":%d}", g_ntrk, g_gai_out);
}
static int ha_exec(const char *op, const char *a, sb_t *b) {
	int i = 0, j = 0, fail = 0, port = 0; char tx[300] = "", at[64] = "";
	if (!strcmp(op, "ha.new")) {
		sscanf(a, "%d %299s %d %d", &i, tx, &port, &fail);
		if (i < 0 || i >= NOBJ || HA[i]) die("ha.new slot");
		size_t n; const uint8_t *p = tok_name(tx, &n);
		uint8_t *cp = NULL;
		if (p && n) { cp = __real_malloc(n); memcpy(cp, p, n); p = cp; }
		t_track = 1; t_failat = fail;
		HA[i] = host_addr_alloc(p, n, (uint16_t)port);
		t_failat = 0; t_track = 0;
		__real_free(cp);
		sb_put(b, "{\"op\":\"ha.new\",\"i\":%d,\"text\":\"%s\",\"port\":%d,\"fail\":%d,\"rc\":%d,", i, tx, port, fail, HA[i] ? 0 : ENOMEM);
	} else if (!strcmp(op, "ha.add") || !strcmp(op, "ha.is") || !strcmp(op, "ha.isso")) {
		sscanf(a, "%d %63s %d", &i, at, &fail);
		if (i < 0 || i >= NOBJ || !HA[i]) die("ha slot");
		saddr_t s; if (!parse_sa(at, &s)) die("ha addr");
		struct sockaddr_storage ss; mk_sa(&s, &ss);
		socklen_t sl = (s.fam == 4) ? sizeof(struct sockaddr_in) : sizeof(struct sockaddr_in6);
		void *ex = __real_malloc(sl); memcpy(ex, &ss, sl);         /* exact-size sockaddr */
		int rc;
		t_track = 1; t_failat = (op[3] == 'a') ? fail : 0;
		if (op[3] == 'a') rc = host_addr_add_addr(HA[i], ex);
		else if (!strcmp(op, "ha.is")) rc = host_addr_is_host_addr(HA[i], ex);
		else rc = host_addr_is_host_soaddr(HA[i], ex);
		t_failat = 0; t_track = 0;
		__real_free(ex);
		sb_put(b, "{\"op\":\"%s\",\"i\":%d,\"a\":[%d,%d,%d],\"fail\":%d,\"rc\":%d,", op, i, s.fam, s.a, s.port, fail, rc);
	} else if (!strcmp(op, "ha.clone")) {
		sscanf(a, "%d %d %d", &i, &j, &fail);
		if (i < 0 || i >= NOBJ || !HA[i] || j < 0 || j >= NOBJ || HA[j]) die("ha.clone slots");
		t_track = 1; t_failat = fail;
		HA[j] = host_addr_clone(HA[i]);
		t_failat = 0; t_track = 0;
		sb_put(b, "{\"op\":\"ha.clone\",\"i\":%d,\"j\":%d,\"fail\":%d,\"rc\":%d,", i, j, fail, HA[j] ? 0 : ENOMEM);
	} else if (!strcmp(op, "ha.resolv")) {
		int n = 0, rcg = 0, k = 0;
		sscanf(a, "%d %d %d %d%n", &i, &rcg, &fail, &n, &k);
		if (i < 0 || i >= NOBJ || !HA[i] || n < 0 || n > 16) die("ha.resolv");
		const char *p = a + k; g_gai_n = n; g_gai_rc = rcg;
		sb_t ans = { 0 };
		for (int x = 0; x < n; x++) {
			int m = 0; if (sscanf(p, " %63s%n", at, &m) != 1 || !parse_sa(at, &g_gai_ans[x])) die("ha.resolv addr");
			p += m; sb_put(&ans, "%s[%d,%d,%d]", x ? "," : "", g_gai_ans[x].fam, g_gai_ans[x].a, g_gai_ans[x].port);
		}
		int c0 = g_gai_calls, f0 = g_gai_free_calls;
		t_track = 1; t_failat = fail;
		int rc = host_addr_resolv(HA[i]);
		t_failat = 0; t_track = 0;
		sb_put(b, "{\"op\":\"ha.resolv\",\"i\":%d,\"gairc\":%d,\"fail\":%d,\"ans\":[%s],\"rc\":%d,\"calls\":%d,\"frees\":%d,\"node\":", i, rcg, fail,
		    ans.p ? ans.p : "", rc, g_gai_calls - c0, g_gai_free_calls - f0);
		sb_str(b, (const uint8_t *)g_gai_node, strlen(g_gai_node));
		sb_put(b, ",\"serv\":\"%s\",\"unspec\":%d,\"numserv\":%d,", g_gai_serv, g_gai_hfam == PF_UNSPEC, (g_gai_hflags & AI_NUMERICSERV) != 0);
		__real_free(ans.p);
	} else if (!strcmp(op, "ha.del")) {
		sscanf(a, "%d", &i);
		if (i < 0 || i >= NOBJ || !HA[i]) die("ha slot");
		host_addr_free(HA[i]); HA[i] = NULL;
		sb_put(b, "{\"op\":\"ha.del\",\"i\":%d,", i);
	} else if (!strcmp(op, "ha.nullcalls")) {
		struct sockaddr_storage ss; saddr_t s = { 4, 1, 80 }; mk_sa(&s, &ss);
		host_addr_free(NULL);
		host_addr_p h = host_addr_alloc((const uint8_t *)"h", 1, 1);
		sb_put(b, "{\"op\":\"ha.nullcalls\",\"clone\":%d,\"add\":%d,\"is\":%d,\"isso\":%d,\"isnulla\":%d,\"issonulla\":%d,\"resolv\":%d,",
		    host_addr_clone(NULL) != NULL, host_addr_add_addr(NULL, &ss), host_addr_is_host_addr(NULL, &ss), host_addr_is_host_soaddr(NULL, &ss),
		    host_addr_is_host_addr(h, NULL), host_addr_is_host_soaddr(h, NULL), host_addr_resolv(NULL));
		host_addr_free(h);
	} else return 0;
	ha_state(b);
	return 1;
}

/* ================================================================== SAP receiver on the thread pool */
static tp_p g_tp; static tpt_p g_tpt0;
static sap_rcvr_p SR; static int g_tx = -1; static struct sockaddr_in g_dst;
typedef struct { void (*fn)(void *); void *arg; sem_t done; } preq_t;
static void pool_tramp(tpt_p tpt, void *u) { (void)tpt; preq_t *r = u; r->fn(r->arg); sem_post(&r->done); }
static void run_on_pool(void (*fn)(void *), void *arg) {
	preq_t r; r.fn = fn; r.arg = arg; sem_init(&r.done, 0, 0);
	if (tpt_msg_send(g_tpt0, NULL, 0, pool_tramp, &r) != 0) die("tpt_msg_send");
	struct timespec ts; clock_gettime(CLOCK_REALTIME, &ts); ts.tv_sec += 20;
	while (sem_timedwait(&r.done, &ts) != 0) { if (errno == EINTR) continue; on_fault(SIGALRM); }
}
static void pool_start(void) {
	if (g_tp) return;
	tp_settings_t s; tp_settings_def(&s); s.threads_max = 1; s.flags = 0;
	if (tp_create(&s, &g_tp) != 0) die("tp_create");
	if (tp_threads_create(g_tp, 0) != 0) die("tp_threads_create");
	g_tpt0 = tp_thread_get(g_tp, 0);
	for (int k = 0; k < 4000 && !tpt_is_running(g_tpt0); k++) usleep(500);
	for (int k = 0; k < 4000 && TP_THREAD_STATE_RUNNING != g_tpt0->state; k++) usleep(500);
}
static void p_track_on(void *v) { t_track = *(int *)v; }
static void p_arm(void *v) { t_failat = *(int *)v; }
static void sap_state_pool(void *v) {
	sb_t *b = v;
	if (!SR) { sb_put(b, "\"st\":{\"alive\":0,\"b\":[],\"fds\":%d,\"mem\":%d,\"now\":%lld}", g_nfds, g_ntrk, (long long)g_now); return; }
	sb_put(b, "\"st\":{\"alive\":1,\"ct\":%u,\"dcnull\":%d,", SR->cache_time, SR->dcache == NULL);
	if (SR->dcache) {
		sb_put(b, "\"iv\":%u,\"nclean\":%lld,\"b\":[", SR->dcache->clean_interval, (long long)SR->dcache->next_clean_time);
		int firstb = 1;
		for (int x = 0; x < DATA_CACHE_BUCKETS; x++) {
			data_cache_item_p it;
			if (TAILQ_EMPTY(&SR->dcache->buckets[x].items_head)) continue;
			sb_put(b, "%s[%d,[", firstb ? "" : ",", x); firstb = 0;
			int first = 1;
			TAILQ_FOREACH(it, &SR->dcache->buckets[x].items_head, next) {
				sdp_lite_p s = it->data;
				sb_put(b, "%s[", first ? "" : ","); first = 0;
				sb_str(b, s->id, s->id_size);
				sb_put(b, ",%lld,%u,%llu,%d", (long long)it->valid_untill, it->updating, (unsigned long long)it->returned_count, s->flags != 0);
				if (s->flags) {
					char at[INET6_ADDRSTRLEN] = "?"; int fam = 0, port = 0;
					if (s->addr.ss_family == AF_INET) { fam = 4; inet_ntop(AF_INET, &((struct sockaddr_in *)&s->addr)->sin_addr, at, sizeof(at)); port = ntohs(((struct sockaddr_in *)&s->addr)->sin_port); }
					else if (s->addr.ss_family == AF_INET6) { fam = 6; inet_ntop(AF_INET6, &((struct sockaddr_in6 *)&s->addr)->sin6_addr, at, sizeof(at)); port = ntohs(((struct sockaddr_in6 *)&s->addr)->sin6_port); }
					sb_put(b, ","); sb_str(b, s->name, s->name_size);
					sb_put(b, ",%u,%d,\"%s\",%d,%d,%d", (unsigned)s->media_proto, fam, at, port, s->if_index == if_nametoindex("lo"), s->name[s->name_size] == 0 && s->id[s->id_size] == 0);
				}
				sb_put(b, "]");
			}
			sb_put(b, "]]");
		}
		sb_put(b, "],");
	} else sb_put(b, "\"iv\":0,\"nclean\":0,\"b\":[],");
	sb_put(b, "\"fds\":%d,\"mem\":%d,\"now\":%lld}", g_nfds, g_ntrk, (long long)g_now);
}
static void sap_state(sb_t *b) { if (g_tp) run_on_pool(sap_state_pool, b); else sap_state_pool(b); }
static void p_destroy(void *v) { (void)v; sap_receiver_destroy(SR); }
typedef struct { int err; int ret; } cberr_t;
static void p_cberr(void *v) { cberr_t *c = v; c->ret = sap_receiver_recv_cb(SR->io_pkt_rcvr4, c->err, 0, 0, SR); }
static int unhex(const char *h, uint8_t *out, size_t cap) {
	size_t n = strlen(h); if (n % 2 || n / 2 > cap) return -1;
	for (size_t i = 0; i < n / 2; i++) { unsigned v; if (sscanf(h + 2 * i, "%2x", &v) != 1) return -1; out[i] = (uint8_t)v; }
	return (int)(n / 2);
}
static int sap_exec(const char *op, const char *a, sb_t *b) {
	if (!strcmp(op, "sap.create")) {
		unsigned ct = 0, cci = 0; char fp[16] = "none";
		sscanf(a, "%u %u %15s", &ct, &cci, fp);
		if (SR) die("sap.create twice");
		pool_start();
		int on = 1; run_on_pool(p_track_on, &on);
		snprintf(g_fp, sizeof(g_fp), "%s", fp);
		g_bind_calls = 0; g_bind_fam = g_bind_any = g_bind_port = 0;
		sap_rcvr_p ret = (sap_rcvr_p)(uintptr_t)0x1;
		t_track = 1;
		t_failat = !strcmp(fp, "srcvr") ? 1 : !strcmp(fp, "dcache") ? 2 : !strcmp(fp, "task") ? 3 : 0;
		g_in_create = 1;
		int rc = sap_receiver_create(g_tp, 64, ct, cci, &ret);
		g_in_create = 0; t_failat = 0; t_track = 0;
		int wrote = (ret != (sap_rcvr_p)(uintptr_t)0x1);
		if (rc == 0 && wrote && ret != NULL) {
			SR = ret; g_rskt = (int)SR->sktv4;
			struct sockaddr_in sa; socklen_t sl = sizeof(sa);
			if (getsockname(g_rskt, (struct sockaddr *)&sa, &sl) != 0) die("getsockname");
			g_dst = sa;
			if (g_tx < 0) g_tx = __real_socket(AF_INET, SOCK_DGRAM, 0);
		}
		sb_put(b, "{\"op\":\"sap.create\",\"ct\":%u,\"cci\":%u,\"fp\":\"%s\",\"rc\":%d,\"ok\":%d,\"wrote\":%d,\"bind\":[%d,%d,%d,%d],", ct, cci, fp,
		    rc != 0, SR != NULL, wrote, g_bind_calls, g_bind_fam, g_bind_any, g_bind_port);
	} else if (!strcmp(op, "sap.dgram")) {
		static char hex[20000]; static uint8_t pkt[9000]; int rf = 0, af = 0;
		sscanf(a, "%19999s %d %d", hex, &rf, &af);
		if (!SR) { sb_put(b, "{\"op\":\"sap.skip\","); sap_state(b); return 1; }   /* the create before it failed (probes) */
		int n = unhex(hex, pkt, sizeof(pkt)); if (n < 0) die("hex");
		g_recvfail = rf;
		pthread_mutex_lock(&g_pr_mu); long target = g_n_rx + 1; pthread_mutex_unlock(&g_pr_mu);
		if (af) run_on_pool(p_arm, &af);             /* arm the allocation failure on the pool thread */
		if (sendto(g_tx, pkt, (size_t)n, 0, (struct sockaddr *)&g_dst, sizeof(g_dst)) != n) die("sendto");
		struct timespec ts; clock_gettime(CLOCK_REALTIME, &ts); ts.tv_sec += 10;
		pthread_mutex_lock(&g_pr_mu);
		while (g_n_rx < target) if (pthread_cond_timedwait(&g_pr_cv, &g_pr_mu, &ts) == ETIMEDOUT) break;
		int got = (g_n_rx >= target);
		pthread_mutex_unlock(&g_pr_mu);
		if (!got) die("datagram not consumed");
		int zero = 0; run_on_pool(p_arm, &zero);
		g_recvfail = 0;
		sb_put(b, "{\"op\":\"sap.dgram\",\"n\":%d,\"rf\":%d,\"af\":%d,", n, rf, af);
	} else if (!strcmp(op, "sap.cberr")) {
		cberr_t c = { EIO, -1 }; sscanf(a, "%d", &c.err);
		if (!SR) die("sap.cberr without receiver");
		run_on_pool(p_cberr, &c);
		sb_put(b, "{\"op\":\"sap.cberr\",\"err\":%d,\"cont\":%d,", c.err, c.ret == TP_TASK_CB_CONTINUE);
	} else if (!strcmp(op, "sap.tick")) {
		int dt = 0; sscanf(a, "%d", &dt); g_now += dt;
		sb_put(b, "{\"op\":\"sap.tick\",\"dt\":%d,", dt);
	} else if (!strcmp(op, "sap.destroy")) {
		if (!SR) { sb_put(b, "{\"op\":\"sap.skip\","); sap_state(b); return 1; }
		run_on_pool(p_destroy, NULL);
		SR = NULL; g_rskt = -1;
		sb_put(b, "{\"op\":\"sap.destroy\",");
	} else if (!strcmp(op, "sap.nullcalls")) {
		sap_rcvr_p r = NULL; pool_start();
		sap_receiver_destroy(NULL);
		sb_put(b, "{\"op\":\"sap.nullcalls\",\"create_nopool\":%d,\"create_noret\":%d,\"add4\":%d,", sap_receiver_create(NULL, 1, 1, 1, &r),
		    sap_receiver_create(g_tp, 1, 1, 1, NULL), sap_receiver_listener_add4(NULL, "lo", 2, "224.2.127.254", 0));
	} else return 0;
	sap_state(b);
	return 1;
}
int main(void) {
	static char line[40000];
	signal(SIGSEGV, on_fault); signal(SIGBUS, on_fault); signal(SIGALRM, on_fault); signal(SIGPROF, on_fault); signal(SIGPIPE, SIG_IGN);
	setvbuf(stdout, NULL, _IOLBF, 0);
	while (fgets(line, sizeof(line), stdin)) {
		char op[32]; int n = 0;
		if (line[0] == '#' || sscanf(line, "%31s%n", op, &n) != 1) continue;
		{	/* per-line watchdog: a call takes about a millisecond; 3 s of CPU time of the process (a spinning call or pool thread; robust
			 * on a loaded machine) or 60 s of wall clock (the driver's own bounded waits give up after 10 - 20 s) without an answer = it did not return -> "FAULT sig=14" */
			struct itimerval it; memset(&it, 0, sizeof(it)); it.it_value.tv_sec = 3;
			setitimer(ITIMER_PROF, &it, NULL);
			alarm(60);
		}
		sb_t b = { 0 };
		int ok = 0;
		if (!strncmp(op, "hn.", 3)) ok = hn_exec(op, line + n, &b);
		else if (!strncmp(op, "ha.", 3)) ok = ha_exec(op, line + n, &b);
		else if (!strncmp(op, "sap.", 4)) ok = sap_exec(op, line + n, &b);
		else if (!strcmp(op, "reset")) {            /* start of the next history: no objects, clock 1000, counters 0 */
			if (SR) { run_on_pool(p_destroy, NULL); SR = NULL; g_rskt = -1; }
			for (int i = 0; i < NOBJ; i++) { hostname_list_free(HN[i]); HN[i] = NULL; host_addr_free(HA[i]); HA[i] = NULL; }
			pthread_mutex_lock(&g_fd_mu); for (int i = 0; i < g_nfds; i++) __real_close(g_fds[i]); g_nfds = 0; pthread_mutex_unlock(&g_fd_mu);
			pthread_mutex_lock(&g_trk_mu); g_ntrk = 0; pthread_mutex_unlock(&g_trk_mu);
			g_now = 1000; g_gai_out = 0;
			sb_put(&b, "{\"op\":\"reset\""); ok = 1;
		}
		else if (!strcmp(op, "quit")) break;
		if (!ok) die("unknown command");
		sb_put(&b, "}");
		puts(b.p); fflush(stdout);
		__real_free(b.p);
	}
	alarm(0);
	{ struct itimerval it; memset(&it, 0, sizeof(it)); setitimer(ITIMER_PROF, &it, NULL); }
	if (SR) { run_on_pool(p_destroy, NULL); SR = NULL; }
	if (g_tp) { tp_shutdown(g_tp); tp_shutdown_wait(g_tp); tp_destroy(g_tp); }
	for (int i = 0; i < NOBJ; i++) { hostname_list_free(HN[i]); host_addr_free(HA[i]); }
	return 0;
}
