/* X04 reproduction, no wrappers: real loopback sockets, the library as it is.
 *   gcc -O1 -g -I/repo/include -I/repo/src $(cat flags) X04-repro.c /repo/src/threadpool/threadpool.c /repo/src/threadpool/threadpool_msg_sys.c \
 *       /repo/src/threadpool/threadpool_task.c /repo/src/net/socket.c /repo/src/net/socket_address.c /repo/src/net/socket_options.c /repo/src/utils/sys.c -lpthread
 *   ./a.out 1   addresses {closed, closed, LISTENING}, round robin, max_tries 2, report every failure:
 *               expected  ECONNREFUSED idx 0, ECONNREFUSED idx 1, connected idx 2      (3 attempts)
 *               observed  ECONNREFUSED idx 0 for ever: addrs[1] is tried again and again, addrs[2] never
 *   ./a.out 2   one closed address, max_tries 3, retry_delay 100 ms, timeout 0; tp_task_stop() 30 ms after create (during the pause):
 *               expected  no callback after the stop;   observed  the pause timer fires, the retry runs, callbacks arrive */
#include <stdio.h>
#include <unistd.h>
#include <errno.h>
#include <netinet/in.h>
#include "threadpool/threadpool_task.h"
static volatile int ncb, stopped;
static int cb(tp_task_p t, int err, tp_task_conn_prms_p p, size_t idx, void *u) {
	printf("callback%s: error %d addr_index %zu\n", stopped ? " AFTER tp_task_stop" : "", err, idx); fflush(stdout);
	return (++ncb < 8 ? TP_TASK_CB_CONTINUE : TP_TASK_CB_NONE);
}
static tp_task_p task;
static void do_stop(tpt_p tpt, void *u) { tp_task_stop(task); stopped = 1; puts("tp_task_stop() done"); }
static void mk(struct sockaddr_storage *ss, int listening) {
	struct sockaddr_in *sin = (struct sockaddr_in *)ss; socklen_t sl = sizeof(*sin);
	int fd = socket(AF_INET, SOCK_STREAM, 0);
	sin->sin_family = AF_INET; sin->sin_addr.s_addr = htonl(INADDR_LOOPBACK); sin->sin_port = 0;
	bind(fd, (struct sockaddr *)sin, sl); getsockname(fd, (struct sockaddr *)sin, &sl);
	if (listening) listen(fd, 4); else close(fd);
}
int main(int argc, char **argv) {
	int mode = argc > 1 ? atoi(argv[1]) : 1;
	tp_settings_t s; tp_p tp; static struct sockaddr_storage a[3]; static tp_task_conn_prms_t prm;
	tp_settings_def(&s); s.flags = 0; s.threads_max = 1; tp_create(&s, &tp); tp_threads_create(tp, 0); usleep(100000);
	mk(&a[0], 0); mk(&a[1], 0); mk(&a[2], 1);
	prm.addrs = a; prm.addrs_count = (mode == 1) ? 3 : 1; prm.max_tries = (mode == 1) ? 2 : 3;
	prm.flags = (mode == 1) ? TP_TASK_CONNECT_F_ROUND_ROBIN : 0; prm.retry_delay = (mode == 1) ? 0 : 100;
	int rc = tp_task_connect_ex_create(tp_thread_get(tp, 0), TP_TASK_F_CB_AFTER_EVERY_READ, (mode == 1) ? 1000 : 0, &prm, cb, NULL, &task);
	printf("create rc %d\n", rc);
	if (mode == 2) { usleep(130000); tpt_msg_send(tp_thread_get(tp, 0), NULL, 0, do_stop, NULL); }
	usleep(500000);
	return 0;
}
