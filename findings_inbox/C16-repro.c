/* cc -I/repo/include -I/repo/src $DEFS repro.c /repo/src/threadpool/*.c /repo/src/net/socket*.c /repo/src/utils/sys.c -lpthread */
#include <sys/socket.h>
#include <stdio.h>
#include <unistd.h>
#include <fcntl.h>
#include <errno.h>
#include "threadpool/threadpool_task.h"
static volatile int ncb; static int mode;
static int cb(tp_task_p t, int err, io_buf_p b, uint32_t eof, size_t n, void *u) {
	ncb++; printf("  cb #%d err=%d eof=%u n=%zu\n", ncb, err, eof, n);
	if (mode == 1 && ncb >= 5) tp_task_stop(t);          /* else the pool thread spins for ever */
	return (err == ETIMEDOUT || eof) ? TP_TASK_CB_EOF : TP_TASK_CB_CONTINUE;
}
int main(void) {
	tp_p tp; tp_settings_t s; tp_settings_def(&s); s.threads_max = 1; s.flags = 0;
	tp_create(&s, &tp); tp_threads_create(tp, 0); usleep(100000);
	tpt_p thr = tp_thread_get(tp, 0); tp_task_p t; int sp[2]; io_buf_p b = io_buf_alloc(IO_BUF_FLAGS_STD, 8);
	/* (1) TP_F_DISPATCH receiver: 2 of 4 bytes arrive (library re-arms after EAGAIN), then the peer closes */
	mode = 1; ncb = 0; socketpair(AF_UNIX, SOCK_STREAM, 0, sp); IO_BUF_MARK_TRANSFER_ALL_FREE(b); b->transfer_size = 4;
	tp_task_create(thr, sp[0], tp_task_sr_handler, 0, NULL, &t);
	tp_task_start(t, TP_EV_READ, TP_F_DISPATCH, 0, 0, b, cb);
	write(sp[1], "ab", 2); usleep(100000); close(sp[1]); usleep(200000);
	printf("(1) DISPATCH task, callback returned TP_TASK_CB_EOF without CONTINUE: EOF callbacks = %d (expected 1)\n", ncb);
	tp_task_destroy(t); close(sp[0]);
	/* (2) TP_F_ONESHOT receiver: 2 of 4 bytes arrive, then 2 more, then the peer closes */
	mode = 2; ncb = 0; socketpair(AF_UNIX, SOCK_STREAM, 0, sp); IO_BUF_MARK_AS_EMPTY(b); b->transfer_size = 4;
	tp_task_create(thr, sp[0], tp_task_sr_handler, 0, NULL, &t);
	tp_task_start(t, TP_EV_READ, TP_F_ONESHOT, 0, 0, b, cb);
	write(sp[1], "ab", 2); usleep(100000); write(sp[1], "cd", 2); usleep(100000); close(sp[1]); usleep(200000);
	printf("(2) ONESHOT task: callbacks = %d (expected >= 1), bytes taken from the socket = %zu\n", ncb, b->used);
	tp_task_destroy(t); close(sp[0]);
	/* (3) tp_task_restart error path: a regular file cannot be polled (EPERM), the 50 ms timer must be removed again */
	mode = 3; ncb = 0; int fd = open("/tmp", O_TMPFILE | O_RDWR, 0600); IO_BUF_MARK_AS_EMPTY(b); b->transfer_size = 4;
	tp_task_create(thr, fd, tp_task_rw_handler, 0, NULL, &t);
	int rc = tp_task_start(t, TP_EV_READ, 0, 50, 0, b, cb);
	usleep(300000);
	printf("(3) tp_task_start() = %d (EPERM); callbacks after the failed start = %d (expected 0)\n", rc, ncb);
	return 0;
}
