#!/usr/bin/env python3
"""seed_eval.py <seed-dir> [--tier quick|thorough] [--checks C05,C10]
Evaluate one seeded change (seeded/<id>/patch.diff + meta.json) against the checks: the patch is applied to a
scratch worktree of /repo (never to /repo itself), each listed check runs with VERIF_REPO pointing there, and
the verdict (caught = exit 1 with a VIOLATION line) is written back into meta.json under "evaluation"."""
import sys, os, json, subprocess, time, shutil
V = os.path.dirname(os.path.dirname(os.path.abspath(__file__)))
def main():
    d = os.path.abspath(sys.argv[1]); tier = "quick"; checks = None
    a = sys.argv[2:]
    if "--tier" in a: tier = a[a.index("--tier") + 1]
    if "--checks" in a: checks = a[a.index("--checks") + 1].split(",")
    meta = json.load(open(os.path.join(d, "meta.json")))
    checks = checks or [meta["property"]]
    wt = "/tmp/seedeval-%d" % os.getpid()
    subprocess.run(["git", "-C", "/repo", "worktree", "add", "-q", wt, "HEAD"], check=True)
    try:
        r = subprocess.run(["git", "-C", wt, "apply", os.path.join(d, "patch.diff")], capture_output=True, text=True)
        if r.returncode != 0:
            print("patch does not apply:", r.stderr); return 2
        res = {}
        for c in checks:
            t0 = time.time()
            p = subprocess.run([os.path.join(V, "bin/vcheck"), c, "--tier", tier], cwd=V, capture_output=True, text=True,
                               env=dict(os.environ, VERIF_REPO=wt), timeout=3600)
            viol = [l for l in p.stdout.splitlines() if l.startswith("VIOLATION")]
            keys = [l for l in p.stdout.splitlines() if "violation key=" in l]
            res[c] = {"exit": p.returncode, "caught": p.returncode == 1 and bool(viol), "keys": keys[:5],
                      "wall_s": round(time.time() - t0, 1), "tier": tier}
            print(c, res[c])
        meta.setdefault("evaluation", {}).update(res)
        meta["evaluated_at_repo_commit"] = subprocess.run(["git", "-C", "/repo", "rev-parse", "--short", "HEAD"], capture_output=True, text=True).stdout.strip()
        json.dump(meta, open(os.path.join(d, "meta.json"), "w"), indent=1)
    finally:
        subprocess.run(["git", "-C", "/repo", "worktree", "remove", "--force", wt])
        # evidence/replays written by the mutated run do not describe /repo: restore the committed ones
        subprocess.run("git -C %s checkout -- evidence 2>/dev/null" % V, shell=True)
    return 0
sys.exit(main())
