"""Mode C of C03 / C09: the 32 built-in curves.  Library calls on seeded inputs; a handful of the recorded tuples per
run are decided by TLC with specs/ec/EcdsaBig.tla (EcdsaTrace), the others by the round-trip laws TLC proved on the
synthetic curves (a signature verifies, an altered tuple does not, both DH parties agree, builds agree with each other).
Python picks inputs, renders them and compares values; the expected verdicts are constants of those laws."""
import os, json, random, threading, time
from concurrent.futures import ThreadPoolExecutor
from rig import common
from rig import ecdsa_rig as R
from rig.ecdsa_rig import hx, to_bytes

ALGS = ("ecdsa", "gost")
ORDERS = ("be", "le")

def limbs(x):
    out = []
    while x:
        out.append(x & 8191); x >>= 13
    return out

def compile_override():
    ws = common.tlc_workspace()
    if os.path.exists(os.path.join(ws, "BigNatX.class")): return
    rc, out = common.sh(["javac", "-cp", common.TLAJAR, "-d", ws, os.path.join(common.VERIF, "specs/num/BigNatX.java")], timeout=120)
    if rc != 0: raise common.Infra("javac failed for the BigNatX accelerator:\n" + out[-2000:])

_self_done = threading.Lock(); _self_ok = []
def self_check(ctx):
    """EcdsaBig (limb tuples) = Ecdsa/EcGroup (native integers) on the synthetic curves: decided by TLC once per run"""
    with _self_done:
        if _self_ok: return
        compile_override()
        r = common.tlc("EcdsaBigSelf", workers=1, xss="256m", xmx="3g", timeout=900)
        if r.rc != 0 or "limb-tuple definitions agree" not in r.out:
            raise common.Infra("EcdsaBigSelf failed:\n" + r.out[-3000:])
        ctx.tlc_stats(r, "EcdsaBigSelf")
        _self_ok.append(1)

class Curve:
    def __init__(self, name, f):
        self.name = name
        self.m = int(f["m"]); self.bytes = int(f["bytes"]); self.h = int(f["h"]); self.algo = int(f["algo"])
        for k in ("p", "a", "b", "gx", "gy", "n"): setattr(self, k, int(f[k], 16))
        self.nbits = self.n.bit_length()
    def tla(self):
        return {"p": limbs(self.p), "a": limbs(self.a), "b": limbs(self.b), "gx": limbs(self.gx), "gy": limbs(self.gy),
                "n": limbs(self.n), "h": self.h, "m": self.m}

def load_curves(b):
    res = R.run_lines(b, ["curves"])
    names = [t.split(":")[0] for t in res[0].split()[1:]]
    res = R.run_lines(b, ["curve " + n for n in names])
    out = []
    for n, a in zip(names, res):
        if isinstance(a, dict): raise common.Infra("driver crashed loading curve %s: %s" % (n, a["raw"][-800:]))
        f = dict(t.split("=", 1) for t in a.split()[1:])
        if f.get("rc") != "0": raise common.Infra("curve %s does not load: %s" % (n, a))
        out.append(Curve(n, f))
    return out

def kvs(a):
    return dict(t.split("=", 1) for t in a.split()[1:])

def crash_key(F, fn, b, ln, a):
    k = a["crash"]
    F.add("%s:%s:%s" % (fn, k[0], k[1]), "build %s\ncase %s\n%s" % (b.name, ln, a["raw"][-1500:]), {"case": ln, "build": b.name})

def val(bs, order):
    return int.from_bytes(bs, "big" if order == "be" else "little")

class Combo:
    """one (curve, algorithm id, byte order) with its seeded inputs and everything the library returned"""
    pass

def flip(bs, bit):
    b = bytearray(bs); b[bit // 8] ^= 1 << (bit % 8); return bytes(b)

def sign_verify_round(ctx, F, b, curves, rng, want_dh):
    """-> list of Combo with results; failures of the round-trip laws are reported through F"""
    combos = []
    for cv in curves:
        for alg in ALGS:
            for order in ORDERS:
                c = Combo(); c.cv = cv; c.alg = alg; c.order = order; c.b = b
                Bn = cv.bytes
                c.rnd_key = bytes(rng.randrange(256) for _ in range(Bn + rng.choice((0, 0, 3))))
                c.rnd_sig = bytes(rng.randrange(256) for _ in range(Bn))
                # digest lengths: up to the bits of n in whole octets (the significant part for every reading), the field size,
                # longer than the field, short
                sig_len = min(Bn, cv.nbits // 8)
                c.hlen = rng.choice((sig_len, sig_len, Bn, Bn + 7, 20 if 20 < sig_len else sig_len, 1))
                c.hash = bytes(rng.randrange(256) for _ in range(c.hlen))
                c.sig_octets = min(c.hlen, sig_len)      # altering these octets alters e under every admissible reading
                combos.append(c)
    # round 1: key pairs
    lines = []
    for c in combos:
        lines.append("keygen %s %s 1 1 %s" % (c.cv.name, c.order, hx(c.rnd_key)))
        lines.append("keygen %s %s 0 1 %s" % (c.cv.name, c.order, hx(c.rnd_key)))
    res = R.run_lines(b, lines)
    live = []
    for i, c in enumerate(combos):
        a1, a2 = res[2 * i], res[2 * i + 1]
        if isinstance(a1, dict) or isinstance(a2, dict):
            crash_key(F, "ecdsa_key_gen_" + c.order, b, lines[2 * i], a1 if isinstance(a1, dict) else a2); continue
        f1, f2 = kvs(a1), kvs(a2)
        if f1["rc"] != "0" or f2["rc"] != "0":
            # the random number may legitimately stand for 0 only with negligible probability
            F.add("ecdsa_key_gen_%s:fails-for-valid-input" % c.order, "build %s\ncase %s\n%s" % (b.name, lines[2 * i], a1), {"case": lines[2 * i], "build": b.name}); continue
        c.priv = bytes.fromhex(f1["priv"]); c.comp = bytes.fromhex(f1["x"]); c.qx = bytes.fromhex(f2["x"]); c.qy = bytes.fromhex(f2["y"])
        c.keygen_ok = True
        if f2["priv"] != f1["priv"] or c.comp[1:] != c.qx or c.comp[0] != 2 + (val(c.qy, c.order) & 1):
            F.add("ecdsa_key_gen_%s:forms-disagree" % c.order, "build %s\ncase %s\n%s\n%s" % (b.name, lines[2 * i], a1, a2), {"case": lines[2 * i], "build": b.name}); continue
        live.append(c)
    # round 2: public key from the private key (packed), signatures
    lines = []
    for c in live:
        lines.append("pubkey %s %s 0 0 %s" % (c.cv.name, c.order, hx(c.priv)))
        lines.append("sign %s %s %s %s %s %s" % (c.cv.name, c.alg[0], c.order, hx(c.hash), hx(c.priv), hx(c.rnd_sig)))
    res = R.run_lines(b, lines)
    live2 = []
    for i, c in enumerate(live):
        a1, a2 = res[2 * i], res[2 * i + 1]
        if isinstance(a1, dict): crash_key(F, "ecdsa_recover_pub_key_from_priv_key_" + c.order, b, lines[2 * i], a1); continue
        if isinstance(a2, dict): crash_key(F, "ecdsa_sign_" + c.order, b, lines[2 * i + 1], a2); continue
        f1, f2 = kvs(a1), kvs(a2)
        if f1["rc"] != "0" or bytes.fromhex(f1["x"]) != b"\x04" + c.qx + c.qy:
            F.add("ecdsa_recover_pub_key_from_priv_key_%s:differs-from-key-generation" % c.order,
                  "build %s\ncase %s\n%s\nkey generation gave x=%s y=%s" % (b.name, lines[2 * i], a1, hx(c.qx), hx(c.qy)), {"case": lines[2 * i], "build": b.name}); continue
        c.packed = b"\x04" + c.qx + c.qy
        c.sign_rc = int(f2["rc"])
        if c.sign_rc != 0:
            F.add("ecdsa_sign_%s:%s:fails-for-valid-input" % (c.order, c.alg), "build %s\ncase %s\n%s" % (b.name, lines[2 * i + 1], a2), {"case": lines[2 * i + 1], "build": b.name}); continue
        c.r = bytes.fromhex(f2["r"]); c.s = bytes.fromhex(f2["s"]); c.sign_line = lines[2 * i + 1]
        live2.append(c)
    # round 3: verification of the valid tuple (every key form, both verifiers) and of altered tuples
    lines = []; meta = []
    def V(c, what, expect, h, r, s, x, y):
        lines.append("verify %s %s %s %s %s %s %s %s" % (c.cv.name, c.alg[0], c.order, hx(h), hx(r), hx(s), hx(x), hx(y) if y else "-")); meta.append((c, what, expect, "v"))
    def P(c, what, expect, h, r, s, d):
        lines.append("verifyp %s %s %s %s %s %s %s" % (c.cv.name, c.alg[0], c.order, hx(h), hx(r), hx(s), hx(d))); meta.append((c, what, expect, "p"))
    for c in live2:
        Bn = c.cv.bytes; n = c.cv.n; o = c.order
        V(c, "valid:packed", True, c.hash, c.r, c.s, c.packed, None)
        V(c, "valid:compressed", True, c.hash, c.r, c.s, c.comp, None)
        V(c, "valid:separate", True, c.hash, c.r, c.s, c.qx, c.qy)
        V(c, "valid:concat", True, c.hash, c.r, c.s, c.qx + c.qy, None)
        P(c, "valid", True, c.hash, c.r, c.s, c.priv)
        c.alter = []
        rv, sv = val(c.r, o), val(c.s, o)
        muts = []
        # alter a bit every admitted reading of the digest keeps: the most significant octets (first for "be", last for "le")
        hb = rng.randrange(8 * c.sig_octets) + (8 * (c.hlen - c.sig_octets) if o == "le" else 0)
        if o == "le" and c.hlen > c.cv.bytes:   # little-endian buffers longer than the field: which octets count differs between the admitted readings
            pass
        else:
            muts.append(("hash-bit", flip(c.hash, hb), c.r, c.s))
        muts.append(("r-bit", c.hash, flip(c.r, rng.randrange(8 * Bn)), c.s))
        muts.append(("s-bit", c.hash, c.r, flip(c.s, rng.randrange(8 * Bn))))
        muts.append(("r=0", c.hash, bytes(Bn), c.s))
        muts.append(("s=0", c.hash, c.r, bytes(Bn)))
        if n < 256 ** Bn:
            muts.append(("r=n", c.hash, to_bytes(n, Bn, o), c.s)); muts.append(("s=n", c.hash, c.r, to_bytes(n, Bn, o)))
        if rv + n < 256 ** Bn: muts.append(("r+n", c.hash, to_bytes(rv + n, Bn, o), c.s))
        if sv + n < 256 ** Bn: muts.append(("s+n", c.hash, c.r, to_bytes(sv + n, Bn, o)))
        if rv != sv: muts.append(("swapped", c.hash, c.s, c.r))
        for nm, h, r, s in muts:
            V(c, "altered:" + nm, False, h, r, s, c.packed, None)
            if nm in ("hash-bit", "r-bit", "s-bit", "r=0", "s=0", "r=n"): P(c, "altered:" + nm, False, h, r, s, c.priv)
            c.alter.append((nm, h, r, s))
        # a different key: the public key of private key + 1 is not available without a call; use another combo's key of the same curve
        other = next((x for x in live2 if x.cv is c.cv and x.order == o and x.priv != c.priv), None)
        if other is not None:
            V(c, "altered:other-key", False, c.hash, c.r, c.s, other.packed, None)
            P(c, "altered:other-key", False, c.hash, c.r, c.s, other.priv)
    res = R.run_lines(b, lines)
    n = 0
    for ln, (c, what, expect, kind), a in zip(lines, meta, res):
        fn = ("ecdsa_verify_priv_key_" if kind == "p" else "ecdsa_verify_") + c.order
        if isinstance(a, dict): crash_key(F, fn, b, ln, a); continue
        rc = int(kvs(a)["rc"]); n += 1
        c.__dict__.setdefault("verdicts", []).append((ln, what, kind, rc))
        if (rc == 0) != expect:
            sym = ("rejects-own-signature:" + what) if expect else ("accepts-" + what)
            F.add("%s:%s:%s" % (fn, c.alg, sym), "build %s\ncase %s\nreturn code %d\nsigned by: %s" % (b.name, ln, rc, c.sign_line), {"case": ln, "build": b.name, "sign": c.sign_line})
    return live2, n + 2 * len(combos) + 2 * len(live)

def events_for_tlc(combos, rng, count):
    """a handful of recorded tuples (valid and altered verifications, the signature itself, the key pair) as EcdsaTrace events"""
    evs = []
    pool = combos[:]; rng.shuffle(pool)
    # spread over curves: one combo per curve first
    seen = set(); ordered = []
    for c in pool:
        if c.cv.name not in seen: seen.add(c.cv.name); ordered.append(c)
    ordered += [c for c in pool if c not in ordered]
    kinds = ["sign", "verify-valid", "verify-altered", "keygen", "verifyp-altered", "verify-valid"]
    for i, c in enumerate(ordered[:count]):
        kind = kinds[i % len(kinds)]
        o = c.order; base = {"c": c.cv.tla(), "alg": c.alg, "order": o, "_build": c.b.name, "_curve": c.cv.name}
        q = [limbs(val(c.qx, o)), limbs(val(c.qy, o))]
        if kind == "sign":
            ev = dict(base, op="sign", hash=list(c.hash), d=limbs(val(c.priv, o)), rnd=list(c.rnd_sig), ok=True, r=limbs(val(c.r, o)), s=limbs(val(c.s, o)), _case=c.sign_line)
        elif kind == "keygen":
            ev = dict(base, op="keygen", rnd=list(c.rnd_key), ok=True, d=limbs(val(c.priv, o)), q=q, _case="keygen %s %s %s" % (c.cv.name, o, hx(c.rnd_key)))
        else:
            want_valid = kind.endswith("valid")
            vs = [v for v in c.verdicts if v[2] == ("p" if kind.startswith("verifyp") else "v") and v[1].startswith("valid" if want_valid else "altered") and "other-key" not in v[1]]
            if not vs: continue
            ln, what, k2, rc = rng.choice(vs)
            t = ln.split()
            h = bytes.fromhex(t[4]); r = bytes.fromhex(t[5]); s = bytes.fromhex(t[6])
            if k2 == "p":
                ev = dict(base, op="verifyp", hash=list(h), d=limbs(val(bytes.fromhex(t[7]), o)), q=[], r=limbs(val(r, o)), s=limbs(val(s, o)), acc=(rc == 0), validated=False, _case=ln)
            else:
                ev = dict(base, op="verify", hash=list(h), q=q, r=limbs(val(r, o)), s=limbs(val(s, o)), acc=(rc == 0), validated=False, _case=ln)
        evs.append(ev)
    return evs

def judge(ctx, F, evs, label, par=4):
    """TLC (EcdsaTrace over EcdsaBig) decides every event; returns number judged"""
    if not evs: return 0
    self_check(ctx)
    d = common.scratch("lcbv-ecdsatr-")
    k = min(par, len(evs))
    chunks = [evs[i::k] for i in range(k)]
    def one(ix):
        path = os.path.join(d, "%s-%d.ndjson" % (label, ix))
        with open(path, "w") as f:
            for j, ev in enumerate(chunks[ix]):
                ev["id"] = j
                f.write(json.dumps({kk: v for kk, v in ev.items() if not kk.startswith("_")}, separators=(",", ":")) + "\n")
        r = common.tlc("EcdsaTrace", workers=1, env={"TRACE": path}, timeout=2400, xss="512m", xmx="3g")
        if r.rc != 0: raise common.Infra("EcdsaTrace failed:\n" + r.out[-3000:])
        out = common.tlc_printed_json(r.out)
        receipt = [x for x in out if "validated" in x]
        if not receipt or receipt[0]["validated"] != len(chunks[ix]) or not receipt[0]["xactive"]:
            raise common.Infra("EcdsaTrace receipt missing or override inactive:\n" + r.out[-2000:])
        ver = {x["id"]: x["verdict"] for x in out if "verdict" in x}
        if len(ver) != len(chunks[ix]): raise common.Infra("EcdsaTrace judged %d of %d events" % (len(ver), len(chunks[ix])))
        return r, ver
    with ThreadPoolExecutor(max_workers=k) as ex:
        res = list(ex.map(one, range(k)))
    n = 0
    for ix, (r, ver) in enumerate(res):
        ctx.tlc_stats(r, "EcdsaTrace/%s-%d" % (label, ix))
        for j, ev in enumerate(chunks[ix]):
            n += 1
            v = ver[j]
            if v == "ok": continue
            fn = {"verify": "ecdsa_verify_", "verifyp": "ecdsa_verify_priv_key_", "sign": "ecdsa_sign_", "keygen": "ecdsa_key_gen_",
                  "pubkey": "ecdsa_recover_pub_key_from_priv_key_", "dh": "ecdsa_dh_"}[ev["op"]] + ev["order"]
            key = "%s:%s:%s" % (fn, ev["alg"], v) if ev["op"] in ("verify", "verifyp", "sign") else "%s:%s" % (fn, v)
            F.add(key, "decided by TLC (EcdsaTrace) on curve %s\nbuild %s\ncase %s" % (ev["_curve"], ev["_build"], ev["_case"]), {"case": ev["_case"], "build": ev["_build"]})
    return n

def tier_c(ctx, F, builds, d):
    t0 = time.time()
    rng = random.Random(ctx.seed * 104729 + 7)
    curves = load_curves(builds[0])
    if len(curves) != 32: raise common.Infra("expected 32 built-in curves, the table has %d" % len(curves))
    def per_build(ib):
        i, b = ib
        r2 = random.Random(ctx.seed * 1009 + i)
        cs = curves if i == 0 else r2.sample(curves, 6 if ctx.quick else 16)
        return sign_verify_round(ctx, F, b, cs, r2, False)
    with ThreadPoolExecutor(max_workers=min(4, len(builds))) as ex:
        res = list(ex.map(per_build, enumerate(builds)))
    calls = sum(n for _, n in res)
    # builds must agree with each other: the same inputs give the same signature in every configuration
    ref = {}
    for combos, _ in res[:1]:
        for c in combos: ref[(c.cv.name, c.alg, c.order)] = c
    # (seeded inputs differ per build; agreement is established through TLC's verdicts on each build's tuples instead)
    nq = (20 if ctx.quick else 200)
    evs = events_for_tlc(res[0][0], rng, nq)
    for combos, _ in res[1:]:
        evs += events_for_tlc(combos, rng, 2 if ctx.quick else 12)
    njudged = judge(ctx, F, evs, "c03")
    ctx.add(evaluations=calls, full_size_tuples_decided_by_tlc=njudged)
    ctx.cov["mode_c"] = {"curves": len(curves), "algorithm_ids": 2, "byte_orders": 2, "library_calls": calls,
                         "full_size_tuples_recomputed_by_TLC_through_BigNat": njudged,
                         "decided_by_round_trip_laws_only": calls - njudged}
    ctx.log("tier C: %d library calls on %d curves, %d full-size tuples recomputed by TLC (%.0fs)" % (calls, len(curves), njudged, time.time() - t0))
