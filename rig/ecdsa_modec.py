"""Mode C of C03 / C09: the 32 built-in curves.  Library calls on seeded inputs; a handful of the recorded tuples per
run are decided by TLC with specs/ec/EcdsaBig.tla (EcdsaTrace), the others by the round-trip laws TLC proved on the
synthetic curves (a signature verifies, an altered tuple does not, both DH parties agree, builds agree with each other).
Python picks inputs, renders them and compares values; the expected verdicts are constants of those laws."""
import os, json, random, threading, time
from concurrent.futures import ThreadPoolExecutor
from rig import common
from rig import ecdsa_rig as R
from rig.ecdsa_rig import hx, to_bytes

ALGS = ("ecdsa", "gost")
ORDERS = ("be", "le")

def limbs(x):
    out = []
    while x:
        out.append(x & 8191); x >>= 13
    return out

def compile_override():
    ws = common.tlc_workspace()
    if os.path.exists(os.path.join(ws, "EcdsaBigX.class")): return
    rc, out = common.sh(["javac", "-cp", common.TLAJAR, "-d", ws, os.path.join(common.VERIF, "specs/num/BigNatX.java"),
                         os.path.join(common.VERIF, "specs/ec/EcdsaBigX.java")], timeout=120)
    if rc != 0: raise common.Infra("javac failed for the BigNatX / EcdsaBigX accelerators:\n" + out[-2000:])

_self = {"thread": None, "err": None, "runs": []}
def start_self_check():
    """background: EcdsaBig (limb tuples) = Ecdsa/EcGroup (native integers) on the synthetic curves, and the published
    signature examples (X9.62 J.3.1, RFC 6979 A.2.5, GOST R 34.10-2012 A.1/A.2) re-derived from EcdsaBig - both decided by TLC"""
    if _self["thread"] is not None: return
    compile_override()
    def work():
        try:
            for mod, token in (("EcdsaBigSelf", "limb-tuple definitions agree"), ("EcdsaVectors", "published examples are reproduced")):
                r = common.tlc(mod, workers=1, xss="256m", xmx="3g", timeout=1500)
                if r.rc != 0 or token not in r.out:
                    _self["err"] = "%s failed:\n%s" % (mod, r.out[-3000:]); return
                _self["runs"].append((r, mod))
        except Exception as e:       # reported by self_check()
            _self["err"] = str(e)
    _self["thread"] = threading.Thread(target=work); _self["thread"].start()

def self_check(ctx):
    start_self_check()
    _self["thread"].join()
    if _self["err"]: raise common.Infra(_self["err"])
    for r, mod in _self["runs"]: ctx.tlc_stats(r, mod)
    _self["runs"] = []

class Curve:
    def __init__(self, name, f):
        self.name = name
        self.m = int(f["m"]); self.bytes = int(f["bytes"]); self.h = int(f["h"]); self.algo = int(f["algo"])
        for k in ("p", "a", "b", "gx", "gy", "n"): setattr(self, k, int(f[k], 16))
        self.nbits = self.n.bit_length()
    def tla(self):
        return {"p": limbs(self.p), "a": limbs(self.a), "b": limbs(self.b), "gx": limbs(self.gx), "gy": limbs(self.gy),
                "n": limbs(self.n), "h": self.h, "m": self.m}

def load_curves(b):
    res = R.run_lines(b, ["curves"])
    names = [t.split(":")[0] for t in res[0].split()[1:]]
    res = R.run_lines(b, ["curve " + n for n in names])
    out = []
    for n, a in zip(names, res):
        if isinstance(a, dict): raise common.Infra("driver crashed loading curve %s: %s" % (n, a["raw"][-800:]))
        f = dict(t.split("=", 1) for t in a.split()[1:])
        if f.get("rc") != "0": raise common.Infra("curve %s does not load: %s" % (n, a))
        out.append(Curve(n, f))
    return out

def kvs(a):
    return dict(t.split("=", 1) for t in a.split()[1:])

def crash_key(F, fn, b, ln, a):
    k = a["crash"]
    F.add("%s:%s:%s" % (fn, k[0], k[1]), "build %s\ncase %s\n%s" % (b.name, ln, a["raw"][-1500:]), {"case": ln, "build": b.name})

def val(bs, order):
    return int.from_bytes(bs, "big" if order == "be" else "little")

class Combo:
    """one (curve, algorithm id, byte order) with its seeded inputs and everything the library returned"""
    pass

def flip(bs, bit):
    b = bytearray(bs); b[bit // 8] ^= 1 << (bit % 8); return bytes(b)

def sign_verify_round(ctx, F, b, curves, rng, want_dh):
    """-> list of Combo with results; failures of the round-trip laws are reported through F"""
    combos = []
    for cv in curves:
        for alg in ALGS:
            for order in ORDERS:
                c = Combo(); c.cv = cv; c.alg = alg; c.order = order; c.b = b
                Bn = cv.bytes
                c.rnd_key = bytes(rng.randrange(256) for _ in range(Bn + rng.choice((0, 0, 3))))
                c.rnd_sig = bytes(rng.randrange(256) for _ in range(Bn))
                # digest lengths: up to the bits of n in whole octets (the significant part for every reading), the field size,
                # longer than the field, short
                sig_len = min(Bn, cv.nbits // 8)
                c.hlen = rng.choice((sig_len, sig_len, Bn, Bn + 7, 20 if 20 < sig_len else sig_len, 1))
                c.hash = bytes(rng.randrange(256) for _ in range(c.hlen))
                c.sig_octets = min(c.hlen, sig_len)      # altering these octets alters e under every admissible reading
                combos.append(c)
    # round 1: key pairs, through the big-endian entry points (C09 judges the little-endian key export); a little-endian
    # combo gets the same numbers with reversed octets
    def ordv(c, bs): return bs if c.order == "be" else bs[::-1]
    lines = []
    for c in combos:
        lines.append("keygen %s be 1 1 %s" % (c.cv.name, hx(c.rnd_key)))
        lines.append("keygen %s be 0 1 %s" % (c.cv.name, hx(c.rnd_key)))
    res = R.run_lines(b, lines)
    live = []
    for i, c in enumerate(combos):
        a1, a2 = res[2 * i], res[2 * i + 1]
        if isinstance(a1, dict) or isinstance(a2, dict):
            crash_key(F, "ecdsa_key_gen_be", b, lines[2 * i], a1 if isinstance(a1, dict) else a2); continue
        f1, f2 = kvs(a1), kvs(a2)
        if f1["rc"] != "0" or f2["rc"] != "0":
            # the random number may legitimately stand for 0 only with negligible probability
            F.add("ecdsa_key_gen_be:fails-for-valid-input", "build %s\ncase %s\n%s" % (b.name, lines[2 * i], a1), {"case": lines[2 * i], "build": b.name}); continue
        try:
            priv = bytes.fromhex(f1["priv"]); comp = bytes.fromhex(f1["x"]); qx = bytes.fromhex(f2["x"]); qy = bytes.fromhex(f2["y"])
        except ValueError:       # e.g. the neutral element came back as the "public key" (no second block)
            priv = comp = qx = b""; qy = b"\x00"
        if f2["priv"] != f1["priv"] or len(qx) != c.cv.bytes or comp[1:] != qx or comp[0] != 2 + (qy[-1] & 1):
            F.add("ecdsa_key_gen_be:forms-disagree", "build %s\ncase %s\n%s\n%s" % (b.name, lines[2 * i], a1, a2), {"case": lines[2 * i], "build": b.name}); continue
        c.priv = ordv(c, priv); c.qx = ordv(c, qx); c.qy = ordv(c, qy); c.comp = comp[:1] + c.qx; c.packed = b"\x04" + c.qx + c.qy
        live.append(c)
    # round 2: signatures.  A failing signer is not C03's subject (the statement speaks about signatures that were produced):
    # the little-endian signer cannot export r, s on fields whose octet count is no multiple of the digit size (C01 / C09);
    # such a combo continues with the signature of the big-endian entry point on the same numbers.
    lines = []
    for c in live:
        lines.append("sign %s %s %s %s %s %s" % (c.cv.name, c.alg[0], c.order, hx(c.hash), hx(c.priv), hx(c.rnd_sig)))
    res = R.run_lines(b, lines)
    retry = []
    for ln, c, a in zip(lines, live, res):
        c.sign_line = ln; c.r = None
        if isinstance(a, dict): crash_key(F, "ecdsa_sign_" + c.order, b, ln, a); continue
        f = kvs(a)
        if f["rc"] == "0": c.r = bytes.fromhex(f["r"]); c.s = bytes.fromhex(f["s"])
        elif c.order == "le" and len(c.hash) <= c.cv.bytes: retry.append(c)
    lines = ["sign %s %s be %s %s %s" % (c.cv.name, c.alg[0], hx(c.hash[::-1]), hx(c.priv[::-1]), hx(c.rnd_sig[::-1])) for c in retry]
    for ln, c, a in zip(lines, retry, R.run_lines(b, lines)):
        if isinstance(a, dict): crash_key(F, "ecdsa_sign_be", b, ln, a); continue
        f = kvs(a)
        if f["rc"] == "0": c.r = bytes.fromhex(f["r"])[::-1]; c.s = bytes.fromhex(f["s"])[::-1]; c.sign_line = ln + "   (octets reversed)"; c.signed_by_be = True
    live2 = [c for c in live if c.r is not None]
    ctx.add(mode_c_signer_failures_not_judged=len(live) - len(live2))
    # round 3: verification of the valid tuple (every key form, both verifiers) and of altered tuples
    lines = []; meta = []
    def V(c, what, expect, h, r, s, x, y):
        lines.append("verify %s %s %s %s %s %s %s %s" % (c.cv.name, c.alg[0], c.order, hx(h), hx(r), hx(s), hx(x), hx(y) if y else "-")); meta.append((c, what, expect, "v"))
    def P(c, what, expect, h, r, s, d):
        lines.append("verifyp %s %s %s %s %s %s %s" % (c.cv.name, c.alg[0], c.order, hx(h), hx(r), hx(s), hx(d))); meta.append((c, what, expect, "p"))
    for c in live2:
        Bn = c.cv.bytes; n = c.cv.n; o = c.order
        V(c, "valid:packed", True, c.hash, c.r, c.s, c.packed, None)
        V(c, "valid:compressed", True, c.hash, c.r, c.s, c.comp, None)
        V(c, "valid:separate", True, c.hash, c.r, c.s, c.qx, c.qy)
        V(c, "valid:concat", True, c.hash, c.r, c.s, c.qx + c.qy, None)
        P(c, "valid", True, c.hash, c.r, c.s, c.priv)
        c.alter = []
        rv, sv = val(c.r, o), val(c.s, o)
        muts = []
        # alter a bit every admitted reading of the digest keeps: the most significant octets (first for "be", last for "le")
        hb = rng.randrange(8 * c.sig_octets) + (8 * (c.hlen - c.sig_octets) if o == "le" else 0)
        if o == "le" and c.hlen > c.cv.bytes:   # little-endian buffers longer than the field: which octets count differs between the admitted readings
            pass
        else:
            muts.append(("hash-bit", flip(c.hash, hb), c.r, c.s))
        muts.append(("r-bit", c.hash, flip(c.r, rng.randrange(8 * Bn)), c.s))
        muts.append(("s-bit", c.hash, c.r, flip(c.s, rng.randrange(8 * Bn))))
        muts.append(("r=0", c.hash, bytes(Bn), c.s))
        muts.append(("s=0", c.hash, c.r, bytes(Bn)))
        if n < 256 ** Bn:
            muts.append(("r=n", c.hash, to_bytes(n, Bn, o), c.s)); muts.append(("s=n", c.hash, c.r, to_bytes(n, Bn, o)))
        if rv + n < 256 ** Bn: muts.append(("r+n", c.hash, to_bytes(rv + n, Bn, o), c.s))
        if sv + n < 256 ** Bn: muts.append(("s+n", c.hash, c.r, to_bytes(sv + n, Bn, o)))
        if rv != sv: muts.append(("swapped", c.hash, c.s, c.r))
        for nm, h, r, s in muts:
            V(c, "altered:" + nm, False, h, r, s, c.packed, None)
            if nm in ("hash-bit", "r-bit", "s-bit", "r=0", "s=0", "r=n"): P(c, "altered:" + nm, False, h, r, s, c.priv)
            c.alter.append((nm, h, r, s))
        # a different key: the public key of private key + 1 is not available without a call; use another combo's key of the same curve
        other = next((x for x in live2 if x.cv is c.cv and x.order == o and x.priv != c.priv), None)
        if other is not None:
            V(c, "altered:other-key", False, c.hash, c.r, c.s, other.packed, None)
            P(c, "altered:other-key", False, c.hash, c.r, c.s, other.priv)
    res = R.run_lines(b, lines)
    n = 0
    for ln, (c, what, expect, kind), a in zip(lines, meta, res):
        fn = ("ecdsa_verify_priv_key_" if kind == "p" else "ecdsa_verify_") + c.order
        if isinstance(a, dict): crash_key(F, fn, b, ln, a); continue
        rc = int(kvs(a)["rc"]); n += 1
        c.__dict__.setdefault("verdicts", []).append((ln, what, kind, rc))
        if (rc == 0) != expect:
            sym = ("rejects-own-signature:" + what) if expect else ("accepts-" + what)
            F.add("%s:%s:%s" % (fn, c.alg, sym), "build %s\ncase %s\nreturn code %d\nsigned by: %s" % (b.name, ln, rc, c.sign_line), {"case": ln, "build": b.name, "sign": c.sign_line})
    return live2, n + 2 * len(combos) + len(live) + len(retry)

def events_for_tlc(combos, rng, count):
    """a handful of recorded tuples (valid and altered verifications, the signature itself, the key pair) as EcdsaTrace events"""
    evs = []
    pool = combos[:]; rng.shuffle(pool)
    # spread over curves: one combo per curve first
    seen = set(); ordered = []
    for c in pool:
        if c.cv.name not in seen: seen.add(c.cv.name); ordered.append(c)
    ordered += [c for c in pool if c not in ordered]
    kinds = ["sign", "verify-valid", "verify-altered", "keygen", "verifyp-altered", "verify-valid"]
    for i, c in enumerate(ordered[:count]):
        kind = kinds[i % len(kinds)]
        if kind == "sign" and getattr(c, "signed_by_be", False): kind = "verify-valid"
        o = c.order; base = {"c": c.cv.tla(), "alg": c.alg, "order": o, "_build": c.b.name, "_curve": c.cv.name}
        q = [limbs(val(c.qx, o)), limbs(val(c.qy, o))]
        if kind == "sign":
            ev = dict(base, op="sign", hash=list(c.hash), d=limbs(val(c.priv, o)), rnd=list(c.rnd_sig), ok=True, r=limbs(val(c.r, o)), s=limbs(val(c.s, o)), _case=c.sign_line)
        elif kind == "keygen":
            ev = dict(base, op="keygen", order="be", rnd=list(c.rnd_key), ok=True, d=limbs(val(c.priv, o)), q=q, _case="keygen %s be 1 1 %s" % (c.cv.name, hx(c.rnd_key)))
        else:
            want_valid = kind.endswith("valid")
            vs = [v for v in getattr(c, "verdicts", []) if v[2] == ("p" if kind.startswith("verifyp") else "v") and v[1].startswith("valid" if want_valid else "altered") and "other-key" not in v[1]]
            if not vs: continue
            ln, what, k2, rc = rng.choice(vs)
            t = ln.split()
            h = bytes.fromhex(t[4]); r = bytes.fromhex(t[5]); s = bytes.fromhex(t[6])
            if k2 == "p":
                ev = dict(base, op="verifyp", hash=list(h), d=limbs(val(bytes.fromhex(t[7]), o)), q=[], r=limbs(val(r, o)), s=limbs(val(s, o)), acc=(rc == 0), validated=False, _case=ln)
            else:
                ev = dict(base, op="verify", hash=list(h), q=q, r=limbs(val(r, o)), s=limbs(val(s, o)), acc=(rc == 0), validated=False, _case=ln)
        evs.append(ev)
    return evs

def judge(ctx, F, evs, label, par=4):
    """TLC (EcdsaTrace over EcdsaBig) decides every event; returns number judged"""
    if not evs: return 0
    self_check(ctx)
    d = common.scratch("lcbv-ecdsatr-")
    k = min(par, len(evs))
    chunks = [evs[i::k] for i in range(k)]
    def one(ix):
        path = os.path.join(d, "%s-%d.ndjson" % (label, ix))
        with open(path, "w") as f:
            for j, ev in enumerate(chunks[ix]):
                ev["id"] = j
                f.write(json.dumps({kk: v for kk, v in ev.items() if not kk.startswith("_")}, separators=(",", ":")) + "\n")
        r = common.tlc("EcdsaTrace", workers=1, env={"TRACE": path}, timeout=2400, xss="512m", xmx="3g")
        if r.rc != 0: raise common.Infra("EcdsaTrace failed:\n" + r.out[-3000:])
        out = common.tlc_printed_json(r.out)
        receipt = [x for x in out if "validated" in x]
        if not receipt or receipt[0]["validated"] != len(chunks[ix]) or not receipt[0]["xactive"]:
            raise common.Infra("EcdsaTrace receipt missing or override inactive:\n" + r.out[-2000:])
        ver = {x["id"]: x["verdict"] for x in out if "verdict" in x}
        if len(ver) != len(chunks[ix]): raise common.Infra("EcdsaTrace judged %d of %d events" % (len(ver), len(chunks[ix])))
        return r, ver
    with ThreadPoolExecutor(max_workers=k) as ex:
        res = list(ex.map(one, range(k)))
    n = 0
    for ix, (r, ver) in enumerate(res):
        ctx.tlc_stats(r, "EcdsaTrace/%s-%d" % (label, ix))
        for j, ev in enumerate(chunks[ix]):
            n += 1
            v = ver[j]
            if v == "ok": continue
            fn = {"verify": "ecdsa_verify_", "verifyp": "ecdsa_verify_priv_key_", "sign": "ecdsa_sign_", "keygen": "ecdsa_key_gen_",
                  "pubkey": "ecdsa_recover_pub_key_from_priv_key_", "dh": "ecdsa_dh_"}[ev["op"]] + ev["order"]
            if v.startswith("hash-to-integer"): key = "ecdsa:" + v
            elif v == "accepts-r=0": key = "ecdsa_verify:accepts-r=0"
            elif v == "accepts-s=0" and ev["alg"] == "gost": key = "ecdsa_verify:gost:accepts-s=0"
            elif ev["op"] in ("verify", "verifyp", "sign"): key = "%s:%s:%s" % (fn, ev["alg"], v)
            else: key = "%s:%s" % (fn, v)
            F.add(key, "%s (%s): decided by TLC (EcdsaTrace) on curve %s\nbuild %s\ncase %s" % (fn, ev["alg"], ev["_curve"], ev["_build"], ev["_case"]), {"case": ev["_case"], "build": ev["_build"]})
    return n

def rounds(ctx, F, builds):
    """library part of tier C (can run while TLC works on tier B)"""
    t0 = time.time()
    curves = load_curves(builds[0])
    if len(curves) != 32: raise common.Infra("expected 32 built-in curves, the table has %d" % len(curves))
    def per_build(ib):
        i, b = ib
        r2 = random.Random(ctx.seed * 1009 + i)
        # the other builds: a seeded subset (quick: small curves; slow digit sizes / ASan make the big ones cost seconds per call)
        if i == 0: cs = curves
        elif ctx.quick: cs = r2.sample([c for c in curves if c.m <= (192 if b.asan else 256)], 2 if b.asan else 4)
        else: cs = r2.sample(curves, 8 if b.asan else 16)
        t1 = time.time()
        out = sign_verify_round(ctx, F, b, cs, r2, False)
        ctx.log("tier C: %s: %d calls on %d curves in %.0fs" % (b.name, out[1], len(cs), time.time() - t1))
        return out
    with ThreadPoolExecutor(max_workers=min(3, len(builds))) as ex:
        res = list(ex.map(per_build, enumerate(builds)))
    # cross-configuration agreement: signatures made by the first build are presented to every other build
    r3 = random.Random(ctx.seed * 31 + 5)
    pool = [c for c in res[0][0] if c.cv.m <= 256]
    picks = r3.sample(pool, min(len(pool), 12 if ctx.quick else 48))
    def cross(b):
        lines = ["verify %s %s %s %s %s %s %s -" % (c.cv.name, c.alg[0], c.order, hx(c.hash), hx(c.r), hx(c.s), hx(c.packed)) for c in picks]
        n = 0
        for ln, c, a in zip(lines, picks, R.run_lines(b, lines)):
            if isinstance(a, dict): crash_key(F, "ecdsa_verify_" + c.order, b, ln, a); continue
            n += 1
            if kvs(a)["rc"] != "0":
                F.add("ecdsa_verify_%s:%s:rejects-signature-of-another-configuration" % (c.order, c.alg),
                      "build %s\ncase %s\n%s\nsigned by build %s: %s" % (b.name, ln, a, builds[0].name, c.sign_line), {"case": ln, "build": b.name})
        return n
    with ThreadPoolExecutor(max_workers=min(3, len(builds))) as ex:
        ncross = sum(ex.map(cross, builds[1:]))
    ctx.add(cross_configuration_verifications=ncross)
    return dict(res=res, ncurves=len(curves), t0=t0)

def finish(ctx, F, st):
    """TLC part of tier C: a handful of the recorded tuples are recomputed through BigNat"""
    res = st["res"]
    rng = random.Random(ctx.seed * 104729 + 7)
    calls = sum(n for _, n in res)
    evs = events_for_tlc(res[0][0], rng, 20 if ctx.quick else 200)
    for combos, _ in res[1:]:
        evs += events_for_tlc(combos, rng, 2 if ctx.quick else 12)
    njudged = judge(ctx, F, evs, "c03")
    ctx.add(evaluations=calls, full_size_tuples_decided_by_tlc=njudged)
    ctx.cov["mode_c"] = {"curves": st["ncurves"], "algorithm_ids": 2, "byte_orders": 2, "library_calls": calls,
                         "full_size_tuples_recomputed_by_TLC_through_BigNat": njudged,
                         "decided_by_round_trip_laws_only": calls - njudged}
    ctx.log("tier C: %d library calls on %d curves, %d full-size tuples recomputed by TLC" % (calls, st["ncurves"], njudged))

def tier_c(ctx, F, builds, d=None):
    finish(ctx, F, rounds(ctx, F, builds))
