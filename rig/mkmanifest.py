#!/usr/bin/env python3
"""Regenerate MANIFEST.json from rig/manifest.d/entries.json (claimed checks) + properties.jsonl (everything else is
listed under not_applicable with a reason from rig/manifest.d/not_applicable.json or a default)."""
import json, os, subprocess
V = os.path.dirname(os.path.dirname(os.path.abspath(__file__)))
props = [json.loads(l) for l in open(os.path.join(V, "properties.jsonl"))]
E = json.load(open(os.path.join(V, "rig/manifest.d/entries.json")))
na_path = os.path.join(V, "rig/manifest.d/not_applicable.json")
NA = json.load(open(na_path)) if os.path.exists(na_path) else {}
hooks = subprocess.run("git -C /repo log --format=%h --grep='^verif hooks'", shell=True, capture_output=True, text=True).stdout.split()
checks = []
for p in props:
    i = p["id"]
    if i in E:
        e = E[i]
        checks.append({"property_id": i, "quick_cmd": "bin/vcheck %s --tier quick" % i,
                       "thorough_cmd": "bin/vcheck %s --tier thorough" % i, "evidence_file": "evidence/%s.json" % i,
                       "replay_cmd_template": "bin/vcheck replay {path}", "engine": "vcheck",
                       "level_claimed": e["level_claimed"], "level_note": e["level_note"], "technique": e["technique"]})
m = {"version": 1, "setup_cmd": "python3 /verif/rig/setup.py",
     "hooks": {"guard": "LIBLCB_VERIF",
               "enable": "checks compile the needed /repo sources themselves with -DLIBLCB_VERIF (rig/common.py cc(); the thread-pool driver harness/tp_drv.c supplies liblcb_verif_point())",
               "baseline_off_cmd": "cmake -S /repo -B /repo/_build -G Ninja -DENABLE_LIBLCB_TESTS=1 && cmake --build /repo/_build && ctest --test-dir /repo/_build -j8 --timeout 900",
               "source_commits": hooks, "add_only": True},
     "engines": [{"name": "vcheck", "path": "bin/vcheck", "serves_properties": sorted(E),
                  "kind_free_text": "TLA+ specifications checked/enumerated by TLC, bound to the C code by conformance drivers (trace validation of hook/wrapper logs, spec-generated cases with spec-computed expectations, TLC-evaluated references)"}],
     "checks": checks,
     "not_applicable": [{"property_id": p["id"], "reason": NA.get(p["id"], "check under construction in this session (not yet claimed)")}
                        for p in props if p["id"] not in E],
     "notes": "see DESIGN.md (section 9 = build report); known findings in known_findings.json; growth_checks = specification coverage beyond the 20 listed properties (same engine and exit-code contract, pseudo ids Xnn, not part of checks[] because they have no entry in properties.jsonl)",
     "growth_checks": json.load(open(os.path.join(V, "rig/manifest.d/growth.json")))}
json.dump(m, open(os.path.join(V, "MANIFEST.json"), "w"), indent=1)
print("claimed:", sorted(E), "hooks:", hooks)
