#!/usr/bin/env python3
"""print the markdown table of seeded changes and what caught them (from seeded/*/meta.json)"""
import json, glob, os
V = os.path.dirname(os.path.dirname(os.path.abspath(__file__)))
print("| seed | needs to manifest | caught by (quick tier) | first keys |")
print("|---|---|---|---|")
for f in sorted(glob.glob(os.path.join(V, "seeded", "*", "meta.json"))):
    m = json.load(open(f)); sid = os.path.basename(os.path.dirname(f))
    ev = m.get("evaluation", {})
    caught = [c for c, r in ev.items() if r.get("caught")]
    missed = [c for c, r in ev.items() if not r.get("caught")]
    keys = []
    for c in caught:
        for k in ev[c].get("keys", [])[:2]:
            k = k.split("violation key=")[-1]
            if k not in keys: keys.append(k)
    note = m.get("strengthening", "")
    print("| %s | %s | %s%s | %s |" % (sid, m.get("needs_to_manifest", "")[:150], ", ".join(caught) or "-",
          (" (missed: %s)" % ", ".join(missed)) if missed else "", ("; ".join("`%s`" % k[:70] for k in keys[:2]) + ((" - " + note) if note else ""))))
