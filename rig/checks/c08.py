"""C08 - ChaCha (8/12/20 rounds, 128/256-bit keys), HChaCha, XChaCha and GOST 28147-89 match their
specifications and invert correctly.

On the specification (TLC):
  ChaChaStreamMC      exhaustive: every split of <= 3 abstract blocks (B = 4) into calls, with/without src per call,
                      zero-length calls, initial counters next to 2^32 and 2^64: StreamCorrect / CounterCarries /
                      SavedKeyStream; reachability companions (the carries do happen)
  ChaChaRefMC         the ChaCha/HChaCha/XChaCha reference validated by published vectors (ASSUME)
  Gost28147MC         frozen S-boxes + GOST reference validated by published vectors (ASSUME); Decrypt(Encrypt(x)) = x
                      etc. on chains of pseudo-random blocks for all six tables
Binding (harness/cipher_drv.c built from common.REPO in several compiler configurations):
  mode C  every DISTINCT (input, output) pair the real functions produced over all 8x8 alignments, in place,
          src = NULL, all splits into stream calls, is evaluated against the TLA+ reference by TLC
          (ChaChaEval / Gost28147Eval)
  mode A  every DISTINCT sequence of ctx fields (state[12], state[13], ks_len after each call) is validated as a
          trace of ChaChaStream at B = 64 (ChaChaStreamTrace)
Python renders inputs, runs builds/drivers/TLC, folds identical records and compares nothing but TLC's verdicts."""
import json, os, random, subprocess, time, collections
from concurrent.futures import ThreadPoolExecutor
from rig import common

DRV = os.path.join(common.VERIF, "harness", "cipher_drv.c")
SBOX_NAMES = ["", "GostR3411-94-TestParamSet", "CryptoPro-A", "CryptoPro-B", "CryptoPro-C", "CryptoPro-D", "tc26-param-Z"]

# ------------------------------------------------------------------ builds
def build_matrix(ctx):
    full = [(cc, o, a, s) for cc in ("gcc", "clang") for o in ("-O0", "-O1", "-O2", "-O3") for a in (0, 1) for s in (0, 1)]
    san = ("clang", "-O1", 0, 1, "asan")
    if not ctx.quick:
        return [b + (None,) for b in full] + [san, ("gcc", "-O2", 1, 0, "asan")]
    rng = random.Random(ctx.seed * 7919 + 1)
    # quick: gcc -O2 as a user would build it (strict aliasing on, expanded tables), clang under ASan/UBSan with the
    # small tables, and one seeded member of the rest of the matrix with an extreme optimisation level
    third = rng.choice([b for b in full if b[1] in ("-O0", "-O3") and not (b[0] == "gcc" and b[2] == 0 and b[3] == 0)])
    return [("gcc", "-O2", 0, 0, None), san, third + (None,)]

def bname(b):
    return "%s%s%s%s%s" % (b[0], b[1], "-nsa" if b[2] else "", "-small" if b[3] else "", "-asan" if b[4] else "")

def build(b, d):
    out = os.path.join(d, "cipher_" + bname(b).replace("-", "_"))
    flags = ["-fno-strict-aliasing"] if b[2] else []
    defs = ["-DGOST28147_USE_SMALL_TABLES=1"] if b[3] else []
    common.cc([DRV], out, compiler=b[0], opt=b[1], defs=defs, flags=flags, hooks=False, san=b[4], timeout=300)
    return out

# ------------------------------------------------------------------ jobs
def scale(a, mid):
    return (a // 4) * 64 + (0, 1, mid, 63)[a % 4]

def ctr_hex(c):
    return "-" if c is None else (c % (1 << 64)).to_bytes(8, "little").hex()

def make_jobs(ctx):
    rng = random.Random(ctx.seed)
    rb = lambda n: bytes(rng.randrange(256) for _ in range(n))
    mid = rng.randrange(2, 62)
    lens = [scale(a, mid) for a in range(13)] + [259]
    combos = [(v, r, k) for v in "cx" for r in (8, 12, 20) for k in (16, 32)]
    edge = [(1 << 32) - 2, (1 << 64) - 1, (1 << 32) - 1, (1 << 64) - 2, (1 << 32) - 3, (1 << 64) - 3, 0x7ffffffff, (1 << 48) - 1]
    plain = [None, 0, 1, 1 << 32, rng.getrandbits(64)]
    jobs = {}           # id -> dict(line=..., meta...)
    def add(kind, line_fmt, **meta):
        jid = "%s%d" % (kind, len(jobs))
        meta["id"] = jid; meta["kind"] = kind; meta["line"] = line_fmt.replace("@ID", jid)
        jobs[jid] = meta
    def ksz_arg(k, i):          # chacha_key_set accepts bytes or bits for the 256-bit key; anything else is a 128-bit key
        return (k, k * 8)[i % 2]
    jobs["self"] = {"id": "self", "kind": "self", "line": "selftest"}
    # HChaCha
    n = 0
    for r in (8, 12, 20):
        for k in (16, 32):
            for ivnull in ((0,) if ctx.quick and (r, k) != (20, 32) else (0, 1)):
                key = rb(k); iv = None if ivnull else rb(16)
                add("h", "hch @ID %d %d %s %s" % (r, ksz_arg(k, n), key.hex(), iv.hex() if iv else "-"),
                    op="hchacha", rounds=r, key=key, iv=iv)
                n += 1
    # one-shot chacha()/xchacha()
    n = 0
    for (v, r, k) in combos:
        ctrs = (edge[:2] if n % 2 == 0 else edge[2:4]) + [plain[n % len(plain)]] if ctx.quick else edge + plain
        if ctx.quick: ctrs = [ctrs[n % 2], ctrs[2]]
        for ci, c in enumerate(ctrs):
            key = rb(k); ivn = 24 if v == "x" else 8
            iv = None if (n + ci) % 5 == 4 else rb(ivn)
            src = rb(260)
            add("o", "cc @ID %s %d %d %s %s %s %s %s" % (v, r, ksz_arg(k, n + ci), key.hex(), ctr_hex(c), iv.hex() if iv else "-",
                                                         src.hex(), ",".join(map(str, lens))),
                op="xchacha" if v == "x" else "chacha", rounds=r, key=key, ctr=c, iv=iv, src=src)
        n += 1
    # streaming: all splits from the stream model scaled to 64-byte blocks
    order = combos[:]; rng.shuffle(order)
    nfull = 2 if ctx.quick else len(order)
    # make sure one chacha and one xchacha stream is complete in the quick tier
    firstc = next(c for c in order if c[0] == "c"); firstx = next(c for c in order if c[0] == "x")
    order = [firstc, firstx] + [c for c in order if c not in (firstc, firstx)]
    for i, (v, r, k) in enumerate(order):
        c = edge[i % len(edge)]
        key = rb(k); ivn = 24 if v == "x" else 8; iv = None if i % 6 == 5 else rb(ivn); src = rb(200)
        if i < nfull:
            cstride, coff, astride, mix = 1, 0, (8 if ctx.quick else 1), (16 if ctx.quick else 4)
        else:
            cstride = 16; coff = rng.randrange(16); astride = 4; mix = 16
        add("s", "cs @ID %s %d %d %s %s %s %s 12 %d %d %d %d %d %d" % (v, r, ksz_arg(k, i), key.hex(), ctr_hex(c), iv.hex() if iv else "-",
                                                                  src.hex(), mid, cstride, coff, astride, mix, rng.randrange(1 << 30)),
            op="xchacha" if v == "x" else "chacha", rounds=r, key=key, ctr=c, iv=iv, src=src)
    # GOST 28147-89: every built-in table
    for s in range(1, 7):
        for t in range(2 if ctx.quick else 6):
            key = rb(32) if t != 1 else bytes([255] * 32)
            nb = (3, 1, 8, 2, 5, 4)[t]
            data = rb(8 * nb) if t % 3 != 2 else bytes([0] * 8) + bytes([255] * 8) + rb(8 * nb - 16)
            add("g", "gost @ID %d %d %s %s" % (s, (32, 256)[t % 2], key.hex(), data.hex()), sbox=s, key=key)
    return jobs

# ------------------------------------------------------------------ running the driver
MAX_DEATHS = 6      # dead driver processes tolerated per build; each death is a reported finding, the jobs behind the last one are not run
def run_driver(exe, jobs, timeout, wd_cpu=600):
    """-> (text_by_job {id: [lines]}, crashes [(jobid, key, raw)], ids of the jobs not run after MAX_DEATHS deaths)
    A job that does not end within wd_cpu seconds of CPU time (6 x wd_cpu of wall clock) is killed by the driver's watchdog
    (FAULT sig=14) and is a crash like any other: a check must end with a verdict in bounded time."""
    env = dict(os.environ)
    env.update({"ASAN_OPTIONS": "detect_leaks=0:abort_on_error=0:detect_stack_use_after_return=1",
                "UBSAN_OPTIONS": "print_stacktrace=1:halt_on_error=1", "CIPHER_DRV_WD_CPU": str(wd_cpu)})
    ids = list(jobs)
    res = {}; crashes = []
    i = 0
    while i < len(ids):
        data = "".join(jobs[j]["line"] + "\n" for j in ids[i:]).encode()
        try:
            p = subprocess.run([exe], input=data, stdout=subprocess.PIPE, stderr=subprocess.STDOUT, timeout=timeout, env=env)
            rc, out = p.returncode, p.stdout.decode("utf-8", "replace")
        except subprocess.TimeoutExpired as ex:
            rc, out = 124, (ex.stdout or b"").decode("utf-8", "replace")
        cur = []; k = 0
        for ln in out.split("\n"):
            if ln.startswith("done "):
                if i + k < len(ids): res[ids[i + k]] = cur
                cur = []; k += 1
            elif ln:
                cur.append(ln)
        if rc == 0 and i + k >= len(ids):
            break
        if i + k >= len(ids):
            raise common.Infra("driver exited rc=%s after finishing all jobs:\n%s" % (rc, out[-1500:]))
        if rc == 124:       # the code under test used up the whole run's time inside this job: a verdict about it, and the end of this build's run
            crashes.append((ids[i + k], ("timeout", "", "", "no answer within %ss" % timeout), out[-3000:]))
            return res, crashes, ids[i + k + 1:]
        key = common.san_key(out) or ("exit-%s" % rc, "", "", out[-300:])
        crashes.append((ids[i + k], key, out[-3000:]))
        i = i + k + 1
        if len(crashes) >= MAX_DEATHS:
            return res, crashes, ids[i:]
    return res, crashes, []

def kvs(parts):
    return dict(p.split("=", 1) for p in parts if "=" in p)

def unhex(s):
    return b"" if s == "-" else bytes.fromhex(s)

class Corpus:
    """distinct records over all builds; value = dict(count, builds, first)"""
    def __init__(self):
        self.cc = {}     # (jobid, func, L, mode, cls, out) -> info         chacha family outputs
        self.mix = {}    # (jobid, L, eff, out) -> info
        self.gost = {}   # (jobid, op, cls, mode, in, out) -> info
        self.tr = {}     # (ctrhex, trace text) -> info
        self.x = collections.Counter(); self.xsample = {}
        self.self = {}; self.selfdiag = {}
        self.executions = 0
    def _add(self, d, key, n, bn, first):
        e = d.get(key)
        if e is None: d[key] = e = {"n": 0, "builds": set(), "first": first}
        e["n"] += n; e["builds"].add(bn)
        self.executions += n
    def absorb(self, bn, jobs, res):
        for jid, lines in res.items():
            job = jobs[jid]
            for ln in lines:
                t = ln[0]
                if t == "T":
                    head, tr = ln.split(" tr=", 1)
                    self._add(self.tr, (ctr_hex(job["ctr"]), tr), int(head.split(" n=")[1].split()[0]), bn, head)
                elif t == "O":
                    p = ln.split(); f = kvs(p[6:])
                    self._add(self.cc, (jid, p[2], int(p[3]), p[4], p[5], f["out"]), int(f["n"]), bn, f["first"])
                elif t == "M":
                    p = ln.split(" ", 4); f = kvs(p[4].split())
                    self._add(self.mix, (jid, int(p[3]), f["eff"], f["out"]), 1, bn, "comp" + p[2])
                    self._add(self.tr, (ctr_hex(job["ctr"]), f["tr"]), 1, bn, "M " + jid + " comp" + p[2])
                elif t == "G":
                    p = ln.split(); f = kvs(p[5:])
                    self._add(self.gost, (jid, p[2], p[3], p[4], f["in"], f["out"]), int(f["n"]), bn, f["first"])
                elif t == "X":
                    what = " ".join(ln.split()[2:4]) if "oob" in ln else ln.split()[2].split("=")[0]
                    self.x[what] += 1; self.xsample.setdefault(what, (bn, jobs[jid]["line"][:300], ln))
                elif t == "S" and ln.startswith("S chacha_self_test="):
                    self.self[bn] = ln
                elif jid == "self":
                    self.selfdiag.setdefault(bn, []).append(ln[:200])      # gost28147_self_test prints its mismatches
                else:
                    raise common.Infra("unparsable driver line: " + ln[:200])

# ------------------------------------------------------------------ TLC evaluation (mode C / mode A)
def T(pool, module, **kw):
    kw.setdefault("workers", 1); kw.setdefault("xmx", "3g"); kw.setdefault("timeout", 1500)
    return pool.submit(lambda: common.tlc(module, **kw))

def tlc_eval(module, recs, d, tag, nproc, pool, cfg=None, xss="256m"):
    """recs: list of json-able dicts. Split into nproc files, run TLC on each (1 worker). -> (bad {index: expect}, results)"""
    if not recs: return {}, []
    chunks = [list(range(i, len(recs), nproc)) for i in range(nproc)]
    chunks = [c for c in chunks if c]
    futs = []
    for ci, idx in enumerate(chunks):
        path = os.path.join(d, "%s_%d.ndjson" % (tag, ci))
        with open(path, "w") as f:
            for i in idx: f.write(json.dumps(recs[i], separators=(",", ":")) + "\n")
        futs.append((idx, T(pool, module, cfg=cfg, env={"TRACE": path}, xss=xss)))
    bad = {}; results = []
    for idx, fu in futs:
        r = fu.result(); results.append(r)
        rep = [x for x in common.tlc_printed_json(r.out) if isinstance(x, dict) and "done" in x]
        if r.rc != 0 or len(rep) != 1 or rep[0]["done"] != len(idx):
            raise common.Infra("%s did not consume its trace (rc=%s, report=%s):\n%s" % (module, r.rc, str(rep)[:200], r.out[-2500:]))
        for b in rep[0]["bad"]:
            bad[idx[b["line"] - 1]] = b
    return bad, results

def limbs(v):
    return [(v >> 48) & 65535, (v >> 32) & 65535, (v >> 16) & 65535, v & 65535]

def trace_events(ctrhex, tr, k):
    c0 = 0 if ctrhex == "-" else int.from_bytes(bytes.fromhex(ctrhex), "little")
    ev = [{"e": "Init", "c": limbs(c0), "id": k}]
    for e in tr.split(";"):
        if not e: continue
        n, x, c, ks = e.split(",")
        ev.append({"e": "Crypt", "n": int(n), "x": int(x), "c": limbs(int(c, 16)), "ks": int(ks)})
    return ev

def restrict(failing, tested, name):
    """'[name=..]' when only some of the tested values fail"""
    return "" if set(failing) >= set(tested) else "[%s=%s]" % (name, ",".join(str(v) for v in sorted(set(failing))))

def scope_of(builds, battr, tables):
    bs = [battr[b] for b in builds]
    comp = {b[0] for b in bs}; nsa = {b[2] for b in bs}; small = {b[3] for b in bs}
    sc = "compiler=%s,strict-aliasing=%s" % (comp.pop() if len(comp) == 1 else "any", "on" if nsa == {0} else ("off" if nsa == {1} else "any"))
    if tables: sc += ",tables=%s" % ("small" if small == {1} else ("expanded" if small == {0} else "any"))
    return sc

def judge(ctx, pool, d, jobs, battr, module, tag, items, nproc, keyfn, scoped_prefix, tables):
    """Evaluate every distinct record in TLC; key the mismatches.
    A wrong output for an input that some other build handles correctly in ALL its executions is build-dependent and
    keyed by the attributes the failing builds share; otherwise it is keyed by function / dispatch class / mode."""
    uniq = {}; order = []
    for i, it in enumerate(items):
        k = json.dumps(it["rec"], sort_keys=True); it["u"] = k
        if k not in uniq: uniq[k] = len(order); order.append(i)
    ctx.log("mode C %s: %d records, %d distinct TLC evaluations" % (module, len(items), len(order)))
    bad_u, results = tlc_eval(module, [items[i]["rec"] for i in order], d, tag, nproc, pool)
    for r in results: ctx.tlc_stats(r, module + " (mode C)")
    nblocks = sum((items[i]["rec"].get("n", 32) + 63) // 64 for i in order)
    # per input (sibling group): which builds produced a wrong output, which produced only right ones.  Every build
    # runs exactly the same executions, so a build without any wrong output for this input shows that the failure
    # depends on the build and not on the input / alignment / split.
    sib_all = collections.defaultdict(set); sib_bad = collections.defaultdict(set)
    for it in items:
        sib_all[it["sib"]] |= it["info"]["builds"]
        it["bad"] = uniq[it["u"]] in bad_u
        if it["bad"]: sib_bad[it["sib"]] |= it["info"]["builds"]
    groups = collections.defaultdict(list); tested = collections.defaultdict(lambda: collections.defaultdict(set))
    bad_builds = set()
    for it in items:
        for dn, dv in it["dims"].items(): tested[it["gk"]][dn].add(dv)
        if uniq[it["u"]] in bad_u:
            bad_builds |= it["info"]["builds"]
            if sib_all[it["sib"]] - sib_bad[it["sib"]]: groups[("scoped", scope_of(sib_bad[it["sib"]], battr, tables))].append(it)
            else: groups[("plain", it["gk"])].append(it)
    # expected values for the representatives that TLC did not keep
    reps = {g: lst[0] for g, lst in groups.items()}
    need = [it for it in reps.values() if "expect" not in bad_u[uniq[it["u"]]]]
    extra = {}
    for it in need:
        b2, _ = tlc_eval(module, [it["rec"]], d, tag + "_rep%d" % len(extra), 1, pool)
        extra[it["u"]] = b2.get(0, {}).get("expect")
    for (kind, g), lst in groups.items():
        it = reps[(kind, g)]; info = it["info"]; j = jobs[it["jid"]]
        exp = bad_u[uniq[it["u"]]].get("expect") or extra.get(it["u"]) or []
        if kind == "scoped":
            key = scoped_prefix + g
            head = "%d distinct wrong outputs that other builds compute correctly from the same input; failing builds: %s; affected: %s" % (
                len(lst), sorted(set(b for x in lst for b in x["info"]["builds"])), sorted(set(str(x["gk"]) for x in lst))[:12])
        else:
            suffix = ""
            for dn in sorted(it["dims"]):
                suffix += restrict([x["dims"][dn] for x in lst], tested[g][dn], dn)
            key = keyfn(g, suffix)
            head = "%d distinct wrong outputs in this group" % len(lst)
        rec = it["rec"]
        ctx.fail(key, "%s; first:\n job: %s\n %s executions=%d first=%s builds=%s\n input    %s\n got      %s\n expected %s"
                 % (head, j["line"][:400], it["what"], info["n"], info["first"], sorted(info["builds"])[:8],
                    bytes(rec.get("data", rec.get("src", []))).hex()[:400], bytes(rec["out"]).hex()[:400], bytes(exp).hex()[:400]),
                 {"job": j["line"], "builds": sorted(info["builds"]), "record": rec, "expected": exp})
    return len(order), nblocks, bad_builds

# ------------------------------------------------------------------ the check
def run(ctx):
    ctx.level = "model_checking"
    d = common.scratch("lcbv-c08-")
    t0 = time.time()
    pool = ThreadPoolExecutor(max_workers=4)
    builds = build_matrix(ctx)
    jobs = make_jobs(ctx)

    # ---- stage 1: specification-only TLC runs + builds, at most 4 at a time
    f_builds = [(b, pool.submit(build, b, d)) for b in builds[:2]]
    f_ref = T(pool, "ChaChaRefMC", xss="256m")
    f_gost = T(pool, "Gost28147MC", cfg="Gost28147MC.cfg" if ctx.quick else "Gost28147MC_thorough.cfg",
               workers=1 if ctx.quick else 2, xss="256m", coverage=not ctx.quick)
    f_builds += [(b, pool.submit(build, b, d)) for b in builds[2:]]
    f_str = T(pool, "ChaChaStreamMC", workers=1 if ctx.quick else 2, coverage=not ctx.quick)
    f_reach = [T(pool, "ChaChaStreamMC", cfg="ChaChaStreamMC_reach%s.cfg" % sfx) for sfx in (("",) if ctx.quick else ("", "2"))]

    exes = [(b, f.result()) for b, f in f_builds]
    ctx.log("built %d configurations: %s" % (len(exes), " ".join(bname(b) for b, _ in exes)))

    # ---- stage 2: run every job in every build
    corpus = Corpus()
    import threading
    lock = threading.Lock()
    def one(b_exe):
        b, exe = b_exe
        res, cr, notrun = run_driver(exe, jobs, 900 if ctx.quick else 2400, wd_cpu=(30 if ctx.quick else 600))
        with lock:
            corpus.absorb(bname(b), jobs, res)
            if notrun:
                cut_builds.add(bname(b)); ctx.add(jobs_not_run_after_repeated_driver_deaths=len(notrun))
                ctx.log("build %s: %d dead driver processes, %d of %d jobs not run" % (bname(b), len(cr), len(notrun), len(jobs)))
        return b, cr
    crashes = []; cut_builds = set()
    for b, cr in pool.map(one, exes):
        crashes += [(bname(b),) + c for c in cr]
    ctx.log("drivers done: %d executions folded into %d chacha + %d mixed + %d gost records, %d distinct ctx traces"
            % (corpus.executions, len(corpus.cc), len(corpus.mix), len(corpus.gost), len(corpus.tr)))

    # ---- spec results (must hold: otherwise the reference itself is wrong -> infrastructure, not a verdict)
    r = f_ref.result(); ctx.tlc_stats(r, "ChaChaRefMC (published vectors, ASSUME)")
    if r.rc != 0: raise common.Infra("ChaCha reference fails its published vectors: %s\n%s" % (r.violation, r.out[-2000:]))
    r = f_gost.result(); ctx.tlc_stats(r, "Gost28147MC (published vectors + inversion on block chains)")
    if r.rc != 0: raise common.Infra("GOST reference: %s\n%s" % (r.violation, r.out[-2500:]))
    r = f_str.result(); ctx.tlc_stats(r, "ChaChaStreamMC (B=4, all splits of <=3 blocks, 9 initial counters)")
    if r.rc != 0: raise common.Infra("ChaChaStream model violates its own invariant %s:\n%s" % (r.violation, r.out[-3000:]))
    if r.coverage and not all(r.coverage.get(a, (0, 0))[0] > 0 for a in ("CryptSrc", "CryptNull")):
        raise common.Infra("vacuous stream model: %s" % r.coverage)
    for fr in f_reach:
        rr = fr.result(); ctx.tlc_stats(rr, "ChaChaStreamMC reachability companion")
        if rr.rc != 12: raise common.Infra("vacuity: counter carry/wrap state not reachable in the stream model (rc=%s)" % rr.rc)

    # ---- stage 3a: mode C for the ChaCha family
    battr = {bname(b): b for b, _ in exes}
    items = []
    for (jid, func, L, mode, cls, out), info in corpus.cc.items():
        j = jobs[jid]
        if func == "hchacha":
            rec = {"op": "hchacha", "rounds": j["rounds"], "key": list(j["key"]), "iv": list(j["iv"] or b""), "out": list(unhex(out))}
        else:
            rec = {"op": j["op"], "rounds": j["rounds"], "key": list(j["key"]), "ctr": list(bytes.fromhex(ctr_hex(j["ctr"]))) if j["ctr"] is not None else [],
                   "iv": list(j["iv"] or b""), "src": [] if mode == "N" else list(j["src"][:L]), "n": L, "out": list(unhex(out))}
        fn = "chacha_str_data_crypt(%s)" % j["op"] if "stream" in func else func
        items.append({"rec": rec, "jid": jid, "info": info, "sib": (jid, func, L, mode, cls), "gk": (fn, cls, mode),
                      "dims": {"key": len(j["key"]) * 8, "rounds": j["rounds"]}, "what": "L=%d" % L})
    for (jid, L, eff, out), info in corpus.mix.items():
        j = jobs[jid]
        rec = {"op": j["op"], "rounds": j["rounds"], "key": list(j["key"]), "ctr": list(bytes.fromhex(ctr_hex(j["ctr"]))) if j["ctr"] is not None else [],
               "iv": list(j["iv"] or b""), "src": list(unhex(eff)), "n": L, "out": list(unhex(out))}
        items.append({"rec": rec, "jid": jid, "info": info, "sib": (jid, "mix", L, eff), "gk": ("chacha_str_data_crypt(%s)" % j["op"], "str", "M"),
                      "dims": {"key": len(j["key"]) * 8, "rounds": j["rounds"]}, "what": "L=%d" % L})
    def cc_key(gk, suffix):
        return "%s:%s:%s:wrong-output%s" % (gk[0], {"a8": "aligned8", "a4": "aligned4", "u": "unaligned", "str": "any-split", "-": "-"}[gk[1]],
                                            {"S": "src", "N": "src=NULL", "I": "in-place", "M": "src/NULL-mixed"}[gk[2]], suffix)
    n_cc, nblocks, cc_bad_builds = judge(ctx, pool, d, jobs, battr, "ChaChaEval", "cc", items, 3 if ctx.quick else 4, cc_key,
                                         "chacha-family:wrong-output:build-dependent:", False)

    # ---- stage 3b: mode C for GOST
    gitems = []
    fnname = {"enc": "encrypt", "dec": "decrypt", "enc_be": "encrypt_be", "dec_be": "decrypt_be", "mac": "mac"}
    for (jid, op, cls, mode, inp, out), info in corpus.gost.items():
        j = jobs[jid]
        rec = {"op": op, "sbox": j["sbox"], "key": list(j["key"]), "data": list(unhex(inp)), "out": list(unhex(out))}
        gitems.append({"rec": rec, "jid": jid, "info": info, "sib": (jid, op, cls, inp, len(out)), "gk": ("gost28147_blocks_" + fnname[op], cls),
                       "dims": {"sbox": j["sbox"]}, "what": "sbox=%s mode=%s" % (SBOX_NAMES[j["sbox"]], mode)})
    def g_key(gk, suffix):
        return "%s:%s:wrong-result%s" % (gk[0], "unaligned" if gk[1] == "u" else "aligned4", suffix)
    n_g, _, _ = judge(ctx, pool, d, jobs, battr, "Gost28147Eval", "gost", gitems, 2 if ctx.quick else 4, g_key,
                      "gost28147:wrong-result:build-dependent:", True)
    # expanded-table and small-table builds agree: same input -> one output over all builds (follows from the above; counted explicitly)
    byin = collections.defaultdict(set)
    for (jid, op, cls, mode, inp, out), info in corpus.gost.items(): byin[(jid, op, cls, inp, len(out))].add(out)
    ndis = sum(1 for v in byin.values() if len(v) > 1)

    # ---- stage 3c: mode A, the ctx fields after every call
    tkeys = sorted(corpus.tr)
    nev_total = sum(t[1].count(";") + 1 for t in tkeys)
    nproc = 4 if nev_total > 20000 else 1
    files = []      # (path, starts[], ks[], nlines)
    per = (nev_total + nproc - 1) // nproc
    k = 0
    for p in range(nproc):
        if k >= len(tkeys): break
        path = os.path.join(d, "tr_%d.ndjson" % p); starts = []; ks = []; nl = 0
        with open(path, "w") as f:
            while k < len(tkeys) and (nl < per or p == nproc - 1):
                starts.append(nl + 1); ks.append(k)
                for e in trace_events(tkeys[k][0], tkeys[k][1], k):
                    f.write(json.dumps(e, separators=(",", ":")) + "\n"); nl += 1
                k += 1
        files.append((path, starts, ks, nl))
    futs = [(fl, T(pool, "ChaChaStreamTrace", env={"TRACE": fl[0]})) for fl in files]
    # a sample with the symbolic output switched on: the model's own StreamCorrect at B = 64 along real executions
    rng = random.Random(ctx.seed + 5); ns = 0
    spath = os.path.join(d, "tr_sample.ndjson")
    with open(spath, "w") as f:
        for k in rng.sample(range(len(tkeys)), min(len(tkeys), 150 if ctx.quick else 1500)):
            for e in trace_events(tkeys[k][0], tkeys[k][1], k):
                f.write(json.dumps(e, separators=(",", ":")) + "\n"); ns += 1
    f_samp = T(pool, "ChaChaStreamTrace", cfg="ChaChaStreamTrace_out.cfg", env={"TRACE": spath}) if ns else None
    rejected = []
    import bisect
    for (path, starts, ks, nl), fu in futs:
        r = fu.result(); ctx.tlc_stats(r, "ChaChaStreamTrace (mode A, B=64)")
        rep = [x for x in common.tlc_printed_json(r.out) if isinstance(x, dict) and "done" in x]
        if r.rc != 0 or len(rep) != 1 or rep[0]["done"] != nl:
            raise common.Infra("ChaChaStreamTrace did not consume its trace (rc=%s %s):\n%s" % (r.rc, r.violation, r.out[-2500:]))
        for b in rep[0]["bad"]:
            i = bisect.bisect_right(starts, b["line"]) - 1
            rejected.append((ks[i], b["line"] - starts[i], b))
    if f_samp:
        r = f_samp.result(); ctx.tlc_stats(r, "ChaChaStreamTrace with symbolic output (sample)")
        if r.rc != 0: raise common.Infra("stream model invariant broken at B=64 on a real execution: %s\n%s" % (r.violation, r.out[-2500:]))
    if rejected:
        k, evno, b = rejected[0]; info = corpus.tr[tkeys[k]]
        ctx.fail("chacha_str_data_crypt:ctx-fields(state[12..13],ks_len):trace-rejected",
                 "%d of %d distinct executions rejected by ChaChaStream; first: initial counter %s (LE), %s\n trace (n,src?,state13|state12,ks_len) %s\n rejected call #%d\n model expects counter limbs %s ks_len %s"
                 % (len(set(r[0] for r in rejected)), len(tkeys), tkeys[k][0], info["first"], tkeys[k][1][:600], evno, b["expect_c"], b["expect_ks"]),
                 {"ctr": tkeys[k][0], "trace": tkeys[k][1], "first": info["first"], "builds": sorted(info["builds"])})

    # ---- driver-level observations
    for what, n in corpus.x.items():
        bn, line, ln = corpus.xsample[what]
        ctx.fail("driver-observed:%s" % what, "%d occurrences; first in build %s: %s\n job: %s" % (n, bn, ln, line), {"job": line, "build": bn})
    seen = set()
    for bn, jid, key, raw in crashes:
        k = "crash:%s:%s:%s:%s" % (jobs[jid]["kind"], key[0], key[1], key[2])
        if k in seen: continue
        seen.add(k)
        ctx.fail(k, "build %s job %s\n%s" % (bn, jobs[jid]["line"][:300], raw), {"job": jobs[jid]["line"], "build": bn})
    selfbad = collections.defaultdict(list)
    for b, _ in exes:
        bn = bname(b); ln = corpus.self.get(bn)
        if ln is None:
            if not any(c[1] == "self" for c in crashes) and bn not in cut_builds: raise common.Infra("no self-test line from build " + bn)
            continue
        f = kvs(ln.split())
        for fn in ("chacha_self_test", "gost28147_self_test"):
            if f.get(fn) != "0":
                if fn == "chacha_self_test" and bn in cc_bad_builds:
                    ctx.log("note: %s=%s in build %s - consistent with the wrong ChaCha outputs already reported for that build" % (fn, f.get(fn), bn))
                else:
                    selfbad[fn].append((bn, ln, corpus.selfdiag.get(bn, [])[:4]))
    for fn, lst in selfbad.items():
        ctx.fail("selftest:%s:nonzero" % fn, "the header's own self test (never compiled by the suite) fails although every output the check "
                 "looked at was right, in builds: %s" % lst, {"builds": [x[0] for x in lst]})

    # ---- evidence
    ctx.add(evaluations=corpus.executions,
            distinct_nontrivial=n_cc + n_g,
            traces_validated_against_impl=len(tkeys),
            trace_events=nev_total, chacha_blocks_evaluated_by_tlc=nblocks, gost_records_evaluated_by_tlc=n_g,
            builds=[bname(b) for b, _ in exes], jobs=len(jobs), gost_inputs_with_build_dependent_output=ndis)
    ctx.cov["rule"] = ("evaluations = executions of the real functions (one per alignment pair / split / mode / build); identical "
                       "(input, output) pairs are folded and every distinct pair is evaluated by TLC against the TLA+ reference; "
                       "non-trivial = length > 0; traces = distinct sequences of (state[12], state[13], ks_len) after each stream call")
    ex = next((it["rec"] for it in items if it["rec"].get("n", 0) >= 64 and not it["bad"]), None)
    if ex is not None:
        ctx.add(samples=[{"op": ex["op"], "rounds": ex["rounds"], "keybits": len(ex["key"]) * 8, "n": ex["n"], "out_head": bytes(ex["out"][:16]).hex()}])
    gex = next((it["rec"] for it in gitems if not it["bad"]), None)
    if gex is not None:
        g = gex
        ctx.add(samples=[{"op": "gost " + g["op"], "sbox": SBOX_NAMES[g["sbox"]], "data": bytes(g["data"]).hex(), "out": bytes(g["out"]).hex()}])
    if tkeys:
        ctx.add(samples=[{"stream_trace": tkeys[len(tkeys) // 2][1][:200], "initial_counter_le": tkeys[len(tkeys) // 2][0]}])
    ctx.assumptions += [
        "TLA+ modules specs/cipher/ChaCha.tla and Gost28147.tla are the oracle; they are validated inside TLC by published vectors "
        "(RFC 7539 A.1/A.2, draft-strombergson TC1/TC8, chacha-opt, GOST R 34.12-2015 A.2, Crypto++/BouncyCastle/TC26) frozen under /verif",
        "the header declares six built-in S-box tables (the property text says seven); all six are covered",
        "full-width function correctness is sampled (seeded keys/nonces/data), the stream/counter logic is exhaustive at B=4 and "
        "trace-validated at B=64; little-endian x86-64 host only",
        "gost28147_blocks_mac_be / gost28147_final_be (no published standard layout) and context zeroisation are not checked"]
    pool.shutdown()
