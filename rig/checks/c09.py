"""C09 - key encoding, validation, derivation and Diffie-Hellman are consistent.

(B) synthetic curves (specs/ec/EcCurves.tla), expectations from specs/ec/KeyCodecGen.tla over KeyCodec.tla:
      * every point of the whole group of an 8-bit curve (neutral element and points outside the subgroup included; a
        sample on the 13/16-bit curves): export in every form x byte order must give the reference octets, importing
        them back must give the reference verdict (TLC proves import o export = identity and the parity law);
      * import of EVERY octet string of every accepted length over the one-octet field (all 2^8 / 2^16 strings, the
        3-octet strings per first octet; sampled fixed parts with every varying part on the 2-octet fields), with key
        validation compiled in and compiled out;
      * key generation from every random octet value, public key from every private key, Diffie-Hellman of chosen private
        keys with EVERY point as peer, plain and with cofactor (TLC proves symmetry on every row);
      * kind "forms": valid points of all four (most significant octet of y, least significant octet of y) parity classes
        in every encoding import accepts - compressed, packed, hybrid 06/07 with agreeing and contradicting prefix,
        separate, concat - x both byte orders, verdict = KeyCodec!Import; kind "priv": public key from private-key OCTETS:
        every octet value on the 8-bit fields, 0 / 1 / 2 / n-2 / n-1 / n / n+1 / 2n-1 / all-ones / shorter / longer
        strings elsewhere, verdict = KeyCodec!PrivImport (0 and d >= n are refused).
    Every byte-string argument is an exactly-sized heap block; one build runs under AddressSanitizer, which observes
    "reads and writes only within the sizes the caller passed" (plus dedicated size-edge calls).
(C) the 32 built-in curves x both byte orders: generated keys re-imported in every form, public key from the private key,
    DH symmetry with and without cofactor; a handful of the tuples are recomputed by TLC through BigNat (EcdsaTrace).
    The same "forms" / "priv" cases for every built-in curve come from specs/ec/KeyCodecBigGen.tla (KeyCodec over BigNat;
    KeyCodecBigSelf makes TLC compare the two definitions on the synthetic curves).
Python renders numbers to octets, runs processes and compares values; it computes no expectation."""
import os, random, time, threading, json
from concurrent.futures import ThreadPoolExecutor
from rig import common
from rig import ecdsa_rig as R
from rig import ecdsa_modec as M
from rig.ecdsa_rig import TOY8, TOYBIG, hx, ihex, to_bytes, parse_pt
from rig.checks.c03 import Fails

INV = ["RoundTrip", "Parity", "TableIsDefn", "ScanSound", "KeyGenSound", "DHSym", "FormsSound", "PrivSound"]
PUBFORMS = (("compressed", (1, 0)), ("packed", (0, 0)), ("separate", (0, 1)))
FORMS = ["compressed", "packed", "separate", "concat"]

def consts(curves, seed, **kw):
    c = dict(CurveNames=R.tset(curves, True), Kinds="{}", Seed=str(seed % 60000), ScanPrefixes="{}", ScanWide="FALSE", DhKeys="{}")
    c.update(kw)
    return c

def crash(F, fn, b, ln, a):
    k = a["crash"]
    kind = k[0]
    # libc interceptor frames carry no file:line: take the class from the report itself
    if kind.startswith("exit-") and "AddressSanitizer:" in a["raw"]:
        kind = a["raw"].split("AddressSanitizer:")[1].split()[0]
        if "READ of size" in a["raw"]: kind += "-READ"
        elif "WRITE of size" in a["raw"]: kind += "-WRITE"
    F.add("%s:%s" % (fn, kind), "build %s\ncase %s\n%s" % (b.name, ln, a["raw"][-1800:]), {"case": ln, "build": b.name})

def kvs(a):
    return dict(t.split("=", 1) for t in a.split()[1:])

def enc_of(row, form):
    if form == "compressed": return bytes(row["comp"]), None
    if form == "packed": return bytes(row["packed"]), None
    if form == "separate": return bytes(row["sepx"]), (bytes(row["sepy"]) if row["sepy"] else None)
    return bytes(row["concat"]), None

def judge_import(F, fn, b, ln, st, rc, pt, what):
    """st = reference verdict record {st, pt}; rc/pt = the library's"""
    s = st["st"]
    if s == "any": return
    if s == "reject":
        if rc == 0: F.add("%s:accepts-invalid-encoding:%s" % (fn, what), "build %s\ncase %s\naccepted as %s" % (b.name, ln, pt), {"case": ln, "build": b.name})
        return
    if rc != 0:
        if s == "ok": F.add("%s:rejects-valid-encoding:%s" % (fn, what), "build %s\ncase %s\nreturn code %d, the reference decodes it to %s" % (b.name, ln, rc, st["pt"]), {"case": ln, "build": b.name})
        return
    if pt != st["pt"]:
        F.add("%s:decodes-to-wrong-point:%s" % (fn, what), "build %s\ncase %s\ngot %s, reference %s" % (b.name, ln, pt, st["pt"]), {"case": ln, "build": b.name})

# ------------------------------------------------------------------ points: export, re-import, public key from private key
def check_points(ctx, F, b, rows_by, quick, rng):
    n = 0
    for (cn, order), rows in sorted(rows_by.items()):
        small = cn in TOY8
        lines = []; meta = []
        sel = rows if (small or not quick) else rows
        for row in sel:
            x, y = R.pt_args(row["pt"])
            for form, (compress, ysep) in (("compressed", (1, 0)), ("packed", (0, 0)), ("separate", (0, 1))):
                lines.append("export %s %s %d %d %s %s" % (cn, order, compress, ysep, x, y)); meta.append(("export", row, form))
            for fi, form in enumerate(FORMS):
                ex, ey = enc_of(row, form)
                lines.append("import %s %s %s %s" % (cn, order, hx(ex), hx(ey) if ey else "-")); meta.append(("import", row, fi))
            if row["d"]:
                Bn = 1 if small else 2
                for form, (compress, ysep) in (("compressed", (1, 0)), ("packed", (0, 0)), ("separate", (0, 1))):
                    lines.append("pubkey %s %s %d %d %s" % (cn, order, compress, ysep, hx(to_bytes(row["d"], Bn, order)))); meta.append(("pubkey", row, form))
        res = R.run_lines(b, lines)
        for ln, (op, row, arg), a in zip(lines, meta, res):
            fn = {"export": "ecdsa_pub_key_export_", "import": "ecdsa_pub_key_import_", "pubkey": "ecdsa_recover_pub_key_from_priv_key_"}[op] + order
            if isinstance(a, dict): crash(F, fn, b, ln, a); continue
            f = kvs(a); rc = int(f["rc"]); n += 1
            if op in ("export", "pubkey"):
                ex, ey = enc_of(row, arg)
                got = (bytes.fromhex(f["x"]) if f["x"] != "-" else None, bytes.fromhex(f["y"]) if f["y"] != "-" else None)
                if rc != 0 or got != (ex, ey) or int(f["size"]) != len(ex):
                    F.add("%s:%s:%s" % (fn, arg, "fails-for-valid-input" if rc else "wrong-octets"),
                          "build %s\ncase %s\n%s\nreference x=%s y=%s size=%d" % (b.name, ln, a, hx(ex), hx(ey) if ey else "-", len(ex)), {"case": ln, "build": b.name})
            else:
                st = (row["impon"] if b.pubchk else row["impoff"])[arg]
                judge_import(F, fn, b, ln, st, rc, parse_pt(f["pt"]) if rc == 0 else None, FORMS[arg])
    return n


# ------------------------------------------------------------------ every encoding form of chosen valid points; private-key octet strings
def run_forms(F, b, cn, order, rows, conv=lambda st: st):
    """rows = [{pt, par, encs: [{tag, x, y, on, off}]}]: import every encoding, verdict = the reference's (on / off = validation)"""
    lines = []; meta = []
    for row in rows:
        for e in row["encs"]:
            lines.append("import %s %s %s %s" % (cn, order, hx(bytes(e["x"])), hx(bytes(e["y"])) if e["y"] else "-")); meta.append(e)
    fn = "ecdsa_pub_key_import_" + order
    n = 0
    for ln, e, a in zip(lines, meta, R.run_lines(b, lines)):
        if isinstance(a, dict): crash(F, fn, b, ln, a); continue
        f = kvs(a); rc = int(f["rc"]); n += 1
        judge_import(F, fn, b, ln, conv(e["on"] if b.pubchk else e["off"]), rc, parse_pt(f["pt"]) if rc == 0 else None, e["tag"])
    return n

def run_priv(F, b, cn, order, rows, all_forms=True):
    """rows = [{ds, st, pub: [] | [{comp, packed, sepx, sepy}]}]: public key from private-key octets.  Refused strings go
    through every output form; accepted ones through every form (all_forms) or one form in turn"""
    lines = []; meta = []
    for i, row in enumerate(rows):
        for j, (form, (compress, ysep)) in enumerate(PUBFORMS):
            if row["st"] != "reject" and not all_forms and j != i % 3: continue
            lines.append("pubkey %s %s %d %d %s" % (cn, order, compress, ysep, hx(bytes(row["ds"])))); meta.append((row, form))
    fn = "ecdsa_recover_pub_key_from_priv_key_" + order
    n = 0
    for ln, (row, form), a in zip(lines, meta, R.run_lines(b, lines)):
        if isinstance(a, dict): crash(F, fn, b, ln, a); continue
        f = kvs(a); rc = int(f["rc"]); n += 1
        rp = {"case": ln, "build": b.name}
        if row["st"] == "reject":
            if rc == 0:
                cls = row.get("cls") or ("d=0" if not any(row["ds"]) else "d>=n")
                # one defect (binary fixed-point multiplier only): the outcome of d*G is not looked at, 0*G = O "succeeds" as in ecdsa_key_gen before its fix
                key = "ecdsa_recover_pub_key_from_priv_key:accepts-private-key-0" if cls == "d=0" else "%s:accepts-invalid-private-key:%s" % (fn, cls)
                F.add(key, "%s\nbuild %s\ncase %s\n%s\nthe octets are no private key (0, or not below the group order): the reference refuses them" % (fn, b.name, ln, a), rp)
            continue
        if rc != 0:
            if row["st"] == "ok": F.add("%s:%s:fails-for-valid-input" % (fn, form), "build %s\ncase %s\n%s" % (b.name, ln, a), rp)
            continue
        ex, ey = enc_of(row["pub"][0], form)
        got = (bytes.fromhex(f["x"]) if f["x"] != "-" else None, bytes.fromhex(f["y"]) if f["y"] != "-" else None)
        if got != (ex, ey) or int(f["size"]) != len(ex):
            F.add("%s:%s:wrong-octets" % (fn, form), "build %s\ncase %s\n%s\nreference x=%s y=%s size=%d" % (b.name, ln, a, hx(ex), hx(ey) if ey else "-", len(ex)), rp)
    return n

def check_forms_priv(ctx, F, b, forms, privs):
    n = 0
    for (cn, order), rows in sorted(forms.items()): n += run_forms(F, b, cn, order, rows)
    for (cn, order), rows in sorted(privs.items()): n += run_priv(F, b, cn, order, rows)
    return n

# ------------------------------------------------------------------ scans
def check_scans(ctx, F, b, scans):
    lines = []; meta = []
    for sc in scans:
        o = sc["out"]; cn = sc["curve"]; order = sc["order"]
        fixed = hx(bytes(o["fixed"]))
        if o["sep"]: lines.append("impsep %s %s %s" % (cn, order, fixed))
        elif o["y"]: lines.append("impscan %s %s %s %d %s" % (cn, order, fixed, o["nvar"], hx(bytes(o["y"]))))
        else: lines.append("impscan %s %s %s %d" % (cn, order, fixed, o["nvar"]))
        meta.append(sc)
    if len(lines) > 200:        # two driver processes: the validating builds carry nearly all scan work
        with ThreadPoolExecutor(max_workers=2) as ex:
            r1, r2 = list(ex.map(lambda ls: R.run_lines(b, ls, timeout=1500), (lines[0::2], lines[1::2])))
        res = [None] * len(lines); res[0::2] = r1; res[1::2] = r2
    else:
        res = R.run_lines(b, lines, timeout=1500)
    n = 0
    for ln, sc, a in zip(lines, meta, res):
        order = sc["order"]; fn = "ecdsa_pub_key_import_" + order; o = sc["out"]
        if isinstance(a, dict): crash(F, fn, b, ln, a); continue
        f = kvs(a)
        if int(f["n"]) != o["n"]: raise common.Infra("scan size %s != %d: %s" % (f["n"], o["n"], ln))
        n += o["n"]
        lib = parse_acc(f["acc"])          # "acc=" has the shape v=x,y,v=x,y,v=inf ...
        acc = {w: pt for w, pt in o["acc"]}; may = {w: pt for w, pt in o["may"]}; other = set(o["other"])
        L = len(o["fixed"]) + (0 if o["sep"] else o["nvar"])
        what = "size=%d%s" % (L, ":second-block" if (o["sep"] or o["y"]) else "")
        def status(w):
            if w in acc: return "ok"
            if w in may: return "may"
            return ("reject" if o["dflt"] == "any" else "any") if w in other else o["dflt"]
        for w, pt in lib.items():
            s = status(w)
            if s == "any": continue
            if s == "reject":
                F.add("%s:accepts-invalid-encoding:%s" % (fn, what), "build %s\ncase %s\nvarying octets %0*x accepted as %s" % (b.name, ln, 2 * o["nvar"], w, pt), {"case": ln, "build": b.name, "w": w}); continue
            ref = acc.get(w, may.get(w))
            if pt != ref:
                F.add("%s:decodes-to-wrong-point:%s" % (fn, what), "build %s\ncase %s\nvarying octets %0*x: got %s, reference %s" % (b.name, ln, 2 * o["nvar"], w, pt, ref), {"case": ln, "build": b.name, "w": w})
        for w, pt in acc.items():
            if w not in lib:
                F.add("%s:rejects-valid-encoding:%s" % (fn, what), "build %s\ncase %s\nvarying octets %0*x denote %s" % (b.name, ln, 2 * o["nvar"], w, pt), {"case": ln, "build": b.name, "w": w})
    return n

def parse_acc(s):
    out = {}
    if s == "-": return out
    toks = s.split(",")
    i = 0
    while i < len(toks):
        w, first = toks[i].split("=")
        if first == "inf": out[int(w, 16)] = []; i += 1
        else: out[int(w, 16)] = [int(first, 16), int(toks[i + 1], 16)]; i += 2
    return out

# ------------------------------------------------------------------ key generation
def check_keygen(ctx, F, b, kg, rows_by):
    n = 0
    for (cn, order), klist in sorted(kg.items()):
        lines = []; meta = []
        Bn = 1 if cn in TOY8 else 2
        for item in klist:
            rnd = bytes(item["rnd"])
            for compress in (1, 0):
                lines.append("keygen %s %s %d 1 %s" % (cn, order, compress, hx(rnd))); meta.append((item, compress, "oct"))
            if order == "be":
                lines.append("keygenbn %s %s" % (cn, ihex(int.from_bytes(rnd[:Bn], "big")))); meta.append((item, 0, "bn"))
        res = R.run_lines(b, lines)
        for ln, (item, compress, api), a in zip(lines, meta, res):
            fn = "ecdsa_key_gen" if api == "bn" else "ecdsa_key_gen_" + order
            if isinstance(a, dict): crash(F, fn, b, ln, a); continue
            f = kvs(a); rc = int(f["rc"]); n += 1
            if rc != 0:
                if not item["mayfail"]:
                    F.add("%s:fails-for-valid-input" % fn, "build %s\ncase %s\n%s\nadmitted private keys %s" % (b.name, ln, a, item["ds"]), {"case": ln, "build": b.name})
                continue
            byd = {p["d"]: p for p in item["pubs"]}
            if api == "bn":
                d = int(f["d"], 16)
                ok = d in byd and parse_pt(f["pt"]) == byd[d]["pt"]
            else:
                d = int.from_bytes(bytes.fromhex(f["priv"]), "big" if order == "be" else "little")
                ok = d in byd
                if ok:
                    ex, ey = enc_of(byd[d], "compressed" if compress else "separate")
                    ok = bytes.fromhex(f["x"]) == ex and ((f["y"] == "-") if compress else (bytes.fromhex(f["y"]) == ey)) and int(f["size"]) == len(ex) and int(f["psize"]) == Bn
            if not ok:
                # one defect: ecdsa_key_gen ignores the status / infinity flag of d*G (visible with the binary multiplier): d = 0, Q = O "succeeds"
                key = "ecdsa_key_gen:returns-private-key-0" if d == 0 else "%s:%s" % (fn, "private-key-not-admitted" if d not in byd else "public-key-is-not-dG")
                F.add(key, fn + "\n" +
                      "build %s\ncase %s\n%s\nadmitted private keys %s" % (b.name, ln, a, item["ds"]), {"case": ln, "build": b.name})
    return n

# ------------------------------------------------------------------ Diffie-Hellman
def check_dh(ctx, F, b, dh, rows_by, rng, quick):
    n = 0
    for (cn, d), row in sorted(dh.items()):
        small = cn in TOY8; Bn = 1 if small else 2
        for order in ("be", "le"):
            pts = rows_by[(cn, order)]
            lines = []; meta = []
            for i, (pr, z) in enumerate(zip(pts, row)):
                if not pr["pt"]: form = "packed"
                else: form = rng.choice(["packed", "compressed"] + (["separate", "concat"] if Bn > 1 else []))
                ex, ey = enc_of(pr, form)
                for cof in (0, 1):
                    lines.append("dh %s %s %d %s %s %s" % (cn, order, cof, hx(ex), hx(ey) if ey else "-", hx(to_bytes(d, Bn, order)))); meta.append((pr, z[cof], cof, "oct"))
                if order == "be" and pr["pt"] and (not quick or i % 4 == 0):
                    x, y = R.pt_args(pr["pt"])
                    for cof in (0, 1):
                        lines.append("dhbn %s %d %s %s %s" % (cn, cof, x, y, ihex(d))); meta.append((pr, z[cof], cof, "bn"))
            res = R.run_lines(b, lines)
            for ln, (pr, z, cof, api), a in zip(lines, meta, res):
                fn = "ecdsa_dh" if api == "bn" else "ecdsa_dh_" + order
                if isinstance(a, dict): crash(F, fn, b, ln, a); continue
                f = kvs(a); rc = int(f["rc"]); n += 1
                valid = bool(pr["d"])
                if not pr["pt"]:          # neutral element as peer: no shared secret exists
                    if rc == 0: F.add("%s:succeeds-for-the-neutral-element" % fn, "build %s\ncase %s\n%s" % (b.name, ln, a), {"case": ln, "build": b.name})
                    continue
                if not valid and api == "oct" and b.pubchk:
                    if rc == 0: F.add("%s:accepts-invalid-public-key" % fn, "build %s\ncase %s\n%s" % (b.name, ln, a), {"case": ln, "build": b.name})
                    continue
                got = None if rc != 0 else (int(f["z"], 16) if api == "bn" else int.from_bytes(bytes.fromhex(f["z"]), "big" if order == "be" else "little"))
                exp = None if z < 0 else z
                if got != exp:
                    sym = "wrong-shared-secret" if got is not None and exp is not None else ("fails-for-valid-input" if got is None else "succeeds-on-the-neutral-element")
                    if not valid and cof:    # one defect: h*d is reduced mod n before the multiplication, so the cofactor does not clear a component outside <G>
                        key = "ecdsa_dh:cofactor:point-outside-the-subgroup"
                    else:
                        key = "%s:%s:%s:%s" % (fn, "cofactor" if cof else "plain", "valid-key" if valid else "point-outside-the-subgroup", sym)
                    F.add(key, "%s (%s)\nbuild %s\ncase %s\n%s\nreference x-coordinate of %s: %s" % (fn, sym, b.name, ln, a, "h*d*Q" if cof else "d*Q", exp), {"case": ln, "build": b.name})
    return n

# ------------------------------------------------------------------ size edges (memory safety of the byte entry points)
def check_sizes(ctx, F, b, rows_by):
    """calls whose blocks are shorter / longer than the field size but satisfy the documented preconditions; the reference
    has nothing to say about the values beyond what the other parts check - the observer here is AddressSanitizer."""
    lines = []
    for cn, Bn in (("E13", 2), ("E16M3", 2), ("secp256r1", 32), ("secp521r1", 66), ("id-tc26-gost-3410-12-512-paramSetA", 64)):
        for order in ("be", "le"):
            one = "01"; h = "11" * (Bn + 3)
            # documented preconditions of ecdsa_sign_*: priv_key_size <= bytes and rnd_size >= priv_key_size
            lines.append(("ecdsa_sign_" + order, "sign %s - %s %s %s %s" % (cn, order, h, one, "07")))
            lines.append(("ecdsa_sign_" + order, "sign %s - %s %s %s %s" % (cn, order, "22", one, "07" * Bn)))
            lines.append(("ecdsa_sign_" + order, "sign %s - %s %s %s %s" % (cn, order, h, "03" * Bn, "07" * (Bn + 5))))
            # verification: sign_size <= bytes
            lines.append(("ecdsa_verify_priv_key_" + order, "verifyp %s - %s %s %s %s %s" % (cn, order, h, "05", "06", one)))
            # key generation: rnd_size >= bytes
            lines.append(("ecdsa_key_gen_" + order, "keygen %s %s 1 1 %s" % (cn, order, "09" * Bn)))
            lines.append(("ecdsa_key_gen_" + order, "keygen %s %s 0 1 %s" % (cn, order, "09" * (Bn + 4))))
            lines.append(("ecdsa_key_gen_" + order, "keygen %s %s 0 1 %s" % (cn, order, "09")))       # too short: must be refused without reading further
            # public key from a short private key, DH with a short private key and the neutral element / a compressed key
            lines.append(("ecdsa_recover_pub_key_from_priv_key_" + order, "pubkey %s %s 0 0 %s" % (cn, order, one)))
            lines.append(("ecdsa_recover_pub_key_from_priv_key_" + order, "pubkey %s %s 1 0 %s" % (cn, order, one)))
            lines.append(("ecdsa_dh_" + order, "dh %s %s 0 00 - %s" % (cn, order, one)))
            lines.append(("ecdsa_pub_key_import_" + order, "import %s %s %s -" % (cn, order, "04" + "00" * (2 * Bn - 1))))   # one octet short of the packed form
            lines.append(("ecdsa_pub_key_import_" + order, "import %s %s %s -" % (cn, order, "02" + "00" * (Bn + 1))))
            lines.append(("ecdsa_pub_key_import_" + order, "import %s %s %s %s" % (cn, order, "00" * Bn, "00" * Bn)))
    res = R.run_lines(b, [l for _, l in lines])
    n = 0
    for (fn, ln), a in zip(lines, res):
        n += 1
        if isinstance(a, dict):
            k = a["crash"]; kind = k[0]
            if kind.startswith("exit-") and "AddressSanitizer:" in a["raw"]:
                kind = a["raw"].split("AddressSanitizer:")[1].split()[0] + ("-READ" if "READ of size" in a["raw"] else "-WRITE" if "WRITE of size" in a["raw"] else "")
            if ln.startswith("sign") and ln.split()[6] == "07":
                # one defect: both signers import `bytes` octets of rnd although only rnd_size >= priv_key_size is demanded
                key = "ecdsa_sign:rnd_size<bytes:heap-buffer-overflow-READ"
            else:
                key = "%s:%s:sizes-within-preconditions" % (fn, kind)
            F.add(key, "%s\nbuild %s\ncase %s\n%s" % (fn, b.name, ln, a["raw"][-1800:]), {"case": ln, "build": b.name})
    return n

# ------------------------------------------------------------------ tier (B)
def tier_b(ctx, F, builds, tlc_free=None):
    rng = random.Random(ctx.seed + 909)
    quick = ctx.quick; t0 = time.time()
    curves = TOY8 + TOYBIG
    parts = [("points", R.write_cfg("c09_points.cfg", consts(curves, ctx.seed, Kinds='{"points"}'), INV)),
             ("keygen", R.write_cfg("c09_keygen.cfg", consts(curves, ctx.seed, Kinds='{"keygen"}'), INV))]
    # 3-octet strings over the one-octet fields: every first octet on one seed-chosen curve (thorough), a spread on the others
    spread = {0, 4, 5, 6, 7} if quick else {0, 1, 2, 3, 4, 5, 6, 7, 8, 9, 15, 16, 63, 64, 127, 128, 129, 200, 254, 255}
    full_curve = None if quick else rng.choice(TOY8)
    scan_curves = TOY8 + (["E13"] if quick else TOYBIG)
    for cn in scan_curves:
        if cn == full_curve:      # two partitions (the 2-octet scans appear in both; the results are keyed, duplicates collapse)
            for half, pf in (("a", set(range(0, 128))), ("b", set(range(128, 256)))):
                parts.append(("scan-%s-%s" % (cn, half), R.write_cfg("c09_scan_%s_%s.cfg" % (cn, half), consts([cn], ctx.seed, Kinds='{"scan"}', ScanPrefixes=R.tset(pf), ScanWide="TRUE"), INV)))
            continue
        pf = spread if cn in TOY8 else ({1, 2, 3, 4, 6} if quick else {0, 1, 2, 3, 4, 5, 6, 7})
        # the widest scans (every x of a 2-octet field in compressed form, the large x sample) only on E13 (p = 3 mod 4: one power per root);
        # on E16M3 they cost TLC half an hour
        wide = (not quick) and cn != "E16M3"
        parts.append(("scan-" + cn, R.write_cfg("c09_scan_%s.cfg" % cn, consts([cn], ctx.seed, Kinds='{"scan"}', ScanPrefixes=R.tset(pf),
                                                                                 ScanWide="TRUE" if wide else "FALSE"), INV)))
    for cn in curves:
        keys = {1, 2} | ({0} if (not quick and cn in TOY8) else set())
        ks = R.tset(keys | {1001, 1002} | set(rng.sample(range(3, 50), 3 if quick else 8)))
        parts.append(("dh-" + cn, R.write_cfg("c09_dh_%s.cfg" % cn, consts([cn], ctx.seed, Kinds='{"dh"}', DhKeys=ks), INV)))
    parts.append(("forms-priv", R.write_cfg("c09_forms_priv.cfg", consts(curves, ctx.seed, Kinds='{"forms", "priv"}'), INV)))
    parts.sort(key=lambda p: 0 if p[0].startswith("scan") else 1)
    try:
        cases = R.run_partitions(ctx, "KeyCodecGen", parts, par=4)
    finally:
        if tlc_free is not None: tlc_free.set()        # tier C's generator may use the TLC slots now
    rows_by = {}; kg = {}; scans = []; dh = {}; seen_scans = set(); forms = {}; privs = {}
    for c in cases:
        if c["kind"] == "points": rows_by[(c["curve"], c["order"])] = c["out"]
        elif c["kind"] == "keygen": kg[(c["curve"], c["order"])] = c["out"]
        elif c["kind"] == "scan":
            k = (c["curve"], c["order"], c["val"], tuple(c["out"]["fixed"]), c["out"]["nvar"], c["out"]["sep"], tuple(c["out"]["y"]))
            if k not in seen_scans: seen_scans.add(k); scans.append(c)
        elif c["kind"] == "dh": dh[(c["curve"], c["sel"])] = c["out"]
        elif c["kind"] == "forms": forms[(c["curve"], c["order"])] = c["out"]
        elif c["kind"] == "priv": privs[(c["curve"], c["order"])] = c["out"]
    # vacuity of the two list kinds (TLC's FormsSound / PrivSound state the same on the spec side)
    for cn in TOYBIG:
        for order in ("be", "le"):
            if {tuple(r["par"]) for r in forms.get((cn, order), [])} != {(0, 0), (0, 1), (1, 0), (1, 1)}:
                raise common.Infra("forms corpus of %s/%s does not cover the four octet-parity classes" % (cn, order))
    if len(privs) != 2 * len(curves) or not all(any(r["st"] == "reject" and any(r["ds"]) for r in v) and any(r["st"] == "ok" for r in v) for v in privs.values()):
        raise common.Infra("private-key corpus is incomplete")
    ctx.add(form_cases=sum(len(r["encs"]) for v in forms.values() for r in v), private_key_strings=sum(len(v) for v in privs.values()))
    ctx.cov["tlc_wall_s"] = round(time.time() - t0, 1)
    ctx.add(point_rows=sum(len(v) for v in rows_by.values()), scan_states=len(scans), strings_scanned_per_build=sum(s["out"]["n"] for s in scans if s["val"]),
            keygen_rows=sum(len(v) for v in kg.values()), dh_rows=len(dh))
    ctx.log("TLC: %d point rows, %d scans, %d key-generation inputs, %d DH rows (%.0fs)" % (
        sum(len(v) for v in rows_by.values()), len(scans), sum(len(v) for v in kg.values()), len(dh), time.time() - t0))
    def run_build(ib):
        i, b = ib
        r2 = random.Random(ctx.seed * 17 + i)
        n = check_points(ctx, F, b, rows_by, quick, r2)
        mine = [s for s in scans if s["val"] == b.pubchk]
        if b.asan and quick: mine = [s for s in mine if s["out"]["n"] <= 256 or r2.random() < 0.15]
        n += check_scans(ctx, F, b, mine)
        n += check_keygen(ctx, F, b, kg, rows_by)
        n += check_forms_priv(ctx, F, b, forms, privs)
        dsel = dh if not (b.asan and quick) else {k: v for k, v in dh.items() if r2.random() < 0.4}
        n += check_dh(ctx, F, b, dsel, rows_by, r2, quick)
        n += check_sizes(ctx, F, b, rows_by)
        return n
    with ThreadPoolExecutor(max_workers=min(4, len(builds))) as ex:
        counts = list(ex.map(run_build, enumerate(builds)))
    ctx.add(evaluations=sum(counts), distinct_nontrivial=sum(len(v) for v in rows_by.values()) + sum(s["out"]["n"] for s in scans) + len(dh))
    ctx.cov["library_calls_per_build"] = {b.name: c for b, c in zip(builds, counts)}
    ctx.log("tier B: %d library calls compared (%.0fs)" % (sum(counts), time.time() - t0))

# ------------------------------------------------------------------ tier (C)
def tier_c_rounds(ctx, F, builds):
    t0 = time.time()
    curves = M.load_curves(builds[0])
    if len(curves) != 32: raise common.Infra("expected 32 built-in curves, the table has %d" % len(curves))
    def per_build(ib):
        i, b = ib
        rng = random.Random(ctx.seed * 4001 + i)
        if i == 0: cs = curves
        elif ctx.quick: cs = rng.sample([c for c in curves if c.m <= (192 if b.asan else 256)], 2 if b.asan else 4)
        else: cs = rng.sample(curves, 8 if b.asan else 16)
        sel[i] = cs
        return key_round(ctx, F, b, cs, rng)
    sel = {}
    with ThreadPoolExecutor(max_workers=min(2, len(builds))) as ex:
        res = list(ex.map(per_build, enumerate(builds)))
    ctx.log("tier C: library rounds done (%.0fs)" % (time.time() - t0))
    return dict(res=res, ncurves=len(curves), curves=curves, sel=sel)


# ------------------------------------------------------------------ tier (C): spec-generated encodings / private-key strings
def lnum(l): return sum(v << (13 * i) for i, v in enumerate(l))
def big_verdict(st): return {"st": st["st"], "pt": [lnum(v) for v in st["pt"]]}

def builtin_spec_cases(ctx, F, curves):
    """KeyCodecBigGen (TLC over KeyCodecBig) -> {curve name: record}; three generator processes and the self-check
    KeyCodecBigSelf side by side.  `full` jobs (a seeded few in the quick tier, m <= 256) also get the strings whose d*G
    needs a full-size multiplication and the order check of one chosen point."""
    t0 = time.time()
    M.compile_override()
    rng = random.Random(ctx.seed * 2749 + 3)
    full = set(c.name for c in (rng.sample([c for c in curves if c.m <= 256], 3) if ctx.quick else curves))
    d = common.scratch("lcbv-kcbig-")
    jobs = []
    for i, cv in enumerate(curves):
        extra = [[rng.randrange(256) for _ in range(cv.bytes)]] if cv.name in full else []
        jobs.append({"id": i, "name": cv.name, "c": cv.tla(), "full": cv.name in full, "extra": extra, "_cost": (cv.m / 256.0) ** 2 * (1 + (9 * cv.m / 256.0 if cv.name in full else 0))})
    k = 3; chunks = [[] for _ in range(k)]; load = [0.0] * k
    for j in sorted(jobs, key=lambda j: -j["_cost"]):
        q = load.index(min(load)); chunks[q].append(j); load[q] += j["_cost"]
    def gen(ix):
        path = os.path.join(d, "kcbig-%d.ndjson" % ix)
        with open(path, "w") as f:
            for j in chunks[ix]: f.write(json.dumps({kk: v for kk, v in j.items() if not kk.startswith("_")}, separators=(",", ":")) + "\n")
        r = common.tlc("KeyCodecBigGen", workers=1, env={"TRACE": path}, timeout=2400, xss="512m", xmx="3g")
        if r.rc != 0: raise common.Infra("KeyCodecBigGen failed:\n" + r.out[-3000:])
        out = common.tlc_printed_json(r.out)
        rec = [x for x in out if "done" in x]
        if not rec or rec[0]["done"] != len(chunks[ix]) or not rec[0]["xactive"]:
            raise common.Infra("KeyCodecBigGen receipt missing or override inactive:\n" + r.out[-2000:])
        return r, [x for x in out if "forms" in x]
    def selfchk(_):
        r = common.tlc("KeyCodecBigSelf", workers=1, timeout=1500, xss="256m", xmx="3g")
        if r.rc != 0 or "limb-tuple key codec agrees" not in r.out:
            raise common.Infra("KeyCodecBigSelf failed (KeyCodecBig differs from KeyCodec on the synthetic curves):\n" + r.out[-3000:])
        return r, None
    with ThreadPoolExecutor(max_workers=4) as ex:
        res = list(ex.map(lambda t: t[0](t[1]), [(selfchk, 0)] + [(gen, ix) for ix in range(k) if chunks[ix]]))
    spec = {}
    for ix, (r, recs) in enumerate(res):
        ctx.tlc_stats(r, "KeyCodecBigSelf" if recs is None else "KeyCodecBigGen/%d" % ix)
        for x in recs or []: spec[x["name"]] = x
    if set(spec) != set(c.name for c in curves): raise common.Infra("KeyCodecBigGen answered %d of %d curves" % (len(spec), len(curves)))
    for cv in curves:
        x = spec[cv.name]
        if not x["oncurve"] or x["ordchk"] == "fails":
            # the curve record comes from the library's table: G is not on the curve / n does not annihilate a multiple of G
            F.add("ecdsa_curve_from_str:%s:base-point-%s" % (cv.name, "off-the-curve" if not x["oncurve"] else "not-annihilated-by-n"),
                  "curve %s as loaded by the library: %s" % (cv.name, json.dumps(cv.tla())), {"case": "curve " + cv.name, "build": "-"})
            spec[cv.name] = None; continue
        for fo in x["forms"]:
            if {tuple(r["par"]) for r in fo["rows"] if r["k"] != 0} != {(0, 0), (0, 1), (1, 0), (1, 1)}:
                raise common.Infra("forms corpus of %s/%s does not cover the four octet-parity classes" % (cv.name, fo["order"]))
        for po in x["priv"]:
            if not {"d=0", "d>=n", "in-range"} <= {r["cls"] for r in po["rows"]}: raise common.Infra("private-key corpus of %s is incomplete" % cv.name)
            for r in po["rows"]:
                if r["pub"]: r["pub"][0]["pt"] = [lnum(v) for v in r["pub"][0]["pt"]]
    ctx.cov["mode_c_spec_cases"] = {"curves": len(spec), "curves_with_full_size_private_keys_and_order_check": sorted(full),
                                    "encodings_per_curve": sum(len(r["encs"]) for fo in spec[curves[0].name]["forms"] for r in fo["rows"]) if spec[curves[0].name] else 0,
                                    "wall_s": round(time.time() - t0, 1)}
    ctx.log("tier C: KeyCodecBigGen: forms / private-key strings for %d curves (%d with full-size multiplications) in %.0fs" % (len(spec), len(full), time.time() - t0))
    return spec

def tier_c_spec(ctx, F, builds, st):
    """every built-in curve on the two builds of the suite configuration (validation off / on), the seeded subsets elsewhere"""
    spec = builtin_spec_cases(ctx, F, st["curves"])
    t0 = time.time()
    def per_build(ib):
        i, b = ib
        cs = st["curves"] if (i < 2 and not b.asan) else st["sel"][i]
        n = 0
        for cv in cs:
            x = spec.get(cv.name)
            if x is None: continue
            for fo in x["forms"]: n += run_forms(F, b, cv.name, fo["order"], fo["rows"], conv=big_verdict)
            for po in x["priv"]: n += run_priv(F, b, cv.name, po["order"], po["rows"], all_forms=False)
        return n
    with ThreadPoolExecutor(max_workers=min(4, len(builds))) as ex:
        counts = list(ex.map(per_build, enumerate(builds)))
    st["spec_calls"] = sum(counts)
    ctx.add(evaluations=sum(counts), distinct_nontrivial=sum(len(r["encs"]) for x in spec.values() if x for fo in x["forms"] for r in fo["rows"])
            + sum(len(po["rows"]) for x in spec.values() if x for po in x["priv"]))
    ctx.log("tier C: %d library calls on spec-generated encodings / private-key strings (%.0fs)" % (sum(counts), time.time() - t0))

def tier_c_finish(ctx, F, st):
    res = st["res"]
    calls = sum(n for _, n in res)
    evs = []
    for i, (evl, _) in enumerate(res):
        rng = random.Random(ctx.seed + i); rng.shuffle(evl)
        evs += evl[: ((18 if ctx.quick else 150) if i == 0 else (2 if ctx.quick else 10))]
    nj = M.judge(ctx, F, evs, "c09")
    ctx.add(evaluations=calls, full_size_tuples_decided_by_tlc=nj)
    ctx.cov["mode_c"] = {"curves": st["ncurves"], "byte_orders": 2, "library_calls": calls, "full_size_tuples_recomputed_by_TLC_through_BigNat": nj}
    ctx.log("tier C: %d library calls on %d curves, %d full-size tuples recomputed by TLC" % (calls, st["ncurves"], nj))

def key_round(ctx, F, b, curves, rng):
    """two parties per (curve, byte order): keys from random octets, every export form re-imported, public key from the
    private key, DH both ways with and without cofactor.  -> (events for TLC, number of calls)"""
    P = []
    for cv in curves:
        for order in ("be", "le"):
            p = M.Combo(); p.cv = cv; p.order = order
            p.rnd = [bytes(rng.randrange(256) for _ in range(cv.bytes + rng.choice((0, 0, 2)))) for _ in range(2)]
            P.append(p)
    lines = []
    for p in P:
        for r in p.rnd:
            lines.append("keygen %s %s 1 1 %s" % (p.cv.name, p.order, hx(r)))
            lines.append("keygen %s %s 0 1 %s" % (p.cv.name, p.order, hx(r)))
    res = R.run_lines(b, lines); ncalls = len(lines)
    live = []
    for i, p in enumerate(P):
        p.keys = []
        ok = True
        for j in range(2):
            a1, a2 = res[4 * i + 2 * j], res[4 * i + 2 * j + 1]; ln = lines[4 * i + 2 * j]
            fn = "ecdsa_key_gen_" + p.order
            if isinstance(a1, dict) or isinstance(a2, dict): crash(F, fn, b, ln, a1 if isinstance(a1, dict) else a2); ok = False; continue
            f1, f2 = kvs(a1), kvs(a2)
            if f1["rc"] != "0" or f2["rc"] != "0":
                digit = int([t for t in b.name.split(":")[-1].split("-") if t.startswith("d")][0][1:].rstrip("m"))
                part = (p.cv.bytes * 8) % digit != 0
                F.add("%s:fails-for-valid-input%s" % (fn, ":field-octets-not-a-multiple-of-the-digit-size" if (part and p.order == "le") else ""),
                      "build %s\ncase %s\n%s" % (b.name, ln, a1 if f1["rc"] != "0" else a2), {"case": ln, "build": b.name}); ok = False; continue
            try:
                priv = bytes.fromhex(f1["priv"]); comp = bytes.fromhex(f1["x"]); qx = bytes.fromhex(f2["x"]); qy = bytes.fromhex(f2["y"])
            except ValueError:   # e.g. the neutral element came back as the "public key" (no second block)
                priv = comp = qx = b""; qy = b"\x00"
            if f1["priv"] != f2["priv"] or len(qx) != p.cv.bytes or comp[1:] != qx or comp[0] != 2 + (M.val(qy, p.order) & 1):
                F.add("%s:forms-disagree" % fn, "build %s\ncase %s\n%s\n%s" % (b.name, ln, a1, a2), {"case": ln, "build": b.name}); ok = False; continue
            p.keys.append(dict(priv=priv, comp=comp, qx=qx, qy=qy, rnd=p.rnd[j], line=ln))
        if ok and len(p.keys) == 2: live.append(p)
    # re-import in every form, public key from private key, DH
    lines = []; meta = []
    for p in live:
        o = p.order; cn = p.cv.name
        for k in p.keys:
            packed = b"\x04" + k["qx"] + k["qy"]
            for form, (x, y) in (("compressed", (k["comp"], None)), ("packed", (packed, None)), ("separate", (k["qx"], k["qy"])), ("concat", (k["qx"] + k["qy"], None)),
                                 ("hybrid", (bytes([6 + (M.val(k["qy"], o) & 1)]) + k["qx"] + k["qy"], None))):
                lines.append("import %s %s %s %s" % (cn, o, hx(x), hx(y) if y else "-")); meta.append((p, k, "import", form))
            # the other root: the compressed form with the parity flipped must give (x, p - y)
            lines.append("import %s %s %s -" % (cn, o, hx(bytes([k["comp"][0] ^ 1]) + k["qx"]))); meta.append((p, k, "import-flipped", None))
            for compress, ysep, form in ((1, 0, "compressed"), (0, 0, "packed"), (0, 1, "separate")):
                lines.append("pubkey %s %s %d %d %s" % (cn, o, compress, ysep, hx(k["priv"]))); meta.append((p, k, "pubkey", form))
        a_, b_ = p.keys
        for cof in (0, 1):
            for me, peer in ((a_, b_), (b_, a_)):
                form = rng.choice(["compressed", "packed", "separate"])
                x, y = {"compressed": (peer["comp"], None), "packed": (b"\x04" + peer["qx"] + peer["qy"], None), "separate": (peer["qx"], peer["qy"])}[form]
                lines.append("dh %s %s %d %s %s %s" % (cn, o, cof, hx(x), hx(y) if y else "-", hx(me["priv"]))); meta.append((p, (me, peer, cof), "dh", form))
    res = R.run_lines(b, lines); ncalls += len(lines)
    evs = []; dhres = {}
    for ln, (p, k, op, form), a in zip(lines, meta, res):
        o = p.order
        fn = {"import": "ecdsa_pub_key_import_", "import-flipped": "ecdsa_pub_key_import_", "pubkey": "ecdsa_recover_pub_key_from_priv_key_", "dh": "ecdsa_dh_"}[op] + o
        if isinstance(a, dict): crash(F, fn, b, ln, a); continue
        f = kvs(a); rc = int(f["rc"])
        base = {"c": p.cv.tla(), "alg": "ecdsa", "order": o, "_build": b.name, "_curve": p.cv.name, "_case": ln}
        if op == "import":
            want = [M.val(k["qx"], o), M.val(k["qy"], o)]
            if rc != 0 or parse_pt(f["pt"]) != want:
                if True:      # the hybrid form with the agreeing prefix is a standard encoding too (KeyCodec!ImportW: "ok")
                    F.add("%s:%s:%s" % (fn, form, "rejects-own-export" if rc else "decodes-to-wrong-point"), "build %s\ncase %s\n%s\nexported from %s" % (b.name, ln, a, k["line"]), {"case": ln, "build": b.name})
        elif op == "import-flipped":
            if rc == 0:
                pt = parse_pt(f["pt"])
                if pt[0] != M.val(k["qx"], o) or pt[1] == M.val(k["qy"], o) or (pt[1] + M.val(k["qy"], o)) != p.cv.p or (pt[1] & 1) != (k["comp"][0] ^ 1) & 1:
                    F.add("%s:compressed:wrong-root" % fn, "build %s\ncase %s\n%s" % (b.name, ln, a), {"case": ln, "build": b.name})
            else:
                F.add("%s:compressed:rejects-valid-encoding" % fn, "build %s\ncase %s\n%s" % (b.name, ln, a), {"case": ln, "build": b.name})
        elif op == "pubkey":
            exp = {"compressed": (k["comp"], None), "packed": (b"\x04" + k["qx"] + k["qy"], None), "separate": (k["qx"], k["qy"])}[form]
            got = (bytes.fromhex(f["x"]) if f["x"] != "-" else None, bytes.fromhex(f["y"]) if f["y"] != "-" else None)
            if rc != 0 or got != exp:
                F.add("%s:%s:differs-from-key-generation" % (fn, form), "build %s\ncase %s\n%s\nkey generation: %s" % (b.name, ln, a, k["line"]), {"case": ln, "build": b.name})
            elif form == "packed":
                evs.append(dict(base, op="pubkey", d=M.limbs(M.val(k["priv"], o)), ok=True, q=[M.limbs(M.val(k["qx"], o)), M.limbs(M.val(k["qy"], o))]))
                evs.append(dict(base, op="keygen", rnd=list(k["rnd"]), ok=True, d=M.limbs(M.val(k["priv"], o)), q=[M.limbs(M.val(k["qx"], o)), M.limbs(M.val(k["qy"], o))], _case=k["line"]))
        else:
            me, peer, cof = k
            z = bytes.fromhex(f["z"]) if rc == 0 else None
            dhres.setdefault((id(p), cof), []).append((z, ln, a))
            if rc != 0:
                F.add("%s:%s:fails-for-valid-input" % (fn, "cofactor" if cof else "plain"), "build %s\ncase %s\n%s" % (b.name, ln, a), {"case": ln, "build": b.name})
            else:
                evs.append(dict(base, op="dh", d=M.limbs(M.val(me["priv"], o)), q=[M.limbs(M.val(peer["qx"], o)), M.limbs(M.val(peer["qy"], o))], cof=bool(cof), ok=True, z=M.limbs(M.val(z, o))))
    for (pid, cof), lst in dhres.items():
        if len(lst) == 2 and lst[0][0] != lst[1][0]:
            F.add("ecdsa_dh:%s:not-symmetric" % ("cofactor" if cof else "plain"), "build %s\n%s\n%s\n%s\n%s" % (b.name, lst[0][1], lst[0][2], lst[1][1], lst[1][2]), {"case": lst[0][1], "build": b.name})
    return evs, ncalls

# ------------------------------------------------------------------ entry point
class Later:
    """coverage bookkeeping of the tier-C thread, replayed on the main thread after the join (Context.add is a plain
    read-modify-write and tier B counts on the main thread at the same time); everything else is the context's own"""
    def __init__(self, ctx): self._ctx = ctx; self._calls = []; self.cov = {}
    def __getattr__(self, k): return getattr(self._ctx, k)
    def add(self, **kw): self._calls.append(("add", kw))
    def tlc_stats(self, r, label): self._calls.append(("tlc", (r, label)))
    def replay(self):
        for k, a in self._calls:
            if k == "add": self._ctx.add(**a)
            else: self._ctx.tlc_stats(*a)
        self._ctx.cov.update(self.cov)

def run(ctx):
    ctx.level = "model_checking"
    d = common.scratch("lcbv-c09-")
    R.set_tier(ctx)             # watchdog seconds per library call and the check-wide budget of watchdog deaths
    F = Fails(ctx)
    # every configuration is built with key validation on and off; the second configuration's pair runs under ASan
    rng = random.Random(ctx.seed * 7919 + 13)
    pool = [c for c in R.POOL if R.usable(c)]; rng.shuffle(pool)
    cfgs = [dict(R.SUITE)] + pool[: (1 if ctx.quick else 4)]
    builds = []
    for i, c in enumerate(cfgs):
        if i == 0:
            builds += [R.Build(c, False, "gcc", "-O2", False), R.Build(c, True, "gcc", "-O2", False)]
        elif i == 1:
            builds += [R.Build(c, True, "clang", "-O1", True), R.Build(c, False, "clang", "-O1", True)]
        else:
            builds += [R.Build(c, i % 2 == 0, "clang" if i % 2 else "gcc", "-O2", False)]
    R.build_all(builds, d, par=4)
    ctx.log("built %d drivers: %s" % (len(builds), [b.name for b in builds]))
    only = os.environ.get("VERIF_C09_ONLY", "")
    cres = {}; ct = None
    tlc_free = threading.Event(); lctx = Later(ctx)
    if only != "b":
        M.start_self_check()
        def work():
            try:
                cres["st"] = tier_c_rounds(ctx, F, builds)
                tlc_free.wait()                                  # tier B's partitions hold the TLC slots until then
                tier_c_spec(lctx, F, builds, cres["st"])         # KeyCodecBigGen + its library calls while tier B's drivers run,
                tier_c_finish(lctx, F, cres["st"])               # then the EcdsaTrace judge (again <= 4 TLC processes)
            except BaseException as e: cres["err"] = e
        ct = threading.Thread(target=work); ct.start()          # library part of tier C while TLC enumerates tier B
    try:
        if only != "c":
            try: tier_b(ctx, F, builds, tlc_free)
            finally: tlc_free.set()
        else: tlc_free.set()
        if ct is not None:
            ct.join()
            if "err" in cres: raise cres["err"]
            lctx.replay()
    except R.HangStop:
        # library calls that never return (each one recorded in F with the key <function>:fault-sig14) used up the tier's watchdog budget
        if ct is not None: ct.join()
        ctx.log("stopped driving: %d library calls did not return within %d s of CPU time" % (R._hangs[0], R.WD_CPU))
        ctx.add(stopped_after_watchdog_deaths=R._hangs[0])
    F.flush()
    ctx.add(samples=["export E8C4 le 1 0 1 57", "import E13 be 02000f -", "impscan E8G be 04 2   (all 65536 strings 04 x y)", "impsep E13 le 0f00   (every second block)",
                     "keygen E8M3 be 1 1 df", "pubkey E16M3 le 0 1 9ffe", "dh E8C4 be 1 0301 - 1f", "dhbn E13 0 f cde 1f98", "sign secp256r1 - be 1111..(35 octets) 01 07   (size edge, ASan)",
                     "import E13 le 07c913ce14 -   (hybrid form, y = 14ce: most significant octet even, least significant even, prefix contradicts: may)",
                     "pubkey E13 be 0 0 1f99   (d = n: refused)", "pubkey secp256r1 le 1 0 <n + 1, 32 octets>   (refused)",
                     "import secp521r1 le 06<x><y> -   (hybrid, spec-chosen k*G of each octet-parity class)",
                     "keygen brainpoolP384r1 le 0 1 <48 random octets>", "import secp521r1 be 03<x> -   (other root)", "dh secp112r2 le 1 <peer> - <priv>"])
    ctx.cov["builds"] = [b.name for b in builds]
    ctx.cov["rule"] = ("tier B: reachable states of KeyCodecGen under the slice in the .cfg files: one row per point of the whole group, one scan state per "
                       "(curve, order, validation, fixed octets) covering every value of the varying octets, one row per random value / private key; "
                       "distinct = rows + scanned strings; the scans are non-trivial by construction (they contain every valid and every invalid string of their shape)")
    ctx.assumptions += [
        "oracle = specs/ec/KeyCodec.tla on EcGroup.tla evaluated by TLC; import o export = identity, the parity law, soundness of the accepted set and DH symmetry are TLC invariants on every generated state",
        "with key validation compiled out (EC_DISABLE_PUB_KEY_CHK) whatever is not a valid key is unspecified, except that a compressed key with a square root must decode to the root of the requested parity",
        "hybrid encodings (06/07) whose prefix contradicts the parity of y, and the collisions of the raw forms with the SEC 1 forms on a one-octet field, may be refused; if accepted they must denote the stated point",
        "private-key octets (public key from private key): d = 0 and d >= n are no private keys and must be refused; an octet string longer than the field may be refused (documented size precondition), if accepted the result must be d*G",
        "built-in curves: the curve record handed to KeyCodecBigGen is the one the library loaded (its table is C02's subject); it defines n as the order of G, so the multiples k*G used as valid keys are annihilated by n - TLC checks the curve equation for all of them and multiplies one by n for the `full` curves; compressed encodings are decided with the point's y as root witness",
        "random octets -> private key: both documented maps are admitted (Ecdsa!SecretSet); key generation may fail only where 0 is among the admitted values",
        "memory safety is observed by AddressSanitizer on exactly-sized heap blocks in the ASan builds (UBSan is not enabled: the arithmetic headers have benign reports that are C01's subject)",
        "configurations hit by open findings of C02 are not built here (unknown-point window wider than the fixed-point window, affine BIN_PRECALC_DBL, comb window wider than a digit, affine + INTER)",
    ]
