"""C20 - HTTP request/status line parsing, header lookup and the smuggling checks agree with RFC 7230 (mode B).

TLC enumerates the corpus from the generator specs (specs/http/GenHttpStart*.tla: start lines from the RFC 7230/3986
grammar; specs/http/GenHttpHdr.tla: every header block of <= 3 fields over a field alphabet in every order, plus every
single edit that puts one smuggling pattern into an accepted block), checks the reference's own algebra on every state
and computes every expectation (spans, counts, verdicts) from the STRUCTURE.  The real functions of src/proto/http.c
(ASan+UBSan build, exact-size input flush against guard pages, no trailing NUL) must return exactly that.
Python renders the emitted text to bytes (control-byte patches, method token, terminator tail), runs the driver and
compares JSON values; it computes no expectation."""
import json, threading
from rig import common
from rig.common import hexs

DRV = "/verif/harness/http_drv.c"
PATTERNS = ("ctl", "spcolon", "dup-host", "dup-content-length", "dup-transfer-encoding", "cl+te", "cl-on-get")


class Fails:
    """one ctx.fail per key (first case kept as the witness), with the number of cases behind it"""
    def __init__(self): self.d = {}
    def add(self, key, detail, replay):
        if key in self.d: self.d[key][2] += 1
        else: self.d[key] = [detail, replay, 1]
    def flush(self, ctx):
        for key, (detail, replay, n) in sorted(self.d.items()):
            ctx.fail(key, "%s\n(%d case(s) with this key; first shown)" % (detail, n), replay)


def run_tlc_parallel(jobs):
    """jobs: [(label, module, cfg, coverage)] -> {label: TlcResult}; each TLC uses one worker (PrintT corpus idiom)"""
    common.tlc_workspace()
    out = {}; err = []
    slots = threading.Semaphore(4)      # never more than 4 TLC processes at a time
    def one(label, module, cfg, cov):
        with slots:
            try:
                out[label] = common.tlc(module, cfg=cfg, workers=1, coverage=cov, timeout=1500, xmx="3g")
            except BaseException as e:  # Infra from a thread: re-raised by the caller
                err.append(e)
    th = [threading.Thread(target=one, args=j) for j in jobs]
    for t in th: t.start()
    for t in th: t.join()
    if err: raise err[0]
    return out


def iter_cases(out):
    """cases printed by PrintT(ToJson(x)), streamed (the thorough corpus is > 100 MB of text)"""
    pos = 0; n = len(out)
    while pos < n:
        end = out.find("\n", pos)
        if end < 0: end = n
        if end - pos > 2 and out[pos] == '"':
            line = out[pos:end].rstrip()
            if line.endswith('"'):
                try: yield json.loads(json.loads(line))
                except ValueError: pass
        pos = end + 1


def check_tlc(ctx, r, label):
    ctx.tlc_stats(r, label)
    if r.rc != 0:
        raise common.Infra("reference algebra failed inside TLC for %s (spec bug, not a code verdict): %s\n%s"
                           % (label, r.violation, r.out[-3000:]))
    if r.generated != r.distinct:
        raise common.Infra("generator %s is not a tree: %d generated, %d distinct" % (label, r.generated, r.distinct))


def check_count(n, r, label):
    if n != r.distinct:
        raise common.Infra("corpus emission lost/duplicated cases in %s: %d printed, %d distinct" % (label, n, r.distinct))


def chunks(it, k):
    buf = []
    for x in it:
        buf.append(x)
        if len(buf) >= k:
            yield buf; buf = []
    if buf: yield buf


def text_bytes(s):
    return s.encode("latin-1")


# ---------------------------------------------------------------------------------------------- start lines
def span_ok(exp, got):
    """exp: [] (absent) or [off,len];  got: [off,len] with off=-1 for a NULL pointer.
    A non-empty component must be reported at exactly its place; an absent or empty one only needs length 0."""
    if exp == [] or exp[1] == 0:          # absent or empty component: RFC 7230 places no empty string
        return got[1] == 0
    return got[0] == exp[0] and got[1] == exp[1]


def req_problems(e, g):
    """compare EVERY field of a successfully filled http_req_line_data_t with the reference's expectation.
    -> (bad, ubad): names of the mandatory fields / of the optional URI components that are wrong"""
    bad = []
    if g["ls"] != e["lineSize"]: bad.append("line_size")
    if (g["vmaj"], g["vmin"]) != (e["vmaj"], e["vmin"]): bad.append("version")
    if g["mcode"] != e["mcode"]: bad.append("method_code")
    for f in ("method", "target"):
        if not span_ok(e[f], g[f]): bad.append(f)
    ubad = []
    for f in ("scheme", "auth", "path", "query"):
        sp = g[f]
        if sp[0] != -1 and not (0 <= sp[0] and sp[0] + sp[1] <= e["lineSize"]):
            ubad.append(f + "-outside-line")       # "each as a sub-span of the input"
        elif f == "path" and e["pathAny"]:
            t = e["target"]
            if not (sp[1] == 0 or (t[0] <= sp[0] and sp[0] + sp[1] <= t[0] + t[1])): ubad.append(f)
        elif not span_ok(e[f], sp):
            ubad.append(f)
    return bad, ubad


CUT = [False]       # a batch was cut short: the driver's watchdog killed 8 calls of it (each one reported); vacuity of the rest is not judged
def batch(exe, lines, timeout):
    """common.batch_run; after 8 calls that did not return (driver watchdog: 2 s of CPU time / 20 s of wall clock for a call that
    takes microseconds) the rest of the batch is not run: the check ends with its verdict in bounded time"""
    res = common.batch_run(exe, lines, timeout=timeout, max_hangs=8)
    if any(not_run(a) for a in res): CUT[0] = True
    return res
def not_run(a):
    return isinstance(a, dict) and bool(a.get("skipped"))

def start_lines(ctx, exe, cases, fails, seen):
    lines = ["%s %s" % (c["kind"], hexs(text_bytes(c["text"]))) for c in cases]
    res = batch(exe, lines, 600)
    for c, ln, a in zip(cases, lines, res):
        if not_run(a): continue
        fn = "http_parse_req_line" if c["kind"] == "req" else "http_parse_resp_line"
        shape = c["shape"]; e = c["expect"]; n = len(c["text"])
        ctx.add(evaluations=1); seen.add(hash(ln))
        rp = {"driver_line": ln, "text": c["text"], "expect": e}
        if isinstance(a, dict):
            k = a["crash"]; fails.add("%s:%s:%s:%s" % (fn, shape, k[0], k[1]), a["raw"], rp); continue
        g = json.loads(a)
        det = "input %r\nexpected %s\ngot      %s" % (c["text"], json.dumps(e, sort_keys=True), a)
        if g.get("fault"):
            fails.add("%s:%s:read-past-end-of-buffer" % (fn, shape), det, rp); continue
        if g.get("ulo"):
            fails.add("%s:%s:read-before-start-of-buffer" % (fn, shape), det, rp)
        if g["rc"] != 0:
            fails.add("%s:%s:rejected" % (fn, shape), det, rp); continue
        if c["kind"] == "resp":
            bad = []
            if g["ls"] != e["lineSize"]: bad.append("line_size")
            if (g["vmaj"], g["vmin"]) != (e["vmaj"], e["vmin"]): bad.append("version")
            if g["code"] != e["code"]: bad.append("status_code")
            if not span_ok(e["reason"], g["reason"]): bad.append("reason")
            if bad: fails.add("%s:%s:wrong:%s" % (fn, shape, "+".join(bad)), det, rp)
            elif g["deref"]: fails.add("%s:%s:unreadable-span:%s" % (fn, shape, "+".join(g["deref"])), det, rp)
            continue
        bad, ubad = req_problems(e, g)
        if bad:
            fails.add("%s:wrong:%s" % (fn, "+".join(bad)), det, rp)
        if ubad:
            if shape == "plain": fails.add("%s:plain:wrong:%s" % (fn, "+".join(ubad)), det, rp)
            else: fails.add("%s:%s:wrong-spans" % (fn, shape), det, rp)
        if g["deref"] and not bad and not ubad:
            fails.add("%s:%s:unreadable-span:%s" % (fn, shape, "+".join(g["deref"])), det, rp)


def form_name(it):
    return it["form"] + ("+query" if it["hasq"] else "")


def sequences(ctx, exe, cases, fails, seen, stats):
    """2-3 requests of different target forms parsed into the SAME result structure (poisoned before the first call),
    each from its own exact-size mapping that is inaccessible when the next one is parsed"""
    fn = "http_parse_req_line"
    lines = ["seq " + " ".join(hexs(text_bytes(it["text"])) for it in c["items"]) for c in cases if len(c["items"]) >= 2]
    multi = [c for c in cases if len(c["items"]) >= 2]
    res = batch(exe, lines, 600)
    for c, ln, a in zip(multi, lines, res):
        if not_run(a): continue
        ctx.add(evaluations=1); seen.add(hash(ln))
        items = c["items"]
        rp = {"driver_line": ln, "texts": [it["text"] for it in items], "expect": [it["expect"] for it in items]}
        if isinstance(a, dict):
            k = a["crash"]; fails.add("%s:result-struct-reused:%s:%s" % (fn, k[0], k[1]), a["raw"], rp); continue
        gs = json.loads(a)["res"]
        for i, it in enumerate(items):
            prev = "after-" + form_name(items[i - 1]) if i else "first-use"
            tag = "%s:result-struct-reused:%s:%s" % (fn, prev, form_name(it))
            det = "requests parsed in order into one structure: %r\nrequest #%d %r\nexpected %s\ngot      %s" % (
                rp["texts"], i + 1, it["text"], json.dumps(it["expect"], sort_keys=True), json.dumps(gs[i]) if i < len(gs) else "-")
            if i >= len(gs): break
            g = gs[i]
            stats["seq_parses"] += 1
            if i: stats["seq_transitions"].add((form_name(items[i - 1]), form_name(it)))
            if g.get("fault"):
                fails.add(tag + ":read-past-end-of-buffer", det, rp); break
            if g["rc"] != 0:
                fails.add(tag + ":rejected", det, rp); continue
            bad, ubad = req_problems(it["expect"], g)
            if bad or ubad: fails.add(tag + ":wrong:" + "+".join(bad + ubad), det, rp)
            elif g["deref"]: fails.add(tag + ":unreadable-span:" + "+".join(g["deref"]), det, rp)


def queries(ctx, exe, cases, fails, seen, stats):
    lines = []; meta = []
    for c in cases:
        for name, exp in sorted(c["look"].items()):
            lines.append("qry %s %s" % (hexs(text_bytes(c["text"])), name)); meta.append((c, name, exp))
    res = batch(exe, lines, 600)
    for ln, (c, name, exp), a in zip(lines, meta, res):
        if not_run(a): continue
        ctx.add(evaluations=1); seen.add(hash(ln))
        rp = {"driver_line": ln, "query": c["text"], "name": name, "expect": exp}
        if isinstance(a, dict):
            k = a["crash"]; fails.add("http_query_val_get_ex:%s:%s" % (k[0], k[1]), a["raw"], rp); continue
        g = json.loads(a)
        det = "query %r name %r\nexpected %s\ngot      %s" % (c["text"], name, json.dumps(exp, sort_keys=True), a)
        stats["query_lookups"] += 1
        if exp["found"]: stats["query_lookups_hit"] += 1
        if g["ulo"]: fails.add("http_query_val_get_ex:read-before-start-of-buffer", det, rp)
        for fnn, key in (("http_query_val_get_ex", "ex"), ("http_query_val_get", "get")):
            r = g[key]
            if r == "F":
                fails.add("%s:read-past-end-of-buffer" % fnn, det, rp); continue
            if not exp["found"]:
                if r[0] == 0: fails.add("%s:found-absent-name" % fnn, det, rp)
                continue
            if r[0] != 0:
                fails.add("%s:missed-name" % fnn, det, rp); continue
            if key == "ex":
                noff, voff, vlen, dbad = r[1], r[2], r[3], r[4]
                if noff != exp["name"][0]: fails.add("%s:wrong-name-pointer" % fnn, det, rp)
            else:
                voff, vlen, dbad = r[1], r[2], r[3]
            if vlen != exp["val"][1] or (vlen and voff != exp["val"][0]) or \
                    (not vlen and not (voff == -1 or 0 <= voff <= len(c["text"]))):
                fails.add("%s:wrong-value-span" % fnn, det, rp)
            elif dbad: fails.add("%s:unreadable-span" % fnn, det, rp)


# ---------------------------------------------------------------------------------------------- header blocks
def render(c, method_alt, tail):
    b = bytearray(text_bytes(c["text"]))
    for off, byte in c["patch"]:
        if b[off] != 0x0c: raise common.Infra("patch offset does not point at the placeholder: %r" % c)
        b[off] = byte
    if method_alt:
        if len(c["alt"]) != 3: raise common.Infra("alternative method must keep the layout")
        b[0:3] = c["alt"].encode()
    return bytes(b) + text_bytes(tail)


def header_blocks(ctx, exe, cases, fails, seen, stats, base=0):
    lines = []; meta = []
    for i, c in enumerate(cases, base):
        qs = ",".join(sorted(c["look"])) if c["look"] else ""
        tails = c["tails"]
        for tail in tails:                       # GET, every terminator tail, with lookups
            lines.append("hdr %s %s" % (hexs(render(c, False, tail)), qs)); meta.append((c, False, tail))
        tail = tails[(i + ctx.seed) % len(tails)]   # the other method: verdict only
        lines.append("hdr %s" % hexs(render(c, True, tail))); meta.append((c, True, tail))
    res = batch(exe, lines, 1200)
    for ln, (c, alt, tail), a in zip(lines, meta, res):
        if not_run(a): continue
        ctx.add(evaluations=1); seen.add(hash(ln))
        method = c["alt"] if alt else "GET"
        rej = c["rejPut"] if alt else c["rejGet"]
        pats = c["patPut"] if alt else c["patGet"]
        rp = {"driver_line": ln, "text": c["text"], "patch": c["patch"], "method": method, "tail": tail,
              "expect_reject": rej, "patterns": pats, "look": c["look"]}
        if isinstance(a, dict):
            k = a["crash"]; fails.add("http_hdr:%s:%s" % (k[0], k[1]), a["raw"], rp); continue
        g = json.loads(a)
        det = "input %r patch %s method %s tail %r\nexpected reject=%s patterns=%s look=%s\ngot %s" % (
            c["text"], c["patch"], method, tail, rej, pats, json.dumps(c["look"], sort_keys=True), a)
        if g["ulo"]:
            fails.add("http_hdr:read-before-start-of-buffer", det, rp)
        if g["prc"] != 0:
            fails.add("http_parse_req_line:plain:rejected", det, rp); continue
        # --- verdict
        stats["rej" if rej else "acc"] += 1
        for p in pats: stats[p] = stats.get(p, 0) + 1
        if g["sec"] == "F":
            fails.add("http_req_sec_chk:read-past-end-of-buffer", det, rp)
        elif (g["sec"] != 0) != rej:
            if rej: fails.add("http_req_sec_chk:accepted:%s" % "+".join(sorted(pats)), det, rp)
            else: fails.add("http_req_sec_chk:rejected-block-without-pattern:rule-%s" % g["sec"], det, rp)
        # --- lookups (well-formed blocks only)
        if alt or not c["look"]: continue
        n = len(c["text"]) + len(tail)
        for q, exp in sorted(c["look"].items()):
            got = g["look"][q]
            known_shape = (tail == "" and q in c["endsEmpty"])
            fkey = ("http_hdr_val_get_ex:empty-value-in-last-field:read-past-end-of-buffer" if known_shape
                    else "http_hdr_val_get_ex:read-past-end-of-buffer")
            stats["lookups"] += 1
            if exp: stats["lookups_hit"] += 1
            if got["cnt"] == "F": fails.add("http_hdr_val_get_count:read-past-end-of-buffer", det, rp)
            elif got["cnt"] != len(exp): fails.add("http_hdr_val_get_count:wrong-count", "query %s\n%s" % (q, det), rp)
            gg = got["get"]
            if gg == "F":
                # the first match is the blank last field only if it is the only match
                fails.add(fkey if len(exp) == 1 else "http_hdr_val_get_ex:read-past-end-of-buffer", "query %s (http_hdr_val_get)\n%s" % (q, det), rp)
            elif not exp:
                if gg[0] == 0: fails.add("http_hdr_val_get:found-absent-field", "query %s\n%s" % (q, det), rp)
            else:
                lo, hi, ln_ = exp[0]
                if gg[0] != 0: fails.add("http_hdr_val_get:missed-field", "query %s\n%s" % (q, det), rp)
                elif not (gg[2] == ln_ and (lo <= gg[1] <= hi if ln_ else -1 <= gg[1] <= n)):
                    fails.add("http_hdr_val_get:wrong-value-span", "query %s\n%s" % (q, det), rp)
            ex = got["ex"]
            if "STUCK" in ex:
                fails.add("http_hdr_val_get_ex:iteration-does-not-advance", "query %s\n%s" % (q, det), rp); continue
            faulted = bool(ex) and ex[-1] == "F"
            if faulted:
                ex = ex[:-1]
                if len(ex) == len(exp) - 1 and exp[-1][2] == 0: fails.add(fkey, "query %s (http_hdr_val_get_ex)\n%s" % (q, det), rp)
                else: fails.add("http_hdr_val_get_ex:read-past-end-of-buffer", "query %s\n%s" % (q, det), rp)
                exp_cmp = exp[:len(ex)]
            else:
                exp_cmp = exp
            if len(ex) != len(exp_cmp):
                fails.add("http_hdr_val_get_ex:wrong-number-of-matches", "query %s\n%s" % (q, det), rp); continue
            prev = 0
            for (lo, hi, ln_), (off, l, nxt) in zip(exp_cmp, ex):
                if not (l == ln_ and (lo <= off <= hi if ln_ else -1 <= off <= n)):
                    fails.add("http_hdr_val_get_ex:wrong-value-span", "query %s\n%s" % (q, det), rp); break
                if not (prev < nxt <= n):
                    fails.add("http_hdr_val_get_ex:bad-next-offset", "query %s\n%s" % (q, det), rp); break
                prev = nxt


def run(ctx):
    ctx.level = "exploration"
    d = common.scratch()
    if ctx.quick:
        jobs = [("GenHttpStart/GenHttpStart.cfg", "GenHttpStart", "GenHttpStart.cfg", False),
                ("GenHttpHdr/GenHttpHdr.cfg", "GenHttpHdr", "GenHttpHdr.cfg", False),
                ("GenHttpSeq/GenHttpSeq.cfg", "GenHttpSeq", "GenHttpSeq.cfg", False),
                ("GenHttpQuery/GenHttpQuery.cfg", "GenHttpQuery", "GenHttpQuery.cfg", False)]
    else:
        jobs = [("GenHttpStartT/GenHttpStartT.cfg", "GenHttpStartT", "GenHttpStartT.cfg", True),
                ("GenHttpHdr/GenHttpHdr_thoroughA.cfg", "GenHttpHdr", "GenHttpHdr_thoroughA.cfg", True),
                ("GenHttpHdr/GenHttpHdr_thoroughB.cfg", "GenHttpHdr", "GenHttpHdr_thoroughB.cfg", True),
                ("GenHttpHdr/GenHttpHdr_thoroughC.cfg", "GenHttpHdr", "GenHttpHdr_thoroughC.cfg", True),
                ("GenHttpSeq/GenHttpSeq_thorough.cfg", "GenHttpSeq", "GenHttpSeq_thorough.cfg", True),
                ("GenHttpQuery/GenHttpQuery_thorough.cfg", "GenHttpQuery", "GenHttpQuery_thorough.cfg", True)]
    box = {}
    def build():
        try:
            box["exe"] = common.cc([DRV, "src/proto/http.c"], d + "/http_drv", compiler="clang", san="asan", hooks=False)
        except BaseException as e:
            box["err"] = e
    bt = threading.Thread(target=build); bt.start()
    results = run_tlc_parallel(jobs)
    bt.join()
    if "err" in box: raise box["err"]
    exe = box["exe"]
    ctx.log("TLC done: " + ", ".join("%s %d states %.0fs" % (k, r.distinct, r.wall) for k, r in results.items()))

    fails = Fails(); seen = set()
    stats = {"acc": 0, "rej": 0, "lookups": 0, "lookups_hit": 0, "seq_parses": 0, "seq_transitions": set(),
             "query_lookups": 0, "query_lookups_hit": 0}
    taken_by = {}                       # (module, action) -> times taken over all runs of that module
    for label, r in results.items():
        check_tlc(ctx, r, label)
        for act, (taken, gen) in r.coverage.items():
            k = (label.split("/")[0], act); taken_by[k] = taken_by.get(k, 0) + taken
    for k, v in taken_by.items():
        if k[0].startswith("GenHttpStart") and k[1] == "Next": continue   # no transitions there: Init is the corpus
        if k[1] == "Emit": continue                                        # the state constraint, not an action
        if v == 0: raise common.Infra("action %s of %s never taken" % (k[1], k[0]))

    # ---- start lines
    start_cases = []
    seq_cases = []; qry_cases = []
    for label, r in results.items():
        if label.startswith("GenHttpStart"):
            cs = list(iter_cases(r.out)); check_count(len(cs), r, label); start_cases += cs
        elif label.startswith("GenHttpSeq") or label.startswith("GenHttpQuery"):
            cs = list(iter_cases(r.out)); check_count(len(cs) + 1, r, label)    # the empty initial state prints nothing
            if label.startswith("GenHttpSeq"): seq_cases += cs
            else: qry_cases += cs
    forms = {c["form"] for c in start_cases}
    if forms != {"origin", "absolute", "authority", "asterisk", "status"}:
        raise common.Infra("vacuous corpus: start-line forms=%s" % forms)
    start_lines(ctx, exe, start_cases, fails, seen)
    ctx.log("start lines compared: %d" % len(start_cases))

    # ---- the same result structure used for request after request; query access
    sequences(ctx, exe, seq_cases, fails, seen, stats)
    want = {(a, b) for a in ("absolute", "absolute+query", "authority") for b in ("origin", "origin+query", "asterisk")}
    if not want <= stats["seq_transitions"] and not CUT[0]:
        raise common.Infra("vacuous corpus: request sequences lack the transitions %s" % sorted(want - stats["seq_transitions"]))
    queries(ctx, exe, qry_cases, fails, seen, stats)
    if (not stats["query_lookups_hit"] or stats["query_lookups_hit"] == stats["query_lookups"]) and not CUT[0]:
        raise common.Infra("vacuous corpus: query lookups %s" % stats)
    ctx.log("request sequences compared: %d (%d parses into a used structure), query lookups: %d"
            % (len(seq_cases), stats["seq_parses"], stats["query_lookups"]))

    # ---- header blocks (streamed in chunks)
    eds = {}; nhdr = 0; samples_h = []
    for label, r in results.items():
        if not label.startswith("GenHttpHdr"): continue
        n = 0
        for chunk in chunks(iter_cases(r.out), 20000):
            for c in chunk: eds[c["ed"]] = eds.get(c["ed"], 0) + 1
            header_blocks(ctx, exe, chunk, fails, seen, stats, base=n)
            if not samples_h: samples_h = [chunk[len(chunk) // 5], chunk[-1]]
            n += len(chunk)
        check_count(n, r, label); nhdr += n
        r.out = ""                      # release the text
    if set(eds) != {"none", "ctl", "sp", "ins"}:
        raise common.Infra("vacuous corpus: edit kinds=%s" % eds)
    ctx.log("header blocks compared: %d cases" % nhdr)
    missing = [p for p in PATTERNS if not stats.get(p)]
    if (missing or not stats["acc"] or not stats["rej"] or not stats["lookups_hit"]) and not CUT[0]:
        raise common.Infra("vacuous corpus: patterns never generated %s, stats %s" % (missing, stats))
    fails.flush(ctx)

    ctx.add(distinct_nontrivial=len(seen),
            start_line_cases=len(start_cases), header_block_cases=nhdr,
            header_blocks_well_formed=eds["none"], single_edit_cases=nhdr - eds["none"],
            single_edits_by_kind={k: v for k, v in eds.items() if k != "none"},
            verdicts_expected_accept=stats["acc"], verdicts_expected_reject=stats["rej"],
            pattern_occurrences={p: stats.get(p, 0) for p in PATTERNS},
            lookups_compared=stats["lookups"], lookups_with_match=stats["lookups_hit"],
            request_sequences_into_one_result_struct=len(seq_cases), parses_in_sequences=stats["seq_parses"],
            form_transitions_in_sequences=sorted("%s->%s" % t for t in stats["seq_transitions"]),
            query_lookups_compared=stats["query_lookups"], query_lookups_with_match=stats["query_lookups_hit"])
    def sample(c):
        return {"text": c["text"], "expect": c.get("expect", {"reject_GET": c.get("rejGet"), "look": c.get("look")})}
    ctx.add(samples=[sample(start_cases[len(start_cases) // 3]), sample(start_cases[-1])] + [sample(c) for c in samples_h])
    ctx.cov["rule"] = ("cases are the reachable states of the generator specs: start lines from the RFC 7230/3986 grammar "
                       "sets of GenHttpStart(T); all header blocks of <= 3 fields over the field alphabet in every order; "
                       "all single smuggling edits of accepted blocks; GenHttpSeq: all sequences of <= 3 requests over a pool "
                       "of target forms whose neighbours differ in the optional components, parsed into ONE result structure; "
                       "GenHttpQuery: all queries of <= MaxPairs name=value pairs x every lookup name. Every result structure / "
                       "result variable is poisoned (pointers to an inaccessible page, huge sizes) before each call and every "
                       "field is compared. Every case is non-trivial (a well-formed line or a "
                       "block rendered behind a request line); distinct = distinct driver inputs (operation, bytes, queries)")
    ctx.assumptions += [
        "TLA+ modules specs/http/HttpMsg.tla and HttpSec.tla are the oracle (RFC 7230 3.1/3.2/5.3, RFC 3986 3, and the "
        "library's documented slash trimming / first-line skipping)",
        "control bytes = C0 controls except HT and the CR LF line break, and DEL; bytes >= 0x80 (obs-text) are not generated",
        "SP-colon inside a field VALUE and HT before a colon are not generated (the statement does not decide them)",
        "only accept/reject of http_req_sec_chk is compared, not the rule number",
        "memory accesses are observed with guard pages on both ends of exact-size inputs plus ASan/UBSan",
        "query access: only what the comment of http_query_val_get_ex documents ([&]name=value[&], first pair with exactly "
        "that name); items without '=', names differing only in case and http_query_val_del are not generated",
        "not covered: http_hdr_val_remove, http_query_val_del, chunked decoding, url decoding (not in the statement)"]
