"""X03 (growth) - the asynchronous DNS resolver src/proto/dns_resolv.c: cache entry life cycle, chained tasks,
retransmission / next server, timeout versus answer, cancel, destroy.

Oracle: specs/grow/DnsResolv.tla - a state machine shaped like the implementation (one operator per function of
dns_resolv.c, one atomic step per API call / datagram arrival / timer expiry); its "Properties" block states what a
user relies on (P1..P7).  TLC decides everything:
  * MC_DnsResolv      exhaustive exploration with an adversarial network / servers / user / clock: the repaired model
                      (fx = AllFix) satisfies every invariant and the liveness property; for each of the seven places
                      where the shipped code does not have the property the variant fx = AllFix minus {f} is explored
                      too and TLC must find the violated property (the properties are not vacuous).
  * Trace_DnsResolv   binding: harness/x03_drv.c runs the REAL resolver on the REAL thread pool (one worker) against
                      scripted fake servers on UDP loopback in the same process (answer / drop / delay / duplicate /
                      reorder / wrong id / foreign source / truncated / SERVFAIL / NXDOMAIN+SOA / CNAME / answer after
                      timeout / answer for a re-used id), observes sendto / recvfrom / time through link-time wrappers,
                      the timer expiries through the pool's guarded hook and the user callbacks, and logs ndjson.
                      TLC validates ORDER and COUNT of transmissions and callbacks, return values and cache dumps line
                      by line; all variants of the model run side by side and each scenario is explained by the
                      variants that accept it.  A variant that needs a missing repair to explain the real history is a
                      finding (keyed by WHAT fails); a history no variant explains is a conformance violation.
Python only renders scenarios, shuttles files and reads TLC's verdicts."""
import json, os, re, random, collections, time
from concurrent.futures import ThreadPoolExecutor
from rig import common

DRV = os.path.join(common.VERIF, "harness", "x03_drv.c")
SPEC_DIR = os.path.join(common.VERIF, "specs", "grow")
ALLFIX = ["negdata", "queuedrx", "destroychain", "cancelfree", "errcb", "qcheck", "sendfail"]
KEYS = {
    "negdata": "dns_rslvr_cache_entry_data_add:negative-update-keeps-old-addresses-or-alias",
    "queuedrx": "dns_resolver_recv_cb:reply-with-id-of-queued-task-null-cache-entry",
    "destroychain": "dns_resolver_destroy:queued-tasks-freed-then-notified-use-after-free",
    "cancelfree": "dns_resolv_cancel:queued-task-never-freed",
    "errcb": "dns_resolv_hostaddr_int:error-on-recv_cb-path-drops-lookup-without-callback",
    "qcheck": "dns_resolver_recv_cb:question-not-checked-late-reply-completes-other-lookup",
    "sendfail": "dns_resolv_hostaddr_int:send-failure-leaves-entry-updating-forever",
}
WHAT = {
    "negdata": "a negative update (timeout / NXDOMAIN / no data) of a cache entry keeps the expired addresses or the alias: "
               "they are served again as a valid answer, or the alias bytes are read as an address array (heap over-read)",
    "queuedrx": "a datagram whose id is the slot of a task that is only chained on another task's entry is processed: "
                "task->cache_entry is NULL",
    "destroychain": "dns_resolver_destroy frees every task and then frees the cache entries, which re-drive their chained "
                    "(already freed) tasks",
    "cancelfree": "a cancelled task that is re-driven (chained task at notification, owner at an alias restart) returns "
                  "EINVAL before it is freed: slot, timer and memory stay allocated until destroy",
    "errcb": "an error of dns_resolv_hostaddr_int on the path from dns_resolver_recv_cb (alias loop) frees the task "
             "without calling the user back: the lookup is never answered",
    "qcheck": "the question section of a reply is never compared with the task's question: a late reply to an earlier "
              "query whose id was re-used completes (and negatively caches) another lookup",
    "sendfail": "when the first transmission fails the error is reported but the cache entry stays 'updating' with no "
                "task: every later lookup of the name is chained on it forever",
}

# ------------------------------------------------------------------------------------------------ scenarios
# (name, text).  d* = witnesses of the seven deviations; b* = everything else.  Waits are bounded; a missed wait only
# changes which history is recorded - TLC validates whatever happened.
def _s(name, text): return (name, "\n".join(l.strip() for l in text.strip().splitlines()) + "\nend\n")
SCENARIOS = [
 _s("b01-answer-hit-expiry-refresh", """
    cfg nsrv=1 retry=1 timeout=400 neg=4
    resolve 1 a
    expect_q 0
    reply 0 rr=a:A:1:30
    wait_cb 1
    resolve 2 a
    dump
    tick 29
    resolve 3 a
    tick 2
    resolve 4 a
    expect_q 0
    reply 0 rr=a:A:1:30
    wait_cb 4
    dump
    destroy"""),
 _s("b02-all-timeouts-two-servers-negative-cache", """
    cfg nsrv=2 retry=1 timeout=60 neg=4
    resolve 1 a
    wait_cb 1 4000
    resolve 2 a
    dump
    tick 5
    resolve 3 a
    wait_cb 3 4000
    dump
    destroy"""),
 _s("b03-servfail-next-server", """
    cfg nsrv=2 retry=1 timeout=400 neg=4
    resolve 1 a
    expect_q 0
    reply 0 rcode=2
    expect_q 1
    reply 1 rr=A:A:7:10
    wait_cb 1
    resolve 2 a
    dump"""),
 _s("b04-servfail-everywhere", """
    cfg nsrv=2 retry=0 timeout=400 neg=4
    resolve 1 a
    expect_q 0
    reply 0 rcode=2
    expect_q 1
    reply 1 rcode=5
    wait_cb 1
    resolve 2 a
    dump"""),
 _s("b05-nxdomain-soa-minimum", """
    cfg nsrv=1 retry=0 timeout=400 neg=10
    resolve 1 a
    expect_q 0
    reply 0 rcode=3 soa=6:3
    wait_cb 1
    tick 3
    resolve 2 a
    tick 1
    resolve 3 a
    expect_q 0
    reply 0 rcode=3
    wait_cb 3
    tick 10
    resolve 4 a
    tick 1
    resolve 5 a
    expect_q 0
    reply 0 rr=a:A:1:4
    wait_cb 5
    dump"""),
 _s("b06-answer-after-timeout-to-first-query-then-duplicate", """
    cfg nsrv=1 retry=1 timeout=150 neg=4
    resolve 1 a
    expect_q 0
    wait_timer 1
    expect_q 0
    reply 0 q=0 rr=a:A:1:4
    wait_cb 1
    reply 0 q=1 rr=a:A:2:4
    reply 0 q=0 rr=a:A:1:4
    dump"""),
 _s("b07-late-answer-from-previous-server-ignored", """
    cfg nsrv=2 retry=0 timeout=200 neg=4
    resolve 1 a
    expect_q 0
    wait_timer 1
    expect_q 1
    reply 0 rr=a:A:1:4
    reply 1 rr=a:A:2:4
    wait_cb 1
    dump"""),
 _s("b08-wrong-id-truncated-foreign-source", """
    cfg nsrv=1 retry=0 timeout=600 neg=4
    resolve 1 a
    expect_q 0
    reply 0 id=9 rr=a:A:1:4
    reply 0 id=0 rr=a:A:1:4
    reply 0 id=300 rr=a:A:1:4
    reply 0 trunc=5
    reply 0 trunc=20 rr=a:A:1:4
    reply 0 trunc=40 rr=a:A:1:4
    reply 0 from=1 rr=a:A:3:4
    dump
    reply 0 rr=a:A:1:4
    wait_cb 1
    dump"""),
 _s("b10-three-lookups-chained-on-one-entry", """
    cfg nsrv=1 retry=0 timeout=400 neg=4
    resolve 1 a
    resolve 2 a
    resolve 3 a
    dump
    expect_q 0
    reply 0 rr=a:A:1:4,a:A:2:4
    wait_cb 1
    dump
    destroy"""),
 _s("b11-chained-lookups-negative-by-timeout", """
    cfg nsrv=1 retry=1 timeout=60 neg=4
    resolve 1 a
    resolve 2 a
    resolve 3 b
    resolve 4 a
    wait_cb 1 3000
    wait_cb 3 3000
    dump"""),
 _s("b12-two-names-replies-reordered", """
    cfg nsrv=1 retry=0 timeout=400 neg=4
    resolve 1 a
    resolve 2 b
    expect_q 0
    expect_q 0
    reply 0 q=1 rr=b:A:2:4
    reply 0 q=0 rr=a:A:1:4
    wait_cb 1
    resolve 3 b
    resolve 4 a
    dump"""),
 _s("b13-refresh-with-other-address-merge-and-purge", """
    cfg nsrv=1 retry=0 timeout=400 neg=4
    resolve 1 a
    expect_q 0
    reply 0 rr=a:A:1:4
    wait_cb 1
    tick 5
    resolve 2 a
    expect_q 0
    reply 0 rr=a:A:2:4
    wait_cb 2
    resolve 3 a
    expect_q 0 300
    reply 0 rr=a:A:2:9,a:A:3:9
    wait_cb 3 1000
    resolve 4 a
    tick 5
    resolve 5 a
    dump"""),
 _s("b14-alias-with-address-in-the-answer", """
    cfg nsrv=1 retry=0 timeout=400 neg=4
    resolve 1 a
    expect_q 0
    reply 0 rr=a:C:b:20,b:A:2:20
    wait_cb 1
    resolve 2 b
    resolve 3 a
    dump
    tick 21
    resolve 4 a
    expect_q 0
    reply 0 rr=a:A:5:20
    wait_cb 4
    resolve 5 a
    dump"""),
 _s("b15-alias-without-address-second-query", """
    cfg nsrv=2 retry=0 timeout=400 neg=4
    resolve 1 a
    expect_q 0
    reply 0 rr=a:C:b:20
    expect_q 0
    reply 0 rr=b:A:2:20
    wait_cb 1
    dump"""),
 _s("b15b-alias-arrives-while-lookups-are-chained", """
    cfg nsrv=1 retry=0 timeout=400 neg=4
    resolve 1 a
    resolve 2 a
    resolve 3 a
    expect_q 0
    reply 0 rr=a:C:b:20
    dump
    expect_q 0
    reply 0 rr=b:A:2:20
    wait_cb 1
    dump"""),
 _s("b16-cancel-owner-answer-arrives", """
    cfg nsrv=1 retry=0 timeout=400 neg=4
    resolve 1 a
    cancel 1
    expect_q 0
    reply 0 rr=a:A:1:4
    dump
    resolve 2 a
    dump"""),
 _s("b16b-cancel-owner-then-timeouts", """
    cfg nsrv=2 retry=0 timeout=60 neg=4
    resolve 1 a
    cancel 1
    wait_timer 2 3000
    sleep 30
    dump
    resolve 2 a"""),
 _s("b17-destroy-with-lookups-in-flight-on-different-names", """
    cfg nsrv=1 retry=0 timeout=400 neg=4
    resolve 1 a
    resolve 2 b
    expect_q 0
    expect_q 0
    destroy
    reply 0 q=0 rr=a:A:1:4 nowait
    sleep 50"""),
 _s("b19-empty-noerror-goes-to-next-server", """
    cfg nsrv=2 retry=0 timeout=400 neg=4
    resolve 1 a
    expect_q 0
    reply 0
    expect_q 1
    reply 1 rr=b:A:2:4
    wait_cb 1
    resolve 2 a
    dump"""),
 _s("b21-alias-points-to-itself", """
    cfg nsrv=1 retry=0 timeout=400 neg=4
    resolve 1 a
    expect_q 0
    reply 0 rr=a:C:a:4
    wait_cb 1
    resolve 2 a
    dump"""),
 _s("b22-ttl-clamped-to-minimum", """
    cfg nsrv=1 retry=0 timeout=400 neg=4
    resolve 1 a
    expect_q 0
    reply 0 rr=a:A:1:1,a:A:2:0
    wait_cb 1
    tick 4
    resolve 2 a
    tick 1
    resolve 3 a
    expect_q 0
    reply 0 rr=a:A:1:700000
    wait_cb 3
    tick 604800
    resolve 4 a
    tick 1
    resolve 5 a
    dump"""),
 _s("b23-expired-entry-refreshed-with-chain", """
    cfg nsrv=1 retry=0 timeout=400 neg=4
    resolve 1 a
    expect_q 0
    reply 0 rr=a:A:1:4
    wait_cb 1
    tick 5
    resolve 2 a
    resolve 3 a
    expect_q 0
    reply 0 rr=a:A:1:4
    wait_cb 2
    dump"""),
 _s("b24-retransmission-fails-next-server-used", """
    cfg nsrv=2 retry=1 timeout=250 neg=4
    resolve 1 a
    expect_q 0
    sendfail 1
    wait_timer 1
    expect_q 1
    reply 1 rr=a:A:1:4
    wait_cb 1
    dump"""),
 _s("b25-every-retransmission-fails", """
    cfg nsrv=2 retry=1 timeout=250 neg=4
    resolve 1 a
    expect_q 0
    sendfail 5
    wait_cb 1 3000
    sendfail 0
    resolve 2 a
    dump"""),
 _s("b26-id-slots-advance-and-are-reused", """
    cfg nsrv=1 retry=0 timeout=400 neg=4
    resolve 1 a
    resolve 2 b
    resolve 3 c
    expect_q 0
    expect_q 0
    expect_q 0
    reply 0 q=0 rr=a:A:1:4
    resolve 4 d
    expect_q 0
    reply 0 q=2 rr=c:A:3:4
    reply 0 q=1 rr=b:A:2:4
    reply 0 q=3 rr=d:A:4:4
    wait_cb 4
    tick 5
    resolve 5 a
    resolve 6 b
    dump"""),
 # ---- witnesses of the deviations
 _s("d1a-negative-refresh-serves-expired-address", """
    cfg nsrv=1 retry=0 timeout=400 neg=4
    resolve 1 a
    expect_q 0
    reply 0 rr=a:A:1:4
    wait_cb 1
    tick 5
    resolve 2 a
    expect_q 0
    reply 0 rcode=3
    wait_cb 2
    resolve 3 a
    dump"""),
 _s("d1b-negative-refresh-of-alias-then-hit", """
    cfg nsrv=1 retry=0 timeout=400 neg=4
    resolve 1 a
    expect_q 0
    reply 0 rr=a:C:b:4,b:A:2:4
    wait_cb 1
    tick 5
    resolve 2 a
    expect_q 0
    reply 0 rcode=3
    wait_cb 2
    resolve 3 a
    dump"""),
 _s("d1c-negative-refresh-of-alias-then-addresses", """
    cfg nsrv=1 retry=0 timeout=60 neg=4
    resolve 1 a
    expect_q 0
    reply 0 rr=a:C:b:4,b:A:2:4
    wait_cb 1
    tick 5
    resolve 2 a
    wait_cb 2 2000
    tick 5
    resolve 3 a
    expect_q 0
    expect_q 0
    reply 0 rr=a:A:1:4
    wait_cb 3 1000
    dump"""),
 _s("d2-reply-carries-id-of-chained-task", """
    cfg nsrv=1 retry=0 timeout=400 neg=4
    resolve 1 a
    resolve 2 a
    expect_q 0
    reply 0 id=2 rr=a:A:1:4
    reply 0 rr=a:A:1:4
    wait_cb 2 1000
    dump"""),
 _s("d2b-nxdomain-with-id-of-chained-task", """
    cfg nsrv=1 retry=0 timeout=400 neg=4
    resolve 1 a
    resolve 2 a
    expect_q 0
    reply 0 id=2 rcode=3
    reply 0 rr=a:A:1:4
    wait_cb 1 1000
    dump"""),
 _s("d3-destroy-with-chained-lookups", """
    cfg nsrv=1 retry=0 timeout=400 neg=4
    resolve 1 a
    resolve 2 a
    resolve 3 a
    destroy"""),
 _s("d4-cancel-chained-lookup", """
    cfg nsrv=1 retry=0 timeout=400 neg=4
    resolve 1 a
    resolve 2 a
    cancel 2
    expect_q 0
    reply 0 rr=a:A:1:4
    wait_cb 1
    dump
    resolve 3 b
    expect_q 0
    reply 0 rr=b:A:2:4
    wait_cb 3
    dump
    destroy"""),
 _s("d4b-cancel-owner-before-alias-restart", """
    cfg nsrv=1 retry=0 timeout=400 neg=4
    resolve 1 a
    cancel 1
    expect_q 0
    reply 0 rr=a:C:b:4
    dump
    resolve 2 b
    expect_q 0
    reply 0 rr=b:A:2:4
    wait_cb 2
    dump"""),
 _s("d5-alias-loop-through-the-cache", """
    cfg nsrv=1 retry=0 timeout=400 neg=4
    resolve 1 a
    expect_q 0
    reply 0 rr=a:C:b:4,b:C:a:4
    dump
    wait_cb 1 300
    resolve 2 a
    dump"""),
 _s("d6-late-answer-for-reused-id", """
    cfg nsrv=1 retry=0 timeout=100 neg=4
    resolve 1 a
    expect_q 0
    wait_cb 1 2000
    resolve 2 b
    expect_q 0
    reply 0 q=0 rr=a:A:1:4
    reply 0 q=1 rr=b:A:2:4
    wait_cb 2 1000
    resolve 3 b
    dump"""),
 _s("d6b-late-nxdomain-for-reused-id", """
    cfg nsrv=1 retry=0 timeout=100 neg=4
    resolve 1 a
    expect_q 0
    wait_cb 1 2000
    resolve 2 b
    expect_q 0
    reply 0 q=0 rcode=3
    reply 0 q=1 rr=b:A:2:4
    wait_cb 2 1000
    dump"""),
 _s("d6c-answer-without-question-section", """
    cfg nsrv=1 retry=0 timeout=300 neg=4
    resolve 1 a
    expect_q 0
    reply 0 noq rr=a:A:4:4
    reply 0 rr=a:A:1:4
    wait_cb 1 1000
    dump"""),
 _s("d7-first-transmission-fails", """
    cfg nsrv=1 retry=0 timeout=100 neg=4
    sendfail 1
    resolve 1 a
    resolve 2 a
    wait_cb 2 400
    dump
    tick 5
    resolve 3 a
    expect_q 0 300
    reply 0 rr=a:A:1:4
    wait_cb 3 500
    dump"""),
]

# ------------------------------------------------------------------------------------------------ random scenarios
def random_scenario(rng, idx, maxlen=18):
    """a seeded random walk over the scenario commands; guards in the driver keep it a legal use of the API"""
    nsrv = rng.choice([1, 2, 2]); retry = rng.choice([0, 1]); tmo = rng.choice([40, 70])
    L = ["cfg nsrv=%d retry=%d timeout=%d neg=4" % (nsrv, retry, tmo)]
    nl = 1; names = "ab" if rng.random() < 0.7 else "abc"
    shapes = ["rr=Q:A:1:4", "rr=Q:A:1:4", "rr=Q:A:2:9,Q:A:3:9", "rcode=3", "rcode=2", "", "rr=O:A:5:4",
              "rr=Q:C:O:4", "rr=Q:C:O:4,O:A:6:4", "rr=Q:C:Q:4", "rcode=3 soa=5:2", "trunc=17", "rr=Q:A:1:4 from=%d" % nsrv]
    for _ in range(rng.randint(6, maxlen)):
        c = rng.random()
        if c < 0.30 and nl <= 10:
            L.append("resolve %d %s" % (nl, rng.choice(names))); nl += 1
        elif c < 0.62:
            s = rng.randrange(nsrv)
            L.append("expect_q %d 25" % s)
            sh = rng.choice(shapes)
            extra = ""
            r2 = rng.random()
            if r2 < 0.12: extra = " q=%d" % rng.randrange(3)
            elif r2 < 0.20: extra = " id=%d" % rng.randint(1, 4)
            L.append(("reply %d %s%s" % (s, sh, extra)).rstrip())
            if rng.random() < 0.15: L.append(("reply %d %s%s" % (s, sh, extra)).rstrip())     # duplicate
        elif c < 0.74:
            L.append("wait_timer_more 1 %d" % (tmo * 3))
        elif c < 0.84:
            L.append("tick %d" % rng.choice([1, 3, 5, 5]))
        elif c < 0.90 and nl > 1:
            L.append("cancel %d" % rng.randint(1, nl - 1))
        elif c < 0.95:
            L.append("dump")
        elif c < 0.975:
            L.append("sendfail 1")
        else:
            L.append("destroy"); break
    L.append("sleep %d" % (tmo * 2 * nsrv * (retry + 1) + 40))
    L.append("dump")
    if rng.random() < 0.5: L.append("destroy")
    return ("r%03d" % idx, "\n".join(L) + "\nend\n")

# ------------------------------------------------------------------------------------------------ rig
WRAPS = "sendto,recvfrom,time"
def build(d):
    return common.cc([DRV], os.path.join(d, "x03_drv"), compiler="clang", san="asan",
                     flags=["-fno-sanitize=nonnull-attribute", "-Wno-incompatible-pointer-types", "-Wno-macro-redefined",
                            "-Wl," + ",".join("--wrap=" + w for w in WRAPS.split(","))])

def run_scenario(exe, d, name, text):
    sc = os.path.join(d, name + ".txt"); tr = os.path.join(d, name + ".ndjson")
    open(sc, "w").write(text)
    if os.path.exists(tr): os.remove(tr)
    env = {"ASAN_OPTIONS": "detect_leaks=0:abort_on_error=0:detect_stack_use_after_return=0",
           "UBSAN_OPTIONS": "print_stacktrace=1:halt_on_error=1"}
    rc, out = common.sh([exe, sc, tr], timeout=150, env=env)
    evs = []
    if os.path.exists(tr):
        for ln in open(tr):
            try: evs.append(json.loads(ln))
            except Exception: pass
    if rc == 3 or not evs or evs[0].get("e") != "create":
        raise common.Infra("driver could not set the scenario up (%s rc=%s):\n%s" % (name, rc, out[-1500:]))
    if rc == 124: evs.append({"e": "hang"})
    return {"name": name, "text": text, "rc": rc, "out": out, "evs": evs}

def normalise(evs):
    """drop the rig's own lines, close the scenario with an 'eos' line (pure filtering)"""
    body = [e for e in evs if e["e"] not in ("end",)]
    return body + [{"e": "eos"}]

def tlc_validate(runs, d, tag, family="core", timeout=900):
    """-> {scenario index (1-based): [verdict records]}"""
    path = os.path.join(d, "trace_%s.ndjson" % tag)
    with open(path, "w") as f:
        for r in runs:
            for e in normalise(r["evs"]): f.write(json.dumps(e) + "\n")
    cfg = "Trace_DnsResolv.cfg" if family == "core" else "Trace_DnsResolv_all.cfg"
    r = common.tlc("Trace_DnsResolv", cfg=cfg, workers=2 if family == "core" else 4, env={"TRACE": path}, timeout=timeout,
                   xmx="4g", xss="256m")
    if r.rc != 0:
        raise common.Infra("trace specification failed (rc=%s, %s):\n%s" % (r.rc, r.violation, r.out[-3000:]))
    by = collections.defaultdict(list)
    for v in common.tlc_printed_json(r.out):
        if isinstance(v, dict) and "verdict" in v: by[v["sc"]].append(v)
    return by, r

def explain(verdicts):
    """-> (status, repairs shown absent, accepted records).  status: 'ok' | 'undecided' | 'rejected'.
    A repair is shown absent when NO accepting variant has it (sound whatever family of variants was run);
    when only the totally unrepaired variant of the core family accepts, the full family is needed."""
    acc = [v for v in verdicts if v["verdict"] == "ACCEPT"]
    if not acc: return "rejected", set(), acc
    sets = [frozenset(v["fx"]) for v in acc]
    absent = set(ALLFIX)
    for s in sets: absent -= s
    if len(verdicts) < 2 ** len(ALLFIX) and sets == [frozenset()]: return "undecided", absent, acc
    return "ok", absent, acc

def crash_key(out):
    k = common.san_key(out)
    if k: return "%s:%s" % (k[0], k[1] or k[2])
    m = re.search(r"runtime error: ([a-z ]+)", out)
    return "crash:" + (m.group(1).strip().replace(" ", "-") if m else "unknown")

def mc_cfg(name, over, props=None):
    ws = common.tlc_workspace()
    cfg = open(os.path.join(SPEC_DIR, "MC_DnsResolv.cfg")).read()
    for k, v in over.items():
        cfg, n = re.subn(r"(?m)^  %s = .*$" % re.escape(k), "  %s = %s" % (k, v), cfg)
        if n != 1: raise common.Infra("MC_DnsResolv.cfg has no constant %s" % k)
    if props: cfg += "\nPROPERTIES %s\n" % props
    open(os.path.join(ws, name), "w").write(cfg)
    return name
def fixset(xs): return "{" + ", ".join('"%s"' % x for x in xs) + "}"

MC_QUICK = [
    ("net-1srv", {"MaxDup": 0, "MaxFail": 0}, None, 4),
    ("fail-dup-1srv", {"MaxForge": 0, "Shapes": '{"A", "NX", "FAIL", "NODATA", "CN", "CNA"}'}, None, 4),
    ("2srv-retry1", {"NSrv": 2, "Retry": 1, "MaxRep": 1, "MaxDup": 0, "MaxTick": 0, "MaxFail": 0, "MaxForge": 0}, None, 2),
    ("liveness", {"MaxRep": 1, "MaxDup": 0, "MaxForge": 0}, "Answered", 2),
]
MC_THOROUGH = [
    ("3lk-1srv", {"Lookups": "{1, 2, 3}", "MaxId": 3, "MaxDup": 0, "MaxFail": 0, "MaxForge": 0}, None, 4),
    ("3lk-1srv-dup", {"Lookups": "{1, 2, 3}", "MaxId": 3, "MaxFail": 0, "MaxForge": 0}, None, 4),
    ("3lk-1srv-fail-forge", {"Lookups": "{1, 2, 3}", "MaxId": 3, "MaxDup": 0, "MaxTick": 0}, None, 4),
    ("3lk-2srv", {"Lookups": "{1, 2, 3}", "MaxId": 3, "NSrv": 2, "MaxRep": 1, "MaxFail": 0, "MaxForge": 0}, None, 4),
    ("2lk-full", {}, None, 4),
    ("2lk-2srv-retry1-tick", {"NSrv": 2, "Retry": 1, "MaxDup": 0, "MaxFail": 0, "MaxForge": 0}, None, 4),
    ("2lk-2srv-retry1-dup-fail", {"NSrv": 2, "Retry": 1, "MaxTick": 0, "MaxForge": 0}, None, 4),
    ("liveness-2srv", {"NSrv": 2, "Retry": 1, "MaxRep": 1, "MaxDup": 0, "MaxForge": 0, "MaxFail": 0}, "Answered", 2),
]
NEG_BASE = {"Lookups": "{1, 2, 3}", "MaxId": 3}

class _Rec:
    """stand-in for ctx inside the model-checking thread: records, replayed on the main thread after the join"""
    def __init__(self, ctx): self.ctx = ctx; self.calls = []; self.quick = ctx.quick; self.cov = {}
    def log(self, *a): self.ctx.log(*a)
    def tlc_stats(self, r, label): self.calls.append(("tlc_stats", (r, label)))
    def fail(self, *a): self.calls.append(("fail", a))
    def replay(self):
        for m, a in self.calls: getattr(self.ctx, m)(*a)
        self.ctx.cov.update(self.cov)

def model_checking(ctx):
    """exhaustive part; returns nothing, records failures"""
    todo = list(MC_QUICK) + ([] if ctx.quick else list(MC_THOROUGH))
    for label, over, props, workers in todo:
        cfg = mc_cfg("_x03_mc_%s.cfg" % label, over, props)
        r = common.tlc("MC_DnsResolv", cfg=cfg, workers=workers, timeout=1500, xmx="8g", xss="256m")
        ctx.tlc_stats(r, "MC_DnsResolv/" + label)
        ctx.log("model %s: rc=%s distinct=%d depth=%d wall=%.0fs %s" % (label, r.rc, r.distinct, r.depth, r.wall, r.violation or ""))
        if r.rc != 0:
            ctx.fail("model:%s:%s" % (label, (r.violation or "error").replace(" ", "-")),
                     "the repaired model violates a stated property:\n" + r.out[-3500:], {"cfg": over})
    # vacuity: one behaviour of the model takes every action (ghost set, "invariant" NotAllTaken must be violated)
    r = common.tlc("MC_DnsResolvCov", workers=2, timeout=900, xmx="4g", xss="256m")
    ctx.tlc_stats(r, "MC_DnsResolvCov/every-action-taken")
    if r.rc != 12 or "NotAllTaken" not in (r.violation or ""):
        raise common.Infra("vacuity probe: some action of MC_DnsResolv is never taken (rc=%s %s)" % (r.rc, r.violation))
    # every repair is needed: without it TLC must find a violated property
    def neg(f):
        over = dict(NEG_BASE); over["Fix"] = fixset([x for x in ALLFIX if x != f])
        cfg = mc_cfg("_x03_neg_%s.cfg" % f, over)
        return f, common.tlc("MC_DnsResolv", cfg=cfg, workers=1, timeout=900, xmx="3g", xss="256m")
    with ThreadPoolExecutor(max_workers=4) as ex:
        for f, r in ex.map(neg, ALLFIX):
            ctx.tlc_stats(r, "MC_DnsResolv/without-" + f)
            viol = re.findall(r"viol \|-> (\{[^}]*\})", r.out)
            ctx.log("model without %-12s: %s %s (%d states)" % (f, r.violation, viol[-1] if viol else "", r.distinct))
            ctx.cov.setdefault("property_violated_without_repair", {})[f] = r.violation
            if r.rc != 12:
                ctx.fail("model:vacuous:" + f, "the model variant without repair '%s' violates no stated property: "
                         "the deviation would not be a defect under the properties (rc=%s)" % (f, r.rc), {"fix": f})

def report(ctx, runs, by, d, phase2):
    """turn the verdicts into findings"""
    seen_absent = {}; seen_present = {}      # repair -> witness run / runs
    undecided = []
    for k, run in enumerate(runs, 1):
        st, absent, acc = explain(by.get(k, []))
        run["status"] = st
        if st == "undecided" and not phase2:
            undecided.append(run); continue
        miss = [e for e in run["evs"] if e["e"] == "script.miss"]
        if miss: ctx.add(scenario_waits_missed=len(miss))
        if st in ("ok", "undecided"):
            ctx.add(traces_validated_against_impl=1, trace_events_validated=len(run["evs"]))
            for f in absent: seen_absent.setdefault(f, run)
            if absent: ctx.cov.setdefault("deviations_by_scenario", {})[run["name"]] = sorted(absent)
            if miss: ctx.cov.setdefault("waits_missed_by_scenario", {})[run["name"]] = [m.get("what") for m in miss]
            if st == "undecided":
                ctx.notes.append("%s: several repairs missing at once, minimal explanation not unique" % run["name"])
            # a repair looks PRESENT when every accepting variant has it.  With the core family this is only a hint
            # (the tree's own variant may not be in the family); run() re-validates with the full family before
            # it calls two scenarios inconsistent.
            sets = [frozenset(v["fx"]) for v in acc]
            for f in ALLFIX:
                if all(f in x for x in sets):
                    seen_present.setdefault(f, []).append(run)
                    ctx.cov.setdefault("repairs_present_by_scenario", {}).setdefault(f, []).append(run["name"])
            continue
        # rejected by every variant
        rej = [v for v in by.get(k, []) if set(v["fx"]) == set(ALLFIX)] or by.get(k, [])
        v = rej[0] if rej else {"line": 0, "why": "no verdict"}
        evs = normalise(run["evs"])
        why = v["why"]
        last = run["evs"][-1]["e"] if run["evs"] else ""
        if last == "crash" and "crash" in why:
            key = "resolver:" + crash_key(run["out"])
        elif last == "hang":
            key = "resolver:hang"
        else:
            key = "conformance:" + re.sub(r"[^a-z_]+", "-", why.split(";")[0].split(":")[0].lower()).strip("-")[:70]
        # line numbers are global in the concatenated file: recover the local context
        off = sum(len(normalise(r2["evs"])) for r2 in runs[:k - 1])
        loc = max(0, v["line"] - off - 1)
        detail = ("scenario %s: the real resolver's history is explained by no variant of the model.\n"
                  "fully repaired variant: line %d: %s\ncontext:\n%s\n--- driver output:\n%s"
                  % (run["name"], loc + 1, why, "\n".join(json.dumps(e) for e in evs[max(0, loc - 8):loc + 1]), run["out"][-1200:]))
        rejected = ctx.cov.setdefault("_rejected", {})
        if key in rejected:
            rejected[key]["more"].append(run["name"])
        else:
            rejected[key] = {"detail": detail, "replay": {"scenario": run["name"], "text": run["text"]}, "more": []}
    return undecided, seen_absent, seen_present

def report_deviations(ctx, seen_absent, seen_present):
    for f, run in sorted(seen_absent.items()):
        if f in seen_present:
            ctx.fail("conformance:inconsistent:" + f, "repair %s is shown both present and absent by different scenarios" % f,
                     {"scenario": run["name"], "text": run["text"]})
            continue
        tail = [json.dumps(e) for e in run["evs"][-12:]]
        ctx.fail(KEYS[f], "%s.\nWitness scenario %s: only variants of the model WITHOUT the repair '%s' explain the recorded "
                 "history (TLC, Trace_DnsResolv); the repaired model rejects it.\n%s\n%s"
                 % (WHAT[f], run["name"], f, "\n".join(tail), run["out"][-800:] if run["rc"] not in (0,) else ""),
                 {"scenario": run["name"], "text": run["text"], "repair": f})

def run(ctx):
    ctx.level = "model_checking"
    ctx.cov["rule"] = ("exhaustive TLC exploration of the implementation-shaped model (all invariants + liveness on the repaired "
                       "variant, a violated property for each unrepaired variant) and TLC trace validation of the real "
                       "resolver+thread pool against all variants")
    ctx.assumptions += [
        "the resolver is used from the one thread of a one-thread pool (the code has no locking of its task table: 'XXX Lock')",
        "DNS_MAX_NAME_CYCLES is 3 in the exhaustive runs, 64 in trace validation; message ids do not wrap (65535 slots in the code)",
        "fake time(): the cache clock is a scenario input; query timers run on the real timerfd (40..600 ms), never compared",
    ]
    d = common.scratch("lcbv-x03-")
    exe = build(d)
    rng = random.Random(ctx.seed * 7919 + 3)
    scen = list(SCENARIOS)
    nrand = 12 if ctx.quick else 400
    scen += [random_scenario(rng, i, 18 if ctx.quick or i % 3 else 30) for i in range(nrand)]
    t0 = time.time()
    with ThreadPoolExecutor(max_workers=5) as ex:
        rec = _Rec(ctx)
        fut_mc = ex.submit(model_checking, rec)
        runs = list(ex.map(lambda s: run_scenario(exe, d, s[0], s[1]), scen))
        ctx.log("driver: %d scenarios executed in %.0fs" % (len(runs), time.time() - t0))
        by, r1 = tlc_validate(runs, d, "core", "core")
        ctx.tlc_stats(r1, "Trace_DnsResolv/core-variants")
        undecided, absent, present = report(ctx, runs, by, d, phase2=False)
        sound_present = set()
        if undecided:
            by2, r2 = tlc_validate(undecided, d, "all", "all")
            ctx.tlc_stats(r2, "Trace_DnsResolv/all-variants")
            _, absent2, present2 = report(ctx, undecided, by2, d, phase2=True)
            for f, rn in absent2.items(): absent.setdefault(f, rn)
            sound_present |= set(present2)
        # a repair shown absent by one scenario and apparently present in another: decide with the full family
        conflict = [f for f in absent if f in present]
        if conflict:
            again = []
            for f in conflict:
                for rn in present[f][:6]:
                    if rn not in again: again.append(rn)
            by3, r3 = tlc_validate(again, d, "recheck", "all")
            ctx.tlc_stats(r3, "Trace_DnsResolv/all-variants-recheck")
            for k, rn in enumerate(again, 1):
                sets = [frozenset(v["fx"]) for v in by3.get(k, []) if v["verdict"] == "ACCEPT"]
                for f in conflict:
                    if sets and all(f in x for x in sets): sound_present.add(f)
        ctx.cov.pop("repairs_present_by_scenario", None)
        report_deviations(ctx, absent, sound_present)
        for key, rj in sorted(ctx.cov.pop("_rejected", {}).items()):
            ctx.fail(key, rj["detail"] + ("\n(also: %s)" % ", ".join(rj["more"][:20]) if rj["more"] else ""), rj["replay"])
        fut_mc.result()
        rec.replay()
    kinds = collections.Counter(e["e"] for r in runs for e in r["evs"])
    ctx.cov["trace_event_kinds"] = dict(kinds)
    for need in ("tx", "rx", "timer", "cb", "resolve", "cancel", "tick", "dump", "destroy", "sendfail"):
        if kinds.get(need, 0) == 0: raise common.Infra("no '%s' event in any trace: the binding is vacuous" % need)
    ctx.cov["scenarios"] = len(runs)
    ctx.cov["scenario_status"] = dict(collections.Counter(r.get("status", "?") for r in runs))
    ctx.cov["repairs_shown_absent"] = sorted(absent); ctx.cov["repairs_shown_present"] = sorted(set(present) - set(absent) | sound_present)
    ctx.add(evaluations=len(runs), distinct_nontrivial=len(runs),
            samples=[r["name"] for r in runs[:12]])
    ctx.log("repairs shown absent (findings): %s; shown present: %s" % (sorted(absent), ctx.cov["repairs_shown_present"]))
