"""C19 - ring-buffer readers see the written stream in order or are told what they lost (mode A).

Oracle: specs/seq/RingBuf.tla (line-by-line transcription of src/utils/ring_buffer.c over the real fields + ghosts
written/mem/next/told; the property is the invariant  viol = {}).  TLC decides everything:
  * MC_RingBuf      exhaustive exploration of histories (ring wrap + round-counter wrap inside the bound);
  * binding (i)     behaviours OUT of TLC (simulation, thorough: every edge of the state graph) are replayed call by
                    call on a real r_buf_t (harness/ringbuf_drv.c, ASan); returned values, iovecs, the bytes read through
                    the returned regions and the projected state are compared after every call;
  * binding (ii)    long seeded random histories executed by the driver on the real ring (real round_num preset to
                    SIZE_MAX-2, so the real counter wraps) are validated line by line by TLC (Trace_RingBuf), which
                    also evaluates the property on them.
Python only renders calls, shuttles files and compares JSON values.

The spec has a switch Fix (names of the repairs in /verif/proposed_fixes/C19-*.diff).  Which variant the tree under
test follows is decided by TLC on four witness histories (one per repair); everything else then uses that variant,
so the same check binds the unchanged and a patched tree."""
import json, os, re, random
from rig import common

SPEC_DIR = os.path.join(common.VERIF, "specs", "seq")
DRV = os.path.join(common.VERIF, "harness", "ringbuf_drv.c")
TRACE_MOD = 65536

# violation class of the spec -> finding key (WHAT fails)
KEYS = {
    "avail:null-base": "r_buf_data_avail_size:fresh-ring-null-iov-base",
    "order:prev-round-reader-overwritten": "r_buf_rpos_check:prev-round-reader-accepted-after-overwrite",
    "drop:silent-resync:round-compares-ahead": "r_buf_rpos_check:round-counter-wrap-silent-resync",
    "order:two-part-gather-skips-entries": "r_buf_data_get:two-part-gather-skips-blocks",
}
def key_of(cls):
    return KEYS.get(cls, "ring-property:" + cls)

FIXES = ["alloc-base", "stale-check", "round-lag", "gather"]
# one witness history per repair (scenario inputs only; taken from TLC counterexamples). ring 6 / min block 1 / 1 reader
WITNESS = {
    "alloc-base": ["init 0 0", "avail 0"],
    "stale-check": ["get 1", "set 0 2", "get 1", "set2 0 2 0", "get 3", "set 1 3", "dget 0 10000 1", "avail 0"],
    "round-lag": ["get 1", "set 0 3", "get 6", "init 0 0", "set 0 3", "dget 0 10000 64", "get 6", "set 0 3",
                  "get 6", "set 0 2", "dget 0 10000 64"],
    "gather": ["get 1", "set 0 1", "get 1", "set 0 1", "get 1", "set 0 3", "init 0 100", "dget 0 10000 64",
               "inc 0 1", "get 3", "set 0 1", "dget 0 3 64"],
}

def tla_set(xs, quote=True):
    return "{" + ", ".join(('"%s"' % x) if quote else str(x) for x in sorted(xs)) + "}"

def write_cfg(name, base, over):
    """copy specs/seq/<base> into the TLC workspace as <name> with CONSTANT lines replaced"""
    ws = common.tlc_workspace()
    cfg = open(os.path.join(SPEC_DIR, base)).read()
    for k, v in over.items():
        cfg, n = re.subn(r"(?m)^  %s = .*$" % re.escape(k), "  %s = %s" % (k, v), cfg)
        if n != 1: raise common.Infra("cfg %s has no constant %s" % (base, k))
    open(os.path.join(ws, name), "w").write(cfg)
    return name

class Rig:
    def __init__(self, ctx):
        self.ctx = ctx
        self.dir = common.scratch("lcbv-c19-")
        self.exe = common.cc([DRV, "src/utils/ring_buffer.c"], self.dir + "/ringbuf_drv", compiler="clang", san="asan", hooks=False)
        self.fix = set()
        self.confirmed = set()      # violation classes confirmed on the real code
        self.ntrace = 0
        self.env = {"ASAN_OPTIONS": "detect_leaks=0:abort_on_error=0:allocator_may_return_null=1",
                    "UBSAN_OPTIONS": "print_stacktrace=1:halt_on_error=1"}

    # ---- run the driver on command lines, return (event lines, crash key or None)
    def drive(self, lines, timeout=300):
        rc, out = common.sh([self.exe], stdin=("\n".join(lines) + "\n").encode(), timeout=timeout, env=self.env)
        evs = [l for l in out.splitlines() if l.startswith('{"op"') and '"randdone"' not in l]
        crash = None
        if rc != 0:
            crash = common.san_key(out) or (("timeout", "", "", "driver timeout") if rc == 124 else ("exit-%s" % rc, "", "", out[-400:]))
        return evs, crash, out

    # ---- TLC validates a recorded real history; returns dict(accepted, line, classes{cls: line}, mismatch, r)
    def validate(self, path, size, minb, nreaders, round0, fix=None, label="trace", timeout=1500):
        fix = self.fix if fix is None else fix
        cfg = write_cfg("_c19_trace.cfg", "Trace_RingBuf.cfg", {
            "Size": size, "MinBlock": minb, "Readers": tla_set(range(nreaders), False),
            "TR0": (TRACE_MOD + round0) % TRACE_MOD, "Fix": tla_set(fix)})
        r = common.tlc("Trace_RingBuf", cfg=cfg, workers=1, env={"TRACE": path}, extra=["-noGenerateSpecTE"], timeout=timeout)
        res = {"accepted": False, "classes": {}, "mismatch": None, "line": r.distinct, "r": r, "viol": r.violation}
        i = r.out.find('"TRACE-ACCEPTED"')
        if r.rc == 0 and i >= 0:
            tail = r.out[i:].split("Model checking completed")[0]
            res["accepted"] = True
            res["classes"] = {m.group(1): int(m.group(2)) for m in re.finditer(r'<<"([^"]+)",\s*(\d+)>>', tail)}
        elif r.rc == 12:
            ms = re.findall(r"mismatch = (\{[^}]*\})", r.out)
            res["mismatch"] = re.findall(r'"([^"]+)"', ms[-1]) if ms else []
            ls = re.findall(r"/\\ l = (\d+)", r.out)
            res["line"] = int(ls[-1]) - 1 if ls else r.distinct
        return res

    def report_trace(self, res, evs, cmds, what):
        """turn a validation result into findings; returns True when the history conformed"""
        ctx = self.ctx
        if res["accepted"]:
            for cls, line in res["classes"].items():
                self.confirmed.add(cls)
                ctx.fail(key_of(cls), "%s: the real ring produced a history on which the specification's property fails "
                         "(class %s) at call %d:\n%s" % (what, cls, line, "\n".join(e[:600] for e in evs[max(0, line - 6):line])),
                         {"what": what, "commands": cmds, "class": cls, "line": line})
            return True
        if res["mismatch"] is not None and res["mismatch"]:
            line = res["line"]
            for f in res["mismatch"]:
                ctx.fail("conformance:" + f, "%s: real ring_buffer.c differs from the specification (variant Fix=%s) in %s at call %d:\n%s"
                         % (what, sorted(self.fix), f, line, "\n".join(e[:700] for e in evs[max(0, line - 4):line])),
                         {"what": what, "commands": cmds, "line": line})
            return False
        if res["viol"] and "RoundsBound" in res["viol"]:
            raise common.Infra("trace longer than the modular round mapping allows")
        line = res["line"]
        ctx.fail("conformance:call-not-allowed-by-spec", "%s: TLC could not take call %d (precondition of the specification "
                 "false or TLC error):\n%s\n%s" % (what, line, "\n".join(e[:500] for e in evs[max(0, line - 3):line + 1]), res["r"].out[-1500:]),
                 {"what": what, "commands": cmds, "line": line})
        return False

    def run_and_validate(self, cmds, size, minb, nreaders, round0, what, fix=None, report=True):
        niov = size // minb + 3
        evs, crash, out = self.drive(["new %d %d %d %d %d" % (size, minb, nreaders, niov, round0)] + cmds)
        if crash:
            self.ctx.fail("ring:%s:%s" % (crash[0], died_in(crash, cmds[0] if cmds else "", out)), "%s: driver died: %s\n%s" % (what, crash[3], out[-2500:]),
                          {"what": what, "commands": cmds})
            return None, evs
        self.ntrace += 1
        path = os.path.join(self.dir, "t%d.ndjson" % self.ntrace)
        open(path, "w").write("\n".join(evs) + "\n")
        res = self.validate(path, size, minb, nreaders, round0, fix=fix, label=what)
        if report:
            self.report_trace(res, evs, cmds, what)
            self.ctx.add(traces_validated_against_impl=1, trace_events_validated=len(evs))
        return res, evs

OPFN = {"get": "r_buf_wbuf_get", "set": "r_buf_wbuf_set", "set2": "r_buf_wbuf_set2", "init": "r_buf_rpos_init", "avail": "r_buf_data_avail_size",
        "dget": "r_buf_data_get", "inc": "r_buf_rpos_inc", "new": "r_buf_alloc", "rand": "random-history"}
def died_in(c, cmd, out=""):
    """function part of the key of a dead driver: the sanitizer names it; a signal / the watchdog (FAULT sig=14 = the call did
    not return) does not, there the command the driver was executing does (the fault handler prints it as case=...)"""
    if c[1]: return c[1]
    m = re.search(r"FAULT sig=\d+ case=(\w+)", out or "")
    op = m.group(1) if m else (cmd.split()[0] if cmd else "")
    return OPFN.get(op, op)

# ---------------------------------------------------------------- stage 0: which variant of the spec is the tree?
def detect_variant(rig):
    ctx = rig.ctx
    allcmds = []
    for f in FIXES:
        allcmds += WITNESS[f] + ["new 6 1 1 9 -3"]
    allcmds.pop()
    res, evs = rig.run_and_validate(allcmds, 6, 1, 1, -3, "witness histories", fix=set(), report=False)
    if res is None: return
    if res["accepted"]:
        rig.fix = set()
        rig.report_trace(res, evs, allcmds, "witness histories")
        ctx.add(traces_validated_against_impl=1, trace_events_validated=len(evs))
        return
    # some spot differs from the original code: decide the repairs one after the other ("alloc-base" first: it
    # changes the initial table and therefore every history)
    fix = set()
    for f in FIXES:
        r0, e0 = rig.run_and_validate(WITNESS[f], 6, 1, 1, -3, "witness " + f, fix=fix, report=False)
        if r0 is None or r0["accepted"]:
            continue
        r1, e1 = rig.run_and_validate(WITNESS[f], 6, 1, 1, -3, "witness " + f, fix=fix | {f}, report=False)
        if r1 is not None and r1["accepted"]:
            fix.add(f)
        else:
            rig.fix = fix
            rig.report_trace(r0, e0, WITNESS[f], "witness " + f)
    rig.fix = fix
    ctx.log("tree follows the repaired variant for: %s" % sorted(fix))
    res, evs = rig.run_and_validate(allcmds, 6, 1, 1, -3, "witness histories")

# ---------------------------------------------------------------- stage 1: exhaustive exploration of the spec
def call_of(act):
    n, c = act["name"], act["context"]
    if n == "DoGet": return "get %d" % c["m"]
    if n == "DoSet": return "set %d %d" % (c["off"], c["bsz"])
    if n == "DoSet2": return "set2 %d %d %d" % (c["gap"], c["bsz"], c["who"])
    if n == "DoInit": return "init %d %d" % (c["r"], c["ds"])
    if n == "DoAvail": return "avail %d" % c["r"]
    if n == "DoDataGet": return "dget %d %d %d" % (c["r"], c["dsz"], c["cnt"])
    if n == "DoInc": return "inc %d %d" % (c["r"], c["n"])
    raise common.Infra("unknown action " + n)

def cfg_consts(base):
    txt = open(os.path.join(SPEC_DIR, base)).read()
    g = lambda k: re.search(r"(?m)^  %s = (.*)$" % k, txt).group(1).strip()
    return {"size": int(g("Size")), "minb": int(g("MinBlock")), "nr": len(g("Readers").strip("{}").split(",")), "mod": int(g("RoundMod"))}

ACTIONS = ("DoGet", "DoSet", "DoSet2", "DoInit", "DoAvail", "DoDataGet", "DoInc")
def model_check(rig, base, workers=4, timeout=1500):
    ctx = rig.ctx
    k = cfg_consts(base)
    for attempt in range(12):
        cfg = write_cfg("_c19_mc.cfg", base, {"Fix": tla_set(rig.fix), "Allow": tla_set(rig.confirmed)})
        ce = os.path.join(rig.dir, "ce.json")
        if os.path.exists(ce): os.remove(ce)
        r = common.tlc("MC_RingBuf", cfg=cfg, workers=workers, coverage=False, timeout=timeout,
                       extra=["-dumpTrace", "json", ce, "-noGenerateSpecTE"])
        if r.rc == 0:
            ctx.tlc_stats(r, "MC_RingBuf/%s Fix=%s Allow=%d classes" % (base, sorted(rig.fix), len(rig.confirmed)))
            return True
        if r.rc != 12 or not os.path.exists(ce) or "PropertyHolds" not in (r.violation or ""):
            raise common.Infra("MC_RingBuf/%s: unexpected TLC result %s\n%s" % (base, r.violation, r.out[-3000:]))
        acts = json.load(open(ce))["counterexample"]["action"]
        viol = acts[-1][2][1]["viol"]
        r0 = acts[0][0][1]["rb"]["rnd"]
        cmds = [call_of(a[1]) for a in acts]
        new = [c for c in viol if c not in rig.confirmed]
        ctx.log("TLC: property fails on the spec (%s) after %d calls; replaying on the real ring" % (new, len(cmds)))
        round0 = r0 - k["mod"] if r0 else 0
        before = set(rig.confirmed)
        res, evs = rig.run_and_validate(cmds, k["size"], k["minb"], k["nr"], round0, "TLC counterexample (%s)" % base)
        if res is None or not res["accepted"]:
            return False          # the spec does not describe this tree: reported as conformance failure
        if not (set(new) & rig.confirmed):
            raise common.Infra("counterexample class %s not reproduced by the trace model: %s" % (new, res["classes"]))
    raise common.Infra("more than 12 distinct violation classes")

def action_coverage(rig):
    """vacuity: per-action counts of a small exploration with TLC's -coverage (slow, so on a reduced bound)"""
    cfg = write_cfg("_c19_cov.cfg", "MC_RingBuf.cfg", {"MaxWritten": 3, "Fix": tla_set(rig.fix), "Allow": tla_set(KEYS.keys())})
    r = common.tlc("MC_RingBuf", cfg=cfg, workers=2, coverage=True, timeout=900)
    cov = {m.group(1): int(m.group(2)) for m in re.finditer(r"(?m)^<(Do\w+) line [^>]*>: (\d+):\d+", r.out)}
    rig.ctx.cov["distinct_states_found_per_action(MaxWritten=3)"] = cov
    idle = [a for a in ACTIONS if cov.get(a, 0) == 0]
    if idle: raise common.Infra("vacuous exploration: actions never taken: %s" % idle)

# ---------------------------------------------------------------- stage 2: behaviours out of TLC replayed on the real ring
def rp_model(p): return [p["idx"], p["off"], p["rnd"]]
def rp_real(x, r0, mod): return x if x[0] == -1 and x[1] == -1 else [x[0], x[1], (r0 + x[2]) % mod]

def compare_step(exp, act, r0, mod, nreaders):
    """names of the fields in which the real call differs from what TLC computed"""
    d = []
    e = exp["ev"]; op = e["op"]
    if act.get("op") != op: return ["op"]
    def chk(name, a, b):
        if a != b: d.append(name)
    if op == "get": chk("ret", e["ret"], act["ret"]); chk("buf", e["buf"], act["buf"])
    elif op == "set": chk("rc", e["rc"], act["rc"])
    elif op == "set2": chk("rc", e["rc"], act["rc"]); chk("buf", e["p"], act["p"])
    elif op == "init": chk("rc", 0, act["rc"])
    elif op == "avail":
        for f in ("ret", "drop", "full", "cf"): chk({"cf": "check_fast", "full": "full-read"}.get(f, f), e[f], act[f])
    elif op == "dget":
        chk("iovecs", [[x["b"], x["l"]] for x in e["regs"]], act["regs"])
        chk("drop", e["drop"], act["drop"]); chk("data_size_ret", e["dsr"], act["dsr"])
        chk("region-outside-ring", 0, act["oob"])
        if not act["oob"]: chk("bytes", list(e["bytes"]), act["bytes"])
    elif op == "inc": chk("trap", 1 if e["trap"] else 0, act["trap"])
    s, t = exp["st"], act["st"]
    for f in ("wpos", "idx", "imax", "frag", "full"):
        chk({"idx": "iov_index", "imax": "iov_index_max", "frag": "flags", "full": "flags"}.get(f, f), s[f], t[f])
    chk("round_num", s["rnd"], (r0 + t["rnd"]) % mod)
    chk("iov_index-beyond-table", 1, t["tabok"])
    chk("iov", [list(x) for x in s["iov"]], t["iov"])
    chk("ring-bytes", list(s["mem"]), t["mem"])
    chk("rpos", [rp_model(exp["rpos"][str(i)]) for i in range(nreaders)], [rp_real(x, r0, mod) for x in act["rpos"]])
    return sorted(set(d))

def cmd_of_ev(e):
    op = e["op"]
    if op == "get": return "get %d" % e["m"]
    if op == "set": return "set %d %d" % (e["off"], e["bsz"])
    if op == "set2": return "set2 %d %d %d" % (e["gap"], e["bsz"], e["who"])
    if op == "init": return "init %d %d" % (e["r"], e["ds"])
    if op == "avail": return "avail %d" % e["r"]
    if op == "dget": return "dget %d %d %d" % (e["r"], e["dsz"], e["cnt"])
    if op == "inc": return "inc %d %d" % (e["r"], e["n"])
    raise common.Infra("unknown op " + op)

def replay_behaviours(rig, base, nbeh, depth, label):
    ctx = rig.ctx
    k = cfg_consts(base)
    cfg = write_cfg("_c19_sim.cfg", base, {"Fix": tla_set(rig.fix)})
    r = common.tlc("MC_RingBuf", cfg=cfg, workers=1, simulate=nbeh, depth=depth, seed=ctx.seed, timeout=1500)
    if r.rc != 0: raise common.Infra("simulation failed: %s\n%s" % (r.violation, r.out[-2000:]))
    states = [s for s in common.tlc_printed_json(r.out) if s["ev"]]
    if len(states) < nbeh: raise common.Infra("simulation emitted too little (%d lines)" % len(states))
    niov = k["size"] // k["minb"] + 3
    lines, meta = [], []           # meta: (behaviour id, state or None for 'new', r0)
    b = -1; r0 = 0
    for s in states:
        if s["lvl"] == 2:
            b += 1; r0 = s["st"]["rnd"]           # no call can wrap the ring on the first step
            lines.append("new %d %d %d %d %d" % (k["size"], k["minb"], k["nr"], niov, r0 - k["mod"]))
            meta.append((b, None, r0))
        lines.append(cmd_of_ev(s["ev"])); meta.append((b, s, r0))
    # the driver dies on call after call (each death reported, the rest of its behaviour skipped): after 8 deaths the remaining
    # behaviours are not run - the check ends with its verdict in bounded time
    res = common.batch_run(rig.exe, lines, timeout=600, env=rig.env, max_crashes=8, on_excess="skip")
    cut = any(isinstance(a, dict) and a.get("skipped") for a in res)
    dead = -1; nsteps = 0; nbad = 0; classes = {}
    feat = {"deliveries": 0, "deliveries_to_previous_round_reader": 0, "deliveries_in_two_regions": 0, "loss_reports(drop>0)": 0,
            "calls_after_real_round_num_wrapped": 0, "refused_commits(EINVAL)": 0}
    start = 0
    for i, (ln, (bid, s, r0), a) in enumerate(zip(lines, meta, res)):
        if s is None: start = i
        if bid == dead: continue
        if isinstance(a, dict) and a.get("skipped"): continue
        if isinstance(a, dict):
            c = a["crash"]; dead = bid
            ctx.fail("ring:%s:%s" % (c[0], died_in(c, ln, a["raw"])), "%s: %s\n%s" % (label, c[3], a["raw"]), {"commands": lines[start:i + 1]})
            continue
        if s is None: continue
        act = json.loads(a)
        diff = compare_step(s, act, r0, k["mod"], k["nr"])
        nsteps += 1
        for c in s["viol"]: classes[c] = classes.get(c, 0) + 1
        e = s["ev"]
        if e["op"] == "dget" and e["regs"]:
            feat["deliveries"] += 1
            if e["rp"]["rnd"] != s["st"]["rnd"]: feat["deliveries_to_previous_round_reader"] += 1
            if len(e["regs"]) > 1: feat["deliveries_in_two_regions"] += 1
        if e["op"] in ("dget", "avail") and e["drop"] > 0: feat["loss_reports(drop>0)"] += 1
        if e["op"] in ("set", "set2") and e["rc"] != 0: feat["refused_commits(EINVAL)"] += 1
        if r0 + act["st"]["rnd"] >= k["mod"]: feat["calls_after_real_round_num_wrapped"] += 1
        if diff:
            dead = bid; nbad += 1
            if nbad <= 5:
                for f in diff:
                    ctx.fail("conformance:%s:%s" % (s["ev"]["op"], f),
                             "%s: the real call differs from the specification (Fix=%s) in %s\ncall: %s\nTLC expects: %s\nreal: %s"
                             % (label, sorted(rig.fix), f, ln, json.dumps(s)[:1500], a[:1500]), {"commands": lines[start:i + 1]})
    ctx.add(evaluations=nsteps, traces_validated_against_impl=b + 1, spec_behaviours_replayed=b + 1, spec_steps_replayed=nsteps)
    ctx.cov.setdefault("classes_met_in_replayed_behaviours", {}).update(classes)
    ctx.cov.setdefault("replayed_behaviour_features", {})[label] = feat
    ops = {}
    for s_ in states: ops[s_["ev"]["op"]] = ops.get(s_["ev"]["op"], 0) + 1
    ctx.cov.setdefault("replayed_calls_per_function", {})[label] = ops
    if (not all(feat.values()) or len(ops) < 7) and not cut: raise common.Infra("vacuous replay corpus: %s %s" % (feat, ops))
    ctx.log("%s: %d behaviours / %d calls replayed on the real ring, %d diverging behaviours" % (label, b + 1, nsteps, nbad))
    if states: ctx.add(samples=[{"call": cmd_of_ev(states[-1]["ev"]), "expected": states[-1]["ev"]}])

# ---------------------------------------------------------------- stage 2b: EVERY edge of the state graph on the real ring
def replay_edges(rig, base, label, workers=4):
    """Record=2 makes every (pre-state, call, post-state) of the exploration one distinct TLC state, printed once.
    The real structures are put into the pre-state (a state some other compared edge produced, or the initial one),
    the call is made, and results + projected post-state are compared."""
    ctx = rig.ctx
    k = cfg_consts(base)
    txt = open(os.path.join(SPEC_DIR, base)).read()
    r0s = re.search(r"(?m)^  R0s = \{(.*)\}$", txt).group(1).split(",")
    if len(r0s) != 1: raise common.Infra("edge replay needs a single initial round")
    r0 = int(r0s[0]); mod = k["mod"]
    cfg = write_cfg("_c19_edges.cfg", base, {"Fix": tla_set(rig.fix)})
    r = common.tlc("MC_RingBuf", cfg=cfg, workers=workers, timeout=3000, xmx="12g")
    if r.rc != 0: raise common.Infra("edge enumeration failed: %s\n%s" % (r.violation, r.out[-2000:]))
    edges = [s for s in common.tlc_printed_json(r.out) if s["ev"]]
    if len(edges) != r.distinct - 1:
        raise common.Infra("edge emission lost lines: %d printed vs %d distinct states" % (len(edges), r.distinct - 1))
    ctx.tlc_stats(r, "MC_RingBuf/%s (states = edges of the history graph)" % base)
    niov = k["size"] // k["minb"] + 3
    rel = lambda m: (m - r0) % mod
    def rp3(p): return "%d %d %d" % ((p["idx"], p["off"], rel(p["rnd"])) if p["idx"] >= 0 else (-1, -1, 0))
    def key(st, rpos, got, wcount):
        return json.dumps([st["wpos"], st["idx"], st["imax"], st["rnd"], st["frag"], st["full"], st["iov"], st["mem"],
                           [rp_model(rpos[str(i)]) for i in range(k["nr"])], [got["b"], got["n"]], wcount])
    posts = set()
    lines = ["new %d %d %d %d %d" % (k["size"], k["minb"], k["nr"], niov, r0 - mod)]
    meta = [None]
    for e in edges:
        pre = e["ev"]["pre"]
        posts.add(key(e["st"], e["rpos"], e["aux"]["got"], e["aux"]["wcount"]))
        lines.append("poke %d %d %d %d %d %d %d %d %d %d %s %d %s %d %s" % (
            pre["wpos"], pre["idx"], pre["imax"], rel(pre["rnd"]), pre["frag"], pre["full"], pre["got"]["b"], pre["got"]["n"],
            pre["wcount"], len(pre["iov"]), " ".join("%d %d" % (b, l) for b, l in pre["iov"]), len(pre["mem"]),
            " ".join(map(str, pre["mem"])), k["nr"], " ".join(rp3(pre["rpos"][str(i)]) for i in range(k["nr"]))))
        meta.append(None)
        lines.append(cmd_of_ev(e["ev"])); meta.append(e)
    # induction base: every pre-state is the initial state or the post-state of a compared edge
    init_like = 0; orphan = 0
    for e in edges:
        pre = e["ev"]["pre"]
        kk = key({x: pre[x] for x in ("wpos", "idx", "imax", "rnd", "frag", "full", "iov", "mem")}, pre["rpos"], pre["got"], pre["wcount"])
        if kk not in posts:
            if pre["wcount"] == 0 and pre["wpos"] == 0 and pre["idx"] == 0 and pre["full"] == 0: init_like += 1
            else: orphan += 1
    if orphan: raise common.Infra("%d edge pre-states are not post-states of any edge" % orphan)
    res = common.batch_run(rig.exe, lines, timeout=1800, env=rig.env, max_crashes=24, on_excess="skip")    # repeated deaths (each one reported): the rest is not run
    nbad = 0; n = 0
    for i, (ln, e, a) in enumerate(zip(lines, meta, res)):
        if isinstance(a, dict) and a.get("skipped"): continue
        if isinstance(a, dict):
            c = a["crash"]; nbad += 1
            if nbad <= 5: ctx.fail("ring:%s:%s" % (c[0], died_in(c, ln, a["raw"])), "%s: %s\n%s" % (label, c[3], a["raw"]), {"commands": lines[max(1, i - 1):i + 1]})
            continue
        if e is None: continue
        diff = compare_step(e, json.loads(a), r0, mod, k["nr"]); n += 1
        if diff:
            nbad += 1
            if nbad <= 5:
                for f in diff:
                    ctx.fail("conformance:%s:%s" % (e["ev"]["op"], f), "%s: the real call differs from the specification (Fix=%s) in %s\n"
                             "pre-state+call: %s\n%s\nTLC expects: %s\nreal: %s" % (label, sorted(rig.fix), f, lines[i - 1][:600], ln,
                             json.dumps({x: e[x] for x in ("st", "rpos")})[:1200], a[:1500]), {"commands": [lines[0], lines[i - 1], ln]})
    ctx.add(evaluations=n, spec_edges_replayed=n, traces_validated_against_impl=n)
    ctx.log("%s: %d edges of the state graph replayed on the real ring, %d differ" % (label, n, nbad))

# ---------------------------------------------------------------- stage 3: random histories of the real ring, validated by TLC
def random_histories(rig, plan):
    ctx = rig.ctx
    rnd = random.Random(ctx.seed)
    for (size, minb, nr, nops, maxblk, lag) in plan:
        seed = rnd.randrange(1, 1 << 30)
        what = "random history size=%d min_block=%d readers=%d ops=%d maxblk=%d writer%%=%d seed=%d" % (size, minb, nr, nops, maxblk, lag, seed)
        res, evs = rig.run_and_validate(["rand %d %d %d %d" % (seed, nops, maxblk, lag)], size, minb, nr, -3, what)
        if res is not None:
            wraps = max([json.loads(evs[-1])["st"]["rnd"]] + [0]) if evs else 0
            ctx.cov.setdefault("random_histories", []).append({"size": size, "min_block": minb, "readers": nr, "calls": len(evs),
                "ring_rounds": wraps, "accepted": res["accepted"], "classes": sorted(res["classes"]), "tlc_wall_s": round(res["r"].wall, 1)})

def run(ctx):
    ctx.level = "model_checking"
    rig = Rig(ctx)
    ctx.log("driver built from %s" % common.REPO)
    detect_variant(rig)
    ctx.cov["spec_variant_followed_by_tree"] = sorted(rig.fix)
    ctx.log("witness histories done; classes confirmed on the real ring: %s" % sorted(rig.confirmed))
    ok = model_check(rig, "MC_RingBuf.cfg")
    ctx.log("exhaustive exploration done")
    if not ctx.quick and ok:
        action_coverage(rig)
        for base in ("MC_RingBuf_tA.cfg", "MC_RingBuf_tB.cfg"):
            ok = model_check(rig, base, timeout=3000) and ok
    if ctx.quick:
        replay_behaviours(rig, "MC_RingBuf_sim.cfg", 250, 60, "simulated behaviours")
        random_histories(rig, [(6, 1, 2, 4000, 3, 60), (8, 2, 2, 3500, 4, 80), (12, 2, 3, 2500, 5, 45)])
    else:
        replay_edges(rig, "MC_RingBuf_edges.cfg", "every edge (ring 6, <= 5 bytes written, round counter from RoundMod-2)")
        replay_behaviours(rig, "MC_RingBuf_sim.cfg", 3000, 80, "simulated behaviours")
        replay_behaviours(rig, "MC_RingBuf_sim8.cfg", 1500, 80, "simulated behaviours (ring 8 / min block 2)")
        plan = []
        for i, (size, minb) in enumerate([(6, 1), (8, 2), (8, 1), (6, 2), (7, 3), (12, 2), (5, 1), (9, 4), (16, 2), (32, 4)]):
            plan.append((size, minb, 1 + i % 3, 10000, max(minb, min(size, minb + 1 + i % 4)), [30, 50, 70, 85, 92][i % 5]))
        random_histories(rig, plan)
    ctx.cov["violation_classes_confirmed_on_real_code"] = sorted(rig.confirmed)
    ctx.cov["rule"] = ("states/transitions: TLC exploration of RingBuf within the cfg bounds; traces_validated_against_impl: "
                       "TLC behaviours replayed on the real ring + real histories accepted by Trace_RingBuf (every call: return "
                       "values, iovecs, bytes read through them, wpos/iov_index/iov_index_max/round_num/flags/iov[]/ring bytes/rpos)")
    ctx.assumptions += [
        "writer obeys the API: every commit lies inside the space the preceding r_buf_wbuf_get returned; leading offset < size (DESIGN App. E)",
        "a reader advances (r_buf_rpos_inc) by at most what its last r_buf_data_get returned, with no writer call in between",
        "fewer than RoundMod/2 ring rounds pass while a reader sleeps (the real modulus is 2^64); single thread (histories, not races)",
        "'drop accounts': drop > 0 whenever unread ring bytes are skipped and >= the unread bytes still in the ring (DESIGN App. E)"]
