"""C12 - utility codecs and containers never touch memory outside the caller's buffers, report the size
they need, terminate, and accept exactly-sized buffers (mode B under sanitizers / guard pages).

TLC enumerates the adversarial corpus from the generator specs in specs/bufsafe (Bs*.tla), checks the
property's algebra on the spec (exact capacity suffices, nothing succeeds below the output size, returned
spans tile the input ...) and computes every expectation: for each function with an output buffer the
outcome CLASS for every capacity 0 .. required+1, for the scanners the expected spans or the safety
envelope.  harness/c12_drv.c calls the real functions with inputs and outputs in exact-size blocks, once
under ASan+UBSan (clang) and twice in guard-page buffers (gcc, no sanitizer: guard page after / before the
block); an interval timer turns non-termination into a fault.  Python renders abstract cases to driver
lines and compares JSON values - it computes no expectation itself."""
import concurrent.futures, re, time
from rig import common
from rig.common import hexs

SRC = ["/verif/harness/c12_drv.c", "src/utils/buf_str.c", "src/utils/xml.c", "src/utils/ini.c", "src/utils/bt_encode.c"]
# arithmetic UB (signed overflow in str2num / SNUM2STR negation, shifts) and pointer arithmetic that is never
# dereferenced are not memory accesses: outside the text of C12 (C14 owns the values); object-size duplicates ASan
ASAN_FLAGS = ["-fno-sanitize=signed-integer-overflow,shift,pointer-overflow,object-size", "-w"]
ASAN_ENV = {"ASAN_OPTIONS": "detect_leaks=0:abort_on_error=0:detect_stack_use_after_return=1:"
                            "allocator_may_return_null=1:symbolize=0",
            "UBSAN_OPTIONS": "print_stacktrace=0:halt_on_error=1"}

FN = {"b64enc": "base64_encode", "b64dec": "base64_decode", "b64decfmt": "base64_decode_fmt",
      "bin2hex": "cvt_bin2hex", "hex2bin": "cvt_hex2bin", "xmlenc": "xml_encode", "xmldec": "xml_decode",
      "repla": "mem_replace_arr", "replb": "mem_replace_arr", "replc": "mem_replace_arr",
      "n2s": "num2str", "s2n": "str2num", "utf8": "utf8_decode", "asn": "asn_parse", "bt": "bt_en_decode",
      "xml": "xml_get_val_arr", "xmlns": "xml_get_val_ns_arr", "xmlcnt": "xml_calc_tag_count_args",
      "args": "buf2args", "lines": "buf_get_next_line", "sptab": "calc_sptab_count", "ini": "ini_buf_gen",
      "iniset": "ini_val_set", "inigrow": "ini_store_growth", "ritems": "realloc_items", "mem": "mem_search", "mfs": "mem_find_stream", "crc": "crc32"}

# (module, quick cfg, thorough cfg, actions that must all be taken)
GENS = [
    ("BsB64", "BsB64.cfg", "BsB64_thorough.cfg", ["GrowEnc", "GrowDec"]),
    ("BsHex", "BsHex.cfg", "BsHex_thorough.cfg", ["GrowBin", "GrowHex"]),
    ("BsNum", "BsNum.cfg", "BsNum.cfg", ["Grow", "Vary"]),
    ("BsUtf8", "BsUtf8.cfg", "BsUtf8_thorough.cfg", ["AddGood", "AddBad"]),
    ("BsAsn1", "BsAsn1.cfg", "BsAsn1.cfg", ["SetLen", "SetPay"]),
    ("BsBencode", "BsBencode.cfg", "BsBencode_thorough.cfg", ["Add", "Cut"]),
    ("BsXmlDoc", "BsXmlDoc.cfg", "BsXmlDoc_thorough.cfg",
     ["SetWrap", "SetPre", "SetOpen", "SetContent", "SetClose", "SetPost", "CutIt"]),
    ("BsXmlEnt", "BsXmlEnt.cfg", "BsXmlEnt_thorough.cfg", ["AddPlain", "AddCoded"]),
    ("BsReplArr", "BsReplArr.cfg", "BsReplArr_thorough.cfg", ["Grow"]),
    ("BsArgs", "BsArgs.cfg", "BsArgs_thorough.cfg", ["Grow"]),
    ("BsLines", "BsLines.cfg", "BsLines_thorough.cfg", ["Grow"]),
    ("BsIniSet", "BsIniSet.cfg", "BsIniSet_thorough.cfg", ["Set"]),
    ("BsMem", "BsMem.cfg", "BsMem_thorough.cfg", ["Grow", "Shift"]),
    ("BsMfs", "BsMfs.cfg", "BsMfs_thorough.cfg", ["AddPiece", "Cut1", "Cut2"]),
    ("BsRead", "BsRead.cfg", "BsRead_thorough.cfg", ["CrcGrow", "NumGrow", "WsGrow"]),
    ("BsGrow", "BsGrow.cfg", "BsGrow_thorough.cfg", ["More", "SetAfter"]),
]


class Case:
    """one driver call: `text` is the line without the placement field; exp/meta come from the spec"""
    __slots__ = ("op", "args", "exp", "shape", "nontrivial", "ident")

    def __init__(self, op, args, exp, shape, nontrivial, ident):
        self.op, self.args, self.exp, self.shape, self.nontrivial, self.ident = op, args, exp, shape, nontrivial, ident

    def line(self, place):
        # "@<class>": the shape a non-termination finding of this case is keyed with; the driver stops calling an (op, class)
        # whose watchdog has fired TMO_BUDGET times in one run (answer NOTRUN) - the run ends in bounded time
        return "%s %s %s @%s" % (self.op, place, self.args, re.sub(r"[\s@]", "_", str(self.shape_for("term"))))

    def shape_for(self, family):
        s = self.shape
        return s.get(family, s.get("oob", "plain")) if isinstance(s, dict) else s


def rel(cap, req):
    if cap == 0 and req > 0: return "cap==0"
    if cap < req: return "cap<required"
    if cap == req: return "cap==required"
    return "cap==required+1"


# ------------------------------------------------------------------ rendering (abstract case -> driver lines)
def reinvoke_cap(caps):
    """the capacity at which the driver is asked to call again with exactly the size the function reported
    (the answer is the same for every refused capacity of one input, so one per input is enough)"""
    for want in (("need",), ("fail", "either")):
        for e in caps:
            if e["cls"] in want: return e["c"]
    return -1


def render(c):
    g = c["g"]; out = []
    if g in ("b64", "hex", "xmlent"):
        src = bytes(c["in"])
        for o in c["ops"]:
            rcap = reinvoke_cap(o["caps"])
            for e in o["caps"]:
                sh = c.get("shape") if g != "xmlent" else o["shape"]
                aux = (" %d" % c["aux"]) if g == "hex" else ""
                if e["c"] == rcap: aux += " R"
                if g == "xmlent":     # (for the entity codecs capacity 0 is just one more capacity below the output size)
                    shape = "cap<required" if e["c"] < o["req"] else rel(e["c"], o["req"])
                elif sh in ("enc", "bin", "clean"):   # no input feature worth a label: the capacity relation is the shape
                    shape = rel(e["c"], o["req"])
                else:
                    shape = "%s/%s" % (sh, rel(e["c"], o["req"]))
                out.append(Case(o["op"], "%s %d%s" % (hexs(src), e["c"], aux), ("sized", e["cls"], e["n"], e["c"], o["req"]),
                                shape, len(src) > 0, (o["op"], src, e["c"], aux)))
    elif g == "num":
        txt = ("-" if c["neg"] else "") + "".join(str(d) for d in c["digits"])
        o = c["ops"][0]; rcap = reinvoke_cap(o["caps"])
        for e in o["caps"]:
            out.append(Case("n2s", "%s %d %s%s" % (c["t"], e["c"], txt, " R" if e["c"] == rcap else ""), ("sized", e["cls"], e["n"], e["c"], o["req"]),
                            c["shape"], True, ("n2s", c["t"], txt, e["c"])))
        # the same text (and decorated variants) through the read-only parsers
        for t in (txt, "+" + txt, txt + " ", txt + "x9"):
            out.append(Case("s2n", hexs(t.encode()), ("safe",), "plain", True, ("s2n", t)))
    elif g == "utf8":
        src = bytes(c["in"])
        for e in c["caps"]:
            out.append(Case("utf8", "%s %d" % (hexs(src), e["c"]), ("utf8", bytes(e["out"]), e["c"]), c["shape"],
                            len(src) > 0, ("utf8", src, e["c"])))
    elif g == "asn":
        src = bytes(c["in"])
        out.append(Case("asn", hexs(src), ("asn", c["ref"]), c["shape"], True, ("asn", src)))
    elif g == "bt":
        src = bytes(c["in"])
        if len(src) > 0:
            out.append(Case("bt", hexs(src), ("bt", c["consumed"]), c["shape"], True, ("bt", src)))
    elif g == "xml":
        src = bytes(c["in"])
        paths = ("a", "r/a") if c["d"]["cut"] == 0 else (("r/a",) if c["d"]["wrap"] else ("a",))
        for path in paths:
            out.append(Case("xml", "%s %s" % (hexs(src), path), ("xml",), c["shape"], True, ("xml", src, path)))
            out.append(Case("xmlns", "%s %s" % (hexs(src), path), ("xml",), c["shape"], True, ("xmlns", src, path)))
        if c["cnt"]:
            out.append(Case("xmlcnt", hexs(src), ("safe",), c["shape"], True, ("xmlcnt", src)))
    elif g == "args":
        src = bytes(c["in"])
        for e in c["caps"]:
            out.append(Case("args", "%s %d" % (hexs(src), e["c"]), ("args", [(s["o"], s["l"]) for s in e["spans"]]),
                            e["shape"], len(src) > 0, ("args", src, e["c"])))
    elif g == "lines":
        src = bytes(c["in"])
        out.append(Case("lines", hexs(src), ("lines", [(s["o"], s["l"]) for s in c["spans"]]), "plain", len(src) > 0, ("lines", src)))
        out.append(Case("sptab", hexs(src), ("safe",), "plain", len(src) > 0, ("sptab", src)))
        for e in c["caps"]:
            out.append(Case("ini", "%s %d" % (hexs(src), e["c"]), ("ini", e["cls"], e["n"], e["c"], c["req"]), e["shape"],
                            len(src) > 0, ("ini", src, e["c"])))
    elif g == "iniset":
        if c["ops"]:
            ops = ";".join("s%d.k%d.%d" % (o["s"], o["k"], o["v"]) for o in c["ops"])
            out.append(Case("iniset", ops, ("iniset", c["need"], len(c["ops"])), c["shape"], True, ("iniset", ops)))
    elif g == "mem":
        h = bytes(c["h"]); nd = bytes(c["nd"])
        out.append(Case("mem", "%s %s %d" % (hexs(h), hexs(nd), c["off"]), ("mem", c), "plain", len(h) > 0, ("mem", h, nd, c["off"])))
    elif g == "mfs":
        if c["chunks"]:
            toks = " ".join([hexs(bytes(c["nd"]))] + [hexs(bytes(k)) for k in c["chunks"]])
            out.append(Case("mfs", toks, ("mfs",), c["shape"], True, ("mfs", toks)))
    elif g == "grow":
        src = bytes(c["in"]); sh = c["shape"]
        if c["k"] in ("btlist", "btdict", "btnest"):
            out.append(Case("bt", hexs(src), ("bt", len(src)), {"oob": sh, "span": sh, "term": sh}, True, ("bt", src)))
        elif c["k"] == "ini":
            out.append(Case("inigrow", "%s %d" % (hexs(src), c["x"]), ("inigrow", c["need"]), sh, True, ("inigrow", src, c["x"])))
        else:
            for isz in (1, 8, 16):
                out.append(Case("ritems", "%d %d %d" % (isz, c["x"], c["n"]), ("ritems", c["n"], c["x"]), sh,
                                True, ("ritems", isz, c["x"], c["n"])))
    elif g == "read":
        src = bytes(c["in"])
        if c["k"] == "crc": out.append(Case("crc", hexs(src), ("safe",), "plain", len(src) > 0, ("crc", src)))
        elif c["k"] == "s2n": out.append(Case("s2n", hexs(src), ("safe",), "plain", len(src) > 0, ("s2n", src)))
        else: out.append(Case("sptab", hexs(src), ("sptab", c["lead"], c["nlead"]), "plain", len(src) > 0, ("sptab", src)))
    else:
        raise common.Infra("unknown generator group %r" % g)
    return out


# ------------------------------------------------------------------ crash classification
ARRAYS = {"tag_arr": "tag-arrays", "tag_arr_cnt": "tag-arrays", "ret_ns": "tag-arrays", "ret_ns_size": "tag-arrays",
          "ns_size": "tag-arrays", "in": "input", "buf": "input", "chunk": "input", "what": "needle"}
BUFPOS_OPS = ("xml", "xmlns", "xmlcnt", "mfs")   # several candidate blocks: the faulting block names the defect


def position(off, size):
    return "before-start" if off < 0 else ("at-end" if off == size else ("past-end" if off > size else "inside"))


def crash_info(raw):
    """-> (kind, family, detail, block position or None, re-invoked capacity or None) from the worker's last words"""
    bufs = {int(m.group(2), 16): (m.group(1), int(m.group(3))) for m in re.finditer(r"@buf (\S+) (0x[0-9a-f]+) (\d+)", raw)}
    m = re.search(r"@reinvoke (\d+)", raw)
    reinv = int(m.group(1)) if m else None
    pos = None
    m = re.search(r"AddressSanitizer: ([\w-]+)", raw)
    if m:
        acc = "-WRITE" if "WRITE of size" in raw else ("-READ" if "READ of size" in raw else "")
        loc = re.search(r"located (\d+) bytes (to the right|to the left|inside) of (\d+)-byte region \[(0x[0-9a-f]+),", raw)
        if loc:
            n, side, size, start = int(loc.group(1)), loc.group(2), int(loc.group(3)), int(loc.group(4), 16)
            off = size + n if side == "to the right" else (-n if side == "to the left" else n)
            name = bufs.get(start, ("heap-block", size))[0]
            pos = "%s:%s" % (ARRAYS.get(name, name), position(off, size))
        st = re.search(r"'(\w+)'[^\x1f]*<== Memory access at offset \d+ (underflows|overflows|partially (?:under|over)flows)", raw)
        if st:
            pos = "%s:%s" % (ARRAYS.get(st.group(1), st.group(1)), "before-start" if "under" in st.group(2) else "at-end")
        return m.group(1) + acc, "oob", (loc.group(0) if loc else m.group(0)), pos, reinv
    m = re.search(r"runtime-error: ([^\x1f]*)", raw)
    if m:
        msg = m.group(1)
        if "out of bounds" in msg: k = "ubsan-index-out-of-bounds"
        elif "null pointer" in msg: k = "ubsan-null-pointer"
        elif "misaligned" in msg: k = "ubsan-misaligned"
        else: k = "ubsan-" + "-".join(re.findall(r"[a-z]+", msg.lower())[:3])
        return k, "oob", msg[:160], None, reinv
    m = re.search(r"FAULT sig=(\d+) acc=(\S) buf=(\S+) off=(-?\d+) size=(\d+)", raw)
    if m:
        sig = int(m.group(1))
        if sig in (14, 26): return "non-termination", "term", "watchdog expired", None, reinv
        acc = {"W": "-WRITE", "R": "-READ"}.get(m.group(2), "")
        off = int(m.group(4)); size = int(m.group(5)); name = m.group(3).split("@")[0]
        if m.group(3) != "wild" and m.group(3) != "none":
            pos = "%s:%s" % (ARRAYS.get(name, name), position(off, size))
        return "guard-page" + acc, "oob", "%s[%d] of %d" % (m.group(3), off, size), pos, reinv
    m = re.search(r"status=(\d+)", raw)
    return "died-status-" + (m.group(1) if m else "?"), "oob", raw[:200], None, reinv


def kvs(line):
    parts = line.split()
    return dict(p.split("=", 1) for p in parts[1:] if "=" in p)


def spans_of(txt):
    if txt == "-": return []
    return [tuple(int(x) for x in s.split(":")) for s in txt.split(",")]


# ------------------------------------------------------------------ comparison (JSON values only)
def compare(case, ans, place, fail):
    """fail(kind, family, detail) records one violation for this case"""
    fn = FN[case.op]
    if ans.split(" ", 2)[1] == "CRASH":
        kind, fam, det, pos, reinv = crash_info(ans)
        shape = None
        if case.op in BUFPOS_OPS and pos is not None and fam == "oob":
            shape = pos
            # reads around the INPUT block: "<" as last byte is the one input feature that explains a read at its
            # end; any other document keeps its own label so that a different over-read is not taken for that one
            if pos.startswith("input:") and case.shape_for("oob") != "lt-at-end":
                shape = "%s/%s" % (pos, case.shape_for("oob"))
        elif reinv is not None and case.exp[0] == "sized" and "cap" in str(case.shape):
            # the fault happened in the second call, made with exactly the capacity the function reported
            pre = case.shape.rsplit("/", 1)[0] + "/" if "/" in case.shape else ""
            shape = pre + rel(reinv, case.exp[4])
        crash_txt = re.sub(r"@buf [^\x1f]*\x1f", "", ans)
        fail(kind, fam, det + " | " + crash_txt[:1500].replace("\x1f", "\n"), shape)
        return None
    f = kvs(ans); e = case.exp; tag = e[0]
    rc = int(f.get("rc", "-999")); n = int(f.get("n", "-1"))
    if tag in ("sized", "ini"):
        cls, exp_n, cap, req = e[1], e[2], e[3], e[4]
        if "rc2" in f and int(f["rc2"]) != 0:
            fail("reported-size-insufficient", "size", "reported %d, re-invoked with exactly that capacity: rc=%s" % (n, f["rc2"]))
        if tag == "ini":
            if int(f["need"]) != req:
                fail("calc-size-wrong", "size", "ini_buf_calc_size=%s, spec %d" % (f["need"], req))
            if rc == 0 and n != req:
                fail("wrong-size-reported", "size", "wrote %d, spec %d" % (n, req))
        if case.op == "n2s" and (f.get("rcu") != f.get("rc") or f.get("nu") != f.get("n")):
            fail("char-and-uint8-variants-disagree", "size", ans)
        ok = (rc == 0)
        if cls == "ok":
            if not ok: fail("sufficient-capacity-refused", "size", "cap=%d required=%d rc=%d" % (cap, req, rc))
            elif tag == "sized" and n != exp_n: fail("wrong-size-reported", "size", "n=%d, spec %d (cap %d)" % (n, exp_n, cap))
        elif cls in ("need", "fail"):
            if ok: fail("success-without-room", "size", "cap=%d required=%d rc=0 n=%d" % (cap, req, n))
            elif cls == "need" and n < 0: fail("no-size-reported", "size", "cap=%d rc=%d" % (cap, rc))
        elif cls == "either":
            if ok and tag == "sized" and n != exp_n: fail("wrong-size-reported", "size", "n=%d, spec %d (cap %d)" % (n, exp_n, cap))
        return ok
    if tag == "utf8":
        exp, cap = e[1], e[2]
        got = common.unhex(f["out"])
        want = exp + b"\xa5" * (cap - len(exp))
        if got != want:
            fail("wrote-other-bytes-than-expected", "size", "out=%s spec=%s" % (hexs(got), hexs(want)))
        return True
    if tag == "asn":
        ref = e[1]
        if f["inside"] != "1": fail("span-outside-input", "span", ans)
        elif f["progress"] != "1": fail("offset-does-not-advance", "term", ans)
        elif rc == 0 and not ref["ok"]: fail("accepted-malformed", "span", ans)
        elif rc == 0 and (int(f["hdr"]) != ref["hdr"] or int(f["dsize"]) != ref["len"]):
            fail("wrong-span", "span", "%s spec %r" % (ans, ref))
        return rc == 0
    if tag == "bt":
        if f["inside"] != "1": fail("span-outside-input", "span", ans)
        elif rc == 0 and e[1] >= 0 and n != e[1]: fail("wrong-consumed-size", "span", "%s spec %d" % (ans, e[1]))
        elif rc == 0 and e[1] < 0: fail("accepted-incomplete", "span", ans)
        return rc == 0
    if tag == "xml":
        if f["inside"] != "1": fail("span-outside-input", "span", ans)
        if f["stuck"] != "0": fail("iteration-stuck", "term", ans)
        return rc == 0
    if tag == "args":
        got = spans_of(f["spans"])
        if f["inside"] != "1": fail("span-outside-input", "span", ans)
        elif got != e[1]: fail("wrong-spans", "span", "%s spec %r" % (ans, e[1]))
        return len(got) > 0
    if tag == "lines":
        got = spans_of(f["spans"])
        if f["inside"] != "1": fail("span-outside-input", "span", ans)
        elif f["progress"] != "1": fail("no-progress", "term", ans)
        elif got != e[1]: fail("wrong-spans", "span", "%s spec %r" % (ans, e[1]))
        return len(got) > 0
    if tag == "sptab":
        if f["inside"] != "1" or int(f["lead"]) != e[1] or int(f["nlead"]) != e[2]:
            fail("wrong-count", "span", "%s spec lead=%d nlead=%d" % (ans, e[1], e[2]))
        return True
    if tag == "iniset":
        need, nops = e[1], e[2]
        if rc != 0 or int(f["sets"]) != nops: fail("set-or-get-failed", "size", ans)
        elif int(f["need"]) != need: fail("calc-size-wrong", "size", "%s spec %d" % (ans, need))
        elif int(f["gen"]) != 0 or n != need: fail("exact-size-refused", "size", ans)
        return True
    if tag == "inigrow":
        if rc != 0 or int(f["parse"]) != 0: fail("parse-or-set-failed", "size", ans)
        elif int(f["need"]) != e[1]: fail("calc-size-wrong", "size", "%s spec %d" % (ans, e[1]))
        elif int(f["gen"]) != 0 or n != e[1]: fail("exact-size-refused", "size", ans)
        return True
    if tag == "ritems":
        # contract from the spec: room for more than `count`, at most one spare block
        if rc != 0 or f["bad"] != "0" or not (e[1] - 1 < n <= e[1] - 1 + e[2]): fail("no-room-for-element-count", "size", ans)
        return True
    if tag == "mem":
        c = e[1]; nn = c["n"]; occ = set(c["occ"]) | {-1}; chrocc = set(c["chrocc"]) | {-1}
        g = {k: int(v) for k, v in f.items() if k not in ("rc",)}
        bad = []
        for k in ("chr", "chr_off", "chr_ptr", "rchr", "rchr_off", "rchr_ptr"):
            if g[k] not in chrocc: bad.append(k)
        for k in ("find", "find_off", "find_ptr"):
            if g[k] not in occ: bad.append(k)
        if g["chr"] != c["chr"] or g["find"] != c["find"]: bad.append("first")
        if g["chr_off"] != c["chr_off"] or g["chr_ptr"] != c["chr_off"]: bad.append("chr_off")
        if g["find_off"] != c["find_off"] or g["find_ptr"] != c["find_off"]: bad.append("find_off")
        if bool(g["cmpn"]) != c["cmpn"] or bool(g["cmpin"]) != c["cmpin"]: bad.append("cmp")
        if g["low"] != nn or g["up"] != nn: bad.append("case-copy")
        if bad: fail("wrong-result-" + bad[0], "span", "%s spec %r" % (ans, {k: c[k] for k in ("occ", "chrocc", "chr_off", "find_off")}))
        return True
    if tag == "mfs":
        if f["inside"] != "1": fail("state-or-offset-outside", "span", ans)
        return f["found"] != "-1"
    return True  # "safe": surviving the call in exact-size blocks is the whole expectation


# ------------------------------------------------------------------ running
def run_tlc(spec):
    mod, cfg = spec
    return mod, cfg, common.tlc(mod, cfg=cfg, workers=1, coverage=True, timeout=1500, xss="64m")


def run_chunk(arg):
    exe, lines, env = arg
    return common.batch_run(exe, lines, timeout=900, env=env)


def run_all(exe, lines, env, nchunks, pool):
    size = max(1, (len(lines) + nchunks - 1) // nchunks)
    chunks = [lines[i:i + size] for i in range(0, len(lines), size)]
    res = []
    for r in pool.map(run_chunk, [(exe, ch, env) for ch in chunks]):
        res.extend(r)
    return res


def run(ctx):
    ctx.level = "exploration"
    t0 = time.time()
    d = common.scratch()
    pool = concurrent.futures.ThreadPoolExecutor(max_workers=4)
    # builds (2) and generator runs (14, one TLC worker each) share the 4-slot pool
    fa = pool.submit(common.cc, SRC, d + "/c12_asan", compiler="clang", san="asan", hooks=False, flags=ASAN_FLAGS)
    fg = pool.submit(common.cc, SRC, d + "/c12_guard", compiler="gcc", san=None, hooks=False, flags=["-w"])
    futs = [pool.submit(run_tlc, (g[0], g[1] if ctx.quick else g[2])) for g in GENS]
    cases = []; per_gen = {}
    for g, fu in zip(GENS, futs):
        mod, cfg, r = fu.result()
        ctx.tlc_stats(r, "%s/%s" % (mod, cfg))
        if r.rc != 0:
            raise common.Infra("%s: the reference/property algebra failed inside TLC (spec bug, not a code verdict): %s\n%s"
                               % (mod, r.violation, r.out[-2500:]))
        abstract = common.tlc_printed_json(r.out)
        if len(abstract) != r.distinct:
            raise common.Infra("%s: corpus emission lost cases: %d printed vs %d distinct" % (mod, len(abstract), r.distinct))
        for act in g[3]:
            if r.coverage.get(act, (0, 0))[0] == 0:
                raise common.Infra("%s: generator action %s was never taken (vacuous corpus)" % (mod, act))
        n0 = len(cases)
        for a in abstract: cases.extend(render(a))
        per_gen[mod] = {"abstract_cases": len(abstract), "driver_cases": len(cases) - n0}
    ctx.log("TLC: %d generator states -> %d driver cases (%.1fs)" % (sum(v["abstract_cases"] for v in per_gen.values()), len(cases), time.time() - t0))
    asan = fa.result(); guard = fg.result()

    fails = {}   # key -> [first detail, replay, count, places]
    stats = {"ok_calls": 0, "refused_or_error_calls": 0, "crashed_cases": 0, "not_run_after_repeated_non_termination_of_their_function": 0}
    per_op = {}

    def judge(place, answers):
        for c, a in zip(cases, answers):
            if isinstance(a, dict):   # the parent driver itself died: cannot attribute -> infrastructure
                raise common.Infra("driver parent process died: %s\n%s" % (a.get("crash"), a.get("raw", "")[-1500:]))
            if a.split(" ", 2)[1:2] == ["NOTRUN"]:      # the driver's non-termination budget for this function is used up (every death before it is reported)
                stats["not_run_after_repeated_non_termination_of_their_function"] += 1; continue
            def fail(kind, fam, det, shape=None, c=c, a=a):
                key = "%s:%s:%s" % (FN[c.op], kind, shape if shape is not None else c.shape_for(fam))
                ent = fails.setdefault(key, [det, {"case": c.line(place), "answer": a[:600].replace("\x1f", "\n")}, 0, set()])
                ent[2] += 1; ent[3].add(place)
            ok = compare(c, a, place, fail)
            po = per_op.setdefault(c.op, [0, 0, 0])
            if ok is None: stats["crashed_cases"] += 1; po[2] += 1
            elif ok: stats["ok_calls"] += 1; po[0] += 1
            else: stats["refused_or_error_calls"] += 1; po[1] += 1

    runs = [("a", asan, ASAN_ENV), ("h", guard, None), ("l", guard, None)]
    # quick tier: a driver run (one of 8 chunks of a placement) spends at most ~300 watchdog periods (150 ms of CPU time each) on
    # functions that do not return, then stops calling an (op, input class) whose watchdog has fired 6 times (harness/c12_drv.c);
    # the known non-termination of the unchanged tree stays below 160 watchdog deaths per run, so nothing of it is skipped
    tmo_env = {"C12_TMO_FREE": "300", "C12_TMO_BUDGET": "6"} if ctx.quick else {}
    for place, exe, env in runs:
        env = dict(env or {}, **tmo_env)
        t1 = time.time()
        answers = run_all(exe, [c.line(place) for c in cases], env, 8, pool)
        judge(place, answers)
        ctx.log("placement %s: %d cases in %.1fs" % (place, len(cases), time.time() - t1))
        ctx.add(evaluations=len(cases))

    # a guard-page fault is the same event ASan already reported for the same function/shape/access
    for key in list(fails):
        fn, kind, shape = key.split(":", 2)
        if kind.startswith("guard-page"):
            acc = kind[len("guard-page"):]
            twin = [k for k in fails if k.split(":", 2)[0] == fn and k.split(":", 2)[2] == shape
                    and (k.split(":", 2)[1].endswith("buffer-overflow" + acc) or k.split(":", 2)[1] == "ubsan-index-out-of-bounds")]
            if twin:
                fails[twin[0]][2] += fails[key][2]; fails[twin[0]][3] |= fails[key][3]
                fails[twin[0]][0] += "\n[also: guard-page fault %s]" % fails[key][0].split(" | ")[0]
                del fails[key]

    for key in sorted(fails):
        det, replay, cnt, places = fails[key]
        # a symbolized report for the first ASan occurrence makes the replay file readable
        if "a" in places and replay["case"].split()[1] == "a":
            env = dict(ASAN_ENV); env["ASAN_OPTIONS"] = env["ASAN_OPTIONS"].replace("symbolize=0", "symbolize=1")
            env["UBSAN_OPTIONS"] = "print_stacktrace=1:halt_on_error=1"
            rc, out = common.sh([asan, "--nofork"], stdin=(replay["case"] + "\n").encode(), timeout=60, env=env)
            replay["symbolized"] = out[:3000]
        ctx.fail(key, "%d case(s), placements %s\nfirst: %s\n%s" % (cnt, "".join(sorted(places)), replay["case"], det[:2500]), replay)

    # vacuity of the binding: every operation must have been seen succeeding at least once
    dead = [op for op, v in per_op.items() if v[0] == 0]
    if dead:
        raise common.Infra("no successful call observed for %s: the driver binding would be vacuous" % ", ".join(sorted(dead)))
    nontriv = {c.ident for c in cases if c.nontrivial}
    ctx.add(distinct_nontrivial=len(nontriv))
    ctx.cov["generators"] = per_gen
    ctx.cov["calls"] = stats
    ctx.cov["per_op_ok_refused_crashed"] = {k: v for k, v in sorted(per_op.items())}
    ctx.cov["placements"] = {"a": "exact-size malloc blocks, clang ASan+UBSan",
                             "h": "guard page directly after every block, gcc, no sanitizer",
                             "l": "guard page directly before every block, gcc, no sanitizer"}
    ctx.cov["failure_keys_seen"] = {k: v[2] for k, v in sorted(fails.items())}
    ctx.cov["rule"] = ("cases = reachable states of the 15 generator specs in specs/bufsafe x every capacity 0..required+1 "
                       "(x max_args for buf2args, x tag path for XML), each run in 3 buffer placements; "
                       "non-trivial = non-empty input; distinct by (operation, input, capacity/extra)")
    ex = [c for c in cases if c.op == "b64enc" and c.exp[3] == c.exp[4] and c.exp[4] > 0][:1] + \
         [c for c in cases if c.op == "args" and c.shape == "last-arg-touches-end"][:1] + \
         [c for c in cases if c.op == "asn"][:1]
    ctx.add(samples=[{"driver_line": c.line("a"), "spec_expectation": repr(c.exp)[:200], "shape": c.shape} for c in ex])
    ctx.assumptions += [
        "the oracle is the TLA+ text under specs/bufsafe (plus specs/text/Base64.tla); Python renders and compares only",
        "memory accesses are OBSERVED: ASan+UBSan on exact-size heap blocks and page-protection faults on guard-page "
        "blocks; the specification cannot see memory",
        "arithmetic undefined behaviour (signed overflow in STR2NUM/SNUM2STR, shifts) and never-dereferenced pointer "
        "arithmetic are not counted as C12 violations (build flags -fno-sanitize=signed-integer-overflow,shift,pointer-overflow)",
        "for XML extraction, bencode and ASN.1 only the safety envelope is demanded (termination, spans inside the "
        "input, progress of the iteration idiom, header sizes equal to the reference on accepted input)",
        "content of produced text is C14's business: C12 compares return class, reported sizes, spans and counts",
    ]
    pool.shutdown()
