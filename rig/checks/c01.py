"""C01 - multi-precision integer arithmetic is exact or fails loudly (include/math/big_num.h).

(B) exhaustive small domain: TLC (specs/num/GenBn) enumerates operand tuples of 1..3 eight-bit digits over the
    boundary digit set plus seeded values, checks the BigNat/BnOps reference against TLC's native integers on
    every tuple and emits the corpus; this module expands each tuple over the capacity/aliasing table, runs
    the BN_DIGIT_BIT_CNT=8 drivers (with and without BN_CC_MULL_DIV, ASan, poisoned storage above `digits`)
    and hands every recorded call to TLC (specs/num/TraceBn -> BnOps!Judge).
(C) full width: drivers for digit widths 16..128 x BN_CC_MULL_DIV x {gcc,clang} x {-O0,-O2,-O3}; seeded operands
    of 1..BN_BIT_LEN bits biased to all-ones / single-bit / digit-boundary values; every call judged by TLC.
(S) scalars at limb boundaries, every digit width 8/16/32/64/128 (also in the quick tier): TLC (specs/num/GenBnScalar)
    enumerates digits / machine words / two-digit numbers just below, at and above 2^8, 2^16, 2^32, 2^64, 2^w (zero low
    parts, all-ones high parts, seeded fillings), checks the reference across each boundary and says for which cut a
    silent narrowing would show; every entry point that takes such a scalar (the *_digit functions, bn_mod_exp and
    bn_mod_exp_digit exponents, shift counts, bit indices, the bn_digit_* helpers) is called with them on the build of
    that width and judged by TLC.
Python renders inputs, runs drivers and forwards TLC's verdicts; it computes no expected result."""
import os, json, math, random, itertools, concurrent.futures as cf
from rig import common

LB = 13
CRASH_RC = -777
POISONS = (255, 165, 90, 1)

def limbs(x):
    r = []
    while x:
        r.append(x & 8191); x >>= LB
    return r
def limbs_s(x):
    return ",".join(map(str, limbs(x))) or "-"
def csv(xs):
    return ",".join(map(str, xs)) or "-"
def parse_list(s):
    return [] if s == "-" else [int(t) for t in s.split(",")]
def dg(x, w):
    return (x.bit_length() + w - 1) // w
def c1(x, w):
    return max(1, dg(x, w))

# ------------------------------------------------------------------------------------------------ builds
class Build:
    def __init__(self, w, bits, cc, compiler, opt, san):
        self.w, self.bits, self.cc, self.compiler, self.opt, self.san = w, bits, cc, compiler, opt, san
        self.maxd = bits // w
        self.exe = None
    @property
    def name(self):
        return "w%d-%s-%s%s-bits%d%s" % (self.w, "ccmuldiv" if self.cc else "portable", self.compiler, self.opt,
                                         self.bits, "-asan" if self.san else "")

def do_build(b, d):
    defs = ["-DBN_DIGIT_BIT_CNT=%d" % b.w, "-DBN_BIT_LEN=%d" % b.bits]
    if b.cc: defs.append("-DBN_CC_MULL_DIV=1")
    flags = ["-fsanitize=address"] if b.san else []
    b.exe = common.cc(["/verif/harness/bn_drv.c"], os.path.join(d, "bn_" + b.name), compiler=b.compiler, opt=b.opt,
                      defs=defs, flags=flags, hooks=False, san=None, timeout=600)
    rc, out = common.sh([b.exe], stdin=b"cfg\n", timeout=30)
    want = "cfg w=%d bits=%d maxd=%d cc=%d" % (b.w, b.bits, b.maxd, 1 if (b.cc and b.w != 128) else 0)
    if rc != 0 or want not in out:
        raise common.Infra("driver %s reports an unexpected configuration: %r (wanted %r)" % (b.name, out, want))
    return b

def build_all(builds, d):
    with cf.ThreadPoolExecutor(max_workers=4) as ex:
        return list(ex.map(lambda b: do_build(b, d), builds))

# ------------------------------------------------------------------------------------------------ cases
def case(op, a=0, b=0, m=0, al="sep", ca=1, cb=None, cm=None, cr=1, k=0, k2=0, xin=(), w=8):
    return {"op": op, "al": al, "ca": ca, "cb": cb if cb is not None else c1(b, w),
            "cm": cm if cm is not None else c1(m, w), "cr": cr, "k": k, "k2": k2, "a": a, "b": b, "m": m,
            "xin": list(xin)}

def case_line(c, poison):
    return "%s %s %d %d %d %d %d %d %d %s %s %s %s" % (
        c["op"], c["al"], c["ca"], c["cb"], c["cm"], c["cr"], c["k"], c["k2"], poison,
        limbs_s(c["a"]), limbs_s(c["b"]), limbs_s(c["m"]), csv(c["xin"]))

class Quota:
    """bounds the number of calls that are known to crash or hang on the unchanged tree (each one costs a driver restart / a watchdog period)"""
    def __init__(self, **lim): self.lim = dict(lim); self.used = {}
    def take(self, k):
        self.used[k] = self.used.get(k, 0) + 1
        return self.used[k] <= self.lim.get(k, 0)

def uniq(xs, lo, hi):
    return sorted({x for x in xs if lo <= x <= hi})

def be_bytes(x):
    return list(x.to_bytes((x.bit_length() + 7) // 8, "big"))

def unary_cases(a, w, maxd, digits, beyond=False):
    """calls with one big operand (plus a small parameter)"""
    out = []; ca0 = c1(a, w); L = a.bit_length()
    caps = uniq([ca0, ca0 + 1], ca0, maxd)
    for ca in caps:
        cb_ = ca * w
        for k in uniq([0, 1, 3, 7, 8, 9, w - 1, w, w + 1, 2 * w - 1, 2 * w, 3 * w + 1, cb_ - L - 1, cb_ - L, cb_ - L + 1, cb_ - 1, cb_], 0, cb_):
            out.append(case("l_shift", a, ca=ca, k=k, w=w))
        for k in uniq([0, 1, 7, 8, 9, w - 1, w, w + 1, 2 * w, L - 1, L, L + 1, ca0 * w - 1, ca0 * w], 0, ca0 * w):
            out.append(case("r_shift", a, ca=ca, k=k, w=w))
        for k in uniq([0, 1, w - 1, w, L - 1, L, cb_ - 1, cb_, cb_ + w], 0, 10 ** 9):
            for v in (0, 1):
                out.append(case("bit_set", a, ca=ca, k=k, k2=v, w=w))
        for d in digits:
            for op in ("add_digit", "sub_digit", "mult_digit"):
                out.append(case(op, a, d, ca=ca, cb=1, w=w))
        out.append(case("sqrt", a, ca=ca, w=w))
        for wnd in (2, 3, 4, 5):
            for sz in uniq([L + 1, L, L + 9], 1, 10 ** 9):
                out.append(case("naf", a, ca=ca, k=wnd, k2=sz, w=w))
    if beyond:     # shift counts beyond the declared capacity / the significant length (the API states no bound)
        out.append(case("l_shift", a, ca=ca0, k=ca0 * w + 1, w=w)); out.append(case("l_shift", a, ca=ca0, k=2 * ca0 * w + w + 3, w=w))
        out.append(case("r_shift", a, ca=ca0, k=ca0 * w + 8, w=w)); out.append(case("r_shift", a, ca=ca0, k=2 * ca0 * w + 9, w=w))
    out.append(case("naf", a, ca=ca0, k=1, k2=L + 1, w=w))
    for ca in uniq([ca0, 2 * ca0 - 1, 2 * ca0, 2 * ca0 + 1], ca0, maxd):
        out.append(case("square", a, a, ca=ca, w=w))
    for k in uniq([0, 1, w - 1, w, w + 1, L - 1, L, ca0 * w, ca0 * w + 5], 0, 10 ** 9):
        out.append(case("is_bit_set", a, ca=ca0, k=k, w=w))
    for op in ("is_zero", "is_one", "is_odd", "is_even", "is_pow2", "ctz", "clz", "calc_bits"):
        out.append(case(op, a, ca=caps[-1], w=w))
    for cr in uniq([1, ca0 - 1, ca0, maxd], 1, maxd):
        out.append(case("assign", a, ca=ca0, cr=cr, w=w))
    # export: buffer sizes around the exact need
    nb = (L + 7) // 8; dsz = ca0 * w // 8 if a else 0
    for op in ("exp_be_bin", "exp_le_bin", "exp_be_hex", "exp_le_hex"):
        hexf = 2 if op.endswith("hex") else 1
        for k in uniq([0, 1, 2, hexf * nb - 1, hexf * nb, hexf * nb + 1, hexf * dsz - 1, hexf * dsz, hexf * dsz + 3], 0, 10 ** 9):
            for fl in (0, 1):
                out.append(case(op, a, ca=ca0, k=k, k2=fl, w=w))
    # import: the value's own bytes/characters, padded / decorated
    bb = be_bytes(a)
    hx = [ord(ch) for ch in ("%x" % a)] if a else [48]
    hx_even = ([48] + hx) if len(hx) % 2 else hx
    for ca in caps:
        for pad in (0, 1, w // 8):
            out.append(case("imp_be_bin", ca=ca, xin=[0] * pad + bb, w=w))
            out.append(case("imp_le_bin", ca=ca, xin=bb[::-1] + [0] * pad, w=w))
        out.append(case("imp_be_bin", ca=ca, xin=[], w=w))
        out.append(case("imp_be_hex", ca=ca, xin=hx_even, w=w))
        out.append(case("imp_be_hex", ca=ca, xin=[ord(ch) for ch in bytes(hx_even).decode().upper()], w=w))
        out.append(case("imp_be_hex", ca=ca, xin=[48, 48] + hx_even[:2] + [58, 32] + hx_even[2:] + [10], w=w))
        out.append(case("imp_be_hex", ca=ca, xin=hx, w=w))             # odd number of nibbles when the top byte is < 0x10
        le = list(itertools.chain.from_iterable(hx_even[i:i + 2] for i in range(len(hx_even) - 2, -1, -2)))
        out.append(case("imp_le_hex", ca=ca, xin=le, w=w))
        out.append(case("imp_le_hex", ca=ca, xin=le[:2] + [45] + le[2:] + [48, 48], w=w))
    return out

def pair_cases(a, b, w, maxd, q, rich=True):
    """rich: every capacity/aliasing variant; lean: the core arithmetic at the tightest capacities (large corpora)"""
    out = []; ca0 = c1(a, w); cb0 = c1(b, w); da = dg(a, w); db = dg(b, w)
    same = (a == b)
    if not rich:
        out.append(case("add", a, b, ca=max(ca0, cb0), w=w)); out.append(case("sub", a, b, ca=ca0, w=w))
        out.append(case("cmp", a, b, ca=ca0, w=w))
        for ca in uniq([da + db - 1, da + db], ca0, maxd):
            out.append(case("mult", a, b, ca=ca, w=w))
        out.append(case("div", a, b, ca=ca0, cr=cb0, w=w)); out.append(case("div", a, b, al="ra", ca=ca0, w=w))
        out.append(case("gcd", a, b, ca=min(maxd, ca0 + 1), cb=min(maxd, cb0 + 1), cr=maxd, w=w))
        return out
    for ca in uniq([ca0, ca0 + 1, cb0, cb0 + 1], ca0, maxd):
        for op in ("add", "sub", "and", "or", "xor"):
            out.append(case(op, a, b, ca=ca, w=w))
            if same: out.append(case(op, a, b, al="ab", ca=ca, w=w))
    out.append(case("cmp", a, b, ca=ca0, w=w)); out.append(case("is_equal", a, b, ca=min(maxd, ca0 + 1), w=w))
    if same: out.append(case("cmp", a, b, al="ab", ca=ca0, w=w))
    for ca in uniq([ca0, da + db - 1, da + db, da + db + 1], ca0, maxd):
        out.append(case("mult", a, b, ca=ca, w=w))
        if same: out.append(case("mult", a, b, al="ab", ca=ca, w=w))
    for ca in uniq([ca0, ca0 + 1], ca0, maxd):
        for cr in uniq([1, cb0 - 1, cb0], 1, maxd):
            out.append(case("div", a, b, ca=ca, cr=cr, w=w))
        for al in ("nul", "ra", "rb"):
            out.append(case("div", a, b, al=al, ca=ca, w=w))
        if same:
            for al in ("ab", "abn", "abr"):
                out.append(case("div", a, b, al=al, ca=ca, cr=1, w=w))
    mask = (1 << w) - 1                         # digit-level entry points (portable double-digit multiply/divide)
    out.append(case("digit_mult", a & mask, b & mask, ca=2, cb=1, cr=2, w=w))
    out.append(case("digit_mult", (a >> w) & mask or a & mask, (b >> (b.bit_length() - w)) if b.bit_length() > w else b, ca=2, cb=1, cr=2, w=w))
    for d in {b & mask, (b >> w) & mask, 1 << (b.bit_length() % w)}:
        out.append(case("digit_div", a & ((1 << (2 * w)) - 1), d, ca=2, cb=1, cr=2, w=w))
        out.append(case("digit_div", a & mask, d, ca=2, cb=1, cr=2, w=w))
    for op in ("gcd", "gcd_bin"):
        for (ca, cb) in {(ca0, cb0), (min(maxd, ca0 + 1), min(maxd, cb0 + 1))}:
            for cr in uniq([1, min(ca0, cb0), maxd], 1, maxd):
                out.append(case(op, a, b, ca=ca, cb=cb, cr=cr, w=w))
            out.append(case(op, a, b, al="da", ca=ca, cb=cb, w=w))
            out.append(case(op, a, b, al="db", ca=ca, cb=cb, w=w))
            if same:
                out.append(case(op, a, b, al="ab", ca=ca, cr=ca, w=w)); out.append(case(op, a, b, al="all", ca=ca, w=w))
    off = max(a.bit_length(), b.bit_length()) + 1
    if (a != 0 and b != 0) or a == b or q.take("jsf-zero-operand"):
        for sz in uniq([2 * off, 2 * off - 1, 2 * off + 7], 1, 10 ** 9):
            out.append(case("jsf", a, b, ca=ca0, k2=sz, w=w))
    if same: out.append(case("jsf", a, b, al="ab", ca=ca0, k2=2 * off, w=w))
    return out

def mod_cases(a, b, m, prime, w, maxd, q, first_b=True):
    """first_b: also emit the calls that do not involve b"""
    out = []; ca0 = c1(a, w); cm0 = c1(m, w); dm = dg(m, w); da = dg(a, w); db = dg(b, w)
    for ca in uniq([ca0, ca0 + 1], ca0, maxd) if first_b else []:
        out.append(case("mod", a, m=m, ca=ca, w=w))
    for ca in uniq([ca0, da + db, 2 * dm, 2 * dm + 1], ca0, maxd):
        out.append(case("mod_mult", a, b, m, ca=ca, w=w))
        if first_b: out.append(case("mod_square", a, a, m, ca=ca, w=w))
        if a == b: out.append(case("mod_mult", a, b, m, al="ab", ca=ca, w=w))
    reaches_loop = 0 < a < m and math.gcd(a, m) != 1          # hangs on the unchanged tree
    if first_b and (not reaches_loop or q.take("mod_inv-not-invertible")):
        for ca in uniq([max(ca0, cm0), maxd], ca0, maxd)[:(1 if reaches_loop else 2)]:
            out.append(case("mod_inv", a, m=m, ca=ca, w=w))
    if m >= 2:
        for ca in uniq([ca0, ca0 + 1], ca0, maxd) if first_b else []:
            out.append(case("mod_reduce", a, m=m, ca=ca, w=w))
        if a < m and b < m:
            for ca in uniq([cm0, cm0 + 1], ca0, maxd):
                out.append(case("mod_add", a, b, m, ca=ca, w=w)); out.append(case("mod_sub", a, b, m, ca=ca, w=w))
                if a == b:
                    out.append(case("mod_add", a, b, m, al="ab", ca=ca, w=w)); out.append(case("mod_sub", a, b, m, al="ab", ca=ca, w=w))
        if a < m:
            for ca in uniq([cm0, 2 * dm, 2 * dm + 1], max(ca0, 1), maxd):
                out.append(case("mod_exp", a, b, m, ca=ca, w=w))
            if cm0 + 1 <= maxd:
                out.append(case("mod_exp", a, b, m, ca=cm0, cm=cm0 + 1, w=w))
        if first_b and (prime or m % 2 == 0):
            for ca in uniq([max(ca0, cm0), 2 * dm, 2 * dm + 1], ca0, maxd):
                out.append(case("mod_sqrt", a, m=m, ca=ca, w=w))
    return out

# ------------------------------------------------------------------------------------------------ run + judge
def parse_answer(line):
    f = dict(p.split("=", 1) for p in line.split())
    return {"rc": int(f["rc"]), "c": int(f["c"]), "cnt": int(f["cnt"]), "nz": int(f["nz"]), "n": int(f["n"]),
            "n2": int(f["n2"]), "r": parse_list(f["r"]), "r2": parse_list(f["r2"]), "xs": parse_list(f["xs"])}

MAX_CRASHES = 40      # per driver run; the quotas keep the crashes of the known findings far below this

def batch_run_capped(exe, lines, env, timeout, max_crashes=None):
    """like common.batch_run (one answer line per case, restart after a crash), but gives up after MAX_CRASHES dead
    driver processes: a defect that makes most calls hang must end in a verdict, not in a rig timeout.
    -> (results, number of cases actually run)"""
    res = [None] * len(lines); i = 0; crashes = 0
    max_crashes = max_crashes or MAX_CRASHES
    e = {"UBSAN_OPTIONS": "print_stacktrace=1:halt_on_error=1"}; e.update(env)
    while i < len(lines) and crashes < max_crashes:
        rc, out = common.sh([exe], stdin=("\n".join(lines[i:]) + "\n").encode(), timeout=timeout, env=e)
        k = 0
        for ln in out.split("\n"):
            if ln.startswith("==") or "runtime error:" in ln or ln.startswith("FAULT") or ln.startswith("[rig] TIMEOUT"): break
            if ln.strip() == "": continue
            if i + k >= len(lines): break
            res[i + k] = ln; k += 1
        if rc == 0 and i + k >= len(lines):
            return res, len(lines)
        if i + k >= len(lines):
            raise common.Infra("driver exited rc=%s after answering everything:\n%s" % (rc, out[-2000:]))
        key = common.san_key(out) or (("timeout", "", "", "driver timeout") if rc == 124 else ("exit-%s" % rc, "", "", out[-300:]))
        res[i + k] = {"crash": key, "raw": out[-2500:]}
        i += k + 1; crashes += 1
    return res, i

def run_cases(ctx, bld, cases, alarm, max_crashes=None):
    """-> list of events (dicts for TLC); crashes become events with rc = CRASH_RC"""
    lines = [case_line(c, POISONS[i % len(POISONS)]) for i, c in enumerate(cases)]
    env = {"ASAN_OPTIONS": "detect_leaks=0:abort_on_error=0:detect_stack_use_after_return=0:allocator_may_return_null=1",
           "BN_DRV_ALARM": str(alarm)}
    res, done = batch_run_capped(bld.exe, lines, env, timeout=1800, max_crashes=max_crashes)
    if done < len(lines):
        ctx.log("%s: gave up after %d dead driver processes; %d of %d calls not run" % (bld.name, max_crashes or MAX_CRASHES, len(lines) - done, len(lines)))
        ctx.add(calls_not_run_after_crash_cap=len(lines) - done)
        cases, lines, res = cases[:done], lines[:done], res[:done]
    evs = []
    byop = ctx.cov.setdefault("calls_by_operation", {})
    for c in cases: byop[c["op"]] = byop.get(c["op"], 0) + 1
    for i, (c, ln, a) in enumerate(zip(cases, lines, res)):
        ev = {"id": i, "op": c["op"], "al": c["al"], "w": bld.w, "maxd": bld.maxd, "ca": c["ca"], "cb": c["cb"],
              "cm": c["cm"], "cr": c["cr"], "k": c["k"], "k2": c["k2"], "a": limbs(c["a"]), "b": limbs(c["b"]),
              "m": limbs(c["m"]), "xin": c["xin"]}
        if isinstance(a, dict):
            ev.update({"rc": CRASH_RC, "c": 0, "cnt": 0, "nz": 1, "n": 0, "n2": 0, "r": [], "r2": [], "xs": []})
            ev["_crash"] = a
        elif a.startswith("ERR"):
            raise common.Infra("driver %s refused a case (rig bug): %s\n%s" % (bld.name, a, ln))
        else:
            ev.update(parse_answer(a))
        ev["_line"] = ln; ev["_bld"] = bld.name
        evs.append(ev)
    return evs

# appended to every judged file: a fabricated wrong outcome that TLC must reject (guards against a vacuous judge)
CANARY = {"op": "mult", "al": "sep", "w": 8, "maxd": 8, "ca": 2, "cb": 1, "cm": 1, "cr": 1, "k": 0, "k2": 0, "a": [3], "b": [5], "m": [],
          "xin": [], "rc": 0, "c": 0, "cnt": 2, "nz": 1, "n": 0, "n2": 0, "r": [16], "r2": [], "xs": []}

def judge(ctx, label, evs, cfg, chunk=40000):
    """TLC judges every event; returns list of (event, why, shape)"""
    ws = common.tlc_workspace()
    chunks = [evs[i:i + chunk] for i in range(0, len(evs), chunk)] or [[]]
    d = common.scratch("lcbv-c01tr-")
    def one(ix):
        path = os.path.join(d, "%s-%d.ndjson" % (label, ix))
        with open(path, "w") as f:
            for j, ev in enumerate(chunks[ix]):
                ev["id"] = j
                f.write(json.dumps({k: v for k, v in ev.items() if not k.startswith("_")}, separators=(",", ":")) + "\n")
            f.write(json.dumps(dict(CANARY, id=len(chunks[ix])), separators=(",", ":")) + "\n")
        r = common.tlc("TraceBn", cfg=cfg, workers=1, env={"TRACE": path}, timeout=3000, xss="512m", xmx="4g")
        os.unlink(path)
        if r.rc != 0:
            raise common.Infra("TraceBn could not judge %s chunk %d (spec/rig error, not a verdict): %s\n%s"
                               % (label, ix, r.violation, r.out[-3000:]))
        printed = common.tlc_printed_json(r.out)
        rec = [p for p in printed if "validated" in p]
        if not rec or rec[-1]["validated"] != len(chunks[ix]) + 1:
            raise common.Infra("TraceBn receipt missing/short for %s chunk %d:\n%s" % (label, ix, r.out[-2000:]))
        rejs = [p for p in printed if "reject" in p]
        if not any(p["reject"] == len(chunks[ix]) and p["why"] == "success-with-wrong-value" for p in rejs):
            raise common.Infra("TraceBn accepted the deliberately wrong canary call (3*5=16): the judge is vacuous\n" + r.out[-2000:])
        rec[-1]["validated"] -= 1
        return r, rec[-1], [(chunks[ix][p["reject"]], p["why"], p["shape"]) for p in rejs if p["reject"] < len(chunks[ix])]
    rej = []
    with cf.ThreadPoolExecutor(max_workers=4) as ex:
        for r, rec, rj in ex.map(one, range(len(chunks))):
            ctx.add(events_judged_by_tlc=rec["validated"], tlc_judge_wall_s=round(r.wall, 1))
            ctx.cov["bigint_override_active"] = bool(rec["xactive"])
            rej += rj
    return rej

def report(ctx, rejects):
    """one failure per key (what fails + input class); the detail lists the count and the first examples"""
    agg = ctx.cov.setdefault("_agg", {})
    for ev, why, shape in rejects:
        if ev["rc"] == CRASH_RC:
            key = "bn_%s:crash-or-hang:%s" % (ev["op"], shape)      # sanitizer kind / fault signal / watchdog: one class
            ex = "build %s\ncase %s\n%s" % (ev["_bld"], ev["_line"], ev["_crash"]["raw"][-700:])
        else:
            key = "bn_%s:%s:%s" % (ev["op"], why, shape)
            ex = "build %s\ncase %s\nobserved rc=%s c=%s nz=%s n=%s r=%s r2=%s xs=%s" % (
                ev["_bld"], ev["_line"][:600], ev["rc"], ev["c"], ev["nz"], ev["n"], ev["r"][:40], ev["r2"][:40], ev["xs"][:64])
        a = agg.setdefault(key, {"count": 0, "examples": [], "replay": {"build": ev["_bld"], "case": ev["_line"], "why": why, "shape": shape}})
        a["count"] += 1
        if len(a["examples"]) < 3: a["examples"].append(ex)

def flush_failures(ctx):
    agg = ctx.cov.pop("_agg", {})
    for key in sorted(agg):
        a = agg[key]
        ctx.fail(key, "%d rejected call(s); case line = op alias ca cb cm cr k k2 poison A B M X (13-bit limbs)\n%s"
                 % (a["count"], "\n--\n".join(a["examples"])), a["replay"])
    ctx.cov["rejected_calls_by_key"] = {k: agg[k]["count"] for k in sorted(agg)}

# ------------------------------------------------------------------------------------------------ tier B
def write_cfg(name, text):
    with open(os.path.join(common.tlc_workspace(), name), "w") as f:
        f.write(text)
    return name

def tlc_set(xs):
    return "{" + ", ".join(map(str, sorted(xs))) + "}"

INVS = "RoundTrip AddSubOk MulOk DivOk ShiftOk BitOpOk GcdSqrtOk ModExpOk CodecOk DigitOk"
def gen_cfg(name, digsA, ndA, digsB, ndB, exA, exB, mods, primes):
    return write_cfg(name, "INIT Init\nNEXT Next\nCONSTANTS\n DigsA = %s\n NDigA = %d\n DigsB = %s\n NDigB = %d\n"
                     " ExtraA = %s\n ExtraB = %s\n Mods = %s\n Primes = %s\nINVARIANTS %s\nCONSTRAINT Emit\nCHECK_DEADLOCK FALSE\n"
                     % (tlc_set(digsA), ndA, tlc_set(digsB), ndB, tlc_set(exA), tlc_set(exB), tlc_set(mods), tlc_set(primes), INVS))

def run_gen(ctx, cfgs):
    def one(cfg):
        r = common.tlc("GenBn", cfg=cfg, workers=1, timeout=3000, xss="64m", xmx="3g")
        if r.rc != 0:
            raise common.Infra("the reference arithmetic failed its own algebra inside TLC (spec bug, not a code verdict): %s\n%s"
                               % (r.violation, r.out[-3000:]))
        tuples = list({(t["a"], t["b"], t["m"]): t for t in common.tlc_printed_json(r.out)}.values())   # the stuttering step re-emits each state
        if len(tuples) != r.distinct:
            raise common.Infra("corpus emission lost tuples: %d printed vs %d distinct (%s)" % (len(tuples), r.distinct, cfg))
        return r, tuples
    out = []
    with cf.ThreadPoolExecutor(max_workers=4) as ex:
        for cfg, (r, tuples) in zip(cfgs, ex.map(one, cfgs)):
            ctx.tlc_stats(r, "GenBn/" + cfg)
            out += [(cfg, t) for t in tuples]
    return out

FULL_DIGS = [0, 1, 2, 0x7f, 0x80, 0xfe, 0xff]
SMALL_PRIMES = [3, 7, 13, 17, 41, 241, 251, 257, 65521, 65537, 16777213]   # 3 mod 4, 5 mod 8, 1 mod 8 (Tonelli-Shanks), 1..3 digits
def tier_b(ctx, builds):
    rng = random.Random(ctx.seed * 7919 + 1)
    if ctx.quick:
        exA = {rng.randrange(1 << rng.choice((8, 16, 24))) for _ in range(6)}
        exB = {rng.randrange(1 << rng.choice((8, 16, 24))) for _ in range(5)}
        cfgs = [gen_cfg("GenBn_run_pairs.cfg", [0, 1, 0x7f, 0x80, 0xff], 2, [0, 1, 0x80, 0xff], 2, exA | {0x800000, 0xffffff, 0x010000, 0xff00ff}, exB | {0x010000, 0xffffff}, [0], [])]
        mods = [0, 1, 2, 4, 15, 255, 256, 65535] + [3, 7, 13, 17, 251, 257, 65521, 16777213]
        primes = [3, 7, 13, 17, 251, 257, 65521, 16777213]
        cfgs.append(gen_cfg("GenBn_run_mod.cfg", [0, 1, 2, 0x80, 0xff], 1, [0, 1, 2, 0xff], 1, {3, 4, 5, 250, 256, 0x1234, 65520, 0xffffff} | set(list(exA)[:2]),
                            {3, 16, 0x101, 65519} | set(list(exB)[:1]), mods, primes))
    else:
        exA = {rng.randrange(1 << rng.choice((8, 16, 24))) for _ in range(40)}
        exB = {rng.randrange(1 << rng.choice((8, 16, 24))) for _ in range(30)}
        cfgs = []
        parts = [[0, 1], [2, 0x7f], [0x80, 0xfe], [0xff]]
        for i, part in enumerate(parts):       # partition on the top digit of a: 4 TLC processes
            vals = {d0 + 256 * d1 + 65536 * d2 for d0 in FULL_DIGS for d1 in FULL_DIGS for d2 in part}
            ex = vals | (exA if i == 0 else set())
            cfgs.append(gen_cfg("GenBn_run_pairs%d.cfg" % i, [0], 1, FULL_DIGS, 3, ex, exB, [0], []))
        mods = [0, 1, 2, 4, 6, 15, 128, 255, 256, 65535, 65536, 0xfffffe] + SMALL_PRIMES
        cfgs.append(gen_cfg("GenBn_run_mod.cfg", [0, 1, 2, 0x7f, 0x80, 0xff], 1, [0, 1, 2, 3, 0x80, 0xff], 1,
                            {3, 4, 5, 250, 256, 0x1234, 65520, 65536, 0xffffff} | set(list(exA)[:8]),
                            {16, 0x101, 65519, 0xfffffe} | set(list(exB)[:4]), mods, SMALL_PRIMES))
    tuples = run_gen(ctx, cfgs)
    ctx.add(generated_operand_tuples=len(tuples))
    w = 8
    rich_b = set(range(256)) | {d0 + 256 * d1 for d0 in (0, 1, 0x7f, 0x80, 0xff) for d1 in (0, 1, 0x7f, 0x80, 0xff)}
    for bi, bld in enumerate(builds):
        seen_a = set(); seen_am = set(); total = [0, 0]
        digs = FULL_DIGS + [3, 4]
        q = Quota(**{"jsf-zero-operand": 8, "mod_inv-not-invertible": 6, "shift-beyond": 5})
        def flush(cases):
            if ctx.quick and bi > 0: cases = cases[bi::2]      # second build of the quick tier: every other call
            evs = run_cases(ctx, bld, cases, alarm=2)
            rej = judge(ctx, "b-" + bld.name, evs, "TraceBn.cfg", chunk=60000)
            report(ctx, rej)
            total[0] += len(evs); total[1] += len(rej)
            if total[0] == len(evs): ctx.add(samples=[{"build": e["_bld"], "call": e["_line"], "rc": e["rc"], "c": e["c"], "r": e["r"], "r2": e["r2"]} for e in evs[100:103]])
            ctx.add(evaluations=len(evs), distinct_nontrivial=len({e["_line"] for e in evs}))
        cases = []
        for ti, (cfg, t) in enumerate(tuples):
            a, b, m = t["a"], t["b"], t["m"]
            if "pairs" in cfg:
                rich = ctx.quick or b in rich_b
                if rich or bi == 0 or ti % 2 == 0:                 # thorough: the second build takes every other lean pair
                    cases += pair_cases(a, b, w, bld.maxd, q, rich=rich)
                if a not in seen_a:
                    seen_a.add(a)
                    cases += unary_cases(a, w, bld.maxd, digs, beyond=(a > 0 and len(seen_a) % 11 == 3 and q.take("shift-beyond")))
            else:
                cases += mod_cases(a, b, m, t["pr"], w, bld.maxd, q, first_b=((a, m) not in seen_am))
                seen_am.add((a, m))
            if len(cases) >= 240000:
                flush(cases); cases = []
        if cases: flush(cases)
        ctx.add(traces_validated_against_impl=1, builds=[bld.name])
        ctx.log("tier B %s: %d calls judged, %d rejected" % (bld.name, total[0], total[1]))

# ------------------------------------------------------------------------------------------------ tier S
def hang_budget(ctx):
    """(watchdog seconds per call, dead driver processes tolerated per build) for the full-width tiers: a change that makes many
    calls loop must end in a verdict within the tier's time budget (quick: <= 10 x 8 s per build), not in a rig timeout"""
    return (8, 10) if ctx.quick else (20, MAX_CRASHES)

def unlimbs(ls):
    v = 0
    for i, l in enumerate(ls): v |= l << (LB * i)
    return v

def run_scalar_gen(ctx, widths):
    """TLC enumerates the boundary scalars (GenBnScalar) -> {(w, cls): [values]}"""
    seeds = {(ctx.seed * 37 + 5) % 60000, (ctx.seed * 101 + 13) % 60000}
    cfg = write_cfg("GenBnScalar_run.cfg", "INIT Init\nNEXT Next\nCONSTANTS\n Widths = %s\n Seeds = %s\n"
                    "INVARIANTS ClassOk ExpSplit MulSplit ShiftSplit\nCONSTRAINT Emit\nCHECK_DEADLOCK FALSE\n"
                    % (tlc_set(set(widths) | {64}), tlc_set(seeds)))
    r = common.tlc("GenBnScalar", cfg=cfg, workers=1, timeout=1500, xss="64m", xmx="3g")
    if r.rc != 0:
        raise common.Infra("the reference arithmetic failed its own algebra at a limb boundary inside TLC (spec bug, not a code verdict): %s\n%s"
                           % (r.violation, r.out[-3000:]))
    sts = {(t["w"], t["cls"], tuple(t["s"])): t for t in common.tlc_printed_json(r.out)}     # the stuttering step re-emits each state
    if len(sts) != r.distinct:
        raise common.Infra("scalar corpus emission lost states: %d printed vs %d distinct" % (len(sts), r.distinct))
    out = {}
    for (w, cls, s), t in sorted(sts.items()):
        out.setdefault((w, cls), []).append((unlimbs(s), t["bits"], set(t["cut"])))
    # a narrowing to h bits must be visible in the corpus of every width that has digits / words wider than h
    for w in widths:
        for h in (8, 16, 32, 64):
            if h < w and not any(h in cut for _, _, cut in out.get((w, "digit"), [])):
                raise common.Infra("scalar corpus: no %d-bit digit whose cut to %d bits changes the probe power" % (w, h))
        if not any(cut for _, _, cut in out.get((w, "two"), [])):
            raise common.Infra("scalar corpus: no two-digit exponent for width %d whose cut shows" % w)
    for h in (8, 16, 32):
        if not any(h in cut for _, _, cut in out.get((64, "size"), [])):
            raise common.Infra("scalar corpus: no machine word whose cut to %d bits shows" % h)
    return r, out

ONE_DIGIT_PRIME = {8: 251, 16: 65521, 32: 2 ** 32 - 5, 64: 2 ** 64 - 59, 128: 2 ** 127 - 1}
LONG_A = int("9e3779b97f4a7c15f39cc0605cedc834" * 11, 16)            # 1408 bits, top bit set (input only)

def scalar_probes(w):
    """(a, m) pairs for the modular calls: one-digit prime, many-digit prime, two-digit odd composite; a < m"""
    m1 = ONE_DIGIT_PRIME[w]; m2 = 2 ** 255 - 19; m3 = (0xf1 << w) + 0x35
    return [(m1 - 2, m1), (3 % m1, m1), (m2 - 2, m2), (7, m2), (m3 - 1, m3)]

def scalar_cases(corpus, w, maxd, lean):
    """calls of every entry point that takes a digit / machine word / small exponent, for the scalars TLC listed"""
    out = []; mask = (1 << w) - 1; capbits = maxd * w
    probes = scalar_probes(w)
    def modcaps(m): return uniq([2 * dg(m, w), 2 * dg(m, w) + 1], 1, maxd)
    prev = 6
    for s, bits, cut in corpus.get((w, "digit"), []):
        for (a, m) in probes:                                   # the scalar as the exponent of bn_mod_exp (one digit)
            for ca in modcaps(m)[:1 if lean and a < 8 else 2]:
                out.append(case("mod_exp", a, s, m, ca=ca, w=w))
                if bits <= 64: out.append(case("mod_exp_digit", a, s, m, ca=ca, w=w))
                out.append(case("mod_mult_digit", a, s, m, ca=ca, cb=1, w=w))
            out.append(case("mod_mult_digit", a, s, m, ca=dg(m, w) + 1, cb=1, w=w))
        for a in (mask, (mask << w) | mask, (5 << w) | 3, s, (1 << (3 * w)) | (s >> 1)):
            for ca in uniq([c1(a, w), c1(a, w) + 1], 1, maxd):
                for op in ("add_digit", "sub_digit", "mult_digit"):
                    out.append(case(op, a, s, ca=ca, cb=1, w=w))
        for a in (0, 1, 2, 3, mask, (1 << w) | 1):
            for ca in uniq([c1(a, w), 4 * c1(a, w), maxd], 1, maxd):
                out.append(case("exp_digit", a, s, ca=ca, cb=1, w=w))
        if s:
            out.append(case("assign_digit", mask, s, ca=1, cb=1, w=w)); out.append(case("assign_digit", (mask << w) | 1, s, ca=3, cb=1, w=w))
        out.append(case("digit_ctz", s, ca=1, w=w)); out.append(case("digit_clz", s, ca=1, w=w))
        for d in (s, prev, 6, 1 << (w - 1), mask):
            for op in ("digit_gcd", "digit_gcd_bin"):
                out.append(case(op, s, d, ca=1, cb=1, w=w))
            out.append(case("digit_mult", s, d, ca=2, cb=1, cr=2, w=w))
            if d:
                out.append(case("digit_div", (s << w) | d, d, ca=2, cb=1, cr=2, w=w)); out.append(case("digit_div", (prev << w) | s, d, ca=2, cb=1, cr=2, w=w))
        if s: out.append(case("digit_div", (mask << w) | mask, s, ca=2, cb=1, cr=2, w=w))
        for op in ("is_zero", "is_one", "is_odd", "is_pow2", "ctz", "clz", "calc_bits", "sqrt"):
            out.append(case(op, s, ca=1, w=w)); out.append(case(op, s, ca=2, w=w))
        prev = s
    for s, bits, cut in corpus.get((w, "two"), []):            # two-digit exponents (zero / all-ones low digit, ...)
        for (a, m) in probes:
            for ca in modcaps(m):
                out.append(case("mod_exp", a, s, m, ca=ca, w=w))
        for op in ("is_one", "is_pow2", "ctz", "clz", "calc_bits", "sqrt"):
            out.append(case(op, s, ca=2, w=w))
    small_a = 0x1234567
    for s, bits, cut in corpus.get((64, "size"), []):           # machine words: exponents, shift counts, bit indices
        for (a, m) in probes:
            out.append(case("mod_exp_digit", a, s, m, ca=modcaps(m)[0], w=w))
        if s < (1 << 30):
            out.append(case("r_shift", LONG_A, ca=maxd, k=s, w=w)); out.append(case("r_shift", (LONG_A >> 13) | 1, ca=maxd, k=s, w=w))
            for a in (0, small_a, LONG_A, mask):
                out.append(case("is_bit_set", a, ca=max(1, c1(a, w)), k=s, w=w))
        if s < (1 << 30):
            if s + 25 <= capbits: out.append(case("l_shift", small_a, ca=maxd, k=s, w=w)); out.append(case("l_shift", 1, ca=maxd, k=s, w=w))
            if s >= capbits: out.append(case("l_shift", small_a, ca=maxd, k=s, w=w))          # everything shifted out / unspecified, must not crash
            for a in (0, small_a, LONG_A):
                for v in (0, 1):
                    out.append(case("bit_set", a, ca=maxd, k=s, k2=v, w=w))
            out.append(case("bit_set", 1, ca=min(maxd, max(1, (s // w))), k=s, k2=1, w=w))               # index just beyond the capacity
            out.append(case("assign_2exp", LONG_A, ca=maxd, k=s, w=w)); out.append(case("assign_2exp", 1, ca=min(maxd, max(1, (s // w))), k=s, w=w))
            out.append(case("assign_2exp", 1, ca=min(maxd, (s // w) + 1), k=s, w=w))
    return out

def tier_s(ctx, sbuilds, gen, own):
    """-> events of the scalar corpus on every build in sbuilds (judged together with tier C); own = builds only this tier uses"""
    r, corpus = gen
    ctx.tlc_stats(r, "GenBnScalar")
    ctx.add(generated_boundary_scalars=sum(len(v) for v in corpus.values()))
    def one_build(bld):
        cases = scalar_cases(corpus, bld.w, bld.maxd, lean=ctx.quick)
        return run_cases(ctx, bld, cases, *hang_budget(ctx))
    pool = []
    with cf.ThreadPoolExecutor(max_workers=4) as ex:
        for bld, evs in zip(sbuilds, ex.map(one_build, sbuilds)):
            pool += evs
            ctx.add(evaluations=len(evs), scalar_boundary_calls=len(evs), distinct_nontrivial=len({e["_line"] for e in evs}))
            if bld in own: ctx.add(builds=[bld.name], traces_validated_against_impl=1)
    ctx.cov["scalar_boundary_widths"] = sorted({b.w for b in sbuilds})
    ctx.log("tier S: %d boundary scalars x %d builds (digit widths %s): %d calls" % (
        sum(len(v) for v in corpus.values()), len(sbuilds), sorted({b.w for b in sbuilds}), len(pool)))
    return pool

# ------------------------------------------------------------------------------------------------ tier C
KNOWN_PRIMES = [
    2 ** 192 - 2 ** 64 - 1, 2 ** 224 - 2 ** 96 + 1, 2 ** 256 - 2 ** 224 + 2 ** 192 + 2 ** 96 - 1,
    2 ** 384 - 2 ** 128 - 2 ** 96 + 2 ** 32 - 1, 2 ** 521 - 1, 2 ** 255 - 19, 2 ** 256 - 2 ** 32 - 977,
    0xffffffff00000000ffffffffffffffffbce6faada7179e84f3b9cac2fc632551, 2 ** 127 - 1, 2 ** 61 - 1, 65537, 2 ** 89 - 1,
    0xfffffffffffffffffffffffffffffffffffffffffffffffffffffffffffffd97,    # GOST-style 256-bit, 3 mod 4 and 5 mod 8 variants below
    2 ** 130 - 5, 2 ** 107 - 1]

def rnd_val(rng, maxbits, w):
    r = rng.random()
    if r < 0.25: bits = rng.randint(1, maxbits)
    elif r < 0.5: bits = max(1, min(maxbits, rng.randint(1, max(1, maxbits // w)) * w + rng.choice((-1, 0, 0, 1))))
    elif r < 0.75: bits = rng.randint(1, min(maxbits, 4 * w))
    else: bits = min(maxbits, rng.choice((192, 224, 256, 384, 521)))
    p = rng.random()
    if p < 0.18: v = (1 << bits) - 1
    elif p < 0.30: v = 1 << (bits - 1)
    elif p < 0.42: v = ((1 << bits) - 1) - rng.randrange(1 << min(bits, w))
    elif p < 0.60:                                # digit-granular runs of 0x00.. / 0xff.. / random digits
        v = 0
        for i in range((bits + w - 1) // w):
            q = rng.random()
            d = 0 if q < 0.3 else ((1 << w) - 1 if q < 0.65 else (rng.randrange(1 << w) if q < 0.9 else rng.choice((1, 1 << (w - 1), (1 << w) - 2))))
            v |= d << (i * w)
        v &= (1 << bits) - 1
    else: v = rng.getrandbits(bits)
    return v

def tier_c(ctx, builds, per_build, extra=()):
    def one_build(bld):
        rng = random.Random(ctx.seed * 104729 + 17)      # same operands for every configuration
        w, maxd, bits = bld.w, bld.maxd, bld.bits
        digs = [0, 1, 2, 3, 4, (1 << (w - 1)) - 1, 1 << (w - 1), (1 << w) - 2, (1 << w) - 1, rng.getrandbits(w), 1 << (w // 2), (1 << (w // 2)) + 1]
        cases = []
        half = bits // 2
        q = Quota(**{"jsf-zero-operand": 3, "mod_inv-not-invertible": 2, "shift-beyond": 3})
        while len(cases) < per_build * 6:
            a = rnd_val(rng, bits if rng.random() < 0.4 else half, w); b = rnd_val(rng, half, w)
            if rng.random() < 0.12: b = a
            if rng.random() < 0.1: b = rnd_val(rng, w, w)
            cases += pair_cases(a, b, w, maxd, q)
            cases += unary_cases(a, w, maxd, rng.sample(digs, 4), beyond=(a > 0 and rng.random() < 0.05 and q.take("shift-beyond")))
            mb = min(half, rng.choice((w, 2 * w, 192, 256, 384, 521, half)))
            kind = rng.random()
            if kind < 0.45:
                m = rng.choice([p for p in KNOWN_PRIMES if p.bit_length() <= half] or [65537]); prime = True
            else:
                m = rnd_val(rng, mb, w) | (1 if kind < 0.8 else 0); prime = False
            if m < 2: m = 3; prime = True
            x = rnd_val(rng, m.bit_length(), w) % m if rng.random() < 0.8 else rnd_val(rng, half, w)
            y = rnd_val(rng, m.bit_length(), w) % m if rng.random() < 0.8 else rnd_val(rng, min(half, 64), w)
            if prime and rng.random() < 0.5: x = (x * x) % m         # make residues frequent (input construction only)
            cases += mod_cases(x, y, m, prime, w, maxd, q)
        cases = [c for c in cases if c["k"] < (1 << 30) and c["k2"] < (1 << 30)]
        sel = rng.sample(cases, min(per_build, len(cases)))
        return run_cases(ctx, bld, sel, *hang_budget(ctx))
    pool = []
    with cf.ThreadPoolExecutor(max_workers=4) as ex:
        for bld, evs in zip(builds, ex.map(one_build, builds)):
            pool += evs
            ctx.add(evaluations=len(evs), traces_validated_against_impl=1, builds=[bld.name], distinct_nontrivial=len({e["_line"] for e in evs}))
    npool = len(pool)
    pool += list(extra)                               # tier S events: one judging pass for both
    rej = judge(ctx, "c", pool, "TraceBn.cfg", chunk=max(700, min(20000, (len(pool) + 3) // 4)))
    report(ctx, rej)
    ctx.add(samples=[{"build": e["_bld"], "call": e["_line"][:300], "rc": e["rc"], "r": e["r"][:12]} for e in pool[:3]])
    per = {}
    for ev, _, _ in rej: per[ev["_bld"]] = per.get(ev["_bld"], 0) + 1
    ctx.log("tier C+S: %d builds, %d + %d calls judged, %d rejected %s" % (len(builds), npool, len(pool) - npool, len(rej), per if len(per) < 8 else ""))

def has_int128(compiler, d):
    src = os.path.join(d, "i128.c")
    open(src, "w").write("__uint128_t f(__uint128_t a){return a*a;}\nint main(void){return (int)f(3);}\n")
    rc, _ = common.sh([compiler, src, "-o", os.path.join(d, "i128")], timeout=60)
    return rc == 0

def run(ctx):
    ctx.level = "exploration"
    d = common.scratch("lcbv-c01-")
    ws = common.tlc_workspace()
    rc, out = common.sh(["javac", "-cp", common.TLAJAR, "-d", ws, os.path.join(common.VERIF, "specs/num/BigNatX.java")], timeout=120)
    if rc != 0:
        raise common.Infra("javac failed for the BigNatX accelerator:\n" + out[-2000:])
    bbuilds = [Build(8, 64, False, "gcc", "-O1", True), Build(8, 64, True, "clang", "-O1", True)]
    i128 = has_int128("gcc", d) and has_int128("clang", d)
    if not i128: ctx.assumptions.append("128-bit digits skipped: compiler lacks __int128")
    if ctx.quick:
        cbuilds = [Build(64, 1408, True, "gcc", "-O2", False), Build(32, 1408, False, "clang", "-O3", False),
                   Build(16, 1408, False, "gcc", "-O0", False)] + ([Build(128, 1408, False, "clang", "-O2", False)] if i128 else [])
        own_s = [Build(8, 1408, False, "gcc", "-O1", False)]       # 8-bit digits at full length: shift counts / bit indices / exponents above one digit
        per_build = 700
    else:
        widths = [16, 32, 64] + ([128] if i128 else [])
        cbuilds = [Build(w, 1408, cc, comp, opt, False) for w in widths for cc in ((False, True) if w != 128 else (False,))
                   for comp in ("gcc", "clang") for opt in ("-O0", "-O2", "-O3")]
        own_s = [Build(8, 1408, cc, comp, "-O2", False) for cc in (False, True) for comp in ("gcc", "clang")]
        per_build = 2500
    sbuilds = own_s + cbuilds                                  # tier S: every digit width 8, 16, 32, 64, 128
    only = os.environ.get("VERIF_C01_ONLY", "")        # development aid: "b", "c" or "s"
    gen_ex = cf.ThreadPoolExecutor(max_workers=1)              # the scalar corpus is generated while tier B runs
    gen_f = gen_ex.submit(run_scalar_gen, ctx, sorted({b.w for b in sbuilds})) if only in ("", "s") else None
    build_all(bbuilds + own_s + cbuilds, d)
    ctx.log("built %d drivers" % (len(bbuilds) + len(own_s) + len(cbuilds)))
    if not ctx.quick:        # larger override-vs-definition sample, once per thorough run (every TraceBn run repeats the 40-tuple one)
        judge(ctx, "selfcheck", [], "TraceBn_thorough.cfg")
    if only in ("", "b"): tier_b(ctx, bbuilds)
    extra = tier_s(ctx, sbuilds, gen_f.result(), own_s) if gen_f else []
    gen_ex.shutdown()
    if only in ("", "c", "s"): tier_c(ctx, cbuilds if only != "s" else [], per_build, extra)
    flush_failures(ctx)
    ctx.cov["rule"] = ("tier B: operand tuples = all reachable states of GenBn (every value of 1..3 eight-bit digits over the boundary "
                       "digit set, plus seeded values, x moduli), expanded over declared capacities, aliasing patterns and parameters by "
                       "the table in this file; tier C: seeded operands up to BN_BIT_LEN bits per build configuration; tier S: scalar arguments = all "
                       "reachable states of GenBnScalar (digits, machine words and two-digit exponents around 2^8, 2^16, 2^32, 2^64, 2^w) for "
                       "every digit width 8..128, expanded over the scalar-taking entry points. Every call is "
                       "judged by TLC (BnOps!Judge); distinct = distinct driver call lines; non-trivial = all (zero operands are boundary cases)")
    ctx.assumptions += [
        "oracle = TLA+ modules specs/num/BigNat, BnOps evaluated by TLC; BigNat is itself checked against TLC native integers on the whole small-domain corpus (GenBn invariants)",
        "TraceBn runs use the java.math.BigInteger override BigNatX for Mul/DivMod/ModExp/Gcd/ISqrt; each TLC run first checks override = TLA+ definition on pseudo-random operand tuples (OverrideAgrees)",
        "add/sub family: carry/borrow output counts as the explicit overflow signal; bn_l_shift has no error channel, so its value is only demanded when the shifted value fits the capacity",
        "modular add/sub/exp are exercised with reduced operands (a, b < m) and m >= 2 as every caller in the repository does; mod_sqrt with prime or even moduli; is_even(0), ctz(0), clz(0) unspecified",
        "error codes are only compared as zero / non-zero (mod_sqrt: -1 = no root); values after a reported error are not inspected",
        "the driver's limb<->digit rendering (harness/bn_drv.c) and Python's input rendering are trusted; sanitizer: ASan on the 8-bit builds, plain builds in the compiler/optimisation matrix",
        "bn_exp_digit / bn_mod_exp_digit / bn_mod_mult_digit / bn_assign_digit / bn_assign_2exp / bn_digit_gcd / bn_digit_ctz / bn_digit_clz are exercised by tier S only (boundary scalars, a few fixed big operands)",
        "Barrett reduction, bn_egcd, bn_mod_inv1/2/3/_mont, bn_sqrt2..5, bn_mod_div are not exercised"]
