"""X08 (growth task) - the thread pool's public API outside messages / life cycle / delivery
(src/threadpool/threadpool.c): event-operation argument matrix, thread selection and identity, per-thread slots,
settings loaders, signal table.   Oracle: specs/grow/TpApi.tla (properties A..F in its header comment).

  A  TpApiGenEv      TLC enumerates the decision table (every entry point x operation x event x flags x fflags x ident class x
                     NULL-ness x history of the object) with the expected answer, kernel effect and timer programming and
                     checks the table's own algebra; harness/x08_drv.c `ev` runs every case on a real pool and reports what
                     came back and what reached epoll_ctl / timerfd_create / timerfd_settime / setsockopt (link-time wrappers).
  B  MC_TpApiRR      exhaustive model of k concurrent tp_thread_get_rr callers on the counter as the code implements it
                     (volatile, not atomic: 5 memory accesses per call) and as the proposed fix implements it (one atomic
                     step): "index in range", rotation / equal shares; `rr` stress of the real function.
  B,C,E MC_TpApiObj  exhaustive model of the object machine (thread states and counts, slots, signal table);
        TpApiTrace   scripted pools (harness/x08_drv.c `life`): every observation is validated by TLC event by event.
  D  TpApiGenSet     TLC enumerates setting texts (xml / ini) over a small alphabet with the expected structure and what
                     tp_create must make of it; `set` runs them.
Python draws inputs, renders them to driver lines and compares JSON values; every expectation is printed by TLC."""
import json, os, random, re
from rig import common

DRV = os.path.join(common.VERIF, "harness", "x08_drv.c")
WRAPS = "epoll_ctl,timerfd_create,timerfd_settime,setsockopt,close,sysconf,pthread_setaffinity_np,pthread_create,pthread_join"
EXTRA = ["src/utils/xml.c", "src/utils/ini.c", "src/utils/buf_str.c"]
OPN = {0: "add", 1: "del", 2: "enable", 3: "disable"}
EVN = {0: "read", 1: "write", 2: "timer", 3: "proc"}

def build(d, san="asan", opt="-O1"):
    return common.cc([DRV] + EXTRA, os.path.join(d, "x08_drv" + ("_" + san if san else "")),
                     compiler="clang" if san else "gcc", san=san, opt=opt,
                     defs=["-DTHREAD_POOL_SETTINGS_XML", "-DTHREAD_POOL_SETTINGS_INI"],
                     flags=["-Wno-unused-function", "-Wno-unused-variable", "-Wno-unused-parameter",
                            "-Wl," + ",".join("--wrap=" + w for w in WRAPS.split(","))])

def gen_cases(ctx, module, cfg, label, timeout=900):
    r = common.tlc(module, cfg=cfg, workers=1, timeout=timeout, xss="256m")
    ctx.tlc_stats(r, label)
    if r.rc != 0 or r.violation: raise common.Infra("%s: the table's own algebra failed in TLC: %s\n%s" % (module, r.violation, r.out[-2500:]))
    cases = common.tlc_printed_json(r.out)
    if len(cases) != r.distinct: raise common.Infra("%s lost cases: %d printed, %d states" % (module, len(cases), r.distinct))
    return cases

# ------------------------------------------------------------------ A: event operations
def ev_line(c):
    x = c["x"]
    pre = ";".join("%d:%d:%d:%d:%d" % (p["op"], p["event"], p["flags"], p["fflags"], p["data"]) for p in c["prec"]) or "-"
    return "ev entry=%s en=%d nul=%s identc=%s event=%d flags=%d fflags=%d data=%d other=%d cx=%d pre=%s" % (
        x["entry"], x["en"], x["nul"], x["identc"], x["event"], x["flags"], x["fflags"], x["data"], 1 if c["other"] else 0,
        1 if x["cx"] else 0, pre)

def ev_shape(c):
    """the call shape a finding is keyed by (inputs only)"""
    x = c["x"]
    op = {"add": "add", "add_args": "add", "add_args2": "add", "del": "del", "del_args1": "del"}.get(x["entry"]) or ("enable" if x["en"] else "disable")
    return "tpt_ev_%s:%s" % (op, EVN.get(x["event"], "event%d" % x["event"]))

def ev_compare(c, g):
    """-> list of (key-suffix, text) ; pure comparison of the driver's report with the spec's expectation"""
    e = c["exp"]; st = e["st"]; bad = []
    def d(what, exp, got):
        if exp != got: bad.append((what, "%s: expected %s, got %s" % (what, exp, got)))
    if g.get("prefail"): return [("history-step-refused", "history step %s of the case was refused" % g["prefail"])]
    if g["rc"] not in e["rcs"]: bad.append(("rc", "rc: expected one of %s, got %s" % (e["rcs"], g["rc"])))
    calls = g["nctl"] + g["nset"] + g["ncreate"] + g["nlowat"]
    if e["kernel"] == "none" and calls: bad.append(("refused-call-reached-kernel", "refused call made %d system calls (epoll_ctl %d settime %d create %d setsockopt %d)" % (calls, g["nctl"], g["nset"], g["ncreate"], g["nlowat"])))
    if e["kernel"] == "some" and not calls: bad.append(("no-kernel-call", "accepted call made no system call"))
    d("installed", st["inst"], g["inst"])
    if st["inst"]:
        d("epoll-events", sorted(st["evs"]), sorted(g["evs"])); d("epoll-data", st["by"], g["by"])
    d("lowat", e["lowat"], g["lowat"] if g["nlowat"] else 0)
    if e["lowat"] and not g["lowfd_ok"]: bad.append(("lowat-fd", "SO_RCVLOWAT set on another descriptor"))
    d("timer-exists", st["tm"]["has"], g["tm"])
    if st["tm"]["has"] and g["tm"]:
        d("timer-events", sorted(st["tmevs"]), sorted(g["tmevs"]))
        if not g["tdata_self"]: bad.append(("timer-data", "timer descriptor not installed with the user object"))
        if not g["tnonblock"]: bad.append(("timer-nonblock", "timer descriptor is blocking"))
        d("timer-clock-realtime", st["tm"]["real"], g["treal"])
        d("timer-remembered-flags", st["tm"]["fl"], g["tmemfl"])
    if e["create"]["has"]:
        if g["ncreate"] != 1: bad.append(("timer-create", "expected one timerfd_create, saw %d" % g["ncreate"]))
        else:
            d("timer-create-clock-realtime", e["create"]["real"], g["cr_real"]); d("timer-cloexec", e["create"]["cloexec"], g["tcloexec"])
    if e["settime"]["has"]:
        if g["nset"] < 1: bad.append(("timer-settime", "timer not programmed"))
        else:
            for k in ("abs", "sec", "nsec", "isec", "insec"): d("settime-" + k, e["settime"][k], g["set"][k])
            if g["tm"] and not g["set"]["ontimer"]: bad.append(("settime-fd", "another descriptor was programmed"))
    elif g["nset"]: bad.append(("unexpected-settime", "timerfd_settime called %d times" % g["nset"]))
    d("pidfd-exists", st["pf"], g["pf"])
    if st["pf"] and g["pf"]:
        d("pidfd-events", sorted(st["pfevs"]), sorted(g["pfevs"]))
        if not g["pdata_self"]: bad.append(("pidfd-data", "pidfd not installed with the user object"))
    return bad

def ev_table(ctx, exes, d):
    cases = gen_cases(ctx, "TpApiGenEv", "TpApiGenEv_%s.cfg" % ("quick" if ctx.quick else "thorough"), "TpApiGenEv (event decision table)")
    for exe in exes: ev_run(ctx, exe, cases)

def ev_run(ctx, exe, cases):
    lines = [ev_line(c) for c in cases]
    res = batch(exe, "ev", lines)
    fam = {}; nontriv = 0; seen = set()
    for c, r in zip(cases, res):
        fam[c["x"]["fam"]] = fam.get(c["x"]["fam"], 0) + 1
        if isinstance(r, dict) and r.get("skipped"): ctx.add(cases_not_run_after_repeated_watchdog_deaths=1); continue
        ctx.add(evaluations=1)
        if isinstance(r, dict):
            k = r["crash"]; key = "%s:crash:%s:%s" % (ev_shape(c), k[0], k[1] or "driver")
            if key not in seen: seen.add(key); ctx.fail(key, "case %s\n%s" % (json.dumps(c["x"]), r["raw"][-1500:]), {"case": c})
            continue
        g = json.loads(r)
        if 0 in c["exp"]["rcs"] or c["x"]["nul"] != "none" or c["x"]["pre"] != "none": nontriv += 1
        for what, text in ev_compare(c, g):
            key = "%s:%s" % (ev_shape(c), ev_key(c, what))
            if key in seen: continue
            seen.add(key)
            ctx.fail(key, "case %s\nhistory %s\n%s\nexpected %s\ngot %s" % (json.dumps(c["x"]), json.dumps(c["prec"]), text, json.dumps(c["exp"]), json.dumps(g)), {"case": c})
    if {"val", "nul", "hist", "ent", "cx"} - set(fam): raise common.Infra("vacuity: event table families missing: %s" % fam)
    ctx.add(distinct_nontrivial=nontriv, ev_cases_by_family=fam, samples=[{"ev_case": cases[len(cases) // 2]}])

def ev_key(c, what):
    """specific failing call shape: what differs + the input feature that selects the branch"""
    x = c["x"]; k = what
    if what in ("timer-clock-realtime", "settime-abs") and c["prec"]: k = "rearm-abstime-changed:" + what
    elif what == "timer-remembered-flags" and c["prec"]: k = "rearm-flags-changed:" + what
    elif what == "rc":
        if x["nul"] != "none": k = "rc:null-" + x["nul"]
        elif 0 not in c["exp"]["rcs"]: k = "rc:refusal-expected-%s" % "-".join(str(v) for v in c["exp"]["rcs"])
        else: k = "rc:accept-expected:pre-%s:ident-%s" % (x["pre"], x["identc"])
    return k

def batch(exe, mode, lines, timeout=600):
    """one stdin line per case, one JSON answer line per case; a sanitizer abort / fault / watchdog kills the driver on
    the case after the last complete answer: that case gets {"crash": key, "raw": text} and the run resumes behind it."""
    res = [None] * len(lines); i = 0; restarts = 0; hangs = 0
    env = {"ASAN_OPTIONS": "detect_leaks=0:abort_on_error=0:detect_stack_use_after_return=1:allocator_may_return_null=1",
           "UBSAN_OPTIONS": "print_stacktrace=1:halt_on_error=1"}
    while i < len(lines):
        rc, out = common.sh([exe, mode], stdin=("\n".join(lines[i:]) + "\n").encode(), timeout=timeout, env=env)
        k = 0; rest = []
        for ln in out.split("\n"):
            if ln.startswith("{") and ln.rstrip().endswith("}") and i + k < len(lines) and not rest:
                res[i + k] = ln; k += 1
            elif ln.strip(): rest.append(ln)
        if rc == 0 and i + k >= len(lines): break
        if i + k >= len(lines): raise common.Infra("driver exited rc=%s after answering everything:\n%s" % (rc, out[-2000:]))
        raw = "\n".join(rest)
        key = common.san_key(raw) or (("timeout", "", "", "driver timeout") if rc == 124 else ("exit-%s" % rc, "", "", raw[-300:]))
        m = re.search(r"AddressSanitizer: (\S+)", raw)
        if m and key[0].startswith("exit"): key = (m.group(1),) + tuple(key[1:])
        res[i + k] = {"crash": key, "raw": raw[-3000:]}
        i += k + 1; restarts += 1
        if key[0] in ("fault-sig14", "timeout"):
            # the driver's watchdog: the call did not return (2 s of CPU time / 20 s of wall clock for calls that take microseconds).
            # Each such death is reported by the caller; after 8 of them the remaining cases are not run (result {"skipped": True}):
            # the check ends with its verdict in bounded time
            hangs += 1
            if hangs >= 8:
                for j in range(i, len(lines)): res[j] = {"skipped": True}
                return res
        if restarts > 200: raise common.Infra("too many driver crashes; last:\n" + raw[-2000:])
    return res

# ------------------------------------------------------------------ D: settings
def set_line(c):
    x = c["x"]
    if x["fmt"] == "def": return "set fmt=def"
    if x["fmt"] == "xml": text = "<cfgVersion>1</cfgVersion>\n" + "".join("<%s>%s</%s>\n" % (it["k"], it["v"], it["k"]) for it in x["items"])
    else: text = "[%s]\n" % x["where"] + "".join("%s=%s\n" % (it["k"], it["v"]) for it in x["items"])
    return "set fmt=%s init=%s nulls=%s sect=%s create=%d ncpu=%d text=%s" % (
        x["fmt"], x["init"], x["nulls"], x["lookup"], 0 if c["exp"]["create"]["class"] == "skip" else 1, x["ncpu"], text.encode().hex())

def set_table(ctx, exes, d):
    cases = gen_cases(ctx, "TpApiGenSet", "TpApiGenSet.cfg" if ctx.quick else "TpApiGenSet_thorough.cfg", "TpApiGenSet (setting texts)")
    for exe in exes: set_run(ctx, exe, cases)

def set_run(ctx, exe, cases):
    res = batch(exe, "set", [set_line(c) for c in cases])
    seen = set(); lenient = {}; ncreate = 0
    def fail(key, c, text, g):
        if key in seen: return
        seen.add(key); ctx.fail(key, "case %s\n%s\nexpected %s\ngot %s" % (json.dumps(c["x"]), text, json.dumps(c["exp"]), g), {"case": c})
    for c, r in zip(cases, res):
        if isinstance(r, dict) and r.get("skipped"): ctx.add(cases_not_run_after_repeated_watchdog_deaths=1); continue
        ctx.add(evaluations=1); x = c["x"]; e = c["exp"]
        fn = "tp_settings_def" if x["fmt"] == "def" else "tp_settings_load_" + x["fmt"]
        if isinstance(r, dict):
            k = r["crash"]; cls = e["create"]["class"]
            if cls != "skip": fail("tp_create:threads_max-%s:crash" % ("size-overflow" if cls == "refuse" else cls), c, "%s\n%s" % (k[0], r["raw"][-1800:]), "crash")
            else: fail("%s:crash:%s:%s" % (fn, k[0], k[1]), c, r["raw"][-1800:], "crash")
            continue
        g = json.loads(r)
        if g.get("inifail"): raise common.Infra("ini text of the rig did not parse: %s" % x)
        if g["rc"] != e["rc"]: fail("%s:rc:nulls-%s" % (fn, x["nulls"]), c, "rc", r)
        for it in x["items"]:
            pass
        want_bind = {"T": True, "F": False}.get(e["bind"])
        if want_bind is None: lenient.setdefault("flag text %r" % [it["v"] for it in x["items"] if it["k"].lower() == "fbindtocpu"][0], set()).add("set" if g["bind"] else "clear")
        elif g["bind"] != want_bind: fail("%s:fBindToCPU:%s" % (fn, "null-arg" if x["nulls"] != "none" else "value-%s" % "|".join(it["v"] for it in x["items"] if it["k"].lower() == "fbindtocpu")), c, "bind flag", r)
        if e["count"] == "any": lenient.setdefault("count text %r" % [it["v"] for it in x["items"] if it["k"].lower() == "threadscountmax"][0], set()).add(g["tm"])
        elif g["tm"] != e["count"]: fail("%s:threadsCountMax:%s" % (fn, "null-arg" if x["nulls"] != "none" else "value-%s" % "|".join(it["v"] for it in x["items"] if it["k"].lower() == "threadscountmax")), c, "thread count", r)
        if g["cloexec"] != e["cloexec"] or g["oflags"] != e["oflags"]: fail("%s:other-flag-bits-changed" % fn, c, "flags", r)
        if x["fmt"] == "def":
            if g["name"] != e["name"] or not g["nametail0"] or g["hooks"] or g["udata"]: fail("tp_settings_def:fields", c, "defaults", r)
            continue
        if not g["others_kept"]: fail("%s:other-fields-changed" % fn, c, "name/hooks/udata", r)
        cr = e["create"]
        if cr["class"] == "skip": continue
        ncreate += 1
        if cr["class"] == "exact":
            if g["crc"] != 0: fail("tp_create:refused:threads-%s" % e["count"], c, "create rc", r)
            else:
                if g["n"] != cr["n"]: fail("tp_create:thread-count:setting-%s:ncpu-%d" % (e["count"], x["ncpu"]), c, "count_max", r)
                elif g["cpus"] != cr["cpus"]: fail("tp_create:cpu-ids:bind-%s" % e["bind"], c, "cpu ids", r)
                if g["cnt"] != 0 or not g["beyond_null"] or g["pvtcpu"] != -1 or not g["udata_ok"]: fail("tp_create:fresh-pool-facts", c, "count/beyond/pvt/udata", r)
        elif cr["class"] == "may-refuse":
            if g["crc"] == 0 and g["n"] != cr["n"]: fail("tp_create:thread-count:setting-%s" % e["count"], c, "count_max", r)
        elif cr["class"] == "refuse":
            if g["crc"] == 0: fail("tp_create:threads_max-size-overflow:accepted", c, "an impossible thread count was accepted", r)
    ctx.add(distinct_nontrivial=len(cases), set_creates=ncreate,
            observed_not_filed=[{"lenient_setting_texts": {k: sorted(v) for k, v in sorted(lenient.items())}}],
            samples=[{"set_case": cases[len(cases) // 3]}])

# ------------------------------------------------------------------ B2: round robin
RR_CFGS = [  # (cfg, what TLC must conclude on the SPEC: None = holds, else the invariant the model of the code as written violates)
    ("MC_TpApiRR_seq.cfg", None), ("MC_TpApiRR_asis2.cfg", "InRange"), ("MC_TpApiRR_asis2_alloc.cfg", "InAlloc"),
    ("MC_TpApiRR_atomic.cfg", None)]
def rr_models(ctx):
    cfgs = RR_CFGS + ([] if ctx.quick else [("MC_TpApiRR_asis3.cfg", "InAlloc"), ("MC_TpApiRR_atomic_big.cfg", None)])
    for cfg, want in cfgs:
        r = common.tlc("MC_TpApiRR", cfg=cfg, workers=2 if ctx.quick else 4, timeout=900)
        ctx.tlc_stats(r, "MC_TpApiRR/" + cfg)
        got = None if r.rc == 0 else (re.search(r"Invariant (\w+) is violated", r.violation or "") or [None, r.violation])[1]
        if got != want:
            if want is None: ctx.fail("model:TpApiRR:%s:%s" % (cfg, got), r.out[-3000:], {})
            else: raise common.Infra("MC_TpApiRR/%s: expected the model of the code as written to violate %s, TLC says %s" % (cfg, want, got))

def rr_stress(ctx, exe):
    """concurrent callers of the real tp_thread_get_rr; reports only what was observed (a quiet run proves nothing)"""
    tot = 0; worst = None
    for n, callers in ((3, 4), (2, 3)) if ctx.quick else ((3, 4), (2, 3), (5, 4), (1, 4), (7, 3)):
        rc, out = common.sh([exe, "rr", str(n), str(callers), "250" if ctx.quick else "1500"], timeout=60,
                            env={"ASAN_OPTIONS": "detect_leaks=0"})
        m = re.search(r"^\{.*\}$", out, re.M)
        if rc == 124:       # the callers of the code under test did not come back within the rig's 60 s (a run takes < 2 s): a verdict, not a rig failure
            ctx.fail("tp_thread_get_rr:concurrent-callers:timeout", "%d workers, %d concurrent callers: no result within 60 s\n%s" % (n, callers, out[-1500:]), {"workers": n, "callers": callers})
            break
        if rc != 0 or not m: raise common.Infra("x08_drv rr rc=%s\n%s" % (rc, out[-1500:]))
        g = json.loads(m.group(0)); tot += g["total"]
        if (g["pvt"] or g["oob"]) and worst is None: worst = (n, callers, g)
    if worst:
        n, callers, g = worst
        ctx.fail("tp_thread_get_rr:concurrent-callers:index-out-of-range",
                 "%d workers, %d concurrent callers, %d calls: %d returned the virtual thread (index n), %d returned an address BEHIND the pool's thread array"
                 % (n, callers, g["total"], g["pvt"], g["oob"]), {"rr": g})
    ctx.add(rr_stress_calls=tot)

# ------------------------------------------------------------------ B, C, E: scripted pools, validated by TLC
NAMES = ["TP", "Second", "io", "LongPoolName12", "w"]
def life_scenario(rng, kind):
    """-> script lines (inputs only).  The rig tracks which workers it started only to address them."""
    L = []; pools = {}
    def create(p, n=None, hookv=0, bind=None):
        ncpu = rng.choice([1, 2, 3, 5])
        n = rng.choice([0, 1, 2, 3, 4]) if n is None else n
        bind = rng.randint(0, 1) if bind is None else bind
        L.append("create %d %d %d %d %d %s" % (p, n, bind, ncpu, hookv, rng.choice(NAMES)))
        pools[p] = {"n": n if n else ncpu, "run": set(), "shut": False}
        L.append("main cur;ident:%d;count:%d;tls.all:%d" % (p, p, p))
    def start(p, attach=False, fail=False):
        n = pools[p]["n"]; skip = 1 if attach else 0
        cand = list(range(skip, n)); failk = 0
        if fail and len(cand) >= 2:
            failk = rng.randint(1, len(cand)); cand.pop(failk - 1)
        L.append("start %d %d %d %d" % (p, skip, failk, len(cand)))
        pools[p]["run"] = set(cand)
        L.append("main count:%d" % p)
        if attach:
            L.append("attach %d" % p); pools[p]["run"].add(0); pools[p]["att"] = True
            L.append("main count:%d" % p)
    def tls_ops(p, k):
        n = pools[p]["n"]; ops = []
        for _ in range(k):
            t = rng.choice(list(range(0, n + 1)) + [-1, n + 1]); i = rng.choice(["0", "1", "0", "1", "2", "3", "big"])
            if rng.random() < 0.6: ops.append("tls.set:%d:%d:%s:%d" % (p, t, i, rng.randint(1, 900)))
            else: ops.append("tls.get:%d:%d:%s" % (p, t, i))
        return ";".join(ops)
    def probe(p):
        n = pools[p]["n"]; others = [q for q in pools if q != p]
        ops = ["cur", "is:%d:%d:-1" % (p, p)]
        for q in others: ops += ["is:%d:%d:-1" % (q, q), "is:%d:%d:%d" % (p, q, rng.randint(0, pools[q]["n"])), "is:%d:%d:%d" % (q, q, rng.randint(0, pools[q]["n"]))]
        ops += ["is:-1:%d:0" % p, "is:%d:%d:%d" % (p, p, rng.randint(0, n))]
        return ";".join(ops)
    def down(p, how="api"):
        if pools[p]["shut"]: return
        if how == "api": L.append("shutdown %d" % p)
        pools[p]["shut"] = True
        if pools[p].get("att"): L.append("joinattach %d" % p)
        L.append("wait %d" % p); pools[p]["run"] = set()
        L.append("main count:%d;tls.all:%d" % (p, p))
    L.append("main nullargs")
    if kind in ("signal", "signal-attach"):
        create(0, hookv=rng.choice([0, 100]), bind=1 if kind == "signal-attach" else None); create(1)
        L.append("main " + probe(0))
        regs = [rng.choice([0, 1]) for _ in range(rng.randint(1, 3))]
        for p in regs: L.append("sigadd %d" % p)
        start(0, attach=(kind == "signal-attach")); start(1, fail=rng.random() < 0.3)
        for p in (0, 1):
            for t in sorted(pools[p]["run"])[:2]: L.append("on %d %d %s" % (p, t, probe(p) + ";" + tls_ops(p, 3)))
        L.append("main rr:0:%d;rr:1:%d" % (2 * pools[0]["n"] + 1, pools[1]["n"] + 2))
        for sg in rng.sample([1, 10, 12, 3, 13, 17], 3): L.append("sig %d" % sg)
        L.append("sig %d" % rng.choice([2, 15])); down(regs[-1], how="signal")
        L.append("sig %d" % rng.choice([2, 15, 9]))                     # the table is empty now
        for p in (0, 1): down(p)
    elif kind == "dead":
        create(0); L.append("sigadd 0"); start(0)
        L.append("main rr:0:%d" % (pools[0]["n"] + 1))
        down(0); L.append("destroy 0"); del pools[0]
        L.append("sigdead 1"); L.append("sigdead 15")
    elif kind == "table":
        for p in (0, 1, 2): create(p, n=rng.choice([1, 2]))
        order = rng.sample([0, 1, 2], 3)
        for p in order: L.append("sigadd %d" % p)
        for p in (0, 1, 2): start(p)
        L.append("sig 15"); down(order[-1], how="signal")
        L.append("sigadd %d" % order[0]); L.append("sigadd -1"); L.append("sig 2")      # un-registered again: nothing
        L.append("sigadd %d" % order[1]); L.append("sig 12"); L.append("sig 2"); down(order[1], how="signal")
    elif kind == "tls":
        create(0, hookv=rng.choice([100, 500])); create(1, n=rng.choice([1, 2]), hookv=300)
        L.append("main " + tls_ops(0, 8)); L.append("main " + tls_ops(1, 4))
        start(0, fail=rng.random() < 0.5); start(1)
        for t in sorted(pools[0]["run"]): L.append("on 0 %d %s" % (t, tls_ops(0, 4) + ";" + tls_ops(1, 2)))
        L.append("main tls.all:0;tls.all:1;" + tls_ops(0, 6))
        L.append("main rr:0:%d" % (3 * pools[0]["n"]))
        down(0); L.append("main " + tls_ops(0, 4) + ";tls.all:0;tls.all:1")
    for p in sorted(pools):
        down(p); L.append("destroy %d" % p)
    L.append("reset")
    return L

def life_key(e):
    n = e["e"]
    shape = lambda: "%s:%s" % ("null-thread" if e["t"] == -1 else "thread", "index-in-range" if e["i"] in (0, 1) else "index-out-of-range")
    if n == "rr": return "tp_thread_get_rr:sequential:not-the-next-worker-in-rotation"
    if n == "tls.set": return "tpt_tls_set:%s:rc-%d" % (shape(), e["rc"])
    if n == "tls.get": return "tpt_tls_get:%s:wrong-value" % shape()
    if n == "get": return "tp_thread_get:%s" % ("null-for-valid-index" if e["null"] else "wrong-thread-or-beyond-count")
    if n == "pvt": return "tp_thread_get_pvt:identity"
    if n == "count": return "tp_thread_count_get:wrong-count"
    if n == "create": return "tp_create:count-max-or-udata"
    if n == "cur": return "tpt_get_current:on-%s" % ("foreign-thread" if e["bp"] == -1 else "pool-thread")
    if n == "is": return "tp_thread_is_tp_thr:%s" % ("current-thread" if e["t"] == -1 else "given-thread")
    if n == "aff": return "thread-binding:affinity-call-unexpected-or-wrong-cpu"
    if n == "hook.start": return "thread-start:%s" % ("worker-state-name-binding" if e["worker"] else "virtual-thread")
    if n == "hook.stop": return "thread-stop:%s" % ("worker" if e["worker"] else "virtual-thread")
    if n == "st": return "thread-state:illegal-step-to-%s" % e["s"]
    if n == "sig.dead": return "tp_signal_handler:after-destroy-of-registered-pool:crash"
    if n == "shutdown.check": return "tp_signal_handler:shuts-a-pool-that-is-not-the-registered-one"
    if n == "sig.ret": return "tp_signal_handler:signal-%d:registered-pool-not-shut" % e["s"]
    if n == "nullargs": return "null-arguments:wrong-answer"
    if n == "attach.ret": return "tp_thread_attach_first:current-thread-still-set-after-return"
    return "life:%s" % n

def life(ctx, exe, d, rnd=0):
    rng = random.Random(ctx.seed * 7919 + 5 + rnd * 104729)
    kinds = ["signal", "signal-attach", "dead", "table", "tls"] * (2 if ctx.quick else 10)
    allev = []; scripts = []; hung = []; crashed = set()
    for k, kind in enumerate(kinds):
        L = life_scenario(rng, kind); scripts.append(L)
        sc = os.path.join(d, "life_%d.txt" % k); tr = os.path.join(d, "life_%d.ndjson" % k)
        open(sc, "w").write("\n".join(L) + "\n")
        rc, out = common.sh([exe, "life", sc, tr], timeout=120, env={"ASAN_OPTIONS": "detect_leaks=0:abort_on_error=0", "UBSAN_OPTIONS": "print_stacktrace=1:halt_on_error=1"})
        evs = []
        for x in (open(tr) if os.path.exists(tr) else []):
            try: evs.append(json.loads(x))
            except Exception: break                                    # torn last line of a crashed run
        if rc != 0:
            key = common.san_key(out)
            if rc == 124 or (key and key[0] == "fault-sig14"):
                # the driver's watchdog (10 s of CPU time / 60 s of wall clock for a script that takes a fraction of a second) or the rig's
                # timeout: a pool call did not return.  A verdict; after two of them the remaining scripts are not run (bounded time)
                ck = "life:timeout:%s" % kind
                if ck not in crashed: crashed.add(ck); ctx.fail(ck, "script kind %s: the scripted execution did not end\n%s" % (kind, out[-2000:]), {"script": L})
                if len([c_ for c_ in crashed if c_.startswith("life:timeout:")]) >= 2: break
                continue
            fn = re.search(r"in (\w+) \S*src/threadpool/threadpool\w*\.c", out)
            if key and fn:
                ck = "life:crash:%s:%s" % (key[0], fn.group(1))
                if ck not in crashed: crashed.add(ck); ctx.fail(ck, "script kind %s\n%s" % (kind, out[-3000:]), {"script": L})
                continue
            raise common.Infra("x08_drv life (%s) rc=%s\n%s\n%s" % (kind, rc, "\n".join(L), out[-2500:]))
        stuck = [i for i, e in enumerate(evs) if e["e"] in ("Hang", "on.fail")]
        if stuck:   # the script addressed something that is not there: what TLC says about the lines before decides
            hung.append((kind, evs[stuck[0]])); evs = evs[:stuck[0]] + [{"e": "Reset"}]
        if not evs or evs[-1]["e"] != "Reset": raise common.Infra("life trace incomplete (%s)" % kind)
        allev += evs
    tr = os.path.join(d, "life_all.ndjson")
    open(tr, "w").write("".join(json.dumps(e) + "\n" for e in allev))
    r = common.tlc("TpApiTrace", cfg="TpApiTrace.cfg", workers=1, env={"TRACE": tr}, timeout=900, xss="256m", xmx="4g")
    ctx.tlc_stats(r, "TpApiTrace (%d scripted executions)" % len(kinds))
    if r.rc != 0 or r.distinct != len(allev) + 1: raise common.Infra("TpApiTrace did not consume the trace: rc=%s states=%s lines=%s\n%s" % (r.rc, r.distinct, len(allev), r.out[-2500:]))
    seen = set()
    for note in common.tlc_printed_json(r.out):
        e = note["ev"]; key = life_key(e)
        if key in seen: continue
        seen.add(key)
        ctx.fail(key, "trace line %d is not allowed by TpApiObj: %s\ncontext: %s" % (note["bad"], json.dumps(e), json.dumps(allev[max(0, note["bad"] - 6):note["bad"]])), {"event": e})
    if hung and not seen and not crashed: raise common.Infra("x08_drv life stuck although every line before was allowed: %s" % hung[:2])
    kinds_seen = {}
    for e in allev: kinds_seen[e["e"]] = kinds_seen.get(e["e"], 0) + 1
    need = {"get", "pvt", "count", "st", "aff", "hook.start", "hook.stop", "cur", "is", "rr", "tls.set", "tls.get", "attach.ret", "sig.add",
            "sig.call", "shutdown.check", "sig.ret", "sig.dead", "wait.ret", "destroy", "nullargs"}
    if not hung and not crashed and need - set(kinds_seen): raise common.Infra("vacuity: no %s observation in this run" % sorted(need - set(kinds_seen)))
    ctx.add(traces_validated_against_impl=len(kinds), events_validated=len(allev), life_events_by_kind=kinds_seen,
            samples=[{"life_script": scripts[0][:14]}])

def pre_facts(ctx, exe):
    rc, out = common.sh([exe, "pre"], timeout=30, env={"ASAN_OPTIONS": "detect_leaks=0"})
    m = re.search(r"^\{.*\}$", out, re.M)
    if rc != 0 or not m: raise common.Infra("x08_drv pre rc=%s\n%s" % (rc, out[-1500:]))
    g = json.loads(m.group(0)); ctx.add(evaluations=1)
    if not g["cur_before_init_null"]:
        ctx.fail("tpt_get_current:before-tp_init:returns-foreign-thread-specific-data",
                 "tpt_get_current() called before the first tp_init()/tp_create() returned a non-NULL pointer (property B5: NULL on every thread that is not a pool thread)", {"pre": g})
    ctx.add(observed_not_filed=[{"queued_changes_api": "tpt_ev_q_* are macros for the direct calls on Linux (kqueue-only code is under #if 0): %s" % bool(g["q_names_are_macros_for_direct_calls"])}])
    if g["tls_count"] != 2: raise common.Infra("TP_TPT_TLS_COUNT is %s, the specification assumes 2" % g["tls_count"])

def run(ctx):
    ctx.level = "model_checking"
    d = common.scratch()
    # the specification's own properties
    rr_models(ctx)
    r = common.tlc("MC_TpApiObj", cfg="MC_TpApiObj.cfg" if ctx.quick else "MC_TpApiObj_mid.cfg", workers=4, timeout=1200)
    ctx.tlc_stats(r, "MC_TpApiObj")
    if r.rc != 0: ctx.fail("model:TpApiObj:" + (r.violation or "error"), r.out[-3000:], {})
    if not ctx.quick:
        for cfg in ("MC_TpApiObj_big.cfg", "MC_TpApiObj_3p.cfg"):      # one pool with every slot cell; three pools around the one-slot signal table
            r = common.tlc("MC_TpApiObj", cfg=cfg, workers=4, timeout=1500)
            ctx.tlc_stats(r, "MC_TpApiObj/" + cfg)
            if r.rc != 0: ctx.fail("model:TpApiObj:%s:%s" % (cfg, r.violation or "error"), r.out[-3000:], {})
    # the real code
    exe = build(d)
    exes = [exe] if ctx.quick else [exe, build(d, san=None, opt="-O2")]      # thorough: also gcc -O2 without sanitizers
    for x in exes: pre_facts(ctx, x)
    ev_table(ctx, exes, d)
    set_table(ctx, exes, d)
    for k in range(1 if ctx.quick else 3): life(ctx, exe, d, k)
    rr_stress(ctx, exe)
    ctx.add(observed_not_filed=[{"modelled_as_the_code_behaves": [
        "flag bits 4 and 8 (TP_F_EDGE / TP_F_EXCLUSIVE, disabled by #if 0) lie inside TP_F_S_MASK: accepted and ignored (no EPOLLET / EPOLLEXCLUSIVE reaches epoll_ctl)",
        "enable / disable of a read/write object that was never added installs it (no ENOENT), unlike timers and process events",
        "TP_FF_RW_LOWAT is ignored for TP_EV_WRITE on Linux; it is applied (SO_RCVLOWAT) even by a disable call",
        "the signal table holds ONE pool (source comment XXX): a later tp_signal_handler_add_tp silently replaces the earlier pool, which no signal will shut down",
        "thread names longer than 15 characters (pool name of 13+ characters) are silently not set; leaving the pool resets the name of an attached caller thread to the empty string",
        "the number of workers for threads_max = 0 and the cpu ids come from _SC_NPROCESSORS_CONF (configured, not online / allowed cpus); a failed affinity call is only logged",
        "tpt_ev_q_add is a macro for tpt_ev_add although the (kqueue-only, disabled) prototype has other parameters; tpt_ev_q_flush expands to nothing",
        "TP_EV_PROC: ident is narrowed to pid_t without a range check (not exercised)"]}])
    ctx.cov["rule"] = ("A: every reachable state of TpApiGenEv = one call (entry point x operation x event x flags x fflags x ident class x NULL member x history), "
                       "non-trivial = accepted or NULL-argument or with history; D: every setting text of TpApiGenSet; B/C/E: scripted pools, every observation one step of TpApiObj; "
                       "B2: exhaustive interleavings of the counter accesses")
    ctx.assumptions += ["epoll / timerfd / pidfd answers are the kernel's (environment); what the library passes to them is observed by link-time wrappers",
                        "kqueue back end and the disabled tpt_ev_q_* queue are not exercised (not compiled on Linux)",
                        "cpu numbers of the binding scenarios need not exist: pthread_setaffinity_np is recorded, not applied; the number of CPUs is the scenario's (sysconf wrapper)",
                        "the concurrent round-robin stress reports only what it observes; the guarantee for all interleavings is the model's"]
