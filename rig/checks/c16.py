"""C16 - I/O tasks move exactly the bytes, in order, and report EOF, errors and timeouts
(model checking of TpTask + trace validation of the real threadpool_task.c on socketpairs and regular files:
 every payload byte carries its stream position, the recv/send wrappers choose the fragmentation, the peer
 closes/resets per scenario, the callback's return codes are scenario inputs, timeouts are ordered by bounded
 waits on the callback counter - never by racing the clock)."""
import json, os, random, re
from concurrent.futures import ThreadPoolExecutor
from rig import common

WRAPS = "recv,send,pread,pwrite,recvfrom,accept4,epoll_ctl,timerfd_create,timerfd_settime"
EXTRA = ["src/net/socket.c", "src/net/socket_address.c", "src/net/socket_options.c", "src/utils/sys.c"]
READ, WRITE = 0, 1

def build(d, san=None):
    return common.cc(["/verif/harness/task_drv.c"] + EXTRA, os.path.join(d, "task_drv" + ("_" + san if san else "")),
                     compiler="clang" if san else "gcc", san=san,
                     flags=["-Wno-unused-function", "-Wno-unused-variable", "-Wl," + ",".join("--wrap=" + w for w in WRAPS.split(","))])

def run_driver(exe, text, d, seed, tag, timeout=240):
    sc = os.path.join(d, "sc_%s.txt" % tag); tr = os.path.join(d, "tr_%s.ndjson" % tag)
    open(sc, "w").write(text)
    if os.path.exists(tr): os.remove(tr)
    rc, out = common.sh([exe, sc, tr, str(seed)], timeout=timeout,
                        env={"ASAN_OPTIONS": "detect_leaks=0:abort_on_error=0", "UBSAN_OPTIONS": "print_stacktrace=1:halt_on_error=1"})
    evs = []
    if os.path.exists(tr):
        for ln in open(tr):
            try: evs.append(json.loads(ln))
            except Exception: pass
    return rc, out, evs

# ------------------------------------------------------------------ scenarios (one task life each)
HEAD = ["m pool 1", "m start", "m waitrun"]
TAIL = ["m shutdown", "m shutdown_wait", "m destroy"]

def w0(lines):
    return ["w0 " + x for x in lines] + ["m spawn w0", "m join w0"]

def policy(rng, efl, allow_plain):
    """callback policy that respects the task contract (threadpool_task.h): no CONTINUE from a one-shot task;
    a task without TP_F_DISPATCH stops/disables itself before returning anything but CONTINUE"""
    fin = lambda r: rng.choice(["s", "s", "d", "D"]) + r if not (allow_plain and rng.random() < 0.5) else r
    P = {}
    if efl == 1:
        for c, r in (("P", "N"), ("F", "N"), ("E", "E"), ("T", "N"), ("X", "X")):
            P[c] = rng.choice([r, "s" + r, "D" + r])
        return P
    P["P"] = rng.choice(["C", "C", "C", "C,C," + fin("N")])
    P["F"] = rng.choice([fin("N"), "rC," + fin("N"), "rC,rC," + fin("N"), "rC,rC,rC,rC," + fin("N")])
    P["E"] = rng.choice([fin("E"), fin("E"), fin("N"), "C," + fin("E")])
    P["T"] = rng.choice(["C", "C,C," + fin("N"), fin("N"), "C," + fin("E")])
    P["X"] = rng.choice([fin("X"), fin("X"), "C," + fin("X")])
    return P

def pol_lines(k, P):
    return ["m tkpol %d %s %s" % (k, c, v) for c, v in P.items()]

def cut(rng, n, parts):
    """split n bytes into <= parts fragments"""
    if n == 0: return []
    pts = sorted(rng.sample(range(1, n), min(parts - 1, n - 1))) if n > 1 else []
    res = []; a = 0
    for p in pts + [n]:
        res.append((a + 1, p - a)); a = p
    return res

def sc_stream_read(rng, k, deep):
    size = rng.randint(2, 9 if deep else 6); off = rng.randint(0, min(2, size - 1)); tr = rng.randint(1, size - off)
    used = off if rng.random() < 0.8 else rng.randint(0, size)
    efl = rng.choice([0, 0, 1, 2, 2]); every = rng.random() < 0.4
    tmode = rng.choice(["none", "none", "generous", "before", "between"])
    tmo = {"none": 0, "generous": 60000, "before": 25, "between": 25}[tmode]
    direct = rng.random() < 0.3
    n = rng.randint(0, min(2 * tr + 2, 12 if deep else 6))
    frs = cut(rng, n, rng.randint(1, 3))
    P = policy(rng, efl, allow_plain=(efl == 2))
    if efl != 1 and tmode in ("before", "between"):      # keep waiting a few times, then give up
        P["T"] = rng.choice(["C,C,C,sN", "C,sN", "C,C,dE", "C"])
    L = ["m tknew %d 0 %d %d %d %d" % (k, size, off, tr, used)] + pol_lines(k, P)
    L.append("m tkcap %d %s" % (k, ",".join(str(rng.choice([0, 1, 1, 2, 3])) for _ in range(rng.randint(1, 4)))))
    if rng.random() < 0.25: L.append("m tkinj %d %d %d" % (k, rng.randint(1, 4), rng.choice([4, 16, 11, 104, 104, 5])))
    pre = []
    if direct and frs and rng.random() < 0.7:    # data is already there when the first I/O is done directly
        a, c = frs.pop(0); pre = ["m peerw %d %d %d" % (k, a, c)]
    L += pre
    L += w0(["tkcreate %d 0 0 %d" % (k, 2 if every else 0), "tkstart %d %d 0 %d %d 0" % (k, 1 if direct else 0, efl, tmo)])
    end = rng.choice(["close", "close", "shut", "reset", "none"])
    endpos = rng.randint(0, len(frs))
    ownerop = rng.choice(["", "", "", "stop-restart", "disable-enable", "stop", "enable"]) if efl != 1 else rng.choice(["", "", "stop-restart"])
    oppos = rng.randint(0, len(frs))
    def ending():
        return {"close": ["m peerclose %d" % k], "shut": ["m peershut %d" % k], "reset": ["m peerreset %d" % k], "none": []}[end]
    for i, (a, c) in enumerate(frs):
        if i == endpos: L += ending(); break           # nothing can be written after the peer closed
        if i == oppos and ownerop:
            L += owner_ops(k, ownerop, tmo)
        if tmode == "before" and i == 0 or tmode == "between" and i == 1:
            L.append("m tkwait %d 1 1 10000" % k)        # the timeout callback is SEEN before the data is written
        L.append("m peerw %d %d %d" % (k, a, c))
        if rng.random() < 0.5: L.append("m quiesce")
    else:
        if endpos >= len(frs): L += ending()
    L += ["m quiesce", "m tkcount %d" % k, "m tkfree %d" % k, "m reset"]
    return L

def owner_ops(k, what, tmo):
    if what == "stop-restart": return w0(["tkstop %d" % k]) + ["m quiesce", "m tkcount %d" % k] + w0(["tkrestart %d" % k])
    if what == "disable-enable": return w0(["tkenable %d 0" % k]) + ["m quiesce", "m tkcount %d" % k] + w0(["tkenable %d 1" % k])
    if what == "stop": return w0(["tkstop %d" % k])
    if what == "enable": return w0(["tkenable %d 1" % k])
    return []

def sc_stream_write(rng, k, deep):
    size = rng.randint(2, 9 if deep else 6); off = rng.randint(0, min(2, size - 1)); tr = rng.randint(1, size - off)
    efl = rng.choice([0, 0, 1, 2, 2]); tmo = rng.choice([0, 0, 60000]); direct = rng.random() < 0.4
    P = policy(rng, efl, allow_plain=(efl == 2))
    L = ["m tknew %d 0 %d %d %d %d" % (k, size, off, tr, rng.choice([off + tr, size, 0])), "m tkfill %d %d %d 1" % (k, off, tr)] + pol_lines(k, P)
    L.append("m tkcap %d %s" % (k, ",".join(str(rng.choice([0, 1, 1, 2, 3])) for _ in range(rng.randint(1, 4)))))
    if rng.random() < 0.4: L.append("m tkinj %d %d %d" % (k, rng.randint(1, 3), rng.choice([11, 4, 16, 32, 104])))
    early = rng.random() < 0.15
    if early: L.append("m peerclose %d" % k)
    L += w0(["tkcreate %d 0 0 0" % k, "tkstart %d %d 1 %d %d 0" % (k, 1 if direct else 0, efl, tmo)])
    L += ["m tkwait %d 0 1 3000" % k, "m quiesce"]
    if not early: L.append("m peerr %d 4096" % k)
    L += ["m tkcount %d" % k, "m tkfree %d" % k, "m reset"]
    return L

def sc_file(rng, k, deep):
    """regular file + tp_task_rw_handler: epoll refuses regular files (EPERM), so only the direct first I/O can run;
    a CONTINUE then takes the error path of tp_task_restart"""
    size = rng.randint(2, 8); off = rng.randint(0, min(2, size - 1)); tr = rng.randint(1, size - off)
    ev = rng.choice([READ, READ, WRITE]); flen = rng.randint(0, 8); foff = rng.randint(0, 3)
    tmo = rng.choice([0, 60000]); every = rng.random() < 0.3
    P = {"P": rng.choice(["N", "C"]), "F": rng.choice(["N", "N", "rC", "C"]), "E": rng.choice(["E", "N", "C"]), "X": "X", "T": "sN"}
    L = ["m tknew %d 1 %d %d %d %d" % (k, size, off, tr, off)] + pol_lines(k, P)
    if ev == READ: L.append("m filefill %d %d 1" % (k, flen))
    else: L.append("m tkfill %d %d %d 1" % (k, off, tr))
    L.append("m tkcap %d %s" % (k, ",".join(str(rng.choice([0, 1, 2, 3])) for _ in range(rng.randint(1, 3)))))
    L += w0(["tkcreate %d 0 1 %d" % (k, 2 if every else 0), "tkstart %d 1 %d 0 %d %d" % (k, ev, tmo, foff), "tkcount %d" % k])
    if ev == WRITE: L.append("m peerr %d 4096" % k)
    L += ["m tkfree %d" % k, "m reset"]
    return L

def sc_errpath(rng, k, deep):
    """tp_task_start / tp_task_restart / tp_task_enable with a failing epoll_ctl / timerfd_create (injected),
    then a bounded wait that shows whether the timer was really taken away"""
    efl = rng.choice([0, 2]); tmo = rng.choice([0, 25, 25])
    api = rng.choice(["start", "restart", "enable"])
    L = ["m tknew %d 0 6 1 4 1" % k] + pol_lines(k, {"P": "C", "F": "sN", "E": "sE", "T": "sN", "X": "sX"})
    cr = "tkcreate %d 0 0 0" % k
    st = "tkstart %d 0 0 %d %d 0" % (k, efl, tmo)
    which = rng.choice(["io", "io", "tmr"]) if tmo else "io"
    if api == "start":
        f = "fault timerfd_create 1 24" if which == "tmr" else "fault epoll_ctl %d 12" % (2 if tmo else 1)
        L += w0([cr, f, st])
    elif api == "restart":
        f = "fault timerfd_create 1 24" if which == "tmr" else "fault epoll_ctl %d 12" % (2 if tmo else 1)
        L += w0([cr, st, "tkstop %d" % k, f, "tkrestart %d" % k])
    else:
        f = "fault epoll_ctl 1 12"      # the timer exists: its enable makes no epoll_ctl call
        L += w0([cr, st, "tkenable %d 0" % k, f, "tkenable %d 1" % k])
    if tmo: L.append("m tkwait %d 1 1 600" % k)
    L += ["m peerw %d 1 2" % k, "m quiesce", "m tkcount %d" % k, "m tkfree %d" % k, "m reset"]
    return L

def sc_dispatch_eof(rng, k, deep):
    """a TP_F_DISPATCH receiver that continues once and then ends on EOF without stopping (allowed for DISPATCH)"""
    L = ["m tknew %d 0 6 1 4 1" % k] + pol_lines(k, {"P": "C", "F": "N", "E": "E,E,sE", "T": "sN", "X": "sX"})
    L += w0(["tkcreate %d 0 0 0" % k, "tkstart %d 0 0 2 0 0" % k])
    L += ["m peerw %d 1 2" % k, "m quiesce", "m peerclose %d" % k, "m tkwait %d 2 1 3000" % k, "m quiesce", "m tkcount %d" % k, "m tkfree %d" % k, "m reset"]
    return L

def sc_oneshot_partial(rng, k, deep):
    """a one-shot receiver whose first fragment does not fill the window"""
    tmo = rng.choice([0, 0, 25])
    L = ["m tknew %d 0 6 1 4 1" % k] + pol_lines(k, {"P": "N", "F": "N", "E": "E", "T": "N", "X": "X"})
    L += w0(["tkcreate %d 0 0 0" % k, "tkstart %d 0 0 1 %d 0" % (k, tmo)])
    L += ["m peerw %d 1 2" % k, "m quiesce"]
    if tmo: L.append("m tkwait %d 1 1 3000" % k)
    L += ["m peerw %d 3 2" % k, "m quiesce", "m tkcount %d" % k, "m tkfree %d" % k, "m reset"]
    return L

def sc_notify(rng, k, deep):
    """tp_task_notify_handler on a pipe: the library only reports readiness / EOF / timeout, the callback reads by itself"""
    efl = rng.choice([0, 0, 1, 2]); tmode = rng.choice(["none", "none", "generous", "before"])
    tmo = {"none": 0, "generous": 60000, "before": 25}[tmode]
    n = rng.randint(0, 6); frs = cut(rng, n, rng.randint(1, 3))
    if efl == 1: P = {"P": rng.choice(["gN", "N", "gsN"]), "E": rng.choice(["gE", "E"]), "T": "N", "X": "X", "F": "N"}
    else: P = {"P": rng.choice(["gC", "gC", "gC,gsN", "gdN"]), "E": rng.choice(["gsE", "sE", "gC,gsE"]), "T": rng.choice(["C", "C,sN", "sN"]), "X": "sX", "F": "sN"}
    L = ["m tknew %d 2 4 0 4 0" % k] + pol_lines(k, P)
    L.append("m tkcap %d %s" % (k, ",".join(str(rng.choice([0, 1, 2, 3])) for _ in range(rng.randint(1, 3)))))
    L += w0(["tkcreate %d 0 2 0" % k, "tkstart %d %d 0 %d %d 0" % (k, rng.choice([0, 1]), efl, tmo)])
    for i, (a, c) in enumerate(frs):
        if tmode == "before" and i == 0: L.append("m tkwait %d 1 1 10000" % k)
        L.append("m peerw %d %d %d" % (k, a, c))
        if rng.random() < 0.6: L.append("m quiesce")
    if rng.random() < 0.7: L.append("m peerclose %d" % k)
    L += ["m quiesce", "m tkcount %d" % k, "m tkfree %d" % k, "m reset"]
    return L

def sc_pkt(rng, k, deep):
    """tp_task_pkt_rcvr_create on a datagram socketpair: one callback per datagram, the loop goes on while the callback continues"""
    tr = rng.randint(2, 6); off = rng.randint(0, 2); size = off + tr + rng.randint(0, 1)
    tmode = rng.choice(["none", "none", "generous", "before"]); tmo = {"none": 0, "generous": 60000, "before": 25}[tmode]
    fin = rng.choice(["rsN", "sN", "dN", "rsX"]) if tmo else rng.choice(["rsN", "sN", "rsX"])
    P = {"P": rng.choice(["rC", "rC", "rC,rC," + fin, "C", "rC,C,C," + fin]), "T": rng.choice(["C", "C,sN", "sN"]), "X": rng.choice(["sX", "C,sX"]), "F": "sN", "E": "sN"}
    L = ["m tknew %d 3 %d %d %d %d" % (k, size, off, tr, off)] + pol_lines(k, P)
    if rng.random() < 0.3: L.append("m tkinj %d %d %d" % (k, rng.randint(1, 4), rng.choice([4, 11, 104, 111])))
    L += w0(["varcreate %d 0 %d" % (k, tmo)])
    a = 1
    for i in range(rng.randint(1, 5)):
        if tmode == "before" and i == 0: L.append("m tkwait %d 1 1 10000" % k)
        c = rng.randint(1, tr + (1 if rng.random() < 0.2 else 0))
        L.append("m peerw %d %d %d" % (k, a, c)); a += c
        if rng.random() < 0.5: L.append("m quiesce")
    L += ["m quiesce", "m tkcount %d" % k, "m tkfree %d" % k, "m reset"]
    return L

def sc_accept(rng, k, deep):
    """tp_task_accept_create on a listening TCP socket made with skt_bind/skt_listen: one callback per connection, in order"""
    tmode = rng.choice(["none", "none", "generous", "before"]); tmo = {"none": 0, "generous": 60000, "before": 25}[tmode]
    P = {"P": rng.choice(["C", "C", "C,C,sN", "C,sN", "sN"]), "T": rng.choice(["C", "C,sN", "sN"]), "X": rng.choice(["C", "sX", "C,sX"]), "F": "sN", "E": "sN"}
    L = ["m tknew %d 4 4 0 4 0" % k] + pol_lines(k, P)
    if rng.random() < 0.4: L.append("m tkinj %d %d %d" % (k, rng.randint(1, 4), rng.choice([24, 103, 4, 11, 23])))
    L += w0(["varcreate %d 0 %d" % (k, tmo)])
    for i in range(rng.randint(1, 3)):
        if tmode == "before" and i == 0: L.append("m tkwait %d 1 1 10000" % k)
        L.append("m peerconn %d %d" % (k, rng.randint(1, 3)))
        if rng.random() < 0.6: L.append("m quiesce")
    L += ["m quiesce", "m tkcount %d" % k, "m tkfree %d" % k, "m reset"]
    return L

def sc_connect(rng, k, deep):
    """tp_task_connect_create on a socket from skt_connect(): connected / refused / never answered (timeout)"""
    mode = rng.choice([0, 0, 1, 2]); tmo = 40 if mode == 2 else rng.choice([0, 60000])
    P = {c: rng.choice(["N", "C", "sN", "DN", "E"]) for c in "PFETX"}
    L = ["m tknew %d 5 4 0 4 %d" % (k, mode)] + pol_lines(k, P)
    L += w0(["varcreate %d 0 %d" % (k, tmo)])
    L += ["m tkwait %d 0 1 10000" % k, "m quiesce", "m tkcount %d" % k, "m tkfree %d" % k, "m reset"]
    return L

def sc_eof_with_data(rng, k, deep):
    """the last bytes and the close are there before the task looks: one handler run sees data, then recv() = 0"""
    tr = rng.randint(2, 5); off = rng.randint(0, 2); size = off + tr + rng.randint(0, 1)
    efl = rng.choice([0, 1, 2]); every = rng.random() < 0.3; n = rng.randint(1, tr - 1)
    P = policy(rng, efl, allow_plain=(efl != 0))
    L = ["m tknew %d 0 %d %d %d %d" % (k, size, off, tr, off)] + pol_lines(k, P)
    L.append("m tkcap %d %s" % (k, rng.choice(["0", "1", "2,1", "0,0,1"])))
    L += ["m peerw %d 1 %d" % (k, n), "m peer%s %d" % (rng.choice(["close", "shut"]), k)]
    L += w0(["tkcreate %d 0 0 %d" % (k, 2 if every else 0), "tkstart %d %d 0 %d %d 0" % (k, rng.choice([0, 1]), efl, rng.choice([0, 60000]))])
    L += ["m quiesce", "m tkcount %d" % k, "m tkfree %d" % k, "m reset"]
    return L

def sc_trickle(rng, k, deep):
    """bytes arrive one event at a time into a larger window: the library accumulates across events (tot_transfered_size)
    and reports the sum with the next condition (window full, EOF, timeout)"""
    tr = rng.randint(3, 5); off = rng.randint(0, 2); size = off + tr + rng.randint(0, 1)
    efl = rng.choice([0, 2]); n = rng.randint(2, tr + 1)
    fin = rng.choice(["full", "close", "timeout", "stop", "stop-start", "stop-start"])
    tmo = 40 if fin == "timeout" else rng.choice([0, 60000])
    P = {"P": "C", "F": rng.choice(["sN", "rC,sN"]), "E": "sE", "T": rng.choice(["sN", "C,sN"]), "X": "sX"}
    if fin == "stop-start": P["F"] = "sN"     # (a callback that re-windows the buffer and continues is exercised by the other endings)
    L = ["m tknew %d 0 %d %d %d %d" % (k, size, off, tr, off)] + pol_lines(k, P)
    L += w0(["tkcreate %d 0 0 0" % k, "tkstart %d 0 0 %d %d 0" % (k, efl, tmo)])
    sent = 0
    for i in range(n if fin == "full" else min(n, tr - 1)):
        L += ["m peerw %d %d 1" % (k, i + 1), "m quiesce"]; sent += 1
    if fin == "close": L.append("m peerclose %d" % k)
    elif fin == "timeout": L.append("m tkwait %d 1 1 10000" % k)
    elif fin == "stop": L += w0(["tkstop %d" % k]) + ["m quiesce", "m tkcount %d" % k] + w0(["tkrestart %d" % k]) + ["m peerw %d %d %d" % (k, sent + 1, tr)]
    elif fin == "stop-start":
        # stopped after a partial transfer that produced no callback, then STARTED again (not restarted): a start begins a new
        # account - the octets of the stopped run are not reported by the first callback of the new one (seed C16-7)
        L += w0(["tkstop %d" % k]) + ["m quiesce", "m tkcount %d" % k] + w0(["tkstart %d 0 0 %d %d 0" % (k, efl, tmo)]) + ["m peerw %d %d %d" % (k, sent + 1, tr)]
    L += ["m quiesce", "m tkcount %d" % k, "m tkfree %d" % k, "m reset"]
    return L

KINDS = [("trickle", sc_trickle, 3), ("eof-with-data", sc_eof_with_data, 2), ("notify-pipe", sc_notify, 3), ("pkt-rcvr", sc_pkt, 3), ("accept", sc_accept, 2), ("connect", sc_connect, 2),
         ("stream-read", sc_stream_read, 10), ("stream-write", sc_stream_write, 4), ("file", sc_file, 3),
         ("errpath", sc_errpath, 2), ("dispatch-eof", sc_dispatch_eof, 1), ("oneshot-partial", sc_oneshot_partial, 1)]

def gen_batch(rng, count, deep, perturb=True):
    tasks = []
    bag = [x for x in KINDS for _ in range(x[2])]
    for i in range(count):
        name, fn, _ = KINDS[i] if i < len(KINDS) else rng.choice(bag)   # every kind at least once per batch
        tasks.append((name, fn(rng, i % 16, deep)))
    return tasks

def batch_text(tasks, perturb):
    L = ["m perturb %d" % (1 if perturb else 0), "m watchdog 120"] + HEAD
    for _, t in tasks: L += t
    return "\n".join(L + TAIL) + "\n"

# ------------------------------------------------------------------ validation
KEEP = {"tknew", "tkfill", "tkcreate", "call.start", "ret.start", "call.restart", "ret.restart", "call.stop", "ret.stop", "call.enable",
        "ret.enable", "call.destroy", "ret.destroy", "ev.post", "sys.settime", "sys.fail", "loop.cb", "sys.io", "taskcb.begin", "cb.rewind", "cb.read",
        "taskcb.end", "loop.turn", "peer.write", "peer.conn", "connect", "peer.close", "peer.read", "waited", "quiesce", "tkcount", "Reset"}

def segments(evs):
    """split the log at Reset events (pure slicing); loop.turn events before the first tknew of a segment are dropped"""
    segs = []; cur = []
    for e in evs:
        if e["e"] not in KEEP: continue
        if not cur and e["e"] == "loop.turn": continue
        cur.append(e)
        if e["e"] == "Reset": segs.append(cur); cur = []
    if cur: segs.append(cur + [{"e": "Reset", "n": 0, "t": 100}])
    return segs

def tlc_validate(segs, d, tag):
    """-> (notes [(segment index, note, line event)], rejected (segment index, event) or None, result)"""
    tr = os.path.join(d, "v_%s.ndjson" % tag)
    flat = [e for s in segs for e in s]
    open(tr, "w").write("".join(json.dumps(e) + "\n" for e in flat))
    r = common.tlc("TraceTpTask", cfg="TraceTpTask.cfg", workers=1, env={"TRACE": tr}, timeout=900, xmx="3g", xss="256m")
    starts = []; a = 0
    for s in segs: starts.append(a); a += len(s)
    def seg_of(line):   # 1-based line
        i = 0
        while i + 1 < len(starts) and starts[i + 1] < line: i += 1
        return i
    notes = []
    for o in common.tlc_printed_json(r.out):
        if isinstance(o, dict) and "note" in o: notes.append((seg_of(o["line"]), o["note"], flat[o["line"] - 1]))
    rej = None
    if r.rc != 0:
        m = re.search(r'"REJECTED_AT_LINE",\s*(\d+)', r.out)
        if m:
            ln = int(m.group(1)); rej = (seg_of(ln), flat[ln - 1], flat[max(0, ln - 8):ln])
        elif r.violation and "Invariant" in r.violation:
            ln = r.depth or len(flat); rej = (seg_of(min(ln, len(flat))), {"e": "invariant:" + r.violation}, [])
        else:
            raise common.Infra("TraceTpTask failed without a rejection line:\n" + r.out[-3000:])
    return notes, rej, r

def key_of(note):
    kind, rest = note.split(":", 1)
    return ("deviation:" if kind == "DEVIATION" else "task:") + rest

def single_text(task):
    return batch_text([task], True)

def validate_batch(ctx, exe, tasks, evs, d, tag, seed, st):
    """validate a batch log; a finding is reported only if the scenario alone shows it again (repeat before report)"""
    segs = segments(evs)
    if len(segs) != len(tasks): raise common.Infra("batch %s: %d segments for %d tasks" % (tag, len(segs), len(tasks)))
    base = 0
    todo = segs
    while todo:
        notes, rej, r = tlc_validate(todo, d, tag + "_%d" % base)
        st["tlc_states"] += r.distinct; st["tlc_wall"] += r.wall
        upto = len(todo) if rej is None else rej[0]
        for si in range(upto + (1 if rej else 0)):
            st["events"] += len(todo[si]) if si < upto else 0
        per = {}
        for si, note, ev in notes:
            if rej is not None and si > rej[0]: continue
            per.setdefault(si, []).append((note, ev))
        for si, lst in per.items():
            report(ctx, exe, tasks[base + si], [n for n, _ in lst], None, d, seed, st)
        if rej is None:
            st["traces"] += len(todo); break
        st["traces"] += rej[0]
        report(ctx, exe, tasks[base + rej[0]], [], rej, d, seed, st)
        base += rej[0] + 1
        todo = todo[rej[0] + 1:]

def report(ctx, exe, task, notes, rej, d, seed, st):
    name, lines = task
    devs = sorted(set(n for n in notes if n.startswith("DEVIATION")))
    props = sorted(set(n for n in notes if n.startswith("PROPERTY")))
    text = single_text(task)
    for n in devs:       # known defects modelled exactly: keyed findings (one report per key)
        st["devs"][n] = st["devs"].get(n, 0) + 1
        if st["devs"][n] == 1:
            ctx.fail(key_of(n), "scenario kind %s\n%s" % (name, "\n".join(lines)), {"scenario": text, "note": n})
    if not props and rej is None: return
    # repeat before report
    st["reruns"] += 1
    rc, out, evs = run_driver(exe, text, d, seed, "rerun%d" % st["reruns"])
    bad = [e for e in evs if e["e"] in ("Hang", "BadOp", "Crash")]
    if bad or rc != 0:
        if rc != 0 and common.san_key(out):
            k = common.san_key(out); ctx.fail("task:sanitizer:%s:%s" % (k[0], k[1]), out[-3000:], {"scenario": text}); return
        raise common.Infra("task_drv (re-run) rc=%s %s\n%s" % (rc, bad[:2], out[-1500:]))
    notes2, rej2, _ = tlc_validate(segments(evs), d, "rerun%d" % st["reruns"])
    props2 = set(n for _, n, _ in notes2 if n.startswith("PROPERTY"))
    hit = False
    for n in props:
        if n in props2:
            hit = True
            if n in st["props"]: continue          # one report per key
            st["props"].add(n)
            ctx.fail(key_of(n), "scenario kind %s\n%s" % (name, "\n".join(lines)), {"scenario": text, "note": n})
    if rej is not None and rej2 is not None and rej2[1].get("e") == rej[1].get("e"):
        hit = True
        ctx.fail("trace:TpTask:rejected-at:%s" % rej[1].get("e"), json.dumps({"event": rej[1], "context": rej[2]}, indent=1)[:3500] +
                 "\nscenario kind %s\n%s" % (name, "\n".join(lines)), {"scenario": text})
    if not hit:
        ctx.log("finding not reproduced on re-run (not reported): %s %s" % (props, rej[1] if rej else ""))

def selftest(ctx, segs, d):
    """the trace spec must notice a tampered log: a changed count, a changed buffer byte, a dropped arming call"""
    seg = None; tried = 0
    for s in segs:
        cbs = [e for e in s if e["e"] == "taskcb.begin" and e["nb"] > 0 and e["err"] == 0]
        if cbs and any(e["e"] == "ev.post" for e in s) and s[0]["e"] == "tknew" and s[0]["kind"] == 0:
            tried += 1
            notes, rej, _ = tlc_validate([s], d, "self_base")      # only a trace that is clean by itself is a meaningful base
            if rej is None and not notes: seg = s; break
            if tried >= 6: break
    if seg is None: return 0
    def tamper(kind):
        out = []; done = False
        for e in seg:
            e = dict(e)
            if not done and kind == "count" and e["e"] == "taskcb.begin" and e["nb"] > 0: e["nb"] += 1; done = True
            elif not done and kind == "byte" and e["e"] == "taskcb.begin" and e["nb"] > 0:
                m = list(e["mem"]); m[e["off"] - 1] = (m[e["off"] - 1] + 1) % 250; e["mem"] = m; done = True
            elif not done and kind == "post" and e["e"] == "ev.post": done = True; continue
            out.append(e)
        return out
    n = 0
    for kind in ("count", "byte", "post"):
        notes, rej, r = tlc_validate([tamper(kind)], d, "self_" + kind)
        if rej is None and not any(x[1].startswith("PROPERTY") for x in notes):
            raise common.Infra("selftest: a tampered trace (%s) was accepted without a finding" % kind)
        n += 1
    return n

def crashed(rc, out, evs):
    """a fault inside the library (pool thread touching a destroyed task ...) is an observation, not a rig failure; so is a pool
    thread that does not come back from the library (the driver's bounded waits: join 30 s, quiesce 20 s, watchdog 120 s per line,
    for task lives that take less than a second) - the driver ends the run at the first one"""
    c = [e for e in evs if e["e"] == "Crash"]
    if c: return "sig%s" % c[0].get("sig")
    h = [e for e in evs if e["e"] == "Hang" and e.get("where") in ("join", "quiesce", "watchdog")]
    if h: return "no-return:%s" % h[0]["where"]
    if rc != 0 and common.san_key(out):
        k = common.san_key(out); return "%s:%s" % (k[0], k[1])
    return None

def process_batch(ctx, exe, bld, tasks, res, d, tag, seed, st, depth):
    rc, out, evs = res
    cr = crashed(rc, out, evs)
    bad = [e for e in evs if e["e"] == "BadOp" or (e["e"] == "Hang" and not (cr or "").startswith("no-return"))]
    if bad or (rc != 0 and not cr): raise common.Infra("task_drv batch %s (%s) rc=%s %s\n%s" % (tag, bld, rc, bad[:2], out[-1500:]))
    if not cr:
        validate_batch(ctx, exe, tasks, evs, d, tag, seed, st); return
    nreset = sum(1 for e in evs if e["e"] == "Reset")
    last = max([i for i, e in enumerate(evs) if e["e"] == "Reset"], default=-1)
    if nreset: validate_batch(ctx, exe, tasks[:nreset], evs[:last + 1], d, tag + "p", seed, st)
    if nreset < len(tasks):
        culprit = tasks[nreset]
        tail = [e for e in evs[last + 1:] if e["e"] != "Crash"]
        segs = segments(tail)
        if segs:      # what the specification says about the life that ended in the fault
            notes, rej, _ = tlc_validate(segs[:1], d, tag + "c")
            report(ctx, exe, culprit, [n for _, n, _ in notes], rej, d, seed, st)
        if cr.startswith("no-return") and ("task:fault-in-library:%s" % cr) in st["props"]:
            # already reported (reproduced twice); every further occurrence costs the driver's bounded wait again: the task lives
            # behind it are not run - the check ends with its verdict in bounded time
            st["not_run_after_no_return"] = st.get("not_run_after_no_return", 0) + len(tasks) - nreset
            return
        st["reruns"] += 1
        rc2, out2, evs2 = run_driver(exe, single_text(culprit), d, seed, "crash%d" % st["reruns"])
        cr2 = crashed(rc2, out2, evs2)
        if cr2:
            key = "task:fault-in-library:%s" % cr2
            if key not in st["props"]:
                st["props"].add(key)
                ctx.fail(key, "the driver died inside the library while running this task life (twice)\nscenario kind %s\n%s\n%s" %
                         (culprit[0], "\n".join(culprit[1]), out2[-1500:]), {"scenario": single_text(culprit)})
        else:
            ctx.log("fault not reproduced on re-run (not reported): %s" % cr)
        rest = tasks[nreset + 1:]
        if rest and depth < 4:
            res2 = run_driver(exe, batch_text(rest, True), d, seed + 7 * (depth + 1), tag + "r%d" % depth, timeout=600)
            process_batch(ctx, exe, bld, rest, res2, d, tag + "r%d" % depth, seed, st, depth + 1)

def run(ctx):
    ctx.level = "model_checking"
    d = common.scratch()
    rng = random.Random(ctx.seed * 7919 + 16)
    # (i) the model
    r = common.tlc("MC_TpTask", cfg="MC_TpTask.cfg" if ctx.quick else "MC_TpTask_big.cfg", workers=4, coverage=ctx.quick, timeout=1500, xmx="8g")
    ctx.tlc_stats(r, "MC_TpTask")
    if r.rc != 0: ctx.fail("model:TpTask:" + (r.violation or "error"), r.out[-3000:], {})
    if ctx.quick:
        never = [a for a, (taken, _) in r.coverage.items() if taken == 0 and a in
                 ("Start", "StartFails", "KIo", "KTmr", "XferStep", "XferHardError", "Callback", "Post", "DStart", "OwnerOp", "PeerW", "PeerC")]
        if never: raise common.Infra("vacuity: MC_TpTask actions never taken: %s" % never)
    else:
        for inv in ("ReachTot", "ReachEofAndErr", "ReachTimeoutWithBytes", "ReachWriteDone"):   # antecedents are reachable
            cfg = open(os.path.join(common.tlc_workspace(), "MC_TpTask.cfg")).read()
            cfg = re.sub(r"INVARIANTS.*", "INVARIANTS " + inv, cfg)
            open(os.path.join(common.tlc_workspace(), "MC_TpTask_%s.cfg" % inv), "w").write(cfg)
            rr = common.tlc("MC_TpTask", cfg="MC_TpTask_%s.cfg" % inv, workers=4, timeout=600)
            if rr.rc != 12: raise common.Infra("vacuity: %s is not reachable in MC_TpTask (rc=%s)" % (inv, rr.rc))
    # (ii) the implementation
    builds = [None] if ctx.quick else [None, "asan"]
    exes = {b: build(d, b) for b in builds}
    nb, per = (4, 28) if ctx.quick else (40, 100)
    st = {"traces": 0, "events": 0, "tlc_states": 0, "tlc_wall": 0.0, "reruns": 0, "devs": {}, "props": set()}
    jobs = []
    for b in range(nb):
        tasks = gen_batch(rng, per, deep=not ctx.quick)
        jobs.append((b, tasks, builds[b % len(builds)], ctx.seed * 1000 + b))
    def runit(j):
        b, tasks, bld, seed = j
        return j, run_driver(exes[bld], batch_text(tasks, True), d, seed, "b%d" % b, timeout=600)
    kinds = {}
    with ThreadPoolExecutor(max_workers=3) as ex:
        results = list(ex.map(runit, jobs))
    for (b, tasks, bld, seed), res in results:
        for name, _ in tasks: kinds[name] = kinds.get(name, 0) + 1
        process_batch(ctx, exes[bld], bld, tasks, res, d, "b%d" % b, seed, st, 0)
        if b == 0 and res[0] == 0: ctx.add(selftests_tampered_traces_rejected=selftest(ctx, segments(res[2]), d))
    ctx.add(traces_validated_against_impl=st["traces"], events_validated=st["events"], evaluations=st["traces"],
            distinct_nontrivial=st["traces"], scenario_kinds=kinds, builds=[b or "gcc-O1" for b in builds],
            trace_tlc_states=st["tlc_states"], reruns=st["reruns"], deviations_seen=st["devs"],
            task_lives_not_run_after_reported_no_return=st.get("not_run_after_no_return", 0),
            samples=[{"scenario": jobs[0][1][0][1]}, {"scenario": jobs[0][1][6][1] if len(jobs[0][1]) > 6 else None}])
    ctx.cov["rule"] = ("one trace = one task life (create, start scheduled or direct, fragments written by the peer, close/shutdown/reset, "
                       "timeouts ordered by bounded waits, owner stop/enable/restart, destroy); every logged event (tpt_ev_* call, timerfd_settime, "
                       "recv/send/pread/pwrite with arguments and bytes, loop delivery, callback arguments + buffer cursors + buffer bytes, return "
                       "code) is one step of TpTask evaluated by TLC; non-trivial = every trace (each has at least one start and its posts)")
    ctx.assumptions += ["epoll back end on Linux; the kernel's readiness/timer expiry is environment",
                        "callbacks obey the documented task contract (no CONTINUE from one-shot tasks; tasks without TP_F_DISPATCH stop or disable themselves before returning another code)",
                        "stop/enable/restart/destroy are issued on the task's own pool thread (or after quiescence at tear-down), as the statement says",
                        "not exercised: tp_task_connect_ex_handler (retry / round-robin / time-limit logic), tp_task_bind_accept(_multi)_create, kqueue back end, SO_RCVLOWAT; the model checker explores the send/recv handler, the other handlers are bound by trace validation only"]
